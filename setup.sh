#!/bin/sh
# Build the framework from files on disk only (offline): Lean models/proofs/drivers and the Rust harness.
set -e
cd "$(dirname "$0")"
export CARGO_NET_OFFLINE=true
mkdir -p .build evidence findings
cd lean
targets="SteelVerif"
for d in SteelVerif/C*/Driver.lean; do
  p=$(basename $(dirname $d) | tr 'A-Z' 'a-z')
  targets="$targets ${p}driver"
done
lake build $targets
cd ../harness
cargo build --bins
echo setup-ok
