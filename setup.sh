#!/bin/sh
# Build the framework from files on disk only (offline): Lean models/proofs/drivers and the Rust harness.
set -e
cd "$(dirname "$0")"
export CARGO_NET_OFFLINE=true
mkdir -p .build evidence findings
(cd lean && lake build)
(cd harness && cargo build --bins)
echo setup-ok
