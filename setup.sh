#!/bin/sh
# Build the framework from files on disk only (offline): Lean models/proofs/drivers and the Rust harness.
# Only what the claimed checks (MANIFEST.json) need must build; anything else (work in progress) is best effort,
# and every check rebuilds what it needs itself anyway.
cd "$(dirname "$0")"
export CARGO_NET_OFFLINE=true
mkdir -p .build evidence findings
claimed=$(python3 -c "import json; print(' '.join(c['property_id'] for c in json.load(open('MANIFEST.json'))['checks']))")
cd lean
need="SteelVerif"
extra=""
for d in SteelVerif/C*/Driver.lean; do
  P=$(basename $(dirname $d))
  p=$(echo $P | tr 'A-Z' 'a-z')
  case " $claimed " in
    *" $P "*) need="$need ${p}driver" ;;
    *) extra="$extra ${p}driver" ;;
  esac
done
lake build $need || { echo "setup: lake build failed"; exit 1; }
for t in $extra; do lake build $t >/dev/null 2>&1 || echo "setup: optional target $t does not build (work in progress)"; done
cd ../harness
bins=""
for P in $claimed; do
  p=$(echo $P | tr 'A-Z' 'a-z')
  [ -f src/bin/$p.rs ] && bins="$bins --bin $p"
done
cargo build --bin vh $bins || { echo "setup: cargo build failed"; exit 1; }
cargo build --bins >/dev/null 2>&1 || echo "setup: some optional harness bins do not build (work in progress)"
echo setup-ok
