/-
C16 — helper lemmas for `Props.stop_round_terminates`: a step of one thread never changes the pc of another
thread, and only a spawn changes the length of the thread list.
-/
import SteelVerif.C16.Lemmas
namespace SteelVerif.C16
open SteelVerif.C15
set_option linter.unusedSimpArgs false
set_option linter.unusedVariables false

/-- The pc of thread `t` (if there is such a thread). -/
def pcAt (s : State) (t : Tid) : Option PC := s.threads[t]?.map (·.pc)

theorem put_len (s : State) (i : Tid) (x : Thread) : (s.put i x).threads.length = s.threads.length := by
  simp [State.put]

theorem pcAt_put_other {s : State} {u t : Tid} (x : Thread) (h : u ≠ t) :
    pcAt (s.put u x) t = pcAt s t := by
  simp [pcAt, State.put, List.getElem?_set, h]

theorem pcAt_put_same {s : State} {i t : Tid} {x y : Thread} (hx : s.threads[i]? = some x)
    (hpc : y.pc = x.pc) : pcAt (s.put i y) t = pcAt s t := by
  by_cases h : i = t
  · subst h
    have hl := lt_of_get hx
    have hx' : s.threads[i] = x := by
      have := List.getElem?_eq_getElem hl; rw [hx] at this; exact (Option.some.inj this).symm
    simp [pcAt, State.put, hl, hx, hpc, hx']
  · exact pcAt_put_other y h

theorem pcAt_upd {s : State} {i t : Tid} {f : Thread → Thread} (hf : ∀ x, (f x).pc = x.pc) :
    pcAt (s.upd i f) t = pcAt s t := by
  unfold State.upd
  split
  · rename_i x hx; exact pcAt_put_same hx (hf x)
  · rfl

theorem pcAt_with (s : State) (t : Tid) (tl hl : Option Tid) (v : Nat) (st : Option Tid) (hu : Bool) :
    pcAt { s with tlock := tl, hlock := hl, ver := v, stopper := st, hostUsed := hu } t = pcAt s t := rfl

/-- A step of thread `u` other than a spawn keeps the length of the thread list and the pc of every other
thread. -/
theorem step_other {s s' : State} {t u : Tid} {a : Act} (hne : u ≠ t) (ha : a ≠ .spawn)
    (hs : step s u a = some s') :
    s'.threads.length = s.threads.length ∧ pcAt s' t = pcAt s t := by
  have hsb : ∀ (x : Thread) (o : Op), stopBegin s u x o = some s' →
      s'.threads.length = s.threads.length ∧ pcAt s' t = pcAt s t := by
    intro x o h
    unfold stopBegin at h
    split at h
    · cases h
    · cases h
      exact ⟨by simp [put_len], by rw [pcAt_put_other _ hne]; rfl⟩
  unfold step at hs
  repeat' split at hs
  all_goals first
    | (cases hs; done)
    | exact hsb _ _ hs
    | (exact absurd rfl ha)
    | (cases hs
       refine ⟨by simp [put_len, upd_len], ?_⟩
       first
         | rfl
         | (simp [pcAt_put_other _ hne, pcAt_upd, pcAt_put_same, *]; done)
         | (simp [pcAt_put_other _ hne, pcAt_upd, pcAt_put_same, *]; rfl))
    | skip

/-- Only a spawn changes the length of the thread list. -/
theorem step_len {s s' : State} {u : Tid} {a : Act} (ha : a ≠ .spawn) (hs : step s u a = some s') :
    s'.threads.length = s.threads.length := by
  exact (step_other (t := u + 1) (Nat.ne_of_lt (Nat.lt_succ_self u)) ha hs).1

theorem pcAt_of {s : State} {t : Tid} {th : Thread} (h : s.threads[t]? = some th) :
    pcAt s t = some th.pc := by simp [pcAt, h]

theorem of_pcAt {s : State} {t : Tid} {p : PC} (h : pcAt s t = some p) :
    ∃ th, s.threads[t]? = some th ∧ th.pc = p := by
  unfold pcAt at h
  cases hth : s.threads[t]? with
  | none => simp [hth] at h
  | some th => exact ⟨th, rfl, by simpa [hth] using h⟩

/-- A stopper changes its pc only by `.step` lines (a host `interrupt()` on its controller changes flags). -/
theorem step_self_nonstep {s s' : State} {t : Tid} {a : Act} {th th' : Thread}
    (hth : s.threads[t]? = some th) (hst : th.pc.isStopper = true) (ha : a ≠ .step)
    (hs : step s t a = some s') (hth' : s'.threads[t]? = some th') : th'.pc = th.pc := by
  have hl := lt_of_get hth
  cases a
  case step => exact absurd rfl ha
  case hostP =>
    simp only [step, hth] at hs; cases hs
    rw [get_put_lt _ (by exact hl)] at hth'; cases hth'; rfl
  case hostS =>
    simp only [step, hth] at hs
    split at hs
    · cases hs; rw [get_put_lt _ hl] at hth'; cases hth'; rfl
    · cases hs
  all_goals (cases hpc : th.pc <;> simp [hpc, PC.isStopper] at hst <;> simp [step, hth, hpc] at hs)

end SteelVerif.C16
