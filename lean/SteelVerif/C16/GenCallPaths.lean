/-
C16 — obligations over the table regenerated from /repo by translate/c16_callpaths.py
(`GenCallPathsTable.lean`): every match arm of steel_vm/{vm.rs, vm/jit.rs, transducers.rs, lazy_stream.rs}
that calls a plain built-in function value (`FuncV` / `BoxedFunction` — the value kinds of all blocking
built-ins: channel/recv, thread-join!, lock-acquire!, time/sleep-ms, read-line, receivers-select, …).
A blocking built-in may be the callee on ANY of these paths; a path that does not wrap the call in
`enter_safepoint` lets a thread block while a stopper waits for it for ever (finding K16b).
-/
import SteelVerif.C16.GenCallPathsTable
namespace SteelVerif.C16

/-- Every path can carry a blocking built-in. -/
def CallPath.blocks (_ : CallPath) : Bool := true

/-- **Full statement (does NOT hold — `not_blocking_paths_publish`).** -/
def BlockingPathsPublish : Prop := ∀ p ∈ callPaths, p.blocks = true → p.publishes = true

/-- The functions whose call of a built-in was NOT inside a safepoint while K16b was open (class predicate of K16b):
callbacks of transducers / lazy streams / `call-with-…` helpers (`call_func_or_else*`, `call_function*`, `transduce`),
`apply`, `call/cc` of a built-in, and the JIT's tail-call / no-arity / boxed helpers.  The exception list of the
obligation is `openK16b`, regenerated from the source and KNOWN_FINDINGS.txt: these functions while the finding is open
and they still have an unpublished arm, nothing once it is `fixed:`. -/
def knownUnpublished : List String :=
  ["call_function_from_mut_slice", "call_function", "call_func_or_else", "call_func_or_else_two_args",
   "call_func_or_else_many_args", "call_cc", "apply", "handle_global_tail_call_deopt_with_args",
   "handle_global_tail_call_deopt_spilled", "handle_global_function_call_with_args",
   "inner_handle_global_function_call_with_args_no_arity", "transduce"]

/-- **Every call of a plain built-in publishes the thread** — outside the functions excused while K16b is open. -/
theorem blocking_paths_publish :
    ∀ p ∈ callPaths, p.blocks = true → p.fn ∉ openK16b → p.publishes = true := by decide

/-- **Full strength** once the finding is closed: no exceptions. -/
theorem blocking_paths_publish_full : openK16b = [] → BlockingPathsPublish := by
  intro h p hp hb
  exact blocking_paths_publish p hp hb (by rw [h]; simp)

/-- The excused functions are the ones of the class, and each of them still has an unpublished arm (the list is tight). -/
theorem open_k16b_tight :
    (openK16b.all fun n => knownUnpublished.contains n && callPaths.any fun p => p.fn == n && !p.publishes) = true := by
  decide

/-- While some arm does not publish, the full statement is false. -/
theorem not_blocking_paths_publish (h : (callPaths.all fun p => p.publishes) = false) : ¬ BlockingPathsPublish := by
  intro hb
  have : (callPaths.all fun p => p.publishes) = true := by
    simp only [List.all_eq_true]
    intro p hp
    exact hb p hp rfl
  rw [h] at this; cases this

/-- The extraction is not empty: the dispatch loop's own call paths are there and publish. -/
theorem callpaths_nonempty :
    30 ≤ callPaths.length ∧ 12 ≤ (callPaths.filter (·.publishes)).length ∧
    (callPaths.any fun p => p.fn == "call_primitive_func" && p.publishes) = true ∧
    (callPaths.any fun p => p.fn == "call_boxed_func" && p.publishes) = true := by decide

/-- Every call of `with_locked_env` is preceded, in the same function, by a heap-lock guard that is KEPT (bound
to a named variable): the model of the current code is the variant `State.fix = true` (`C15.code`).  (Before
/repo d9e2a72a four of these sites were `let _ = …`, which drops the guard at once — finding K16a.) -/
theorem gate_keeps_guard : 7 ≤ gateSites.length ∧ ∀ g ∈ gateSites, g.guardKept = true := by decide

end SteelVerif.C16
