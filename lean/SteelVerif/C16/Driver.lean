/-
C16 driver: as c15driver, and reports whether the reached state is deadlocked / quiescent.
-/
import SteelVerif.C16.Model
open SteelVerif.C15 SteelVerif.C16

def parseAct : String → Option Act
  | "poll" => some .poll | "callPrim" => some .callPrim | "alloc" => some .alloc
  | "setGlobal" => some .setGlobal | "spawn" => some .spawn | "finish" => some .finish
  | "gc" => some .gc | "step" => some .step | "spurious" => some .spurious
  | "hostP" => some .hostP | "hostS" => some .hostS
  | _ => none

partial def loop (h : IO.FS.Stream) (s0 s : State) (gok : Bool) (n : Nat) : IO Unit := do
  let line ← h.getLine
  let fin : IO Unit :=
    IO.println s!"spec deadlocked={deadlocked s} canProgress={canProgress s} quiescent={allQuiescent s} guardOk={gok} steps={n}"
  if line.isEmpty then
    if n > 0 then fin
    return
  let l := line.trimAscii.toString
  if l == "fix" then loop h initFix initFix true 0
  else if l == "reset" then do fin; loop h s0 s0 true 0
  else if l.isEmpty || l.startsWith "#" then loop h s0 s gok n
  else
    match l.splitOn " " with
    | [t, a] =>
      match t.toNat?, parseAct a with
      | some t, some a =>
        let g := if s.fix then GFix s t a else G s t a
        match step s t a with
        | some s' => IO.println s!"ok {if g then 1 else 0}"; loop h s0 s' (gok && g) (n + 1)
        | none => IO.println "bad"; loop h s0 s gok n
      | _, _ => IO.println "bad"; loop h s0 s gok n
    | _ => IO.println "bad"; loop h s0 s gok n

def main (_ : List String) : IO Unit := do
  let h ← IO.getStdin
  loop h init init true 0
