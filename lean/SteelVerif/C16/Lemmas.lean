/-
C16 — helper lemmas: an enabled step moves the thread that takes it.
-/
import SteelVerif.C15.Props
import SteelVerif.C16.Model
namespace SteelVerif.C16
open SteelVerif.C15
set_option linter.unusedSimpArgs false
set_option linter.unusedVariables false

theorem get_put_lt {s : State} {t : Tid} (x : Thread) (h : t < s.threads.length) :
    (s.put t x).threads[t]? = some x := by
  simp [State.put, h]

theorem upd_len (s : State) (i : Tid) (f : Thread → Thread) :
    (s.upd i f).threads.length = s.threads.length := by
  unfold State.upd; split <;> simp

/-- Result of a step, as far as progress is concerned: thread `t` is at a different pc afterwards. -/
def Moves (s : State) (t : Tid) (th : Thread) (r : Option State) : Prop :=
  ∃ s' th', r = some s' ∧ s'.threads[t]? = some th' ∧ th'.pc ≠ th.pc

theorem moves_put {s : State} {t : Tid} {th : Thread} (s1 : State) (x : Thread)
    (hl : t < s1.threads.length) (hne : x.pc ≠ th.pc) : Moves s t th (some (s1.put t x)) :=
  ⟨_, x, rfl, get_put_lt x hl, hne⟩

theorem step_moves {s : State} {t : Tid} {th : Thread} (hth : s.threads[t]? = some th)
    (hen : enabledStep s t th = true) : Moves s t th (step s t .step) := by
  have hl : t < s.threads.length := lt_of_get hth
  cases hpc : th.pc with
  | run => simp [enabledStep, hpc] at hen
  | done => simp [enabledStep, hpc] at hen
  | sawPaused =>
    simp only [step, hth, hpc]
    split <;> exact moves_put _ _ hl (by simp [hpc])
  | pubStore => simp only [step, hth, hpc]; exact moves_put _ _ hl (by simp [hpc])
  | inSafe k =>
    cases k with
    | prim => simp only [step, hth, hpc]; exact moves_put _ _ hl (by simp [hpc])
    | poll => simp only [step, hth, hpc]; exact moves_put _ _ hl (by simp [hpc])
    | alloc =>
      simp only [enabledStep, hpc] at hen
      simp only [step, hth, hpc]
      have : s.hlock.isSome = false := by cases hh : s.hlock <;> simp_all
      simp only [this, Bool.false_eq_true, if_false]
      exact moves_put _ _ hl (by simp [hpc])
    | gate =>
      simp only [enabledStep, hpc] at hen
      simp only [step, hth, hpc]
      have : s.hlock.isSome = false := by cases hh : s.hlock <;> simp_all
      simp only [this, Bool.false_eq_true, if_false]
      exact moves_put _ _ hl (by simp [hpc])
  | regWait c =>
    simp only [enabledStep, hpc] at hen
    simp only [step, hth, hpc]
    have : s.tlock.isSome = false := by cases hh : s.tlock <;> simp_all
    simp only [this, Bool.false_eq_true, if_false]
    exact moves_put _ _ (by rw [upd_len]; exact hl) (by simp [hpc])
  | exitCheck k =>
    simp only [step, hth, hpc]
    split
    · refine moves_put _ _ hl ?_; split <;> simp [hpc]
    · exact moves_put _ _ hl (by simp [hpc])
  | intCheck k =>
    simp only [step, hth, hpc]
    split <;> exact moves_put _ _ hl (by simp [hpc])
  | parking k =>
    simp only [enabledStep, hpc] at hen
    simp only [step, hth, hpc, hen]
    exact moves_put _ _ hl (by simp [hpc])
  | retract k =>
    simp only [step, hth, hpc]
    cases k <;> exact moves_put _ _ hl (by simp [hpc])
  | allocd => simp only [step, hth, hpc]; exact moves_put _ _ hl (by simp [hpc])
  | envReady =>
    simp only [enabledStep, hpc] at hen
    simp only [step, hth, hpc, stopBegin]
    have : s.tlock.isSome = false := by cases hh : s.tlock <;> simp_all
    simp only [this, Bool.false_eq_true, if_false]
    exact moves_put _ _ hl (by simp [hpc])
  | stopP o i =>
    simp only [step, hth, hpc]
    split
    · exact moves_put _ _ hl (by simp [hpc])
    · split
      · exact moves_put _ _ hl (by simp [hpc])
      · split
        · exact moves_put _ _ (by simp; exact hl) (by simp [hpc])
        · exact moves_put _ _ hl (by simp [hpc])
  | stopS o i =>
    simp only [step, hth, hpc]
    split
    · exact moves_put _ _ hl (by simp [hpc])
    · exact moves_put _ _ (by rw [upd_len]; exact hl) (by simp [hpc])
  | scanLock o ph =>
    simp only [enabledStep, hpc] at hen
    simp only [step, hth, hpc]
    have : s.tlock.isSome = false := by cases hh : s.tlock <;> simp_all
    simp only [this, Bool.false_eq_true, if_false]
    split <;> exact moves_put _ _ hl (by simp [hpc])
  | spin o ph i =>
    simp only [enabledStep, hpc] at hen
    simp only [step, hth, hpc]
    split
    · refine moves_put _ _ hl ?_
      cases o <;> cases ph <;> simp [hpc, afterScan]
    · rename_i x hi
      simp only [hi] at hen
      split
      · exact moves_put _ _ hl (by simp [hpc])
      · rename_i hsk
        have hctx : x.ctx = true := by
          have h1 : ¬ (i = t) := fun e => hsk (Or.inl e)
          have h2 : x.reg = true := by
            cases hr : x.reg
            · exact absurd (Or.inr (Or.inl hr)) hsk
            · rfl
          have h3 : ¬ (x.pc = .done) := fun e => hsk (Or.inr (Or.inr e))
          simpa [h1, h2, h3] using hen
        simp only [hctx, if_true]
        exact moves_put _ _ (by simp; exact hl) (by simp [hpc])
  | acc o ph i =>
    simp only [step, hth, hpc]
    exact moves_put _ _ (by rw [upd_len]; exact hl) (by simp [hpc])
  | resLock o =>
    simp only [enabledStep, hpc] at hen
    simp only [step, hth, hpc]
    have : s.tlock.isSome = false := by cases hh : s.tlock <;> simp_all
    simp only [this, Bool.false_eq_true, if_false]
    exact moves_put _ _ hl (by simp [hpc])
  | resP o i =>
    simp only [step, hth, hpc]
    split
    · refine moves_put _ _ ?_ (by simp [hpc])
      split <;> exact hl
    · split
      · exact moves_put _ _ hl (by simp [hpc])
      · split
        · exact moves_put _ _ (by simp; exact hl) (by simp [hpc])
        · exact moves_put _ _ hl (by simp [hpc])
  | resS o i =>
    simp only [step, hth, hpc]
    split
    · exact moves_put _ _ hl (by simp [hpc])
    · exact moves_put _ _ (by rw [upd_len]; exact hl) (by simp [hpc])
  | resU o i =>
    simp only [step, hth, hpc]
    split
    · exact moves_put _ _ hl (by simp [hpc])
    · exact moves_put _ _ (by rw [upd_len]; exact hl) (by simp [hpc])

end SteelVerif.C16
