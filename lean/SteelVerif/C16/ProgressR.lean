/-
C16 — progress of the REPAIRED handshake (`SteelVerif.C15.ModelR`): the new exit loop (retract → recheck → republish)
introduces no deadlock and no livelock.
-/
import SteelVerif.C15.PropsR
namespace SteelVerif.C16.R
open SteelVerif.C15.R
set_option linter.unusedSimpArgs false
set_option linter.unusedVariables false

/-- The line `(t, a)` is executable and changes the pc of thread `t`. -/
def moves (s : State) (t : Nat) (a : Act) : Prop :=
  ∃ s', step s t a = some s' ∧ (s'.th t).pc ≠ (s.th t).pc

/-- A step the runtime owes to the script (not: what the script decides, the return of a primitive, a spurious
wake-up, the host's calls). -/
def isRuntime (s : State) (t : Nat) (a : Act) : Prop :=
  a = .poll ∨ (a = .step ∧ (s.th t).pc ≠ .inSafe .prim)

/-- The thread needs nothing from the runtime: finished, free to run script code (no request pending), or inside a
primitive. -/
def quiescent (th : Thread) : Bool :=
  th.pc == .done || (th.pc == .run && !th.stop && !th.intr) || th.pc == .inSafe .prim

def canProgress (s : State) : Prop := ∃ t, t < s.n ∧ ∃ a, isRuntime s t a ∧ moves s t a

macro "mv" : tactic => `(tactic| (simp only [moves, step, *, if_true]; simp [*]))

/-- The heap-lock holder can take a step that changes its pc — unless it is a stopper spinning on a thread that has
not published itself yet. -/
theorem holder_moves {s : State} (h : Inv s) {a : Nat} (ha : s.hlock = some a) :
    moves s a .step ∨ ∃ o ph i, (s.th a).pc = .spin o ph i ∧ i < s.n ∧ i ≠ a ∧ (s.th i).reg = true ∧
      (s.th i).pc ≠ .done ∧ (s.th i).ctx = false := by
  have hn := h.hlk a ha
  have hT := h.thr a hn
  have hH : holdsH (s.th a).pc = true := by rw [hT.hl]; simp [ha]
  have hspc := spc_some ha
  have htl := h.tl
  rw [hspc] at htl
  cases hpc : (s.th a).pc with
  | run => simp [hpc, holdsH] at hH
  | done => simp [hpc, holdsH] at hH
  | pubStore => simp [hpc, holdsH] at hH
  | inSafe k => simp [hpc, holdsH] at hH
  | exitCheck k =>
    left
    by_cases hs : (s.th a).stop = true
    · simp only [moves, step, hn, if_true, hpc, if_pos hs]; simp [hpc]
    · simp only [moves, step, hn, if_true, hpc, if_neg hs]; simp [hpc]
  | parking k =>
    left
    have := hT.c_wait k hpc
    rw [hspc, hpc] at this
    have htk : (s.th a).token = true := by simpa [bu] using this
    simp only [moves, step, hn, if_true, hpc, if_pos htk]; simp [hpc]
  | retract k => left; simp only [moves, step, hn, if_true, hpc]; simp [hpc]
  | recheck k =>
    left
    by_cases hs : (s.th a).stop = true
    · simp only [moves, step, hn, if_true, hpc, if_pos hs]; simp [hpc]
    · by_cases hk : k = .reg
      · subst hk; simp only [moves, step, hn, if_true, hpc, if_neg hs]; simp [hpc]
      · simp only [moves, step, hn, if_true, hpc, if_neg hs, if_neg hk]
        cases k <;> simp_all [leavePC]
  | republish k => left; simp only [moves, step, hn, if_true, hpc]; simp [hpc]
  | allocd => left; simp only [moves, step, hn, if_true, hpc]; simp [hpc]
  | envReady =>
    left
    have : s.tlock = none := by simpa [hpc, holdsT] using htl
    simp only [moves, step, hn, if_true, hpc, stopBegin, this]; simp [hpc]
  | spawnReady =>
    left
    have : s.n ≠ a := Nat.ne_of_gt hn
    simp only [moves, step, hn, if_true, hpc]; simp [hpc, State.put, this]
  | regEnter c => left; simp only [moves, step, hn, if_true, hpc]; simp [hpc]
  | regWait c =>
    left
    have : s.tlock = none := by simpa [hpc, holdsT] using htl
    simp only [moves, step, hn, if_true, hpc, this]; simp [hpc]
  | stopP o i =>
    left
    simp only [moves, step, hn, if_true, hpc]
    by_cases hi : i < s.n
    · by_cases hia : i = a
      · subst hia; simp [hi, hn, hpc]
      · by_cases hr : (s.th i).reg = true
        · simp [hi, hia, hr, hpc]
        · simp [hi, hia, hr, hpc]
    · simp [hi, hpc]
  | scanLock o ph =>
    left
    have : s.tlock = none := by simpa [hpc, holdsT] using htl
    simp only [moves, step, hn, if_true, hpc, this]
    cases o <;> cases ph <;> simp [hpc]
  | spin o ph i =>
    by_cases hi : i < s.n
    · by_cases hsk : (i = a ∨ (s.th i).reg = false ∨ (s.th i).pc = .done)
      · left; simp only [moves, step, hn, if_true, hpc, hi, if_pos hsk]; simp [hpc]
      · by_cases hc : (s.th i).ctx = true
        · left; simp only [moves, step, hn, if_true, hpc, hi, if_neg hsk, if_pos hc]; simp [hpc]
        · right
          refine ⟨o, ph, i, rfl, hi, fun e => hsk (Or.inl e), ?_, fun e => hsk (Or.inr (Or.inr e)), by simpa using hc⟩
          cases hr : (s.th i).reg
          · exact absurd (Or.inr (Or.inl hr)) hsk
          · rfl
    · left; simp only [moves, step, hn, if_true, hpc, hi, if_false]
      cases o <;> cases ph <;> simp [hpc, afterScan]
  | acc o ph i => left; simp only [moves, step, hn, if_true, hpc]; simp [hpc]
  | resLock o =>
    left
    have : s.tlock = none := by simpa [hpc, holdsT] using htl
    simp only [moves, step, hn, if_true, hpc, this]; simp [hpc]
  | resP o i =>
    left
    simp only [moves, step, hn, if_true, hpc]
    by_cases hi : i < s.n
    · by_cases hia : i = a
      · subst hia; simp [hi, hn, hpc]
      · by_cases hr : (s.th i).reg = true
        · simp [hi, hia, hr, hpc]
        · simp [hi, hia, hr, hpc]
    · simp [hi, hpc]
  | resU o i =>
    left
    simp only [moves, step, hn, if_true, hpc]
    by_cases hia : i = a
    · simp [hia, hpc]
    · simp [hia, hpc]


/-- What a thread that does not hold the heap lock can do from the pcs outside a safepoint / in the exit loop. -/
theorem nonholder_moves {s : State} (h : Inv s) {u : Nat} (hu : u < s.n) (hnh : s.hlock ≠ some u)
    (hreq : (s.th u).pc = .run → (s.th u).stop = true ∨ (s.th u).intr = true)
    (hpark : ∀ k, (s.th u).pc = .parking k → (s.th u).token = true)
    (hheap : ∀ k, (s.th u).pc = .inSafe k → k = .prim ∨ s.hlock = none)
    (hnd : (s.th u).pc ≠ .done) (hnp : (s.th u).pc ≠ .inSafe .prim) :
    (moves s u .poll ∨ moves s u .step) := by
  have hT := h.thr u hu
  have hH : holdsH (s.th u).pc = false := by
    rw [hT.hl]; simpa using hnh
  have hok := hT.ok
  cases hpc : (s.th u).pc with
  | run =>
    left
    by_cases hi : (s.th u).intr = true
    · simp only [moves, step, hu, if_true, hpc, if_pos hi]; simp [hpc]
    · have hs : (s.th u).stop = true := by
        rcases hreq hpc with e | e
        · exact e
        · exact absurd e hi
      simp only [moves, step, hu, if_true, hpc, if_neg hi, if_pos hs]; simp [hpc]
  | done => exact absurd hpc hnd
  | pubStore => right; simp only [moves, step, hu, if_true, hpc]; simp [hpc]
  | inSafe k =>
    right
    rcases hheap k hpc with e | e
    · subst e; exact absurd hpc hnp
    · cases k <;> simp [hpc, PC.bogus] at hok <;> first
        | exact absurd hpc hnp
        | (simp only [moves, step, hu, if_true, hpc, isHeapKind, e]; simp [hpc])
  | exitCheck k =>
    right
    by_cases hs : (s.th u).stop = true
    · simp only [moves, step, hu, if_true, hpc, if_pos hs]; simp [hpc]
    · simp only [moves, step, hu, if_true, hpc, if_neg hs]; simp [hpc]
  | parking k =>
    right
    have htk := hpark k hpc
    simp only [moves, step, hu, if_true, hpc, if_pos htk]; simp [hpc]
  | retract k => right; simp only [moves, step, hu, if_true, hpc]; simp [hpc]
  | recheck k =>
    right
    by_cases hs : (s.th u).stop = true
    · simp only [moves, step, hu, if_true, hpc, if_pos hs]; simp [hpc]
    · have hk : k ≠ .reg := by rintro rfl; simp [hpc, holdsH, holdsKind] at hH
      simp only [moves, step, hu, if_true, hpc, if_neg hs, if_neg hk]
      cases k <;> simp_all [leavePC]
  | republish k => right; simp only [moves, step, hu, if_true, hpc]; simp [hpc]
  | allocd => simp [hpc, holdsH] at hH
  | envReady => simp [hpc, holdsH] at hH
  | spawnReady => simp [hpc, holdsH] at hH
  | regEnter c => simp [hpc, holdsH] at hH
  | regWait c => simp [hpc, holdsH] at hH
  | stopP o i => simp [hpc, holdsH] at hH
  | scanLock o ph => simp [hpc, holdsH] at hH
  | spin o ph i => simp [hpc, holdsH] at hH
  | acc o ph i => simp [hpc, holdsH] at hH
  | resLock o => simp [hpc, holdsH] at hH
  | resP o i => simp [hpc, holdsH] at hH
  | resU o i => simp [hpc, holdsH] at hH

theorem runtime_of_moves {s : State} {u : Nat} (hnp : (s.th u).pc ≠ .inSafe .prim)
    (h : moves s u .poll ∨ moves s u .step) : ∃ a, isRuntime s u a ∧ moves s u a := by
  rcases h with h | h
  · exact ⟨.poll, Or.inl rfl, h⟩
  · exact ⟨.step, Or.inr ⟨rfl, hnp⟩, h⟩

/-- The thread a spinning stopper waits for can move (towards publishing itself). -/
theorem awaited_moves {s : State} (h : Inv s) {a : Nat} (ha : s.hlock = some a) {o : Op} {ph i : Nat}
    (hpc : (s.th a).pc = .spin o ph i) (hi : i < s.n) (hia : i ≠ a) (hd : (s.th i).pc ≠ .done)
    (hc : (s.th i).ctx = false) : ∃ b, isRuntime s i b ∧ moves s i b := by
  have hT := h.thr i hi
  have hnh : s.hlock ≠ some i := by rw [ha]; simpa using fun e => hia e.symm
  have hH : holdsH (s.th i).pc = false := by rw [hT.hl]; simpa using hnh
  have hns := not_stopper hH
  have hst : (s.th i).stop = true := by
    rw [hT.c_stop hns, spc_some ha, hpc]; simp [covered]
  have hpub : (s.th i).pc.published = false := by rw [← hT.ctx]; exact hc
  have hnp : (s.th i).pc ≠ .inSafe .prim := by intro e; simp [e, PC.published] at hpub
  refine runtime_of_moves hnp (nonholder_moves h hi hnh (fun _ => Or.inl hst) ?_ ?_ hd hnp)
  · intro k e; simp [e, PC.published] at hpub
  · intro k e; simp [e, PC.published] at hpub

/-- **No deadlock, repaired handshake**: in every state satisfying the invariant either every thread is quiescent
(finished, running script code with no request pending, or inside a primitive) or some thread can take a runtime step
that changes its pc. -/
theorem inv_progress {s : State} (h : Inv s) : (∀ u, u < s.n → quiescent (s.th u) = true) ∨ canProgress s := by
  cases ha : s.hlock with
  | some a =>
    right
    have hn := h.hlk a ha
    rcases holder_moves h ha with hm | ⟨o, ph, i, hpc, hi, hia, _, hd, hc⟩
    · have hnp : (s.th a).pc ≠ .inSafe .prim := by
        intro e
        have := (h.thr a hn).hl
        rw [e] at this; simp [holdsH, ha] at this
      exact ⟨a, hn, .step, Or.inr ⟨rfl, hnp⟩, hm⟩
    · obtain ⟨b, hb, hm⟩ := awaited_moves h ha hpc hi hia hd hc
      exact ⟨i, hi, b, hb, hm⟩
  | none =>
    by_cases hq : ∀ u, u < s.n → quiescent (s.th u) = true
    · exact Or.inl hq
    · right
      have : ∃ u, u < s.n ∧ quiescent (s.th u) = false := by
        apply Classical.byContradiction
        intro hne
        apply hq
        intro u hu
        cases hqu : quiescent (s.th u)
        · exact absurd ⟨u, hu, hqu⟩ hne
        · rfl
      obtain ⟨u, hu, hqu⟩ := this
      have hT := h.thr u hu
      have hnh : s.hlock ≠ some u := by rw [ha]; simp
      have hns : (s.th u).pc.isStopper = false := not_stopper (by rw [hT.hl]; simp [ha])
      have hstop : (s.th u).stop = false := by rw [hT.c_stop hns, spc_none ha]; simp [covered]
      have hnd : (s.th u).pc ≠ .done := by intro e; simp [quiescent, e] at hqu
      have hnp : (s.th u).pc ≠ .inSafe .prim := by intro e; simp [quiescent, e] at hqu
      have h1 : (s.th u).pc = .run → (s.th u).stop = true ∨ (s.th u).intr = true := by
        intro e
        right
        cases hi : (s.th u).intr
        · simp [quiescent, e, hstop, hi] at hqu
        · rfl
      have h2 : ∀ k, (s.th u).pc = .parking k → (s.th u).token = true := by
        intro k e
        have := hT.c_wait k e
        rw [spc_none ha] at this
        simpa [bu] using this
      obtain ⟨b, hb, hm⟩ := runtime_of_moves hnp (nonholder_moves h hu hnh h1 h2 (fun _ _ => Or.inr ha) hnd hnp)
      exact ⟨u, hu, b, hb, hm⟩

/-- **C16 for the repaired handshake, every schedule, no guard** (host interrupts, spawns, overlapping requests
included). -/
theorem no_deadlock_repaired (sched : List (Tid × Act)) :
    (∀ u, u < (run init sched).n → quiescent ((run init sched).th u) = true) ∨ canProgress (run init sched) :=
  inv_progress (run_inv sched inv_init)


/-! ## A stop round terminates -/

/-- The stopper's index is within the thread list (or one past it). -/
def idxOk (n : Nat) : PC → Bool
  | .stopP _ i | .spin _ _ i | .resP _ i => decide (i ≤ n)
  | .acc _ _ i | .resU _ i => decide (i < n)
  | _ => true

/-- Number of pc changes the stopper still has ahead of it, at most (`7·n + 9` at the beginning of a round). -/
def roundRank (n : Nat) : PC → Nat
  | .stopP _ i => (n - i) + 1 + (6 * n + 8)
  | .scanLock _ 0 => 6 * n + 8
  | .spin _ 0 i => 2 * (n - i) + 1 + (4 * n + 6)
  | .acc _ 0 i => 2 * (n - i) + (4 * n + 6)
  | .scanLock _ (_ + 1) => 4 * n + 5
  | .spin _ (_ + 1) i => 2 * (n - i) + 1 + (2 * n + 3)
  | .acc _ (_ + 1) i => 2 * (n - i) + (2 * n + 3)
  | .resLock _ => 2 * n + 2
  | .resP _ i => 2 * (n - i) + 1
  | .resU _ i => 2 * (n - i)
  | _ => 0

theorem roundRank_begin (n : Nat) (o : Op) : roundRank n (.stopP o 0) = 7 * n + 9 := by
  simp [roundRank]; omega

/-- Every step of a stopper that changes its pc brings the end of its round closer, keeps its index within the
list, and does not change the number of threads. -/
theorem round_rank_decreases {s s' : State} {t : Nat} (hst : (s.th t).pc.isStopper = true)
    (hidx : idxOk s.n (s.th t).pc = true) (hs : step s t .step = some s')
    (hne : (s'.th t).pc ≠ (s.th t).pc) :
    roundRank s.n (s'.th t).pc < roundRank s.n (s.th t).pc ∧ s'.n = s.n ∧
    ((s'.th t).pc.isStopper = true → idxOk s.n (s'.th t).pc = true) := by
  by_cases ht : t < s.n
  case neg => simp [step, ht] at hs
  cases hpc : (s.th t).pc <;> simp [hpc, PC.isStopper] at hst <;>
    simp only [step, ht, if_true, hpc] at hs <;> rw [hpc] at hne hidx
  case stopP o i =>
    simp only [idxOk, decide_eq_true_eq] at hidx
    by_cases hi : i < s.n
    · have key : roundRank s.n (.stopP o (i + 1)) < roundRank s.n (.stopP o i) ∧
          ((PC.stopP o (i + 1)).isStopper = true → idxOk s.n (.stopP o (i + 1)) = true) := by
        simp [roundRank, idxOk, PC.isStopper]; omega
      simp only [hi, if_true] at hs
      split at hs
      · cases hs; simp only [put_th_same, put_n]; exact ⟨key.1, trivial, key.2⟩
      · split at hs <;> cases hs <;> simp only [put_th_same, put_n, upd_n] <;>
          exact ⟨key.1, trivial, key.2⟩
    · simp only [hi, if_false] at hs; cases hs
      simp [roundRank, idxOk, PC.isStopper] <;> omega
  case scanLock o ph =>
    split at hs
    · cases hs
    · cases o <;> cases ph <;> simp only [] at hs <;> cases hs <;>
        simp [roundRank, idxOk, PC.isStopper] <;> omega
  case spin o ph i =>
    simp only [idxOk, decide_eq_true_eq] at hidx
    by_cases hi : i < s.n
    · simp only [hi, if_true] at hs
      split at hs
      · cases hs
        cases ph <;> simp [roundRank, idxOk, PC.isStopper] <;> omega
      · split at hs
        · cases hs
          cases ph <;> simp [roundRank, idxOk, PC.isStopper, hi] <;> omega
        · cases hs; exact absurd hpc hne
    · simp only [hi, if_false] at hs; cases hs
      cases o <;> cases ph <;> simp [roundRank, idxOk, PC.isStopper, afterScan] <;> omega
  case acc o ph i =>
    simp only [idxOk, decide_eq_true_eq] at hidx
    cases hs
    cases ph <;> simp [roundRank, idxOk, PC.isStopper] <;> omega
  case resLock o =>
    split at hs
    · cases hs
    · cases hs; simp [roundRank, idxOk, PC.isStopper] <;> omega
  case resP o i =>
    simp only [idxOk, decide_eq_true_eq] at hidx
    by_cases hi : i < s.n
    · simp only [hi, if_true] at hs
      split at hs
      · cases hs; simp [roundRank, idxOk, PC.isStopper, hi] <;> omega
      · split at hs <;> cases hs <;> simp [roundRank, idxOk, PC.isStopper, hi] <;> omega
    · simp only [hi, if_false] at hs; cases hs
      simp [roundRank, idxOk, PC.isStopper]
  case resU o i =>
    simp only [idxOk, decide_eq_true_eq] at hidx
    split at hs <;> cases hs <;> simp [roundRank, idxOk, PC.isStopper] <;> omega


/-- A step of thread `u` does not change the pc of any other existing thread. -/
theorem step_other_pc {s s' : State} {u : Nat} {a : Act} {t : Nat} (hs : step s u a = some s') (htu : t ≠ u)
    (ht : t < s.n) : (s'.th t).pc = (s.th t).pc := by
  by_cases hu : u < s.n
  case neg => simp [step, hu] at hs
  cases a <;> cases hpc : (s.th u).pc <;>
    simp only [step, hu, if_true, hpc, stopBegin] at hs <;>
    (try (repeat' split at hs)) <;>
    (try (cases hs)) <;>
    (try (simp only [State.put, State.upd])) <;>
    (try (repeat' split)) <;>
    (try simp_all) <;>
    (try omega)

/-- Only the creation of a child changes the number of threads. -/
theorem step_n {s s' : State} {u : Nat} {a : Act} (hs : step s u a = some s') :
    s'.n = s.n ∨ ((s.th u).pc = .spawnReady ∧ s'.n = s.n + 1) := by
  by_cases hu : u < s.n
  case neg => simp [step, hu] at hs
  cases a <;> cases hpc : (s.th u).pc <;>
    simp only [step, hu, if_true, hpc, stopBegin] at hs <;>
    (try (repeat' split at hs)) <;>
    (try (cases hs)) <;>
    (try simp [State.put, State.upd])

/-- While `t` is a stopper nobody creates a thread (a spawner holds the heap lock, and so does the stopper). -/
theorem n_const_in_round {s s' : State} (h : Inv s) {t u : Nat} {a : Act} (ht : t < s.n)
    (hst : (s.th t).pc.isStopper = true) (hs : step s u a = some s') (hut : u ≠ t) : s'.n = s.n := by
  rcases step_n hs with e | e
  · exact e
  · obtain ⟨e, _⟩ := e
    exfalso
    have hu : u < s.n := by
      by_cases hu : u < s.n
      · exact hu
      · simp [step, hu] at hs
    have h1 := (spc_of_holds h ht (stopper_holds hst)).1
    have h2 := (spc_of_holds h hu (by simp [e, holdsH])).1
    rw [h1] at h2
    exact hut (Option.some.inj h2).symm

/-- Number of lines of `sched` at which thread `t`, being a stopper, changes its pc; counting stops when `t` is no
longer a stopper (its round is over) or at the first line that is not executable. -/
def roundMoves (t : Nat) : State → List (Tid × Act) → Nat
  | _, [] => 0
  | s, (u, a) :: rest =>
      if (s.th t).pc.isStopper then
        match step s u a with
        | none => 0
        | some s' => (if u = t ∧ (s'.th t).pc ≠ (s.th t).pc then 1 else 0) + roundMoves t s' rest
      else 0

theorem roundMoves_not_stopper {s : State} {t : Nat} (hst : ¬ (s.th t).pc.isStopper = true)
    (sched : List (Tid × Act)) : roundMoves t s sched = 0 := by
  cases sched with
  | nil => rfl
  | cons x rest => obtain ⟨u, a⟩ := x; simp [roundMoves, hst]

/-- Only `step` lines change a stopper's pc. -/
theorem stopper_nonstep {s s' : State} {t : Nat} {a : Act} (hst : (s.th t).pc.isStopper = true)
    (ha : a ≠ .step) (hs : step s t a = some s') : (s'.th t).pc = (s.th t).pc := by
  by_cases ht : t < s.n
  case neg => simp [step, ht] at hs
  cases a <;> first
    | exact absurd rfl ha
    | (cases hpc : (s.th t).pc <;> simp [hpc, PC.isStopper] at hst <;>
        simp only [step, ht, if_true, hpc] at hs <;> first | (cases hs; simp [hpc]) | cases hs)

/-- **A stop round of the repaired handshake terminates** (in the stopper's own steps), for EVERY interleaving with
the steps of the other threads, host interrupts and spawn attempts included: from every reachable state, thread `t`
changes its pc at most `roundRank n pc` times before its round is over — at most `7·n + 9` times from the beginning of
the round.  Every other line of the stopper is a `ctx.load()` that keeps spinning (`holder_moves`), and then the awaited
thread can move (`awaited_moves`) and is at most 3 of its own steps from publishing itself for the rest of the round
(`awaited_settles`). -/
theorem stop_round_terminates (t : Nat) (sched : List (Tid × Act)) :
    ∀ (s : State), Inv s → t < s.n → idxOk s.n (s.th t).pc = true →
      roundMoves t s sched ≤ roundRank s.n (s.th t).pc := by
  induction sched with
  | nil => intro s _ _ _; simp [roundMoves]
  | cons x rest ih =>
    intro s h ht hidx
    obtain ⟨u, a⟩ := x
    by_cases hst : (s.th t).pc.isStopper = true
    · cases hs : step s u a with
      | none => simp [roundMoves, hs]
      | some s' =>
        have h' := step_inv h hs
        have e : roundMoves t s ((u, a) :: rest) =
            (if u = t ∧ (s'.th t).pc ≠ (s.th t).pc then 1 else 0) + roundMoves t s' rest := by
          simp [roundMoves, hst, hs]
        rw [e]
        by_cases hut : u = t
        · subst hut
          by_cases hch : (s'.th u).pc = (s.th u).pc
          · have hn : s'.n = s.n := by
              rcases step_n hs with e | e
              · exact e
              · rw [e.1] at hst; simp [PC.isStopper] at hst
            have := ih s' h' (by rw [hn]; exact ht) (by rw [hn, hch]; exact hidx)
            rw [hn, hch] at this
            simp [hch]; exact this
          · have hstep : a = .step := by
              apply Classical.byContradiction
              intro hna
              exact hch (stopper_nonstep hst hna hs)
            subst hstep
            obtain ⟨hlt, hn, hidx'⟩ := round_rank_decreases hst hidx hs hch
            by_cases hst' : (s'.th u).pc.isStopper = true
            · have := ih s' h' (by rw [hn]; exact ht) (by rw [hn]; exact hidx' hst')
              rw [hn] at this
              simp [hch]; omega
            · rw [roundMoves_not_stopper hst']
              simp [hch]; omega
        · have hpc := step_other_pc hs (Ne.symm hut) ht
          have hn := n_const_in_round h ht hst hs hut
          have := ih s' h' (by rw [hn]; exact ht) (by rw [hn, hpc]; exact hidx)
          rw [hn, hpc] at this
          simp [hut]; exact this
    · rw [roundMoves_not_stopper hst]; exact Nat.zero_le _


/-! ## The awaited thread settles: no livelock in the new exit loop -/

/-- Own steps a thread with a pending stop request still needs before it is published for good. -/
def need : PC → Nat
  | .retract _ => 3
  | .recheck _ => 2
  | .run => 2
  | .republish _ => 1
  | .pubStore => 1
  | _ => 0

def isHost : Act → Bool
  | .hostInt | .hostRes => true
  | _ => false

/-- One own step of a thread whose STOP bit is set (and that does not hold the heap lock): `need` strictly decreases,
or it is 0 and stays 0 — the thread cannot go round the exit loop again while the request stands. -/
theorem settle_step {s s' : State} {u : Nat} {a : Act} (hH : holdsH (s.th u).pc = false)
    (hlk : s.hlock.isSome = true) (hst : (s.th u).stop = true) (ha : isHost a = false)
    (hs : step s u a = some s') :
    (need (s'.th u).pc < need (s.th u).pc ∨ (need (s.th u).pc = 0 ∧ need (s'.th u).pc = 0)) ∧
    holdsH (s'.th u).pc = false ∧ ((s.th u).pc.published = true → (s'.th u).pc.published = true ∨
      ∃ k, (s.th u).pc = .retract k) := by
  by_cases hu : u < s.n
  case neg => simp [step, hu] at hs
  cases a <;> simp [isHost] at ha <;> cases hpc : (s.th u).pc <;> simp [hpc, holdsH] at hH <;>
    simp only [step, hu, if_true, hpc, hst, stopBegin, hlk] at hs <;>
    (try (repeat' split at hs)) <;>
    (try (cases hs)) <;>
    simp_all [need, holdsH, holdsKind, PC.published, isHeapKind, leavePC]

/-- A settled thread (need = 0) with a pending stop request that is not finished is published. -/
theorem settled_published {s : State} (h : Inv s) {u : Nat} (hu : u < s.n) (hH : holdsH (s.th u).pc = false)
    (hn : need (s.th u).pc = 0) (hd : (s.th u).pc ≠ .done) : (s.th u).ctx = true := by
  have hT := h.thr u hu
  rw [hT.ctx]
  cases hpc : (s.th u).pc <;> simp_all [need, holdsH, PC.published]

/-- … so the stopper that reaches its entry does not wait for it. -/
theorem settled_unblocks {s : State} (h : Inv s) {a : Nat} (ha : s.hlock = some a) {o : Op} {ph i : Nat}
    (hpc : (s.th a).pc = .spin o ph i) (hn : i < s.n → i ≠ a → need (s.th i).pc = 0) : moves s a .step := by
  rcases holder_moves h ha with hm | ⟨o', ph', i', hpc', hi, hia, _, hd, hc⟩
  · exact hm
  · rw [hpc] at hpc'
    cases hpc'
    have hnh : s.hlock ≠ some i := by rw [ha]; simpa using fun e => hia e.symm
    have hH : holdsH (s.th i).pc = false := by rw [(h.thr i hi).hl]; simpa using hnh
    have := settled_published h hi hH (hn hi hia) hd
    rw [hc] at this; cases this

/-- Lines of `sched` that are own steps of thread `u` taken while its STOP bit is set and it is not settled yet;
counting stops when the bit is cleared (the round has passed `u`'s entry in `resume_threads`) or at the first line that
is not executable. -/
def waitSteps (u : Nat) : State → List (Tid × Act) → Nat
  | _, [] => 0
  | s, (v, a) :: rest =>
      if (s.th u).stop then
        match step s v a with
        | none => 0
        | some s' => (if v = u ∧ isHost a = false ∧ 0 < need (s.th u).pc then 1 else 0) + waitSteps u s' rest
      else 0

/-- **No livelock in the new exit loop**: for every interleaving (stopper steps, other threads, host interrupts,
spurious wake-ups), a thread whose STOP bit is set takes at most `need pc ≤ 3` own steps before it is settled — published,
and published again after every further own step, for as long as the bit stays set.  Within one round the bit is set
once (`stopP u`) and cleared once (`resP u`), so during a round every other thread makes the stopper wait for at most 3
of its own steps in total; a thread can go round `retract → recheck → republish` at most once per round. -/
theorem awaited_settles (u : Nat) (sched : List (Tid × Act)) :
    ∀ (s : State), Inv s → u < s.n → holdsH (s.th u).pc = false → waitSteps u s sched ≤ need (s.th u).pc := by
  induction sched with
  | nil => intro s _ _ _; simp [waitSteps]
  | cons x rest ih =>
    intro s h hu hH
    obtain ⟨v, a⟩ := x
    by_cases hst : (s.th u).stop = true
    · cases hs : step s v a with
      | none => simp [waitSteps, hs]
      | some s' =>
        have h' := step_inv h hs
        have hn' : u < s'.n := by
          rcases step_n hs with e | ⟨_, e⟩ <;> rw [e] <;> omega
        have e : waitSteps u s ((v, a) :: rest) =
            (if v = u ∧ isHost a = false ∧ 0 < need (s.th u).pc then 1 else 0) + waitSteps u s' rest := by
          simp [waitSteps, hst, hs]
        rw [e]
        by_cases hvu : v = u
        · subst hvu
          by_cases hah : isHost a = true
          · -- the host's call on `u`'s controller: the pc does not change
            have hpc : (s'.th v).pc = (s.th v).pc := by
              have hv : v < s.n := hu
              cases a <;> simp [isHost] at hah <;> simp only [step, hv, if_true] at hs <;> cases hs <;> simp
            have := ih s' h' hn' (by rw [hpc]; exact hH)
            rw [hpc] at this
            simp [hah]; exact this
          · have hah' : isHost a = false := by simpa using hah
            have hlk : s.hlock.isSome = true := by
              have hT := h.thr v hu
              have hc := hT.c_stop (not_stopper hH)
              rw [hst] at hc
              cases hl : s.hlock with
              | some b => rfl
              | none => rw [spc_none hl] at hc; simp [covered] at hc
            obtain ⟨hdec, hH', _⟩ := settle_step hH hlk hst hah' hs
            have := ih s' h' hn' hH'
            rcases hdec with hlt | ⟨h0, h0'⟩
            · by_cases hp : 0 < need (s.th v).pc
              · simp [hah', hp]; omega
              · simp [hah', hp]; omega
            · simp [hah', h0]; omega
        · have hpc := step_other_pc hs (Ne.symm hvu) hu
          have := ih s' h' hn' (by rw [hpc]; exact hH)
          rw [hpc] at this
          simp [hvu]; exact this
    · have : (s.th u).stop = false := by simpa using hst
      simp [waitSteps, this]

theorem need_le_three (p : PC) : need p ≤ 3 := by cases p <;> simp [need]


/-! ## Wrapping a blocking built-in in a safepoint cannot deadlock (repair of K16b)

A thread inside a primitive's safepoint (`inSafe prim`: blocked in `channel/recv`, `thread-join!`, …) holds neither the heap
lock nor the `threads` mutex, and a stopper that reaches its entry finds it published and does not wait for it: publishing
a blocked thread takes nothing away from the others.  (Source side: `C16.blocking_paths_publish(_full)` — which call paths
publish; `C16.heap_lock_inside_safepoint`, `C16.spin_holds_no_unpublished_lock` — which locks exist around them.) -/

theorem prim_holds_no_lock {s : State} (h : Inv s) {u : Nat} (hu : u < s.n) (hp : (s.th u).pc = .inSafe .prim) :
    s.hlock ≠ some u ∧ s.tlock ≠ some u := by
  have hT := h.thr u hu
  have hH : holdsH (s.th u).pc = false := by simp [hp, holdsH]
  have hne : s.hlock ≠ some u := by
    have := hT.hl; rw [hH] at this; simpa using this.symm
  refine ⟨hne, ?_⟩
  intro ht
  have := h.tl
  rw [ht] at this
  split at this
  · exact hne this.symm
  · cases this

/-- A stopper spinning on the entry of a thread that is blocked inside a primitive moves on at once. -/
theorem blocked_in_prim_unblocks_stopper {s : State} (h : Inv s) {a : Nat} (ha : s.hlock = some a) {o : Op} {ph i : Nat}
    (hpc : (s.th a).pc = .spin o ph i) (hp : i < s.n → (s.th i).pc = .inSafe .prim) : moves s a .step :=
  settled_unblocks h ha hpc (fun hi _ => by rw [hp hi]; rfl)

/-! ## Non-vacuity (the K15a interleaving `C15.R.exitRaceR`, two threads) -/

/-- The round of `exitRaceR` from the state in which thread 0 has just entered `stop_threads`: the stopper changes its
pc 19 times (bound `7·2 + 9 = 23`), and the round is over at the end. -/
example :
    let s := run init (exitRaceR.take 20)
    let rest := exitRaceR.drop 20 ++ List.replicate 13 (0, .step) ++ List.replicate 4 (1, .step)
    (s.th 0).pc = .stopP .env 0 ∧ roundMoves 0 s rest = 19 ∧ roundRank s.n (.stopP .env 0) = 23 ∧
    ((run s rest).th 0).pc = .run ∧ (run s rest).noRound = true := by decide

example : roundMoves 0 (run init (exitRaceR.take 20)) (exitRaceR.drop 20) ≤ 23 :=
  stop_round_terminates 0 _ _ (run_inv _ inv_init) (by decide) (by decide)

/-- Thread 1 was caught at `retract` by the stop request (the K15a window): it takes exactly 3 own steps (retract,
re-check, re-publish) before it is settled, the bound `need (retract) = 3` is tight, and it stays published after. -/
example :
    let s := run init (exitRaceR.take 22)
    let rest := exitRaceR.drop 22 ++ List.replicate 5 (0, .step)
    (s.th 1).pc = .retract .prim ∧ (s.th 1).stop = true ∧ waitSteps 1 s rest = 3 ∧ need (s.th 1).pc = 3 := by decide

example : waitSteps 1 (run init (exitRaceR.take 22)) (exitRaceR.drop 22) ≤ 3 :=
  awaited_settles 1 _ _ (run_inv _ inv_init) (by decide) (by decide)

/-- `no_deadlock_repaired` in the state of `exitRaceR` (thread 1 parked and scanned, thread 0 at `acc`): not every
thread is quiescent, so some runtime step is possible — here the stopper's. -/
example : canProgress (run init exitRaceR) := by
  rcases no_deadlock_repaired exitRaceR with h | h
  · have h1 : quiescent ((run init exitRaceR).th 1) = true := h 1 (by decide)
    have h2 : quiescent ((run init exitRaceR).th 1) = false := by decide
    rw [h1] at h2; cases h2
  · exact h

end SteelVerif.C16.R
