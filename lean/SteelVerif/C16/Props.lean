/-
C16 — property theorems: threads always make progress through collections and global updates.

Same transition system as C15 (`SteelVerif.C15.Model`: the safepoint handshake with the heap mutex, the
`threads` mutex, park tokens, spawn / registration), definitions of progress in `SteelVerif.C16.Model`.
All theorems are for every number of threads and every schedule (interleaving of the atomic steps).

The code as it is CAN deadlock: `dual_stopper_deadlock` is a concrete schedule (two threads that assign a
global) ending in a state in which two threads wait for the runtime and no runtime step changes anything
(finding K16a).  `no_deadlock_partial` is the statement under the guard `C15.G` ("one stop request at a
time …"); `no_deadlock_fixed` is the statement for the repaired variant `State.fix` (the heap-lock guard is
kept during `with_locked_env`), where the "one at a time" clause of the guard is no longer needed.
-/
import SteelVerif.C16.Lemmas
import SteelVerif.C16.LemmasRound
import SteelVerif.C16.ProgressR
namespace SteelVerif.C16
open SteelVerif.C15
set_option linter.unusedSimpArgs false
set_option linter.unusedVariables false

/-! ## Productive steps -/

theorem productive_of_moves {s : State} {t : Tid} {th : Thread} {a : Act}
    (hth : s.threads[t]? = some th) (hm : Moves s t th (step s t a)) : productive s t a = true := by
  obtain ⟨s', th', hs, hth', hne⟩ := hm
  simp only [productive, hs]
  simp only [decide_eq_true_eq]
  intro e
  rw [e, hth] at hth'
  cases hth'
  exact hne rfl

theorem canProgress_of {s : State} {t : Tid} {a : Act} (hl : t < s.threads.length)
    (ha : a = .poll ∨ a = .step) (hr : isRuntime s t a = true) (hp : productive s t a = true) :
    canProgress s = true := by
  simp only [canProgress, List.any_eq_true]
  refine ⟨t, List.mem_range.mpr hl, a, ?_, by simp [hr, hp]⟩
  rcases ha with rfl | rfl <;> simp

/-- A thread with an enabled step that is not inside a primitive lets the system progress. -/
theorem progress_step {s : State} {t : Tid} {th : Thread} (hth : s.threads[t]? = some th)
    (hen : enabledStep s t th = true) (hnp : th.pc ≠ .inSafe .prim) : canProgress s = true := by
  refine canProgress_of (lt_of_get hth) (Or.inr rfl) ?_ (productive_of_moves hth (step_moves hth hen))
  simp [isRuntime, hth, hnp]

/-- A dispatching thread whose pause flag is raised can poll. -/
theorem progress_poll {s : State} {t : Tid} {th : Thread} (hth : s.threads[t]? = some th)
    (hpc : th.pc = .run) (hp : th.paused = true) : canProgress s = true := by
  refine canProgress_of (lt_of_get hth) (Or.inl rfl) (by simp [isRuntime, hth]) ?_
  refine productive_of_moves hth ?_
  simp only [step, hth, hpc, hp, if_true]
  exact moves_put _ _ (lt_of_get hth) (by simp [hpc])

/-! ## The stopper can always move, or the thread it waits for can -/

theorem stopper_progress {s : State} (h : Inv s) (hh : s.hostUsed = false) {a : Tid}
    (hs : s.stopper = some a) : canProgress s = true := by
  have hal := h.stp a hs
  have hth : s.threads[a]? = some s.threads[a] := List.getElem?_eq_getElem hal
  generalize s.threads[a] = tha at hth
  have hself := (h.thr a tha hth).1 hs
  have htl := tl_of h hs hth
  have hst := hself.st
  -- every stopper pc except a waiting `spin` has an enabled step
  by_cases hen : enabledStep s a tha = true
  · exact progress_step hth hen (by intro e; rw [e] at hst; simp [PC.isStopper] at hst)
  · -- not enabled: a lock is taken, or the awaited thread has not published
    cases hpc : tha.pc with
    | scanLock o ph =>
      rw [hpc] at htl; simp [holdsT] at htl
      simp [enabledStep, hpc, htl] at hen
    | resLock o =>
      rw [hpc] at htl; simp [holdsT] at htl
      simp [enabledStep, hpc, htl] at hen
    | spin o ph i =>
      simp only [enabledStep, hpc] at hen
      cases hi : s.threads[i]? with
      | none => simp [hi] at hen
      | some x =>
        simp only [hi] at hen
        have hia : i ≠ a := by intro e; simp [e] at hen
        have hxc := (h.thr i x hi).2 (by rw [hs]; intro e; exact hia (Option.some.inj e).symm)
        rw [proj_at hs hth, hpc] at hxc
        have hcov := hxc.cov (by simp [projAt, covered])
        have hnh := hxc.nh (by simpa [projAt] using hh)
        have hctx : x.ctx = false := by cases hc : x.ctx <;> simp_all
        have hpub : x.pc.published = false := by rw [← hxc.ctx]; exact hctx
        have hnd : x.pc ≠ .done := by intro e; simp [e] at hen
        have hpz : x.paused = true := hcov.1
        -- the awaited thread is dispatching, in the poll, or about to release the heap lock
        cases hx : x.pc with
        | run => exact progress_poll hi hx hpz
        | sawPaused => exact progress_step hi (by simp [enabledStep, hx]) (by simp [hx])
        | pubStore => exact progress_step hi (by simp [enabledStep, hx]) (by simp [hx])
        | allocd => exact progress_step hi (by simp [enabledStep, hx]) (by simp [hx])
        | done => exact absurd hx hnd
        | envReady => have := hcov.2.2; simp [hx, PC.leaving] at this
        | retract k => have := hcov.2.2; simp [hx, PC.leaving] at this
        | inSafe k => simp [hx, PC.published] at hpub
        | regWait c => simp [hx, PC.published] at hpub
        | exitCheck k => simp [hx, PC.published] at hpub
        | intCheck k => simp [hx, PC.published] at hpub
        | parking k => simp [hx, PC.published] at hpub
        | stopP o i => have := hxc.nst; simp [hx, PC.isStopper] at this
        | stopS o i => have := hxc.nst; simp [hx, PC.isStopper] at this
        | scanLock o ph => have := hxc.nst; simp [hx, PC.isStopper] at this
        | spin o ph i => have := hxc.nst; simp [hx, PC.isStopper] at this
        | acc o ph i => have := hxc.nst; simp [hx, PC.isStopper] at this
        | resLock o => have := hxc.nst; simp [hx, PC.isStopper] at this
        | resP o i => have := hxc.nst; simp [hx, PC.isStopper] at this
        | resS o i => have := hxc.nst; simp [hx, PC.isStopper] at this
        | resU o i => have := hxc.nst; simp [hx, PC.isStopper] at this
    | run => simp [hpc, PC.isStopper] at hst
    | sawPaused => simp [hpc, PC.isStopper] at hst
    | pubStore => simp [hpc, PC.isStopper] at hst
    | inSafe k => simp [hpc, PC.isStopper] at hst
    | regWait c => simp [hpc, PC.isStopper] at hst
    | exitCheck k => simp [hpc, PC.isStopper] at hst
    | intCheck k => simp [hpc, PC.isStopper] at hst
    | parking k => simp [hpc, PC.isStopper] at hst
    | retract k => simp [hpc, PC.isStopper] at hst
    | allocd => simp [hpc, PC.isStopper] at hst
    | envReady => simp [hpc, PC.isStopper] at hst
    | done => simp [hpc, PC.isStopper] at hst
    | stopP o i => simp [enabledStep, hpc] at hen
    | stopS o i => simp [enabledStep, hpc] at hen
    | acc o ph i => simp [enabledStep, hpc] at hen
    | resP o i => simp [enabledStep, hpc] at hen
    | resS o i => simp [enabledStep, hpc] at hen
    | resU o i => simp [enabledStep, hpc] at hen

/-- Non-vacuity of `stopper_progress`: `C15.goodRound` (two threads; thread 0 is in the middle of a
`with_locked_env` round and has begun to scan thread 1, which is parked at the dispatch poll) satisfies all
hypotheses, with a stopper. -/
example : canProgress (runG init goodRound) = true :=
  stopper_progress (a := 0) (runG_inv goodRound inv_init) (by decide) (by decide)

/-- The waiting case of `stopper_progress` (the stopper spins on `ctx[1]`, thread 1 is dispatching with its
pause flag raised and can poll): the stopper's own step is not productive, the poll of thread 1 is. -/
def spinWait : List (Tid × Act) :=
  [(0, .spawn)] ++ List.replicate 3 (0, .step) ++ [(0, .setGlobal)] ++ List.replicate 12 (0, .step)

example : (runG init spinWait).threads.map (·.pc) = [.spin .env 0 1, .run] ∧
    productive (runG init spinWait) 0 .step = false ∧ productive (runG init spinWait) 1 .poll = true := by
  decide

example : canProgress (runG init spinWait) = true :=
  stopper_progress (a := 0) (runG_inv spinWait inv_init) (by decide) (by decide)

/-- No round in progress: a thread that waits for the runtime can move, or the holder of the lock it
waits for can. -/
theorem idle_progress {s : State} (h : Inv s) (hh : s.hostUsed = false) (hs : s.stopper = none)
    {u : Tid} {th : Thread} (hth : s.threads[u]? = some th) (hq : quiescent th = false) :
    canProgress s = true := by
  have hc := (h.thr u th hth).2 (by simp [hs])
  rw [proj_eq, spc_none hs] at hc
  have hnh := hc.nh (by simpa using hh)
  have htl : s.tlock = none := by have := h.tl; simpa [spc_none hs, holdsT] using this
  have hpz : th.paused = false := by simpa [covered] using hnh.1
  have htok : th.pc.waiting = true → th.token = true := by
    intro hw
    cases ht : th.token
    · have := hnh.2.2.2 hw ht; simp [beforeUnpark] at this
    · rfl
  -- the holder of the heap lock can move
  have hheap : ∀ x, s.hlock = some x → canProgress s = true := by
    intro x hx
    have hxl := h.hlk x hx
    have hxt : s.threads[x]? = some s.threads[x] := List.getElem?_eq_getElem hxl
    generalize s.threads[x] = tx at hxt
    have hxc := (h.thr x tx hxt).2 (by simp [hs])
    rw [proj_eq, spc_none hs] at hxc
    have hxh : holdsH s.fix tx.pc = true := by have := hxc.hl; simpa [hx] using this
    have hxnh := hxc.nh (by simpa using hh)
    cases hp : tx.pc with
    | exitCheck k => exact progress_step hxt (by simp [enabledStep, hp]) (by simp [hp])
    | intCheck k => exact progress_step hxt (by simp [enabledStep, hp]) (by simp [hp])
    | retract k => exact progress_step hxt (by simp [enabledStep, hp]) (by simp [hp])
    | allocd => exact progress_step hxt (by simp [enabledStep, hp]) (by simp [hp])
    | envReady => exact progress_step hxt (by simp [enabledStep, hp, htl]) (by simp [hp])
    | parking k =>
      have : tx.token = true := by
        cases ht : tx.token
        · have := hxnh.2.2.2 (by simp [hp, PC.waiting]) ht; simp [beforeUnpark] at this
        · rfl
      exact progress_step hxt (by simp [enabledStep, hp, this]) (by simp [hp])
    | run => simp [hp, holdsH] at hxh
    | sawPaused => simp [hp, holdsH] at hxh
    | pubStore => simp [hp, holdsH] at hxh
    | inSafe k => simp [hp, holdsH] at hxh
    | regWait c => simp [hp, holdsH] at hxh
    | done => simp [hp, holdsH] at hxh
    | stopP o i => have := hxc.nst; simp [hp, PC.isStopper] at this
    | stopS o i => have := hxc.nst; simp [hp, PC.isStopper] at this
    | scanLock o ph => have := hxc.nst; simp [hp, PC.isStopper] at this
    | spin o ph i => have := hxc.nst; simp [hp, PC.isStopper] at this
    | acc o ph i => have := hxc.nst; simp [hp, PC.isStopper] at this
    | resLock o => have := hxc.nst; simp [hp, PC.isStopper] at this
    | resP o i => have := hxc.nst; simp [hp, PC.isStopper] at this
    | resS o i => have := hxc.nst; simp [hp, PC.isStopper] at this
    | resU o i => have := hxc.nst; simp [hp, PC.isStopper] at this
  have hlockwait : ∀ k, th.pc = .inSafe k → isHeapKind k = true → canProgress s = true := by
    intro k hp hk
    cases hl : s.hlock with
    | none =>
      refine progress_step hth ?_ (by rw [hp]; cases k <;> simp_all [isHeapKind])
      cases k <;> simp_all [enabledStep, isHeapKind]
    | some x => exact hheap x hl
  cases hp : th.pc with
  | run => simp [quiescent, hp, hpz] at hq
  | done => simp [quiescent, hp] at hq
  | sawPaused => exact progress_step hth (by simp [enabledStep, hp]) (by simp [hp])
  | pubStore => exact progress_step hth (by simp [enabledStep, hp]) (by simp [hp])
  | inSafe k =>
    cases k with
    | prim => simp [quiescent, hp] at hq
    | poll => exact progress_step hth (by simp [enabledStep, hp]) (by simp [hp])
    | alloc => exact hlockwait .alloc hp rfl
    | gate => exact hlockwait .gate hp rfl
  | regWait c => exact progress_step hth (by simp [enabledStep, hp, htl]) (by simp [hp])
  | exitCheck k => exact progress_step hth (by simp [enabledStep, hp]) (by simp [hp])
  | intCheck k => exact progress_step hth (by simp [enabledStep, hp]) (by simp [hp])
  | parking k =>
    have := htok (by simp [hp, PC.waiting])
    exact progress_step hth (by simp [enabledStep, hp, this]) (by simp [hp])
  | retract k => exact progress_step hth (by simp [enabledStep, hp]) (by simp [hp])
  | allocd => exact progress_step hth (by simp [enabledStep, hp]) (by simp [hp])
  | envReady => exact progress_step hth (by simp [enabledStep, hp, htl]) (by simp [hp])
  | stopP o i => have := hc.nst; simp [hp, PC.isStopper] at this
  | stopS o i => have := hc.nst; simp [hp, PC.isStopper] at this
  | scanLock o ph => have := hc.nst; simp [hp, PC.isStopper] at this
  | spin o ph i => have := hc.nst; simp [hp, PC.isStopper] at this
  | acc o ph i => have := hc.nst; simp [hp, PC.isStopper] at this
  | resLock o => have := hc.nst; simp [hp, PC.isStopper] at this
  | resP o i => have := hc.nst; simp [hp, PC.isStopper] at this
  | resS o i => have := hc.nst; simp [hp, PC.isStopper] at this
  | resU o i => have := hc.nst; simp [hp, PC.isStopper] at this

/-- Non-vacuity of `idle_progress`: thread 0 waits for the heap lock inside its allocation safepoint (its own
step is not executable), thread 1 holds the lock and can move. -/
def heapWait : List (Tid × Act) :=
  [(0, .spawn), (0, .step), (0, .step), (0, .step), (1, .alloc), (1, .step), (0, .alloc)]

example : (runG init heapWait).threads.map (·.pc) = [.inSafe .alloc, .exitCheck .alloc] ∧
    step (runG init heapWait) 0 .step = none := by decide

example : canProgress (runG init heapWait) = true :=
  idle_progress (u := 0) (runG_inv heapWait inv_init) (by decide) (by decide)
    (List.getElem?_eq_getElem (by decide : 0 < (runG init heapWait).threads.length)) (by decide)

/-- In a state satisfying the invariant (no host interrupt issued) the runtime is not deadlocked. -/
theorem inv_not_deadlocked {s : State} (h : Inv s) (hh : s.hostUsed = false) : deadlocked s = false := by
  simp only [deadlocked, Bool.and_eq_false_iff, Bool.not_eq_false']
  cases hs : s.stopper with
  | some a => exact Or.inl (stopper_progress h hh hs)
  | none =>
    by_cases hq : allQuiescent s = true
    · exact Or.inr hq
    · left
      have hq' : ∃ th, th ∈ s.threads ∧ quiescent th = false := by
        simp only [allQuiescent, List.all_eq_true] at hq
        apply Classical.byContradiction
        intro hne
        apply hq
        intro x hx
        cases hqx : quiescent x
        · exact absurd ⟨x, hx, hqx⟩ hne
        · rfl
      obtain ⟨th, hmem, hqf⟩ := hq'
      obtain ⟨u, hlt, rfl⟩ := List.getElem_of_mem hmem
      exact idle_progress h hh hs (List.getElem?_eq_getElem hlt) (by simpa using hqf)

/-- **C16 (runtime never deadlocks), under the guard.**  For every number of threads and every schedule that
respects `G` and contains no host interrupt: in the state reached, either some thread can take a runtime step
that changes the state, or every thread is finished, free to run script code, or inside a primitive (blocked —
if at all — on the script's own objects). -/
theorem no_deadlock_partial (sched : List (Tid × Act)) :
    (runG init sched).hostUsed = false → deadlocked (runG init sched) = false :=
  inv_not_deadlocked (runG_inv sched inv_init)

/-- Non-vacuity of `no_deadlock_partial`: the hypothesis holds on schedules that reach the middle of a round
with two threads (`goodRound`, `spinWait`), a lock wait (`heapWait`) and an all-quiescent state in which
the theorem holds by its second disjunct only (thread 1 inside a primitive, thread 0 finished). -/
example : (runG init goodRound).hostUsed = false ∧ (runG init spinWait).hostUsed = false ∧
    (runG init heapWait).hostUsed = false ∧ runG init goodRound = run init goodRound ∧
    runG init spinWait = run init spinWait ∧ runG init heapWait = run init heapWait := by decide

example :
    let s := runG init [(0, .spawn), (0, .step), (0, .step), (0, .step), (1, .callPrim), (0, .finish)]
    s.hostUsed = false ∧ canProgress s = false ∧ allQuiescent s = true := by decide

/-! ## The dual-stopper deadlock (K16a) -/

/-- Two threads assign a global: both pass the heap-lock gate (the guard is dropped at once), thread 0 stops
the world and spins on thread 1's `ctx` holding the `threads` mutex; thread 1 is about to stop the world itself
and never publishes. -/
def dualStopper : List (Tid × Act) :=
  [(0, .spawn)] ++ List.replicate 3 (0, .step) ++
  [(0, .setGlobal)] ++ List.replicate 3 (0, .step) ++      -- 0: gate passed
  [(1, .setGlobal)] ++ List.replicate 3 (1, .step) ++      -- 1: gate passed
  List.replicate 8 (0, .step)                              -- 0: stop_threads, drain_env, spins on entry 1

theorem dual_stopper_deadlock :
    deadlocked (run init dualStopper) = true ∧ (run init dualStopper).hostUsed = false := by decide

/-- The guard rejects that schedule at thread 0's stop request to thread 1 (which is past its gate). -/
theorem dualStopper_guard : runG init dualStopper = run init (dualStopper.take 15) := by decide

/-- The full statement does not hold for the code as it is. -/
def NoDeadlock : Prop :=
  ∀ sched : List (Tid × Act), (run init sched).hostUsed = false → deadlocked (run init sched) = false

theorem not_no_deadlock : ¬ NoDeadlock := by
  intro h
  have := h dualStopper dual_stopper_deadlock.2
  rw [dual_stopper_deadlock.1] at this
  cases this

/-! ## The repaired variant: the heap-lock guard is kept during `with_locked_env` -/

theorem upd_fix (s : State) (i : Tid) (f : Thread → Thread) : (s.upd i f).fix = s.fix := by
  unfold State.upd; split <;> rfl

theorem stopBegin_fix {s s' : State} {t : Tid} {th : Thread} {o : Op}
    (hs : stopBegin s t th o = some s') : s'.fix = s.fix := by
  unfold stopBegin at hs; split at hs
  · cases hs
  · cases hs; rfl

/-- No step changes the variant flag. -/
theorem step_fix {s s' : State} {t : Tid} {a : Act} (hs : step s t a = some s') : s'.fix = s.fix := by
  unfold step at hs
  repeat' split at hs
  all_goals first
    | (cases hs; done)
    | (cases hs; rfl)
    | (cases hs; simp [upd_fix])
    | exact stopBegin_fix hs

/-- In the repaired variant a thread that is about to stop the world holds the heap lock, and so does a
stopper: a second round cannot begin while one is in progress.  The guard's "one round at a time" clause
is therefore implied. -/
theorem gfix_imp_g {s : State} (h : Inv s) (hf : s.fix = true) {t : Tid} {a : Act}
    (hg : GFix s t a = true) : G s t a = true := by
  cases hth : s.threads[t]? with
  | none => simp [G, hth]
  | some th =>
    have key : (th.pc = .allocd ∨ th.pc = .envReady) → s.stopper = none := by
      intro hp
      cases hs : s.stopper with
      | none => rfl
      | some b =>
        exfalso
        have hbl := h.stp b hs
        have hbt : s.threads[b]? = some s.threads[b] := List.getElem?_eq_getElem hbl
        generalize s.threads[b] = tb at hbt
        have hself := (h.thr b tb hbt).1 hs
        have hns : th.pc.isStopper = false := by rcases hp with hp | hp <;> simp [hp, PC.isStopper]
        have hnt := not_stopper_of_pc h hth hns
        have hc := (h.thr t th hth).2 hnt
        have h1 : s.hlock = some t := by
          have := hc.hl
          rcases hp with hp | hp <;> simpa [hp, holdsH, proj_eq, hf] using this
        have h2 : s.hlock = some b := by
          have := hself.hl
          have hst := hself.st
          cases hpb : tb.pc <;> simp [hpb, PC.isStopper] at hst <;>
            simpa [hpb, holdsH, hf] using this
        rw [h1] at h2
        have : t = b := Option.some.inj h2
        subst this
        rw [hs] at hnt; exact hnt rfl
    cases a <;> cases hpc : th.pc <;> simp_all [G, GFix] <;> exact hg

theorem runGFix_inv (sched : List (Tid × Act)) : ∀ {s : State}, Inv s → s.fix = true →
    Inv (runGFix s sched) ∧ (runGFix s sched).fix = true := by
  induction sched with
  | nil => intro s h hf; exact ⟨h, hf⟩
  | cons x rest ih =>
    intro s h hf
    obtain ⟨t, a⟩ := x
    simp only [runGFix]
    split
    · rename_i hg
      cases hs : step s t a with
      | none => exact ⟨h, hf⟩
      | some s' =>
        exact ih (step_inv h (gfix_imp_g h hf hg) hs) (by rw [step_fix hs]; exact hf)
    · exact ⟨h, hf⟩

/-- **C15 for the current code under the weaker guard `GFix`** (no "rounds do not overlap" clause — it is implied
by the heap lock): a thread that is being scanned is at a safe place, and when no round is in progress every
live thread holds the newest global table. -/
theorem scan_exclusive_fixed (sched : List (Tid × Act)) : (runGFix initFix sched).scanOk = true :=
  scanOk_of_inv (runGFix_inv sched inv_initFix rfl).1

theorem env_coherent_fixed (sched : List (Tid × Act)) :
    (runGFix initFix sched).stopper = none → (runGFix initFix sched).envOk = true :=
  inv_env (runGFix_inv sched inv_initFix rfl).1

/-- Non-vacuity: a complete round under `GFix` (every line accepted), the new table everywhere. -/
example : runGFix initFix (goodRound ++ goodRoundRest) = run initFix (goodRound ++ goodRoundRest) ∧
    (runGFix initFix (goodRound ++ goodRoundRest)).ver = 1 ∧
    (runGFix initFix (goodRound ++ goodRoundRest)).envOk = true :=
  ⟨by decide, by decide, env_coherent_fixed _ (by decide)⟩

/-- **C16 for the repaired variant** (`let _guard = …` instead of `let _ = …` in front of
`with_locked_env`): the runtime does not deadlock, for every number of threads and every schedule, without
assuming that stop requests do not overlap — two threads that assign globals, or a collector and an
assigner, are serialised by the heap lock.  (The remaining guard: no spawn / host interrupt during a round,
no stop request to a thread that is leaving a safepoint — the windows of K15a/K15b, which are safety, not
progress, problems.) -/
theorem no_deadlock_fixed (sched : List (Tid × Act)) :
    (runGFix initFix sched).hostUsed = false → deadlocked (runGFix initFix sched) = false :=
  inv_not_deadlocked (runGFix_inv sched inv_initFix rfl).1

/-- **C16 for the current code** (/repo d9e2a72a applied the repair; `C15.code = initFix`). -/
theorem no_deadlock_code (sched : List (Tid × Act)) :
    (runGFix C15.code sched).hostUsed = false → deadlocked (runGFix C15.code sched) = false :=
  no_deadlock_fixed sched

/-- The K16a schedule in the repaired variant: thread 1 cannot pass its gate while thread 0 is in
`with_locked_env`; it waits published, is scanned there, and the round goes on. -/
def dualStopperFix : List (Tid × Act) :=
  [(0, .spawn)] ++ List.replicate 3 (0, .step) ++
  [(0, .setGlobal)] ++ List.replicate 3 (0, .step) ++      -- 0: gate passed, heap lock kept
  [(1, .setGlobal)] ++                                     -- 1: published, blocked on the heap lock
  List.replicate 9 (0, .step)                              -- 0: stop_threads, drain_env, scanBegin 1

theorem dualStopper_fixed :
    let s := runGFix initFix dualStopperFix
    deadlocked s = false ∧ (s.threads.map (·.pc)) = [.acc .env 0 1, .inSafe .gate] ∧
    step s 1 .step = none := by decide

/-- Non-vacuity of `gfix_imp_g`: in the repaired variant (two threads) thread 0 is at `envReady` and about to
stop the world — the clause of `G` that `GFix` lacks ("no round in progress") follows; and, four lines later,
thread 0 is a stopper at `stopP .env 1` while thread 1 waits at the gate. -/
example : pcAt (runGFix initFix (dualStopperFix.take 8)) 0 = some .envReady ∧
    pcAt (runGFix initFix (dualStopperFix.take 12)) 0 = some (.stopP .env 1) ∧
    (runGFix initFix (dualStopperFix.take 12)).stopper = some 0 := by decide

example : G (runGFix initFix (dualStopperFix.take 8)) 0 .step = true :=
  gfix_imp_g (runGFix_inv (dualStopperFix.take 8) inv_initFix rfl).1 (by decide) (by decide)

example : G (runGFix initFix (dualStopperFix.take 12)) 0 .step = true :=
  gfix_imp_g (runGFix_inv (dualStopperFix.take 12) inv_initFix rfl).1 (by decide) (by decide)

/-- Non-vacuity of `no_deadlock_fixed` / `no_deadlock_code`: the hypothesis holds in the state of
`dualStopper_fixed` (two threads, thread 0 scanning thread 1, which is blocked on the heap lock), the guard
accepted every line, and the conclusion holds there because the stopper can move. -/
example :
    let s := runGFix initFix dualStopperFix
    s.hostUsed = false ∧ s = run initFix dualStopperFix ∧ s.stopper = some 0 ∧ canProgress s = true ∧
    allQuiescent s = false := by decide

example : deadlocked (runGFix C15.code dualStopperFix) = false :=
  no_deadlock_code dualStopperFix (by decide)

/-! ## A round terminates -/

/-- Every step of the stopper that changes the state brings the end of its round closer: `roundRank` (a
function of the stopper's pc and the length of the thread list, at most `9·len + 13`) strictly decreases.
Together with `stopper_progress` (whenever the stopper cannot move, the one thread it waits for can, and is at
most 3 of its own steps from publishing itself) this bounds a round by the stopper's own `9·len + 13` steps
plus the steps the awaited threads need to reach a safepoint.  No fairness of the OS scheduler is assumed or
proved. -/
theorem round_rank_decreases {s s' : State} {t : Tid} {th th' : Thread}
    (hth : s.threads[t]? = some th) (hst : th.pc.isStopper = true)
    (hidx : idxOk s.threads.length th.pc = true)
    (hs : step s t .step = some s') (hth' : s'.threads[t]? = some th') (hne : th'.pc ≠ th.pc) :
    roundRank s.threads.length th'.pc < roundRank s.threads.length th.pc ∧
    (th'.pc.isStopper = true → idxOk s.threads.length th'.pc = true) := by
  have hl : t < s.threads.length := lt_of_get hth
  have hput : ∀ (X : State) (y : Thread), X.threads.length = s.threads.length →
      (X.put t y).threads[t]? = some th' → y = th' := by
    intro X y hX hy
    rw [get_put_lt y (by rw [hX]; exact hl)] at hy
    exact Option.some.inj hy
  cases hpc : th.pc <;> simp [hpc, PC.isStopper] at hst
  case stopP o i =>
    simp only [hpc, idxOk, decide_eq_true_eq] at hidx
    simp only [step, hth, hpc] at hs
    cases hi : s.threads[i]? with
    | none =>
      simp only [hi] at hs; cases hs
      have := hput _ _ rfl hth'; subst this
      have := none_le hi
      simp [roundRank, idxOk, PC.isStopper] <;> omega
    | some x =>
      have hil := lt_of_get hi
      simp only [hi] at hs
      split at hs
      · cases hs; have := hput _ _ rfl hth'; subst this
        simp [roundRank, idxOk, PC.isStopper] <;> omega
      · split at hs
        · cases hs; have := hput _ _ (by simp) hth'; subst this
          simp [roundRank, idxOk, PC.isStopper] <;> omega
        · cases hs; have := hput _ _ rfl hth'; subst this
          simp [roundRank, idxOk, PC.isStopper] <;> omega
  case stopS o i =>
    simp only [hpc, idxOk, decide_eq_true_eq] at hidx
    simp only [step, hth, hpc] at hs
    split at hs
    · cases hs; have := hput _ _ rfl hth'; subst this
      simp [roundRank, idxOk, PC.isStopper] <;> omega
    · cases hs; have := hput _ _ (upd_len _ _ _) hth'; subst this
      simp [roundRank, idxOk, PC.isStopper] <;> omega
  case scanLock o ph =>
    simp only [step, hth, hpc] at hs
    split at hs
    · cases hs
    · cases o <;> cases ph <;> simp only at hs <;> cases hs <;>
        (have := hput _ _ rfl hth'; subst this; simp [roundRank, idxOk, PC.isStopper]) <;> try omega
  case spin o ph i =>
    simp only [hpc, idxOk, decide_eq_true_eq] at hidx
    simp only [step, hth, hpc] at hs
    cases hi : s.threads[i]? with
    | none =>
      simp only [hi] at hs; cases hs
      have := hput _ _ rfl hth'; subst this
      have := none_le hi
      cases o <;> cases ph <;> simp [roundRank, idxOk, PC.isStopper, afterScan] <;> omega
    | some x =>
      have hil := lt_of_get hi
      simp only [hi] at hs
      split at hs
      · cases hs; have := hput _ _ rfl hth'; subst this
        cases ph <;> simp [roundRank, idxOk, PC.isStopper] <;> omega
      · split at hs
        · cases hs; have := hput _ _ (by simp) hth'; subst this
          cases ph <;> simp [roundRank, idxOk, PC.isStopper] <;> omega
        · cases hs
          rw [hth] at hth'; cases hth'; exact absurd rfl hne
  case acc o ph i =>
    simp only [hpc, idxOk, decide_eq_true_eq] at hidx
    simp only [step, hth, hpc] at hs
    cases hs; have := hput _ _ (upd_len _ _ _) hth'; subst this
    cases ph <;> simp [roundRank, idxOk, PC.isStopper] <;> omega
  case resLock o =>
    simp only [step, hth, hpc] at hs
    split at hs
    · cases hs
    · cases hs; have := hput _ _ rfl hth'; subst this
      simp [roundRank, idxOk, PC.isStopper] <;> omega
  case resP o i =>
    simp only [hpc, idxOk, decide_eq_true_eq] at hidx
    simp only [step, hth, hpc] at hs
    cases hi : s.threads[i]? with
    | none =>
      simp only [hi] at hs; cases hs
      have := hput _ _ (by split <;> rfl) hth'; subst this
      simp [roundRank, idxOk, PC.isStopper] <;> omega
    | some x =>
      have hil := lt_of_get hi
      simp only [hi] at hs
      split at hs
      · cases hs; have := hput _ _ rfl hth'; subst this
        simp [roundRank, idxOk, PC.isStopper] <;> omega
      · split at hs
        · cases hs; have := hput _ _ (by simp) hth'; subst this
          simp [roundRank, idxOk, PC.isStopper] <;> omega
        · cases hs; have := hput _ _ rfl hth'; subst this
          simp [roundRank, idxOk, PC.isStopper] <;> omega
  case resS o i =>
    simp only [hpc, idxOk, decide_eq_true_eq] at hidx
    simp only [step, hth, hpc] at hs
    split at hs
    · cases hs; have := hput _ _ rfl hth'; subst this
      simp [roundRank, idxOk, PC.isStopper] <;> omega
    · cases hs; have := hput _ _ (upd_len _ _ _) hth'; subst this
      simp [roundRank, idxOk, PC.isStopper] <;> omega
  case resU o i =>
    simp only [hpc, idxOk, decide_eq_true_eq] at hidx
    simp only [step, hth, hpc] at hs
    split at hs
    · cases hs; have := hput _ _ rfl hth'; subst this
      simp [roundRank, idxOk, PC.isStopper] <;> omega
    · cases hs; have := hput _ _ (upd_len _ _ _) hth'; subst this
      simp [roundRank, idxOk, PC.isStopper] <;> omega

/-- Non-vacuity of `round_rank_decreases`: in `goodRound` thread 0 is at `acc .env 0 1`; its next step is
executable, moves it to `spin .env 0 2` (still a stopper, index within bounds) and lowers the rank 20 → 19. -/
example :
    let s := run init goodRound
    (match step s 0 .step with
     | some s' => pcAt s' 0 == some (.spin .env 0 2)
     | none => false) = true ∧
    pcAt s 0 = some (.acc .env 0 1) ∧ idxOk s.threads.length (.acc .env 0 1) = true ∧
    roundRank s.threads.length (.spin .env 0 2) = 19 ∧ roundRank s.threads.length (.acc .env 0 1) = 20 := by
  decide

example (s' : State) (th' : Thread) (hs : step (run init goodRound) 0 .step = some s')
    (hth' : s'.threads[0]? = some th') (hne : th'.pc ≠ .acc .env 0 1) :
    roundRank 2 th'.pc < roundRank 2 (.acc .env 0 1) :=
  (round_rank_decreases (s := run init goodRound) (t := 0)
    (th := (run init goodRound).threads[0]'(by decide)) (List.getElem?_eq_getElem _) (by decide) (by decide)
    hs hth' hne).1

/-- The rank of a round that has just begun. -/
theorem roundRank_begin (len : Nat) (o : Op) : roundRank len (.stopP o 0) = 9 * len + 13 := by
  simp [roundRank]; omega

/-- Number of lines of `sched` at which thread `t`, being a stopper, changes its pc; counting stops when `t`
is no longer a stopper (its round is over) or at the first line that is not executable. -/
def roundMoves (t : Tid) : State → List (Tid × Act) → Nat
  | _, [] => 0
  | s, (u, a) :: rest =>
      if (pcAt s t).any PC.isStopper then
        match step s u a with
        | none => 0
        | some s' => (if u = t ∧ pcAt s' t ≠ pcAt s t then 1 else 0) + roundMoves t s' rest
      else 0

theorem roundMoves_not_stopper {s : State} {t : Tid} {th : Thread} (hth : s.threads[t]? = some th)
    (hst : ¬ th.pc.isStopper = true) (sched : List (Tid × Act)) : roundMoves t s sched = 0 := by
  cases sched with
  | nil => rfl
  | cons x rest => obtain ⟨u, a⟩ := x; simp [roundMoves, pcAt_of hth, hst]

/-- **A stop round terminates** (in the stopper's own steps), for every interleaving with the steps of the
other threads: along every schedule without a spawn (the guard's clause "no thread is spawned during a
round": a spawn lengthens the list the stopper walks), from every state in which `t`'s list index is within
bounds, thread `t` changes its pc at most `roundRank len pc` times before its round is over — at most
`9·len + 13` times from the beginning of the round (`roundRank_begin`).  Every other line of the stopper is a
`ctx.load()` that keeps spinning, and then `stopper_progress` says the awaited thread can move.  No fairness of
the OS scheduler is assumed or proved: the theorem bounds the work, it does not say the steps are taken. -/
theorem stop_round_terminates (t : Tid) (sched : List (Tid × Act)) (hns : ∀ x ∈ sched, x.2 ≠ Act.spawn) :
    ∀ (s : State) (th : Thread), s.threads[t]? = some th → idxOk s.threads.length th.pc = true →
      roundMoves t s sched ≤ roundRank s.threads.length th.pc := by
  induction sched with
  | nil => intro s th _ _; simp [roundMoves]
  | cons x rest ih =>
    intro s th hth hidx
    obtain ⟨u, a⟩ := x
    have hns' : ∀ x ∈ rest, x.2 ≠ Act.spawn := fun x hx => hns x (List.mem_cons_of_mem _ hx)
    have ha : a ≠ .spawn := hns (u, a) (List.mem_cons_self ..)
    by_cases hst : th.pc.isStopper = true
    · cases hs : step s u a with
      | none => simp [roundMoves, hs]
      | some s' =>
        have hlen := step_len ha hs
        have e : roundMoves t s ((u, a) :: rest) =
            (if u = t ∧ pcAt s' t ≠ pcAt s t then 1 else 0) + roundMoves t s' rest := by
          simp [roundMoves, pcAt_of hth, hst, hs]
        rw [e]
        by_cases hut : u = t
        · subst hut
          have hl' : u < s'.threads.length := by rw [hlen]; exact lt_of_get hth
          have hth' : s'.threads[u]? = some s'.threads[u] := List.getElem?_eq_getElem hl'
          generalize s'.threads[u] = th' at hth'
          rw [pcAt_of hth, pcAt_of hth']
          by_cases hch : th'.pc = th.pc
          · have := ih hns' s' th' hth' (by rw [hlen, hch]; exact hidx)
            rw [hlen, hch] at this
            simp [hch]; exact this
          · have hstep : a = .step := by
              apply Classical.byContradiction
              intro hna
              exact hch (step_self_nonstep hth hst hna hs hth')
            subst hstep
            obtain ⟨hlt, hidx'⟩ := round_rank_decreases hth hst hidx hs hth' hch
            by_cases hst' : th'.pc.isStopper = true
            · have := ih hns' s' th' hth' (by rw [hlen]; exact hidx' hst')
              rw [hlen] at this
              simp [hch]; omega
            · rw [roundMoves_not_stopper hth' hst']
              simp [hch]; omega
        · obtain ⟨_, hpc⟩ := step_other (t := t) hut ha hs
          have hpc' := hpc
          rw [pcAt_of hth] at hpc'
          obtain ⟨th', hth', hpe⟩ := of_pcAt hpc'
          have := ih hns' s' th' hth' (by rw [hlen, hpe]; exact hidx)
          rw [hlen, hpe] at this
          simp [hut]; exact this
    · rw [roundMoves_not_stopper hth hst]; exact Nat.zero_le _

/-- The hypothesis "no spawn" of `stop_round_terminates` is the guard's: both `G` and `GFix` accept a spawn line
of an existing thread only when no round is in progress. -/
theorem guard_no_spawn_in_round {s : State} {u : Tid} {th : Thread} (hth : s.threads[u]? = some th)
    (hg : G s u .spawn = true ∨ GFix s u .spawn = true) : s.stopper = none := by
  rcases hg with hg | hg
  · cases hp : th.pc <;> simp [G, hth, hp] at hg <;> exact hg
  · cases hp : th.pc <;> simp [GFix, hth, hp] at hg <;> exact hg

/-- Non-vacuity of `stop_round_terminates`: the round of `goodRound ++ goodRoundRest` (two threads, thread 1
polls, parks and is scanned twice) from the state in which thread 0 has just entered `stop_threads`: the
stopper changes its pc 23 times, the bound is `9·2 + 13 = 31`, and the round is over at the end. -/
example :
    let s := run init (goodRound.take 9)
    let rest := goodRound.drop 9 ++ goodRoundRest
    pcAt s 0 = some (.stopP .env 0) ∧ (∀ x ∈ rest, x.2 ≠ Act.spawn) ∧
    roundMoves 0 s rest = 23 ∧ roundRank s.threads.length (.stopP .env 0) = 31 ∧
    pcAt (run s rest) 0 = some .run ∧ (run s rest).stopper = none := by decide

/-! ## Script-level objects -/

def isValue : JoinRes → Bool
  | .value _ => true
  | _ => false

theorem handle_run_inv (ops : List HOp) : ∀ (h : Handle), (h.taken = true ↔ h.delivered = 1) →
    h.delivered ≤ 1 →
    ((h.run ops).2.filter isValue).length + h.delivered = (h.run ops).1.delivered ∧
    (h.run ops).1.delivered ≤ 1 := by
  induction ops with
  | nil => intro h _ hd; simp [Handle.run]; exact hd
  | cons op rest ih =>
    intro h ht hd
    cases op with
    | finish v =>
      simp only [Handle.run]
      have h1 : ((h.finish v).taken = true ↔ (h.finish v).delivered = 1) := by
        unfold Handle.finish; split <;> simpa using ht
      have h2 : (h.finish v).delivered ≤ 1 := by unfold Handle.finish; split <;> simpa using hd
      have h3 : (h.finish v).delivered = h.delivered := by unfold Handle.finish; split <;> rfl
      obtain ⟨a, b⟩ := ih (h.finish v) h1 h2
      exact ⟨by rw [← h3]; exact a, b⟩
    | join =>
      simp only [Handle.run]
      by_cases htk : h.taken = true
      · have e : h.join = (h, .alreadyJoined) := by simp [Handle.join, htk]
        rw [e]; simp only
        obtain ⟨a, b⟩ := ih h ht hd
        exact ⟨by simpa [isValue] using a, b⟩
      · cases hr : h.result with
        | none =>
          have e : h.join = (h, .notFinished) := by simp [Handle.join, htk, hr]
          rw [e]; simp only
          obtain ⟨a, b⟩ := ih h ht hd
          exact ⟨by simpa [isValue] using a, b⟩
        | some r =>
          have hd0 : h.delivered = 0 := by
            have : ¬ (h.delivered = 1) := fun e => htk (ht.mpr e)
            omega
          have e : h.join = ({ h with taken := true, delivered := h.delivered + 1 }, .value r) := by
            simp [Handle.join, htk, hr]
          rw [e]; simp only
          obtain ⟨a, b⟩ := ih { h with taken := true, delivered := h.delivered + 1 }
            (by simp [hd0]) (by simp [hd0])
          refine ⟨?_, b⟩
          simp only [List.filter_cons, isValue, if_true, List.length_cons] at a ⊢
          omega

/-- **A joined thread's result is delivered exactly once**: whatever the order of `thread-join!` calls (by any
threads) and of the thread's exit, at most one call receives a value, and it is the thread's result. -/
theorem join_once (ops : List HOp) :
    let r := ({} : Handle).run ops
    (r.2.filter isValue).length ≤ 1 ∧ (r.2.filter isValue).length = r.1.delivered ∧
    ∀ v, JoinRes.value v ∈ r.2 → r.1.result = some v := by
  have := handle_run_inv ops {} (by simp) (by simp)
  obtain ⟨a, b⟩ := this
  simp only at a
  refine ⟨by omega, by omega, ?_⟩
  intro v hv
  -- the delivered value equals the final result: rerun the invariant from the state in which it is set
  have key : ∀ (ops : List HOp) (h : Handle) (v : Nat), JoinRes.value v ∈ (h.run ops).2 →
      (h.run ops).1.result = some v := by
    intro ops
    induction ops with
    | nil => intro h v hv; simp [Handle.run] at hv
    | cons o rs ih =>
      intro h v hv
      cases o with
      | finish x => simp only [Handle.run] at hv ⊢; exact ih _ v hv
      | join =>
        simp only [Handle.run] at hv ⊢
        simp at hv
        rcases hv with hv | hv
        · -- this join delivered `v`: the result was `some v` and stays
          have hj : h.result = some v ∧ (h.join).1.result = some v := by
            unfold Handle.join at hv ⊢
            split at hv
            · cases hv
            · split at hv
              · cases hv
              · rename_i w hw
                simp at hv; subst hv
                simp_all
          have stay : ∀ (ops : List HOp) (g : Handle), g.result = some v → (g.run ops).1.result = some v := by
            intro ops
            induction ops with
            | nil => intro g hg; simpa [Handle.run] using hg
            | cons o rs ih2 =>
              intro g hg
              cases o with
              | finish x => simp only [Handle.run]; exact ih2 _ (by simp [Handle.finish, hg])
              | join =>
                simp only [Handle.run]
                have : (g.join).1.result = some v := by
                  unfold Handle.join; split
                  · exact hg
                  · split <;> simp_all
                exact ih2 _ this
          exact stay rs _ hj.2
        · exact ih _ v hv
  exact key ops {} v hv

/-- The invariant of a join handle. -/
def Handle.Good (h : Handle) : Prop := (h.taken = true ↔ h.delivered = 1) ∧ h.delivered ≤ 1

theorem Handle.good_finish {h : Handle} (g : h.Good) (v : Nat) : (h.finish v).Good := by
  unfold Handle.finish; split <;> exact g

theorem Handle.good_join {h : Handle} (g : h.Good) : h.join.1.Good := by
  obtain ⟨g1, g2⟩ := g
  unfold Handle.join
  split
  · exact ⟨g1, g2⟩
  · rename_i htk
    split
    · exact ⟨g1, g2⟩
    · have : h.delivered = 0 := by
        have : ¬ h.delivered = 1 := fun e => htk (g1.mpr e)
        omega
      simp [Handle.Good, this]

theorem Handle.run_facts (ops : List HOp) : ∀ (h : Handle), h.Good →
    (h.run ops).1.Good ∧ h.delivered ≤ (h.run ops).1.delivered ∧
    (h.result.isSome = true → (h.run ops).1.result.isSome = true) := by
  induction ops with
  | nil => intro h g; exact ⟨g, Nat.le_refl _, id⟩
  | cons o r ih =>
    intro h g
    cases o with
    | finish v =>
      simp only [Handle.run]
      obtain ⟨a, b, c⟩ := ih _ (Handle.good_finish g v)
      refine ⟨a, ?_, fun hr => c ?_⟩
      · have : (h.finish v).delivered = h.delivered := by unfold Handle.finish; split <;> rfl
        omega
      · unfold Handle.finish; split <;> simp_all
    | join =>
      simp only [Handle.run]
      obtain ⟨a, b, c⟩ := ih _ (Handle.good_join g)
      have hd : h.delivered ≤ h.join.1.delivered ∧ (h.result.isSome = true → h.join.1.result.isSome = true) := by
        unfold Handle.join
        split
        · exact ⟨Nat.le_refl _, id⟩
        · split
          · exact ⟨Nat.le_refl _, id⟩
          · exact ⟨by simp, by simp_all⟩
      exact ⟨a, by omega, fun hr => c (hd.2 hr)⟩

theorem Handle.run_append (a b : List HOp) : ∀ (h : Handle),
    (h.run (a ++ b)).1 = ((h.run a).1.run b).1 := by
  induction a with
  | nil => intro h; rfl
  | cons o r ih =>
    intro h
    cases o with
    | finish v => simp only [List.cons_append, Handle.run]; exact ih _
    | join => simp only [List.cons_append, Handle.run]; exact ih _

/-- **… exactly once**: if the thread finishes and `thread-join!` is called at least once afterwards (calls
before the exit keep waiting — `notFinished` — and are followed by such a call when they return), exactly one
of all the calls, in any order and by any threads, receives a value. -/
theorem join_exactly_once (pre mid post : List HOp) (v : Nat) :
    let r := ({} : Handle).run (pre ++ .finish v :: (mid ++ .join :: post))
    (r.2.filter isValue).length = 1 := by
  intro r
  have hcount := (handle_run_inv (pre ++ .finish v :: (mid ++ .join :: post)) {} (by simp) (by simp)).1
  have g0 : ({} : Handle).Good := by simp [Handle.Good]
  have e : r.1 = (((((({} : Handle).run pre).1.finish v).run mid).1.join.1).run post).1 := by
    show (({} : Handle).run (pre ++ .finish v :: (mid ++ .join :: post))).1 = _
    rw [Handle.run_append]
    simp only [Handle.run]
    rw [Handle.run_append]
    simp only [Handle.run]
  obtain ⟨g1, -, -⟩ := Handle.run_facts pre {} g0
  have g2 := Handle.good_finish g1 v
  have s2 : (((({} : Handle).run pre).1.finish v).result.isSome = true) := by
    unfold Handle.finish; split <;> simp_all
  obtain ⟨g3, -, s3⟩ := Handle.run_facts mid _ g2
  have s3 := s3 s2
  have g4 := Handle.good_join g3
  have d4 : (((((({} : Handle).run pre).1.finish v).run mid).1.join.1).delivered = 1) := by
    generalize (((({} : Handle).run pre).1.finish v).run mid).1 = h3 at g3 s3 g4 ⊢
    obtain ⟨g31, g32⟩ := g3
    unfold Handle.join
    split
    · rename_i htk; exact g31.mp htk
    · rename_i htk
      cases hr : h3.result with
      | none => simp [hr] at s3
      | some w =>
        have : ¬ h3.delivered = 1 := fun e => htk (g31.mpr e)
        simp; omega
  obtain ⟨g5, m5, -⟩ := Handle.run_facts post _ g4
  have : r.1.delivered = 1 := by
    rw [e]
    have := g5.2
    omega
  simp only at hcount
  show ((({} : Handle).run (pre ++ .finish v :: (mid ++ .join :: post))).2.filter isValue).length = 1
  have hr : r = ({} : Handle).run (pre ++ .finish v :: (mid ++ .join :: post)) := rfl
  rw [hr] at this
  omega

/-- Non-vacuity of `join_exactly_once` (`pre = [join]`, `mid = [join-less finish]`, `post = [join, finish]`). -/
example : ((({} : Handle).run ([.join] ++ .finish 7 :: ([.finish 8] ++ .join :: [.join, .finish 9]))).2.filter
    isValue) = [.value 7] := by decide

theorem chan_inv (ops : List COp) : ∀ (c : Chan), c.recvd ++ c.queue = c.sent →
    (c.run ops).recvd ++ (c.run ops).queue = (c.run ops).sent := by
  induction ops with
  | nil => intro c h; simpa [Chan.run] using h
  | cons o r ih =>
    intro c h
    simp only [Chan.run]
    apply ih
    cases o with
    | send m => simp [Chan.step, ← h]
    | recv =>
      unfold Chan.step
      cases hq : c.queue with
      | nil => simpa [hq] using h
      | cons m q => simp [hq] at h ⊢; exact h

/-- **Channels deliver every sent value once, in order per sender**: after any interleaving of sends (by any
senders) and receives, what was received followed by what is still queued is exactly what was sent, in the
order of the sends; in particular the values received from one sender are a prefix of what it sent, in its
order. -/
theorem channel_fifo_per_sender (ops : List COp) (p : Nat) :
    let c := ({} : Chan).run ops
    c.recvd ++ c.queue = c.sent ∧
    (c.recvd.filter (fun m => m.1 == p)) <+: (c.sent.filter (fun m => m.1 == p)) := by
  have h := chan_inv ops {} (by simp)
  refine ⟨h, ?_⟩
  rw [← h, List.filter_append]
  exact List.prefix_append _ _

/-- Non-vacuity: two senders interleaved, three receives. -/
theorem channel_example :
    (({} : Chan).run [.send (1, 0), .send (2, 0), .recv, .send (1, 1), .recv, .recv, .recv]).recvd
      = [(1, 0), (2, 0), (1, 1)] := by decide

theorem join_example :
    (({} : Handle).run [.join, .finish 7, .join, .join, .finish 9]).2
      = [.notFinished, .value 7, .alreadyJoined] := by decide

/-! ## Clauses of the property not carried by a theorem

* "every collection and every global definition or assignment COMPLETES" and "every thread that is not blocked
  by the script's own logic KEEPS RUNNING": the theorems say that in every reachable guarded state SOME thread
  can take a productive runtime step (`no_deadlock_*`) and that a round needs at most `9·len + 13` productive
  steps of its stopper (`stop_round_terminates`).  That the steps are taken (fairness of the OS scheduler), and
  progress of EACH thread rather than of the system (no starvation of a particular thread, e.g. of a thread
  waiting for the heap lock while others allocate in turn), is not a theorem.
* The excluded schedules: a spawn or a host `interrupt()` during a round, a stop request reaching a thread
  that is leaving a safepoint (guard `GFix` / `G`), and every schedule containing a host interrupt
  (`hostUsed = false`); for the protocol before d9e2a72a also overlapping stop requests (false there:
  `dual_stopper_deadlock`).
* "blocking on joins, channels and locks … made directly or through higher-order library procedures": a blocked
  thread is `inSafe prim` in the model, i.e. it IS published; that every call path of a blocking built-in
  publishes the thread is the regenerated table `blocking_paths_publish`, which is FALSE for the paths in
  `openK16b` (K16b, while it is open): a thread blocked on one of those paths is not covered by any theorem; with the
  proposed repair (every such arm goes through `call_builtin_published`) the list is empty and `blocking_paths_publish_full` holds.
* "with native code generation on or off": the model has one dispatch loop; JIT call paths appear only in the
  call-path table.
* Thread exit (`steel_rc::with_explicit_merge`, removal from `threads`): `done` threads stay in the list and
  are skipped; the merge is not modelled.
* `join_once` / `join_exactly_once` / `channel_fifo_per_sender` are about the SPECIFICATIONS of `JoinHandle`
  and `crossbeam_channel::unbounded` (one handle, one channel, `Nat` payloads), not about the handshake model:
  that a thread blocked in `thread-join!` / `channel/recv` is woken when the value arrives, mutexes
  (`lock-acquire!`), bounded channels and `receivers-select` are not modelled.
* The repaired handshake (`SteelVerif.C15.ModelR`, fixes of K15a / K15b + the one-word controller): the progress
  theorems are re-proved for it in `ProgressR.lean`, for every schedule and WITHOUT any guard (host interrupts, spawn
  attempts and overlapping requests included): `R.no_deadlock_repaired` (every reachable state: all threads quiescent
  or some runtime step changes a pc), `R.stop_round_terminates` (the stopper changes its pc at most `7·n + 9` times
  per round), `R.awaited_settles` + `R.settled_unblocks` (no livelock in the new exit loop: while its STOP bit stands
  a thread takes at most 3 own steps before it is published for good, so it goes round retract → re-check → re-publish
  at most once per round and the stopper never waits for it again).  Still not a theorem: that the steps are taken
  (fairness), progress of EACH thread.
* Mutexes other than `threads` and the heap: the host root table is modelled in `LockOrder.lean` (a separate small
  transition system, any number of mutators): `no_deadlock_stop_first` / `lock_first_deadlocks`, tied to the source by
  `GenLocks.lean` (`spin_holds_no_unpublished_lock`, `heap_lock_inside_safepoint`).  Script mutexes (`lock-acquire!`),
  the compiler `RwLock`, `receivers-select` and bounded channels are not modelled.
* Relaxed atomics (the model is sequentially consistent; the one store→load pair of the repaired handshake:
  `C15.R.Litmus`), wall-clock bounds.
All of these are covered only by the program-level differential run (checks/c16.py). -/

end SteelVerif.C16
