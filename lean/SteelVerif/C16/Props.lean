/-
C16 — property theorems: threads always make progress through collections and global updates.

Same transition system as C15 (`SteelVerif.C15.Model`: the safepoint handshake with the heap mutex, the
`threads` mutex, park tokens, spawn / registration), definitions of progress in `SteelVerif.C16.Model`.
All theorems are for every number of threads and every schedule (interleaving of the atomic steps).

The code as it is CAN deadlock: `dual_stopper_deadlock` is a concrete schedule (two threads that assign a
global) ending in a state in which two threads wait for the runtime and no runtime step changes anything
(finding K16a).  `no_deadlock_partial` is the statement under the guard `C15.G` ("one stop request at a
time …"); `no_deadlock_fixed` is the statement for the repaired variant `State.fix` (the heap-lock guard is
kept during `with_locked_env`), where the "one at a time" clause of the guard is no longer needed.
-/
import SteelVerif.C16.Lemmas
namespace SteelVerif.C16
open SteelVerif.C15
set_option linter.unusedSimpArgs false
set_option linter.unusedVariables false

/-! ## Productive steps -/

theorem productive_of_moves {s : State} {t : Tid} {th : Thread} {a : Act}
    (hth : s.threads[t]? = some th) (hm : Moves s t th (step s t a)) : productive s t a = true := by
  obtain ⟨s', th', hs, hth', hne⟩ := hm
  simp only [productive, hs]
  simp only [decide_eq_true_eq]
  intro e
  rw [e, hth] at hth'
  cases hth'
  exact hne rfl

theorem canProgress_of {s : State} {t : Tid} {a : Act} (hl : t < s.threads.length)
    (ha : a = .poll ∨ a = .step) (hr : isRuntime s t a = true) (hp : productive s t a = true) :
    canProgress s = true := by
  simp only [canProgress, List.any_eq_true]
  refine ⟨t, List.mem_range.mpr hl, a, ?_, by simp [hr, hp]⟩
  rcases ha with rfl | rfl <;> simp

/-- A thread with an enabled step that is not inside a primitive lets the system progress. -/
theorem progress_step {s : State} {t : Tid} {th : Thread} (hth : s.threads[t]? = some th)
    (hen : enabledStep s t th = true) (hnp : th.pc ≠ .inSafe .prim) : canProgress s = true := by
  refine canProgress_of (lt_of_get hth) (Or.inr rfl) ?_ (productive_of_moves hth (step_moves hth hen))
  simp [isRuntime, hth, hnp]

/-- A dispatching thread whose pause flag is raised can poll. -/
theorem progress_poll {s : State} {t : Tid} {th : Thread} (hth : s.threads[t]? = some th)
    (hpc : th.pc = .run) (hp : th.paused = true) : canProgress s = true := by
  refine canProgress_of (lt_of_get hth) (Or.inl rfl) (by simp [isRuntime, hth]) ?_
  refine productive_of_moves hth ?_
  simp only [step, hth, hpc, hp, if_true]
  exact moves_put _ _ (lt_of_get hth) (by simp [hpc])

/-! ## The stopper can always move, or the thread it waits for can -/

theorem stopper_progress {s : State} (h : Inv s) (hh : s.hostUsed = false) {a : Tid}
    (hs : s.stopper = some a) : canProgress s = true := by
  have hal := h.stp a hs
  have hth : s.threads[a]? = some s.threads[a] := List.getElem?_eq_getElem hal
  generalize s.threads[a] = tha at hth
  have hself := (h.thr a tha hth).1 hs
  have htl := tl_of h hs hth
  have hst := hself.st
  -- every stopper pc except a waiting `spin` has an enabled step
  by_cases hen : enabledStep s a tha = true
  · exact progress_step hth hen (by intro e; rw [e] at hst; simp [PC.isStopper] at hst)
  · -- not enabled: a lock is taken, or the awaited thread has not published
    cases hpc : tha.pc with
    | scanLock o ph =>
      rw [hpc] at htl; simp [holdsT] at htl
      simp [enabledStep, hpc, htl] at hen
    | resLock o =>
      rw [hpc] at htl; simp [holdsT] at htl
      simp [enabledStep, hpc, htl] at hen
    | spin o ph i =>
      simp only [enabledStep, hpc] at hen
      cases hi : s.threads[i]? with
      | none => simp [hi] at hen
      | some x =>
        simp only [hi] at hen
        have hia : i ≠ a := by intro e; simp [e] at hen
        have hxc := (h.thr i x hi).2 (by rw [hs]; intro e; exact hia (Option.some.inj e).symm)
        rw [proj_at hs hth, hpc] at hxc
        have hcov := hxc.cov (by simp [projAt, covered])
        have hnh := hxc.nh (by simpa [projAt] using hh)
        have hctx : x.ctx = false := by cases hc : x.ctx <;> simp_all
        have hpub : x.pc.published = false := by rw [← hxc.ctx]; exact hctx
        have hnd : x.pc ≠ .done := by intro e; simp [e] at hen
        have hpz : x.paused = true := hcov.1
        -- the awaited thread is dispatching, in the poll, or about to release the heap lock
        cases hx : x.pc with
        | run => exact progress_poll hi hx hpz
        | sawPaused => exact progress_step hi (by simp [enabledStep, hx]) (by simp [hx])
        | pubStore => exact progress_step hi (by simp [enabledStep, hx]) (by simp [hx])
        | allocd => exact progress_step hi (by simp [enabledStep, hx]) (by simp [hx])
        | done => exact absurd hx hnd
        | envReady => have := hcov.2.2; simp [hx, PC.leaving] at this
        | retract k => have := hcov.2.2; simp [hx, PC.leaving] at this
        | inSafe k => simp [hx, PC.published] at hpub
        | regWait c => simp [hx, PC.published] at hpub
        | exitCheck k => simp [hx, PC.published] at hpub
        | intCheck k => simp [hx, PC.published] at hpub
        | parking k => simp [hx, PC.published] at hpub
        | stopP o i => have := hxc.nst; simp [hx, PC.isStopper] at this
        | stopS o i => have := hxc.nst; simp [hx, PC.isStopper] at this
        | scanLock o ph => have := hxc.nst; simp [hx, PC.isStopper] at this
        | spin o ph i => have := hxc.nst; simp [hx, PC.isStopper] at this
        | acc o ph i => have := hxc.nst; simp [hx, PC.isStopper] at this
        | resLock o => have := hxc.nst; simp [hx, PC.isStopper] at this
        | resP o i => have := hxc.nst; simp [hx, PC.isStopper] at this
        | resS o i => have := hxc.nst; simp [hx, PC.isStopper] at this
        | resU o i => have := hxc.nst; simp [hx, PC.isStopper] at this
    | run => simp [hpc, PC.isStopper] at hst
    | sawPaused => simp [hpc, PC.isStopper] at hst
    | pubStore => simp [hpc, PC.isStopper] at hst
    | inSafe k => simp [hpc, PC.isStopper] at hst
    | regWait c => simp [hpc, PC.isStopper] at hst
    | exitCheck k => simp [hpc, PC.isStopper] at hst
    | intCheck k => simp [hpc, PC.isStopper] at hst
    | parking k => simp [hpc, PC.isStopper] at hst
    | retract k => simp [hpc, PC.isStopper] at hst
    | allocd => simp [hpc, PC.isStopper] at hst
    | envReady => simp [hpc, PC.isStopper] at hst
    | done => simp [hpc, PC.isStopper] at hst
    | stopP o i => simp [enabledStep, hpc] at hen
    | stopS o i => simp [enabledStep, hpc] at hen
    | acc o ph i => simp [enabledStep, hpc] at hen
    | resP o i => simp [enabledStep, hpc] at hen
    | resS o i => simp [enabledStep, hpc] at hen
    | resU o i => simp [enabledStep, hpc] at hen

/-- No round in progress: a thread that waits for the runtime can move, or the holder of the lock it
waits for can. -/
theorem idle_progress {s : State} (h : Inv s) (hh : s.hostUsed = false) (hs : s.stopper = none)
    {u : Tid} {th : Thread} (hth : s.threads[u]? = some th) (hq : quiescent th = false) :
    canProgress s = true := by
  have hc := (h.thr u th hth).2 (by simp [hs])
  rw [proj_eq, spc_none hs] at hc
  have hnh := hc.nh (by simpa using hh)
  have htl : s.tlock = none := by have := h.tl; simpa [spc_none hs, holdsT] using this
  have hpz : th.paused = false := by simpa [covered] using hnh.1
  have htok : th.pc.waiting = true → th.token = true := by
    intro hw
    cases ht : th.token
    · have := hnh.2.2.2 hw ht; simp [beforeUnpark] at this
    · rfl
  -- the holder of the heap lock can move
  have hheap : ∀ x, s.hlock = some x → canProgress s = true := by
    intro x hx
    have hxl := h.hlk x hx
    have hxt : s.threads[x]? = some s.threads[x] := List.getElem?_eq_getElem hxl
    generalize s.threads[x] = tx at hxt
    have hxc := (h.thr x tx hxt).2 (by simp [hs])
    rw [proj_eq, spc_none hs] at hxc
    have hxh : holdsH s.fix tx.pc = true := by have := hxc.hl; simpa [hx] using this
    have hxnh := hxc.nh (by simpa using hh)
    cases hp : tx.pc with
    | exitCheck k => exact progress_step hxt (by simp [enabledStep, hp]) (by simp [hp])
    | intCheck k => exact progress_step hxt (by simp [enabledStep, hp]) (by simp [hp])
    | retract k => exact progress_step hxt (by simp [enabledStep, hp]) (by simp [hp])
    | allocd => exact progress_step hxt (by simp [enabledStep, hp]) (by simp [hp])
    | envReady => exact progress_step hxt (by simp [enabledStep, hp, htl]) (by simp [hp])
    | parking k =>
      have : tx.token = true := by
        cases ht : tx.token
        · have := hxnh.2.2.2 (by simp [hp, PC.waiting]) ht; simp [beforeUnpark] at this
        · rfl
      exact progress_step hxt (by simp [enabledStep, hp, this]) (by simp [hp])
    | run => simp [hp, holdsH] at hxh
    | sawPaused => simp [hp, holdsH] at hxh
    | pubStore => simp [hp, holdsH] at hxh
    | inSafe k => simp [hp, holdsH] at hxh
    | regWait c => simp [hp, holdsH] at hxh
    | done => simp [hp, holdsH] at hxh
    | stopP o i => have := hxc.nst; simp [hp, PC.isStopper] at this
    | stopS o i => have := hxc.nst; simp [hp, PC.isStopper] at this
    | scanLock o ph => have := hxc.nst; simp [hp, PC.isStopper] at this
    | spin o ph i => have := hxc.nst; simp [hp, PC.isStopper] at this
    | acc o ph i => have := hxc.nst; simp [hp, PC.isStopper] at this
    | resLock o => have := hxc.nst; simp [hp, PC.isStopper] at this
    | resP o i => have := hxc.nst; simp [hp, PC.isStopper] at this
    | resS o i => have := hxc.nst; simp [hp, PC.isStopper] at this
    | resU o i => have := hxc.nst; simp [hp, PC.isStopper] at this
  have hlockwait : ∀ k, th.pc = .inSafe k → isHeapKind k = true → canProgress s = true := by
    intro k hp hk
    cases hl : s.hlock with
    | none =>
      refine progress_step hth ?_ (by rw [hp]; cases k <;> simp_all [isHeapKind])
      cases k <;> simp_all [enabledStep, isHeapKind]
    | some x => exact hheap x hl
  cases hp : th.pc with
  | run => simp [quiescent, hp, hpz] at hq
  | done => simp [quiescent, hp] at hq
  | sawPaused => exact progress_step hth (by simp [enabledStep, hp]) (by simp [hp])
  | pubStore => exact progress_step hth (by simp [enabledStep, hp]) (by simp [hp])
  | inSafe k =>
    cases k with
    | prim => simp [quiescent, hp] at hq
    | poll => exact progress_step hth (by simp [enabledStep, hp]) (by simp [hp])
    | alloc => exact hlockwait .alloc hp rfl
    | gate => exact hlockwait .gate hp rfl
  | regWait c => exact progress_step hth (by simp [enabledStep, hp, htl]) (by simp [hp])
  | exitCheck k => exact progress_step hth (by simp [enabledStep, hp]) (by simp [hp])
  | intCheck k => exact progress_step hth (by simp [enabledStep, hp]) (by simp [hp])
  | parking k =>
    have := htok (by simp [hp, PC.waiting])
    exact progress_step hth (by simp [enabledStep, hp, this]) (by simp [hp])
  | retract k => exact progress_step hth (by simp [enabledStep, hp]) (by simp [hp])
  | allocd => exact progress_step hth (by simp [enabledStep, hp]) (by simp [hp])
  | envReady => exact progress_step hth (by simp [enabledStep, hp, htl]) (by simp [hp])
  | stopP o i => have := hc.nst; simp [hp, PC.isStopper] at this
  | stopS o i => have := hc.nst; simp [hp, PC.isStopper] at this
  | scanLock o ph => have := hc.nst; simp [hp, PC.isStopper] at this
  | spin o ph i => have := hc.nst; simp [hp, PC.isStopper] at this
  | acc o ph i => have := hc.nst; simp [hp, PC.isStopper] at this
  | resLock o => have := hc.nst; simp [hp, PC.isStopper] at this
  | resP o i => have := hc.nst; simp [hp, PC.isStopper] at this
  | resS o i => have := hc.nst; simp [hp, PC.isStopper] at this
  | resU o i => have := hc.nst; simp [hp, PC.isStopper] at this

/-- In a state satisfying the invariant (no host interrupt issued) the runtime is not deadlocked. -/
theorem inv_not_deadlocked {s : State} (h : Inv s) (hh : s.hostUsed = false) : deadlocked s = false := by
  simp only [deadlocked, Bool.and_eq_false_iff, Bool.not_eq_false']
  cases hs : s.stopper with
  | some a => exact Or.inl (stopper_progress h hh hs)
  | none =>
    by_cases hq : allQuiescent s = true
    · exact Or.inr hq
    · left
      have hq' : ∃ th, th ∈ s.threads ∧ quiescent th = false := by
        simp only [allQuiescent, List.all_eq_true] at hq
        apply Classical.byContradiction
        intro hne
        apply hq
        intro x hx
        cases hqx : quiescent x
        · exact absurd ⟨x, hx, hqx⟩ hne
        · rfl
      obtain ⟨th, hmem, hqf⟩ := hq'
      obtain ⟨u, hlt, rfl⟩ := List.getElem_of_mem hmem
      exact idle_progress h hh hs (List.getElem?_eq_getElem hlt) (by simpa using hqf)

/-- **C16 (runtime never deadlocks), under the guard.**  For every number of threads and every schedule that
respects `G` and contains no host interrupt: in the state reached, either some thread can take a runtime step
that changes the state, or every thread is finished, free to run script code, or inside a primitive (blocked —
if at all — on the script's own objects). -/
theorem no_deadlock_partial (sched : List (Tid × Act)) :
    (runG init sched).hostUsed = false → deadlocked (runG init sched) = false :=
  inv_not_deadlocked (runG_inv sched inv_init)

/-! ## The dual-stopper deadlock (K16a) -/

/-- Two threads assign a global: both pass the heap-lock gate (the guard is dropped at once), thread 0 stops
the world and spins on thread 1's `ctx` holding the `threads` mutex; thread 1 is about to stop the world itself
and never publishes. -/
def dualStopper : List (Tid × Act) :=
  [(0, .spawn)] ++ List.replicate 3 (0, .step) ++
  [(0, .setGlobal)] ++ List.replicate 3 (0, .step) ++      -- 0: gate passed
  [(1, .setGlobal)] ++ List.replicate 3 (1, .step) ++      -- 1: gate passed
  List.replicate 8 (0, .step)                              -- 0: stop_threads, drain_env, spins on entry 1

theorem dual_stopper_deadlock :
    deadlocked (run init dualStopper) = true ∧ (run init dualStopper).hostUsed = false := by decide

/-- The guard rejects that schedule at thread 0's stop request to thread 1 (which is past its gate). -/
theorem dualStopper_guard : runG init dualStopper = run init (dualStopper.take 15) := by decide

/-- The full statement does not hold for the code as it is. -/
def NoDeadlock : Prop :=
  ∀ sched : List (Tid × Act), (run init sched).hostUsed = false → deadlocked (run init sched) = false

theorem not_no_deadlock : ¬ NoDeadlock := by
  intro h
  have := h dualStopper dual_stopper_deadlock.2
  rw [dual_stopper_deadlock.1] at this
  cases this

/-! ## The repaired variant: the heap-lock guard is kept during `with_locked_env` -/

theorem upd_fix (s : State) (i : Tid) (f : Thread → Thread) : (s.upd i f).fix = s.fix := by
  unfold State.upd; split <;> rfl

theorem stopBegin_fix {s s' : State} {t : Tid} {th : Thread} {o : Op}
    (hs : stopBegin s t th o = some s') : s'.fix = s.fix := by
  unfold stopBegin at hs; split at hs
  · cases hs
  · cases hs; rfl

/-- No step changes the variant flag. -/
theorem step_fix {s s' : State} {t : Tid} {a : Act} (hs : step s t a = some s') : s'.fix = s.fix := by
  unfold step at hs
  repeat' split at hs
  all_goals first
    | (cases hs; done)
    | (cases hs; rfl)
    | (cases hs; simp [upd_fix])
    | exact stopBegin_fix hs

/-- In the repaired variant a thread that is about to stop the world holds the heap lock, and so does a
stopper: a second round cannot begin while one is in progress.  The guard's "one round at a time" clause
is therefore implied. -/
theorem gfix_imp_g {s : State} (h : Inv s) (hf : s.fix = true) {t : Tid} {a : Act}
    (hg : GFix s t a = true) : G s t a = true := by
  cases hth : s.threads[t]? with
  | none => simp [G, hth]
  | some th =>
    have key : (th.pc = .allocd ∨ th.pc = .envReady) → s.stopper = none := by
      intro hp
      cases hs : s.stopper with
      | none => rfl
      | some b =>
        exfalso
        have hbl := h.stp b hs
        have hbt : s.threads[b]? = some s.threads[b] := List.getElem?_eq_getElem hbl
        generalize s.threads[b] = tb at hbt
        have hself := (h.thr b tb hbt).1 hs
        have hns : th.pc.isStopper = false := by rcases hp with hp | hp <;> simp [hp, PC.isStopper]
        have hnt := not_stopper_of_pc h hth hns
        have hc := (h.thr t th hth).2 hnt
        have h1 : s.hlock = some t := by
          have := hc.hl
          rcases hp with hp | hp <;> simpa [hp, holdsH, proj_eq, hf] using this
        have h2 : s.hlock = some b := by
          have := hself.hl
          have hst := hself.st
          cases hpb : tb.pc <;> simp [hpb, PC.isStopper] at hst <;>
            simpa [hpb, holdsH, hf] using this
        rw [h1] at h2
        have : t = b := Option.some.inj h2
        subst this
        rw [hs] at hnt; exact hnt rfl
    cases a <;> cases hpc : th.pc <;> simp_all [G, GFix] <;> exact hg

theorem runGFix_inv (sched : List (Tid × Act)) : ∀ {s : State}, Inv s → s.fix = true →
    Inv (runGFix s sched) ∧ (runGFix s sched).fix = true := by
  induction sched with
  | nil => intro s h hf; exact ⟨h, hf⟩
  | cons x rest ih =>
    intro s h hf
    obtain ⟨t, a⟩ := x
    simp only [runGFix]
    split
    · rename_i hg
      cases hs : step s t a with
      | none => exact ⟨h, hf⟩
      | some s' =>
        exact ih (step_inv h (gfix_imp_g h hf hg) hs) (by rw [step_fix hs]; exact hf)
    · exact ⟨h, hf⟩

/-- **C16 for the repaired variant** (`let _guard = …` instead of `let _ = …` in front of
`with_locked_env`): the runtime does not deadlock, for every number of threads and every schedule, without
assuming that stop requests do not overlap — two threads that assign globals, or a collector and an
assigner, are serialised by the heap lock.  (The remaining guard: no spawn / host interrupt during a round,
no stop request to a thread that is leaving a safepoint — the windows of K15a/K15b, which are safety, not
progress, problems.) -/
theorem no_deadlock_fixed (sched : List (Tid × Act)) :
    (runGFix initFix sched).hostUsed = false → deadlocked (runGFix initFix sched) = false :=
  inv_not_deadlocked (runGFix_inv sched inv_initFix rfl).1

/-- **C16 for the current code** (/repo d9e2a72a applied the repair; `C15.code = initFix`). -/
theorem no_deadlock_code (sched : List (Tid × Act)) :
    (runGFix C15.code sched).hostUsed = false → deadlocked (runGFix C15.code sched) = false :=
  no_deadlock_fixed sched

/-- The K16a schedule in the repaired variant: thread 1 cannot pass its gate while thread 0 is in
`with_locked_env`; it waits published, is scanned there, and the round goes on. -/
def dualStopperFix : List (Tid × Act) :=
  [(0, .spawn)] ++ List.replicate 3 (0, .step) ++
  [(0, .setGlobal)] ++ List.replicate 3 (0, .step) ++      -- 0: gate passed, heap lock kept
  [(1, .setGlobal)] ++                                     -- 1: published, blocked on the heap lock
  List.replicate 9 (0, .step)                              -- 0: stop_threads, drain_env, scanBegin 1

theorem dualStopper_fixed :
    let s := runGFix initFix dualStopperFix
    deadlocked s = false ∧ (s.threads.map (·.pc)) = [.acc .env 0 1, .inSafe .gate] ∧
    step s 1 .step = none := by decide

/-! ## A round terminates -/

/-- Every step of the stopper that changes the state brings the end of its round closer: `roundRank` (a
function of the stopper's pc and the length of the thread list, at most `9·len + 13`) strictly decreases.
Together with `stopper_progress` (whenever the stopper cannot move, the one thread it waits for can, and is at
most 3 of its own steps from publishing itself) this bounds a round by the stopper's own `9·len + 13` steps
plus the steps the awaited threads need to reach a safepoint.  No fairness of the OS scheduler is assumed or
proved. -/
theorem round_rank_decreases {s s' : State} {t : Tid} {th th' : Thread}
    (hth : s.threads[t]? = some th) (hst : th.pc.isStopper = true)
    (hidx : idxOk s.threads.length th.pc = true)
    (hs : step s t .step = some s') (hth' : s'.threads[t]? = some th') (hne : th'.pc ≠ th.pc) :
    roundRank s.threads.length th'.pc < roundRank s.threads.length th.pc ∧
    (th'.pc.isStopper = true → idxOk s.threads.length th'.pc = true) := by
  have hl : t < s.threads.length := lt_of_get hth
  have hput : ∀ (X : State) (y : Thread), X.threads.length = s.threads.length →
      (X.put t y).threads[t]? = some th' → y = th' := by
    intro X y hX hy
    rw [get_put_lt y (by rw [hX]; exact hl)] at hy
    exact Option.some.inj hy
  cases hpc : th.pc <;> simp [hpc, PC.isStopper] at hst
  case stopP o i =>
    simp only [hpc, idxOk, decide_eq_true_eq] at hidx
    simp only [step, hth, hpc] at hs
    cases hi : s.threads[i]? with
    | none =>
      simp only [hi] at hs; cases hs
      have := hput _ _ rfl hth'; subst this
      have := none_le hi
      simp [roundRank, idxOk, PC.isStopper] <;> omega
    | some x =>
      have hil := lt_of_get hi
      simp only [hi] at hs
      split at hs
      · cases hs; have := hput _ _ rfl hth'; subst this
        simp [roundRank, idxOk, PC.isStopper] <;> omega
      · split at hs
        · cases hs; have := hput _ _ (by simp) hth'; subst this
          simp [roundRank, idxOk, PC.isStopper] <;> omega
        · cases hs; have := hput _ _ rfl hth'; subst this
          simp [roundRank, idxOk, PC.isStopper] <;> omega
  case stopS o i =>
    simp only [hpc, idxOk, decide_eq_true_eq] at hidx
    simp only [step, hth, hpc] at hs
    split at hs
    · cases hs; have := hput _ _ rfl hth'; subst this
      simp [roundRank, idxOk, PC.isStopper] <;> omega
    · cases hs; have := hput _ _ (upd_len _ _ _) hth'; subst this
      simp [roundRank, idxOk, PC.isStopper] <;> omega
  case scanLock o ph =>
    simp only [step, hth, hpc] at hs
    split at hs
    · cases hs
    · cases o <;> cases ph <;> simp only at hs <;> cases hs <;>
        (have := hput _ _ rfl hth'; subst this; simp [roundRank, idxOk, PC.isStopper]) <;> try omega
  case spin o ph i =>
    simp only [hpc, idxOk, decide_eq_true_eq] at hidx
    simp only [step, hth, hpc] at hs
    cases hi : s.threads[i]? with
    | none =>
      simp only [hi] at hs; cases hs
      have := hput _ _ rfl hth'; subst this
      have := none_le hi
      cases o <;> cases ph <;> simp [roundRank, idxOk, PC.isStopper, afterScan] <;> omega
    | some x =>
      have hil := lt_of_get hi
      simp only [hi] at hs
      split at hs
      · cases hs; have := hput _ _ rfl hth'; subst this
        cases ph <;> simp [roundRank, idxOk, PC.isStopper] <;> omega
      · split at hs
        · cases hs; have := hput _ _ (by simp) hth'; subst this
          cases ph <;> simp [roundRank, idxOk, PC.isStopper] <;> omega
        · cases hs
          rw [hth] at hth'; cases hth'; exact absurd rfl hne
  case acc o ph i =>
    simp only [hpc, idxOk, decide_eq_true_eq] at hidx
    simp only [step, hth, hpc] at hs
    cases hs; have := hput _ _ (upd_len _ _ _) hth'; subst this
    cases ph <;> simp [roundRank, idxOk, PC.isStopper] <;> omega
  case resLock o =>
    simp only [step, hth, hpc] at hs
    split at hs
    · cases hs
    · cases hs; have := hput _ _ rfl hth'; subst this
      simp [roundRank, idxOk, PC.isStopper] <;> omega
  case resP o i =>
    simp only [hpc, idxOk, decide_eq_true_eq] at hidx
    simp only [step, hth, hpc] at hs
    cases hi : s.threads[i]? with
    | none =>
      simp only [hi] at hs; cases hs
      have := hput _ _ (by split <;> rfl) hth'; subst this
      simp [roundRank, idxOk, PC.isStopper] <;> omega
    | some x =>
      have hil := lt_of_get hi
      simp only [hi] at hs
      split at hs
      · cases hs; have := hput _ _ rfl hth'; subst this
        simp [roundRank, idxOk, PC.isStopper] <;> omega
      · split at hs
        · cases hs; have := hput _ _ (by simp) hth'; subst this
          simp [roundRank, idxOk, PC.isStopper] <;> omega
        · cases hs; have := hput _ _ rfl hth'; subst this
          simp [roundRank, idxOk, PC.isStopper] <;> omega
  case resS o i =>
    simp only [hpc, idxOk, decide_eq_true_eq] at hidx
    simp only [step, hth, hpc] at hs
    split at hs
    · cases hs; have := hput _ _ rfl hth'; subst this
      simp [roundRank, idxOk, PC.isStopper] <;> omega
    · cases hs; have := hput _ _ (upd_len _ _ _) hth'; subst this
      simp [roundRank, idxOk, PC.isStopper] <;> omega
  case resU o i =>
    simp only [hpc, idxOk, decide_eq_true_eq] at hidx
    simp only [step, hth, hpc] at hs
    split at hs
    · cases hs; have := hput _ _ rfl hth'; subst this
      simp [roundRank, idxOk, PC.isStopper] <;> omega
    · cases hs; have := hput _ _ (upd_len _ _ _) hth'; subst this
      simp [roundRank, idxOk, PC.isStopper] <;> omega

/-- **A stop round terminates** (in the stopper's own steps): alias of `round_rank_decreases` with the
bound spelled out — the rank of a round that has just begun. -/
theorem stop_round_terminates (len : Nat) (o : Op) : roundRank len (.stopP o 0) = 9 * len + 13 := by
  simp [roundRank]; omega

/-! ## Script-level objects -/

def isValue : JoinRes → Bool
  | .value _ => true
  | _ => false

theorem handle_run_inv (ops : List HOp) : ∀ (h : Handle), (h.taken = true ↔ h.delivered = 1) →
    h.delivered ≤ 1 →
    ((h.run ops).2.filter isValue).length + h.delivered = (h.run ops).1.delivered ∧
    (h.run ops).1.delivered ≤ 1 := by
  induction ops with
  | nil => intro h _ hd; simp [Handle.run]; exact hd
  | cons op rest ih =>
    intro h ht hd
    cases op with
    | finish v =>
      simp only [Handle.run]
      have h1 : ((h.finish v).taken = true ↔ (h.finish v).delivered = 1) := by
        unfold Handle.finish; split <;> simpa using ht
      have h2 : (h.finish v).delivered ≤ 1 := by unfold Handle.finish; split <;> simpa using hd
      have h3 : (h.finish v).delivered = h.delivered := by unfold Handle.finish; split <;> rfl
      obtain ⟨a, b⟩ := ih (h.finish v) h1 h2
      exact ⟨by rw [← h3]; exact a, b⟩
    | join =>
      simp only [Handle.run]
      by_cases htk : h.taken = true
      · have e : h.join = (h, .alreadyJoined) := by simp [Handle.join, htk]
        rw [e]; simp only
        obtain ⟨a, b⟩ := ih h ht hd
        exact ⟨by simpa [isValue] using a, b⟩
      · cases hr : h.result with
        | none =>
          have e : h.join = (h, .notFinished) := by simp [Handle.join, htk, hr]
          rw [e]; simp only
          obtain ⟨a, b⟩ := ih h ht hd
          exact ⟨by simpa [isValue] using a, b⟩
        | some r =>
          have hd0 : h.delivered = 0 := by
            have : ¬ (h.delivered = 1) := fun e => htk (ht.mpr e)
            omega
          have e : h.join = ({ h with taken := true, delivered := h.delivered + 1 }, .value r) := by
            simp [Handle.join, htk, hr]
          rw [e]; simp only
          obtain ⟨a, b⟩ := ih { h with taken := true, delivered := h.delivered + 1 }
            (by simp [hd0]) (by simp [hd0])
          refine ⟨?_, b⟩
          simp only [List.filter_cons, isValue, if_true, List.length_cons] at a ⊢
          omega

/-- **A joined thread's result is delivered exactly once**: whatever the order of `thread-join!` calls (by any
threads) and of the thread's exit, at most one call receives a value, and it is the thread's result. -/
theorem join_once (ops : List HOp) :
    let r := ({} : Handle).run ops
    (r.2.filter isValue).length ≤ 1 ∧ (r.2.filter isValue).length = r.1.delivered ∧
    ∀ v, JoinRes.value v ∈ r.2 → r.1.result = some v := by
  have := handle_run_inv ops {} (by simp) (by simp)
  obtain ⟨a, b⟩ := this
  simp only at a
  refine ⟨by omega, by omega, ?_⟩
  intro v hv
  -- the delivered value equals the final result: rerun the invariant from the state in which it is set
  have key : ∀ (ops : List HOp) (h : Handle) (v : Nat), JoinRes.value v ∈ (h.run ops).2 →
      (h.run ops).1.result = some v := by
    intro ops
    induction ops with
    | nil => intro h v hv; simp [Handle.run] at hv
    | cons o rs ih =>
      intro h v hv
      cases o with
      | finish x => simp only [Handle.run] at hv ⊢; exact ih _ v hv
      | join =>
        simp only [Handle.run] at hv ⊢
        simp at hv
        rcases hv with hv | hv
        · -- this join delivered `v`: the result was `some v` and stays
          have hj : h.result = some v ∧ (h.join).1.result = some v := by
            unfold Handle.join at hv ⊢
            split at hv
            · cases hv
            · split at hv
              · cases hv
              · rename_i w hw
                simp at hv; subst hv
                simp_all
          have stay : ∀ (ops : List HOp) (g : Handle), g.result = some v → (g.run ops).1.result = some v := by
            intro ops
            induction ops with
            | nil => intro g hg; simpa [Handle.run] using hg
            | cons o rs ih2 =>
              intro g hg
              cases o with
              | finish x => simp only [Handle.run]; exact ih2 _ (by simp [Handle.finish, hg])
              | join =>
                simp only [Handle.run]
                have : (g.join).1.result = some v := by
                  unfold Handle.join; split
                  · exact hg
                  · split <;> simp_all
                exact ih2 _ this
          exact stay rs _ hj.2
        · exact ih _ v hv
  exact key ops {} v hv

theorem chan_inv (ops : List COp) : ∀ (c : Chan), c.recvd ++ c.queue = c.sent →
    (c.run ops).recvd ++ (c.run ops).queue = (c.run ops).sent := by
  induction ops with
  | nil => intro c h; simpa [Chan.run] using h
  | cons o r ih =>
    intro c h
    simp only [Chan.run]
    apply ih
    cases o with
    | send m => simp [Chan.step, ← h]
    | recv =>
      unfold Chan.step
      cases hq : c.queue with
      | nil => simpa [hq] using h
      | cons m q => simp [hq] at h ⊢; exact h

/-- **Channels deliver every sent value once, in order per sender**: after any interleaving of sends (by any
senders) and receives, what was received followed by what is still queued is exactly what was sent, in the
order of the sends; in particular the values received from one sender are a prefix of what it sent, in its
order. -/
theorem channel_fifo_per_sender (ops : List COp) (p : Nat) :
    let c := ({} : Chan).run ops
    c.recvd ++ c.queue = c.sent ∧
    (c.recvd.filter (fun m => m.1 == p)) <+: (c.sent.filter (fun m => m.1 == p)) := by
  have h := chan_inv ops {} (by simp)
  refine ⟨h, ?_⟩
  rw [← h, List.filter_append]
  exact List.prefix_append _ _

/-- Non-vacuity: two senders interleaved, three receives. -/
theorem channel_example :
    (({} : Chan).run [.send (1, 0), .send (2, 0), .recv, .send (1, 1), .recv, .recv, .recv]).recvd
      = [(1, 0), (2, 0), (1, 1)] := by decide

theorem join_example :
    (({} : Handle).run [.join, .finish 7, .join, .join, .finish 9]).2
      = [.notFinished, .value 7, .alreadyJoined] := by decide

end SteelVerif.C16
