/-
C16 — the host root table (`GLOBAL_ROOTS` of values/closed.rs) in the object model: a mutex `R` that script threads take
from UNPUBLISHED code (a finishing thread rooting its result, a channel dropped with values in flight, channel primitives
called by a native higher-order procedure) and that the collector takes to read the roots.

Any number `n` of mutators, one collector, every lock operation / poll / flag store one atomic step.
  mutator:   run --touch--> wantR --(R free)--> holdR --release--> run        (never polls in between: unpublished)
             run --poll, stop requested--> parked --(resume)--> run            run --finish--> done
  collector: idle --startGC--> begin --> stopping (stop requested) --> spinning (until every mutator is parked or done)
             --> rooting --(R free)--> marking (holds R) --> resuming --> idle
`lockFirst = false` is the code: `R` is a LEAF lock of the collector, taken after the world is stopped.
`lockFirst = true` is the reversed order (seeded change C16-n3): `begin` takes `R` and keeps it through the spin.
-/
namespace SteelVerif.C16.LockOrder
set_option linter.unusedSimpArgs false
set_option linter.unusedVariables false

inductive MPc where
  | run | wantR | holdR | parked | done
deriving DecidableEq, Repr, Inhabited

inductive CPc where
  | idle | begin | stopping | spinning | rooting | marking | resuming
deriving DecidableEq, Repr, Inhabited

inductive Owner where
  | mut (i : Nat) | col
deriving DecidableEq, Repr

structure State where
  n : Nat
  m : Nat → MPc := fun _ => .run
  c : CPc := .idle
  stop : Bool := false
  r : Option Owner := none
  lockFirst : Bool := false

def init (n : Nat) (lockFirst : Bool) : State := { n := n, lockFirst := lockFirst }

inductive Act where
  | startGC | col                       -- the collector: a script choice / its next step
  | touch (i : Nat) | poll (i : Nat) | finish (i : Nat) | step (i : Nat)
deriving DecidableEq, Repr

def State.setM (s : State) (i : Nat) (p : MPc) : State := { s with m := fun j => if j = i then p else s.m j }

def allStopped (s : State) : Bool := (List.range s.n).all fun i => s.m i == .parked || s.m i == .done

def step (s : State) : Act → Option State
  | .startGC => if s.c = .idle then some { s with c := .begin } else none
  | .col =>
      match s.c with
      | .idle => none
      | .begin =>
          if s.lockFirst then (if s.r.isNone then some { s with r := some .col, c := .stopping } else none)
          else some { s with c := .stopping }
      | .stopping => some { s with stop := true, c := .spinning }
      | .spinning =>
          if allStopped s then some { s with c := if s.lockFirst then .marking else .rooting } else none
      | .rooting => if s.r.isNone then some { s with r := some .col, c := .marking } else none
      | .marking => some { s with r := none, c := .resuming }
      | .resuming =>
          some { s with stop := false, c := .idle, m := fun j => if s.m j = .parked then .run else s.m j }
  | .touch i => if i < s.n ∧ s.m i = .run then some (s.setM i .wantR) else none
  | .finish i => if i < s.n ∧ s.m i = .run then some (s.setM i .done) else none
  | .poll i => if i < s.n ∧ s.m i = .run then (if s.stop then some (s.setM i .parked) else some s) else none
  | .step i =>
      if i < s.n then
        match s.m i with
        | .wantR => if s.r.isNone then some { s.setM i .holdR with r := some (.mut i) } else none
        | .holdR => some { s.setM i .run with r := none }
        | _ => none
      else none

def run (s : State) : List Act → State
  | [] => s
  | a :: rest => match step s a with
    | none => s
    | some s' => run s' rest

/-- The collector's next step is executable (and it owes one: a collection is in progress). -/
def colEnabled (s : State) : Bool :=
  match s.c with
  | .idle => false
  | .begin => !s.lockFirst || s.r.isNone
  | .spinning => allStopped s
  | .rooting => s.r.isNone
  | _ => true

/-- Mutator `i` can take a step the runtime owes it. -/
def mutEnabled (s : State) (i : Nat) : Bool :=
  match s.m i with
  | .run => s.stop
  | .wantR => s.r.isNone
  | .holdR => true
  | _ => false

def quiescent (s : State) : Bool :=
  s.c == .idle && (List.range s.n).all fun i => s.m i == .done || (s.m i == .run && !s.stop)

def deadlocked (s : State) : Bool :=
  !(colEnabled s || (List.range s.n).any (mutEnabled s)) && !quiescent s

/-! ## The reversed order deadlocks -/

/-- One mutator: the collector takes `R` and asks for the stop; the mutator, unpublished, wants `R`: the collector waits
for the mutator to publish, the mutator waits for `R`. -/
def lockFirstWitness : List Act := [.startGC, .col, .touch 0, .col]

theorem lock_first_deadlocks :
    deadlocked (run (init 1 true) lockFirstWitness) = true ∧
    (run (init 1 true) lockFirstWitness).c = .spinning ∧ (run (init 1 true) lockFirstWitness).m 0 = .wantR ∧
    (run (init 1 true) lockFirstWitness).r = some .col := by decide

/-- The same schedule with the code's order goes on (the mutator gets `R`). -/
theorem stop_first_same_schedule : deadlocked (run (init 1 false) lockFirstWitness) = false := by decide

/-! ## The code's order never deadlocks (any number of mutators, any schedule) -/

structure Inv (s : State) : Prop where
  lf : s.lockFirst = false
  rm : ∀ i, s.r = some (.mut i) ↔ (i < s.n ∧ s.m i = .holdR)
  rc : s.r = some .col ↔ s.c = .marking
  st : (s.c = .rooting ∨ s.c = .marking) → ∀ i, i < s.n → s.m i = .parked ∨ s.m i = .done
  sp : s.stop = true ↔ (s.c = .spinning ∨ s.c = .rooting ∨ s.c = .marking ∨ s.c = .resuming)
  pk : ∀ i, i < s.n → s.m i = .parked → s.stop = true

theorem inv_init (n : Nat) : Inv (init n false) := by
  refine ⟨rfl, ?_, ?_, ?_, ?_, ?_⟩ <;> simp [init]

theorem allStopped_iff (s : State) : allStopped s = true ↔ ∀ i, i < s.n → s.m i = .parked ∨ s.m i = .done := by
  simp [allStopped, List.all_eq_true]

theorem step_inv {s s' : State} {a : Act} (h : Inv s) (hs : step s a = some s') : Inv s' := by
  obtain ⟨lf, rm, rc, st, sp, pk⟩ := h
  cases a with
  | startGC =>
    simp only [step] at hs
    split at hs
    · cases hs
      rename_i hc
      refine ⟨lf, rm, ?_, ?_, ?_, pk⟩ <;> simp_all
    · cases hs
  | col =>
    simp only [step] at hs
    cases hc : s.c <;> simp only [hc] at hs
    · cases hs
    · simp [lf] at hs; cases hs
      refine ⟨by simpa using lf, rm, ?_, ?_, ?_, pk⟩ <;> simp_all
    · cases hs
      refine ⟨lf, rm, ?_, ?_, ?_, ?_⟩ <;> simp_all
    · split at hs
      · rename_i hall
        cases hs
        have hall' := (allStopped_iff s).1 hall
        refine ⟨lf, rm, ?_, ?_, ?_, pk⟩ <;> simp_all
      · cases hs
    · split at hs
      · rename_i hr
        cases hs
        have hrn : s.r = none := by simpa using hr
        refine ⟨lf, ?_, ?_, ?_, ?_, pk⟩
        · intro i
          have := rm i
          have hst := st (Or.inl hc) i
          constructor
          · intro e; simp at e
          · rintro ⟨hi, hm⟩
            rcases hst hi with e | e <;> simp [e] at hm
        · simp
        · intro _; exact st (Or.inl hc)
        · simp_all
      · cases hs
    · cases hs
      have hall := st (Or.inr hc)
      refine ⟨lf, ?_, ?_, ?_, ?_, pk⟩
      · intro i
        constructor
        · intro e; simp at e
        · rintro ⟨hi, hm⟩
          rcases hall i hi with e | e <;> simp [e] at hm
      · simp
      · simp
      · simp_all
    · cases hs
      refine ⟨lf, ?_, ?_, ?_, ?_, ?_⟩
      · intro i
        have := rm i
        constructor
        · intro e
          have := this.1 e
          refine ⟨this.1, ?_⟩
          simp [this.2]
        · rintro ⟨hi, hm⟩
          apply this.2
          refine ⟨hi, ?_⟩
          by_cases hp : s.m i = .parked
          · simp [hp] at hm
          · simpa [hp] using hm
      · simp_all
      · simp
      · simp
      · intro i hi hm
        by_cases hp : s.m i = .parked
        · simp [hp] at hm
        · simp [hp] at hm
  | touch i =>
    simp only [step] at hs
    split at hs
    · rename_i hc
      cases hs
      refine ⟨lf, ?_, rc, ?_, sp, ?_⟩
      · intro j
        have := rm j
        by_cases hji : j = i
        · subst hji; simp_all [State.setM]
        · simp_all [State.setM]
      · intro hcc j hj
        have := st hcc j hj
        by_cases hji : j = i
        · subst hji; simp_all [State.setM]
        · simp_all [State.setM]
      · intro j hj hm
        by_cases hji : j = i
        · subst hji; simp [State.setM] at hm
        · exact pk j hj (by simpa [State.setM, hji] using hm)
    · cases hs
  | finish i =>
    simp only [step] at hs
    split at hs
    · rename_i hc
      cases hs
      refine ⟨lf, ?_, rc, ?_, sp, ?_⟩
      · intro j
        have := rm j
        by_cases hji : j = i
        · subst hji; simp_all [State.setM]
        · simp_all [State.setM]
      · intro hcc j hj
        have := st hcc j hj
        by_cases hji : j = i
        · subst hji; simp_all [State.setM]
        · simp_all [State.setM]
      · intro j hj hm
        by_cases hji : j = i
        · subst hji; simp [State.setM] at hm
        · exact pk j hj (by simpa [State.setM, hji] using hm)
    · cases hs
  | poll i =>
    simp only [step] at hs
    split at hs
    · rename_i hc
      split at hs
      · rename_i hstop
        cases hs
        refine ⟨lf, ?_, rc, ?_, sp, ?_⟩
        · intro j
          have := rm j
          by_cases hji : j = i
          · subst hji; simp_all [State.setM]
          · simp_all [State.setM]
        · intro hcc j hj
          have := st hcc j hj
          by_cases hji : j = i
          · subst hji; simp_all [State.setM]
          · simp_all [State.setM]
        · intro j hj hm
          exact hstop
      · cases hs; exact ⟨lf, rm, rc, st, sp, pk⟩
    · cases hs
  | step i =>
    simp only [step] at hs
    split at hs
    · rename_i hi
      cases hm : s.m i <;> simp only [hm] at hs
      · cases hs
      · split at hs
        · rename_i hr
          cases hs
          have hrn : s.r = none := by simpa using hr
          have hnc : s.c ≠ .marking := by intro e; have := rc.2 e; simp [hrn] at this
          refine ⟨lf, ?_, ?_, ?_, sp, ?_⟩
          · intro j
            by_cases hji : j = i
            · subst hji; simp [State.setM, hi]
            · constructor
              · intro e
                simp at e
                exact absurd e.symm hji
              · rintro ⟨hj, hmj⟩
                have hmj' : s.m j = .holdR := by simpa [State.setM, hji] using hmj
                have := (rm j).2 ⟨hj, hmj'⟩
                rw [hrn] at this; cases this
          · simp [hnc, State.setM]
          · intro hcc j hj
            rcases hcc with e | e
            · have := st (Or.inl e) i hi; simp [hm] at this
            · exact absurd e hnc
          · intro j hj hmm
            by_cases hji : j = i
            · subst hji; simp [State.setM] at hmm
            · exact pk j hj (by simpa [State.setM, hji] using hmm)
        · cases hs
      · cases hs
        have hri : s.r = some (.mut i) := (rm i).2 ⟨hi, hm⟩
        have hnc : s.c ≠ .marking := by intro e; have := rc.2 e; simp [hri] at this
        refine ⟨lf, ?_, ?_, ?_, sp, ?_⟩
        · intro j
          by_cases hji : j = i
          · subst hji; simp [State.setM]
          · simp [State.setM, hji]
            intro hj hmj
            have := (rm j).2 ⟨hj, hmj⟩
            rw [hri] at this; cases this; exact hji rfl
        · simp [hnc, State.setM]
        · intro hcc j hj
          rcases hcc with e | e
          · have := st (Or.inl e) i hi; simp [hm] at this
          · exact absurd e hnc
        · intro j hj hmm
          by_cases hji : j = i
          · subst hji; simp [State.setM] at hmm
          · exact pk j hj (by simpa [State.setM, hji] using hmm)
      · cases hs
      · cases hs
    · cases hs

theorem run_inv (sched : List Act) : ∀ {s : State}, Inv s → Inv (run s sched) := by
  induction sched with
  | nil => intro s h; exact h
  | cons a rest ih =>
    intro s h
    simp only [run]
    cases hs : step s a with
    | none => exact h
    | some s' => exact ih (step_inv h hs)


theorem any_enabled {s : State} {i : Nat} (hi : i < s.n) (he : mutEnabled s i = true) :
    (List.range s.n).any (mutEnabled s) = true := by
  simp only [List.any_eq_true, List.mem_range]; exact ⟨i, hi, he⟩

/-- If somebody wants or holds `R` while the collector does not hold it, some mutator can move. -/
theorem root_user_moves {s : State} (h : Inv s) (hnc : s.c ≠ .marking) {i : Nat} (hi : i < s.n)
    (hm : s.m i = .wantR ∨ s.m i = .holdR) : (List.range s.n).any (mutEnabled s) = true := by
  rcases hm with hm | hm
  · cases hr : s.r with
    | none => exact any_enabled hi (by simp [mutEnabled, hm, hr])
    | some o =>
      cases o with
      | col => exact absurd (h.rc.1 hr) hnc
      | «mut» j =>
        obtain ⟨hj, hmj⟩ := (h.rm j).1 hr
        exact any_enabled hj (by simp [mutEnabled, hmj])
  · exact any_enabled hi (by simp [mutEnabled, hm])

theorem inv_not_deadlocked {s : State} (h : Inv s) : deadlocked s = false := by
  cases hq : quiescent s
  case true => simp [deadlocked, hq]
  simp only [deadlocked, hq, Bool.not_false, Bool.and_true, Bool.not_eq_false']
  cases hc : s.c with
  | idle =>
    -- not quiescent: some mutator is neither done nor running freely
    have hst : s.stop = false := by
      cases hs : s.stop
      · rfl
      · have := h.sp.1 hs; simp [hc] at this
    have : ∃ i, i < s.n ∧ ¬ (s.m i = .done ∨ s.m i = .run) := by
      apply Classical.byContradiction
      intro hne
      have : quiescent s = true := by
        simp only [quiescent, hc, beq_self_eq_true, Bool.true_and, List.all_eq_true, List.mem_range]
        intro i hi
        have : s.m i = .done ∨ s.m i = .run := Classical.byContradiction fun hx => hne ⟨i, hi, hx⟩
        rcases this with e | e <;> simp [e, hst]
      rw [hq] at this; cases this
    obtain ⟨i, hi, hmi⟩ := this
    have hnc : s.c ≠ .marking := by simp [hc]
    cases hm : s.m i with
    | run => exact absurd (Or.inr hm) hmi
    | done => exact absurd (Or.inl hm) hmi
    | parked => have := h.pk i hi hm; rw [hst] at this; cases this
    | wantR => simp [root_user_moves h hnc hi (Or.inl hm)]
    | holdR => simp [root_user_moves h hnc hi (Or.inr hm)]
  | begin => simp [colEnabled, hc, h.lf]
  | stopping => simp [colEnabled, hc]
  | marking => simp [colEnabled, hc]
  | resuming => simp [colEnabled, hc]
  | rooting =>
    have hall := h.st (Or.inl hc)
    cases hr : s.r with
    | none => simp [colEnabled, hc, hr]
    | some o =>
      cases o with
      | col => have := h.rc.1 hr; simp [hc] at this
      | «mut» j =>
        obtain ⟨hj, hmj⟩ := (h.rm j).1 hr
        rcases hall j hj with e | e <;> simp [e] at hmj
  | spinning =>
    by_cases hall : allStopped s = true
    · simp [colEnabled, hc, hall]
    · have hst : s.stop = true := h.sp.2 (Or.inl hc)
      have : ∃ i, i < s.n ∧ ¬ (s.m i = .parked ∨ s.m i = .done) := by
        apply Classical.byContradiction
        intro hne
        apply hall
        rw [allStopped_iff]
        intro i hi
        exact Classical.byContradiction fun hx => hne ⟨i, hi, hx⟩
      obtain ⟨i, hi, hmi⟩ := this
      have hnc : s.c ≠ .marking := by simp [hc]
      cases hm : s.m i with
      | run => simp [any_enabled hi (by simp [mutEnabled, hm, hst])]
      | done => exact absurd (Or.inr hm) hmi
      | parked => exact absurd (Or.inl hm) hmi
      | wantR => simp [root_user_moves h hnc hi (Or.inl hm)]
      | holdR => simp [root_user_moves h hnc hi (Or.inr hm)]

/-- **No deadlock with the code's lock order** (the root table is taken after the world is stopped and released before
it is resumed): for every number of mutators and every schedule — any mix of root-table traffic from unpublished code,
polls, thread exits and collections — either everything is quiescent or the collector or some mutator can take a step. -/
theorem no_deadlock_stop_first (n : Nat) (sched : List Act) : deadlocked (run (init n false) sched) = false :=
  inv_not_deadlocked (run_inv sched (inv_init n))

/-- Non-vacuity: three mutators, one holding `R`, one waiting for it, one parked, the collector spinning: not quiescent,
and the holder can move. -/
example :
    let s := run (init 3 false) [.touch 0, .step 0, .touch 1, .startGC, .col, .col, .poll 2, .col]
    s.c = .spinning ∧ s.m 0 = .holdR ∧ s.m 1 = .wantR ∧ s.m 2 = .parked ∧ quiescent s = false ∧
    mutEnabled s 0 = true ∧ colEnabled s = false := by decide

end SteelVerif.C16.LockOrder
