import SteelVerif.C16.Props
import SteelVerif.C16.GenCallPaths
import SteelVerif.C16.GenLocks
import SteelVerif.C16.LockOrder
open SteelVerif.C16
#print axioms step_moves
#print axioms stopper_progress
#print axioms idle_progress
#print axioms no_deadlock_partial
#print axioms dual_stopper_deadlock
#print axioms dualStopper_guard
#print axioms not_no_deadlock
#print axioms gfix_imp_g
#print axioms no_deadlock_fixed
#print axioms dualStopper_fixed
#print axioms no_deadlock_code
#print axioms gate_keeps_guard
#print axioms not_blocking_paths_publish
#print axioms open_k16b_tight
#print axioms blocking_paths_publish_full
#print axioms round_rank_decreases
#print axioms stop_round_terminates
#print axioms roundRank_begin
#print axioms step_other
#print axioms step_self_nonstep
#print axioms join_exactly_once
#print axioms join_once
#print axioms channel_fifo_per_sender
#print axioms channel_example
#print axioms join_example
#print axioms blocking_paths_publish
#print axioms callpaths_nonempty
#print axioms scan_exclusive_fixed
#print axioms env_coherent_fixed
#print axioms guard_no_spawn_in_round
#print axioms R.no_deadlock_repaired
#print axioms R.holder_moves
#print axioms R.awaited_moves
#print axioms R.round_rank_decreases
#print axioms R.stop_round_terminates
#print axioms R.settle_step
#print axioms R.settled_unblocks
#print axioms R.awaited_settles
#print axioms spin_holds_no_unpublished_lock
#print axioms root_table_taken_unpublished
#print axioms root_table_is_a_leaf_of_the_collector
#print axioms heap_lock_inside_safepoint
#print axioms locks_nonempty
#print axioms LockOrder.no_deadlock_stop_first
#print axioms LockOrder.lock_first_deadlocks
#print axioms LockOrder.step_inv
#print axioms R.prim_holds_no_lock
#print axioms R.blocked_in_prim_unblocks_stopper
