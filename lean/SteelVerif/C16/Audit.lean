import SteelVerif.C16.Props
import SteelVerif.C16.GenCallPaths
open SteelVerif.C16
#print axioms step_moves
#print axioms stopper_progress
#print axioms idle_progress
#print axioms no_deadlock_partial
#print axioms dual_stopper_deadlock
#print axioms dualStopper_guard
#print axioms not_no_deadlock
#print axioms gfix_imp_g
#print axioms no_deadlock_fixed
#print axioms dualStopper_fixed
#print axioms no_deadlock_code
#print axioms gate_keeps_guard
#print axioms not_blocking_paths_publish
#print axioms known_unpublished_tight
#print axioms round_rank_decreases
#print axioms stop_round_terminates
#print axioms roundRank_begin
#print axioms step_other
#print axioms step_self_nonstep
#print axioms join_exactly_once
#print axioms join_once
#print axioms channel_fifo_per_sender
#print axioms channel_example
#print axioms join_example
#print axioms blocking_paths_publish
#print axioms callpaths_nonempty
#print axioms scan_exclusive_fixed
#print axioms env_coherent_fixed
#print axioms guard_no_spawn_in_round
