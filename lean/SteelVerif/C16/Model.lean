/-
C16 — what "progress" means on the transition system of `SteelVerif.C15.Model` (the same system: the
safepoint handshake plus the heap mutex, the `threads` mutex and the park tokens), and a model of the
script-level blocking objects (join handles, channels) by their specifications.

A *runtime step* is a step the runtime owes to the script: a poll, the next shared access of a thread that is
in the handshake, the release of a lock.  Not runtime steps: what the script decides (calling a primitive,
allocating, assigning a global, spawning, finishing), the return of a primitive (`inSafe prim`: the thread is
blocked on — or busy in — something of the script's own logic: a channel, a join, a mutex, a sleep), a spurious
wake-up (never owed), and the host's interrupts.
A step is *productive* when it changes the state (a `ctx.load()` that keeps spinning does not).
-/
import SteelVerif.C15.Model
namespace SteelVerif.C16
open SteelVerif.C15

/-- The line `(t, a)` is a runtime step in `s`. -/
def isRuntime (s : State) (t : Tid) (a : Act) : Bool :=
  match s.threads[t]? with
  | none => false
  | some th => (a == .poll) || (a == .step && th.pc != .inSafe .prim)

def productive (s : State) (t : Tid) (a : Act) : Bool :=
  match step s t a with
  | some s' => decide (s' ≠ s)
  | none => false

/-- Some thread can take a productive runtime step. -/
def canProgress (s : State) : Bool :=
  (List.range s.threads.length).any fun t =>
    [Act.poll, Act.step].any fun a => isRuntime s t a && productive s t a

/-- The thread needs nothing from the runtime: finished, free to run script code, or inside a primitive. -/
def quiescent (th : Thread) : Bool :=
  th.pc == .done || (th.pc == .run && !th.paused) || th.pc == .inSafe .prim

def allQuiescent (s : State) : Bool := s.threads.all quiescent

/-- Some thread waits for the runtime and no runtime step can change anything. -/
def deadlocked (s : State) : Bool := !canProgress s && !allQuiescent s

/-- The guard of the repaired variant (`State.fix`): as `C15.G`, without "rounds do not overlap" — the heap
lock serialises the stoppers. -/
def GFix (s : State) (t : Tid) (a : Act) : Bool :=
  match s.threads[t]? with
  | none => true
  | some th =>
    match a, th.pc with
    | .gc, .allocd | .step, .envReady => s.allReg && s.noHostMid
    | .spawn, _ | .hostP, _ | .hostS, _ => s.stopper.isNone
    | .step, .stopP _ i =>
        match s.threads[i]? with
        | none => true
        | some x => i == t || (!x.pc.leaving && x.st != .interrupted)
    | _, _ => true

def runGFix (s : State) : List (Tid × Act) → State
  | [] => s
  | (t, a) :: rest =>
      if GFix s t a then
        match step s t a with
        | none => s
        | some s' => runGFix s' rest
      else s

/-- The step `step s t .step` is executable and moves thread `t` (see `Props.step_moves`). -/
def enabledStep (s : State) (t : Tid) (th : Thread) : Bool :=
  match th.pc with
  | .run | .done => false
  | .inSafe .alloc | .inSafe .gate => s.hlock.isNone
  | .regWait _ | .envReady | .scanLock .. | .resLock _ => s.tlock.isNone
  | .parking _ => th.token
  | .spin _ _ i =>
      match s.threads[i]? with
      | none => true
      | some x => decide (i = t) || !x.reg || decide (x.pc = .done) || x.ctx
  | _ => true

/-! ## Progress measure of a round (`stop_round_terminates`) -/

/-- The stopper's index is within the list (or one past it). -/
def idxOk (len : Nat) : PC → Bool
  | .stopP _ i | .spin _ _ i | .resP _ i => decide (i ≤ len)
  | .stopS _ i | .acc _ _ i | .resS _ i | .resU _ i => decide (i < len)
  | _ => true

/-- Number of productive steps the stopper still has to take, at most (`≤ 9·len + 16`). -/
def roundRank (len : Nat) : PC → Nat
  | .stopP _ i => 2 * (len - i) + 1 + (7 * len + 12)
  | .stopS _ i => 2 * (len - i) + (7 * len + 12)
  | .scanLock _ 0 => 7 * len + 10
  | .spin _ 0 i => 2 * (len - i) + 1 + (5 * len + 8)
  | .acc _ 0 i => 2 * (len - i) + (5 * len + 8)
  | .scanLock _ (_ + 1) => 5 * len + 7
  | .spin _ (_ + 1) i => 2 * (len - i) + 1 + (3 * len + 5)
  | .acc _ (_ + 1) i => 2 * (len - i) + (3 * len + 5)
  | .resLock _ => 3 * len + 4
  | .resP _ i => 3 * (len - i) + 3
  | .resS _ i => 3 * (len - i) + 2
  | .resU _ i => 3 * (len - i) + 1
  | _ => 0

/-! ## Script-level objects, by their specifications

`thread-join!` is `handle.lock().take()` followed by `JoinHandle::join`: the first joiner takes the handle
and receives the result, every later one gets an error.  A channel is `crossbeam_channel::unbounded`:
one FIFO queue. -/

inductive JoinRes where
  | value (v : Nat) | alreadyJoined | notFinished
deriving DecidableEq, Repr

structure Handle where
  result : Option Nat := none     -- set when the thread finishes
  taken : Bool := false           -- `Option<JoinHandle>` is `None`
  delivered : Nat := 0            -- ghost: how many joiners received the value
deriving DecidableEq, Repr

def Handle.finish (h : Handle) (v : Nat) : Handle :=
  if h.result.isSome then h else { h with result := some v }

/-- `thread-join!` (non-blocking view: `notFinished` = the caller keeps waiting inside its safepoint). -/
def Handle.join (h : Handle) : Handle × JoinRes :=
  if h.taken then (h, .alreadyJoined)
  else match h.result with
    | none => (h, .notFinished)
    | some v => ({ h with taken := true, delivered := h.delivered + 1 }, .value v)

inductive HOp where
  | finish (v : Nat) | join
deriving DecidableEq, Repr

def Handle.run (h : Handle) : List HOp → Handle × List JoinRes
  | [] => (h, [])
  | .finish v :: r => (h.finish v).run r
  | .join :: r =>
      let (h', x) := h.join
      let (h'', xs) := h'.run r
      (h'', x :: xs)

/-- A channel message: (sender, sequence number of the sender). -/
abbrev Msg := Nat × Nat

structure Chan where
  queue : List Msg := []
  sent : List Msg := []           -- ghost: everything sent, in order of the send steps
  recvd : List Msg := []          -- ghost: everything received, in order
deriving DecidableEq, Repr

inductive COp where
  | send (m : Msg) | recv
deriving DecidableEq, Repr

def Chan.step (c : Chan) : COp → Chan
  | .send m => { c with queue := c.queue ++ [m], sent := c.sent ++ [m] }
  | .recv => match c.queue with
    | [] => c                      -- the receiver keeps waiting (inside its safepoint)
    | m :: q => { c with queue := q, recvd := c.recvd ++ [m] }

def Chan.run (c : Chan) : List COp → Chan
  | [] => c
  | o :: r => (c.step o).run r

end SteelVerif.C16
