/-
C16 — obligations over the lock table regenerated from /repo by translate/c16_locks.py (`GenLocksTable.lean`).

A stopper (`Heap::mark`, `with_locked_env`) spins in `enumerate_stacks` / `call_per_ctx` until every other thread has
PUBLISHED itself.  A lock it holds during that spin must be one the other threads take only from inside a safepoint;
a lock that unpublished code takes (the host root table `GLOBAL_ROOTS`: a finishing thread rooting its result, a channel
dropped with values in flight, channel primitives called by a native higher-order procedure) must be a LEAF lock of the
collector: taken after the world is stopped, for one statement.  The model side is `LockOrder.lean`
(`no_deadlock_stop_first` for every number of mutators; `lock_first_deadlocks`: the reversed order deadlocks).
-/
import SteelVerif.C16.GenLocksTable
namespace SteelVerif.C16

/-- **Lock order**: every named guard a stopper binds before it spins is on a mutex whose every other acquisition is
inside a safepoint (or in a stopper).  On the code as it is no such guard exists at all. -/
theorem spin_holds_no_unpublished_lock :
    ∀ h ∈ heldAtSpin, ∀ s ∈ lockSites, s.mutex = h.mutex → (s.inSafepoint || s.inStopper) = true := by decide

/-- Why the order matters for the root table: it IS taken by code outside every safepoint (and outside the stoppers). -/
theorem root_table_taken_unpublished :
    2 ≤ (lockSites.filter fun s => s.mutex == "GLOBAL_ROOTS" && !s.inSafepoint && !s.inStopper).length := by decide

/-- The collector's own use of the root table: in the stoppers only, never as a named guard across the spin. -/
theorem root_table_is_a_leaf_of_the_collector :
    (lockSites.any fun s => s.mutex == "GLOBAL_ROOTS" && s.inStopper) = true ∧
    (heldAtSpin.all fun h => h.mutex != "GLOBAL_ROOTS") = true := by decide

/-- The serialised-spawn and engine-clone paths (not part of the native-thread handshake: they run with no other
script thread of the same heap, or on a heap of their own). -/
def legacyHeapUsers : List String := ["from_serializable_value", "deep_clone", "serialize_thread_impl"]

/-- **The heap mutex — which a stopper does hold while it spins — is taken inside a safepoint everywhere else.** -/
theorem heap_lock_inside_safepoint :
    ∀ s ∈ heapSites, s.fn ∉ legacyHeapUsers → s.inSafepoint = true := by decide

theorem locks_nonempty : 2 ≤ stopperFns.length ∧ 4 ≤ lockSites.length ∧ 15 ≤ heapSites.length := by decide

end SteelVerif.C16
