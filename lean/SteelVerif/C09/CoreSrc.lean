/-
C09 on the core with closures — the SOURCE-level predicate: `srcOk` is a syntactic, decidable predicate on `Core`;
`compile` of a program satisfying it produces code that satisfies the boundary-based rules of `CoreWF2.lean`
(`goodCode_top`), hence runs in one frame.
-/
import SteelVerif.C09.CoreWF2Step
namespace SteelVerif.C09C.T
open SteelVerif.C01C SteelVerif.C09C

/-! ## The source predicate -/

mutual
/-- `srcOk ps top tail e`: `top` = the expression belongs to a top-level form (not to a lambda body), `tail` = it is in
tail position.  Inside lambda bodies (to any nesting) every application is in tail position or applies a primitive
slot; nobody defines or assigns a primitive slot; tail calls have at most `maxN` operands (top-level calls too); every
lambda body fits in `maxLen` instructions. -/
def srcOk (ps : Params) (top : Bool) (tail : Bool) : Core → Bool
  | .const _ => true
  | .loc _ _ => true
  | .cap _ => true
  | .glob _ => true
  | .lam _ _ _ body => decide (clen body + 1 ≤ ps.maxLen) && srcOk ps false true body
  | .app f args => (tail || top) && decide (args.length ≤ ps.maxN) && srcOkL ps top args && srcOk ps top false f
  | .callG g args => (tail || top || ps.slots.contains g) && decide (args.length ≤ ps.maxN) && srcOkL ps top args
  | .selfTail args => decide (args.length ≤ ps.maxN) && srcOkL ps top args
  | .ite c t e => srcOk ps top false c && srcOk ps top tail t && srcOk ps top tail e
  | .let_ _ inits body => srcOkL ps top inits && srcOk ps top tail body
  | .seq a b => srcOk ps top false a && srcOk ps top tail b
  | .setLoc _ e => srcOk ps top false e
  | .boxop _ args => srcOkL ps top args
  | .define g e => !ps.slots.contains g && srcOk ps top false e
  | .setGlob g e => !ps.slots.contains g && srcOk ps top false e
def srcOkL (ps : Params) (top : Bool) : List Core → Bool
  | [] => true
  | a :: rest => srcOk ps top false a && srcOkL ps top rest
end

/-- A top-level form. -/
def TailOnlySrc (ps : Params) (e : Core) : Bool := decide (clen e + 1 ≤ ps.maxLen) && srcOk ps true false e

/-! ## Rules at one boundary, paths along which they hold -/

structure InstrOk (ps : Params) (top : Bool) (code : List Instr) (j : Nat) : Prop where
  func : ∀ (n : Nat), code[j]? = some (Instr.FUNC n) → top = true ∧ n ≤ ps.maxN
  callg : ∀ (g : Nat), code[j]? = some (Instr.CALLGLOBAL g) → top = true ∨ g ∈ ps.slots
  jump : ∀ (t : Nat), (code[j]? = some (Instr.IF t) ∨ code[j]? = some (Instr.JMP t)) → Ok code t
  bind : ∀ (g : Nat), (code[j]? = some (Instr.BIND g) ∨ code[j]? = some (Instr.SET g)) → g ∉ ps.slots
  payload : ∀ (n : Nat), (code[j]? = some (Instr.TAILCALL n) ∨ code[j]? = some (Instr.TCOJMP n)) → n ≤ ps.maxN
  fwd : ∀ (t : Nat), (code[j]? = some (Instr.IF t) ∨ code[j]? = some (Instr.JMP t)) → j < t
  word : ∀ (g n : Nat), (code[j]? = some (Instr.CALLGLOBALTAIL g) ∨ code[j]? = some (Instr.CALLGLOBAL g)) →
    (code[j + 1]? = some (Instr.TAILCALL n) ∨ code[j + 1]? = some (Instr.FUNC n)) → n ≤ ps.maxN
  pure : ∀ (s : Nat) (body : List Instr), code[j]? = some (Instr.PUREFUNC s) →
    slice code (j + 3) (s - 3) = some body → GoodCode ps false body
  clos : ∀ (s n : Nat) (body : List Instr), code[j]? = some (Instr.NEWSCLOSURE s) →
    code[j + 3]? = some (Instr.NDEFS n) → slice code (j + 4 + n) (s - 4 - n) = some body → GoodCode ps false body

inductive PathOk (ps : Params) (top : Bool) (code : List Instr) : Nat → Nat → Prop where
  | refl (j : Nat) : PathOk ps top code j j
  | step {j k : Nat} : j < code.length → InstrOk ps top code j → PathOk ps top code (j + width code j) k →
      PathOk ps top code j k

variable {ps : Params} {top : Bool} {code : List Instr}

theorem PathOk.trans {a b c : Nat} (h1 : PathOk ps top code a b) (h2 : PathOk ps top code b c) :
    PathOk ps top code a c := by
  induction h1 with
  | refl _ => exact h2
  | step hl hok _ ih => exact .step hl hok (ih h2)

theorem PathOk.path {a b : Nat} (h : PathOk ps top code a b) : Path code a b := by
  induction h with
  | refl _ => exact .refl _
  | step hl _ _ ih => exact .step hl ih

theorem PathOk.cast {a b a' b' : Nat} (h : PathOk ps top code a b) (ha : a = a') (hb : b = b') :
    PathOk ps top code a' b' := by subst ha; subst hb; exact h

theorem PathOk.one {j w : Nat} {x : Instr} (hx : code[j]? = some x) (hw : width code j = w)
    (hok : InstrOk ps top code j) : PathOk ps top code j (j + w) := by
  subst hw
  exact .step (lt_of_get' hx) hok (.refl _)

theorem Path.le {a j : Nat} (h : Path code a j) : a ≤ j := by
  induction h with
  | refl _ => exact Nat.le_refl _
  | step _ _ ih => have := width_pos code ‹Nat›; omega

/-- Every boundary before the end of a checked path is on it. -/
theorem PathOk.covers {a K : Nat} (h : PathOk ps top code a K) : ∀ j, Path code a j → j < K → InstrOk ps top code j := by
  induction h with
  | refl a => intro j hp hj; have := hp.le; omega
  | @step a K hl hok _ ih =>
    intro j hp hj
    cases hp with
    | refl _ => exact hok
    | step _ hp' => exact ih j hp' hj

theorem goodCode_of_pathOk (hlen : code.length ≤ ps.maxLen) (h : PathOk ps top code 0 code.length) :
    GoodCode ps top code := by
  have hc := h.covers
  refine .mk ⟨hlen, ?_, ?_, ?_, ?_, ?_, ?_, ?_⟩ ?_ ?_
  · intro j n hp hj; exact (hc j hp (lt_of_get' hj)).func n hj
  · intro j g hp hj; exact (hc j hp (lt_of_get' hj)).callg g hj
  · intro j t hp hj
    have hl : j < code.length := by rcases hj with hj | hj <;> exact lt_of_get' hj
    exact (hc j hp hl).jump t hj
  · intro j g hp hj
    have hl : j < code.length := by rcases hj with hj | hj <;> exact lt_of_get' hj
    exact (hc j hp hl).bind g hj
  · intro j n hp hj
    have hl : j < code.length := by rcases hj with hj | hj <;> exact lt_of_get' hj
    exact (hc j hp hl).payload n hj
  · intro j t hp hj
    have hl : j < code.length := by rcases hj with hj | hj <;> exact lt_of_get' hj
    exact (hc j hp hl).fwd t hj
  · intro j g n hp hj hw
    have hl : j < code.length := by rcases hj with hj | hj <;> exact lt_of_get' hj
    exact (hc j hp hl).word g n hj hw
  · intro j s body hp hj hs; exact (hc j hp (lt_of_get' hj)).pure s body hj hs
  · intro j s n body hp hj hn hs; exact (hc j hp (lt_of_get' hj)).clos s n body hj hn hs

/-! ### `InstrOk` for each kind of instruction -/

def plain : Instr → Bool
  | .FUNC _ => false
  | .CALLGLOBAL _ => false
  | .CALLGLOBALTAIL _ => false
  | .IF _ => false
  | .JMP _ => false
  | .BIND _ => false
  | .SET _ => false
  | .TAILCALL _ => false
  | .TCOJMP _ => false
  | .PUREFUNC _ => false
  | .NEWSCLOSURE _ => false
  | _ => true

theorem iok_plain {j : Nat} {x : Instr} (hx : code[j]? = some x) (hp : plain x = true) : InstrOk ps top code j := by
  cases x <;> simp [plain] at hp <;> (refine ⟨?_, ?_, ?_, ?_, ?_, ?_, ?_, ?_, ?_⟩ <;> intros <;> simp_all)

theorem iok_func {j n : Nat} (hx : code[j]? = some (Instr.FUNC n)) (ht : top = true) (hn : n ≤ ps.maxN) :
    InstrOk ps top code j := by
  refine ⟨?_, ?_, ?_, ?_, ?_, ?_, ?_, ?_, ?_⟩ <;> intros <;> simp_all

theorem iok_callgtail {j g : Nat} (hx : code[j]? = some (Instr.CALLGLOBALTAIL g))
    (hw : ∀ n, (code[j + 1]? = some (Instr.TAILCALL n) ∨ code[j + 1]? = some (Instr.FUNC n)) → n ≤ ps.maxN) :
    InstrOk ps top code j := by
  refine ⟨?_, ?_, ?_, ?_, ?_, ?_, ?_, ?_, ?_⟩ <;> intros <;> simp_all

theorem iok_callg {j g : Nat} (hx : code[j]? = some (Instr.CALLGLOBAL g)) (h : top = true ∨ g ∈ ps.slots)
    (hw : ∀ n, (code[j + 1]? = some (Instr.TAILCALL n) ∨ code[j + 1]? = some (Instr.FUNC n)) → n ≤ ps.maxN) :
    InstrOk ps top code j := by
  refine ⟨?_, ?_, ?_, ?_, ?_, ?_, ?_, ?_, ?_⟩ <;> intros <;> simp_all

theorem iok_if {j t : Nat} (hx : code[j]? = some (Instr.IF t)) (h : Ok code t) (hf : j < t) : InstrOk ps top code j := by
  refine ⟨?_, ?_, ?_, ?_, ?_, ?_, ?_, ?_, ?_⟩ <;> intros <;> simp_all

theorem iok_jmp {j t : Nat} (hx : code[j]? = some (Instr.JMP t)) (h : Ok code t) (hf : j < t) : InstrOk ps top code j := by
  refine ⟨?_, ?_, ?_, ?_, ?_, ?_, ?_, ?_, ?_⟩ <;> intros <;> simp_all

theorem iok_bind {j g : Nat} (hx : code[j]? = some (Instr.BIND g)) (h : g ∉ ps.slots) : InstrOk ps top code j := by
  refine ⟨?_, ?_, ?_, ?_, ?_, ?_, ?_, ?_, ?_⟩ <;> intros <;> simp_all

theorem iok_set {j g : Nat} (hx : code[j]? = some (Instr.SET g)) (h : g ∉ ps.slots) : InstrOk ps top code j := by
  refine ⟨?_, ?_, ?_, ?_, ?_, ?_, ?_, ?_, ?_⟩ <;> intros <;> simp_all

theorem iok_tailcall {j n : Nat} (hx : code[j]? = some (Instr.TAILCALL n)) (h : n ≤ ps.maxN) :
    InstrOk ps top code j := by
  refine ⟨?_, ?_, ?_, ?_, ?_, ?_, ?_, ?_, ?_⟩ <;> intros <;> simp_all

theorem iok_tcojmp {j n : Nat} (hx : code[j]? = some (Instr.TCOJMP n)) (h : n ≤ ps.maxN) :
    InstrOk ps top code j := by
  refine ⟨?_, ?_, ?_, ?_, ?_, ?_, ?_, ?_, ?_⟩ <;> intros <;> simp_all

theorem iok_purefunc {j s : Nat} {b : List Instr} (hx : code[j]? = some (Instr.PUREFUNC s))
    (hs : slice code (j + 3) (s - 3) = some b) (hb : GoodCode ps false b) : InstrOk ps top code j := by
  refine ⟨?_, ?_, ?_, ?_, ?_, ?_, ?_, ?_, ?_⟩ <;> intros <;> simp_all

theorem iok_newsclosure {j s n : Nat} {b : List Instr} (hx : code[j]? = some (Instr.NEWSCLOSURE s))
    (hn : code[j + 3]? = some (Instr.NDEFS n))
    (hs : slice code (j + 4 + n) (s - 4 - n) = some b) (hb : GoodCode ps false b) : InstrOk ps top code j := by
  refine ⟨?_, ?_, ?_, ?_, ?_, ?_, ?_, ?_, ?_⟩ <;> intros <;> simp_all

end SteelVerif.C09C.T
