/-
C09 on the core with closures — the well-formedness invariant, second version (namespace `C09C.T`): the rules are
checked at INSTRUCTION BOUNDARIES only.  `Path code j k`: `k` is reached from `j` by stepping over whole
instructions (`width`: two-word instructions, closure headers with their body); `Top code j` = boundary reachable from
0.  The instructions of nested lambda bodies, which sit inside the enclosing code but are never executed there, are
skipped — the first version (`CoreWF.lean`) checked its jump rule on them too and could reject a correct program with
nested lambdas.  With boundaries, the rules are simply: inside a body no `FUNC` at a boundary, `CALLGLOBAL` only of
primitive slots, jumps to boundaries, no assignment of primitive slots, bounded operand counts; closure bodies
created at boundaries are good again.  The same rules (with `FUNC`/`CALLGLOBAL` free) for top-level code.
-/
import SteelVerif.C09.CoreWFStep
namespace SteelVerif.C09C.T
open SteelVerif.C01C SteelVerif.C09C

def width (code : List Instr) (j : Nat) : Nat :=
  match code[j]? with
  | some (Instr.CALLGLOBAL _) => 2
  | some (Instr.CALLGLOBALTAIL _) => 2
  | some Instr.NEWBOX => 2
  | some Instr.UNBOX => 2
  | some Instr.SETBOX => 2
  | some (Instr.TCOJMP _) => 2
  | some (Instr.PUREFUNC s) => s + 1
  | some (Instr.NEWSCLOSURE s) => s + 1
  | _ => 1

theorem width_pos (code : List Instr) (j : Nat) : 1 ≤ width code j := by
  unfold width; split <;> omega

inductive Path (code : List Instr) : Nat → Nat → Prop where
  | refl (j : Nat) : Path code j j
  | step {j k : Nat} : j < code.length → Path code (j + width code j) k → Path code j k

theorem Path.trans {code : List Instr} {a b c : Nat} (h1 : Path code a b) (h2 : Path code b c) : Path code a c := by
  induction h1 with
  | refl _ => exact h2
  | step hl _ ih => exact .step hl (ih h2)

theorem Path.snoc {code : List Instr} {a j : Nat} (h : Path code a j) (hl : j < code.length) :
    Path code a (j + width code j) := h.trans (.step hl (.refl _))

/-- `j` is an instruction boundary, or beyond the code (where the VM stops with an error). -/
def Ok (code : List Instr) (j : Nat) : Prop := Path code 0 j ∨ code.length ≤ j

theorem Ok.zero (code : List Instr) : Ok code 0 := Or.inl (.refl 0)

theorem Ok.next {code : List Instr} {j : Nat} {x : Instr} (h : Ok code j) (hi : code[j]? = some x) :
    Ok code (j + width code j) := by
  have hl : j < code.length := by
    rcases Nat.lt_or_ge j code.length with h1 | h1
    · exact h1
    · simp [List.getElem?_eq_none h1] at hi
  rcases h with h | h
  · exact Or.inl (h.snoc hl)
  · omega

structure Rules (ps : Params) (top : Bool) (code : List Instr) : Prop where
  len : code.length ≤ ps.maxLen
  func : ∀ (j n : Nat), Path code 0 j → code[j]? = some (Instr.FUNC n) → top = true ∧ n ≤ ps.maxN
  callg : ∀ (j g : Nat), Path code 0 j → code[j]? = some (Instr.CALLGLOBAL g) → top = true ∨ g ∈ ps.slots
  jump : ∀ (j t : Nat), Path code 0 j → (code[j]? = some (Instr.IF t) ∨ code[j]? = some (Instr.JMP t)) → Ok code t
  bind : ∀ (j g : Nat), Path code 0 j → (code[j]? = some (Instr.BIND g) ∨ code[j]? = some (Instr.SET g)) →
    g ∉ ps.slots
  payload : ∀ (j n : Nat), Path code 0 j →
    (code[j]? = some (Instr.TAILCALL n) ∨ code[j]? = some (Instr.TCOJMP n)) → n ≤ ps.maxN
  fwd : ∀ (j t : Nat), Path code 0 j → (code[j]? = some (Instr.IF t) ∨ code[j]? = some (Instr.JMP t)) → j < t
  word : ∀ (j g n : Nat), Path code 0 j →
    (code[j]? = some (Instr.CALLGLOBALTAIL g) ∨ code[j]? = some (Instr.CALLGLOBAL g)) →
    (code[j + 1]? = some (Instr.TAILCALL n) ∨ code[j + 1]? = some (Instr.FUNC n)) → n ≤ ps.maxN

inductive GoodCode (ps : Params) : Bool → List Instr → Prop where
  | mk {top : Bool} {code : List Instr} : Rules ps top code →
      (∀ (j s : Nat) (body : List Instr), Path code 0 j → code[j]? = some (Instr.PUREFUNC s) →
        slice code (j + 3) (s - 3) = some body → GoodCode ps false body) →
      (∀ (j s n : Nat) (body : List Instr), Path code 0 j → code[j]? = some (Instr.NEWSCLOSURE s) →
        code[j + 3]? = some (Instr.NDEFS n) → slice code (j + 4 + n) (s - 4 - n) = some body →
        GoodCode ps false body) →
      GoodCode ps top code

theorem GoodCode.rules {ps : Params} {top : Bool} {code : List Instr} (h : GoodCode ps top code) :
    Rules ps top code := by cases h; assumption
theorem GoodCode.pure {ps : Params} {top : Bool} {code : List Instr} (h : GoodCode ps top code) :
    ∀ (j s : Nat) (body : List Instr), Path code 0 j → code[j]? = some (Instr.PUREFUNC s) →
      slice code (j + 3) (s - 3) = some body → GoodCode ps false body := by cases h; assumption
theorem GoodCode.clos {ps : Params} {top : Bool} {code : List Instr} (h : GoodCode ps top code) :
    ∀ (j s n : Nat) (body : List Instr), Path code 0 j → code[j]? = some (Instr.NEWSCLOSURE s) →
      code[j + 3]? = some (Instr.NDEFS n) → slice code (j + 4 + n) (s - 4 - n) = some body →
      GoodCode ps false body := by cases h; assumption

/-! ## Values -/

inductive GoodV (ps : Params) : VVal → Prop where
  | int (n : Int) : GoodV ps (.int n)
  | bool (b : Bool) : GoodV ps (.bool b)
  | void : GoodV ps .void
  | box (a : Nat) : GoodV ps (.box a)
  | prim (p : Prim) : GoodV ps (.prim p)
  | list (xs : List VVal) : (∀ x, x ∈ xs → GoodV ps x) → GoodV ps (.list xs)
  | clo (a : Nat) (r : Bool) (code : List Instr) (caps : List VVal) :
      GoodCode ps false code → (∀ x, x ∈ caps → GoodV ps x) → GoodV ps (.clo a r code caps)

def GoodL (ps : Params) (l : List VVal) : Prop := ∀ x, x ∈ l → GoodV ps x

theorem GoodL.nil (ps : Params) : GoodL ps [] := by intro x hx; cases hx
theorem GoodL.append {ps : Params} {a b : List VVal} (ha : GoodL ps a) (hb : GoodL ps b) : GoodL ps (a ++ b) := by
  intro x hx; rcases List.mem_append.1 hx with h | h; exact ha x h; exact hb x h
theorem GoodL.single {ps : Params} {v : VVal} (hv : GoodV ps v) : GoodL ps [v] := by
  intro x hx; simp at hx; subst hx; exact hv
theorem GoodL.left {ps : Params} {a b : List VVal} (h : GoodL ps (a ++ b)) : GoodL ps a :=
  fun x hx => h x (List.mem_append.2 (Or.inl hx))
theorem GoodL.right {ps : Params} {a b : List VVal} (h : GoodL ps (a ++ b)) : GoodL ps b :=
  fun x hx => h x (List.mem_append.2 (Or.inr hx))
theorem GoodL.get {ps : Params} {l : List VVal} (h : GoodL ps l) {i : Nat} {v : VVal} (hv : l[i]? = some v) :
    GoodV ps v := h v (List.mem_of_getElem? hv)
theorem GoodL.dropLast {ps : Params} {l : List VVal} (h : GoodL ps l) : GoodL ps l.dropLast :=
  fun x hx => h x (List.dropLast_subset l hx)
theorem GoodL.take {ps : Params} {l : List VVal} (h : GoodL ps l) (n : Nat) : GoodL ps (l.take n) :=
  fun x hx => h x (List.mem_of_mem_take hx)
theorem GoodL.drop {ps : Params} {l : List VVal} (h : GoodL ps l) (n : Nat) : GoodL ps (l.drop n) :=
  fun x hx => h x (List.mem_of_mem_drop hx)
theorem GoodL.set {ps : Params} {l : List VVal} (h : GoodL ps l) (i : Nat) {v : VVal} (hv : GoodV ps v) :
    GoodL ps (l.set i v) := by
  intro x hx
  rcases List.mem_or_eq_of_mem_set hx with h1 | h1
  · exact h x h1
  · subst h1; exact hv
theorem GoodL.getLast {ps : Params} {l : List VVal} (h : GoodL ps l) {v : VVal} (hv : l.getLast? = some v) :
    GoodV ps v := h v (List.mem_of_getLast? hv)

theorem splitLast_good {ps : Params} {n : Nat} {l lo hi : List VVal} (h : GoodL ps l)
    (hs : splitLast n l = some (lo, hi)) : GoodL ps lo ∧ GoodL ps hi := by
  obtain ⟨rfl, _, _⟩ := splitLast_some hs
  exact ⟨h.left, h.right⟩

theorem bindArgs_good {ps : Params} {a : Nat} {r : Bool} {args locals : List VVal} (h : GoodL ps args)
    (hb : bindArgs a r args = .ok locals) : GoodL ps locals := by
  unfold bindArgs at hb
  cases r
  · simp at hb; split at hb
    · simp at hb; subst hb; exact h
    · cases hb
  · simp at hb
    split at hb
    · cases hb
    · simp at hb; subst hb
      exact (h.take _).append (GoodL.single (.list _ (h.drop _)))

theorem prim_good {ps : Params} {p : Prim} {args : List VVal} {r : VVal} (h : p.apply args = .ok r) : GoodV ps r := by
  rcases args with _ | ⟨x, _ | ⟨y, _ | ⟨z, t⟩⟩⟩
  · simp [Prim.apply] at h
  · simp [Prim.apply] at h
  · cases x <;> cases y <;> simp [Prim.apply] at h
    subst h
    cases p <;> first | exact .int _ | exact .bool _
  · simp [Prim.apply] at h

theorem boxop_good {ps : Params} {op : BoxOp} {args : List VVal} {st st' : St (List Instr)} {r : VVal}
    (ha : GoodL ps args) (hst : GoodL ps st.store) (h : op.apply args st = .ok (r, st')) :
    GoodV ps r ∧ GoodL ps st'.store ∧ st'.globals = st.globals := by
  rcases args with _ | ⟨x, _ | ⟨y, _ | ⟨z, t⟩⟩⟩
  · cases op <;> simp [BoxOp.apply] at h
  · cases op
    · simp [BoxOp.apply] at h
      obtain ⟨rfl, rfl⟩ := h
      exact ⟨.box _, hst.append (GoodL.single (ha x (by simp))), rfl⟩
    · cases x <;> simp [BoxOp.apply] at h
      rename_i a
      cases hg : st.store[a]? with
      | none => simp [hg] at h
      | some v =>
        simp [hg] at h
        obtain ⟨rfl, rfl⟩ := h
        exact ⟨hst.get hg, hst, rfl⟩
    · simp [BoxOp.apply] at h
  · cases op
    · simp [BoxOp.apply] at h
    · simp [BoxOp.apply] at h
    · cases x <;> simp [BoxOp.apply] at h
      rename_i a
      cases hg : st.store[a]? with
      | none => simp [hg] at h
      | some v =>
        simp [hg] at h
        obtain ⟨rfl, rfl⟩ := h
        exact ⟨hst.get hg, hst.set _ (ha y (by simp)), rfl⟩
  · cases op <;> simp [BoxOp.apply] at h

theorem captureWords_good {ps : Params} {stack caps : List VVal} (hs : GoodL ps stack) (hc : GoodL ps caps)
    (sp : Nat) : ∀ (words : List Instr) (cv : List VVal), captureWords stack sp caps words = some cv → GoodL ps cv := by
  intro words
  induction words with
  | nil => intro cv h; simp [captureWords] at h; subst h; exact GoodL.nil ps
  | cons w ws ih =>
    intro cv h
    cases w <;> simp only [captureWords] at h <;> try (cases h; done)
    · rename_i i
      cases h1 : stack[sp + i]? with
      | none => simp [h1] at h
      | some v =>
        cases h2 : captureWords stack sp caps ws with
        | none => simp [h1, h2] at h
        | some vs =>
          simp [h1, h2] at h; subst h
          exact (GoodL.single (hs.get h1)).append (ih vs h2)
    · rename_i i
      cases h1 : caps[i]? with
      | none => simp [h1] at h
      | some v =>
        cases h2 : captureWords stack sp caps ws with
        | none => simp [h1, h2] at h
        | some vs =>
          simp [h1, h2] at h; subst h
          exact (GoodL.single (hc.get h1)).append (ih vs h2)

theorem lookupG_mem {α : Type} {g : Nat} {gs : List (Nat × V α)} {v : V α} (h : lookupG g gs = some v) :
    (g, v) ∈ gs := by
  induction gs with
  | nil => simp [lookupG] at h
  | cons p gs ih =>
    obtain ⟨k, w⟩ := p
    simp only [lookupG] at h
    by_cases hk : k = g
    · simp [hk] at h; subst h; subst hk; simp
    · simp [hk] at h; exact List.mem_cons_of_mem _ (ih h)


/-! ## The invariant -/

def FramesOk (ps : Params) (code : List Instr) (ip : Nat) : List Frame → Prop
  | [] => GoodCode ps true code ∧ Ok code ip
  | [f] => GoodCode ps false code ∧ Ok code ip ∧ GoodCode ps true f.retCode ∧ Ok f.retCode f.retIp ∧ GoodL ps f.caps
  | _ :: _ :: _ => False

structure StOk (ps : Params) (st : St (List Instr)) : Prop where
  store : GoodL ps st.store
  globs : ∀ g v, (g, v) ∈ st.globals → GoodV ps v
  prims : ∀ g, g ∈ ps.slots → ∃ p, lookupG g st.globals = some (V.prim p)

structure Inv (ps : Params) (c : Cfg) : Prop where
  stack : GoodL ps c.stack
  st : StOk ps c.st
  frames : FramesOk ps c.code c.ip c.frames

theorem Inv.len {ps : Params} {c : Cfg} (h : Inv ps c) : c.frames.length ≤ 1 := by
  have := h.frames
  match hf : c.frames with
  | [] => simp
  | [f] => simp
  | _ :: _ :: _ => rw [hf] at this; exact this.elim

/-- The code under execution is good at the level given by the frame stack, and the instruction pointer is fine. -/
theorem Inv.code {ps : Params} {c : Cfg} (h : Inv ps c) : GoodCode ps (c.frames.isEmpty) c.code ∧ Ok c.code c.ip := by
  have := h.frames
  match hf : c.frames with
  | [] => rw [hf] at this; exact this
  | [f] => rw [hf] at this; exact ⟨this.1, this.2.1⟩
  | _ :: _ :: _ => rw [hf] at this; exact this.elim

theorem Inv.top {ps : Params} {c : Cfg} (h : Inv ps c) {x : Instr} (hi : c.code[c.ip]? = some x) :
    Path c.code 0 c.ip := by
  rcases h.code.2 with h1 | h1
  · exact h1
  · simp [List.getElem?_eq_none h1] at hi

theorem Inv.caps {ps : Params} {c : Cfg} (h : Inv ps c) : GoodL ps (capsOf c.frames) := by
  have := h.frames
  match hf : c.frames with
  | [] => simp [capsOf]; exact GoodL.nil ps
  | [f] => rw [hf] at this; simpa [capsOf] using this.2.2.2.2
  | _ :: _ :: _ => rw [hf] at this; exact this.elim

/-- A step that only moves the instruction pointer and changes the operand stack and the state. -/
theorem inv_simple {ps : Params} {c : Cfg} (h : Inv ps c) (ip' : Nat) (s' : List VVal) (st' : St (List Instr))
    (hs : GoodL ps s') (hst : StOk ps st') (hip : Ok c.code ip') :
    Inv ps { c with ip := ip', stack := s', st := st' } := by
  refine ⟨hs, hst, ?_⟩
  have := h.frames
  match hf : c.frames with
  | [] => rw [hf] at this; simp only [FramesOk]; exact ⟨this.1, hip⟩
  | [f] => rw [hf] at this; simp only [FramesOk]; exact ⟨this.1, hip, this.2.2⟩
  | _ :: _ :: _ => rw [hf] at this; exact this.elim

/-! ## Executable checker -/

def topsFrom (code : List Instr) : Nat → Nat → List Nat
  | 0, _ => []
  | fuel + 1, j => if j < code.length then j :: topsFrom code fuel (j + width code j) else []

def tops (code : List Instr) : List Nat := topsFrom code code.length 0

theorem mem_topsFrom {code : List Instr} {k j : Nat} (h : Path code k j) : ∀ (fuel : Nat), j < code.length →
    code.length ≤ k + fuel → j ∈ topsFrom code fuel k := by
  induction h with
  | refl j =>
    intro fuel hl hf
    cases fuel with
    | zero => omega
    | succ f => simp [topsFrom, hl]
  | @step k j hk _ ih =>
    intro fuel hl hf
    cases fuel with
    | zero => omega
    | succ f =>
      simp only [topsFrom, hk, if_true]
      have := width_pos code k
      exact List.mem_cons_of_mem _ (ih f hl (by omega))

theorem mem_tops {code : List Instr} {j : Nat} (h : Path code 0 j) (hl : j < code.length) : j ∈ tops code :=
  mem_topsFrom h _ hl (by omega)

theorem path_of_mem_topsFrom {code : List Instr} : ∀ (fuel k j : Nat), j ∈ topsFrom code fuel k → Path code k j := by
  intro fuel
  induction fuel with
  | zero => intro k j h; simp [topsFrom] at h
  | succ f ih =>
    intro k j h
    simp only [topsFrom] at h
    split at h
    · rename_i hk
      rcases List.mem_cons.1 h with h1 | h1
      · subst h1; exact .refl _
      · exact .step hk (ih _ _ h1)
    · simp at h

theorem path_of_mem_tops {code : List Instr} {j : Nat} (h : j ∈ tops code) : Path code 0 j :=
  path_of_mem_topsFrom _ _ _ h

def okB (code : List Instr) (t : Nat) : Bool := (tops code).contains t || decide (code.length ≤ t)

theorem okB_sound {code : List Instr} {t : Nat} (h : okB code t = true) : Ok code t := by
  simp only [okB, Bool.or_eq_true, decide_eq_true_eq] at h
  rcases h with h | h
  · exact Or.inl (path_of_mem_tops (by simpa using h))
  · exact Or.inr h

def rulesB (ps : Params) (top : Bool) (code : List Instr) : Bool :=
  decide (code.length ≤ ps.maxLen) && (tops code).all fun j =>
    match code[j]? with
    | some (Instr.FUNC n) => top && decide (n ≤ ps.maxN)
    | some (Instr.CALLGLOBAL g) => (top || ps.slots.contains g) &&
        (match code[j + 1]? with
         | some (Instr.TAILCALL n) => decide (n ≤ ps.maxN) | some (Instr.FUNC n) => decide (n ≤ ps.maxN) | _ => true)
    | some (Instr.IF t) => okB code t && decide (j < t)
    | some (Instr.JMP t) => okB code t && decide (j < t)
    | some (Instr.CALLGLOBALTAIL _) =>
        (match code[j + 1]? with
         | some (Instr.TAILCALL n) => decide (n ≤ ps.maxN) | some (Instr.FUNC n) => decide (n ≤ ps.maxN) | _ => true)
    | some (Instr.BIND g) => !ps.slots.contains g
    | some (Instr.SET g) => !ps.slots.contains g
    | some (Instr.TAILCALL n) => decide (n ≤ ps.maxN)
    | some (Instr.TCOJMP n) => decide (n ≤ ps.maxN)
    | _ => true

def closB (good : List Instr → Bool) (code : List Instr) : Bool :=
  (tops code).all fun j =>
    match code[j]? with
    | some (Instr.PUREFUNC s) => (match slice code (j + 3) (s - 3) with | some body => good body | none => true)
    | some (Instr.NEWSCLOSURE s) =>
        (match code[j + 3]? with
         | some (Instr.NDEFS n) => (match slice code (j + 4 + n) (s - 4 - n) with | some body => good body | none => true)
         | _ => true)
    | _ => true

def goodCodeB : Nat → Params → Bool → List Instr → Bool
  | 0, _, _, _ => false
  | fuel + 1, ps, top, code => rulesB ps top code && closB (goodCodeB fuel ps false) code

theorem lt_of_get' {code : List Instr} {j : Nat} {x : Instr} (h : code[j]? = some x) : j < code.length := by
  rcases Nat.lt_or_ge j code.length with h1 | h1
  · exact h1
  · simp [List.getElem?_eq_none h1] at h

theorem rulesB_sound {ps : Params} {top : Bool} {code : List Instr} (h : rulesB ps top code = true) :
    Rules ps top code := by
  simp only [rulesB, Bool.and_eq_true, decide_eq_true_eq, List.all_eq_true] at h
  obtain ⟨hlen, h⟩ := h
  refine ⟨hlen, ?_, ?_, ?_, ?_, ?_, ?_, ?_⟩
  · intro j n hp hj
    have := h j (mem_tops hp (lt_of_get' hj))
    simpa [hj] using this
  · intro j g hp hj
    have := h j (mem_tops hp (lt_of_get' hj))
    simp only [hj, Bool.and_eq_true, Bool.or_eq_true] at this
    rcases this.1 with h1 | h1
    · exact Or.inl h1
    · exact Or.inr (by simpa using h1)
  · intro j t hp hj
    rcases hj with hj | hj
    · have := h j (mem_tops hp (lt_of_get' hj)); simp only [hj, Bool.and_eq_true] at this; exact okB_sound this.1
    · have := h j (mem_tops hp (lt_of_get' hj)); simp only [hj, Bool.and_eq_true] at this; exact okB_sound this.1
  · intro j g hp hj
    rcases hj with hj | hj
    · have := h j (mem_tops hp (lt_of_get' hj)); simpa [hj] using this
    · have := h j (mem_tops hp (lt_of_get' hj)); simpa [hj] using this
  · intro j n hp hj
    rcases hj with hj | hj
    · have := h j (mem_tops hp (lt_of_get' hj)); simpa [hj] using this
    · have := h j (mem_tops hp (lt_of_get' hj)); simpa [hj] using this
  · intro j t hp hj
    rcases hj with hj | hj
    · have := h j (mem_tops hp (lt_of_get' hj)); simp only [hj, Bool.and_eq_true, decide_eq_true_eq] at this; exact this.2
    · have := h j (mem_tops hp (lt_of_get' hj)); simp only [hj, Bool.and_eq_true, decide_eq_true_eq] at this; exact this.2
  · intro j g n hp hj hw
    rcases hj with hj | hj
    · have := h j (mem_tops hp (lt_of_get' hj))
      rcases hw with hw | hw <;> simpa [hj, hw] using this
    · have := h j (mem_tops hp (lt_of_get' hj))
      simp only [hj, Bool.and_eq_true] at this
      rcases hw with hw | hw <;> simpa [hw] using this.2

theorem goodCodeB_sound (ps : Params) : ∀ (fuel : Nat) (top : Bool) (code : List Instr),
    goodCodeB fuel ps top code = true → GoodCode ps top code := by
  intro fuel
  induction fuel with
  | zero => intro top code h; simp [goodCodeB] at h
  | succ fuel ih =>
    intro top code h
    simp only [goodCodeB, Bool.and_eq_true] at h
    have hc := h.2
    simp only [closB, List.all_eq_true] at hc
    refine .mk (rulesB_sound h.1) ?_ ?_
    · intro j s body hp hj hs
      have := hc j (mem_tops hp (lt_of_get' hj))
      simp only [hj, hs] at this
      exact ih false body this
    · intro j s n body hp hj hn hs
      have := hc j (mem_tops hp (lt_of_get' hj))
      simp only [hj, hn, hs] at this
      exact ih false body this

end SteelVerif.C09C.T
