/-
C09 driver: runs lowered-core programs (lines `fn <arity> <ir>` … `main <ir>`) on the tail-aware VM and
reports `ref=<evalIR> vmT=<result> maxdepth=<frames> tailonly=<bool>`.
-/
import SteelVerif.C01.Parse
import SteelVerif.C09.Model
namespace SteelVerif.C09
open SteelVerif.Base SteelVerif.C01

/-- Run and track the maximal frame depth. -/
def runDepth (limit : Nat) (fns : List FnDef) : Nat → VM → Nat → Res × Nat
  | 0, _, d => (.stuck, d)
  | fuel + 1, vm, d =>
    let d := max d (vm.frames.length + 1)
    match step limit fns vm with
    | .next vm' => runDepth limit fns fuel vm' d
    | r => (r, d)

def showRes : Res → String
  | .halt v => showFVal (some v)
  | .overflow => "overflow"
  | .stuck => "none"
  | .next _ => "running"

partial def loop (h : IO.FS.Stream) (fns : List FnDef) (big : Bool := false) : IO Unit := do
  let l ← h.getLine
  if l.isEmpty then return ()
  let l := l.trimAscii.toString
  -- `big`: the next program is a long loop (reference depth 100000, 5*10^7 VM steps); otherwise the small fuel
  -- used for generated programs, which may not terminate
  if l == "big" then loop h fns true
  else if l.startsWith "fn " then
    match Reader.read (l.drop 3).toString with
    | some [.int ar, ir] =>
        match parseIR ir with
        | some b => loop h (fns ++ [{ arity := ar.toNat, body := b }]) big
        | none => IO.println "bad"; loop h fns big
    | _ => IO.println "bad"; loop h fns big
  else if l.startsWith "main " then
    match (Reader.read (l.drop 5).toString).bind (fun x => x.head?.bind parseIR) with
    | some e =>
        let r := (evalIR fns (if big then 100000 else 200) e []).map (·.1)
        let (v, d) := runDepth 1000000 fns (if big then 50000000 else 200000) { cur := { code := compileTail e, ip := 0, stack := [] }, frames := [] } 0
        let tailonly := TailOnly e && fns.all (fun fd => TailOnly fd.body)
        IO.println s!"ref={showFVal r} vmT={showRes v} maxdepth={d} tailonly={tailonly}"
        loop h []
    | none => IO.println "bad"; loop h []
  else loop h fns big

end SteelVerif.C09

def main (_args : List String) : IO Unit := do
  SteelVerif.C09.loop (← IO.getStdin) []
