/-
C09 — property theorems: tail calls reuse the frame; calls in tail position are compiled to tail calls;
a program whose procedures call only in tail position runs at constant frame depth for any number of
iterations; the frame limit turns runaway non-tail recursion into an error value.
-/
import SteelVerif.C09.Model
import SteelVerif.C09.PropsCore
namespace SteelVerif.C09
open SteelVerif.C01

/-! ## Concrete programs used by the non-vacuity examples -/

/-- `(define (loop n acc) (if (<= n 0) acc (loop (- n 1) (+ acc n))))`: all calls in tail position. -/
def loopFn : FnDef :=
  { arity := 2,
    body := .ite (.prim .le (.loc 0) (.const (.int 0))) (.loc 1)
              (.call 0 [.prim .sub (.loc 0) (.const (.int 1)), .prim .add (.loc 1) (.loc 0)]) }

/-- Non-tail recursion `(define (deep n) (if (<= n 0) 0 (+ 1 (deep (- n 1)))))` beyond the limit. -/
def deepFn : FnDef :=
  { arity := 1,
    body := .ite (.prim .le (.loc 0) (.const (.int 0))) (.const (.int 0))
              (.prim .add (.const (.int 1)) (.call 0 [.prim .sub (.loc 0) (.const (.int 1))])) }

/-- Two mutually recursive procedures `(define (ev n) (if (<= n 0) #t (od (- n 1))))`, `od` likewise. -/
def evFn : FnDef :=
  { arity := 1, body := .ite (.prim .le (.loc 0) (.const (.int 0))) (.const (.bool true))
                         (.call 1 [.prim .sub (.loc 0) (.const (.int 1))]) }
def odFn : FnDef :=
  { arity := 1, body := .ite (.prim .le (.loc 0) (.const (.int 0))) (.const (.bool false))
                         (.let1 (.prim .sub (.loc 0) (.const (.int 1))) (.call 0 [.loc 1])) }

/-- A state in the middle of a computation: about to execute a tail call with one suspended caller and a
temporary (`9`) below the two operands. -/
def vmTail : VM :=
  { cur := { code := [.tailCall 0 2], ip := 0, stack := [.int 9, .int 5, .int 0] },
    frames := [{ code := [.ret], ip := 0, stack := [.int 7] }] }

/-- The same with a frame-pushing call. -/
def vmCall : VM :=
  { cur := { code := [.call 0 2, .ret], ip := 0, stack := [.int 9, .int 5, .int 0] },
    frames := [{ code := [.ret], ip := 0, stack := [.int 7] }] }

/-! ## The tail-call instruction reuses the frame -/

/-- The tail-call instruction replaces the current frame: the list of suspended callers is untouched, and the
new frame consists of EXACTLY the top `n` operands (no off-by-one in the argument shuffle), at `ip = 0` of the
callee's code. -/
theorem tailcall_reuses_frame (limit : Nat) (fns : List FnDef) (vm : VM) (f n : Nat) (fd : FnDef)
    (hi : vm.cur.code[vm.cur.ip]? = some (.tailCall f n)) (hf : fns[f]? = some fd)
    (ha : fd.arity = n) (hl : n ≤ vm.cur.stack.length) :
    ∃ vm', step limit fns vm = .next vm' ∧ vm'.frames = vm.frames ∧ vm'.cur.stack.length = fd.arity ∧
      vm'.cur.code = codeOf fd ∧ vm'.cur.ip = 0 ∧
      vm'.cur.stack = vm.cur.stack.drop (vm.cur.stack.length - n) := by
  have hc : ¬ (fd.arity ≠ n ∨ vm.cur.stack.length < n) := by omega
  refine ⟨{ vm with cur := { code := codeOf fd, ip := 0, stack := vm.cur.stack.drop (vm.cur.stack.length - n) } },
    by simp [step, hi, hf, hc], rfl, ?_, rfl, rfl, rfl⟩
  simp; omega

/-- Non-vacuity: all hypotheses hold on `vmTail` (a caller is suspended, a temporary lies below the operands);
the new frame is exactly `[5, 0]` and the caller is still there. -/
example : ∃ vm', step 3 [loopFn] vmTail = .next vm' ∧ vm'.frames = vmTail.frames ∧ vm'.cur.stack.length = 2 ∧
    vm'.cur.code = codeOf loopFn ∧ vm'.cur.ip = 0 ∧ vm'.cur.stack = [.int 5, .int 0] :=
  tailcall_reuses_frame 3 [loopFn] vmTail 0 2 loopFn rfl rfl rfl (by decide)

theorem stepVM_frames (fns : List FnDef) (vm vm' : VM) (h : stepVM fns vm = .next vm') :
    vm'.frames = vm.frames ∨ (∃ c, vm.frames = c :: vm'.frames) ∨
    (∃ c, vm'.frames = c :: vm.frames ∧ ∃ f n, vm.cur.code[vm.cur.ip]? = some (.call f n)) := by
  unfold stepVM at h
  cases hi : vm.cur.code[vm.cur.ip]? with
  | none => simp [hi] at h
  | some ins =>
    simp only [hi] at h
    cases ins <;> simp only at h
    all_goals (repeat' split at h)
    all_goals first
      | (cases h; done)
      | (simp only [StepRes.next.injEq] at h; subst h
         first
           | (left; rfl)
           | (right; left; exact ⟨_, by assumption⟩)
           | (right; right; exact ⟨_, rfl, _, _, rfl⟩))

/-- What one step does to the list of suspended callers. -/
theorem step_frames (limit : Nat) (fns : List FnDef) (vm vm' : VM) (h : step limit fns vm = .next vm') :
    vm'.frames = vm.frames ∨ (∃ c, vm.frames = c :: vm'.frames) ∨
    (∃ c, vm'.frames = c :: vm.frames ∧ ∃ f n, vm.cur.code[vm.cur.ip]? = some (.call f n)) := by
  unfold step at h
  cases hi : vm.cur.code[vm.cur.ip]? with
  | none => simp [hi] at h
  | some ins =>
    simp only [hi] at h
    cases ins
    case call f n =>
      simp only at h
      repeat' split at h
      all_goals first
        | (cases h; done)
        | (simp only [Res.next.injEq] at h; subst h; right; right; exact ⟨_, rfl, f, n, rfl⟩)
    case tailCall f n =>
      simp only at h
      repeat' split at h
      all_goals first
        | (cases h; done)
        | (simp only [Res.next.injEq] at h; subst h; left; rfl)
    all_goals
      simp only at h
      split at h
      · rename_i vm2 hs
        simp only [Res.next.injEq] at h; subst h
        rcases stepVM_frames fns vm vm2 hs with h1 | h1 | ⟨c, _, f, n, hc⟩
        · exact Or.inl h1
        · exact Or.inr (Or.inl h1)
        · rw [hi] at hc; cases hc
      · cases h
      · cases h

/-- Any instruction other than a non-tail call leaves the number of suspended callers unchanged or
pops one; a non-tail call pushes exactly one. -/
theorem step_depth (limit : Nat) (fns : List FnDef) (vm vm' : VM) (h : step limit fns vm = .next vm') :
    vm'.frames.length ≤ vm.frames.length + 1 ∧
    ((∀ f n, vm.cur.code[vm.cur.ip]? ≠ some (.call f n)) → vm'.frames.length ≤ vm.frames.length) := by
  rcases step_frames limit fns vm vm' h with h1 | ⟨c, h1⟩ | ⟨c, h1, f, n, hc⟩
  · rw [h1]; exact ⟨by omega, fun _ => by omega⟩
  · rw [h1]; exact ⟨by simp; omega, fun _ => by simp⟩
  · rw [h1]; exact ⟨by simp, fun hne => absurd hc (hne f n)⟩


/-- Non-vacuity: a frame-pushing call (first conjunct tight: 1 → 2 callers) and a tail call (second conjunct
fires: 1 → 1). -/
example : ∃ vm', step 5 [loopFn] vmCall = .next vm' ∧ vm'.frames.length = vmCall.frames.length + 1 := by
  refine ⟨_, rfl, ?_⟩; decide
example : ∃ vm', step 5 [loopFn] vmTail = .next vm' ∧ vm'.frames.length ≤ vmTail.frames.length :=
  ⟨_, rfl, (step_depth 5 [loopFn] vmTail _ rfl).2 (by intro f n h; cases h)⟩

/-! ## Calls in tail position are compiled to tail calls -/

theorem hasCall_append (a b : List Instr) : hasCall (a ++ b) = (hasCall a || hasCall b) := by
  simp [hasCall, List.any_append]

theorem hasCall_cons (i : Instr) (l : List Instr) : hasCall (i :: l) = (isCall i || hasCall l) := by
  simp [hasCall]

theorem hasCall_nil : hasCall [] = false := rfl

theorem compile_noCall : ∀ (e : IR), TailOnly.noCall e = true → hasCall (compile e) = false
  | .const _, _ => by simp only [compile, hasCall_cons, hasCall_nil, isCall]; rfl
  | .loc _, _ => by simp only [compile, hasCall_cons, hasCall_nil, isCall]; rfl
  | .prim _ a b, h => by
      simp only [TailOnly.noCall, Bool.and_eq_true] at h
      simp only [compile, hasCall_append, hasCall_cons, hasCall_nil, isCall, compile_noCall a h.1,
        compile_noCall b h.2]; rfl
  | .ite c t e, h => by
      simp only [TailOnly.noCall, Bool.and_eq_true] at h
      simp only [compile, hasCall_append, hasCall_cons, hasCall_nil, isCall, compile_noCall c h.1.1,
        compile_noCall t h.1.2, compile_noCall e h.2]; rfl
  | .let1 e b, h => by
      simp only [TailOnly.noCall, Bool.and_eq_true] at h
      simp only [compile, hasCall_append, hasCall_cons, hasCall_nil, isCall, compile_noCall e h.1,
        compile_noCall b h.2]; rfl
  | .seq a b, h => by
      simp only [TailOnly.noCall, Bool.and_eq_true] at h
      simp only [compile, hasCall_append, hasCall_cons, hasCall_nil, isCall, compile_noCall a h.1,
        compile_noCall b h.2]; rfl
  | .setLoc _ e, h => by
      simp only [TailOnly.noCall] at h
      simp only [compile, hasCall_append, hasCall_cons, hasCall_nil, isCall, compile_noCall e h]; rfl
  | .call _ _, h => by simp [TailOnly.noCall] at h

theorem compileArgs_noCall : ∀ (args : List IR), TailOnly.noCallL args = true →
    hasCall (compile.compileArgsL args) = false
  | [], _ => by simp only [compile.compileArgsL, hasCall_nil]
  | a :: rest, h => by
      simp only [TailOnly.noCallL, Bool.and_eq_true] at h
      simp only [compile.compileArgsL, hasCall_append, compile_noCall a h.1, compileArgs_noCall rest h.2]; rfl

/-- **Every call in tail position is compiled to a tail call**: when all calls of a procedure body are in
tail position, its code contains no frame-pushing call instruction at all. -/
theorem tail_positions_marked : ∀ (e : IR), TailOnly e = true → hasCall (compileTail e) = false
  | .const _, _ => by simp only [compileTail, compile, hasCall_append, hasCall_cons, hasCall_nil, isCall]; rfl
  | .loc _, _ => by simp only [compileTail, compile, hasCall_append, hasCall_cons, hasCall_nil, isCall]; rfl
  | .prim op a b, h => by
      simp only [TailOnly, Bool.and_eq_true] at h
      have := compile_noCall (.prim op a b) (by simp [TailOnly.noCall, h.1, h.2])
      simp only [compileTail, hasCall_append, hasCall_cons, hasCall_nil, isCall, this]; rfl
  | .ite c t e, h => by
      simp only [TailOnly, Bool.and_eq_true] at h
      simp only [compileTail, hasCall_append, hasCall_cons, hasCall_nil, isCall, compile_noCall c h.1.1,
        tail_positions_marked t h.1.2, tail_positions_marked e h.2]; rfl
  | .let1 e b, h => by
      simp only [TailOnly, Bool.and_eq_true] at h
      simp only [compileTail, hasCall_append, compile_noCall e h.1, tail_positions_marked b h.2]; rfl
  | .seq a b, h => by
      simp only [TailOnly, Bool.and_eq_true] at h
      simp only [compileTail, hasCall_append, hasCall_cons, hasCall_nil, isCall, compile_noCall a h.1,
        tail_positions_marked b h.2]; rfl
  | .setLoc i e, h => by
      simp only [TailOnly] at h
      have := compile_noCall (.setLoc i e) (by simp [TailOnly.noCall, h])
      simp only [compileTail, hasCall_append, hasCall_cons, hasCall_nil, isCall, this]; rfl
  | .call f args, h => by
      simp only [TailOnly] at h
      simp only [compileTail, hasCall_append, hasCall_cons, hasCall_nil, isCall, compileArgs_noCall args h]; rfl



/-- Non-vacuity: the bodies of `loopFn` (call in the else branch) and `odFn` (call in a `let` body) satisfy the
hypothesis, their code does contain a tail call (the conclusion is not true for lack of calls), and the
hypothesis is necessary: `deepFn`'s body has a frame-pushing call. -/
example : hasCall (compileTail loopFn.body) = false := tail_positions_marked _ (by decide)
example : hasCall (compileTail odFn.body) = false := tail_positions_marked _ (by decide)
example : Instr.tailCall 0 2 ∈ compileTail loopFn.body := by decide
example : Instr.tailCall 0 1 ∈ compileTail odFn.body := by decide
example : TailOnly deepFn.body = false ∧ hasCall (compileTail deepFn.body) = true := by decide

/-! ## A program that only calls in tail position runs at constant frame depth -/

theorem stepVM_shape (fns : List FnDef) (vm vm' : VM) (h : stepVM fns vm = .next vm')
    (hnc : ∀ f n, vm.cur.code[vm.cur.ip]? ≠ some (.call f n))
    (hnt : ∀ f n, vm.cur.code[vm.cur.ip]? ≠ some (.tailCall f n)) :
    (vm'.frames = vm.frames ∧ vm'.cur.code = vm.cur.code) ∨
    (∃ c, vm.frames = c :: vm'.frames ∧ vm'.cur.code = c.code) := by
  unfold stepVM at h
  cases hi : vm.cur.code[vm.cur.ip]? with
  | none => simp [hi] at h
  | some ins =>
    simp only [hi] at h
    cases ins
    case call f n => exact absurd hi (hnc f n)
    case tailCall f n => exact absurd hi (hnt f n)
    all_goals
      simp only at h
      (repeat' split at h)
    all_goals first
      | (cases h; done)
      | (simp only [StepRes.next.injEq] at h; subst h
         first
           | (left; exact ⟨rfl, rfl⟩)
           | (right; rename_i c rest hfr; exact ⟨c, hfr, rfl⟩))

/-- No code that the VM can ever execute contains a frame-pushing call. -/
def CodeOk (fns : List FnDef) (vm : VM) : Prop :=
  hasCall vm.cur.code = false ∧ (∀ fr ∈ vm.frames, hasCall fr.code = false) ∧
  (∀ fd ∈ fns, hasCall (codeOf fd) = false)

theorem not_call_of_hasCall {code : List Instr} (h : hasCall code = false) (ip f n : Nat) :
    code[ip]? ≠ some (.call f n) := by
  intro hc
  have hmem : Instr.call f n ∈ code := List.mem_of_getElem? hc
  have : hasCall code = true := by
    simp only [hasCall, List.any_eq_true]
    exact ⟨_, hmem, rfl⟩
  rw [h] at this; cases this

theorem step_codeOk (limit : Nat) (fns : List FnDef) (vm vm' : VM) (hok : CodeOk fns vm)
    (h : step limit fns vm = .next vm') : CodeOk fns vm' ∧ vm'.frames.length ≤ vm.frames.length := by
  obtain ⟨h1, h2, h3⟩ := hok
  have hnc := not_call_of_hasCall h1 vm.cur.ip
  unfold step at h
  cases hi : vm.cur.code[vm.cur.ip]? with
  | none => simp [hi] at h
  | some ins =>
    simp only [hi] at h
    cases ins
    case call f n => exact absurd hi (hnc f n)
    case tailCall f n =>
      simp only at h
      cases hf : fns[f]? with
      | none => simp [hf] at h
      | some fd =>
        simp only [hf] at h
        split at h
        · cases h
        · simp only [Res.next.injEq] at h; subst h
          exact ⟨⟨h3 fd (List.mem_of_getElem? hf), h2, h3⟩, by simp⟩
    all_goals
      simp only at h
      split at h
      · rename_i vm2 hs
        simp only [Res.next.injEq] at h; subst h
        rcases stepVM_shape fns vm vm2 hs (by rw [hi]; intro f n hc; cases hc) (by rw [hi]; intro f n hc; cases hc)
          with ⟨e1, e2⟩ | ⟨c, e1, e2⟩
        · exact ⟨⟨by rw [e2]; exact h1, by rw [e1]; exact h2, h3⟩, by rw [e1]; omega⟩
        · refine ⟨⟨by rw [e2]; exact h2 c (by rw [e1]; simp), ?_, h3⟩, by rw [e1]; simp⟩
          intro fr hfr; exact h2 fr (by rw [e1]; simp [hfr])
      · cases h
      · cases h

theorem steps_codeOk (limit : Nat) (fns : List FnDef) : ∀ (n : Nat) (vm vm' : VM), CodeOk fns vm →
    steps limit fns n vm = some vm' → CodeOk fns vm' ∧ vm'.frames.length ≤ vm.frames.length := by
  intro n
  induction n with
  | zero => intro vm vm' hok h; simp [steps] at h; subst h; exact ⟨hok, by omega⟩
  | succ n ih =>
    intro vm vm' hok h
    simp only [steps] at h
    cases hs : step limit fns vm with
    | next vm1 =>
      rw [hs] at h
      obtain ⟨hok1, hl1⟩ := step_codeOk limit fns vm vm1 hok hs
      obtain ⟨hok2, hl2⟩ := ih vm1 vm' hok1 h
      exact ⟨hok2, by omega⟩
    | halt v => rw [hs] at h; cases h
    | overflow => rw [hs] at h; cases h
    | stuck => rw [hs] at h; cases h

/-- The initial state of a program with main expression `e` (compiled tail-aware). -/
def initT (e : IR) : VM := { cur := { code := compileTail e, ip := 0, stack := [] }, frames := [] }

/-- **Loops written as tail recursion run at constant frame depth, for any number of iterations.**
If every call in the main expression and in every procedure body is in tail position (self recursion,
mutual recursion among any number of procedures, calls in conditionals, let bodies and `begin` tails), then
no state reachable after ANY number of steps has a suspended caller: the frame stack never grows. -/
theorem loop_constant_space (limit : Nat) (fns : List FnDef) (e : IR)
    (hmain : TailOnly e = true) (hfns : ∀ fd ∈ fns, TailOnly fd.body = true)
    (n : Nat) (vm' : VM) (h : steps limit fns n (initT e) = some vm') : vm'.frames = [] := by
  have hok : CodeOk fns (initT e) :=
    ⟨tail_positions_marked e hmain, by simp [initT], fun fd hfd => tail_positions_marked fd.body (hfns fd hfd)⟩
  have := (steps_codeOk limit fns n (initT e) vm' hok h).2
  have h0 : (initT e).frames.length = 0 := rfl
  rw [h0] at this
  exact List.eq_nil_of_length_eq_zero (by omega)

/-- Non-vacuity: self recursion, and mutual recursion between two procedures one of which calls from a `let`
body; the hypothesis `steps … = some vm'` is satisfiable for a non-trivial number of steps (60 steps are
several iterations), and the programs terminate with the right value (so the claim is not about stuck runs). -/
example (n : Nat) (vm' : VM)
    (h : steps 100 [loopFn] n (initT (.call 0 [.const (.int 40), .const (.int 0)])) = some vm') : vm'.frames = [] :=
  loop_constant_space 100 [loopFn] _ (by decide) (by decide) n vm' h
example (n : Nat) (vm' : VM)
    (h : steps 2 [evFn, odFn] n (initT (.call 0 [.const (.int 7)])) = some vm') : vm'.frames = [] :=
  loop_constant_space 2 [evFn, odFn] _ (by decide) (by decide) n vm' h
example : (steps 100 [loopFn] 60 (initT (.call 0 [.const (.int 40), .const (.int 0)]))).isSome = true := by
  decide +kernel
example : (steps 2 [evFn, odFn] 60 (initT (.call 0 [.const (.int 7)]))).isSome = true := by decide +kernel
example : run 2 [evFn, odFn] 2000 (initT (.call 0 [.const (.int 7)])) = .halt (.bool false) := by decide +kernel

/-- The same fact in terms of the high-water mark: the largest number of frames seen during ANY number of
steps is the number at the start.  (This is about the FRAME stack; the operand stack is
`loop_operand_stack_bounded` below.) -/
theorem maxDepth_constant (limit : Nat) (fns : List FnDef) :
    ∀ (n : Nat) (vm : VM), CodeOk fns vm → maxDepth limit fns n vm = vm.frames.length + 1 := by
  intro n
  induction n with
  | zero => intro vm _; rfl
  | succ n ih =>
    intro vm hok
    simp only [maxDepth]
    cases hs : step limit fns vm with
    | next vm1 =>
      obtain ⟨hok1, hl1⟩ := step_codeOk limit fns vm vm1 hok hs
      simp only [ih vm1 hok1]; omega
    | halt v => rfl
    | overflow => rfl
    | stuck => rfl

theorem codeOk_init (fns : List FnDef) (e : IR)
    (hmain : TailOnly e = true) (hfns : ∀ fd ∈ fns, TailOnly fd.body = true) : CodeOk fns (initT e) :=
  ⟨tail_positions_marked e hmain, by simp [initT], fun fd hfd => tail_positions_marked fd.body (hfns fd hfd)⟩

/-- Non-vacuity of `maxDepth_constant`: `CodeOk` holds of the initial state of the loop programs, and the
high-water mark over 500 steps (≈ 30 iterations) is 1. -/
example : maxDepth 100 [loopFn] 500 (initT (.call 0 [.const (.int 40), .const (.int 0)])) = 1 :=
  maxDepth_constant 100 [loopFn] 500 _ (codeOk_init _ _ (by decide) (by decide))
/-- … whereas for the non-tail recursion it is not (the hypothesis is needed). -/
example : maxDepth 100 [deepFn] 500 (initT (.call 0 [.const (.int 10)])) = 11 := by decide +kernel

/-- **The frame limit never fires in a tail-recursive loop**, whatever the limit (even 0) and whatever the
number of steps: the run ends with a value or keeps going, it never ends with the overflow error. -/
theorem loop_never_overflows (limit : Nat) (fns : List FnDef) (e : IR)
    (hmain : TailOnly e = true) (hfns : ∀ fd ∈ fns, TailOnly fd.body = true)
    (n : Nat) (vm' : VM) (h : steps limit fns n (initT e) = some vm') : step limit fns vm' ≠ .overflow := by
  have hok := (steps_codeOk limit fns n (initT e) vm' (codeOk_init fns e hmain hfns) h).1
  have hnc := not_call_of_hasCall hok.1 vm'.cur.ip
  intro ho
  unfold step at ho
  cases hi : vm'.cur.code[vm'.cur.ip]? with
  | none => simp [hi] at ho
  | some ins =>
    simp only [hi] at ho
    cases ins
    case call f n => exact absurd hi (hnc f n)
    all_goals
      simp only at ho
      (repeat' split at ho)
    all_goals first
      | (cases ho; done)

/-- Non-vacuity: limit 0, 60 steps into the loop (the hypothesis `steps … = some _` holds — tail calls never
consult the limit), the loop terminates with its value under limit 0, and with the same limit the non-tail
recursion does overflow at its first call. -/
example (n : Nat) (vm' : VM)
    (h : steps 0 [loopFn] n (initT (.call 0 [.const (.int 40), .const (.int 0)])) = some vm') :
    step 0 [loopFn] vm' ≠ .overflow :=
  loop_never_overflows 0 [loopFn] _ (by decide) (by decide) n vm' h
example : (steps 0 [loopFn] 60 (initT (.call 0 [.const (.int 40), .const (.int 0)]))).isSome = true := by
  decide +kernel
example : run 0 [loopFn] 2000 (initT (.call 0 [.const (.int 40), .const (.int 0)])) = .halt (.int 820) := by
  decide +kernel
example : run 0 [deepFn] 2000 (initT (.call 0 [.const (.int 3)])) = .halt (.int 3) ∨
    run 0 [deepFn] 2000 (initT (.call 0 [.const (.int 3)])) = .overflow := by decide +kernel

/-! ## One loop, every iteration count, with its result -/

/-- the state at the head of an iteration of `loopFn` with `k` iterations to go -/
def loopHead (k acc : Int) : VM :=
  { cur := { code := codeOf loopFn, ip := 0, stack := [.int k, .int acc] }, frames := [] }

/-- … after the test `(<= k 0)` has been evaluated -/
def loopTested (k acc : Int) (b : Bool) : VM :=
  { cur := { code := codeOf loopFn, ip := 3, stack := [.int k, .int acc, .bool b] }, frames := [] }

theorem run_of_steps (limit : Nat) (fns : List FnDef) : ∀ (a b : Nat) (vm vm' : VM),
    steps limit fns a vm = some vm' → run limit fns (a + b) vm = run limit fns b vm'
  | 0, b, vm, vm', h => by simp [steps] at h; subst h; simp
  | a + 1, b, vm, vm', h => by
    simp only [steps] at h
    have : a + 1 + b = (a + b) + 1 := by omega
    rw [this]; simp only [run]
    cases hs : step limit fns vm with
    | next vm1 => rw [hs] at h; simp only; exact run_of_steps limit fns a b vm1 vm' h
    | halt v => rw [hs] at h; cases h
    | overflow => rw [hs] at h; cases h
    | stuck => rw [hs] at h; cases h

theorem loop_test (limit : Nat) (k acc : Int) :
    steps limit [loopFn] 3 (loopHead k acc) = some (loopTested k acc (decide (k ≤ 0))) := rfl
theorem loop_again (limit : Nat) (k acc : Int) :
    steps limit [loopFn] 8 (loopTested k acc false) = some (loopHead (k - 1) (acc + k)) := rfl
theorem loop_exit (limit : Nat) (k acc : Int) :
    run limit [loopFn] 3 (loopTested k acc true) = .halt (.int acc) := rfl
theorem loop_enter (limit : Nat) (n : Int) :
    steps limit [loopFn] 3 (initT (.call 0 [.const (.int n), .const (.int 0)])) = some (loopHead n 0) := rfl
/-- 1 + 2 + … + n -/
def sumTo : Nat → Int
  | 0 => 0
  | n + 1 => sumTo n + ((n + 1 : Nat) : Int)

theorem loop_from_head (limit : Nat) : ∀ (n : Nat) (acc : Int),
    run limit [loopFn] (11 * n + 6) (loopHead n acc) = .halt (.int (acc + sumTo n))
  | 0, acc => by
    have h1 := loop_test limit ((0 : Nat) : Int) acc
    rw [show 11 * 0 + 6 = 3 + 3 from rfl, run_of_steps limit _ 3 3 _ _ h1]
    simp only [Int.natCast_zero, Int.le_refl, decide_true, sumTo, Int.add_zero]
    exact loop_exit limit 0 acc
  | n + 1, acc => by
    have h1 := loop_test limit ((n + 1 : Nat) : Int) acc
    have hk : decide (((n + 1 : Nat) : Int) ≤ 0) = false := by simp
    rw [hk] at h1
    have h2 := loop_again limit ((n + 1 : Nat) : Int) acc
    have e : ((n + 1 : Nat) : Int) - 1 = (n : Int) := by omega
    rw [e] at h2
    rw [show 11 * (n + 1) + 6 = 3 + (8 + (11 * n + 6)) by omega, run_of_steps limit _ 3 _ _ _ h1,
      run_of_steps limit _ 8 _ _ _ h2, loop_from_head limit n]
    simp only [sumTo]
    congr 2; omega

/-- **A loop written as tail recursion runs for ANY number of iterations**: for every `n` and every frame limit
(even 0) the program `(loop n 0)` with `(define (loop n acc) (if (<= n 0) acc (loop (- n 1) (+ acc n))))`,
compiled tail-aware, halts after `11·n + 9` instructions with `1 + 2 + … + n` — it neither gets stuck nor hits
the limit, and (by `loop_constant_space` / `loop_operand_stack_bounded`) it does so with no suspended caller
and at most 15 operands.  This is ONE program (self recursion with two accumulating parameters); it shows
that the general invariants above are not satisfied only by runs that stop early. -/
theorem tail_loop_any_count (limit : Nat) (n : Nat) :
    run limit [loopFn] (11 * n + 9) (initT (.call 0 [.const (.int n), .const (.int 0)])) = .halt (.int (sumTo n)) := by
  rw [show 11 * n + 9 = 3 + (11 * n + 6) by omega, run_of_steps limit _ 3 _ _ _ (loop_enter limit n),
    loop_from_head limit n 0]
  simp

/-- non-vacuity: the instance `n = 10^7` of the property's quantifier, under frame limit 0 -/
example : run 0 [loopFn] (11 * 10000000 + 9) (initT (.call 0 [.const (.int (10000000 : Nat)), .const (.int 0)]))
    = .halt (.int (sumTo 10000000)) := tail_loop_any_count 0 10000000
example : sumTo 4 = 10 := by decide

/-! ## … and with a bounded operand stack -/

/-- The largest arity of the program's procedures. -/
def maxArity (fns : List FnDef) : Nat := fns.foldr (fun fd m => max fd.arity m) 0

/-- The longest code of the program (main expression and procedure bodies). -/
def maxCode (fns : List FnDef) (e : IR) : Nat :=
  fns.foldr (fun fd m => max (codeOf fd).length m) (compileTail e).length

theorem arity_le_maxArity {fns : List FnDef} {fd : FnDef} (h : fd ∈ fns) : fd.arity ≤ maxArity fns := by
  induction fns with
  | nil => cases h
  | cons a rest ih =>
    simp only [maxArity, List.foldr_cons]
    rcases List.mem_cons.1 h with rfl | h
    · omega
    · have := ih h; simp only [maxArity] at this; omega

theorem main_le_maxCode (fns : List FnDef) (e : IR) : (compileTail e).length ≤ maxCode fns e := by
  induction fns with
  | nil => simp [maxCode]
  | cons a rest ih => simp only [maxCode, List.foldr_cons] at ih ⊢; omega

theorem code_le_maxCode {fns : List FnDef} {fd : FnDef} (e : IR) (h : fd ∈ fns) :
    (codeOf fd).length ≤ maxCode fns e := by
  induction fns with
  | nil => cases h
  | cons a rest ih =>
    simp only [maxCode, List.foldr_cons]
    rcases List.mem_cons.1 h with rfl | h
    · omega
    · have := ih h; simp only [maxCode] at this; omega

/-- An instruction other than a call, executed with no suspended caller, pushes at most one operand, moves
`ip` forward and stays in the same code. -/
theorem stepVM_stack (fns : List FnDef) (vm vm' : VM) (h : stepVM fns vm = .next vm') (hfr : vm.frames = [])
    (hnc : ∀ f n, vm.cur.code[vm.cur.ip]? ≠ some (.call f n))
    (hnt : ∀ f n, vm.cur.code[vm.cur.ip]? ≠ some (.tailCall f n)) :
    vm'.cur.stack.length ≤ vm.cur.stack.length + 1 ∧ vm.cur.ip + 1 ≤ vm'.cur.ip ∧
    vm'.cur.code = vm.cur.code := by
  unfold stepVM at h
  cases hi : vm.cur.code[vm.cur.ip]? with
  | none => simp [hi] at h
  | some ins =>
    simp only [hi] at h
    cases ins
    case call f n => exact absurd hi (hnc f n)
    case tailCall f n => exact absurd hi (hnt f n)
    all_goals
      simp only at h
      (repeat' split at h)
    all_goals first
      | (cases h; done)
      | (rename_i c rest hc; rw [hfr] at hc; cases hc; done)
      | (simp only [StepRes.next.injEq] at h; subst h
         refine ⟨?_, ?_, rfl⟩ <;> simp <;> omega)

/-- Invariant of a tail-only run: no caller is suspended, the current code is the main expression's or a
procedure's, and the operand stack is at most `maxArity + ip` and at most `maxArity + code length`. -/
def StackOk (fns : List FnDef) (e : IR) (vm : VM) : Prop :=
  vm.frames = [] ∧ (vm.cur.code = compileTail e ∨ ∃ fd ∈ fns, vm.cur.code = codeOf fd) ∧
  vm.cur.stack.length ≤ maxArity fns + vm.cur.ip ∧ vm.cur.stack.length ≤ maxArity fns + vm.cur.code.length

theorem step_stackOk (limit : Nat) (fns : List FnDef) (e : IR) (vm vm' : VM) (hok : CodeOk fns vm)
    (hs : StackOk fns e vm) (h : step limit fns vm = .next vm') : StackOk fns e vm' := by
  obtain ⟨h1, h2, h3⟩ := hok
  obtain ⟨s1, s2, s3, s4⟩ := hs
  have hnc := not_call_of_hasCall h1 vm.cur.ip
  have h' := h
  unfold step at h
  cases hi : vm.cur.code[vm.cur.ip]? with
  | none => simp [hi] at h
  | some ins =>
    have hip : vm.cur.ip < vm.cur.code.length := (List.getElem?_eq_some_iff.1 hi).1
    simp only [hi] at h
    cases ins
    case call f n => exact absurd hi (hnc f n)
    case tailCall f n =>
      simp only at h
      cases hf : fns[f]? with
      | none => simp [hf] at h
      | some fd =>
        simp only [hf] at h
        split at h
        · cases h
        · rename_i hc
          simp only [Res.next.injEq] at h; subst h
          have hmem := List.mem_of_getElem? hf
          have ha := arity_le_maxArity hmem
          refine ⟨s1, Or.inr ⟨fd, hmem, rfl⟩, ?_, ?_⟩ <;> simp <;> omega
    all_goals
      simp only at h
      split at h
      · rename_i vm2 hs2
        simp only [Res.next.injEq] at h; subst h
        obtain ⟨e1, e2, e3⟩ := stepVM_stack fns vm vm2 hs2 s1 (by rw [hi]; intro f n hc; cases hc)
          (by rw [hi]; intro f n hc; cases hc)
        have e4 := (step_codeOk limit fns vm vm2 ⟨h1, h2, h3⟩ h').2
        refine ⟨?_, by rw [e3]; exact s2, by omega, by rw [e3]; omega⟩
        rw [s1] at e4; exact List.eq_nil_of_length_eq_zero (by simpa using e4)
      · cases h
      · cases h

/-- **The operand stack of a tail-recursive loop is bounded independently of the number of iterations**: in
every state reachable after ANY number of steps it holds at most `maxArity fns + maxCode fns e` values — a
number read off the program text (largest arity + longest body), in which neither the step count nor any
runtime value occurs.  Together with `loop_constant_space` (no frame is ever pushed) this is "consumes no
additional stack of any kind" for the two stacks of the model VM. -/
theorem loop_operand_stack_bounded (limit : Nat) (fns : List FnDef) (e : IR)
    (hmain : TailOnly e = true) (hfns : ∀ fd ∈ fns, TailOnly fd.body = true) :
    ∀ (n : Nat) (vm' : VM), steps limit fns n (initT e) = some vm' →
      vm'.cur.stack.length ≤ maxArity fns + maxCode fns e := by
  have key : ∀ (n : Nat) (vm vm' : VM), CodeOk fns vm → StackOk fns e vm → steps limit fns n vm = some vm' →
      StackOk fns e vm' := by
    intro n
    induction n with
    | zero => intro vm vm' _ hs h; simp [steps] at h; subst h; exact hs
    | succ n ih =>
      intro vm vm' hok hs h
      simp only [steps] at h
      cases hst : step limit fns vm with
      | next vm1 =>
        rw [hst] at h
        exact ih vm1 vm' (step_codeOk limit fns vm vm1 hok hst).1 (step_stackOk limit fns e vm vm1 hok hs hst) h
      | halt v => rw [hst] at h; cases h
      | overflow => rw [hst] at h; cases h
      | stuck => rw [hst] at h; cases h
  intro n vm' h
  have h0 : StackOk fns e (initT e) := ⟨rfl, Or.inl rfl, by simp [initT], by simp [initT]⟩
  obtain ⟨_, hcode, _, hlen⟩ := key n (initT e) vm' (codeOk_init fns e hmain hfns) h0 h
  rcases hcode with hc | ⟨fd, hmem, hc⟩
  · have := main_le_maxCode fns e; rw [hc] at hlen; omega
  · have := code_le_maxCode e hmem; rw [hc] at hlen; omega

/-- Non-vacuity: the bound for the loop program is 2 + 13 = 15 whatever the iteration count `k` in the main
expression; the stack does hold several values during an iteration (4 after 9 steps), so the bound is not met
by an empty stack. -/
example (k : Int) (n : Nat) (vm' : VM)
    (h : steps 100 [loopFn] n (initT (.call 0 [.const (.int k), .const (.int 0)])) = some vm') :
    vm'.cur.stack.length ≤ 15 :=
  loop_operand_stack_bounded 100 [loopFn] _ (by rfl) (by decide) n vm' h
example : ((steps 100 [loopFn] 9 (initT (.call 0 [.const (.int 40), .const (.int 0)]))).map
    (·.cur.stack.length)) = some 4 := by decide +kernel

/-! ## The frame limit -/

/-- The number of frames never exceeds the limit … -/
theorem depth_bounded (limit : Nat) (fns : List FnDef) (vm vm' : VM)
    (hb : vm.frames.length + 1 ≤ limit) (h : step limit fns vm = .next vm') :
    vm'.frames.length + 1 ≤ limit := by
  by_cases hc : ∃ f n, vm.cur.code[vm.cur.ip]? = some (.call f n)
  · obtain ⟨f, n, hi⟩ := hc
    unfold step at h
    simp only [hi] at h
    cases hf : fns[f]? with
    | none => simp [hf] at h
    | some fd =>
      simp only [hf] at h
      split at h
      · cases h
      · split at h
        · cases h
        · rename_i hlim
          simp only [Res.next.injEq] at h; subst h
          simp; omega
  · have := (step_depth limit fns vm vm' h).2 (by intro f n hi; exact hc ⟨f, n, hi⟩)
    omega

/-- … and a non-tail call at the limit is an error value (`overflow`), not a crash: the step is defined. -/
theorem call_at_limit_overflows (limit : Nat) (fns : List FnDef) (vm : VM) (f n : Nat) (fd : FnDef)
    (hi : vm.cur.code[vm.cur.ip]? = some (.call f n)) (hf : fns[f]? = some fd)
    (ha : fd.arity = n) (hl : n ≤ vm.cur.stack.length) (hlim : limit ≤ vm.frames.length + 1) :
    step limit fns vm = .overflow := by
  have hc : ¬ (fd.arity ≠ n ∨ vm.cur.stack.length < n) := by omega
  simp [step, hi, hf, hc]; omega

/-- Non-vacuity of `depth_bounded`: a frame-pushing call with 1 caller suspended under limit 3 (the bound is
reached: 3 frames afterwards), and of `call_at_limit_overflows`: the same state under limit 2. -/
example : ∃ vm', step 3 [loopFn] vmCall = .next vm' ∧ vm'.frames.length + 1 ≤ 3 ∧ vm'.frames.length + 1 = 3 :=
  ⟨_, rfl, depth_bounded 3 [loopFn] vmCall _ (by decide) rfl, by decide⟩
example : step 2 [loopFn] vmCall = .overflow :=
  call_at_limit_overflows 2 [loopFn] vmCall 0 2 loopFn rfl rfl rfl (by decide) (by decide)

/-- **Whatever the program does, the frame stack never exceeds the limit**: in every state reachable from the
initial state after any number of steps there are at most `limit` frames (current one included).  So runaway
non-tail recursion cannot grow the frame stack without bound; by `call_at_limit_overflows` the call that
would exceed the limit yields the error value. -/
theorem frames_never_exceed_limit (limit : Nat) (fns : List FnDef) :
    ∀ (n : Nat) (vm vm' : VM), vm.frames.length + 1 ≤ limit → steps limit fns n vm = some vm' →
      vm'.frames.length + 1 ≤ limit := by
  intro n
  induction n with
  | zero => intro vm vm' hb h; simp [steps] at h; subst h; exact hb
  | succ n ih =>
    intro vm vm' hb h
    simp only [steps] at h
    cases hs : step limit fns vm with
    | next vm1 => rw [hs] at h; exact ih vm1 vm' (depth_bounded limit fns vm vm1 hb hs) h
    | halt v => rw [hs] at h; cases h
    | overflow => rw [hs] at h; cases h
    | stuck => rw [hs] at h; cases h

/-- Non-vacuity: the non-tail recursion `(deep 30)` under limit 5: every reachable state has ≤ 5 frames, 40
steps are possible and reach the bound (5 frames), and the run ends with the error value (a test of this one
program and this one limit, by evaluation). -/
example (n : Nat) (vm' : VM) (h : steps 5 [deepFn] n (initT (.call 0 [.const (.int 30)])) = some vm') :
    vm'.frames.length + 1 ≤ 5 :=
  frames_never_exceed_limit 5 [deepFn] n _ vm' (by decide) h
example : ((steps 5 [deepFn] 40 (initT (.call 0 [.const (.int 30)]))).map (·.frames.length + 1)) = some 5 := by
  decide +kernel
example : run 5 [deepFn] 2000 (initT (.call 0 [.const (.int 30)])) = .overflow := by decide +kernel
/-- Below the limit the same program returns its value. -/
example : run 5 [deepFn] 2000 (initT (.call 0 [.const (.int 3)])) = .halt (.int 3) := by decide +kernel

/-! ## One non-tail recursion, every limit, every depth beyond it -/

/-- head of an activation of `deepFn` with argument `k`, below `fs` suspended callers -/
def deepHead (k : Int) (fs : List Frame) : VM :=
  { cur := { code := codeOf deepFn, ip := 0, stack := [.int k] }, frames := fs }
def deepTested (k : Int) (fs : List Frame) (b : Bool) : VM :=
  { cur := { code := codeOf deepFn, ip := 3, stack := [.int k, .bool b] }, frames := fs }
/-- about to execute the non-tail call `(deep (- k 1))` inside `(+ 1 …)` -/
def deepAtCall (k : Int) (fs : List Frame) : VM :=
  { cur := { code := codeOf deepFn, ip := 10, stack := [.int k, .int 1, .int (k - 1)] }, frames := fs }
/-- the caller's frame while the callee runs -/
def deepCaller (k : Int) : Frame := { code := codeOf deepFn, ip := 11, stack := [.int k, .int 1] }

theorem deep_test (limit : Nat) (k : Int) (fs : List Frame) :
    steps limit [deepFn] 3 (deepHead k fs) = some (deepTested k fs (decide (k ≤ 0))) := rfl
theorem deep_to_call (limit : Nat) (k : Int) (fs : List Frame) :
    steps limit [deepFn] 5 (deepTested k fs false) = some (deepAtCall k fs) := rfl
theorem deep_call (limit : Nat) (k : Int) (fs : List Frame) :
    step limit [deepFn] (deepAtCall k fs) =
      if fs.length + 1 ≥ limit then .overflow else .next (deepHead (k - 1) (deepCaller k :: fs)) := rfl
theorem deep_enter (limit : Nat) (n : Int) :
    steps limit [deepFn] 2 (initT (.call 0 [.const (.int n)])) = some (deepHead n []) := rfl

theorem deep_from_head (limit : Nat) : ∀ (m k : Nat) (fs : List Frame) (x : Nat), limit ≤ fs.length + 1 + m → m < k →
    run limit [deepFn] (9 * m + 9 + x) (deepHead k fs) = .overflow
  | m, k, fs, x, hl, hk => by
    have h1 := deep_test limit (k : Int) fs
    have hd : decide ((k : Int) ≤ 0) = false := by simp; omega
    rw [hd] at h1
    have h2 := deep_to_call limit (k : Int) fs
    rw [show 9 * m + 9 + x = 3 + (5 + (9 * m + x + 1)) by omega, run_of_steps limit _ 3 _ _ _ h1,
      run_of_steps limit _ 5 _ _ _ h2]
    simp only [run, deep_call]
    by_cases hc : fs.length + 1 ≥ limit
    · simp [hc]
    · simp only [hc, if_false]
      cases m with
      | zero => omega
      | succ m =>
        have e : (k : Int) - 1 = ((k - 1 : Nat) : Int) := by omega
        rw [e, show 9 * (m + 1) + x = 9 * m + 9 + x by omega]
        exact deep_from_head limit m (k - 1) (deepCaller k :: fs) x (by simp; omega) (by omega)

/-- **Non-tail recursion deeper than the limit ends with the error value**: for every frame limit and every
depth `n ≥ limit` (and `n ≥ 1`), `(deep n)` with `(define (deep n) (if (<= n 0) 0 (+ 1 (deep (- n 1)))))` ends
with `overflow` — the run is defined all the way (never `stuck`), and any fuel from `9·limit + 11` on gives
that answer.  (`n < limit` returns `n`: the `decide`d example below.) -/
theorem deep_recursion_overflows (limit n : Nat) (h : limit ≤ n) (h1 : 1 ≤ n) (x : Nat) :
    run limit [deepFn] (9 * limit + 11 + x) (initT (.call 0 [.const (.int n)])) = .overflow := by
  rw [show 9 * limit + 11 + x = 2 + (9 * (limit - 1) + 9 + (9 * limit - 9 * (limit - 1) + x)) by omega,
    run_of_steps limit _ 2 _ _ _ (deep_enter limit n)]
  exact deep_from_head limit (limit - 1) n [] _ (by simp; omega) (by omega)

/-- non-vacuity: limit 5 and depths 5, 30, 10^7 (the recursion gives up after ~56 instructions, whatever the depth
asked for); limit 0; and below the limit the value comes back (evaluation of one run: a test) -/
example : run 5 [deepFn] (9 * 5 + 11 + 0) (initT (.call 0 [.const (.int (5 : Nat))])) = .overflow :=
  deep_recursion_overflows 5 5 (by decide) (by decide) 0
example : run 5 [deepFn] (9 * 5 + 11 + 1944) (initT (.call 0 [.const (.int (30 : Nat))])) = .overflow :=
  deep_recursion_overflows 5 30 (by decide) (by decide) 1944
example : run 5 [deepFn] (9 * 5 + 11 + 0) (initT (.call 0 [.const (.int (10000000 : Nat))])) = .overflow :=
  deep_recursion_overflows 5 10000000 (by decide) (by decide) 0
example : run 0 [deepFn] (9 * 0 + 11 + 0) (initT (.call 0 [.const (.int (1 : Nat))])) = .overflow :=
  deep_recursion_overflows 0 1 (by decide) (by decide) 0
example : run 5 [deepFn] 2000 (initT (.call 0 [.const (.int 4)])) = .halt (.int 4) := by decide +kernel

/-! ## Clauses of the property not carried by a theorem -/

/-
The theorems above are about the model VM of `Model.lean` (lowered core of C01: integers and booleans, locals,
`if`, `let`, `begin`, `set!` of locals, binary primitives, calls of GLOBAL FIRST-ORDER procedures of fixed
arity).  Read together they say: a tail call replaces the frame by exactly its operands
(`tailcall_reuses_frame`); a body all of whose calls are in tail position is compiled without any
frame-pushing call (`tail_positions_marked`); such a program never suspends a caller (`loop_constant_space`,
`maxDepth_constant`), never holds more than `maxArity + maxCode` operands (`loop_operand_stack_bounded`) and
never hits the frame limit (`loop_never_overflows`), after any number of steps; and for every program the
frame stack stays within the limit and the call beyond it is an error value (`frames_never_exceed_limit`,
`call_at_limit_overflows`).

NOT carried by any theorem (covered only by the stack-depth probes on the real engine, checks/c09.py):

 * Tail calls **through a variable / higher-order parameter** (`(f f (- i 1) …)`), **through `apply`**
   (incl. rest-only callees and spread arguments), **with rest arguments**, **with captured variables**
   (closures), in **handlers' tails** (`with-handler`), in `cond` / `and` / `or` / `when` / named `let` as
   such: the IR has no closures, no `apply`, no rest parameters, no handlers; `cond`/`and`/`or`/named `let`
   are covered only as far as they lower to `ite`/`let1`/`seq`/global calls.
 * **That `compileTail` is a correct compiler** (the tail-aware code computes what the reference semantics
   `C01.evalIR` computes): not proved here; `tail_positions_marked` says the code has no frame-pushing call,
   not that the tail call it has is the right one.  "The loop returns the right result for every iteration
   count" is proved for ONE program (`tail_loop_any_count`: self recursion, two parameters); for the other
   shapes the `decide +kernel` examples (`ev`/`od` 7 ⇒ #f) are tests of single runs.
 * **Termination/progress** in general: no theorem says that an arbitrary tail-only program does not get
   `stuck`; the invariants are stated for the states that are reached (`tail_loop_any_count` shows for one
   program that all of them are).
 * **The five real tail-call opcodes** (TCOJMP, SELFTAILCALLNOARITY, TAILCALL, CALLGLOBALTAIL, and the
   native-code equivalents under STEEL_JIT) and their argument shuffles for each arity/let-depth combination:
   the model has ONE `tailCall` instruction.  The position analysis of `analysis.rs`
   (`visit_with_tail_call_eligibility`) is transcribed as `compileTail`, not translated from the source.
 * **"memory bounded independently of the count"** beyond the two VM stacks: the native stack of the
   recursive Rust `vm()` calls, heap/resident memory, Cranelift frames are not modelled.
 * **Iteration counts up to 10^7 on the real engine**: the theorems hold for every count in the model; the
   real engine is probed at 10^6 / 10^7.
 * **"Non-tail recursion deeper than the limit ends with an error value, not with a crash"** for the real
   limits (`STACK_LIMIT`, the depth check at the top of `VmCore::vm`, the native-stack guard): the model has one
   abstract `limit` on the number of frames; a crash of the process (native stack overflow) is not expressible.
   That non-tail recursion deeper than the limit DOES end with the error value is proved for one program
   (`deep_recursion_overflows`, every limit, every depth); in general only `frames_never_exceed_limit` +
   `call_at_limit_overflows` hold (the frame stack cannot pass the limit; whether a program gets `stuck`
   before is not excluded).
-/

end SteelVerif.C09
