/-
C09 — property theorems: tail calls reuse the frame; calls in tail position are compiled to tail calls;
a program whose procedures call only in tail position runs at constant frame depth for any number of
iterations; the frame limit turns runaway non-tail recursion into an error value.
-/
import SteelVerif.C09.Model
namespace SteelVerif.C09
open SteelVerif.C01

/-! ## The tail-call instruction reuses the frame -/

theorem tailcall_reuses_frame (limit : Nat) (fns : List FnDef) (vm : VM) (f n : Nat) (fd : FnDef)
    (hi : vm.cur.code[vm.cur.ip]? = some (.tailCall f n)) (hf : fns[f]? = some fd)
    (ha : fd.arity = n) (hl : n ≤ vm.cur.stack.length) :
    ∃ vm', step limit fns vm = .next vm' ∧ vm'.frames = vm.frames ∧ vm'.cur.stack.length = fd.arity ∧
      vm'.cur.code = codeOf fd := by
  have hc : ¬ (fd.arity ≠ n ∨ vm.cur.stack.length < n) := by omega
  refine ⟨{ vm with cur := { code := codeOf fd, ip := 0, stack := vm.cur.stack.drop (vm.cur.stack.length - n) } },
    by simp [step, hi, hf, hc], rfl, ?_, rfl⟩
  simp; omega

theorem stepVM_frames (fns : List FnDef) (vm vm' : VM) (h : stepVM fns vm = .next vm') :
    vm'.frames = vm.frames ∨ (∃ c, vm.frames = c :: vm'.frames) ∨
    (∃ c, vm'.frames = c :: vm.frames ∧ ∃ f n, vm.cur.code[vm.cur.ip]? = some (.call f n)) := by
  unfold stepVM at h
  cases hi : vm.cur.code[vm.cur.ip]? with
  | none => simp [hi] at h
  | some ins =>
    simp only [hi] at h
    cases ins <;> simp only at h
    all_goals (repeat' split at h)
    all_goals first
      | (cases h; done)
      | (simp only [StepRes.next.injEq] at h; subst h
         first
           | (left; rfl)
           | (right; left; exact ⟨_, by assumption⟩)
           | (right; right; exact ⟨_, rfl, _, _, rfl⟩))

/-- What one step does to the list of suspended callers. -/
theorem step_frames (limit : Nat) (fns : List FnDef) (vm vm' : VM) (h : step limit fns vm = .next vm') :
    vm'.frames = vm.frames ∨ (∃ c, vm.frames = c :: vm'.frames) ∨
    (∃ c, vm'.frames = c :: vm.frames ∧ ∃ f n, vm.cur.code[vm.cur.ip]? = some (.call f n)) := by
  unfold step at h
  cases hi : vm.cur.code[vm.cur.ip]? with
  | none => simp [hi] at h
  | some ins =>
    simp only [hi] at h
    cases ins
    case call f n =>
      simp only at h
      repeat' split at h
      all_goals first
        | (cases h; done)
        | (simp only [Res.next.injEq] at h; subst h; right; right; exact ⟨_, rfl, f, n, rfl⟩)
    case tailCall f n =>
      simp only at h
      repeat' split at h
      all_goals first
        | (cases h; done)
        | (simp only [Res.next.injEq] at h; subst h; left; rfl)
    all_goals
      simp only at h
      split at h
      · rename_i vm2 hs
        simp only [Res.next.injEq] at h; subst h
        rcases stepVM_frames fns vm vm2 hs with h1 | h1 | ⟨c, _, f, n, hc⟩
        · exact Or.inl h1
        · exact Or.inr (Or.inl h1)
        · rw [hi] at hc; cases hc
      · cases h
      · cases h

/-- Any instruction other than a non-tail call leaves the number of suspended callers unchanged or
pops one; a non-tail call pushes exactly one. -/
theorem step_depth (limit : Nat) (fns : List FnDef) (vm vm' : VM) (h : step limit fns vm = .next vm') :
    vm'.frames.length ≤ vm.frames.length + 1 ∧
    ((∀ f n, vm.cur.code[vm.cur.ip]? ≠ some (.call f n)) → vm'.frames.length ≤ vm.frames.length) := by
  rcases step_frames limit fns vm vm' h with h1 | ⟨c, h1⟩ | ⟨c, h1, f, n, hc⟩
  · rw [h1]; exact ⟨by omega, fun _ => by omega⟩
  · rw [h1]; exact ⟨by simp; omega, fun _ => by simp⟩
  · rw [h1]; exact ⟨by simp, fun hne => absurd hc (hne f n)⟩


/-! ## Calls in tail position are compiled to tail calls -/

theorem hasCall_append (a b : List Instr) : hasCall (a ++ b) = (hasCall a || hasCall b) := by
  simp [hasCall, List.any_append]

theorem hasCall_cons (i : Instr) (l : List Instr) : hasCall (i :: l) = (isCall i || hasCall l) := by
  simp [hasCall]

theorem hasCall_nil : hasCall [] = false := rfl

theorem compile_noCall : ∀ (e : IR), TailOnly.noCall e = true → hasCall (compile e) = false
  | .const _, _ => by simp only [compile, hasCall_cons, hasCall_nil, isCall]; rfl
  | .loc _, _ => by simp only [compile, hasCall_cons, hasCall_nil, isCall]; rfl
  | .prim _ a b, h => by
      simp only [TailOnly.noCall, Bool.and_eq_true] at h
      simp only [compile, hasCall_append, hasCall_cons, hasCall_nil, isCall, compile_noCall a h.1,
        compile_noCall b h.2]; rfl
  | .ite c t e, h => by
      simp only [TailOnly.noCall, Bool.and_eq_true] at h
      simp only [compile, hasCall_append, hasCall_cons, hasCall_nil, isCall, compile_noCall c h.1.1,
        compile_noCall t h.1.2, compile_noCall e h.2]; rfl
  | .let1 e b, h => by
      simp only [TailOnly.noCall, Bool.and_eq_true] at h
      simp only [compile, hasCall_append, hasCall_cons, hasCall_nil, isCall, compile_noCall e h.1,
        compile_noCall b h.2]; rfl
  | .seq a b, h => by
      simp only [TailOnly.noCall, Bool.and_eq_true] at h
      simp only [compile, hasCall_append, hasCall_cons, hasCall_nil, isCall, compile_noCall a h.1,
        compile_noCall b h.2]; rfl
  | .setLoc _ e, h => by
      simp only [TailOnly.noCall] at h
      simp only [compile, hasCall_append, hasCall_cons, hasCall_nil, isCall, compile_noCall e h]; rfl
  | .call _ _, h => by simp [TailOnly.noCall] at h

theorem compileArgs_noCall : ∀ (args : List IR), TailOnly.noCallL args = true →
    hasCall (compile.compileArgsL args) = false
  | [], _ => by simp only [compile.compileArgsL, hasCall_nil]
  | a :: rest, h => by
      simp only [TailOnly.noCallL, Bool.and_eq_true] at h
      simp only [compile.compileArgsL, hasCall_append, compile_noCall a h.1, compileArgs_noCall rest h.2]; rfl

/-- **Every call in tail position is compiled to a tail call**: when all calls of a procedure body are in
tail position, its code contains no frame-pushing call instruction at all. -/
theorem tail_positions_marked : ∀ (e : IR), TailOnly e = true → hasCall (compileTail e) = false
  | .const _, _ => by simp only [compileTail, compile, hasCall_append, hasCall_cons, hasCall_nil, isCall]; rfl
  | .loc _, _ => by simp only [compileTail, compile, hasCall_append, hasCall_cons, hasCall_nil, isCall]; rfl
  | .prim op a b, h => by
      simp only [TailOnly, Bool.and_eq_true] at h
      have := compile_noCall (.prim op a b) (by simp [TailOnly.noCall, h.1, h.2])
      simp only [compileTail, hasCall_append, hasCall_cons, hasCall_nil, isCall, this]; rfl
  | .ite c t e, h => by
      simp only [TailOnly, Bool.and_eq_true] at h
      simp only [compileTail, hasCall_append, hasCall_cons, hasCall_nil, isCall, compile_noCall c h.1.1,
        tail_positions_marked t h.1.2, tail_positions_marked e h.2]; rfl
  | .let1 e b, h => by
      simp only [TailOnly, Bool.and_eq_true] at h
      simp only [compileTail, hasCall_append, compile_noCall e h.1, tail_positions_marked b h.2]; rfl
  | .seq a b, h => by
      simp only [TailOnly, Bool.and_eq_true] at h
      simp only [compileTail, hasCall_append, hasCall_cons, hasCall_nil, isCall, compile_noCall a h.1,
        tail_positions_marked b h.2]; rfl
  | .setLoc i e, h => by
      simp only [TailOnly] at h
      have := compile_noCall (.setLoc i e) (by simp [TailOnly.noCall, h])
      simp only [compileTail, hasCall_append, hasCall_cons, hasCall_nil, isCall, this]; rfl
  | .call f args, h => by
      simp only [TailOnly] at h
      simp only [compileTail, hasCall_append, hasCall_cons, hasCall_nil, isCall, compileArgs_noCall args h]; rfl


/-! ## A program that only calls in tail position runs at constant frame depth -/

theorem stepVM_shape (fns : List FnDef) (vm vm' : VM) (h : stepVM fns vm = .next vm')
    (hnc : ∀ f n, vm.cur.code[vm.cur.ip]? ≠ some (.call f n))
    (hnt : ∀ f n, vm.cur.code[vm.cur.ip]? ≠ some (.tailCall f n)) :
    (vm'.frames = vm.frames ∧ vm'.cur.code = vm.cur.code) ∨
    (∃ c, vm.frames = c :: vm'.frames ∧ vm'.cur.code = c.code) := by
  unfold stepVM at h
  cases hi : vm.cur.code[vm.cur.ip]? with
  | none => simp [hi] at h
  | some ins =>
    simp only [hi] at h
    cases ins
    case call f n => exact absurd hi (hnc f n)
    case tailCall f n => exact absurd hi (hnt f n)
    all_goals
      simp only at h
      (repeat' split at h)
    all_goals first
      | (cases h; done)
      | (simp only [StepRes.next.injEq] at h; subst h
         first
           | (left; exact ⟨rfl, rfl⟩)
           | (right; rename_i c rest hfr; exact ⟨c, hfr, rfl⟩))

/-- No code that the VM can ever execute contains a frame-pushing call. -/
def CodeOk (fns : List FnDef) (vm : VM) : Prop :=
  hasCall vm.cur.code = false ∧ (∀ fr ∈ vm.frames, hasCall fr.code = false) ∧
  (∀ fd ∈ fns, hasCall (codeOf fd) = false)

theorem not_call_of_hasCall {code : List Instr} (h : hasCall code = false) (ip f n : Nat) :
    code[ip]? ≠ some (.call f n) := by
  intro hc
  have hmem : Instr.call f n ∈ code := List.mem_of_getElem? hc
  have : hasCall code = true := by
    simp only [hasCall, List.any_eq_true]
    exact ⟨_, hmem, rfl⟩
  rw [h] at this; cases this

theorem step_codeOk (limit : Nat) (fns : List FnDef) (vm vm' : VM) (hok : CodeOk fns vm)
    (h : step limit fns vm = .next vm') : CodeOk fns vm' ∧ vm'.frames.length ≤ vm.frames.length := by
  obtain ⟨h1, h2, h3⟩ := hok
  have hnc := not_call_of_hasCall h1 vm.cur.ip
  unfold step at h
  cases hi : vm.cur.code[vm.cur.ip]? with
  | none => simp [hi] at h
  | some ins =>
    simp only [hi] at h
    cases ins
    case call f n => exact absurd hi (hnc f n)
    case tailCall f n =>
      simp only at h
      cases hf : fns[f]? with
      | none => simp [hf] at h
      | some fd =>
        simp only [hf] at h
        split at h
        · cases h
        · simp only [Res.next.injEq] at h; subst h
          exact ⟨⟨h3 fd (List.mem_of_getElem? hf), h2, h3⟩, by simp⟩
    all_goals
      simp only at h
      split at h
      · rename_i vm2 hs
        simp only [Res.next.injEq] at h; subst h
        rcases stepVM_shape fns vm vm2 hs (by rw [hi]; intro f n hc; cases hc) (by rw [hi]; intro f n hc; cases hc)
          with ⟨e1, e2⟩ | ⟨c, e1, e2⟩
        · exact ⟨⟨by rw [e2]; exact h1, by rw [e1]; exact h2, h3⟩, by rw [e1]; omega⟩
        · refine ⟨⟨by rw [e2]; exact h2 c (by rw [e1]; simp), ?_, h3⟩, by rw [e1]; simp⟩
          intro fr hfr; exact h2 fr (by rw [e1]; simp [hfr])
      · cases h
      · cases h

theorem steps_codeOk (limit : Nat) (fns : List FnDef) : ∀ (n : Nat) (vm vm' : VM), CodeOk fns vm →
    steps limit fns n vm = some vm' → CodeOk fns vm' ∧ vm'.frames.length ≤ vm.frames.length := by
  intro n
  induction n with
  | zero => intro vm vm' hok h; simp [steps] at h; subst h; exact ⟨hok, by omega⟩
  | succ n ih =>
    intro vm vm' hok h
    simp only [steps] at h
    cases hs : step limit fns vm with
    | next vm1 =>
      rw [hs] at h
      obtain ⟨hok1, hl1⟩ := step_codeOk limit fns vm vm1 hok hs
      obtain ⟨hok2, hl2⟩ := ih vm1 vm' hok1 h
      exact ⟨hok2, by omega⟩
    | halt v => rw [hs] at h; cases h
    | overflow => rw [hs] at h; cases h
    | stuck => rw [hs] at h; cases h

/-- The initial state of a program with main expression `e` (compiled tail-aware). -/
def initT (e : IR) : VM := { cur := { code := compileTail e, ip := 0, stack := [] }, frames := [] }

/-- **Loops written as tail recursion run at constant frame depth, for any number of iterations.**
If every call in the main expression and in every procedure body is in tail position (self recursion,
mutual recursion among any number of procedures, calls in conditionals, let bodies and `begin` tails), then
no state reachable after ANY number of steps has a suspended caller: the frame stack never grows. -/
theorem loop_constant_space (limit : Nat) (fns : List FnDef) (e : IR)
    (hmain : TailOnly e = true) (hfns : ∀ fd ∈ fns, TailOnly fd.body = true)
    (n : Nat) (vm' : VM) (h : steps limit fns n (initT e) = some vm') : vm'.frames = [] := by
  have hok : CodeOk fns (initT e) :=
    ⟨tail_positions_marked e hmain, by simp [initT], fun fd hfd => tail_positions_marked fd.body (hfns fd hfd)⟩
  have := (steps_codeOk limit fns n (initT e) vm' hok h).2
  have h0 : (initT e).frames.length = 0 := rfl
  rw [h0] at this
  exact List.eq_nil_of_length_eq_zero (by omega)

/-- … and the operand stack of the reused frame is reset to exactly the arguments at every iteration
(`tailcall_reuses_frame`), so it is bounded by the arity plus the temporaries of one body evaluation. -/
theorem maxDepth_constant (limit : Nat) (fns : List FnDef) :
    ∀ (n : Nat) (vm : VM), CodeOk fns vm → maxDepth limit fns n vm = vm.frames.length + 1 := by
  intro n
  induction n with
  | zero => intro vm _; rfl
  | succ n ih =>
    intro vm hok
    simp only [maxDepth]
    cases hs : step limit fns vm with
    | next vm1 =>
      obtain ⟨hok1, hl1⟩ := step_codeOk limit fns vm vm1 hok hs
      simp only [ih vm1 hok1]; omega
    | halt v => rfl
    | overflow => rfl
    | stuck => rfl

/-! ## The frame limit -/

/-- The number of frames never exceeds the limit … -/
theorem depth_bounded (limit : Nat) (fns : List FnDef) (vm vm' : VM)
    (hb : vm.frames.length + 1 ≤ limit) (h : step limit fns vm = .next vm') :
    vm'.frames.length + 1 ≤ limit := by
  by_cases hc : ∃ f n, vm.cur.code[vm.cur.ip]? = some (.call f n)
  · obtain ⟨f, n, hi⟩ := hc
    unfold step at h
    simp only [hi] at h
    cases hf : fns[f]? with
    | none => simp [hf] at h
    | some fd =>
      simp only [hf] at h
      split at h
      · cases h
      · split at h
        · cases h
        · rename_i hlim
          simp only [Res.next.injEq] at h; subst h
          simp; omega
  · have := (step_depth limit fns vm vm' h).2 (by intro f n hi; exact hc ⟨f, n, hi⟩)
    omega

/-- … and a non-tail call at the limit is an error value (`overflow`), not a crash: the step is defined. -/
theorem call_at_limit_overflows (limit : Nat) (fns : List FnDef) (vm : VM) (f n : Nat) (fd : FnDef)
    (hi : vm.cur.code[vm.cur.ip]? = some (.call f n)) (hf : fns[f]? = some fd)
    (ha : fd.arity = n) (hl : n ≤ vm.cur.stack.length) (hlim : limit ≤ vm.frames.length + 1) :
    step limit fns vm = .overflow := by
  have hc : ¬ (fd.arity ≠ n ∨ vm.cur.stack.length < n) := by omega
  simp [step, hi, hf, hc]; omega

/-! ## Non-vacuity -/

/-- `(define (loop n acc) (if (<= n 0) acc (loop (- n 1) (+ acc n))))`: all calls in tail position. -/
def loopFn : FnDef :=
  { arity := 2,
    body := .ite (.prim .le (.loc 0) (.const (.int 0))) (.loc 1)
              (.call 0 [.prim .sub (.loc 0) (.const (.int 1)), .prim .add (.loc 1) (.loc 0)]) }

example : TailOnly loopFn.body = true := by decide
example : TailOnly (IR.call 0 [.const (.int 40), .const (.int 0)]) = true := by decide
/-- 40 iterations at depth 1 (and by `loop_constant_space` any number). -/
example : run 100 [loopFn] 2000 (initT (.call 0 [.const (.int 40), .const (.int 0)])) = .halt (.int 820) := by
  decide +kernel
/-- Non-tail recursion `(define (deep n) (if (<= n 0) 0 (+ 1 (deep (- n 1)))))` beyond the limit. -/
def deepFn : FnDef :=
  { arity := 1,
    body := .ite (.prim .le (.loc 0) (.const (.int 0))) (.const (.int 0))
              (.prim .add (.const (.int 1)) (.call 0 [.prim .sub (.loc 0) (.const (.int 1))])) }
example : run 5 [deepFn] 2000 (initT (.call 0 [.const (.int 3)])) = .halt (.int 3) := by decide +kernel
example : run 5 [deepFn] 2000 (initT (.call 0 [.const (.int 30)])) = .overflow := by decide +kernel

end SteelVerif.C09
