/-
C09 on the core with closures — a static bound on the operand-stack height of tail-only programs.

Within a frame the instruction pointer only grows (jumps at instruction boundaries are forward: rule `fwd`) until the
next tail call, and every instruction adds at most one operand; every entry into a closure body (call or tail call)
starts at `sp + (at most maxN + 1)` operands (rules `payload`, `word`, `func`).  Hence, in every reachable configuration,
`stack.length ≤ sp + (maxN + 1) + maxLen` inside a body and `≤ maxLen` at top level, with `sp < maxLen`:
at most `2·maxLen + maxN + 1` operands, whatever the number of iterations (`Num`, `num_step`).
-/
import SteelVerif.C09.CoreSrc2
namespace SteelVerif.C09C.T
open SteelVerif.C01C SteelVerif.C09C

def Num (ps : Params) (c : Cfg) : Prop :=
  match c.frames with
  | [] => c.stack.length ≤ c.ip ∧ c.stack.length ≤ ps.maxLen
  | [fr] => fr.sp + 1 ≤ fr.retIp ∧ fr.sp + 1 ≤ ps.maxLen ∧ c.stack.length ≤ fr.sp + (ps.maxN + 1) + c.ip ∧
      c.stack.length ≤ fr.sp + (ps.maxN + 1) + ps.maxLen
  | _ :: _ :: _ => True

variable {ps : Params}

theorem Inv.lenrule {c : Cfg} (h : Inv ps c) : c.code.length ≤ ps.maxLen := h.code.1.rules.len

/-- A step inside the same frame: the pointer grows, at most one operand more. -/
theorem num_simple {c : Cfg} (hinv : Inv ps c) (hn : Num ps c) {x : Instr} (hi : c.code[c.ip]? = some x)
    (ip' : Nat) (s' : List VVal) (st' : St (List Instr)) (hip : c.ip < ip') (hlen : s'.length ≤ c.stack.length + 1) :
    Num ps { c with ip := ip', stack := s', st := st' } := by
  have hl := lt_of_get' hi
  have hml := hinv.lenrule
  unfold Num at hn ⊢
  match hf : c.frames with
  | [] => rw [hf] at hn; simp only [hf]; exact ⟨by omega, by omega⟩
  | [fr] => rw [hf] at hn; simp only [hf]; exact ⟨hn.1, hn.2.1, by omega, by omega⟩
  | _ :: _ :: _ => simp only [hf]

theorem num_doRet {c c2 c' : Cfg} (hn : Num ps c) (hle : c.frames.length ≤ 1) (hf : c2.frames = c.frames)
    (hs : doRet c2 = .next c') : Num ps c' := by
  unfold doRet at hs
  cases hl : c2.stack.getLast? with
  | none => simp [hl] at hs
  | some v =>
    simp only [hl] at hs
    unfold Num at hn
    match hfm : c.frames with
    | [] => rw [hf, hfm] at hs; simp at hs
    | [fr] =>
      rw [hfm] at hn
      rw [hf, hfm] at hs
      simp only at hs
      split at hs
      · cases hs
      · simp only [StepRes.next.injEq] at hs; subst hs
        simp only [Num, List.length_append, List.length_take, List.length_singleton]
        exact ⟨by omega, by omega⟩
    | a :: b :: rest => rw [hfm] at hle; simp at hle

theorem bindArgs_len {α : Type} {a : Nat} {r : Bool} {args locals : List (V α)}
    (h : bindArgs a r args = .ok locals) : locals.length ≤ args.length + 1 := by
  unfold bindArgs at h
  cases r
  · simp at h; split at h
    · simp at h; subst h; omega
    · cases h
  · simp at h
    split at h
    · cases h
    · simp at h; subst h; simp; omega

theorem num_callFn {c c' : Cfg} (hinv : Inv ps c) (hn : Num ps c) {x : Instr} (hi : c.code[c.ip]? = some x)
    (stack : List VVal) (hstk : stack.length ≤ c.stack.length) (f : VVal) (n ret : Nat) (hret : c.ip < ret)
    (hnn : n ≤ ps.maxN) (htopret : c.frames = [] → stack.length + 1 ≤ ret)
    (htoplen : c.frames = [] → stack.length + 1 ≤ ps.maxLen)
    (hs : callFn c stack f n ret = .next c') : Num ps c' := by
  unfold callFn at hs
  cases hsp : splitLast n stack with
  | none => simp [hsp] at hs
  | some p =>
    obtain ⟨below, args⟩ := p
    obtain ⟨hsplit, hlen, _⟩ := splitLast_some hsp
    have hbl : below.length + n = stack.length := by rw [hsplit]; simp; omega
    simp only [hsp] at hs
    cases f with
    | prim p =>
      simp only at hs
      cases hp : p.apply args with
      | ok r =>
        simp only [hp, StepRes.next.injEq] at hs; subst hs
        exact num_simple hinv hn hi _ _ _ hret (by simp; omega)
      | err e => simp [hp] at hs
      | timeout => simp [hp] at hs
    | clo a r body caps =>
      simp only at hs
      cases hbd : bindArgs a r args with
      | ok locals =>
        simp only [hbd, StepRes.next.injEq] at hs; subst hs
        have hll := bindArgs_len hbd
        match hf : c.frames with
        | [] =>
          have h1 := htopret hf
          have h2 := htoplen hf
          simp only [Num, hf, List.length_append]
          exact ⟨by omega, by omega, by omega, by omega⟩
        | [fr] => simp [Num, hf]
        | _ :: _ :: rest => simp [Num, hf]
      | err e => simp [hbd] at hs
      | timeout => simp [hbd] at hs
    | int _ => simp at hs
    | bool _ => simp at hs
    | void => simp at hs
    | box _ => simp at hs
    | list _ => simp at hs

theorem num_tailFn {c c' : Cfg} (hinv : Inv ps c) (hn : Num ps c) {x : Instr} (hi : c.code[c.ip]? = some x)
    (stack : List VVal) (hstk : stack.length ≤ c.stack.length) (f : VVal) (n : Nat) (pr : Bool) (nx : Nat)
    (hnx : c.ip < nx) (hnn : n ≤ ps.maxN) (hs : tailFn c stack f n pr nx = .next c') : Num ps c' := by
  unfold tailFn at hs
  cases hsp : splitLast n stack with
  | none => simp [hsp] at hs
  | some p =>
    obtain ⟨below, args⟩ := p
    obtain ⟨hsplit, hlen, _⟩ := splitLast_some hsp
    have hbl : below.length + n = stack.length := by rw [hsplit]; simp; omega
    simp only [hsp] at hs
    cases f with
    | prim p =>
      simp only at hs
      cases hp : p.apply args with
      | ok r =>
        simp only [hp] at hs
        cases pr
        · simp only [Bool.false_eq_true, if_false, StepRes.next.injEq] at hs; subst hs
          exact num_simple hinv hn hi _ _ _ hnx (by simp; omega)
        · simp only [if_true] at hs
          exact num_doRet (c2 := { c with stack := below ++ [r] }) hn hinv.len rfl hs
      | err e => simp [hp] at hs
      | timeout => simp [hp] at hs
    | clo a r body caps =>
      simp only at hs
      cases hbd : bindArgs a r args with
      | ok locals =>
        simp only [hbd] at hs
        have hll := bindArgs_len hbd
        unfold Num at hn
        match hfm : c.frames with
        | [] => rw [hfm] at hs; simp at hs
        | [fr] =>
          rw [hfm] at hs hn
          simp only at hs
          split at hs
          · cases hs
          · simp only [StepRes.next.injEq] at hs; subst hs
            simp only [Num, List.length_append, List.length_take]
            exact ⟨hn.1, hn.2.1, by omega, by omega⟩
        | a :: b :: rest =>
          rw [hfm] at hs
          simp only at hs
          split at hs
          · cases hs
          · simp only [StepRes.next.injEq] at hs; subst hs; simp [Num]
      | err e => simp [hbd] at hs
      | timeout => simp [hbd] at hs
    | int _ => simp at hs
    | bool _ => simp at hs
    | void => simp at hs
    | box _ => simp at hs
    | list _ => simp at hs

end SteelVerif.C09C.T
