/-
C09 on the core with closures — `num_step`: the operand-stack bound `Num` is preserved by every instruction (given the
well-formedness invariant `T.Inv`).
-/
import SteelVerif.C09.CoreStack
namespace SteelVerif.C09C.T
open SteelVerif.C01C SteelVerif.C09C

variable {ps : Params}

theorem num_step {c c' : Cfg} (hinv : Inv ps c) (hn : Num ps c) (hs : step c = .next c') : Num ps c' := by
  cases hi : c.code[c.ip]? with
  | none => simp [step, hi] at hs
  | some ins =>
    have hlt := lt_of_get' hi
    cases ins with
    | PUSHCONST k =>
      simp only [step, hi, StepRes.next.injEq] at hs; subst hs
      exact num_simple hinv hn hi _ _ _ (by omega) (by simp)
    | LOADINT0 =>
      simp only [step, hi, StepRes.next.injEq] at hs; subst hs
      exact num_simple hinv hn hi _ _ _ (by omega) (by simp)
    | LOADINT1 =>
      simp only [step, hi, StepRes.next.injEq] at hs; subst hs
      exact num_simple hinv hn hi _ _ _ (by omega) (by simp)
    | LOADINT2 =>
      simp only [step, hi, StepRes.next.injEq] at hs; subst hs
      exact num_simple hinv hn hi _ _ _ (by omega) (by simp)
    | TRUE =>
      simp only [step, hi, StepRes.next.injEq] at hs; subst hs
      exact num_simple hinv hn hi _ _ _ (by omega) (by simp)
    | FALSE =>
      simp only [step, hi, StepRes.next.injEq] at hs; subst hs
      exact num_simple hinv hn hi _ _ _ (by omega) (by simp)
    | VOID =>
      simp only [step, hi, StepRes.next.injEq] at hs; subst hs
      exact num_simple hinv hn hi _ _ _ (by omega) (by simp)
    | PUSH g =>
      simp only [step, hi] at hs
      cases hg : lookupG g c.st.globals with
      | none => simp [hg] at hs
      | some v =>
        simp only [hg, StepRes.next.injEq] at hs; subst hs
        exact num_simple hinv hn hi _ _ _ (by omega) (by simp)
    | READLOCAL i =>
      simp only [step, hi] at hs
      cases hv : c.stack[spOf c.frames + i]? with
      | none => simp [hv] at hs
      | some v =>
        simp only [hv, StepRes.next.injEq] at hs; subst hs
        exact num_simple hinv hn hi _ _ _ (by omega) (by simp)
    | MOVEREADLOCAL i =>
      simp only [step, hi] at hs
      cases hv : c.stack[spOf c.frames + i]? with
      | none => simp [hv] at hs
      | some v =>
        simp only [hv, StepRes.next.injEq] at hs; subst hs
        exact num_simple hinv hn hi _ _ _ (by omega) (by simp)
    | READCAPTURED i =>
      simp only [step, hi] at hs
      cases hv : (capsOf c.frames)[i]? with
      | none => simp [hv] at hs
      | some v =>
        simp only [hv, StepRes.next.injEq] at hs; subst hs
        exact num_simple hinv hn hi _ _ _ (by omega) (by simp)
    | SETLOCAL i =>
      simp only [step, hi] at hs
      cases hl : c.stack.getLast? with
      | none => simp [hl] at hs
      | some v =>
        simp only [hl] at hs
        cases ho : c.stack.dropLast[spOf c.frames + i]? with
        | none => simp [ho] at hs
        | some old =>
          simp only [ho, StepRes.next.injEq] at hs; subst hs
          exact num_simple hinv hn hi _ _ _ (by omega) (by simp <;> omega)
    | IF t =>
      simp only [step, hi] at hs
      cases hl : c.stack.getLast? with
      | none => simp [hl] at hs
      | some v =>
        simp only [hl] at hs
        split at hs
        · simp only [StepRes.next.injEq] at hs; subst hs
          exact num_simple hinv hn hi _ _ _ (by omega) (by simp <;> omega)
        · simp only [StepRes.next.injEq] at hs; subst hs
          exact num_simple hinv hn hi _ _ _ (hinv.code.1.rules.fwd _ t (hinv.top hi) (Or.inl hi)) (by simp <;> omega)
    | JMP t =>
      simp only [step, hi, StepRes.next.injEq] at hs; subst hs
      exact num_simple hinv hn hi _ _ _ (hinv.code.1.rules.fwd _ t (hinv.top hi) (Or.inr hi)) (by simp)
    | POPJMP =>
      simp only [step, hi] at hs
      exact num_doRet hn hinv.len rfl hs
    | POPPURE =>
      simp only [step, hi] at hs
      exact num_doRet hn hinv.len rfl hs
    | PUREFUNC s =>
      simp only [step, hi] at hs
      split at hs
      · split at hs
        · cases hs
        · simp only [StepRes.next.injEq] at hs; subst hs
          exact num_simple hinv hn hi _ _ _ (by omega) (by simp)
      · cases hs
    | NEWSCLOSURE s =>
      simp only [step, hi] at hs
      split at hs
      · split at hs
        · cases hs
        · split at hs
          · split at hs
            · simp only [StepRes.next.injEq] at hs; subst hs
              exact num_simple hinv hn hi _ _ _ (by omega) (by simp)
            · cases hs
          · cases hs
      · cases hs
    | PASS p =>
      simp only [step, hi, StepRes.next.injEq] at hs; subst hs
      exact num_simple hinv hn hi _ _ _ (by omega) (by simp)
    | NDEFS n => simp [step, hi] at hs
    | COPYCAPTURESTACK i => simp [step, hi] at hs
    | COPYCAPTURECLOSURE i => simp [step, hi] at hs
    | ECLOSURE a => simp [step, hi] at hs
    | NEWBOX =>
      simp only [step, hi] at hs
      cases hsp : splitLast BoxOp.new.arity c.stack with
      | none => simp [hsp] at hs
      | some p =>
        obtain ⟨below, args⟩ := p
        obtain ⟨hsplit, _, _⟩ := splitLast_some hsp
        simp only [hsp] at hs
        cases hap : BoxOp.new.apply args c.st with
        | ok q =>
          obtain ⟨r, st'⟩ := q
          simp only [hap, StepRes.next.injEq] at hs; subst hs
          exact num_simple hinv hn hi _ _ _ (by omega) (by rw [hsplit]; simp <;> omega)
        | err e => simp [hap] at hs
        | timeout => simp [hap] at hs
    | UNBOX =>
      simp only [step, hi] at hs
      cases hsp : splitLast BoxOp.get.arity c.stack with
      | none => simp [hsp] at hs
      | some p =>
        obtain ⟨below, args⟩ := p
        obtain ⟨hsplit, _, _⟩ := splitLast_some hsp
        simp only [hsp] at hs
        cases hap : BoxOp.get.apply args c.st with
        | ok q =>
          obtain ⟨r, st'⟩ := q
          simp only [hap, StepRes.next.injEq] at hs; subst hs
          exact num_simple hinv hn hi _ _ _ (by omega) (by rw [hsplit]; simp <;> omega)
        | err e => simp [hap] at hs
        | timeout => simp [hap] at hs
    | SETBOX =>
      simp only [step, hi] at hs
      cases hsp : splitLast BoxOp.set.arity c.stack with
      | none => simp [hsp] at hs
      | some p =>
        obtain ⟨below, args⟩ := p
        obtain ⟨hsplit, _, _⟩ := splitLast_some hsp
        simp only [hsp] at hs
        cases hap : BoxOp.set.apply args c.st with
        | ok q =>
          obtain ⟨r, st'⟩ := q
          simp only [hap, StepRes.next.injEq] at hs; subst hs
          exact num_simple hinv hn hi _ _ _ (by omega) (by rw [hsplit]; simp <;> omega)
        | err e => simp [hap] at hs
        | timeout => simp [hap] at hs
    | FUNC n =>
      simp only [step, hi] at hs
      cases hl : c.stack.getLast? with
      | none => simp [hl] at hs
      | some f =>
        simp only [hl] at hs
        have hne : c.stack ≠ [] := by intro h; simp [h] at hl
        have hdl : c.stack.dropLast.length + 1 = c.stack.length := by
          simp; have := List.length_pos_iff.2 hne; omega
        have hnn := (hinv.code.1.rules.func _ n (hinv.top hi) hi).2
        refine num_callFn hinv hn hi _ (by omega) f n _ (by omega) hnn ?_ ?_ hs
        · intro hf; unfold Num at hn; rw [hf] at hn; omega
        · intro hf; unfold Num at hn; rw [hf] at hn; omega
    | TAILCALL n =>
      simp only [step, hi] at hs
      cases hl : c.stack.getLast? with
      | none => simp [hl] at hs
      | some f =>
        simp only [hl] at hs
        exact num_tailFn hinv hn hi _ (by simp) f n _ _ (by omega)
          (hinv.code.1.rules.payload _ n (hinv.top hi) (Or.inl hi)) hs
    | TCOJMP n =>
      simp only [step, hi] at hs
      have hnn := hinv.code.1.rules.payload _ n (hinv.top hi) (Or.inr hi)
      unfold Num at hn
      match hfm : c.frames with
      | [] => rw [hfm] at hs; simp at hs
      | [fr] =>
        rw [hfm] at hs hn
        simp only at hs
        cases hsp : splitLast n c.stack with
        | none => simp [hsp] at hs
        | some p =>
          obtain ⟨below, args⟩ := p
          obtain ⟨_, hlen, _⟩ := splitLast_some hsp
          simp only [hsp] at hs
          cases hbd : bindArgs fr.arity fr.rest args with
          | ok locals =>
            simp only [hbd] at hs
            have hll := bindArgs_len hbd
            split at hs
            · cases hs
            · simp only [StepRes.next.injEq] at hs; subst hs
              simp only [Num, hfm, List.length_append, List.length_take]
              exact ⟨hn.1, hn.2.1, by omega, by omega⟩
          | err e => simp [hbd] at hs
          | timeout => simp [hbd] at hs
      | a :: b :: rest => have := hinv.len; rw [hfm] at this; simp at this
    | CALLGLOBAL g =>
      simp only [step, hi] at hs
      cases hg : lookupG g c.st.globals with
      | none => simp [hg] at hs
      | some f =>
        simp only [hg] at hs
        split at hs
        · rename_i n h2
          have hnn := hinv.code.1.rules.word _ g n (hinv.top hi) (Or.inr hi) (Or.inr h2)
          have hml := hinv.lenrule
          refine num_callFn hinv hn hi _ (Nat.le_refl _) f n _ (by omega) hnn ?_ ?_ hs
          · intro hf; unfold Num at hn; rw [hf] at hn; omega
          · intro hf; unfold Num at hn; rw [hf] at hn; omega
        · cases hs
    | CALLGLOBALTAIL g =>
      simp only [step, hi] at hs
      cases hg : lookupG g c.st.globals with
      | none => simp [hg] at hs
      | some f =>
        simp only [hg] at hs
        split at hs
        · rename_i n h2
          exact num_tailFn hinv hn hi _ (Nat.le_refl _) f n _ _ (by omega)
            (hinv.code.1.rules.word _ g n (hinv.top hi) (Or.inl hi) (Or.inl h2)) hs
        · cases hs
    | POPSINGLE =>
      simp only [step, hi, StepRes.next.injEq] at hs; subst hs
      exact num_simple hinv hn hi _ _ _ (by omega) (by simp <;> omega)
    | BEGINSCOPE =>
      simp only [step, hi, StepRes.next.injEq] at hs; subst hs
      exact num_simple hinv hn hi _ _ _ (by omega) (by simp)
    | LETVAR =>
      simp only [step, hi, StepRes.next.injEq] at hs; subst hs
      exact num_simple hinv hn hi _ _ _ (by omega) (by simp)
    | SDEF =>
      simp only [step, hi, StepRes.next.injEq] at hs; subst hs
      exact num_simple hinv hn hi _ _ _ (by omega) (by simp)
    | EDEF =>
      simp only [step, hi, StepRes.next.injEq] at hs; subst hs
      exact num_simple hinv hn hi _ _ _ (by omega) (by simp)
    | LETENDSCOPE n =>
      simp only [step, hi] at hs
      cases hl : c.stack.getLast? with
      | none => simp [hl] at hs
      | some v =>
        simp only [hl] at hs
        split at hs
        · cases hs
        · simp only [StepRes.next.injEq] at hs; subst hs
          exact num_simple hinv hn hi _ _ _ (by omega) (by simp <;> omega)
    | BIND g =>
      simp only [step, hi] at hs
      cases hl : c.stack.getLast? with
      | none => simp [hl] at hs
      | some v =>
        simp only [hl, StepRes.next.injEq] at hs; subst hs
        exact num_simple hinv hn hi _ _ _ (by omega) (by simp <;> omega)
    | SET g =>
      simp only [step, hi] at hs
      cases hl : c.stack.getLast? with
      | none => simp [hl] at hs
      | some v =>
        simp only [hl] at hs
        cases hg : lookupG g c.st.globals with
        | none => simp [hg] at hs
        | some old =>
          simp only [hg, StepRes.next.injEq] at hs; subst hs
          exact num_simple hinv hn hi _ _ _ (by omega) (by simp <;> omega)

end SteelVerif.C09C.T
