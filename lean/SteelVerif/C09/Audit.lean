import SteelVerif.C09.Props
open SteelVerif.C09
#print axioms tailcall_reuses_frame
#print axioms step_depth
#print axioms tail_positions_marked
#print axioms loop_constant_space
#print axioms maxDepth_constant
#print axioms depth_bounded
#print axioms call_at_limit_overflows
#print axioms loop_never_overflows
#print axioms loop_operand_stack_bounded
#print axioms frames_never_exceed_limit
#print axioms tail_loop_any_count
#print axioms deep_recursion_overflows
#print axioms SteelVerif.C09C.tail_positions_marked_core
#print axioms SteelVerif.C09C.nontail_app_is_func
#print axioms SteelVerif.C09C.step_frames_core
#print axioms SteelVerif.C09C.core_tail_loop_any_count
#print axioms SteelVerif.C09C.frames_never_exceed_limit_core
#print axioms SteelVerif.C09C.call_at_limit_overflows_core
#print axioms SteelVerif.C09C.tail_call_never_overflows_core
#print axioms SteelVerif.C09C.runLimited_eq_run
#print axioms SteelVerif.C09C.core_tail_loop_never_overflows
#print axioms SteelVerif.C09C.deep_recursion_errors_core
