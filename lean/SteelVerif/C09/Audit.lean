import SteelVerif.C09.Props
open SteelVerif.C09
#print axioms tailcall_reuses_frame
#print axioms step_depth
#print axioms tail_positions_marked
#print axioms loop_constant_space
#print axioms maxDepth_constant
#print axioms depth_bounded
#print axioms call_at_limit_overflows
#print axioms loop_never_overflows
#print axioms loop_operand_stack_bounded
#print axioms frames_never_exceed_limit
#print axioms tail_loop_any_count
#print axioms deep_recursion_overflows
