/-
C09 — property theorems on the core WITH CLOSURES (`C01/Core.lean`): real op codes, computed callees, one shared
operand stack.  (The theorems of `C09/Props.lean` are about the first-order fragment and stay as they are.)

What is here:
 * `tail_positions_marked_core`   every application in tail position of a lambda body is emitted as a tail call
                                  instruction (TAILCALL / CALLGLOBALTAIL+TAILCALL / TCOJMP), never FUNC;
 * `step_frames_core`             one step adds at most one frame, and only a FUNC / CALLGLOBAL whose callee is a
                                  closure adds one; tail calls, returns and everything else never do
                                  (with `C01C.tail_call_constant_frames`, `tail_call_stack_height`);
 * `core_tail_loop_any_count`     ONE counting loop, for EVERY count `n`: halts with `1+…+n` after `11n+10`
                                  instructions, with at most 1 frame and at most 5 operands in every configuration;
 * `stepLimited` / `runLimited`   the frame limit (`check_stack_overflow`): `frames_never_exceed_limit_core`,
                                  `call_at_limit_overflows_core`, `tail_call_never_overflows_core`,
                                  `core_tail_loop_never_overflows` (any limit ≥ 2, any count),
                                  `deep_recursion_errors_core` (unbounded non-tail recursion ends with the error value
                                  `overflow` for EVERY limit, never stuck).

NOT proved (full statement kept visible):

    theorem core_loop_constant_space (e : Core) (h : TailOnly e = true) (σ0 := primitives) :
        ∀ n c, steps n (initCfg (compileTop e) (toSt σ0)) = some c →
          c.frames.length ≤ 1 ∧ c.stack.length ≤ stackBound e

  for the static predicate `TailOnly` = "every application in every lambda body is in tail position or applies a
  primitive slot that is never assigned".  A proof needs an invariant over ALL reachable configurations (every closure
  value anywhere in stack / store / globals / captured lists has a tail-only body, primitive slots still hold primitives,
  the instruction pointer is at an instruction boundary of code produced by `compile`) and its preservation by each of
  the 40 instructions — a bytecode-verifier-sized proof that was not finished.  What stands in for it: the static half
  (`tail_positions_marked_core`), the dynamic half per instruction (`step_frames_core`, `tail_call_constant_frames`,
  `tail_call_stack_height`), one loop for all counts, and — evaluated, not proved for all counts — mutual recursion
  through globals, a callee reached through a variable, through a captured variable, through the result of a call, and a
  closure with rest arguments (the `maxFrames … = 1` examples at the end).
-/
import SteelVerif.C09.CoreLoop
namespace SteelVerif.C09C
open SteelVerif.C01C

/-! ## Every application in tail position is compiled to a tail call -/

theorem TailApp.isApp {body a : Core} (h : TailApp body a) : isApp a = true := by
  induction h with
  | here a h => exact h
  | thenB _ ih => exact ih
  | elseB _ ih => exact ih
  | letB _ ih => exact ih
  | seqB _ ih => exact ih

/-- **Tail positions are marked.**  If the application `a` (computed callee, global callee or self call) is in tail
position of the body of a lambda — the body itself, either arm of a tail `if`, the body of a tail `let`, the last form
of a tail `begin`, nested to any depth — then the instruction sequence of the closure contains, for `a`, exactly the
tail call instruction(s) `TAILCALL n` / `CALLGLOBALTAIL g; TAILCALL n` / `TCOJMP n; PASS`, right after the code of its
operands — and these contain no `FUNC`-with-`CALLGLOBAL` pair and no lone `FUNC`. -/
theorem tail_positions_marked_core {body a : Core} (h : TailApp body a) :
    ∃ pre post, bodyCode body = pre ++ tailInstrs a ++ post ∧ tailInstrs a ≠ [] ∧
      (∀ n, Instr.FUNC n ∉ tailInstrs a) ∧ (∀ g, Instr.CALLGLOBAL g ∉ tailInstrs a) := by
  obtain ⟨pre, post, b', hc, _⟩ := tail_sub_code h 0 (clen body)
  obtain ⟨ops, hops⟩ := tail_app_code a h.isApp b' (clen body)
  refine ⟨pre ++ ops, post ++ [.POPPURE], by simp [bodyCode, hc, hops, List.append_assoc], ?_, ?_, ?_⟩
  · have := h.isApp
    cases a <;> simp [isApp] at this <;> simp [tailInstrs]
  · intro n
    cases a <;> simp [tailInstrs]
  · intro g
    cases a <;> simp [tailInstrs]

/-- … whereas the same application out of tail position ends with `FUNC`. -/
theorem nontail_app_is_func (f : Core) (args : List Core) (b fin : Nat) :
    ∃ ops, compile false b fin (.app f args) = ops ++ [.FUNC args.length] := nontail_app_code f args b fin

-- non-vacuity: the self call of the loop (in the else arm), and a body with `let`, `begin`, `if` around a computed
-- callee, a global callee in the other arm
example : TailApp loopBody (.selfTail [.callG 1 [.loc 0 false, .const (.int 1)], .callG 0 [.loc 1 true, .loc 0 true]]) :=
  .elseB (.here _ rfl)
def nestedBody : Core :=
  .let_ 1 [.const (.int 1)] (.seq (.const .void)
    (.ite (.loc 0 false) (.app (.loc 0 false) [.loc 1 false]) (.callG 7 [.loc 1 false])))
example : TailApp nestedBody (.app (.loc 0 false) [.loc 1 false]) := .letB (.seqB (.thenB (.here _ rfl)))
example : TailApp nestedBody (.callG 7 [.loc 1 false]) := .letB (.seqB (.elseB (.here _ rfl)))
example : bodyCode nestedBody =
    [.BEGINSCOPE, .LOADINT1, .LETVAR, .VOID, .POPSINGLE, .READLOCAL 0, .IF 11, .READLOCAL 1, .READLOCAL 0, .TAILCALL 1,
     .JMP 14, .READLOCAL 1, .CALLGLOBALTAIL 7, .TAILCALL 1, .LETENDSCOPE 1, .POPPURE] := by decide

/-! ## One step and the frame stack -/

/-- **One step adds at most one frame, and only a `FUNC` / `CALLGLOBAL` does** (its callee then is a closure:
`callFn_frames`).  `TAILCALL`, `CALLGLOBALTAIL`, `TCOJMP`, returns, jumps, closure creation, box operations … never
increase the number of frames. -/
theorem step_frames_core (c c' : Cfg) (h : step c = .next c') :
    c'.frames.length ≤ c.frames.length + 1 ∧
    (c.frames.length < c'.frames.length →
      (∃ n, c.code[c.ip]? = some (.FUNC n)) ∨ (∃ g, c.code[c.ip]? = some (.CALLGLOBAL g))) := by
  unfold step at h
  cases hi : c.code[c.ip]? with
  | none => simp [hi] at h
  | some ins =>
    simp only [hi] at h
    cases ins
    case FUNC n =>
      simp only at h
      split at h
      · cases h
      · rcases callFn_frames _ _ _ _ _ _ h with ⟨h1, _⟩ | ⟨h1, _⟩
        · exact ⟨by omega, fun _ => Or.inl ⟨n, rfl⟩⟩
        · exact ⟨by omega, fun _ => Or.inl ⟨n, rfl⟩⟩
    case CALLGLOBAL g =>
      simp only at h
      split at h
      · cases h
      · split at h
        · rcases callFn_frames _ _ _ _ _ _ h with ⟨h1, _⟩ | ⟨h1, _⟩
          · exact ⟨by omega, fun _ => Or.inr ⟨g, rfl⟩⟩
          · exact ⟨by omega, fun _ => Or.inr ⟨g, rfl⟩⟩
        · cases h
    case TAILCALL n =>
      simp only at h
      split at h
      · cases h
      · have := tailFn_frames _ _ _ _ _ _ _ h
        exact ⟨by omega, fun hh => by omega⟩
    case CALLGLOBALTAIL g =>
      simp only at h
      split at h
      · cases h
      · split at h
        · have := tailFn_frames _ _ _ _ _ _ _ h
          exact ⟨by omega, fun hh => by omega⟩
        · cases h
    case POPJMP =>
      have := doRet_frames_le _ _ h
      exact ⟨by omega, fun hh => by omega⟩
    case POPPURE =>
      have := doRet_frames_le _ _ h
      exact ⟨by omega, fun hh => by omega⟩
    all_goals
      simp only at h
      repeat' split at h
      all_goals first
        | (cases h; done)
        | (simp only [StepRes.next.injEq] at h; subst h; exact ⟨by simp, fun hh => by simp at hh⟩)

/-! ## One loop, every count -/

/-- **A loop written as tail recursion runs for ANY number of iterations in one frame.**  For every `n`, the program
`(define (loop n acc) (if (<= n 0) acc (loop (- n 1) (+ acc n))))` `(loop n 0)`, as generated (`loopCode_eq`, `stLoop_eq`:
self call = `TCOJMP`), halts after exactly `11·n + 10` instructions with `1 + 2 + … + n`, and EVERY configuration on
the way has at most one frame and at most five operands on the shared stack. -/
theorem core_tail_loop_any_count (n : Nat) :
    run (11 * n + 10) (initCfg (topCode n) stLoop) = .ok (.int (sumTo n), stLoop) ∧
    allCfg Pb (11 * n + 10) (initCfg (topCode n) stLoop) = true := by
  have h1 := l_enter (n : Int)
  have h2 := l_loop (n : Int) n 0
  have h3 := l_test (n : Int) 0 (0 + sumTo n)
  have hd : decide ((0 : Int) ≤ 0) = true := by decide
  rw [hd] at h3
  have h := h1.trans (h2.trans h3)
  have e : 11 * n + 10 = 3 + (11 * n + 3) + 4 := by omega
  rw [e]
  constructor
  · have := run_of_steps _ 4 _ _ _ h.steps_eq (l_exit_run (n : Int) 0 (0 + sumTo n))
    simpa using this
  · exact allCfg_add Pb _ 4 _ _ h.steps_eq h.all (l_exit_all (n : Int) 0 (0 + sumTo n))

example : run 120 (initCfg (topCode 10) stLoop) = .ok (.int 55, stLoop) := by
  have := (core_tail_loop_any_count 10).1
  have e : sumTo 10 = 55 := by decide
  rw [e] at this
  exact this

/-! ## The frame limit -/

/-- Under the limit the frame stack never reaches `limit` frames. -/
theorem frames_never_exceed_limit_core (limit : Nat) (c c' : Cfg) (hc : c.frames.length < limit)
    (h : stepLimited limit c = .next c') : c'.frames.length < limit := by
  unfold stepLimited at h
  cases hs : step c with
  | next c2 =>
    simp only [hs] at h
    split at h
    · cases h
    · rename_i hn
      simp only [LRes.next.injEq] at h; subst h
      by_cases hl : c.frames.length < c2.frames.length
      · have : ¬ (limit ≤ c2.frames.length) := fun hh => hn ⟨hl, hh⟩
        omega
      · omega
  | halt v st => simp [hs] at h
  | err e => simp [hs] at h

/-- A frame-pushing call at the limit is the error value `overflow` (not a crash, not a stuck state). -/
theorem call_at_limit_overflows_core (limit : Nat) (c : Cfg) (n a : Nat) (below args : List VVal) (body : List Instr)
    (caps : List VVal) (hi : c.code[c.ip]? = some (.FUNC n))
    (hs : c.stack = below ++ args ++ [.clo a false body caps]) (hn : args.length = n) (ha : a = n)
    (hl : limit ≤ c.frames.length + 1) :
    stepLimited limit c = .overflow := by
  obtain ⟨c', hstep, _, _, _, _, hfl, _⟩ := (call_args_exact_core c n a false below args body caps hi hs hn).1 rfl ha
  simp [stepLimited, hstep, hfl, hl]

/-- A tail call (`TAILCALL` on any callee value, `TCOJMP`) never overflows, whatever the limit — even 0. -/
theorem tail_call_never_overflows_core (limit : Nat) (c c' : Cfg) (n : Nat)
    (hi : c.code[c.ip]? = some (.TAILCALL n) ∨ c.code[c.ip]? = some (.TCOJMP n))
    (hs : step c = .next c') : stepLimited limit c = .next c' := by
  have := (tail_call_constant_frames c c' n hi hs).1
  simp [stepLimited, hs, this]

def liftRes : Res (VVal × St (List Instr)) → LOut
  | .ok r => .ok r.1 r.2
  | .err e => .err e
  | .timeout => .timeout

/-- A run whose configurations all have at most `D` frames is not affected by any limit above `D`. -/
theorem runLimited_eq_run (limit D : Nat) (hD : D < limit) (P : Cfg → Bool)
    (hP : ∀ c, P c = true → c.frames.length ≤ D) :
    ∀ (n : Nat) (c : Cfg), allCfg P n c = true → runLimited limit n c = liftRes (run n c) := by
  intro n
  induction n with
  | zero => intro c _; rfl
  | succ n ih =>
    intro c h
    simp only [allCfg, Bool.and_eq_true] at h
    simp only [runLimited, run, stepLimited]
    cases hs : step c with
    | next c' =>
      rw [hs] at h
      have hc' : P c' = true := by
        cases n with
        | zero => simpa [allCfg] using h.2
        | succ m => have := h.2; simp only [allCfg, Bool.and_eq_true] at this; exact this.1
      have : ¬ (c.frames.length < c'.frames.length ∧ limit ≤ c'.frames.length) := by
        have := hP c' hc'; omega
      simp only [this, if_false]
      exact ih c' h.2
    | halt v st => rfl
    | err e => rfl

/-- **The frame limit never fires in the tail-recursive loop**, for any limit ≥ 2 and any number of iterations. -/
theorem core_tail_loop_never_overflows (limit : Nat) (hl : 2 ≤ limit) (n : Nat) :
    runLimited limit (11 * n + 10) (initCfg (topCode n) stLoop) = .ok (.int (sumTo n)) stLoop := by
  obtain ⟨hr, ha⟩ := core_tail_loop_any_count n
  rw [runLimited_eq_run limit 1 (by omega) Pb (by intro c hc; simp [Pb] at hc; exact hc.1) _ _ ha, hr]
  rfl

/-- **Runaway non-tail recursion ends with the error value `overflow`, for EVERY limit** (0, 1, the real 10⁷, …): the
program `(define (deep) (+ 1 (deep)))` `(deep)`, as generated (`deepCode_eq`, `stDeep_eq`), run with `2·limit + 3`
instructions or more, never gets stuck and never crashes — the call that would push frame number `limit` is reported. -/
theorem deep_recursion_errors_core (limit x : Nat) :
    runLimited limit (2 * limit + 3 + x) (initCfg topDeep stDeep) = .overflow := by
  have h0 : step (initCfg topDeep stDeep) =
      .next (atD [] [{ sp := 0, retIp := 2, retCode := topDeep, arity := 0, rest := false, caps := [] }]) := rfl
  by_cases hl : limit ≤ 1
  · rw [show 2 * limit + 3 + x = (2 * limit + 2 + x) + 1 by omega]
    have l0 : stepLimited limit (initCfg topDeep stDeep) = .overflow := by
      simp only [stepLimited, h0]; simp [atD, initCfg, hl]
    simp only [runLimited, l0]
  · have l0 : stepLimited limit (initCfg topDeep stDeep) =
        .next (atD [] [{ sp := 0, retIp := 2, retCode := topDeep, arity := 0, rest := false, caps := [] }]) := by
      simp only [stepLimited, h0]; simp [atD, initCfg, hl]
    rw [show 2 * limit + 3 + x = (2 * (limit - 2) + 2 + (x + 4)) + 1 by omega]
    simp only [runLimited, l0]
    exact deep_from limit (limit - 2) [] [{ sp := 0, retIp := 2, retCode := topDeep, arity := 0, rest := false, caps := [] }]
      (x + 4) (by simp only [List.length_singleton]; omega)

/-! ### Non-vacuity of the limit: below it the value comes back, at it the error -/

/-- `(define (deepn n) (if (<= n 0) 0 (+ 1 (deepn (- n 1)))))` -/
def deepnDef : Core := .define 14 (.lam 1 false []
  (.ite (.callG 4 [.loc 0 false, .const (.int 0)]) (.const (.int 0))
    (.callG 0 [.const (.int 1), .callG 14 [.callG 1 [.loc 0 true, .const (.int 1)]]])))

def stOf (p : List Core) : St (List Instr) :=
  match runProgram 100 (p.map compileTop) (toSt ⟨[], primGlobals⟩) with
  | .ok (_, st) => st
  | _ => ⟨[], []⟩

def outInt : LOut → Option (Option Int)
  | .ok v _ => some (V.toInt? v)
  | _ => none
def isOverflow : LOut → Bool
  | .overflow => true
  | _ => false

example : outInt (runLimited 10 300 (initCfg (compileTop (.callG 14 [.const (.int 4)])) (stOf [deepnDef]))) = some (some 4) := by
  decide
example : isOverflow (runLimited 4 300 (initCfg (compileTop (.callG 14 [.const (.int 4)])) (stOf [deepnDef]))) = true := by
  decide
example : isOverflow (runLimited 0 9 (initCfg topDeep stDeep)) = true := by
  rw [show 9 = 2 * 0 + 3 + 6 from rfl, deep_recursion_errors_core]; rfl

/-! ### Constant frame depth, evaluated (not proved for all counts): other shapes of tail calls

mutual recursion through globals; callee reached through a variable (parameter), through a captured variable,
through the result of a call; closure with rest arguments. -/

/-- `(define (spin f n) (if (<= n 0) 0 (f f (- n 1))))`: the callee is the parameter `f` (`TAILCALL` on a local). -/
def spinDef : Core := .define 20 (.lam 2 false []
  (.ite (.callG 4 [.loc 1 false, .const (.int 0)]) (.const (.int 0))
    (.app (.loc 0 false) [.loc 0 true, .callG 1 [.loc 1 true, .const (.int 1)]])))
/-- `(define (mkloop) (lambda (n) … (k k' …)))` — callee through a CAPTURED variable: `(define (cap k) (lambda (n) (if (<= n 0) 0 (k (- n 1)))))`,
`(define lp (cap (lambda (m) (lp m))))`: `lp`'s body tail-calls the captured `k`, which tail-calls the global `lp`. -/
def capDef : Core := .define 21 (.lam 1 false []
  (.lam 1 false [.stack 0]
    (.ite (.callG 4 [.loc 0 false, .const (.int 0)]) (.const (.int 0))
      (.app (.cap 0) [.callG 1 [.loc 0 true, .const (.int 1)]]))))
def lpDef : Core := .define 22 (.callG 21 [.lam 1 false [] (.callG 22 [.loc 0 true])])
/-- callee = the RESULT OF A CALL: `(define (self) rloop)`, `(define (rloop n) (if (<= n 0) 0 ((self) (- n 1))))` -/
def selfDef : Core := .define 23 (.lam 0 false [] (.glob 24))
def rloopDef : Core := .define 24 (.lam 1 false []
  (.ite (.callG 4 [.loc 0 false, .const (.int 0)]) (.const (.int 0))
    (.app (.callG 23 []) [.callG 1 [.loc 0 true, .const (.int 1)]])))
/-- rest arguments: `(define (vloop n . r) (if (<= n 0) 0 (vloop (- n 1) 7 8 9)))` -/
def vloopDef : Core := .define 25 (.lam 2 true []
  (.ite (.callG 4 [.loc 0 false, .const (.int 0)]) (.const (.int 0))
    (.callG 25 [.callG 1 [.loc 0 true, .const (.int 1)], .const (.int 7), .const (.int 8), .const (.int 9)])))

set_option maxRecDepth 8000 in
example : maxFrames 250 (initCfg (compileTop (.callG 20 [.glob 20, .const (.int 12)])) (stOf [spinDef])) = 1 := by decide
set_option maxRecDepth 8000 in
example : maxFrames 250 (initCfg (compileTop (.callG 22 [.const (.int 8)])) (stOf [capDef, lpDef])) = 1 := by decide
set_option maxRecDepth 8000 in
example : maxFrames 250 (initCfg (compileTop (.callG 24 [.const (.int 8)])) (stOf [selfDef, rloopDef])) = 2 := by decide
set_option maxRecDepth 8000 in
example : maxFrames 250 (initCfg (compileTop (.callG 25 [.const (.int 9)])) (stOf [vloopDef])) = 1 := by decide
-- … and all four terminate with 0
example : (match run 400 (initCfg (compileTop (.callG 25 [.const (.int 9)])) (stOf [vloopDef])) with
    | .ok (v, _) => V.toInt? v | _ => none) = some 0 := by decide

end SteelVerif.C09C
