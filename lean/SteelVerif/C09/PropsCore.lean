/-
C09 — property theorems on the core WITH CLOSURES (`C01/Core.lean`): real op codes, computed callees, one shared
operand stack.  (The theorems of `C09/Props.lean` are about the first-order fragment and stay as they are.)

What is here:
 * `tail_positions_marked_core`   every application in tail position of a lambda body is emitted as a tail call
                                  instruction (TAILCALL / CALLGLOBALTAIL+TAILCALL / TCOJMP), never FUNC;
 * `step_frames_core`             one step adds at most one frame, and only a FUNC / CALLGLOBAL whose callee is a
                                  closure adds one; tail calls, returns and everything else never do
                                  (with `C01C.tail_call_constant_frames`, `tail_call_stack_height`);
 * `core_tail_loop_any_count`     ONE counting loop, for EVERY count `n`: halts with `1+…+n` after `11n+10`
                                  instructions, with at most 1 frame and at most 5 operands in every configuration;
 * `stepLimited` / `runLimited`   the frame limit (`check_stack_overflow`): `frames_never_exceed_limit_core`,
                                  `call_at_limit_overflows_core`, `tail_call_never_overflows_core`,
                                  `core_tail_loop_never_overflows` (any limit ≥ 2, any count),
                                  `deep_recursion_errors_core` (unbounded non-tail recursion ends with the error value
                                  `overflow` for EVERY limit, never stuck).

`core_loop_constant_space` (general, at the end of this file) is proved by the bytecode-verifier route: an invariant over
ALL reachable configurations (`CoreWF.lean`: every closure value anywhere has a checked body, primitive slots hold
primitives, inside a body the instruction pointer is never on a `FUNC` word) preserved by each of the 40 instructions
(`CoreWFStep.lean`, `inv_step`).  The static predicate is `tailOnlyB` on the generated instruction sequences (decidable,
evaluated by `decide`; it applies to real listings read into `Instr` as well).  Proved: at most ONE frame in every
reachable configuration of every run (terminating or not), for closures flowing through parameters, captured variables,
boxes, globals, lists, with any arities and rest arguments; the frame limit never fires (`tail_only_never_overflows`);
at every loop head the operand stack is back at `sp + maxN + 1` (`tail_entry_height`).

LATER ADDITIONS (end of this file): the source-level predicate `T.TailOnlySrc` with `core_loop_constant_space_src`, and
the static bound on the operand stack in EVERY configuration, `core_loop_constant_space_and_stack_src` /
`core_loop_constant_space_and_stack` (`≤ 2·maxLen + maxN + 1`; a coarse bound from "forward jumps + one push per
instruction", not the exact height table).
-/
import SteelVerif.C09.CoreLoop
import SteelVerif.C09.CoreWFStep
import SteelVerif.C09.CoreSrc2
import SteelVerif.C09.CoreStack2
import SteelVerif.C09.CoreApply
namespace SteelVerif.C09C
open SteelVerif.C01C

/-! ## Every application in tail position is compiled to a tail call -/

theorem TailApp.isApp {body a : Core} (h : TailApp body a) : isApp a = true := by
  induction h with
  | here a h => exact h
  | thenB _ ih => exact ih
  | elseB _ ih => exact ih
  | letB _ ih => exact ih
  | seqB _ ih => exact ih

/-- **Tail positions are marked.**  If the application `a` (computed callee, global callee or self call) is in tail
position of the body of a lambda — the body itself, either arm of a tail `if`, the body of a tail `let`, the last form
of a tail `begin`, nested to any depth — then the instruction sequence of the closure contains, for `a`, exactly the
tail call instruction(s) `TAILCALL n` / `CALLGLOBALTAIL g; TAILCALL n` / `TCOJMP n; PASS`, right after the code of its
operands — and these contain no `FUNC`-with-`CALLGLOBAL` pair and no lone `FUNC`. -/
theorem tail_positions_marked_core {body a : Core} (h : TailApp body a) :
    ∃ pre post, bodyCode body = pre ++ tailInstrs a ++ post ∧ tailInstrs a ≠ [] ∧
      (∀ n, Instr.FUNC n ∉ tailInstrs a) ∧ (∀ g, Instr.CALLGLOBAL g ∉ tailInstrs a) := by
  obtain ⟨pre, post, b', hc, _⟩ := tail_sub_code h 0 (clen body)
  obtain ⟨ops, hops⟩ := tail_app_code a h.isApp b' (clen body)
  refine ⟨pre ++ ops, post ++ [.POPPURE], by simp [bodyCode, hc, hops, List.append_assoc], ?_, ?_, ?_⟩
  · have := h.isApp
    cases a <;> simp [isApp] at this <;> simp [tailInstrs]
  · intro n
    cases a <;> simp [tailInstrs]
  · intro g
    cases a <;> simp [tailInstrs]

/-- … whereas the same application out of tail position ends with `FUNC`. -/
theorem nontail_app_is_func (f : Core) (args : List Core) (b fin : Nat) :
    ∃ ops, compile false b fin (.app f args) = ops ++ [.FUNC args.length] := nontail_app_code f args b fin

-- non-vacuity: the self call of the loop (in the else arm), and a body with `let`, `begin`, `if` around a computed
-- callee, a global callee in the other arm
example : TailApp loopBody (.selfTail [.callG 1 [.loc 0 false, .const (.int 1)], .callG 0 [.loc 1 true, .loc 0 true]]) :=
  .elseB (.here _ rfl)
def nestedBody : Core :=
  .let_ 1 [.const (.int 1)] (.seq (.const .void)
    (.ite (.loc 0 false) (.app (.loc 0 false) [.loc 1 false]) (.callG 7 [.loc 1 false])))
example : TailApp nestedBody (.app (.loc 0 false) [.loc 1 false]) := .letB (.seqB (.thenB (.here _ rfl)))
example : TailApp nestedBody (.callG 7 [.loc 1 false]) := .letB (.seqB (.elseB (.here _ rfl)))
example : bodyCode nestedBody =
    [.BEGINSCOPE, .LOADINT1, .LETVAR, .VOID, .POPSINGLE, .READLOCAL 0, .IF 11, .READLOCAL 1, .READLOCAL 0, .TAILCALL 1,
     .JMP 14, .READLOCAL 1, .CALLGLOBALTAIL 7, .TAILCALL 1, .LETENDSCOPE 1, .POPPURE] := by decide

/-! ## One step and the frame stack -/

/-- **One step adds at most one frame, and only a `FUNC` / `CALLGLOBAL` does** (its callee then is a closure:
`callFn_frames`).  `TAILCALL`, `CALLGLOBALTAIL`, `TCOJMP`, returns, jumps, closure creation, box operations … never
increase the number of frames. -/
theorem step_frames_core (c c' : Cfg) (h : step c = .next c') :
    c'.frames.length ≤ c.frames.length + 1 ∧
    (c.frames.length < c'.frames.length →
      (∃ n, c.code[c.ip]? = some (.FUNC n)) ∨ (∃ g, c.code[c.ip]? = some (.CALLGLOBAL g))) := by
  unfold step at h
  cases hi : c.code[c.ip]? with
  | none => simp [hi] at h
  | some ins =>
    simp only [hi] at h
    cases ins
    case FUNC n =>
      simp only at h
      split at h
      · cases h
      · rcases callFn_frames _ _ _ _ _ _ h with ⟨h1, _⟩ | ⟨h1, _⟩
        · exact ⟨by omega, fun _ => Or.inl ⟨n, rfl⟩⟩
        · exact ⟨by omega, fun _ => Or.inl ⟨n, rfl⟩⟩
    case CALLGLOBAL g =>
      simp only at h
      split at h
      · cases h
      · split at h
        · rcases callFn_frames _ _ _ _ _ _ h with ⟨h1, _⟩ | ⟨h1, _⟩
          · exact ⟨by omega, fun _ => Or.inr ⟨g, rfl⟩⟩
          · exact ⟨by omega, fun _ => Or.inr ⟨g, rfl⟩⟩
        · cases h
    case TAILCALL n =>
      simp only at h
      split at h
      · cases h
      · have := tailFn_frames _ _ _ _ _ _ _ h
        exact ⟨by omega, fun hh => by omega⟩
    case CALLGLOBALTAIL g =>
      simp only at h
      split at h
      · cases h
      · split at h
        · have := tailFn_frames _ _ _ _ _ _ _ h
          exact ⟨by omega, fun hh => by omega⟩
        · cases h
    case POPJMP =>
      have := doRet_frames_le _ _ h
      exact ⟨by omega, fun hh => by omega⟩
    case POPPURE =>
      have := doRet_frames_le _ _ h
      exact ⟨by omega, fun hh => by omega⟩
    all_goals
      simp only at h
      repeat' split at h
      all_goals first
        | (cases h; done)
        | (simp only [StepRes.next.injEq] at h; subst h; exact ⟨by simp, fun hh => by simp at hh⟩)

/-! ## One loop, every count -/

/-- **A loop written as tail recursion runs for ANY number of iterations in one frame.**  For every `n`, the program
`(define (loop n acc) (if (<= n 0) acc (loop (- n 1) (+ acc n))))` `(loop n 0)`, as generated (`loopCode_eq`, `stLoop_eq`:
self call = `TCOJMP`), halts after exactly `11·n + 10` instructions with `1 + 2 + … + n`, and EVERY configuration on
the way has at most one frame and at most five operands on the shared stack. -/
theorem core_tail_loop_any_count (n : Nat) :
    run (11 * n + 10) (initCfg (topCode n) stLoop) = .ok (.int (sumTo n), stLoop) ∧
    allCfg Pb (11 * n + 10) (initCfg (topCode n) stLoop) = true := by
  have h1 := l_enter (n : Int)
  have h2 := l_loop (n : Int) n 0
  have h3 := l_test (n : Int) 0 (0 + sumTo n)
  have hd : decide ((0 : Int) ≤ 0) = true := by decide
  rw [hd] at h3
  have h := h1.trans (h2.trans h3)
  have e : 11 * n + 10 = 3 + (11 * n + 3) + 4 := by omega
  rw [e]
  constructor
  · have := run_of_steps _ 4 _ _ _ h.steps_eq (l_exit_run (n : Int) 0 (0 + sumTo n))
    simpa using this
  · exact allCfg_add Pb _ 4 _ _ h.steps_eq h.all (l_exit_all (n : Int) 0 (0 + sumTo n))

example : run 120 (initCfg (topCode 10) stLoop) = .ok (.int 55, stLoop) := by
  have := (core_tail_loop_any_count 10).1
  have e : sumTo 10 = 55 := by decide
  rw [e] at this
  exact this

/-! ## The frame limit -/

/-- Under the limit the frame stack never reaches `limit` frames. -/
theorem frames_never_exceed_limit_core (limit : Nat) (c c' : Cfg) (hc : c.frames.length < limit)
    (h : stepLimited limit c = .next c') : c'.frames.length < limit := by
  unfold stepLimited at h
  cases hs : step c with
  | next c2 =>
    simp only [hs] at h
    split at h
    · cases h
    · rename_i hn
      simp only [LRes.next.injEq] at h; subst h
      by_cases hl : c.frames.length < c2.frames.length
      · have : ¬ (limit ≤ c2.frames.length) := fun hh => hn ⟨hl, hh⟩
        omega
      · omega
  | halt v st => simp [hs] at h
  | err e => simp [hs] at h

/-- A frame-pushing call at the limit is the error value `overflow` (not a crash, not a stuck state). -/
theorem call_at_limit_overflows_core (limit : Nat) (c : Cfg) (n a : Nat) (below args : List VVal) (body : List Instr)
    (caps : List VVal) (hi : c.code[c.ip]? = some (.FUNC n))
    (hs : c.stack = below ++ args ++ [.clo a false body caps]) (hn : args.length = n) (ha : a = n)
    (hl : limit ≤ c.frames.length + 1) :
    stepLimited limit c = .overflow := by
  obtain ⟨c', hstep, _, _, _, _, hfl, _⟩ := (call_args_exact_core c n a false below args body caps hi hs hn).1 rfl ha
  simp [stepLimited, hstep, hfl, hl]

/-- A tail call (`TAILCALL` on any callee value, `TCOJMP`) never overflows, whatever the limit — even 0. -/
theorem tail_call_never_overflows_core (limit : Nat) (c c' : Cfg) (n : Nat)
    (hi : c.code[c.ip]? = some (.TAILCALL n) ∨ c.code[c.ip]? = some (.TCOJMP n))
    (hs : step c = .next c') : stepLimited limit c = .next c' := by
  have := (tail_call_constant_frames c c' n hi hs).1
  simp [stepLimited, hs, this]

def liftRes : Res (VVal × St (List Instr)) → LOut
  | .ok r => .ok r.1 r.2
  | .err e => .err e
  | .timeout => .timeout

/-- A run whose configurations all have at most `D` frames is not affected by any limit above `D`. -/
theorem runLimited_eq_run (limit D : Nat) (hD : D < limit) (P : Cfg → Bool)
    (hP : ∀ c, P c = true → c.frames.length ≤ D) :
    ∀ (n : Nat) (c : Cfg), allCfg P n c = true → runLimited limit n c = liftRes (run n c) := by
  intro n
  induction n with
  | zero => intro c _; rfl
  | succ n ih =>
    intro c h
    simp only [allCfg, Bool.and_eq_true] at h
    simp only [runLimited, run, stepLimited]
    cases hs : step c with
    | next c' =>
      rw [hs] at h
      have hc' : P c' = true := by
        cases n with
        | zero => simpa [allCfg] using h.2
        | succ m => have := h.2; simp only [allCfg, Bool.and_eq_true] at this; exact this.1
      have : ¬ (c.frames.length < c'.frames.length ∧ limit ≤ c'.frames.length) := by
        have := hP c' hc'; omega
      simp only [this, if_false]
      exact ih c' h.2
    | halt v st => rfl
    | err e => rfl

/-- **The frame limit never fires in the tail-recursive loop**, for any limit ≥ 2 and any number of iterations. -/
theorem core_tail_loop_never_overflows (limit : Nat) (hl : 2 ≤ limit) (n : Nat) :
    runLimited limit (11 * n + 10) (initCfg (topCode n) stLoop) = .ok (.int (sumTo n)) stLoop := by
  obtain ⟨hr, ha⟩ := core_tail_loop_any_count n
  rw [runLimited_eq_run limit 1 (by omega) Pb (by intro c hc; simp [Pb] at hc; exact hc.1) _ _ ha, hr]
  rfl

/-- **Runaway non-tail recursion ends with the error value `overflow`, for EVERY limit** (0, 1, the real 10⁷, …): the
program `(define (deep) (+ 1 (deep)))` `(deep)`, as generated (`deepCode_eq`, `stDeep_eq`), run with `2·limit + 3`
instructions or more, never gets stuck and never crashes — the call that would push frame number `limit` is reported. -/
theorem deep_recursion_errors_core (limit x : Nat) :
    runLimited limit (2 * limit + 3 + x) (initCfg topDeep stDeep) = .overflow := by
  have h0 : step (initCfg topDeep stDeep) =
      .next (atD [] [{ sp := 0, retIp := 2, retCode := topDeep, arity := 0, rest := false, caps := [] }]) := rfl
  by_cases hl : limit ≤ 1
  · rw [show 2 * limit + 3 + x = (2 * limit + 2 + x) + 1 by omega]
    have l0 : stepLimited limit (initCfg topDeep stDeep) = .overflow := by
      simp only [stepLimited, h0]; simp [atD, initCfg, hl]
    simp only [runLimited, l0]
  · have l0 : stepLimited limit (initCfg topDeep stDeep) =
        .next (atD [] [{ sp := 0, retIp := 2, retCode := topDeep, arity := 0, rest := false, caps := [] }]) := by
      simp only [stepLimited, h0]; simp [atD, initCfg, hl]
    rw [show 2 * limit + 3 + x = (2 * (limit - 2) + 2 + (x + 4)) + 1 by omega]
    simp only [runLimited, l0]
    exact deep_from limit (limit - 2) [] [{ sp := 0, retIp := 2, retCode := topDeep, arity := 0, rest := false, caps := [] }]
      (x + 4) (by simp only [List.length_singleton]; omega)

/-! ### Non-vacuity of the limit: below it the value comes back, at it the error -/

/-- `(define (deepn n) (if (<= n 0) 0 (+ 1 (deepn (- n 1)))))` -/
def deepnDef : Core := .define 14 (.lam 1 false []
  (.ite (.callG 4 [.loc 0 false, .const (.int 0)]) (.const (.int 0))
    (.callG 0 [.const (.int 1), .callG 14 [.callG 1 [.loc 0 true, .const (.int 1)]]])))

def stOf (p : List Core) : St (List Instr) :=
  match runProgram 100 (p.map compileTop) (toSt ⟨[], primGlobals⟩) with
  | .ok (_, st) => st
  | _ => ⟨[], []⟩

def outInt : LOut → Option (Option Int)
  | .ok v _ => some (V.toInt? v)
  | _ => none
def isOverflow : LOut → Bool
  | .overflow => true
  | _ => false

example : outInt (runLimited 10 300 (initCfg (compileTop (.callG 14 [.const (.int 4)])) (stOf [deepnDef]))) = some (some 4) := by
  decide
example : isOverflow (runLimited 4 300 (initCfg (compileTop (.callG 14 [.const (.int 4)])) (stOf [deepnDef]))) = true := by
  decide
example : isOverflow (runLimited 0 9 (initCfg topDeep stDeep)) = true := by
  rw [show 9 = 2 * 0 + 3 + 6 from rfl, deep_recursion_errors_core]; rfl

/-! ### Constant frame depth, evaluated (not proved for all counts): other shapes of tail calls

mutual recursion through globals; callee reached through a variable (parameter), through a captured variable,
through the result of a call; closure with rest arguments. -/

/-- `(define (spin f n) (if (<= n 0) 0 (f f (- n 1))))`: the callee is the parameter `f` (`TAILCALL` on a local). -/
def spinDef : Core := .define 20 (.lam 2 false []
  (.ite (.callG 4 [.loc 1 false, .const (.int 0)]) (.const (.int 0))
    (.app (.loc 0 false) [.loc 0 true, .callG 1 [.loc 1 true, .const (.int 1)]])))
/-- `(define (mkloop) (lambda (n) … (k k' …)))` — callee through a CAPTURED variable: `(define (cap k) (lambda (n) (if (<= n 0) 0 (k (- n 1)))))`,
`(define lp (cap (lambda (m) (lp m))))`: `lp`'s body tail-calls the captured `k`, which tail-calls the global `lp`. -/
def capDef : Core := .define 21 (.lam 1 false []
  (.lam 1 false [.stack 0]
    (.ite (.callG 4 [.loc 0 false, .const (.int 0)]) (.const (.int 0))
      (.app (.cap 0) [.callG 1 [.loc 0 true, .const (.int 1)]]))))
def lpDef : Core := .define 22 (.callG 21 [.lam 1 false [] (.callG 22 [.loc 0 true])])
/-- callee = the RESULT OF A CALL: `(define (self) rloop)`, `(define (rloop n) (if (<= n 0) 0 ((self) (- n 1))))` -/
def selfDef : Core := .define 23 (.lam 0 false [] (.glob 24))
def rloopDef : Core := .define 24 (.lam 1 false []
  (.ite (.callG 4 [.loc 0 false, .const (.int 0)]) (.const (.int 0))
    (.app (.callG 23 []) [.callG 1 [.loc 0 true, .const (.int 1)]])))
/-- rest arguments: `(define (vloop n . r) (if (<= n 0) 0 (vloop (- n 1) 7 8 9)))` -/
def vloopDef : Core := .define 25 (.lam 2 true []
  (.ite (.callG 4 [.loc 0 false, .const (.int 0)]) (.const (.int 0))
    (.callG 25 [.callG 1 [.loc 0 true, .const (.int 1)], .const (.int 7), .const (.int 8), .const (.int 9)])))

set_option maxRecDepth 8000 in
example : maxFrames 250 (initCfg (compileTop (.callG 20 [.glob 20, .const (.int 12)])) (stOf [spinDef])) = 1 := by decide
set_option maxRecDepth 8000 in
example : maxFrames 250 (initCfg (compileTop (.callG 22 [.const (.int 8)])) (stOf [capDef, lpDef])) = 1 := by decide
set_option maxRecDepth 8000 in
example : maxFrames 250 (initCfg (compileTop (.callG 24 [.const (.int 8)])) (stOf [selfDef, rloopDef])) = 2 := by decide
set_option maxRecDepth 8000 in
example : maxFrames 250 (initCfg (compileTop (.callG 25 [.const (.int 9)])) (stOf [vloopDef])) = 1 := by decide
-- … and all four terminate with 0
example : (match run 400 (initCfg (compileTop (.callG 25 [.const (.int 9)])) (stOf [vloopDef])) with
    | .ok (v, _) => V.toInt? v | _ => none) = some 0 := by decide

/-! ## Constant frame depth for EVERY tail-only program (the general theorem)

Route taken: the bytecode-verifier route (an invariant over all reachable configurations, preserved by each
instruction: `CoreWF.lean`, `CoreWFStep.lean`), on INSTRUCTION SEQUENCES — so it applies to `compileTop e` for every
core program `e` and equally to a real listing read into `Instr`.  The static predicate is `tailOnlyB` below:
decidable, evaluated by `decide` on concrete programs.  It does not depend on termination: the bound holds for every
configuration of every run, finite or not, first-class closures flowing through parameters, captured variables, boxes,
globals and lists included. -/

theorem inv_steps {ps : Params} : ∀ (n : Nat) (c c' : Cfg), Inv ps c → steps n c = some c' → Inv ps c' := by
  intro n
  induction n with
  | zero => intro c c' h hs; simp [steps] at hs; subst hs; exact h
  | succ n ih =>
    intro c c' h hs
    simp only [steps] at hs
    cases hst : step c with
    | next c2 => rw [hst] at hs; exact ih c2 c' (inv_step h hst) hs
    | halt v st => rw [hst] at hs; cases hs
    | err e => rw [hst] at hs; cases hs

theorem inv_init {ps : Params} {code : List Instr} {st : St (List Instr)} (hc : GoodTop ps code) (hst : StOk ps st) :
    Inv ps (initCfg code st) := ⟨GoodL.nil ps, hst, hc⟩

/-- The state a halting step leaves is the state of the configuration. -/
theorem step_halt_st {c : Cfg} {v : VVal} {st : St (List Instr)} (h : step c = .halt v st) : st = c.st := by
  cases hi : c.code[c.ip]? with
  | none => simp [step, hi] at h
  | some ins =>
    have hd : ∀ c2 : Cfg, doRet c2 = .halt v st → st = c2.st := by
      intro c2 h2
      unfold doRet at h2
      split at h2
      · cases h2
      · split at h2
        · simp only [StepRes.halt.injEq] at h2; exact h2.2.symm
        · split at h2 <;> cases h2
    have ht : ∀ (stack : List VVal) (f : VVal) (n : Nat) (pr : Bool) (nx : Nat),
        tailFn c stack f n pr nx = .halt v st → st = c.st := by
      intro stack f n pr nx h2
      unfold tailFn at h2
      repeat' split at h2
      all_goals first
        | (cases h2; done)
        | (have h3 := hd _ h2; exact h3)
    have hcf : ∀ (stack : List VVal) (f : VVal) (n ret : Nat), callFn c stack f n ret ≠ .halt v st := by
      intro stack f n ret h2
      unfold callFn at h2
      repeat' split at h2
      all_goals cases h2
    cases ins <;> simp only [step, hi] at h
    all_goals first
      | exact hd _ h
      | (repeat' split at h
         all_goals first
           | (cases h; done)
           | exact ht _ _ _ _ _ h
           | exact absurd h (hcf _ _ _ _))

theorem run_ok_stOk {ps : Params} : ∀ (n : Nat) (c : Cfg) (v : VVal) (st : St (List Instr)), Inv ps c →
    run n c = .ok (v, st) → StOk ps st := by
  intro n
  induction n with
  | zero => intro c v st _ h; simp [run] at h
  | succ n ih =>
    intro c v st hinv h
    simp only [run] at h
    cases hs : step c with
    | next c2 => rw [hs] at h; exact ih c2 v st (inv_step hinv hs) h
    | halt v2 st2 =>
      rw [hs] at h
      simp only [Res.ok.injEq, Prod.mk.injEq] at h
      obtain ⟨_, rfl⟩ := h
      rw [step_halt_st hs]; exact hinv.st
    | err e => rw [hs] at h; cases h

/-- The configurations of a program: those of the run of its first top-level sequence and, if that run ends with a
value, those of the rest of the program from the resulting state. -/
inductive Reach : List (List Instr) → St (List Instr) → Cfg → Prop where
  | here {code : List Instr} {rest : List (List Instr)} {st : St (List Instr)} {n : Nat} {c : Cfg} :
      steps n (initCfg code st) = some c → Reach (code :: rest) st c
  | later {code : List Instr} {rest : List (List Instr)} {st st1 : St (List Instr)} {n : Nat} {v : VVal} {c : Cfg} :
      run n (initCfg code st) = .ok (v, st1) → Reach rest st1 c → Reach (code :: rest) st c

/-- The decidable static predicate: every top-level sequence passes the checker (`fuel` ≥ nesting depth of lambdas). -/
def tailOnlyB (fuel : Nat) (ps : Params) (codes : List (List Instr)) : Bool := codes.all (goodTopB fuel ps)

/-- **Tail-only programs run in constant frame depth.**  `ps` = the global slots of the primitives.  If every top-level
instruction sequence of the program passes the static check `tailOnlyB` — inside every lambda body (at any nesting
depth) the only non-tail calls are calls of primitive slots, and nobody assigns a primitive slot — and the initial state
is well formed (`StOk`: e.g. the primitives only), then EVERY configuration reachable in the run of the program, after
any number of steps of any of its top-level forms, has at most ONE frame (the call made by the top-level form), and all
the invariants of `Inv` (every closure value anywhere still has a checked body).  No assumption on termination, on how
closures flow (parameters, captured variables, boxes, globals, lists, results of calls in tail position), on arities or
rest arguments. -/
theorem core_loop_constant_space (fuel : Nat) (ps : Params) : ∀ (codes : List (List Instr)) (st : St (List Instr)),
    tailOnlyB fuel ps codes = true → StOk ps st → ∀ c, Reach codes st c → c.frames.length ≤ 1 ∧ Inv ps c := by
  intro codes
  induction codes with
  | nil => intro st _ _ c hr; cases hr
  | cons code rest ih =>
    intro st hok hst c hr
    simp only [tailOnlyB, List.all_cons, Bool.and_eq_true] at hok
    have hinit := inv_init (goodTopB_sound fuel ps code hok.1) hst
    cases hr with
    | here hs => have := inv_steps _ _ _ hinit hs; exact ⟨this.len, this⟩
    | later hrun hrest => exact ih _ hok.2 (run_ok_stOk _ _ _ _ hinit hrun) c hrest

/-- The same for core programs: the instruction sequences are the generated ones. -/
theorem core_loop_constant_space_compiled (fuel : Nat) (ps : Params) (es : List Core) (st : St (List Instr))
    (h : tailOnlyB fuel ps (es.map compileTop) = true) (hst : StOk ps st) (c : Cfg)
    (hr : Reach (es.map compileTop) st c) : c.frames.length ≤ 1 :=
  (core_loop_constant_space fuel ps _ st h hst c hr).1

/-- Under any limit ≥ 2 such a program never overflows: a step from a reachable configuration that `step` can take,
`stepLimited` takes too. -/
theorem tail_only_never_overflows (fuel : Nat) (ps : Params) (codes : List (List Instr)) (st : St (List Instr))
    (h : tailOnlyB fuel ps codes = true) (hst : StOk ps st) (c c' : Cfg) (hr : Reach codes st c)
    (limit : Nat) (hl : 2 ≤ limit) (hs : step c = .next c') : stepLimited limit c = .next c' := by
  have hinv := (core_loop_constant_space fuel ps codes st h hst c hr).2
  have := (inv_step hinv hs).len
  have hn : ¬ (c.frames.length < c'.frames.length ∧ limit ≤ c'.frames.length) := by omega
  simp [stepLimited, hs, hn]

/-! ### Operand stack: no accumulation across iterations

Every entry into a closure body by a tail call (`TAILCALL`, `CALLGLOBALTAIL`, `TCOJMP`) — i.e. every loop head —
finds the operand stack at height `sp + (number of locals)`, at most `sp + maxN + 1` for the static bound `maxN` on the
operand counts of tail calls (part of the check `tailOnlyB`), with the SAME frame base `sp` — whatever the previous
iterations left in the frame.  (A bound for the positions between two loop heads — the frame's temporaries and
let-bound variables — would need a stack-height analysis of straight-line code; it is not proved in general, only for
the concrete loop: `core_tail_loop_any_count`, at most 5 operands.) -/

theorem bindArgs_length {α : Type} {a : Nat} {r : Bool} {args locals : List (V α)}
    (h : bindArgs a r args = .ok locals) : locals.length ≤ args.length + 1 := by
  unfold bindArgs at h
  cases r
  · simp at h; split at h
    · simp at h; subst h; omega
    · cases h
  · simp at h
    split at h
    · cases h
    · simp at h; subst h; simp; omega

theorem tailFn_entry {c c' : Cfg} {fr : Frame} (stack : List VVal) (f : VVal) (n : Nat) (pr : Bool) (nx : Nat)
    (hf : c.frames = [fr]) (hnx : nx ≠ 0) (hs : tailFn c stack f n pr nx = .next c')
    (hent : c'.ip = 0 ∧ c'.frames.length = 1) :
    c'.stack.length ≤ fr.sp + n + 1 ∧ spOf c'.frames = fr.sp := by
  unfold tailFn at hs
  cases hsp : splitLast n stack with
  | none => simp [hsp] at hs
  | some p =>
    obtain ⟨below, args⟩ := p
    obtain ⟨_, hlen, _⟩ := splitLast_some hsp
    simp only [hsp] at hs
    cases f with
    | prim p =>
      simp only at hs
      cases hp : p.apply args with
      | ok r =>
        simp only [hp] at hs
        cases pr
        · simp only [Bool.false_eq_true, if_false, StepRes.next.injEq] at hs; subst hs
          exact absurd hent.1 hnx
        · simp only [if_true] at hs
          have h1 := doRet_frames _ _ hs
          have h2 := hent.2
          simp only [hf, List.length_singleton] at h1
          omega
      | err e => simp [hp] at hs
      | timeout => simp [hp] at hs
    | clo a r body caps =>
      simp only at hs
      cases hbd : bindArgs a r args with
      | ok locals =>
        simp only [hbd, hf] at hs
        split at hs
        · cases hs
        · simp only [StepRes.next.injEq] at hs; subst hs
          have := bindArgs_length hbd
          simp [spOf]
          omega
      | err e => simp [hbd] at hs
      | timeout => simp [hbd] at hs
    | int _ => simp at hs
    | bool _ => simp at hs
    | void => simp at hs
    | box _ => simp at hs
    | list _ => simp at hs

/-- **At every loop head the operand stack is back at `sp + O(1)`.** -/
theorem tail_entry_height {ps : Params} {c c' : Cfg} (h : Inv ps c) (fr : Frame) (hf : c.frames = [fr]) (n : Nat)
    (hi : c.code[c.ip]? = some (.TAILCALL n) ∨ c.code[c.ip]? = some (.TCOJMP n) ∨
      (∃ g, c.code[c.ip]? = some (.CALLGLOBALTAIL g) ∧ c.code[c.ip + 1]? = some (.TAILCALL n)))
    (hs : step c = .next c') (hent : c'.ip = 0 ∧ c'.frames.length = 1) :
    c'.stack.length ≤ fr.sp + ps.maxN + 1 ∧ spOf c'.frames = fr.sp := by
  have hbody := h.body hf
  rcases hi with hi | hi | ⟨g, hi, hi2⟩
  · have hn := hbody.rules.payload _ n (Or.inl hi)
    simp only [step, hi] at hs
    cases hl : c.stack.getLast? with
    | none => simp [hl] at hs
    | some f =>
      simp only [hl] at hs
      have := tailFn_entry _ f n false (c.ip + 1) hf (by omega) hs hent
      exact ⟨by omega, this.2⟩
  · have hn := hbody.rules.payload _ n (Or.inr hi)
    simp only [step, hi, hf] at hs
    cases hsp : splitLast n c.stack with
    | none => simp [hsp] at hs
    | some p =>
      obtain ⟨below, args⟩ := p
      obtain ⟨_, hlen, _⟩ := splitLast_some hsp
      simp only [hsp] at hs
      cases hbd : bindArgs fr.arity fr.rest args with
      | ok locals =>
        simp only [hbd] at hs
        split at hs
        · cases hs
        · simp only [StepRes.next.injEq] at hs; subst hs
          have := bindArgs_length hbd
          simp [hf, spOf]
          omega
      | err e => simp [hbd] at hs
      | timeout => simp [hbd] at hs
  · have hn := hbody.rules.payload _ n (Or.inl hi2)
    simp only [step, hi, hi2] at hs
    cases hg : lookupG g c.st.globals with
    | none => simp [hg] at hs
    | some f =>
      simp only [hg] at hs
      have := tailFn_entry _ f n true (c.ip + 2) hf (by omega) hs hent
      exact ⟨by omega, this.2⟩

/-- The primitive slots of the initial state. -/
def primSlots : Params := ⟨[0, 1, 2, 3, 4, 5], 4, 64⟩

theorem stOk_prims : StOk primSlots (toSt ⟨[], primGlobals⟩) := by
  refine ⟨by simp [toSt]; exact GoodL.nil _, ?_, ?_⟩
  · intro g v hm
    simp [toSt, primGlobals] at hm
    rcases hm with ⟨_, rfl⟩ | ⟨_, rfl⟩ | ⟨_, rfl⟩ | ⟨_, rfl⟩ | ⟨_, rfl⟩ | ⟨_, rfl⟩ <;> exact .prim _
  · intro g hg
    simp [primSlots] at hg
    rcases hg with rfl | rfl | rfl | rfl | rfl | rfl <;> simp [toSt, primGlobals, lookupG]

/-! ### Non-vacuity: the shapes of the property pass the static check (by evaluation of the checker) -/

def progCodes (es : List Core) : List (List Instr) := es.map compileTop

-- self recursion with accumulating parameters (`TCOJMP`)
example : tailOnlyB 3 primSlots (progCodes [loopDef, .callG 12 [.const (.int 1000000), .const (.int 0)]]) = true := by
  decide
-- mutual recursion among three global procedures, through `if`, with a let-bound temporary (`CALLGLOBALTAIL`)
def m1 : Core := .define 30 (.lam 1 false []
  (.ite (.callG 4 [.loc 0 false, .const (.int 0)]) (.const (.int 1))
    (.let_ 1 [.callG 1 [.loc 0 false, .const (.int 1)]] (.callG 31 [.loc 1 true]))))
def m2 : Core := .define 31 (.lam 1 false []
  (.ite (.callG 4 [.loc 0 false, .const (.int 0)]) (.const (.int 2)) (.callG 32 [.callG 1 [.loc 0 true, .const (.int 1)]])))
def m3 : Core := .define 32 (.lam 1 false []
  (.seq (.const .void)
    (.ite (.callG 4 [.loc 0 false, .const (.int 0)]) (.const (.int 3)) (.callG 30 [.callG 1 [.loc 0 true, .const (.int 1)]]))))
example : tailOnlyB 3 primSlots (progCodes [m1, m2, m3, .callG 30 [.const (.int 100)]]) = true := by decide
-- callee passed as a parameter; callee in a captured variable; closure with rest arguments; boxes (captured + assigned)
example : tailOnlyB 3 primSlots (progCodes [spinDef, .callG 20 [.glob 20, .const (.int 12)]]) = true := by decide
example : tailOnlyB 3 primSlots (progCodes [capDef, lpDef, .callG 22 [.const (.int 8)]]) = true := by decide
example : tailOnlyB 3 primSlots (progCodes [vloopDef, .callG 25 [.const (.int 9)]]) = true := by decide
example : tailOnlyB 3 primSlots (progCodes [mkE, kE, callK, callK, sharedE, setIt, getIt]) = true := by decide
-- NOT tail-only (rightly rejected): non-tail recursion; a callee that is the result of a non-tail call of a closure
example : tailOnlyB 3 primSlots (progCodes [deepnDef]) = false := by decide
example : tailOnlyB 3 primSlots (progCodes [selfDef, rloopDef]) = false := by decide
-- instances of the theorem, from the initial state with the primitives only: EVERY configuration of the whole program
-- (the three definitions, then `(m1 100)` resp. the loop with a million iterations) has at most one frame
example (c : Cfg) (hr : Reach (progCodes [m1, m2, m3, .callG 30 [.const (.int 100)]]) (toSt ⟨[], primGlobals⟩) c) :
    c.frames.length ≤ 1 :=
  core_loop_constant_space_compiled 3 primSlots _ _ (by decide) stOk_prims c hr
example (c : Cfg)
    (hr : Reach (progCodes [loopDef, .callG 12 [.const (.int 1000000), .const (.int 0)]]) (toSt ⟨[], primGlobals⟩) c) :
    c.frames.length ≤ 1 :=
  core_loop_constant_space_compiled 3 primSlots _ _ (by decide) stOk_prims c hr
-- … and such configurations exist (the run really gets into the loop): 40 steps into the second form
example : ∃ c, Reach (progCodes [loopDef, .callG 12 [.const (.int 1000000), .const (.int 0)]]) (toSt ⟨[], primGlobals⟩) c ∧
    c.frames.length = 1 := by
  have h1 : run 20 (initCfg (compileTop loopDef) (toSt ⟨[], primGlobals⟩)) = .ok (.void, stLoop) := rfl
  exact ⟨_, .later h1 (.here (n := 3) rfl), rfl⟩

/-! ## The SOURCE-level theorem

`T.TailOnlySrc ps e` (file `CoreSrc.lean`) is a syntactic, decidable predicate on `Core`: inside every lambda body, to any
nesting, every application is in tail position or applies a primitive slot; no primitive slot is defined or assigned;
operand counts of tail calls and of top-level calls are at most `ps.maxN`; every lambda body and the form itself fit in
`ps.maxLen` instructions.  The bytecode rules used here are the boundary-based ones of `CoreWF2.lean` (`T.GoodCode`,
`T.Inv`): the first version of the checker (`tailOnlyB`) tests its jump rule also on the instructions of nested lambda
bodies where they sit inside the enclosing code and can therefore REJECT a correct program with nested lambdas (example
below) — it is sound, not complete; the boundary-based rules have no such false rejections for generated code. -/

/-- **Generated code of a tail-only source form satisfies the bytecode rules** (for every form, by induction over
`Core` following `compile`: `CoreSrc2.lean`). -/
theorem tailOnlySrc_compiles_tailOnly (ps : Params) (e : Core) (h : T.TailOnlySrc ps e = true) :
    T.GoodCode ps true (compileTop e) := T.goodCode_top ps e h

theorem T.inv_steps {ps : Params} : ∀ (n : Nat) (c c' : Cfg), T.Inv ps c → steps n c = some c' → T.Inv ps c' := by
  intro n
  induction n with
  | zero => intro c c' h hs; simp [steps] at hs; subst hs; exact h
  | succ n ih =>
    intro c c' h hs
    simp only [steps] at hs
    cases hst : step c with
    | next c2 => rw [hst] at hs; exact ih c2 c' (T.inv_step h hst) hs
    | halt v st => rw [hst] at hs; cases hs
    | err e => rw [hst] at hs; cases hs

theorem T.run_ok_stOk {ps : Params} : ∀ (n : Nat) (c : Cfg) (v : VVal) (st : St (List Instr)), T.Inv ps c →
    run n c = .ok (v, st) → T.StOk ps st := by
  intro n
  induction n with
  | zero => intro c v st _ h; simp [run] at h
  | succ n ih =>
    intro c v st hinv h
    simp only [run] at h
    cases hs : step c with
    | next c2 => rw [hs] at h; exact ih c2 v st (T.inv_step hinv hs) h
    | halt v2 st2 =>
      rw [hs] at h
      simp only [Res.ok.injEq, Prod.mk.injEq] at h
      obtain ⟨_, rfl⟩ := h
      rw [step_halt_st hs]; exact hinv.st
    | err e => rw [hs] at h; cases h

/-- **Tail-only SOURCE programs run in constant frame depth.**  If every top-level form of the core program `es`
satisfies the syntactic predicate `TailOnlySrc`, then every configuration reachable in the run of the compiled program
(any number of steps of any form, terminating or not) has at most one frame. -/
theorem core_loop_constant_space_src (ps : Params) : ∀ (es : List Core) (st : St (List Instr)),
    (∀ e, e ∈ es → T.TailOnlySrc ps e = true) → T.StOk ps st →
    ∀ c, Reach (es.map compileTop) st c → c.frames.length ≤ 1 ∧ T.Inv ps c := by
  intro es
  induction es with
  | nil => intro st _ _ c hr; cases hr
  | cons e rest ih =>
    intro st hok hst c hr
    have hinit : T.Inv ps (initCfg (compileTop e) st) :=
      ⟨T.GoodL.nil ps, hst, T.goodCode_top ps e (hok e (by simp)), T.Ok.zero _⟩
    simp only [List.map_cons] at hr
    cases hr with
    | here hs => have := T.inv_steps _ _ _ hinit hs; exact ⟨this.len, this⟩
    | later hrun hrest =>
      exact ih _ (fun e' he' => hok e' (List.mem_cons_of_mem _ he')) (T.run_ok_stOk _ _ _ _ hinit hrun) c hrest

theorem T.stOk_prims : T.StOk primSlots (toSt ⟨[], primGlobals⟩) := by
  refine ⟨by simp [toSt]; exact T.GoodL.nil _, ?_, ?_⟩
  · intro g v hm
    simp [toSt, primGlobals] at hm
    rcases hm with ⟨_, rfl⟩ | ⟨_, rfl⟩ | ⟨_, rfl⟩ | ⟨_, rfl⟩ | ⟨_, rfl⟩ | ⟨_, rfl⟩ <;> exact .prim _
  · intro g hg
    simp [primSlots] at hg
    rcases hg with rfl | rfl | rfl | rfl | rfl | rfl <;> simp [toSt, primGlobals, lookupG]

-- non-vacuity: the source predicate holds of the mutual recursion, of the callee in a captured variable, …
example : [m1, m2, m3, .callG 30 [.const (.int 100)]].all (T.TailOnlySrc primSlots) = true := by decide
example : [capDef, lpDef, .callG 22 [.const (.int 8)]].all (T.TailOnlySrc primSlots) = true := by decide
example : [spinDef, vloopDef, loopDef, mkE, kE, callK, sharedE, setIt, getIt].all (T.TailOnlySrc primSlots) = true := by
  decide
-- … not of non-tail recursion, nor of a callee that is the result of a non-tail closure call
example : T.TailOnlySrc primSlots deepnDef = false := by decide
example : T.TailOnlySrc primSlots rloopDef = false := by decide
-- an instance, from the primitives only: every configuration of the mutual recursion / of the captured-variable loop
example (c : Cfg) (hr : Reach ([m1, m2, m3, .callG 30 [.const (.int 100)]].map compileTop) (toSt ⟨[], primGlobals⟩) c) :
    c.frames.length ≤ 1 :=
  (core_loop_constant_space_src primSlots _ _ (by decide) T.stOk_prims c hr).1
example (c : Cfg) (hr : Reach ([capDef, lpDef, .callG 22 [.const (.int 8)]].map compileTop) (toSt ⟨[], primGlobals⟩) c) :
    c.frames.length ≤ 1 :=
  (core_loop_constant_space_src primSlots _ _ (by decide) T.stOk_prims c hr).1

/-- A correct program the FIRST checker rejects and the source predicate (hence the boundary-based rules) accepts: the
inner lambda's `IF 4` sits inside the outer body, whose own instruction 4 is the `FUNC` word of `(+ n (+ 1 2))`. -/
def nestedJump : Core := .define 40 (.lam 1 false []
  (.seq (.callG 0 [.loc 0 false, .callG 0 [.const (.int 1), .const (.int 2)]])
    (.lam 1 false [] (.ite (.loc 0 false) (.const (.int 1)) (.const (.int 2))))))
example : tailOnlyB 3 primSlots [compileTop nestedJump] = false := by decide
example : T.TailOnlySrc primSlots nestedJump = true := by decide

/-! ## The operand stack of a tail-only program is bounded by a static bound

`CoreStack.lean`, `CoreStack2.lean`.  At instruction boundaries jumps are forward (`fwd`, checked by the rules and
proved for generated code), so inside a frame the instruction pointer only grows until the next (self) tail call, and
an instruction adds at most one operand; every entry into a body starts at `sp + ≤ maxN + 1` operands.  Therefore in
EVERY reachable configuration `stack.length ≤ 2·maxLen + maxN + 1` — a bound computed from the program text (`maxLen` =
longest instruction sequence, `maxN` = largest operand count of a call), independent of the number of iterations. -/

theorem T.num_bound {ps : Params} {c : Cfg} (hinv : T.Inv ps c) (hn : T.Num ps c) :
    c.stack.length ≤ 2 * ps.maxLen + ps.maxN + 1 := by
  unfold T.Num at hn
  have hl := hinv.len
  match hf : c.frames with
  | [] => rw [hf] at hn; omega
  | [fr] => rw [hf] at hn; omega
  | _ :: _ :: _ => rw [hf] at hl; simp at hl

theorem T.inv_num_steps {ps : Params} : ∀ (n : Nat) (c c' : Cfg), T.Inv ps c → T.Num ps c → steps n c = some c' →
    T.Inv ps c' ∧ T.Num ps c' := by
  intro n
  induction n with
  | zero => intro c c' h hn hs; simp [steps] at hs; subst hs; exact ⟨h, hn⟩
  | succ n ih =>
    intro c c' h hn hs
    simp only [steps] at hs
    cases hst : step c with
    | next c2 => rw [hst] at hs; exact ih c2 c' (T.inv_step h hst) (T.num_step h hn hst) hs
    | halt v st => rw [hst] at hs; cases hs
    | err e => rw [hst] at hs; cases hs

/-- **Tail-only SOURCE programs run with a statically bounded operand stack (and in one frame).**  For every reachable
configuration of the compiled program — any number of steps of any top-level form, terminating or not:
at most one frame and at most `2·maxLen + maxN + 1` operands. -/
theorem core_loop_constant_space_and_stack_src (ps : Params) : ∀ (es : List Core) (st : St (List Instr)),
    (∀ e, e ∈ es → T.TailOnlySrc ps e = true) → T.StOk ps st →
    ∀ c, Reach (es.map compileTop) st c → c.frames.length ≤ 1 ∧ c.stack.length ≤ 2 * ps.maxLen + ps.maxN + 1 := by
  intro es
  induction es with
  | nil => intro st _ _ c hr; cases hr
  | cons e rest ih =>
    intro st hok hst c hr
    have hinit : T.Inv ps (initCfg (compileTop e) st) :=
      ⟨T.GoodL.nil ps, hst, T.goodCode_top ps e (hok e (by simp)), T.Ok.zero _⟩
    have hnum : T.Num ps (initCfg (compileTop e) st) := by simp [T.Num, initCfg]
    simp only [List.map_cons] at hr
    cases hr with
    | here hs =>
      obtain ⟨h1, h2⟩ := T.inv_num_steps _ _ _ hinit hnum hs
      exact ⟨h1.len, T.num_bound h1 h2⟩
    | later hrun hrest =>
      exact ih _ (fun e' he' => hok e' (List.mem_cons_of_mem _ he')) (T.run_ok_stOk _ _ _ _ hinit hrun) c hrest

/-- The same on instruction sequences (real listings): the boundary-based checker `T.goodCodeB` as the static predicate. -/
theorem core_loop_constant_space_and_stack (fuel : Nat) (ps : Params) : ∀ (codes : List (List Instr))
    (st : St (List Instr)), (∀ code, code ∈ codes → T.goodCodeB fuel ps true code = true) → T.StOk ps st →
    ∀ c, Reach codes st c → c.frames.length ≤ 1 ∧ c.stack.length ≤ 2 * ps.maxLen + ps.maxN + 1 := by
  intro codes
  induction codes with
  | nil => intro st _ _ c hr; cases hr
  | cons code rest ih =>
    intro st hok hst c hr
    have hinit : T.Inv ps (initCfg code st) :=
      ⟨T.GoodL.nil ps, hst, T.goodCodeB_sound ps fuel true code (hok code (by simp)), T.Ok.zero _⟩
    have hnum : T.Num ps (initCfg code st) := by simp [T.Num, initCfg]
    cases hr with
    | here hs =>
      obtain ⟨h1, h2⟩ := T.inv_num_steps _ _ _ hinit hnum hs
      exact ⟨h1.len, T.num_bound h1 h2⟩
    | later hrun hrest =>
      exact ih _ (fun c' hc' => hok c' (List.mem_cons_of_mem _ hc')) (T.run_ok_stOk _ _ _ _ hinit hrun) c hrest

-- instances: the mutual recursion, the captured-variable loop, the loop with a million iterations —
-- one frame and at most 2·64 + 4 + 1 = 133 operands in every configuration
example (c : Cfg) (hr : Reach ([m1, m2, m3, .callG 30 [.const (.int 100)]].map compileTop) (toSt ⟨[], primGlobals⟩) c) :
    c.frames.length ≤ 1 ∧ c.stack.length ≤ 133 :=
  core_loop_constant_space_and_stack_src primSlots _ _ (by decide) T.stOk_prims c hr
example (c : Cfg)
    (hr : Reach ([loopDef, .callG 12 [.const (.int 1000000), .const (.int 0)]].map compileTop) (toSt ⟨[], primGlobals⟩) c) :
    c.frames.length ≤ 1 ∧ c.stack.length ≤ 133 :=
  core_loop_constant_space_and_stack_src primSlots _ _ (by decide) T.stOk_prims c hr
-- the boundary-based checker accepts the generated code of the nested-lambda example the first checker rejected
example : T.goodCodeB 3 primSlots true (compileTop nestedJump) = true := by decide

/-! ## Tail calls through `apply`

`CoreApply.lean`: the built-in `apply` as the VM executes it, bound to a global slot `as` (`stepA`); in the source core
`(apply f a … lst)` is `Core.callG as (f :: a … ++ [lst])`, compiled by the unchanged `compile` — so
`tail_positions_marked_core` covers it as it stands: in tail position it is emitted as `CALLGLOBALTAIL as; TAILCALL n`
(`apply_tail_marked` below), and the source predicate `T.TailOnlySrc` accepts it there and rejects a non-tail `apply`
inside a lambda body (like every non-tail call of a non-primitive).  `apply_tail_reuses_frame`: the VM then spreads the
list, moves the arguments down to the frame's base and pushes no frame.  `apply_loop_constant_frames_src`: every
configuration of a tail-only source form run with `apply` has at most one frame.  NOT covered: `apply` in the reference
semantics / `compile_correct_core`; the operand-stack bound (the number of spread arguments is a run-time quantity). -/

/-- `(apply f a … lst)` in tail position of a lambda body is compiled to `CALLGLOBALTAIL as; TAILCALL n`. -/
theorem apply_tail_marked (as : Nat) {body : Core} {ops : List Core} (h : TailApp body (.callG as ops)) :
    ∃ pre post, bodyCode body = pre ++ [.CALLGLOBALTAIL as, .TAILCALL ops.length] ++ post := by
  obtain ⟨pre, post, hc, _⟩ := tail_positions_marked_core h
  exact ⟨pre, post, by simpa [tailInstrs] using hc⟩

/-- **A tail-only source form that uses `apply` runs in one frame**: every configuration reached by the VM with the
`apply` built-in (`stepA as`, `as` not a primitive slot) from a well-formed state has at most one frame, and the
invariant `T.Inv` (so the next form starts from a well-formed state again). -/
theorem apply_loop_constant_frames_src (ps : Params) (as : Nat) (has : as ∉ ps.slots) (e : Core)
    (he : T.TailOnlySrc ps e = true) (st : St (List Instr)) (hst : T.StOk ps st) (n : Nat) (c : Cfg)
    (hs : stepsA as n (initCfg (compileTop e) st) = some c) : c.frames.length ≤ 1 ∧ T.Inv ps c := by
  have hinit : T.Inv ps (initCfg (compileTop e) st) :=
    ⟨T.GoodL.nil ps, hst, T.goodCode_top ps e he, T.Ok.zero _⟩
  have := T.inv_stepsA as has n _ c hinit hs
  exact ⟨this.len, this⟩

/-- The same on instruction sequences accepted by the boundary-based checker (real listings). -/
theorem apply_loop_constant_frames (fuel : Nat) (ps : Params) (as : Nat) (has : as ∉ ps.slots) (code : List Instr)
    (hc : T.goodCodeB fuel ps true code = true) (st : St (List Instr)) (hst : T.StOk ps st) (n : Nat) (c : Cfg)
    (hs : stepsA as n (initCfg code st) = some c) : c.frames.length ≤ 1 := by
  have hinit : T.Inv ps (initCfg code st) :=
    ⟨T.GoodL.nil ps, hst, T.goodCodeB_sound ps fuel true code hc, T.Ok.zero _⟩
  exact (T.inv_stepsA as has n _ c hinit hs).len

/-! ### Non-vacuity: a loop through `apply` -/

/-- `(define (lp n . r) (if (<= n 0) 0 (apply lp (- n 1) r)))` — `apply` is slot 6; `r` is the (empty) rest list. -/
def applySlot : Nat := 6
def lpA : Core := .define 26 (.lam 2 true []
  (.ite (.callG 4 [.loc 0 false, .const (.int 0)]) (.const (.int 0))
    (.callG applySlot [.glob 26, .callG 1 [.loc 0 true, .const (.int 1)], .loc 1 true])))

example : T.TailOnlySrc primSlots lpA = true ∧ T.TailOnlySrc primSlots (.callG 26 [.const (.int 9)]) = true := by decide
example : applySlot ∉ primSlots.slots := by decide
example : TailApp (.ite (.callG 4 [.loc 0 false, .const (.int 0)]) (.const (.int 0))
    (.callG applySlot [.glob 26, .callG 1 [.loc 0 true, .const (.int 1)], .loc 1 true]))
    (.callG applySlot [.glob 26, .callG 1 [.loc 0 true, .const (.int 1)], .loc 1 true]) := .elseB (.here _ rfl)
set_option maxRecDepth 8000 in
example : maxFramesA applySlot 300 (initCfg (compileTop (.callG 26 [.const (.int 9)])) (stOf [lpA])) = 1 := by decide
set_option maxRecDepth 8000 in
example : (match runA applySlot 300 (initCfg (compileTop (.callG 26 [.const (.int 9)])) (stOf [lpA])) with
    | .ok (v, _) => V.toInt? v | _ => none) = some 0 := by decide
-- a non-tail `apply` inside a lambda body is rejected by the source predicate
example : T.TailOnlySrc primSlots (.define 27 (.lam 1 false []
    (.callG 0 [.const (.int 1), .callG applySlot [.glob 27, .loc 0 true]]))) = false := by decide

end SteelVerif.C09C
