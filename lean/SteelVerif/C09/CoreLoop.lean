/-
C09 on the core with closures: trace predicates, the VM with a frame limit, and two concrete programs executed
symbolically for every iteration count / every limit.
-/
import SteelVerif.C09.CoreTail
namespace SteelVerif.C09C
open SteelVerif.C01C

/-! ## Properties of every configuration of a run -/

/-- `P` holds of the configuration and of every configuration reached within `n` steps. -/
def allCfg (P : Cfg → Bool) : Nat → Cfg → Bool
  | 0, c => P c
  | n + 1, c => P c && (match step c with | .next c' => allCfg P n c' | _ => true)

theorem allCfg_add (P : Cfg → Bool) : ∀ (n m : Nat) (a b : Cfg), steps n a = some b →
    allCfg P n a = true → allCfg P m b = true → allCfg P (n + m) a = true := by
  intro n
  induction n with
  | zero => intro m a b h1 _ h3; simp [steps] at h1; subst h1; simpa using h3
  | succ n ih =>
    intro m a b h1 h2 h3
    rw [Nat.add_right_comm]
    simp only [steps] at h1
    simp only [allCfg, Bool.and_eq_true] at h2 ⊢
    cases hs : step a with
    | next c' =>
      rw [hs] at h1 h2
      exact ⟨h2.1, ih m c' b h1 h2.2 h3⟩
    | halt v st => rw [hs] at h1; cases h1
    | err e => rw [hs] at h1; cases h1

/-- `n` steps from `a` to `b` during which `P` holds throughout (including `a`, excluding nothing up to `b`). -/
structure RunP (P : Cfg → Bool) (n : Nat) (a b : Cfg) : Prop where
  steps_eq : steps n a = some b
  all : allCfg P n a = true

theorem RunP.trans {P : Cfg → Bool} {n m : Nat} {a b c : Cfg} (h1 : RunP P n a b) (h2 : RunP P m b c) :
    RunP P (n + m) a c :=
  ⟨steps_add n m a b c h1.1 h2.1, allCfg_add P n m a b h1.1 h1.2 h2.2⟩

theorem RunP.refl {P : Cfg → Bool} {a : Cfg} (h : P a = true) : RunP P 0 a a := ⟨rfl, by simpa [allCfg] using h⟩

/-! ## A counting loop, for every count -/

/-- `(define (loop n acc) (if (<= n 0) acc (loop (- n 1) (+ acc n))))`, body (self tail call = `TCOJMP`). -/
def loopBody : Core :=
  .ite (.callG 4 [.loc 0 false, .const (.int 0)]) (.loc 1 false)
    (.selfTail [.callG 1 [.loc 0 false, .const (.int 1)], .callG 0 [.loc 1 true, .loc 0 true]])

def loopCode : List Instr :=
  [.READLOCAL 0, .LOADINT0, .CALLGLOBAL 4, .FUNC 2, .IF 7, .READLOCAL 1, .POPJMP, .READLOCAL 0, .LOADINT1,
   .CALLGLOBAL 1, .FUNC 2, .MOVEREADLOCAL 1, .MOVEREADLOCAL 0, .CALLGLOBAL 0, .FUNC 2, .TCOJMP 2, .PASS 0, .POPPURE]

/-- the generated code of the body is this listing -/
theorem loopCode_eq : bodyCode loopBody = loopCode := by decide

def loopDef : Core := .define 12 (.lam 2 false [] loopBody)

/-- The state after `(define (loop n acc) …)` has been evaluated on the primitives. -/
def stLoop : St (List Instr) := ⟨[], (12, .clo 2 false loopCode []) :: primGlobals⟩

theorem stLoop_eq : runProgram 20 [compileTop loopDef] (toSt ⟨[], primGlobals⟩) = .ok ([.void], stLoop) := by
  rfl

/-- The top-level sequence for `(loop n 0)` (what `compileTop` emits; for `n ≤ 2` the first instruction would be the
specialised `LOADINT n`). -/
def topCode (n : Int) : List Instr := [.PUSHCONST (.int n), .LOADINT0, .CALLGLOBAL 12, .FUNC 2, .POPPURE]

example : compileTop (.callG 12 [.const (.int 1000000), .const (.int 0)]) = topCode 1000000 := by decide

def fTop (n : Int) : Frame :=
  { sp := 0, retIp := 4, retCode := topCode n, arity := 2, rest := false, caps := [] }

def atL (n : Int) (ip : Nat) (stk : List VVal) : Cfg :=
  { code := loopCode, ip := ip, stack := stk, frames := [fTop n], st := stLoop }

/-- At most one frame and at most five operands. -/
def Pb (c : Cfg) : Bool := decide (c.frames.length ≤ 1) && decide (c.stack.length ≤ 5)

theorem l_enter (n : Int) : RunP Pb 3 (initCfg (topCode n) stLoop) (atL n 0 [.int n, .int 0]) := ⟨rfl, rfl⟩
theorem l_test (n k acc : Int) :
    RunP Pb 3 (atL n 0 [.int k, .int acc]) (atL n 4 [.int k, .int acc, .bool (decide (k ≤ 0))]) := ⟨rfl, rfl⟩
theorem l_s1 (n k acc : Int) :
    RunP Pb 1 (atL n 4 [.int k, .int acc, .bool false]) (atL n 7 [.int k, .int acc]) := ⟨rfl, rfl⟩
theorem l_s2 (n k acc : Int) :
    RunP Pb 2 (atL n 7 [.int k, .int acc]) (atL n 9 [.int k, .int acc, .int k, .int 1]) := ⟨rfl, rfl⟩
theorem l_s3 (n k acc : Int) :
    RunP Pb 1 (atL n 9 [.int k, .int acc, .int k, .int 1]) (atL n 11 [.int k, .int acc, .int (k - 1)]) := ⟨rfl, rfl⟩
theorem l_s4 (n k acc : Int) (x : VVal) :
    RunP Pb 2 (atL n 11 [.int k, .int acc, x]) (atL n 13 [.void, .void, x, .int acc, .int k]) := ⟨rfl, rfl⟩
theorem l_s5 (n k acc : Int) (x : VVal) :
    RunP Pb 1 (atL n 13 [.void, .void, x, .int acc, .int k]) (atL n 15 [.void, .void, x, .int (acc + k)]) :=
  ⟨rfl, rfl⟩
theorem l_s6 (n : Int) (x y : VVal) : RunP Pb 1 (atL n 15 [.void, .void, x, y]) (atL n 0 [x, y]) := ⟨rfl, rfl⟩

theorem l_again (n k acc : Int) :
    RunP Pb 8 (atL n 4 [.int k, .int acc, .bool false]) (atL n 0 [.int (k - 1), .int (acc + k)]) :=
  (l_s1 n k acc).trans ((l_s2 n k acc).trans ((l_s3 n k acc).trans
    ((l_s4 n k acc _).trans ((l_s5 n k acc _).trans (l_s6 n _ _)))))

theorem l_exit_run (n k acc : Int) : run 4 (atL n 4 [.int k, .int acc, .bool true]) = .ok (.int acc, stLoop) := rfl
theorem l_exit_all (n k acc : Int) : allCfg Pb 4 (atL n 4 [.int k, .int acc, .bool true]) = true := rfl

/-- 1 + 2 + … + n -/
def sumTo : Nat → Int
  | 0 => 0
  | n + 1 => sumTo n + ((n + 1 : Nat) : Int)

theorem l_iter (n : Int) (k : Nat) (acc : Int) :
    RunP Pb 11 (atL n 0 [.int ((k + 1 : Nat) : Int), .int acc]) (atL n 0 [.int (k : Int), .int (acc + ((k + 1 : Nat) : Int))]) := by
  have h1 := l_test n ((k + 1 : Nat) : Int) acc
  have hk : decide (((k + 1 : Nat) : Int) ≤ 0) = false := by simp <;> omega
  rw [hk] at h1
  have h2 := l_again n ((k + 1 : Nat) : Int) acc
  have e : ((k + 1 : Nat) : Int) - 1 = (k : Int) := by omega
  rw [e] at h2
  exact h1.trans h2

theorem l_loop (n : Int) : ∀ (k : Nat) (acc : Int),
    RunP Pb (11 * k) (atL n 0 [.int (k : Int), .int acc]) (atL n 0 [.int 0, .int (acc + sumTo k)])
  | 0, acc => by
    simp only [sumTo, Int.add_zero, Nat.mul_zero]
    exact RunP.refl rfl
  | k + 1, acc => by
    have h1 := l_iter n k acc
    have h2 := l_loop n k (acc + ((k + 1 : Nat) : Int))
    have e : acc + ((k + 1 : Nat) : Int) + sumTo k = acc + sumTo (k + 1) := by simp only [sumTo]; omega
    rw [e] at h2
    have := h1.trans h2
    rw [show 11 * (k + 1) = 11 + 11 * k by omega]
    exact this

/-! ## The VM with a frame limit -/

inductive LRes where
  | next (c : Cfg)
  | halt (v : VVal) (st : St (List Instr))
  | err (e : Err)
  | overflow            -- `check_stack_overflow`: "stack overflowed!" — an error value, not a crash

/-- `step` with `check_stack_overflow`: a call that pushes a frame so that the frame stack reaches `limit` frames
(`stack_frames.len() >= STACK_LIMIT`, tested right after the push in `handle_function_call_closure`) is an error. -/
def stepLimited (limit : Nat) (c : Cfg) : LRes :=
  match step c with
  | .next c' => if c.frames.length < c'.frames.length ∧ limit ≤ c'.frames.length then .overflow else .next c'
  | .halt v st => .halt v st
  | .err e => .err e

inductive LOut where
  | ok (v : VVal) (st : St (List Instr))
  | err (e : Err)
  | overflow
  | timeout

def runLimited (limit : Nat) : Nat → Cfg → LOut
  | 0, _ => .timeout
  | fuel + 1, c =>
    match stepLimited limit c with
    | .next c' => runLimited limit fuel c'
    | .halt v st => .ok v st
    | .err e => .err e
    | .overflow => .overflow

def stepsL (limit : Nat) : Nat → Cfg → Option Cfg
  | 0, c => some c
  | n + 1, c =>
    match stepLimited limit c with
    | .next c' => stepsL limit n c'
    | _ => none

theorem runL_of_steps (limit : Nat) : ∀ (n m : Nat) (a b : Cfg),
    stepsL limit n a = some b → runLimited limit (n + m) a = runLimited limit m b := by
  intro n
  induction n with
  | zero => intro m a b h; simp [stepsL] at h; subst h; simp
  | succ n ih =>
    intro m a b h
    rw [Nat.add_right_comm]
    simp only [stepsL] at h
    simp only [runLimited]
    cases hs : stepLimited limit a with
    | next c' => rw [hs] at h; exact ih m c' b h
    | halt v st => rw [hs] at h; cases h
    | err e => rw [hs] at h; cases h
    | overflow => rw [hs] at h; cases h

/-! ## Unbounded non-tail recursion -/

/-- `(define (deep) (+ 1 (deep)))`: the recursive call is an operand, not in tail position. -/
def deepBody : Core := .callG 0 [.const (.int 1), .callG 13 []]

def deepCode : List Instr := [.LOADINT1, .CALLGLOBAL 13, .FUNC 0, .CALLGLOBALTAIL 0, .TAILCALL 2, .POPPURE]

theorem deepCode_eq : bodyCode deepBody = deepCode := by decide

def stDeep : St (List Instr) := ⟨[], (13, .clo 0 false deepCode []) :: primGlobals⟩

theorem stDeep_eq :
    runProgram 20 [compileTop (.define 13 (.lam 0 false [] deepBody))] (toSt ⟨[], primGlobals⟩) = .ok ([.void], stDeep) := by
  rfl

def topDeep : List Instr := [.CALLGLOBAL 13, .FUNC 0, .POPPURE]

example : compileTop (.callG 13 []) = topDeep := by decide

def atD (s : List VVal) (fs : List Frame) : Cfg := { code := deepCode, ip := 0, stack := s, frames := fs, st := stDeep }

theorem splitLast_zero {β : Type} (l : List β) : splitLast 0 l = some (l, []) := by
  simpa using splitLast_append 0 l [] rfl

theorem deep_lookup : lookupG 13 stDeep.globals = some (.clo 0 false deepCode []) := by
  simp [stDeep, lookupG]

def atD1 (s : List VVal) (fs : List Frame) : Cfg :=
  { code := deepCode, ip := 1, stack := s ++ [V.int 1], frames := fs, st := stDeep }

def newFrame (s : List VVal) : Frame :=
  { sp := s.length + 1, retIp := 3, retCode := deepCode, arity := 0, rest := false, caps := [] }

/-- One level of the recursion: push `1`, … -/
theorem deep_s1 (s : List VVal) (fs : List Frame) : step (atD s fs) = .next (atD1 s fs) := by
  simp [step, atD, atD1, deepCode]

/-- … call `deep` (a new frame). -/
theorem deep_s2 (s : List VVal) (fs : List Frame) :
    step (atD1 s fs) = .next (atD (s ++ [V.int 1]) (newFrame s :: fs)) := by
  simp [step, atD, atD1, newFrame, deepCode, deep_lookup, callFn, splitLast_zero, bindArgs]

theorem deep_level (limit : Nat) (s : List VVal) (fs : List Frame) (h : fs.length + 1 < limit) :
    stepsL limit 2 (atD s fs) = some (atD (s ++ [V.int 1]) (newFrame s :: fs)) := by
  have hn : ¬ (limit ≤ fs.length + 1) := by omega
  have l1 : stepLimited limit (atD s fs) = .next (atD1 s fs) := by
    simp only [stepLimited, deep_s1]; simp [atD, atD1]
  have l2 : stepLimited limit (atD1 s fs) = .next (atD (s ++ [V.int 1]) (newFrame s :: fs)) := by
    simp only [stepLimited, deep_s2]; simp [atD, atD1, hn]
  simp only [stepsL, l1, l2]

theorem deep_overflow_at (limit : Nat) (s : List VVal) (fs : List Frame) (h : limit ≤ fs.length + 1) (x : Nat) :
    runLimited limit (2 + x) (atD s fs) = .overflow := by
  rw [show 2 + x = x + 1 + 1 by omega]
  have l1 : stepLimited limit (atD s fs) = .next (atD1 s fs) := by
    simp only [stepLimited, deep_s1]; simp [atD, atD1]
  have l2 : stepLimited limit (atD1 s fs) = .overflow := by
    simp only [stepLimited, deep_s2]; simp [atD, atD1, h]
  simp only [runLimited, l1, l2]

theorem deep_from (limit : Nat) : ∀ (d : Nat) (s : List VVal) (fs : List Frame) (x : Nat),
    limit ≤ fs.length + 1 + d → runLimited limit (2 * d + 2 + x) (atD s fs) = .overflow
  | 0, s, fs, x, h => by
    simpa using deep_overflow_at limit s fs (by omega) x
  | d + 1, s, fs, x, h => by
    by_cases hl : limit ≤ fs.length + 1
    · have := deep_overflow_at limit s fs hl (2 * (d + 1) + x)
      rw [show 2 * (d + 1) + 2 + x = 2 + (2 * (d + 1) + x) by omega]
      exact this
    · rw [show 2 * (d + 1) + 2 + x = 2 + (2 * d + 2 + x) by omega,
        runL_of_steps limit 2 _ _ _ (deep_level limit s fs (by omega))]
      exact deep_from limit d _ _ x (by simp; omega)

end SteelVerif.C09C
