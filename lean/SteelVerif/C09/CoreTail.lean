/-
C09 on the core WITH CLOSURES (`C01/Core.lean`, namespace `C01C`): tail positions, and what one step of the VM does
to the frame stack.
-/
import SteelVerif.C01.PropsCore
namespace SteelVerif.C09C
open SteelVerif.C01C

/-! ## Tail positions -/

/-- Applications: computed callee, global callee, self call. -/
def isApp : Core → Bool
  | .app _ _ => true
  | .callG _ _ => true
  | .selfTail _ => true
  | _ => false

/-- `TailApp body a`: the application `a` occurs in tail position of `body` (the body itself, both arms of a tail
`if`, the body of a tail `let`, the last form of a tail `begin`, recursively). -/
inductive TailApp : Core → Core → Prop where
  | here (a : Core) : isApp a = true → TailApp a a
  | thenB {c t e a : Core} : TailApp t a → TailApp (.ite c t e) a
  | elseB {c t e a : Core} : TailApp e a → TailApp (.ite c t e) a
  | letB {off : Nat} {inits : List Core} {body a : Core} : TailApp body a → TailApp (.let_ off inits body) a
  | seqB {x b a : Core} : TailApp b a → TailApp (.seq x b) a

/-- The call instruction(s) of an application in tail position. -/
def tailInstrs : Core → List Instr
  | .app _ args => [.TAILCALL args.length]
  | .callG g args => [.CALLGLOBALTAIL g, .TAILCALL args.length]
  | .selfTail args => [.TCOJMP args.length, .PASS 0]
  | _ => []

/-- … and out of tail position. -/
def nonTailInstrs : Core → List Instr
  | .app _ args => [.FUNC args.length]
  | .callG g args => [.CALLGLOBAL g, .FUNC args.length]
  | _ => []

/-- The code of an application compiled in tail position: the operands (and the callee expression), then the tail
call instruction — `TAILCALL`, `CALLGLOBALTAIL`+`TAILCALL`, `TCOJMP` — and nothing else. -/
theorem tail_app_code (a : Core) (h : isApp a = true) (b fin : Nat) :
    ∃ ops, compile true b fin a = ops ++ tailInstrs a := by
  cases a <;> simp [isApp] at h
  · rename_i f args
    exact ⟨compileArgs false b fin args ++ compile false (b + clenL false args) fin f, by simp [compile, tailInstrs]⟩
  · rename_i g args
    exact ⟨compileArgs false b fin args, by simp [compile, tailInstrs]⟩
  · rename_i args
    exact ⟨compileArgs false b fin args, by simp [compile, tailInstrs]⟩

theorem nontail_app_code (f : Core) (args : List Core) (b fin : Nat) :
    ∃ ops, compile false b fin (.app f args) = ops ++ [.FUNC args.length] :=
  ⟨compileArgs false b fin args ++ compile false (b + clenL false args) fin f, by simp [compile]⟩

/-- The code of a sub-expression in tail position is part of the code of the enclosing expression, compiled WITH the
tail flag, at the right address. -/
theorem tail_sub_code {body a : Core} (h : TailApp body a) : ∀ (b fin : Nat),
    ∃ pre post b', compile true b fin body = pre ++ compile true b' fin a ++ post ∧ b' = b + pre.length := by
  induction h with
  | here a _ => intro b fin; exact ⟨[], [], b, by simp, by simp⟩
  | @thenB c t e a _ ih =>
    intro b fin
    obtain ⟨pre, post, b', hc, hb⟩ := ih (b + clen c + 1) fin
    refine ⟨compile false b fin c ++ [.IF (b + clen c + 1 + clen t + 1)] ++ pre,
      post ++ [if true && (b + clen c + 1 + clen t + 1 + clen e == fin) then .POPJMP
          else .JMP (b + clen c + 1 + clen t + 1 + clen e)] ++ compile true (b + clen c + 1 + clen t + 1) fin e,
      b', ?_, by simp [hb]; omega⟩
    simp only [compile, hc, List.append_assoc]
  | @elseB c t e a _ ih =>
    intro b fin
    obtain ⟨pre, post, b', hc, hb⟩ := ih (b + clen c + 1 + clen t + 1) fin
    refine ⟨compile false b fin c ++ [.IF (b + clen c + 1 + clen t + 1)] ++ compile true (b + clen c + 1) fin t ++
        [if true && (b + clen c + 1 + clen t + 1 + clen e == fin) then .POPJMP
          else .JMP (b + clen c + 1 + clen t + 1 + clen e)] ++ pre, post, b', ?_, by simp [hb]; omega⟩
    simp only [compile, hc, List.append_assoc]
  | @letB off inits body a _ ih =>
    intro b fin
    obtain ⟨pre, post, b', hc, hb⟩ := ih (b + 1 + clenL true inits) fin
    refine ⟨[.BEGINSCOPE] ++ compileArgs true (b + 1) fin inits ++ pre, post ++ [.LETENDSCOPE off], b', ?_,
      by simp [hb]; omega⟩
    simp only [compile, hc, List.append_assoc]
  | @seqB x bb a _ ih =>
    intro b fin
    obtain ⟨pre, post, b', hc, hb⟩ := ih (b + clen x + 1) fin
    refine ⟨compile false b fin x ++ [.POPSINGLE] ++ pre, post, b', ?_, by simp [hb]; omega⟩
    simp only [compile, hc, List.append_assoc]

/-! ## One step and the frame stack -/

theorem doRet_frames_le (c c' : Cfg) (h : doRet c = .next c') : c'.frames.length ≤ c.frames.length := by
  have := doRet_frames c c' h; omega

theorem callFn_frames (c c' : Cfg) (stack : List VVal) (f : VVal) (n ret : Nat) (h : callFn c stack f n ret = .next c') :
    (c'.frames.length = c.frames.length ∧ V.isProc f = true ∧ (∃ p, f = .prim p)) ∨
    (c'.frames.length = c.frames.length + 1 ∧ ∃ a r b cc, f = .clo a r b cc) := by
  unfold callFn at h
  cases hs : splitLast n stack with
  | none => simp [hs] at h
  | some p =>
    obtain ⟨below, args⟩ := p
    simp only [hs] at h
    cases f with
    | prim p =>
      simp only at h
      cases hp : p.apply args with
      | ok r => simp [hp] at h; subst h; exact Or.inl ⟨rfl, rfl, p, rfl⟩
      | err e => simp [hp] at h
      | timeout => simp [hp] at h
    | clo a r body caps =>
      simp only at h
      cases hb : bindArgs a r args with
      | ok locals => simp [hb] at h; subst h; exact Or.inr ⟨by simp, a, r, body, caps, rfl⟩
      | err e => simp [hb] at h
      | timeout => simp [hb] at h
    | int _ => simp at h
    | bool _ => simp at h
    | void => simp at h
    | box _ => simp at h
    | list _ => simp at h

theorem tailFn_frames (c c' : Cfg) (stack : List VVal) (f : VVal) (n : Nat) (pr : Bool) (nx : Nat)
    (h : tailFn c stack f n pr nx = .next c') : c'.frames.length ≤ c.frames.length := by
  unfold tailFn at h
  cases hs : splitLast n stack with
  | none => simp [hs] at h
  | some p =>
    obtain ⟨below, args⟩ := p
    simp only [hs] at h
    cases f with
    | prim p =>
      simp only at h
      cases hp : p.apply args with
      | ok r =>
        simp only [hp] at h
        cases pr
        · simp at h; subst h; simp
        · simp only [if_true] at h
          have := doRet_frames_le _ _ h
          simpa using this
      | err e => simp [hp] at h
      | timeout => simp [hp] at h
    | clo a r body caps =>
      simp only at h
      cases hb : bindArgs a r args with
      | ok locals =>
        simp only [hb] at h
        cases hf : c.frames with
        | nil => simp [hf] at h
        | cons fr rest =>
          simp only [hf] at h
          split at h
          · cases h
          · simp only [StepRes.next.injEq] at h; subst h; simp
      | err e => simp [hb] at h
      | timeout => simp [hb] at h
    | int _ => simp at h
    | bool _ => simp at h
    | void => simp at h
    | box _ => simp at h
    | list _ => simp at h

end SteelVerif.C09C
