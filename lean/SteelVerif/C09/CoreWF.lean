/-
C09 on the core with closures — the well-formedness invariant behind `core_loop_constant_space`.

A small bytecode verifier.  Only two instructions can push a frame: `FUNC` (callee = top of stack) and `CALLGLOBAL`
(callee = a global).  Code of a function body is GOOD (`GoodBody ps code`, `ps` = the global slots that hold primitives
and are never assigned) when
  * every `FUNC n` word is the second word of a two-word instruction (`CALLGLOBAL g` / `NEWBOX` / `UNBOX` / `SETBOX`),
  * every `CALLGLOBAL g` names a primitive slot (`g ∈ ps.slots`),
  * no `IF`/`JMP` targets a `FUNC` word, the word after a box instruction is not itself a two-word instruction,
  * no `BIND g` / `SET g` touches a primitive slot,
  * the body of every closure created inside is good again.
No alignment analysis is needed: with these rules the instruction pointer can never land on a `FUNC` word (`nf1`,
`nf2`), so inside a body no frame is ever pushed.  Top-level code (`GoodTop`) may call anything — that is the one frame.
The invariant `Inv` says in addition that every closure VALUE anywhere (operand stack, boxes, globals, captured
lists, nested inside lists/closures) has a good body and that the primitive slots still hold primitives.
`goodBodyB`/`goodTopB` are the executable checkers (sound: `goodBodyB_sound`, `goodTopB_sound`).
-/
import SteelVerif.C09.CoreLoop
namespace SteelVerif.C09C
open SteelVerif.C01C

/-- Parameters of the static check: the global slots that hold primitives (and are never assigned), the largest number
of operands of a call, the largest length of an instruction sequence. -/
structure Params where
  slots : List Nat
  maxN : Nat
  maxLen : Nat

def isTwo : Instr → Bool
  | .CALLGLOBAL _ => true
  | .NEWBOX => true
  | .UNBOX => true
  | .SETBOX => true
  | _ => false

def NotFunc (code : List Instr) (i : Nat) : Prop := ∀ n, code[i]? ≠ some (Instr.FUNC n)

structure BodyRules (ps : Params) (code : List Instr) : Prop where
  func : ∀ (j n : Nat), code[j]? = some (Instr.FUNC n) → ∃ i x, j = i + 1 ∧ code[i]? = some x ∧ isTwo x = true
  callg : ∀ (j g : Nat), code[j]? = some (Instr.CALLGLOBAL g) → g ∈ ps.slots
  jump : ∀ (j t : Nat), (code[j]? = some (Instr.IF t) ∨ code[j]? = some (Instr.JMP t)) → NotFunc code t
  bind : ∀ (j g : Nat), (code[j]? = some (Instr.BIND g) ∨ code[j]? = some (Instr.SET g)) → g ∉ ps.slots
  filler : ∀ (j : Nat), (code[j]? = some Instr.NEWBOX ∨ code[j]? = some Instr.UNBOX ∨ code[j]? = some Instr.SETBOX) →
    ∀ y, code[j + 1]? = some y → isTwo y = false
  len : code.length ≤ ps.maxLen
  payload : ∀ (j n : Nat), (code[j]? = some (Instr.TAILCALL n) ∨ code[j]? = some (Instr.TCOJMP n)) → n ≤ ps.maxN

inductive GoodBody (ps : Params) : List Instr → Prop where
  | mk {code : List Instr} : BodyRules ps code →
      (∀ (j s : Nat) (body : List Instr), code[j]? = some (Instr.PUREFUNC s) → slice code (j + 3) (s - 3) = some body → GoodBody ps body) →
      (∀ (j s n : Nat) (body : List Instr), code[j]? = some (Instr.NEWSCLOSURE s) → code[j + 3]? = some (Instr.NDEFS n) →
        slice code (j + 4 + n) (s - 4 - n) = some body → GoodBody ps body) →
      GoodBody ps code

theorem GoodBody.rules {ps : Params} {code : List Instr} (h : GoodBody ps code) : BodyRules ps code := by
  cases h; assumption
theorem GoodBody.pure {ps : Params} {code : List Instr} (h : GoodBody ps code) :
    ∀ (j s : Nat) (body : List Instr), code[j]? = some (Instr.PUREFUNC s) → slice code (j + 3) (s - 3) = some body → GoodBody ps body := by
  cases h; assumption
theorem GoodBody.clos {ps : Params} {code : List Instr} (h : GoodBody ps code) :
    ∀ (j s n : Nat) (body : List Instr), code[j]? = some (Instr.NEWSCLOSURE s) → code[j + 3]? = some (Instr.NDEFS n) →
      slice code (j + 4 + n) (s - 4 - n) = some body → GoodBody ps body := by
  cases h; assumption

structure GoodTop (ps : Params) (code : List Instr) : Prop where
  len : code.length ≤ ps.maxLen
  payload : ∀ (j n : Nat), code[j]? = some (Instr.FUNC n) → n ≤ ps.maxN
  bind : ∀ (j g : Nat), (code[j]? = some (Instr.BIND g) ∨ code[j]? = some (Instr.SET g)) → g ∉ ps.slots
  pure : ∀ (j s : Nat) (body : List Instr), code[j]? = some (Instr.PUREFUNC s) → slice code (j + 3) (s - 3) = some body → GoodBody ps body
  clos : ∀ (j s n : Nat) (body : List Instr), code[j]? = some (Instr.NEWSCLOSURE s) → code[j + 3]? = some (Instr.NDEFS n) →
      slice code (j + 4 + n) (s - 4 - n) = some body → GoodBody ps body

/-- The instruction pointer cannot reach a `FUNC` word by stepping over a one-word instruction … -/
theorem nf1 {ps : Params} {code : List Instr} (h : GoodBody ps code) {ip : Nat} {x : Instr}
    (hi : code[ip]? = some x) (hx : isTwo x = false) : NotFunc code (ip + 1) := by
  intro n hn
  obtain ⟨i, y, hj, hy, hy2⟩ := h.rules.func (ip + 1) n hn
  have : i = ip := by omega
  subst this
  rw [hi] at hy; cases hy
  rw [hx] at hy2; cases hy2

/-- … nor by stepping over a two-word one … -/
theorem nf2 {ps : Params} {code : List Instr} (h : GoodBody ps code) {ip : Nat}
    (hfill : ∀ y, code[ip + 1]? = some y → isTwo y = false) : NotFunc code (ip + 2) := by
  intro n hn
  obtain ⟨i, y, hj, hy, hy2⟩ := h.rules.func (ip + 2) n hn
  have : i = ip + 1 := by omega
  subst this
  rw [hfill y hy] at hy2; cases hy2

/-- … nor by entering the body. -/
theorem nf0 {ps : Params} {code : List Instr} (h : GoodBody ps code) : NotFunc code 0 := by
  intro n hn
  obtain ⟨i, y, hj, _, _⟩ := h.rules.func 0 n hn
  omega

/-! ## Values -/

inductive GoodV (ps : Params) : VVal → Prop where
  | int (n : Int) : GoodV ps (.int n)
  | bool (b : Bool) : GoodV ps (.bool b)
  | void : GoodV ps .void
  | box (a : Nat) : GoodV ps (.box a)
  | prim (p : Prim) : GoodV ps (.prim p)
  | list (xs : List VVal) : (∀ x, x ∈ xs → GoodV ps x) → GoodV ps (.list xs)
  | clo (a : Nat) (r : Bool) (code : List Instr) (caps : List VVal) :
      GoodBody ps code → (∀ x, x ∈ caps → GoodV ps x) → GoodV ps (.clo a r code caps)

def GoodL (ps : Params) (l : List VVal) : Prop := ∀ x, x ∈ l → GoodV ps x

theorem GoodL.nil (ps : Params) : GoodL ps [] := by intro x hx; cases hx
theorem GoodL.append {ps : Params} {a b : List VVal} (ha : GoodL ps a) (hb : GoodL ps b) : GoodL ps (a ++ b) := by
  intro x hx; rcases List.mem_append.1 hx with h | h; exact ha x h; exact hb x h
theorem GoodL.single {ps : Params} {v : VVal} (hv : GoodV ps v) : GoodL ps [v] := by
  intro x hx; simp at hx; subst hx; exact hv
theorem GoodL.left {ps : Params} {a b : List VVal} (h : GoodL ps (a ++ b)) : GoodL ps a :=
  fun x hx => h x (List.mem_append.2 (Or.inl hx))
theorem GoodL.right {ps : Params} {a b : List VVal} (h : GoodL ps (a ++ b)) : GoodL ps b :=
  fun x hx => h x (List.mem_append.2 (Or.inr hx))
theorem GoodL.get {ps : Params} {l : List VVal} (h : GoodL ps l) {i : Nat} {v : VVal} (hv : l[i]? = some v) :
    GoodV ps v := h v (List.mem_of_getElem? hv)
theorem GoodL.dropLast {ps : Params} {l : List VVal} (h : GoodL ps l) : GoodL ps l.dropLast :=
  fun x hx => h x (List.dropLast_subset l hx)
theorem GoodL.take {ps : Params} {l : List VVal} (h : GoodL ps l) (n : Nat) : GoodL ps (l.take n) :=
  fun x hx => h x (List.mem_of_mem_take hx)
theorem GoodL.drop {ps : Params} {l : List VVal} (h : GoodL ps l) (n : Nat) : GoodL ps (l.drop n) :=
  fun x hx => h x (List.mem_of_mem_drop hx)
theorem GoodL.set {ps : Params} {l : List VVal} (h : GoodL ps l) (i : Nat) {v : VVal} (hv : GoodV ps v) :
    GoodL ps (l.set i v) := by
  intro x hx
  rcases List.mem_or_eq_of_mem_set hx with h1 | h1
  · exact h x h1
  · subst h1; exact hv
theorem GoodL.getLast {ps : Params} {l : List VVal} (h : GoodL ps l) {v : VVal} (hv : l.getLast? = some v) :
    GoodV ps v := h v (List.mem_of_getLast? hv)

theorem splitLast_good {ps : Params} {n : Nat} {l lo hi : List VVal} (h : GoodL ps l)
    (hs : splitLast n l = some (lo, hi)) : GoodL ps lo ∧ GoodL ps hi := by
  obtain ⟨rfl, _, _⟩ := splitLast_some hs
  exact ⟨h.left, h.right⟩

theorem bindArgs_good {ps : Params} {a : Nat} {r : Bool} {args locals : List VVal} (h : GoodL ps args)
    (hb : bindArgs a r args = .ok locals) : GoodL ps locals := by
  unfold bindArgs at hb
  cases r
  · simp at hb; split at hb
    · simp at hb; subst hb; exact h
    · cases hb
  · simp at hb
    split at hb
    · cases hb
    · simp at hb; subst hb
      exact (h.take _).append (GoodL.single (.list _ (h.drop _)))

theorem prim_good {ps : Params} {p : Prim} {args : List VVal} {r : VVal} (h : p.apply args = .ok r) : GoodV ps r := by
  rcases args with _ | ⟨x, _ | ⟨y, _ | ⟨z, t⟩⟩⟩
  · simp [Prim.apply] at h
  · simp [Prim.apply] at h
  · cases x <;> cases y <;> simp [Prim.apply] at h
    subst h
    cases p <;> first | exact .int _ | exact .bool _
  · simp [Prim.apply] at h

theorem boxop_good {ps : Params} {op : BoxOp} {args : List VVal} {st st' : St (List Instr)} {r : VVal}
    (ha : GoodL ps args) (hst : GoodL ps st.store) (h : op.apply args st = .ok (r, st')) :
    GoodV ps r ∧ GoodL ps st'.store ∧ st'.globals = st.globals := by
  rcases args with _ | ⟨x, _ | ⟨y, _ | ⟨z, t⟩⟩⟩
  · cases op <;> simp [BoxOp.apply] at h
  · cases op
    · simp [BoxOp.apply] at h
      obtain ⟨rfl, rfl⟩ := h
      exact ⟨.box _, hst.append (GoodL.single (ha x (by simp))), rfl⟩
    · cases x <;> simp [BoxOp.apply] at h
      rename_i a
      cases hg : st.store[a]? with
      | none => simp [hg] at h
      | some v =>
        simp [hg] at h
        obtain ⟨rfl, rfl⟩ := h
        exact ⟨hst.get hg, hst, rfl⟩
    · simp [BoxOp.apply] at h
  · cases op
    · simp [BoxOp.apply] at h
    · simp [BoxOp.apply] at h
    · cases x <;> simp [BoxOp.apply] at h
      rename_i a
      cases hg : st.store[a]? with
      | none => simp [hg] at h
      | some v =>
        simp [hg] at h
        obtain ⟨rfl, rfl⟩ := h
        exact ⟨hst.get hg, hst.set _ (ha y (by simp)), rfl⟩
  · cases op <;> simp [BoxOp.apply] at h

theorem captureWords_good {ps : Params} {stack caps : List VVal} (hs : GoodL ps stack) (hc : GoodL ps caps)
    (sp : Nat) : ∀ (words : List Instr) (cv : List VVal), captureWords stack sp caps words = some cv → GoodL ps cv := by
  intro words
  induction words with
  | nil => intro cv h; simp [captureWords] at h; subst h; exact GoodL.nil ps
  | cons w ws ih =>
    intro cv h
    cases w <;> simp only [captureWords] at h <;> try (cases h; done)
    · rename_i i
      cases h1 : stack[sp + i]? with
      | none => simp [h1] at h
      | some v =>
        cases h2 : captureWords stack sp caps ws with
        | none => simp [h1, h2] at h
        | some vs =>
          simp [h1, h2] at h; subst h
          exact (GoodL.single (hs.get h1)).append (ih vs h2)
    · rename_i i
      cases h1 : caps[i]? with
      | none => simp [h1] at h
      | some v =>
        cases h2 : captureWords stack sp caps ws with
        | none => simp [h1, h2] at h
        | some vs =>
          simp [h1, h2] at h; subst h
          exact (GoodL.single (hc.get h1)).append (ih vs h2)

theorem lookupG_mem {α : Type} {g : Nat} {gs : List (Nat × V α)} {v : V α} (h : lookupG g gs = some v) :
    (g, v) ∈ gs := by
  induction gs with
  | nil => simp [lookupG] at h
  | cons p gs ih =>
    obtain ⟨k, w⟩ := p
    simp only [lookupG] at h
    by_cases hk : k = g
    · simp [hk] at h; subst h; subst hk; simp
    · simp [hk] at h; exact List.mem_cons_of_mem _ (ih h)

/-! ## The invariant -/

def FramesOk (ps : Params) (code : List Instr) (ip : Nat) : List Frame → Prop
  | [] => GoodTop ps code
  | [f] => GoodBody ps code ∧ NotFunc code ip ∧ GoodTop ps f.retCode ∧ GoodL ps f.caps
  | _ :: _ :: _ => False

structure StOk (ps : Params) (st : St (List Instr)) : Prop where
  store : GoodL ps st.store
  globs : ∀ g v, (g, v) ∈ st.globals → GoodV ps v
  prims : ∀ g, g ∈ ps.slots → ∃ p, lookupG g st.globals = some (V.prim p)

structure Inv (ps : Params) (c : Cfg) : Prop where
  stack : GoodL ps c.stack
  st : StOk ps c.st
  frames : FramesOk ps c.code c.ip c.frames

theorem Inv.len {ps : Params} {c : Cfg} (h : Inv ps c) : c.frames.length ≤ 1 := by
  have := h.frames
  match hf : c.frames with
  | [] => simp
  | [f] => simp
  | _ :: _ :: _ => rw [hf] at this; exact this.elim

theorem Inv.body {ps : Params} {c : Cfg} (h : Inv ps c) {f : Frame} (hf : c.frames = [f]) : GoodBody ps c.code := by
  have := h.frames; rw [hf] at this; exact this.1

theorem Inv.caps {ps : Params} {c : Cfg} (h : Inv ps c) : GoodL ps (capsOf c.frames) := by
  have := h.frames
  match hf : c.frames with
  | [] => simp [capsOf]; exact GoodL.nil ps
  | [f] => rw [hf] at this; simpa [capsOf] using this.2.2.2
  | _ :: _ :: _ => rw [hf] at this; exact this.elim

/-- The rule on `BIND`/`SET`, whatever the level. -/
theorem Inv.bindrule {ps : Params} {c : Cfg} (h : Inv ps c) {g : Nat}
    (hi : c.code[c.ip]? = some (Instr.BIND g) ∨ c.code[c.ip]? = some (Instr.SET g)) : g ∉ ps.slots := by
  have := h.frames
  match hf : c.frames with
  | [] => rw [hf] at this; exact this.bind _ g hi
  | [f] => rw [hf] at this; exact this.1.rules.bind _ g hi
  | _ :: _ :: _ => rw [hf] at this; exact this.elim

/-- Closure bodies cut out of the current code are good, whatever the level. -/
theorem Inv.purerule {ps : Params} {c : Cfg} (h : Inv ps c) {s : Nat} {body : List Instr}
    (hi : c.code[c.ip]? = some (Instr.PUREFUNC s)) (hs : slice c.code (c.ip + 3) (s - 3) = some body) : GoodBody ps body := by
  have := h.frames
  match hf : c.frames with
  | [] => rw [hf] at this; exact this.pure _ s body hi hs
  | [f] => rw [hf] at this; exact this.1.pure _ s body hi hs
  | _ :: _ :: _ => rw [hf] at this; exact this.elim

theorem Inv.closrule {ps : Params} {c : Cfg} (h : Inv ps c) {s n : Nat} {body : List Instr}
    (hi : c.code[c.ip]? = some (Instr.NEWSCLOSURE s)) (hn : c.code[c.ip + 3]? = some (Instr.NDEFS n))
    (hs : slice c.code (c.ip + 4 + n) (s - 4 - n) = some body) : GoodBody ps body := by
  have := h.frames
  match hf : c.frames with
  | [] => rw [hf] at this; exact this.clos _ s n body hi hn hs
  | [f] => rw [hf] at this; exact this.1.clos _ s n body hi hn hs
  | _ :: _ :: _ => rw [hf] at this; exact this.elim

/-- A step that only moves the instruction pointer and changes the operand stack and the state. -/
theorem inv_simple {ps : Params} {c : Cfg} (h : Inv ps c) (ip' : Nat) (s' : List VVal) (st' : St (List Instr))
    (hs : GoodL ps s') (hst : StOk ps st') (hip : ∀ f, c.frames = [f] → NotFunc c.code ip') :
    Inv ps { c with ip := ip', stack := s', st := st' } := by
  refine ⟨hs, hst, ?_⟩
  have := h.frames
  match hf : c.frames with
  | [] => rw [hf] at this; simpa [FramesOk, hf] using this
  | [f] => rw [hf] at this; simp only [FramesOk]; exact ⟨this.1, hip f hf, this.2.2⟩
  | _ :: _ :: _ => rw [hf] at this; exact this.elim

/-! ## Executable checkers -/

def sizeB (ps : Params) (top : Bool) (code : List Instr) : Bool :=
  decide (code.length ≤ ps.maxLen) && (List.range code.length).all fun j =>
    match code[j]? with
    | some (Instr.TAILCALL n) => top || decide (n ≤ ps.maxN)
    | some (Instr.TCOJMP n) => top || decide (n ≤ ps.maxN)
    | some (Instr.FUNC n) => !top || decide (n ≤ ps.maxN)
    | _ => true

def bodyRulesB (ps : Params) (code : List Instr) : Bool :=
  sizeB ps false code && (List.range code.length).all fun j =>
    match code[j]? with
    | some (Instr.FUNC _) => decide (1 ≤ j) && (match code[j - 1]? with | some x => isTwo x | none => false)
    | some (Instr.CALLGLOBAL g) => ps.slots.contains g
    | some (Instr.IF t) => (match code[t]? with | some (Instr.FUNC _) => false | _ => true)
    | some (Instr.JMP t) => (match code[t]? with | some (Instr.FUNC _) => false | _ => true)
    | some (Instr.BIND g) => !ps.slots.contains g
    | some (Instr.SET g) => !ps.slots.contains g
    | some Instr.NEWBOX => (match code[j + 1]? with | some y => !isTwo y | none => true)
    | some Instr.UNBOX => (match code[j + 1]? with | some y => !isTwo y | none => true)
    | some Instr.SETBOX => (match code[j + 1]? with | some y => !isTwo y | none => true)
    | _ => true

def closB (good : List Instr → Bool) (code : List Instr) : Bool :=
  (List.range code.length).all fun j =>
    match code[j]? with
    | some (Instr.PUREFUNC s) => (match slice code (j + 3) (s - 3) with | some body => good body | none => true)
    | some (Instr.NEWSCLOSURE s) =>
        (match code[j + 3]? with
         | some (Instr.NDEFS n) => (match slice code (j + 4 + n) (s - 4 - n) with | some body => good body | none => true)
         | _ => true)
    | _ => true

def goodBodyB : Nat → Params → List Instr → Bool
  | 0, _, _ => false
  | fuel + 1, ps, code => bodyRulesB ps code && closB (goodBodyB fuel ps) code

def bindB (ps : Params) (code : List Instr) : Bool :=
  (List.range code.length).all fun j =>
    match code[j]? with
    | some (Instr.BIND g) => !ps.slots.contains g
    | some (Instr.SET g) => !ps.slots.contains g
    | _ => true

/-- The static predicate on a top-level instruction sequence (fuel = nesting depth of lambdas, any bound). -/
def goodTopB (fuel : Nat) (ps : Params) (code : List Instr) : Bool :=
  sizeB ps true code && (bindB ps code && closB (goodBodyB fuel ps) code)

theorem notFunc_of_match {code : List Instr} {t : Nat}
    (h : (match code[t]? with | some (Instr.FUNC _) => false | _ => true) = true) : NotFunc code t := by
  intro n hn
  rw [hn] at h
  simp at h

theorem lt_of_get {code : List Instr} {j : Nat} {x : Instr} (h : code[j]? = some x) : j ∈ List.range code.length := by
  rw [List.mem_range]
  rcases Nat.lt_or_ge j code.length with h1 | h1
  · exact h1
  · simp [List.getElem?_eq_none h1] at h

theorem sizeB_len {ps : Params} {top : Bool} {code : List Instr} (h : sizeB ps top code = true) :
    code.length ≤ ps.maxLen := by
  simp only [sizeB, Bool.and_eq_true, decide_eq_true_eq] at h; exact h.1

theorem sizeB_tail {ps : Params} {code : List Instr} (h : sizeB ps false code = true) (j n : Nat)
    (hj : code[j]? = some (Instr.TAILCALL n) ∨ code[j]? = some (Instr.TCOJMP n)) : n ≤ ps.maxN := by
  simp only [sizeB, Bool.and_eq_true, List.all_eq_true] at h
  rcases hj with hj | hj
  · have := h.2 j (lt_of_get hj); simpa [hj] using this
  · have := h.2 j (lt_of_get hj); simpa [hj] using this

theorem sizeB_func {ps : Params} {code : List Instr} (h : sizeB ps true code = true) (j n : Nat)
    (hj : code[j]? = some (Instr.FUNC n)) : n ≤ ps.maxN := by
  simp only [sizeB, Bool.and_eq_true, List.all_eq_true] at h
  have := h.2 j (lt_of_get hj); simpa [hj] using this

theorem bodyRulesB_sound {ps : Params} {code : List Instr} (h : bodyRulesB ps code = true) : BodyRules ps code := by
  unfold bodyRulesB at h
  rw [Bool.and_eq_true] at h
  obtain ⟨hsz, h⟩ := h
  rw [List.all_eq_true] at h
  refine ⟨?_, ?_, ?_, ?_, ?_, sizeB_len hsz, sizeB_tail hsz⟩
  · intro j n hj
    have := h j (lt_of_get hj)
    simp only [hj, Bool.and_eq_true, decide_eq_true_eq] at this
    obtain ⟨h1, h2⟩ := this
    cases hx : code[j - 1]? with
    | none => simp [hx] at h2
    | some x => simp [hx] at h2; exact ⟨j - 1, x, by omega, hx, h2⟩
  · intro j g hj
    have := h j (lt_of_get hj)
    simpa [hj] using this
  · intro j t hj
    rcases hj with hj | hj
    · have := h j (lt_of_get hj); simp only [hj] at this; exact notFunc_of_match this
    · have := h j (lt_of_get hj); simp only [hj] at this; exact notFunc_of_match this
  · intro j g hj
    rcases hj with hj | hj
    · have := h j (lt_of_get hj); simpa [hj] using this
    · have := h j (lt_of_get hj); simpa [hj] using this
  · intro j hj y hy
    rcases hj with hj | hj | hj
    · have := h j (lt_of_get hj); simpa [hj, hy] using this
    · have := h j (lt_of_get hj); simpa [hj, hy] using this
    · have := h j (lt_of_get hj); simpa [hj, hy] using this

theorem closB_pure {good : List Instr → Bool} {code : List Instr} (h : closB good code = true)
    {j s : Nat} {body : List Instr} (hj : code[j]? = some (Instr.PUREFUNC s)) (hs : slice code (j + 3) (s - 3) = some body) :
    good body = true := by
  unfold closB at h
  rw [List.all_eq_true] at h
  have := h j (lt_of_get hj)
  simpa [hj, hs] using this

theorem closB_clos {good : List Instr → Bool} {code : List Instr} (h : closB good code = true)
    {j s n : Nat} {body : List Instr} (hj : code[j]? = some (Instr.NEWSCLOSURE s)) (hn : code[j + 3]? = some (Instr.NDEFS n))
    (hs : slice code (j + 4 + n) (s - 4 - n) = some body) : good body = true := by
  unfold closB at h
  rw [List.all_eq_true] at h
  have := h j (lt_of_get hj)
  simpa [hj, hn, hs] using this

theorem goodBodyB_sound (ps : Params) : ∀ (fuel : Nat) (code : List Instr), goodBodyB fuel ps code = true →
    GoodBody ps code := by
  intro fuel
  induction fuel with
  | zero => intro code h; simp [goodBodyB] at h
  | succ fuel ih =>
    intro code h
    simp only [goodBodyB, Bool.and_eq_true] at h
    refine .mk (bodyRulesB_sound h.1) ?_ ?_
    · intro j s body hj hs; exact ih body (closB_pure h.2 hj hs)
    · intro j s n body hj hn hs; exact ih body (closB_clos h.2 hj hn hs)

theorem goodTopB_sound (fuel : Nat) (ps : Params) (code : List Instr) (h : goodTopB fuel ps code = true) :
    GoodTop ps code := by
  simp only [goodTopB, Bool.and_eq_true] at h
  obtain ⟨hsz, h⟩ := h
  refine ⟨sizeB_len hsz, sizeB_func hsz, ?_, ?_, ?_⟩
  · intro j g hj
    have hb := h.1
    unfold bindB at hb
    rw [List.all_eq_true] at hb
    rcases hj with hj | hj
    · have := hb j (lt_of_get hj); simpa [hj] using this
    · have := hb j (lt_of_get hj); simpa [hj] using this
  · intro j s body hj hs; exact goodBodyB_sound ps fuel body (closB_pure h.2 hj hs)
  · intro j s n body hj hn hs; exact goodBodyB_sound ps fuel body (closB_clos h.2 hj hn hs)

end SteelVerif.C09C
