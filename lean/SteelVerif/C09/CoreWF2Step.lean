/-
C09 on the core with closures — `T.Inv` (boundary-based rules) is preserved by every instruction.
-/
import SteelVerif.C09.CoreWF2
namespace SteelVerif.C09C.T
open SteelVerif.C01C SteelVerif.C09C

variable {ps : Params}

theorem goodConst (k : Const) : GoodV ps (k.toV) := by
  cases k <;> simp only [Const.toV] <;> constructor

theorem okNext {c : Cfg} (h : Inv ps c) {x : Instr} (hi : c.code[c.ip]? = some x) {w : Nat}
    (hw : width c.code c.ip = w) : Ok c.code (c.ip + w) := hw ▸ (h.code.2.next hi)

theorem inv_doRet {c c' : Cfg} (h : Inv ps c) (hs : doRet c = .next c') : Inv ps c' := by
  unfold doRet at hs
  cases hl : c.stack.getLast? with
  | none => simp [hl] at hs
  | some v =>
    simp only [hl] at hs
    have hfr := h.frames
    match hf : c.frames with
    | [] => rw [hf] at hs; simp at hs
    | [f] =>
      rw [hf] at hs hfr
      simp only at hs
      split at hs
      · cases hs
      · simp only [StepRes.next.injEq] at hs; subst hs
        exact ⟨(h.stack.take _).append (GoodL.single (h.stack.getLast hl)), h.st, hfr.2.2.1, hfr.2.2.2.1⟩
    | _ :: _ :: _ => rw [hf] at hfr; exact hfr.elim

theorem inv_callFn {c c' : Cfg} (h : Inv ps c) (stack : List VVal) (hstack : GoodL ps stack) (f : VVal)
    (hf : GoodV ps f) (n ret : Nat)
    (hlev : c.frames = [] ∨ (∃ p, f = .prim p)) (hret : Ok c.code ret)
    (hs : callFn c stack f n ret = .next c') : Inv ps c' := by
  unfold callFn at hs
  cases hsp : splitLast n stack with
  | none => simp [hsp] at hs
  | some p =>
    obtain ⟨below, args⟩ := p
    obtain ⟨hb, ha⟩ := splitLast_good hstack hsp
    simp only [hsp] at hs
    cases f with
    | prim p =>
      simp only at hs
      cases hp : p.apply args with
      | ok r =>
        simp only [hp, StepRes.next.injEq] at hs; subst hs
        exact inv_simple h _ _ _ (hb.append (GoodL.single (prim_good hp))) h.st hret
      | err e => simp [hp] at hs
      | timeout => simp [hp] at hs
    | clo a r body caps =>
      simp only at hs
      cases hbd : bindArgs a r args with
      | ok locals =>
        simp only [hbd, StepRes.next.injEq] at hs; subst hs
        rcases hlev with hl | ⟨p, hp⟩
        · cases hf with
          | clo _ _ _ _ hbody hcaps =>
            refine ⟨hb.append (bindArgs_good ha hbd), h.st, ?_⟩
            have hfr := h.frames
            rw [hl] at hfr
            simp only [hl, FramesOk]
            exact ⟨hbody, Ok.zero _, hfr.1, hret, hcaps⟩
        · cases hp
      | err e => simp [hbd] at hs
      | timeout => simp [hbd] at hs
    | int _ => simp at hs
    | bool _ => simp at hs
    | void => simp at hs
    | box _ => simp at hs
    | list _ => simp at hs

theorem inv_tailFn {c c' : Cfg} (h : Inv ps c) (stack : List VVal) (hstack : GoodL ps stack) (f : VVal)
    (hf : GoodV ps f) (n : Nat) (pr : Bool) (nx : Nat) (hnx : Ok c.code nx)
    (hs : tailFn c stack f n pr nx = .next c') : Inv ps c' := by
  unfold tailFn at hs
  cases hsp : splitLast n stack with
  | none => simp [hsp] at hs
  | some p =>
    obtain ⟨below, args⟩ := p
    obtain ⟨hb, ha⟩ := splitLast_good hstack hsp
    simp only [hsp] at hs
    cases f with
    | prim p =>
      simp only at hs
      cases hp : p.apply args with
      | ok r =>
        simp only [hp] at hs
        cases pr
        · simp only [Bool.false_eq_true, if_false, StepRes.next.injEq] at hs; subst hs
          exact inv_simple h _ _ _ (hb.append (GoodL.single (prim_good hp))) h.st hnx
        · simp only [if_true] at hs
          have h2 : Inv ps { c with ip := c.ip, stack := below ++ [r], st := c.st } :=
            inv_simple h _ _ _ (hb.append (GoodL.single (prim_good hp))) h.st h.code.2
          exact inv_doRet h2 hs
      | err e => simp [hp] at hs
      | timeout => simp [hp] at hs
    | clo a r body caps =>
      simp only at hs
      cases hbd : bindArgs a r args with
      | ok locals =>
        simp only [hbd] at hs
        have hfr := h.frames
        match hfm : c.frames with
        | [] => rw [hfm] at hs; simp at hs
        | [fr] =>
          rw [hfm] at hs hfr
          simp only at hs
          split at hs
          · cases hs
          · simp only [StepRes.next.injEq] at hs; subst hs
            cases hf with
            | clo _ _ _ _ hbody hcaps =>
              refine ⟨(hb.take _).append (bindArgs_good ha hbd), h.st, ?_⟩
              simp only [FramesOk]
              exact ⟨hbody, Ok.zero _, hfr.2.2.1, hfr.2.2.2.1, hcaps⟩
        | _ :: _ :: _ => rw [hfm] at hfr; exact hfr.elim
      | err e => simp [hbd] at hs
      | timeout => simp [hbd] at hs
    | int _ => simp at hs
    | bool _ => simp at hs
    | void => simp at hs
    | box _ => simp at hs
    | list _ => simp at hs

theorem stOk_bind {st : St (List Instr)} (h : StOk ps st) (g : Nat) (v : VVal) (hv : GoodV ps v) (hg : g ∉ ps.slots) :
    StOk ps { st with globals := (g, v) :: st.globals } := by
  refine ⟨h.store, ?_, ?_⟩
  · intro g' v' hm
    simp only [List.mem_cons, Prod.mk.injEq] at hm
    rcases hm with ⟨_, rfl⟩ | hm
    · exact hv
    · exact h.globs g' v' hm
  · intro g' hg'
    obtain ⟨p, hp⟩ := h.prims g' hg'
    refine ⟨p, ?_⟩
    have : g ≠ g' := fun e => hg (e ▸ hg')
    simp [lookupG, this, hp]

/-- **Preservation.** -/
theorem inv_step {c c' : Cfg} (h : Inv ps c) (hs : step c = .next c') : Inv ps c' := by
  cases hi : c.code[c.ip]? with
  | none => simp [step, hi] at hs
  | some ins =>
    cases ins with
    | PUSHCONST k =>
      simp only [step, hi, StepRes.next.injEq] at hs; subst hs
      exact inv_simple h _ _ _ (h.stack.append (GoodL.single (goodConst k))) h.st (okNext h hi (by simp [width, hi]))
    | LOADINT0 =>
      simp only [step, hi, StepRes.next.injEq] at hs; subst hs
      exact inv_simple h _ _ _ (h.stack.append (GoodL.single (.int _))) h.st (okNext h hi (by simp [width, hi]))
    | LOADINT1 =>
      simp only [step, hi, StepRes.next.injEq] at hs; subst hs
      exact inv_simple h _ _ _ (h.stack.append (GoodL.single (.int _))) h.st (okNext h hi (by simp [width, hi]))
    | LOADINT2 =>
      simp only [step, hi, StepRes.next.injEq] at hs; subst hs
      exact inv_simple h _ _ _ (h.stack.append (GoodL.single (.int _))) h.st (okNext h hi (by simp [width, hi]))
    | TRUE =>
      simp only [step, hi, StepRes.next.injEq] at hs; subst hs
      exact inv_simple h _ _ _ (h.stack.append (GoodL.single (.bool _))) h.st (okNext h hi (by simp [width, hi]))
    | FALSE =>
      simp only [step, hi, StepRes.next.injEq] at hs; subst hs
      exact inv_simple h _ _ _ (h.stack.append (GoodL.single (.bool _))) h.st (okNext h hi (by simp [width, hi]))
    | VOID =>
      simp only [step, hi, StepRes.next.injEq] at hs; subst hs
      exact inv_simple h _ _ _ (h.stack.append (GoodL.single .void)) h.st (okNext h hi (by simp [width, hi]))
    | PUSH g =>
      simp only [step, hi] at hs
      cases hg : lookupG g c.st.globals with
      | none => simp [hg] at hs
      | some v =>
        simp only [hg, StepRes.next.injEq] at hs; subst hs
        exact inv_simple h _ _ _ (h.stack.append (GoodL.single (h.st.globs g v (lookupG_mem hg)))) h.st
          (okNext h hi (by simp [width, hi]))
    | READLOCAL i =>
      simp only [step, hi] at hs
      cases hv : c.stack[spOf c.frames + i]? with
      | none => simp [hv] at hs
      | some v =>
        simp only [hv, StepRes.next.injEq] at hs; subst hs
        exact inv_simple h _ _ _ (h.stack.append (GoodL.single (h.stack.get hv))) h.st (okNext h hi (by simp [width, hi]))
    | MOVEREADLOCAL i =>
      simp only [step, hi] at hs
      cases hv : c.stack[spOf c.frames + i]? with
      | none => simp [hv] at hs
      | some v =>
        simp only [hv, StepRes.next.injEq] at hs; subst hs
        exact inv_simple h _ _ _ ((h.stack.set _ .void).append (GoodL.single (h.stack.get hv))) h.st
          (okNext h hi (by simp [width, hi]))
    | READCAPTURED i =>
      simp only [step, hi] at hs
      cases hv : (capsOf c.frames)[i]? with
      | none => simp [hv] at hs
      | some v =>
        simp only [hv, StepRes.next.injEq] at hs; subst hs
        exact inv_simple h _ _ _ (h.stack.append (GoodL.single (h.caps.get hv))) h.st (okNext h hi (by simp [width, hi]))
    | SETLOCAL i =>
      simp only [step, hi] at hs
      cases hl : c.stack.getLast? with
      | none => simp [hl] at hs
      | some v =>
        simp only [hl] at hs
        cases ho : c.stack.dropLast[spOf c.frames + i]? with
        | none => simp [ho] at hs
        | some old =>
          simp only [ho, StepRes.next.injEq] at hs; subst hs
          exact inv_simple h _ _ _
            ((h.stack.dropLast.set _ (h.stack.getLast hl)).append (GoodL.single (h.stack.dropLast.get ho))) h.st
            (okNext h hi (by simp [width, hi]))
    | IF t =>
      simp only [step, hi] at hs
      cases hl : c.stack.getLast? with
      | none => simp [hl] at hs
      | some v =>
        simp only [hl] at hs
        split at hs
        · simp only [StepRes.next.injEq] at hs; subst hs
          exact inv_simple h _ _ _ h.stack.dropLast h.st (okNext h hi (by simp [width, hi]))
        · simp only [StepRes.next.injEq] at hs; subst hs
          exact inv_simple h _ _ _ h.stack.dropLast h.st
            (h.code.1.rules.jump _ t (h.top hi) (Or.inl hi))
    | JMP t =>
      simp only [step, hi, StepRes.next.injEq] at hs; subst hs
      exact inv_simple h _ _ _ h.stack h.st (h.code.1.rules.jump _ t (h.top hi) (Or.inr hi))
    | POPJMP =>
      simp only [step, hi] at hs
      exact inv_doRet h hs
    | POPPURE =>
      simp only [step, hi] at hs
      exact inv_doRet h hs
    | PUREFUNC s =>
      simp only [step, hi] at hs
      split at hs
      · rename_i r body a h1 h2 h3
        split at hs
        · cases hs
        · simp only [StepRes.next.injEq] at hs; subst hs
          exact inv_simple h _ _ _
            (h.stack.append (GoodL.single (.clo _ _ _ _ (h.code.1.pure _ s body (h.top hi) hi h2) (GoodL.nil ps)))) h.st
            (by simpa [Nat.add_assoc] using okNext h hi (by simp [width, hi] : width c.code c.ip = s + 1))
      · cases hs
    | NEWSCLOSURE s =>
      simp only [step, hi] at hs
      split at hs
      · rename_i r n h1 h2
        split at hs
        · cases hs
        · split at hs
          · rename_i words body a h3 h4 h5
            split at hs
            · rename_i caps h6
              simp only [StepRes.next.injEq] at hs; subst hs
              exact inv_simple h _ _ _
                (h.stack.append (GoodL.single (.clo _ _ _ _ (h.code.1.clos _ s n body (h.top hi) hi h2 h4)
                  (captureWords_good h.stack h.caps _ _ _ h6)))) h.st
                (by simpa [Nat.add_assoc] using okNext h hi (by simp [width, hi] : width c.code c.ip = s + 1))
            · cases hs
          · cases hs
      · cases hs
    | PASS p =>
      simp only [step, hi, StepRes.next.injEq] at hs; subst hs
      exact inv_simple h _ _ _ h.stack h.st (okNext h hi (by simp [width, hi]))
    | NDEFS n => simp [step, hi] at hs
    | COPYCAPTURESTACK i => simp [step, hi] at hs
    | COPYCAPTURECLOSURE i => simp [step, hi] at hs
    | ECLOSURE a => simp [step, hi] at hs
    | NEWBOX =>
      simp only [step, hi] at hs
      cases hsp : splitLast BoxOp.new.arity c.stack with
      | none => simp [hsp] at hs
      | some p =>
        obtain ⟨below, args⟩ := p
        obtain ⟨hb, ha⟩ := splitLast_good h.stack hsp
        simp only [hsp] at hs
        cases hap : BoxOp.new.apply args c.st with
        | ok q =>
          obtain ⟨r, st'⟩ := q
          simp only [hap, StepRes.next.injEq] at hs; subst hs
          obtain ⟨g1, g2, g3⟩ := boxop_good ha h.st.store hap
          exact inv_simple h _ _ _ (hb.append (GoodL.single g1))
            ⟨g2, by rw [g3]; exact h.st.globs, by rw [g3]; exact h.st.prims⟩
            (okNext h hi (by simp [width, hi]))
        | err e => simp [hap] at hs
        | timeout => simp [hap] at hs
    | UNBOX =>
      simp only [step, hi] at hs
      cases hsp : splitLast BoxOp.get.arity c.stack with
      | none => simp [hsp] at hs
      | some p =>
        obtain ⟨below, args⟩ := p
        obtain ⟨hb, ha⟩ := splitLast_good h.stack hsp
        simp only [hsp] at hs
        cases hap : BoxOp.get.apply args c.st with
        | ok q =>
          obtain ⟨r, st'⟩ := q
          simp only [hap, StepRes.next.injEq] at hs; subst hs
          obtain ⟨g1, g2, g3⟩ := boxop_good ha h.st.store hap
          exact inv_simple h _ _ _ (hb.append (GoodL.single g1))
            ⟨g2, by rw [g3]; exact h.st.globs, by rw [g3]; exact h.st.prims⟩
            (okNext h hi (by simp [width, hi]))
        | err e => simp [hap] at hs
        | timeout => simp [hap] at hs
    | SETBOX =>
      simp only [step, hi] at hs
      cases hsp : splitLast BoxOp.set.arity c.stack with
      | none => simp [hsp] at hs
      | some p =>
        obtain ⟨below, args⟩ := p
        obtain ⟨hb, ha⟩ := splitLast_good h.stack hsp
        simp only [hsp] at hs
        cases hap : BoxOp.set.apply args c.st with
        | ok q =>
          obtain ⟨r, st'⟩ := q
          simp only [hap, StepRes.next.injEq] at hs; subst hs
          obtain ⟨g1, g2, g3⟩ := boxop_good ha h.st.store hap
          exact inv_simple h _ _ _ (hb.append (GoodL.single g1))
            ⟨g2, by rw [g3]; exact h.st.globs, by rw [g3]; exact h.st.prims⟩
            (okNext h hi (by simp [width, hi]))
        | err e => simp [hap] at hs
        | timeout => simp [hap] at hs
    | FUNC n =>
      simp only [step, hi] at hs
      cases hl : c.stack.getLast? with
      | none => simp [hl] at hs
      | some f =>
        simp only [hl] at hs
        refine inv_callFn h _ h.stack.dropLast f (h.stack.getLast hl) n _ (Or.inl ?_)
          (okNext h hi (by simp [width, hi])) hs
        have := (h.code.1.rules.func _ n (h.top hi) hi).1
        simpa using this
    | TAILCALL n =>
      simp only [step, hi] at hs
      cases hl : c.stack.getLast? with
      | none => simp [hl] at hs
      | some f =>
        simp only [hl] at hs
        exact inv_tailFn h _ h.stack.dropLast f (h.stack.getLast hl) n _ _ (okNext h hi (by simp [width, hi])) hs
    | TCOJMP n =>
      simp only [step, hi] at hs
      have hfr := h.frames
      match hfm : c.frames with
      | [] => rw [hfm] at hs; simp at hs
      | [fr] =>
        rw [hfm] at hs hfr
        simp only at hs
        cases hsp : splitLast n c.stack with
        | none => simp [hsp] at hs
        | some p =>
          obtain ⟨below, args⟩ := p
          obtain ⟨hb, ha⟩ := splitLast_good h.stack hsp
          simp only [hsp] at hs
          cases hbd : bindArgs fr.arity fr.rest args with
          | ok locals =>
            simp only [hbd] at hs
            split at hs
            · cases hs
            · simp only [StepRes.next.injEq] at hs; subst hs
              refine ⟨(hb.take _).append (bindArgs_good ha hbd), h.st, ?_⟩
              simp only [hfm, FramesOk]
              exact ⟨hfr.1, Ok.zero _, hfr.2.2⟩
          | err e => simp [hbd] at hs
          | timeout => simp [hbd] at hs
      | _ :: _ :: _ => rw [hfm] at hfr; exact hfr.elim
    | CALLGLOBAL g =>
      simp only [step, hi] at hs
      cases hg : lookupG g c.st.globals with
      | none => simp [hg] at hs
      | some f =>
        simp only [hg] at hs
        split at hs
        · rename_i n h2
          refine inv_callFn h _ h.stack f (h.st.globs g f (lookupG_mem hg)) n _ ?_
            (okNext h hi (by simp [width, hi])) hs
          rcases h.code.1.rules.callg _ g (h.top hi) hi with h3 | h3
          · left; simpa using h3
          · right
            obtain ⟨p, hp⟩ := h.st.prims g h3
            rw [hg] at hp
            exact ⟨p, by injection hp⟩
        · cases hs
    | CALLGLOBALTAIL g =>
      simp only [step, hi] at hs
      cases hg : lookupG g c.st.globals with
      | none => simp [hg] at hs
      | some f =>
        simp only [hg] at hs
        split at hs
        · rename_i n h2
          exact inv_tailFn h _ h.stack f (h.st.globs g f (lookupG_mem hg)) n _ _
            (okNext h hi (by simp [width, hi])) hs
        · cases hs
    | POPSINGLE =>
      simp only [step, hi, StepRes.next.injEq] at hs; subst hs
      exact inv_simple h _ _ _ h.stack.dropLast h.st (okNext h hi (by simp [width, hi]))
    | BEGINSCOPE =>
      simp only [step, hi, StepRes.next.injEq] at hs; subst hs
      exact inv_simple h _ _ _ h.stack h.st (okNext h hi (by simp [width, hi]))
    | LETVAR =>
      simp only [step, hi, StepRes.next.injEq] at hs; subst hs
      exact inv_simple h _ _ _ h.stack h.st (okNext h hi (by simp [width, hi]))
    | SDEF =>
      simp only [step, hi, StepRes.next.injEq] at hs; subst hs
      exact inv_simple h _ _ _ h.stack h.st (okNext h hi (by simp [width, hi]))
    | EDEF =>
      simp only [step, hi, StepRes.next.injEq] at hs; subst hs
      exact inv_simple h _ _ _ h.stack h.st (okNext h hi (by simp [width, hi]))
    | LETENDSCOPE n =>
      simp only [step, hi] at hs
      cases hl : c.stack.getLast? with
      | none => simp [hl] at hs
      | some v =>
        simp only [hl] at hs
        split at hs
        · cases hs
        · simp only [StepRes.next.injEq] at hs; subst hs
          exact inv_simple h _ _ _ ((h.stack.take _).append (GoodL.single (h.stack.getLast hl))) h.st
            (okNext h hi (by simp [width, hi]))
    | BIND g =>
      simp only [step, hi] at hs
      cases hl : c.stack.getLast? with
      | none => simp [hl] at hs
      | some v =>
        simp only [hl, StepRes.next.injEq] at hs; subst hs
        exact inv_simple h _ _ _ h.stack.dropLast
          (stOk_bind h.st g v (h.stack.getLast hl) (h.code.1.rules.bind _ g (h.top hi) (Or.inl hi))) (okNext h hi (by simp [width, hi]))
    | SET g =>
      simp only [step, hi] at hs
      cases hl : c.stack.getLast? with
      | none => simp [hl] at hs
      | some v =>
        simp only [hl] at hs
        cases hg : lookupG g c.st.globals with
        | none => simp [hg] at hs
        | some old =>
          simp only [hg, StepRes.next.injEq] at hs; subst hs
          exact inv_simple h _ _ _
            (h.stack.dropLast.append (GoodL.single (h.st.globs g old (lookupG_mem hg))))
            (stOk_bind h.st g v (h.stack.getLast hl) (h.code.1.rules.bind _ g (h.top hi) (Or.inr hi))) (okNext h hi (by simp [width, hi]))

end SteelVerif.C09C.T
