/-
C09 on the core with closures — `apply`, as the real VM executes a call of the `apply` built-in
(`steel_vm/vm.rs`, `pub(crate) fn apply`): the operands `f a₁ … aₖ lst` are taken off the stack, the list `lst` is
SPREAD, `a₁ … aₖ` and its elements are pushed, and `f` is called with that many arguments — through
`new_handle_tail_call_closure` (the frame is re-used) when the call instruction is `TAILCALL` / `CALLGLOBALTAIL`,
through `handle_function_call_closure` (a frame is pushed) otherwise; a primitive callee is applied at once and its result
pushed.

`Instr`, `V` and `step` are not changed: `apply` is modelled as a distinguished global slot `as`; `stepA as` is `step`
except at `CALLGLOBAL as` / `CALLGLOBALTAIL as`.  In the source core `(apply f a … lst)` is `Core.callG as (f :: a … ++ [lst])`
and is compiled by the unchanged `compile`.  NOT done: `apply` in the reference semantics `evalC` (and hence in
`compile_correct_core`): values have no constructor for the built-in; only the VM side and the frame bound are here.
-/
import SteelVerif.C09.CoreStack2
namespace SteelVerif.C09C
open SteelVerif.C01C

/-- `f a₁ … aₖ (list xs)` ↦ callee `f`, arguments `a₁ … aₖ ++ xs`. -/
def spreadArgs : List VVal → Option (VVal × List VVal)
  | [] => none
  | f :: rest =>
    match rest.getLast? with
    | some (.list xs) => some (f, rest.dropLast ++ xs)
    | _ => none

def applyCall (c : Cfg) (n : Nat) (tail : Bool) : StepRes :=
  match splitLast n c.stack with
  | none => .err .bad
  | some (below, ops) =>
    match spreadArgs ops with
    | none => .err .type
    | some (f, args) =>
      if tail then tailFn c (below ++ args) f args.length false (c.ip + 2)
      else callFn c (below ++ args) f args.length (c.ip + 2)

/-- `step` with the built-in `apply` bound to the global slot `as`. -/
def stepA (as : Nat) (c : Cfg) : StepRes :=
  match c.code[c.ip]? with
  | some (.CALLGLOBAL g) =>
      if g = as then
        match c.code[c.ip + 1]? with
        | some (.FUNC n) => applyCall c n false
        | _ => .err .bad
      else step c
  | some (.CALLGLOBALTAIL g) =>
      if g = as then
        match c.code[c.ip + 1]? with
        | some (.TAILCALL n) => applyCall c n true
        | _ => .err .bad
      else step c
  | _ => step c

def stepsA (as : Nat) : Nat → Cfg → Option Cfg
  | 0, c => some c
  | n + 1, c =>
    match stepA as c with
    | .next c' => stepsA as n c'
    | _ => none

def runA (as : Nat) : Nat → Cfg → Res (VVal × St (List Instr))
  | 0, _ => .timeout
  | fuel + 1, c =>
    match stepA as c with
    | .next c' => runA as fuel c'
    | .halt v st => .ok (v, st)
    | .err e => .err e

def maxFramesA (as : Nat) : Nat → Cfg → Nat
  | 0, c => c.frames.length
  | n + 1, c =>
    match stepA as c with
    | .next c' => max c.frames.length (maxFramesA as n c')
    | _ => c.frames.length

/-- **`apply` in tail position re-uses the frame**: the operands are spread, moved down to the frame's base, no frame is
pushed, whatever the caller had accumulated in its frame. -/
theorem apply_tail_reuses_frame (as : Nat) (c : Cfg) (n a : Nat) (base junk ops args : List VVal) (body : List Instr)
    (caps : List VVal) (f : Frame) (rest : List Frame)
    (hi : c.code[c.ip]? = some (.CALLGLOBALTAIL as)) (hw : c.code[c.ip + 1]? = some (.TAILCALL n))
    (hs : c.stack = base ++ junk ++ ops) (hn : ops.length = n)
    (hsp : spreadArgs ops = some (.clo a false body caps, args)) (ha : args.length = a)
    (hf : c.frames = f :: rest) (hfsp : f.sp = base.length) :
    ∃ c', stepA as c = .next c' ∧ c'.code = body ∧ c'.ip = 0 ∧ c'.stack = base ++ args ∧
      c'.frames.length = c.frames.length ∧ spOf c'.frames = spOf c.frames := by
  have hsl := splitLast_append3 n base junk ops hn
  have hsl2 : splitLast args.length (base ++ (junk ++ args)) = some (base ++ junk, args) :=
    splitLast_append3 _ base junk args rfl
  have hb : bindArgs a false args = .ok args := by simp [bindArgs, ha]
  have hlt : ¬ (base.length + junk.length < base.length) := by omega
  refine ⟨{ c with code := body, ip := 0, stack := base ++ args,
                   frames := { f with arity := a, rest := false, caps := caps } :: rest }, ?_, rfl, rfl, rfl,
    by simp [hf], by simp [hf, spOf]⟩
  simp [stepA, hi, hw, applyCall, hs, hsl, hsp, tailFn, hsl2, hb, hf, hfsp, hlt]

theorem spread_good {ps : Params} {ops args : List VVal} {f : VVal} (h : T.GoodL ps ops)
    (hs : spreadArgs ops = some (f, args)) : T.GoodV ps f ∧ T.GoodL ps args := by
  cases ops with
  | nil => simp [spreadArgs] at hs
  | cons g rest =>
    simp only [spreadArgs] at hs
    cases hl : rest.getLast? with
    | none => simp [hl] at hs
    | some v =>
      cases v <;> simp [hl] at hs
      rename_i xs
      obtain ⟨rfl, rfl⟩ := hs
      have hrest : T.GoodL ps rest := fun x hx => h x (List.mem_cons_of_mem _ hx)
      have hv := hrest.getLast hl
      cases hv with
      | list _ hxs => exact ⟨h g (by simp), hrest.dropLast.append hxs⟩

/-- **The well-formedness invariant is preserved by `apply`** (the slot `as` is not a primitive slot: inside a body a
non-tail `apply` is then excluded by the rules, as every non-tail call of a non-primitive). -/
theorem T.inv_stepA {ps : Params} (as : Nat) (has : as ∉ ps.slots) {c c' : Cfg} (h : T.Inv ps c)
    (hs : stepA as c = .next c') : T.Inv ps c' := by
  unfold stepA at hs
  cases hi : c.code[c.ip]? with
  | none => simp only [hi] at hs; exact T.inv_step h (by simpa [step, hi] using hs)
  | some ins =>
    have hplain : step c = .next c' → T.Inv ps c' := T.inv_step h
    cases ins
    case CALLGLOBAL g =>
      simp only [hi] at hs
      by_cases hg : g = as
      · subst hg
        simp only [if_true] at hs
        split at hs
        · rename_i n h2
          unfold applyCall at hs
          cases hsp : splitLast n c.stack with
          | none => simp [hsp] at hs
          | some p =>
            obtain ⟨below, ops⟩ := p
            obtain ⟨hb, ho⟩ := T.splitLast_good h.stack hsp
            simp only [hsp] at hs
            cases hsa : spreadArgs ops with
            | none => simp [hsa] at hs
            | some q =>
              obtain ⟨f, args⟩ := q
              obtain ⟨gf, ga⟩ := spread_good ho hsa
              simp only [hsa, Bool.false_eq_true, if_false] at hs
              refine T.inv_callFn h _ (hb.append ga) f gf _ _ (Or.inl ?_) (T.okNext h hi (by simp [T.width, hi])) hs
              rcases h.code.1.rules.callg _ g (h.top hi) hi with h3 | h3
              · simpa using h3
              · exact absurd h3 has
        · cases hs
      · simp only [hg, if_false] at hs; exact hplain hs
    case CALLGLOBALTAIL g =>
      simp only [hi] at hs
      by_cases hg : g = as
      · subst hg
        simp only [if_true] at hs
        split at hs
        · rename_i n h2
          unfold applyCall at hs
          cases hsp : splitLast n c.stack with
          | none => simp [hsp] at hs
          | some p =>
            obtain ⟨below, ops⟩ := p
            obtain ⟨hb, ho⟩ := T.splitLast_good h.stack hsp
            simp only [hsp] at hs
            cases hsa : spreadArgs ops with
            | none => simp [hsa] at hs
            | some q =>
              obtain ⟨f, args⟩ := q
              obtain ⟨gf, ga⟩ := spread_good ho hsa
              simp only [hsa, if_true] at hs
              exact T.inv_tailFn h _ (hb.append ga) f gf _ _ _ (T.okNext h hi (by simp [T.width, hi])) hs
        · cases hs
      · simp only [hg, if_false] at hs; exact hplain hs
    all_goals (simp only [hi] at hs; exact hplain hs)

theorem T.inv_stepsA {ps : Params} (as : Nat) (has : as ∉ ps.slots) : ∀ (n : Nat) (c c' : Cfg), T.Inv ps c →
    stepsA as n c = some c' → T.Inv ps c' := by
  intro n
  induction n with
  | zero => intro c c' h hs; simp [stepsA] at hs; subst hs; exact h
  | succ n ih =>
    intro c c' h hs
    simp only [stepsA] at hs
    cases hst : stepA as c with
    | next c2 => rw [hst] at hs; exact ih c2 c' (T.inv_stepA as has h hst) hs
    | halt v st => rw [hst] at hs; cases hs
    | err e => rw [hst] at hs; cases hs

end SteelVerif.C09C
