/-
C09 — tail calls run in constant space: the tail-aware code generator and the VM with a frame limit.

Builds on the lowered core of C01 (`IR`, `Instr`, `compile`).  `compileTail` is the code generator for an
expression in tail position of a procedure body: a call there becomes `tailCall` (CALLGLOBALTAIL / TAILCALL /
TCOJMP in `code_gen.rs`), which `steel_vm/vm.rs` executes by replacing the current frame
(`handle_tail_call*`: the operands are moved down to the frame's base, no frame is pushed).  A non-tail call
pushes a frame unless `STACK_LIMIT` frames exist already, in which case the evaluation ends with an error.
-/
import SteelVerif.C01.Frag
namespace SteelVerif.C09
open SteelVerif.C01

/-- Code for an expression in tail position: it never falls through, it returns or tail-calls. -/
def compileTail : IR → List Instr
  | .ite c t e =>
      let ct := compileTail t
      compile c ++ [.jmpIfFalse ct.length] ++ ct ++ compileTail e
  | .let1 e body => compile e ++ compileTail body          -- the frame is discarded anyway
  | .seq a b => compile a ++ [.pop] ++ compileTail b
  | .call f args => compile.compileArgsL args ++ [.tailCall f args.length]
  | e => compile e ++ [.ret]

def codeOf (fd : FnDef) : List Instr := compileTail fd.body

inductive Res where
  | next (vm : VM)
  | halt (v : Val)
  | overflow              -- the frame limit was reached: an error value, not a crash
  | stuck
deriving DecidableEq, Repr, Inhabited

/-- One step; identical to `C01.stepVM` except that procedure bodies are compiled tail-aware and that a
non-tail call beyond `limit` frames is an error. -/
def step (limit : Nat) (fns : List FnDef) (vm : VM) : Res :=
  let fr := vm.cur
  match fr.code[fr.ip]? with
  | none => .stuck
  | some ins =>
    match ins with
    | .call f n =>
        match fns[f]? with
        | none => .stuck
        | some fd =>
          if fd.arity ≠ n ∨ fr.stack.length < n then .stuck
          else if vm.frames.length + 1 ≥ limit then .overflow
          else
            let args := fr.stack.drop (fr.stack.length - n)
            let caller := { fr with ip := fr.ip + 1, stack := fr.stack.take (fr.stack.length - n) }
            .next { cur := { code := codeOf fd, ip := 0, stack := args }, frames := caller :: vm.frames }
    | .tailCall f n =>
        match fns[f]? with
        | none => .stuck
        | some fd =>
          if fd.arity ≠ n ∨ fr.stack.length < n then .stuck
          else .next { vm with cur := { code := codeOf fd, ip := 0, stack := fr.stack.drop (fr.stack.length - n) } }
    | _ =>
      -- every other instruction behaves as in C01 and never touches the list of callers' length
      match stepVM fns vm with
      | .next vm' => .next vm'
      | .halt v => .halt v
      | .stuck => .stuck

def steps (limit : Nat) (fns : List FnDef) : Nat → VM → Option VM
  | 0, vm => some vm
  | n + 1, vm =>
    match step limit fns vm with
    | .next vm' => steps limit fns n vm'
    | _ => none

def run (limit : Nat) (fns : List FnDef) : Nat → VM → Res
  | 0, _ => .stuck
  | fuel + 1, vm =>
    match step limit fns vm with
    | .next vm' => run limit fns fuel vm'
    | r => r

/-- Largest number of frames (callers + the current one) seen during `n` steps. -/
def maxDepth (limit : Nat) (fns : List FnDef) : Nat → VM → Nat
  | 0, vm => vm.frames.length + 1
  | n + 1, vm =>
    match step limit fns vm with
    | .next vm' => max (vm.frames.length + 1) (maxDepth limit fns n vm')
    | _ => vm.frames.length + 1

/-- Every call of the expression is in tail position (w.r.t. the enclosing procedure body). -/
def TailOnly : IR → Bool
  | .const _ | .loc _ => true
  | .prim _ a b => noCall a && noCall b
  | .ite c t e => noCall c && TailOnly t && TailOnly e
  | .let1 e body => noCall e && TailOnly body
  | .seq a b => noCall a && TailOnly b
  | .setLoc _ e => noCall e
  | .call _ args => noCallL args
where
  noCall : IR → Bool
    | .const _ | .loc _ => true
    | .prim _ a b => noCall a && noCall b
    | .ite c t e => noCall c && noCall t && noCall e
    | .let1 e body => noCall e && noCall body
    | .seq a b => noCall a && noCall b
    | .setLoc _ e => noCall e
    | .call _ _ => false
  noCallL : List IR → Bool
    | [] => true
    | a :: rest => noCall a && noCallL rest

def isCall : Instr → Bool
  | .call _ _ => true
  | _ => false

def hasCall (code : List Instr) : Bool := code.any isCall

end SteelVerif.C09
