/-
C09 on the core with closures — `compile` of a source program satisfying `srcOk` yields code that satisfies the
boundary-based rules: one structural induction over `Core` (mutual with operand lists), following the code layout.
-/
import SteelVerif.C09.CoreSrc
namespace SteelVerif.C09C.T
open SteelVerif.C01C SteelVerif.C09C

variable {ps : Params} {top : Bool}

def widthI : Instr → Nat
  | .CALLGLOBAL _ => 2
  | .CALLGLOBALTAIL _ => 2
  | .NEWBOX => 2
  | .UNBOX => 2
  | .SETBOX => 2
  | .TCOJMP _ => 2
  | .PUREFUNC s => s + 1
  | .NEWSCLOSURE s => s + 1
  | _ => 1

theorem width_eq {code : List Instr} {j : Nat} {x : Instr} (hx : code[j]? = some x) : width code j = widthI x := by
  unfold width; rw [hx]; cases x <;> rfl

theorem Path.one {code : List Instr} {j w : Nat} {x : Instr} (hx : code[j]? = some x) (hw : width code j = w) :
    Path code j (j + w) := by
  subst hw; exact .step (lt_of_get' hx) (.refl _)

theorem Path.cast {code : List Instr} {a b a' b' : Nat} (h : Path code a b) (ha : a = a') (hb : b = b') :
    Path code a' b' := by subst ha; subst hb; exact h

theorem step_plain1 {code : List Instr} {j : Nat} {x : Instr} (hx : code[j]? = some x) (hp : plain x = true)
    (hw : width code j = 1) : PathOk ps top code j (j + 1) := PathOk.one hx hw (iok_plain hx hp)

theorem constInstr_plain (c : Const) : plain (constInstr c) = true := by
  unfold constInstr; split <;> rfl

theorem width_const {code : List Instr} {j : Nat} {c : Const} (hx : code[j]? = some (constInstr c)) :
    width code j = 1 := by
  rw [width_eq hx]; unfold constInstr; split <;> rfl

theorem width_box (op : BoxOp) : widthI (boxInstr op) = 2 := by cases op <;> rfl
theorem plain_box (op : BoxOp) : plain (boxInstr op) = true := by cases op <;> rfl

theorem slice_mid' (pre a b c : List Instr) (k n : Nat) (hk : k = pre.length + a.length) (hn : n = b.length) :
    slice (pre ++ (a ++ b ++ c)) k n = some b := by
  subst hk; subst hn; exact slice_mid pre a b c

mutual
theorem compile_pathOk (ps : Params) (top : Bool) : ∀ (e : Core) (tail : Bool) (fin b : Nat) (pre post : List Instr),
    b = pre.length → srcOk ps top tail e = true → Path (pre ++ compile tail b fin e ++ post) 0 b →
    PathOk ps top (pre ++ compile tail b fin e ++ post) b (b + clen e)
  | .const c, tail, fin, b, pre, post, hb, _, _ => by
    subst hb
    have hx := code_at pre (compile tail pre.length fin (.const c)) post 0 (constInstr c) (by simp [compile])
    exact (step_plain1 hx (constInstr_plain c) (width_const hx)).cast (by omega) (by simp [clen])
  | .loc i mv, tail, fin, b, pre, post, hb, _, _ => by
    subst hb
    cases mv
    · have hx := code_at pre (compile tail pre.length fin (.loc i false)) post 0 (.READLOCAL i) (by simp [compile])
      exact (step_plain1 hx rfl (by rw [width_eq hx]; rfl)).cast (by omega) (by simp [clen])
    · have hx := code_at pre (compile tail pre.length fin (.loc i true)) post 0 (.MOVEREADLOCAL i) (by simp [compile])
      exact (step_plain1 hx rfl (by rw [width_eq hx]; rfl)).cast (by omega) (by simp [clen])
  | .cap i, tail, fin, b, pre, post, hb, _, _ => by
    subst hb
    have hx := code_at pre (compile tail pre.length fin (.cap i)) post 0 (.READCAPTURED i) (by simp [compile])
    exact (step_plain1 hx rfl (by rw [width_eq hx]; rfl)).cast (by omega) (by simp [clen])
  | .glob g, tail, fin, b, pre, post, hb, _, _ => by
    subst hb
    have hx := code_at pre (compile tail pre.length fin (.glob g)) post 0 (.PUSH g) (by simp [compile])
    exact (step_plain1 hx rfl (by rw [width_eq hx]; rfl)).cast (by omega) (by simp [clen])
  | .lam a r caps body, tail, fin, b, pre, post, hb, hs, _ => by
    subst hb
    simp only [srcOk, Bool.and_eq_true, decide_eq_true_eq] at hs
    -- the body as a stand-alone instruction sequence is good
    have hbody : GoodCode ps false (bodyCode body) := by
      have p1 := compile_pathOk ps false body true (clen body) 0 [] [.POPPURE] rfl hs.2 (.refl 0)
      have hcode : ([] : List Instr) ++ compile true 0 (clen body) body ++ [.POPPURE] = bodyCode body := by
        simp [bodyCode]
      rw [hcode] at p1
      have hx : (bodyCode body)[0 + clen body]? = some .POPPURE := by
        simp only [bodyCode]; exact gh (by simp)
      have p2 : PathOk ps false (bodyCode body) (0 + clen body) (0 + clen body + 1) :=
        step_plain1 hx rfl (by rw [width_eq hx]; rfl)
      have hl : (bodyCode body).length = 0 + clen body + 1 := by simp [bodyCode]
      exact goodCode_of_pathOk (by rw [hl] <;> omega) ((p1.trans p2).cast rfl hl.symm)
    have hbl : (bodyCode body).length = clen body + 1 := by simp [bodyCode]
    by_cases hcs : caps.isEmpty = true
    · have hmid : compile tail pre.length fin (.lam a r caps body) =
          [.PUREFUNC (3 + (clen body + 1)), .PASS (if r then 1 else 0), .PASS 0] ++ bodyCode body ++ [.ECLOSURE a] := by
        simp [compile, hcs, bodyCode]
      rw [hmid]
      have hx := code_at pre ([.PUREFUNC (3 + (clen body + 1)), .PASS (if r then 1 else 0), .PASS 0] ++
        bodyCode body ++ [.ECLOSURE a]) post 0 (.PUREFUNC (3 + (clen body + 1))) (by simp)
      have hsl : slice (pre ++ ([.PUREFUNC (3 + (clen body + 1)), .PASS (if r then 1 else 0), .PASS 0] ++
          bodyCode body ++ [.ECLOSURE a]) ++ post) (pre.length + 0 + 3) (3 + (clen body + 1) - 3) = some (bodyCode body) := by
        have := slice_mid' pre [.PUREFUNC (3 + (clen body + 1)), .PASS (if r then 1 else 0), .PASS 0] (bodyCode body)
          ([.ECLOSURE a] ++ post) (pre.length + 0 + 3) (3 + (clen body + 1) - 3) (by simp) (by rw [hbl] <;> omega)
        simpa [List.append_assoc] using this
      refine (PathOk.one hx (by rw [width_eq hx]; rfl : _ = 3 + (clen body + 1) + 1) (iok_purefunc hx hsl hbody)).cast
        (by omega) (by simp [clen, hcs] <;> omega)
    · have hmid : compile tail pre.length fin (.lam a r caps body) =
          [.NEWSCLOSURE (4 + caps.length + (clen body + 1)), .PASS (if r then 1 else 0), .PASS 0, .NDEFS caps.length] ++
            caps.map capInstr ++ bodyCode body ++ [.ECLOSURE a] := by
        simp [compile, hcs, bodyCode]
      rw [hmid]
      have hx := code_at pre ([.NEWSCLOSURE (4 + caps.length + (clen body + 1)), .PASS (if r then 1 else 0), .PASS 0,
        .NDEFS caps.length] ++ caps.map capInstr ++ bodyCode body ++ [.ECLOSURE a]) post 0
        (.NEWSCLOSURE (4 + caps.length + (clen body + 1))) (by simp)
      have hn := code_at pre ([.NEWSCLOSURE (4 + caps.length + (clen body + 1)), .PASS (if r then 1 else 0), .PASS 0,
        .NDEFS caps.length] ++ caps.map capInstr ++ bodyCode body ++ [.ECLOSURE a]) post 3
        (.NDEFS caps.length) (by simp)
      have hsl : slice (pre ++ ([.NEWSCLOSURE (4 + caps.length + (clen body + 1)), .PASS (if r then 1 else 0), .PASS 0,
          .NDEFS caps.length] ++ caps.map capInstr ++ bodyCode body ++ [.ECLOSURE a]) ++ post)
          (pre.length + 0 + 4 + caps.length) (4 + caps.length + (clen body + 1) - 4 - caps.length) =
          some (bodyCode body) := by
        have := slice_mid' pre ([.NEWSCLOSURE (4 + caps.length + (clen body + 1)), .PASS (if r then 1 else 0), .PASS 0,
          .NDEFS caps.length] ++ caps.map capInstr) (bodyCode body) ([.ECLOSURE a] ++ post)
          (pre.length + 0 + 4 + caps.length) (4 + caps.length + (clen body + 1) - 4 - caps.length)
          (by simp <;> omega) (by rw [hbl] <;> omega)
        simpa [List.append_assoc] using this
      refine (PathOk.one hx (by rw [width_eq hx]; rfl : _ = 4 + caps.length + (clen body + 1) + 1)
        (iok_newsclosure hx (by simpa [Nat.add_assoc] using hn) hsl hbody)).cast
        (by omega) (by simp [clen, hcs] <;> omega)
  | .app f args, tail, fin, b, pre, post, hb, hs, hp => by
    subst hb
    simp only [srcOk, Bool.and_eq_true, Bool.or_eq_true, decide_eq_true_eq] at hs
    obtain ⟨⟨⟨htt, hn⟩, hsa⟩, hsf⟩ := hs
    have hc1 : pre ++ compile tail pre.length fin (.app f args) ++ post =
        pre ++ compileArgs false pre.length fin args ++ (compile false (pre.length + clenL false args) fin f ++
          [if tail then .TAILCALL args.length else .FUNC args.length] ++ post) := by
      simp [compile, List.append_assoc]
    have pa := compileArgs_pathOk ps top args false fin pre.length pre _ rfl hsa (hc1 ▸ hp)
    rw [← hc1] at pa
    have hc2 : pre ++ compile tail pre.length fin (.app f args) ++ post =
        (pre ++ compileArgs false pre.length fin args) ++ compile false (pre.length + clenL false args) fin f ++
          ([if tail then .TAILCALL args.length else .FUNC args.length] ++ post) := by
      simp [compile, List.append_assoc]
    have pf := compile_pathOk ps top f false fin (pre.length + clenL false args)
      (pre ++ compileArgs false pre.length fin args) _ (by simp) hsf (hc2 ▸ (hp.trans pa.path))
    rw [← hc2] at pf
    cases tail
    · have hx := code_at pre (compile false pre.length fin (.app f args)) post (0 + clenL false args + clen f)
        (.FUNC args.length) (by find_ins)
      have htop : top = true := by simpa using htt
      have p3 := PathOk.one hx (by rw [width_eq hx]; rfl : _ = 1) (iok_func (ps := ps) hx htop hn)
      exact (pa.trans (pf.trans (p3.cast (by omega) rfl))).cast rfl (by simp [clen] <;> omega)
    · have hx := code_at pre (compile true pre.length fin (.app f args)) post (0 + clenL false args + clen f)
        (.TAILCALL args.length) (by find_ins)
      have p3 := PathOk.one hx (by rw [width_eq hx]; rfl : _ = 1) (iok_tailcall (ps := ps) (top := top) hx hn)
      exact (pa.trans (pf.trans (p3.cast (by omega) rfl))).cast rfl (by simp [clen] <;> omega)
  | .callG g args, tail, fin, b, pre, post, hb, hs, hp => by
    subst hb
    simp only [srcOk, Bool.and_eq_true, Bool.or_eq_true, decide_eq_true_eq] at hs
    obtain ⟨⟨hg, hnn⟩, hsa⟩ := hs
    have hc1 : pre ++ compile tail pre.length fin (.callG g args) ++ post =
        pre ++ compileArgs false pre.length fin args ++ ([if tail then .CALLGLOBALTAIL g else .CALLGLOBAL g] ++
          [if tail then .TAILCALL args.length else .FUNC args.length] ++ post) := by
      simp [compile, List.append_assoc]
    have pa := compileArgs_pathOk ps top args false fin pre.length pre _ rfl hsa (hc1 ▸ hp)
    rw [← hc1] at pa
    cases tail
    · have hx := code_at pre (compile false pre.length fin (.callG g args)) post (0 + clenL false args)
        (.CALLGLOBAL g) (by find_ins)
      have hg' : top = true ∨ g ∈ ps.slots := by
        rcases hg with (hg | hg) | hg
        · cases hg
        · exact Or.inl hg
        · exact Or.inr (by simpa using hg)
      have hx2 := code_at pre (compile false pre.length fin (.callG g args)) post (0 + clenL false args + 1)
        (.FUNC args.length) (by find_ins)
      have hw : ∀ n, ((pre ++ compile false pre.length fin (.callG g args) ++ post)[pre.length + (0 + clenL false args) + 1]? =
          some (Instr.TAILCALL n) ∨ (pre ++ compile false pre.length fin (.callG g args) ++ post)[pre.length +
          (0 + clenL false args) + 1]? = some (Instr.FUNC n)) → n ≤ ps.maxN := by
        intro n hn
        rw [Nat.add_assoc] at hn
        rw [hx2] at hn
        rcases hn with hn | hn
        · cases hn
        · simp only [Option.some.injEq, Instr.FUNC.injEq] at hn; omega
      have p3 := PathOk.one hx (by rw [width_eq hx]; rfl : _ = 2) (iok_callg (ps := ps) hx hg' hw)
      exact (pa.trans (p3.cast (by omega) rfl)).cast rfl (by simp [clen] <;> omega)
    · have hx := code_at pre (compile true pre.length fin (.callG g args)) post (0 + clenL false args)
        (.CALLGLOBALTAIL g) (by find_ins)
      have hx2 := code_at pre (compile true pre.length fin (.callG g args)) post (0 + clenL false args + 1)
        (.TAILCALL args.length) (by find_ins)
      have hw : ∀ n, ((pre ++ compile true pre.length fin (.callG g args) ++ post)[pre.length + (0 + clenL false args) + 1]? =
          some (Instr.TAILCALL n) ∨ (pre ++ compile true pre.length fin (.callG g args) ++ post)[pre.length +
          (0 + clenL false args) + 1]? = some (Instr.FUNC n)) → n ≤ ps.maxN := by
        intro n hn
        rw [Nat.add_assoc] at hn
        rw [hx2] at hn
        rcases hn with hn | hn
        · simp only [Option.some.injEq, Instr.TAILCALL.injEq] at hn; omega
        · cases hn
      have p3 : PathOk ps top _ _ _ := PathOk.one hx (by rw [width_eq hx]; rfl : _ = 2)
        (iok_callgtail (ps := ps) hx hw)
      exact (pa.trans (p3.cast (by omega) rfl)).cast rfl (by simp [clen] <;> omega)
  | .selfTail args, tail, fin, b, pre, post, hb, hs, hp => by
    subst hb
    simp only [srcOk, Bool.and_eq_true, decide_eq_true_eq] at hs
    obtain ⟨hn, hsa⟩ := hs
    have hc1 : pre ++ compile tail pre.length fin (.selfTail args) ++ post =
        pre ++ compileArgs false pre.length fin args ++ ([.TCOJMP args.length] ++ [.PASS 0] ++ post) := by
      simp [compile, List.append_assoc]
    have pa := compileArgs_pathOk ps top args false fin pre.length pre _ rfl hsa (hc1 ▸ hp)
    rw [← hc1] at pa
    have hx := code_at pre (compile tail pre.length fin (.selfTail args)) post (0 + clenL false args)
      (.TCOJMP args.length) (by find_ins)
    have p3 := PathOk.one hx (by rw [width_eq hx]; rfl : _ = 2) (iok_tcojmp (ps := ps) (top := top) hx hn)
    exact (pa.trans (p3.cast (by omega) rfl)).cast rfl (by simp [clen] <;> omega)
  | .ite c t e, tail, fin, b, pre, post, hb, hs, hp => by
    subst hb
    simp only [srcOk, Bool.and_eq_true] at hs
    obtain ⟨⟨hsc, hst⟩, hse⟩ := hs
    have hc1 : pre ++ compile tail pre.length fin (.ite c t e) ++ post =
        pre ++ compile false pre.length fin c ++ ([.IF (pre.length + clen c + 1 + clen t + 1)] ++
          compile tail (pre.length + clen c + 1) fin t ++
          [if tail && (pre.length + clen c + 1 + clen t + 1 + clen e == fin) then .POPJMP
            else .JMP (pre.length + clen c + 1 + clen t + 1 + clen e)] ++
          compile tail (pre.length + clen c + 1 + clen t + 1) fin e ++ post) := by
      simp [compile, List.append_assoc]
    have pc := compile_pathOk ps top c false fin pre.length pre _ rfl hsc (hc1 ▸ hp)
    rw [← hc1] at pc
    have hxif := code_at pre (compile tail pre.length fin (.ite c t e)) post (0 + clen c)
      (.IF (pre.length + clen c + 1 + clen t + 1)) (by find_ins)
    have pathIf : Path (pre ++ compile tail pre.length fin (.ite c t e) ++ post) (pre.length + (0 + clen c)) (pre.length + (0 + clen c) + 1) :=
      Path.one hxif (by rw [width_eq hxif]; rfl)
    have hc2 : pre ++ compile tail pre.length fin (.ite c t e) ++ post =
        (pre ++ compile false pre.length fin c ++ [.IF (pre.length + clen c + 1 + clen t + 1)]) ++
          compile tail (pre.length + clen c + 1) fin t ++
          ([if tail && (pre.length + clen c + 1 + clen t + 1 + clen e == fin) then .POPJMP
            else .JMP (pre.length + clen c + 1 + clen t + 1 + clen e)] ++
          compile tail (pre.length + clen c + 1 + clen t + 1) fin e ++ post) := by
      simp [compile, List.append_assoc]
    have hp2 : Path (pre ++ compile tail pre.length fin (.ite c t e) ++ post) 0 (pre.length + clen c + 1) :=
      (hp.trans (pc.path.trans (pathIf.cast (by omega) rfl))).cast rfl (by omega)
    have pt := compile_pathOk ps top t tail fin (pre.length + clen c + 1) _ _ (by simp <;> omega) hst (hc2 ▸ hp2)
    rw [← hc2] at pt
    -- the instruction after the then-branch: one word, whichever it is
    have hxj : ∃ x, (pre ++ compile tail pre.length fin (.ite c t e) ++ post)[pre.length + (0 + clen c + 1 + clen t)]? =
        some x ∧ (x = .POPJMP ∨ x = .JMP (pre.length + clen c + 1 + clen t + 1 + clen e)) := by
      by_cases hpj : (tail && (pre.length + clen c + 1 + clen t + 1 + clen e == fin)) = true
      · exact ⟨_, code_at pre _ post _ .POPJMP (by simp only [compile, hpj, if_true]; exact gl (gh (by simp <;> omega))),
          Or.inl rfl⟩
      · exact ⟨_, code_at pre _ post _ (.JMP (pre.length + clen c + 1 + clen t + 1 + clen e))
          (by simp only [compile, hpj]; exact gl (gh (by simp <;> omega))), Or.inr rfl⟩
    obtain ⟨xj, hxj, hxj2⟩ := hxj
    have hwj : width (pre ++ compile tail pre.length fin (.ite c t e) ++ post)
        (pre.length + (0 + clen c + 1 + clen t)) = 1 := by
      rcases hxj2 with rfl | rfl <;> (rw [width_eq hxj]; rfl)
    have pathJ := Path.one hxj hwj
    have hp3 : Path (pre ++ compile tail pre.length fin (.ite c t e) ++ post) 0
        (pre.length + clen c + 1 + clen t + 1) :=
      (hp2.trans (pt.path.trans (pathJ.cast (by omega) rfl))).cast rfl (by omega)
    have hc3 : pre ++ compile tail pre.length fin (.ite c t e) ++ post =
        (pre ++ compile false pre.length fin c ++ [.IF (pre.length + clen c + 1 + clen t + 1)] ++
          compile tail (pre.length + clen c + 1) fin t ++
          [if tail && (pre.length + clen c + 1 + clen t + 1 + clen e == fin) then .POPJMP
            else .JMP (pre.length + clen c + 1 + clen t + 1 + clen e)]) ++
          compile tail (pre.length + clen c + 1 + clen t + 1) fin e ++ post := by
      simp [compile, List.append_assoc]
    have pe := compile_pathOk ps top e tail fin (pre.length + clen c + 1 + clen t + 1) _ post (by simp <;> omega) hse
      (hc3 ▸ hp3)
    rw [← hc3] at pe
    have pIf := PathOk.one hxif (by rw [width_eq hxif]; rfl : _ = 1)
      (iok_if (ps := ps) (top := top) hxif (Or.inl hp3) (by omega))
    have pJ : PathOk ps top (pre ++ compile tail pre.length fin (.ite c t e) ++ post) (pre.length + (0 + clen c + 1 + clen t)) (pre.length + (0 + clen c + 1 + clen t) + 1) := by
      rcases hxj2 with rfl | rfl
      · exact step_plain1 hxj rfl hwj
      · exact PathOk.one hxj hwj (iok_jmp hxj (Or.inl (hp3.trans pe.path)) (by omega))
    exact (pc.trans ((pIf.cast (by omega) rfl).trans ((pt.cast (by omega) rfl).trans
      ((pJ.cast (by omega) rfl).trans (pe.cast (by omega) rfl))))).cast rfl (by simp [clen] <;> omega)
  | .let_ off inits body, tail, fin, b, pre, post, hb, hs, hp => by
    subst hb
    simp only [srcOk, Bool.and_eq_true] at hs
    obtain ⟨hsi, hsb⟩ := hs
    have hx0 := code_at pre (compile tail pre.length fin (.let_ off inits body)) post 0 .BEGINSCOPE (by simp [compile])
    have p0 : PathOk ps top _ _ _ := step_plain1 hx0 rfl (by rw [width_eq hx0]; rfl)
    have hc1 : pre ++ compile tail pre.length fin (.let_ off inits body) ++ post =
        (pre ++ [.BEGINSCOPE]) ++ compileArgs true (pre.length + 1) fin inits ++
          (compile tail (pre.length + 1 + clenL true inits) fin body ++ [.LETENDSCOPE off] ++ post) := by
      simp [compile, List.append_assoc]
    have hp1 : Path (pre ++ compile tail pre.length fin (.let_ off inits body) ++ post) 0 (pre.length + 1) :=
      hp.trans (p0.path.cast (by omega) (by omega))
    have pi := compileArgs_pathOk ps top inits true fin (pre.length + 1) _ _ (by simp) hsi (hc1 ▸ hp1)
    rw [← hc1] at pi
    have hc2 : pre ++ compile tail pre.length fin (.let_ off inits body) ++ post =
        (pre ++ [.BEGINSCOPE] ++ compileArgs true (pre.length + 1) fin inits) ++
          compile tail (pre.length + 1 + clenL true inits) fin body ++ ([.LETENDSCOPE off] ++ post) := by
      simp [compile, List.append_assoc]
    have pb := compile_pathOk ps top body tail fin (pre.length + 1 + clenL true inits) _ _ (by simp <;> omega) hsb
      (hc2 ▸ (hp1.trans pi.path))
    rw [← hc2] at pb
    have hxe := code_at pre (compile tail pre.length fin (.let_ off inits body)) post
      (0 + 1 + clenL true inits + clen body) (.LETENDSCOPE off) (by find_ins)
    have pe : PathOk ps top _ _ _ := step_plain1 hxe rfl (by rw [width_eq hxe]; rfl)
    exact ((p0.cast (by omega) rfl).trans ((pi.cast (by omega) rfl).trans (pb.trans (pe.cast (by omega) rfl)))).cast
      rfl (by simp [clen] <;> omega)
  | .seq a b', tail, fin, b, pre, post, hb, hs, hp => by
    subst hb
    simp only [srcOk, Bool.and_eq_true] at hs
    have hc1 : pre ++ compile tail pre.length fin (.seq a b') ++ post =
        pre ++ compile false pre.length fin a ++ ([.POPSINGLE] ++ compile tail (pre.length + clen a + 1) fin b' ++ post) := by
      simp [compile, List.append_assoc]
    have pa := compile_pathOk ps top a false fin pre.length pre _ rfl hs.1 (hc1 ▸ hp)
    rw [← hc1] at pa
    have hx := code_at pre (compile tail pre.length fin (.seq a b')) post (0 + clen a) .POPSINGLE (by find_ins)
    have p1 : PathOk ps top _ _ _ := step_plain1 hx rfl (by rw [width_eq hx]; rfl)
    have hc2 : pre ++ compile tail pre.length fin (.seq a b') ++ post =
        (pre ++ compile false pre.length fin a ++ [.POPSINGLE]) ++ compile tail (pre.length + clen a + 1) fin b' ++ post := by
      simp [compile, List.append_assoc]
    have hp2 : Path (pre ++ compile tail pre.length fin (.seq a b') ++ post) 0 (pre.length + clen a + 1) :=
      (hp.trans (pa.path.trans (p1.path.cast (by omega) rfl))).cast rfl (by omega)
    have pb := compile_pathOk ps top b' tail fin (pre.length + clen a + 1) _ post (by simp <;> omega) hs.2 (hc2 ▸ hp2)
    rw [← hc2] at pb
    exact (pa.trans ((p1.cast (by omega) rfl).trans (pb.cast (by omega) rfl))).cast rfl (by simp [clen] <;> omega)
  | .setLoc i e, tail, fin, b, pre, post, hb, hs, hp => by
    subst hb
    simp only [srcOk] at hs
    have hc1 : pre ++ compile tail pre.length fin (.setLoc i e) ++ post =
        pre ++ compile false pre.length fin e ++ ([.SETLOCAL i] ++ post) := by
      simp [compile, List.append_assoc]
    have pa := compile_pathOk ps top e false fin pre.length pre _ rfl hs (hc1 ▸ hp)
    rw [← hc1] at pa
    have hx := code_at pre (compile tail pre.length fin (.setLoc i e)) post (0 + clen e) (.SETLOCAL i) (by find_ins)
    have p1 : PathOk ps top _ _ _ := step_plain1 hx rfl (by rw [width_eq hx]; rfl)
    exact (pa.trans (p1.cast (by omega) rfl)).cast rfl (by simp [clen] <;> omega)
  | .boxop op args, tail, fin, b, pre, post, hb, hs, hp => by
    subst hb
    simp only [srcOk] at hs
    have hc1 : pre ++ compile tail pre.length fin (.boxop op args) ++ post =
        pre ++ compileArgs false pre.length fin args ++
          ([boxInstr op] ++ [if tail then .TAILCALL args.length else .FUNC args.length] ++ post) := by
      simp [compile, List.append_assoc]
    have pa := compileArgs_pathOk ps top args false fin pre.length pre _ rfl hs (hc1 ▸ hp)
    rw [← hc1] at pa
    have hx := code_at pre (compile tail pre.length fin (.boxop op args)) post (0 + clenL false args)
      (boxInstr op) (by find_ins)
    have p1 : PathOk ps top (pre ++ compile tail pre.length fin (.boxop op args) ++ post)
        (pre.length + (0 + clenL false args)) (pre.length + (0 + clenL false args) + 2) :=
      PathOk.one hx (by rw [width_eq hx]; exact width_box op) (iok_plain hx (plain_box op))
    exact (pa.trans (p1.cast (by omega) rfl)).cast rfl (by simp [clen] <;> omega)
  | .define g e, tail, fin, b, pre, post, hb, hs, hp => by
    subst hb
    simp only [srcOk, Bool.and_eq_true, Bool.not_eq_true'] at hs
    have hg : g ∉ ps.slots := by simpa using hs.1
    have hx0 := code_at pre (compile tail pre.length fin (.define g e)) post 0 .SDEF (by simp [compile])
    have p0 : PathOk ps top _ _ _ := step_plain1 hx0 rfl (by rw [width_eq hx0]; rfl)
    have hc1 : pre ++ compile tail pre.length fin (.define g e) ++ post =
        (pre ++ [.SDEF]) ++ compile false (pre.length + 1) fin e ++ ([.EDEF] ++ [.BIND g] ++ [.VOID] ++ post) := by
      simp [compile, List.append_assoc]
    have hp1 : Path (pre ++ compile tail pre.length fin (.define g e) ++ post) 0 (pre.length + 1) :=
      hp.trans (p0.path.cast (by omega) (by omega))
    have pe := compile_pathOk ps top e false fin (pre.length + 1) _ _ (by simp) hs.2 (hc1 ▸ hp1)
    rw [← hc1] at pe
    have hx1 := code_at pre (compile tail pre.length fin (.define g e)) post (0 + 1 + clen e) .EDEF (by find_ins)
    have p1 : PathOk ps top _ _ _ := step_plain1 hx1 rfl (by rw [width_eq hx1]; rfl)
    have hx2 := code_at pre (compile tail pre.length fin (.define g e)) post (0 + 1 + clen e + 1) (.BIND g) (by find_ins)
    have p2 := PathOk.one hx2 (by rw [width_eq hx2]; rfl : _ = 1) (iok_bind (ps := ps) (top := top) hx2 hg)
    have hx3 := code_at pre (compile tail pre.length fin (.define g e)) post (0 + 1 + clen e + 1 + 1) .VOID (by find_ins)
    have p3 : PathOk ps top _ _ _ := step_plain1 hx3 rfl (by rw [width_eq hx3]; rfl)
    exact ((p0.cast (by omega) rfl).trans (pe.trans ((p1.cast (by omega) rfl).trans
      ((p2.cast (by omega) rfl).trans (p3.cast (by omega) rfl))))).cast rfl (by simp [clen] <;> omega)
  | .setGlob g e, tail, fin, b, pre, post, hb, hs, hp => by
    subst hb
    simp only [srcOk, Bool.and_eq_true, Bool.not_eq_true'] at hs
    have hg : g ∉ ps.slots := by simpa using hs.1
    have hc1 : pre ++ compile tail pre.length fin (.setGlob g e) ++ post =
        pre ++ compile false pre.length fin e ++ ([.SET g] ++ post) := by
      simp [compile, List.append_assoc]
    have pa := compile_pathOk ps top e false fin pre.length pre _ rfl hs.2 (hc1 ▸ hp)
    rw [← hc1] at pa
    have hx := code_at pre (compile tail pre.length fin (.setGlob g e)) post (0 + clen e) (.SET g) (by find_ins)
    have p1 := PathOk.one hx (by rw [width_eq hx]; rfl : _ = 1) (iok_set (ps := ps) (top := top) hx hg)
    exact (pa.trans (p1.cast (by omega) rfl)).cast rfl (by simp [clen] <;> omega)
theorem compileArgs_pathOk (ps : Params) (top : Bool) : ∀ (args : List Core) (lv : Bool) (fin b : Nat)
    (pre post : List Instr), b = pre.length → srcOkL ps top args = true →
    Path (pre ++ compileArgs lv b fin args ++ post) 0 b →
    PathOk ps top (pre ++ compileArgs lv b fin args ++ post) b (b + clenL lv args)
  | [], lv, fin, b, pre, post, _, _, _ => by
    simp only [clenL]; exact .refl _
  | a :: rest, lv, fin, b, pre, post, hb, hs, hp => by
    subst hb
    simp only [srcOkL, Bool.and_eq_true] at hs
    cases lv
    · have hc1 : pre ++ compileArgs false pre.length fin (a :: rest) ++ post =
          pre ++ compile false pre.length fin a ++ (compileArgs false (pre.length + clen a + 0) fin rest ++ post) := by
        simp [compileArgs, List.append_assoc]
      have pa := compile_pathOk ps top a false fin pre.length pre _ rfl hs.1 (hc1 ▸ hp)
      rw [← hc1] at pa
      have hc2 : pre ++ compileArgs false pre.length fin (a :: rest) ++ post =
          (pre ++ compile false pre.length fin a) ++ compileArgs false (pre.length + clen a + 0) fin rest ++ post := by
        simp [compileArgs, List.append_assoc]
      have pr := compileArgs_pathOk ps top rest false fin (pre.length + clen a + 0) _ post (by simp) hs.2
        (hc2 ▸ ((hp.trans pa.path).cast rfl (by omega)))
      rw [← hc2] at pr
      exact (pa.trans (pr.cast (by omega) rfl)).cast rfl (by simp [clenL] <;> omega)
    · have hc1 : pre ++ compileArgs true pre.length fin (a :: rest) ++ post =
          pre ++ compile false pre.length fin a ++
            ([.LETVAR] ++ compileArgs true (pre.length + clen a + 1) fin rest ++ post) := by
        simp [compileArgs, List.append_assoc]
      have pa := compile_pathOk ps top a false fin pre.length pre _ rfl hs.1 (hc1 ▸ hp)
      rw [← hc1] at pa
      have hx := code_at pre (compileArgs true pre.length fin (a :: rest)) post (0 + clen a) .LETVAR
        (by simp only [compileArgs, if_true]; exact gl (gh (by simp)))
      have p1 : PathOk ps top _ _ _ := step_plain1 hx rfl (by rw [width_eq hx]; rfl)
      have hc2 : pre ++ compileArgs true pre.length fin (a :: rest) ++ post =
          (pre ++ compile false pre.length fin a ++ [.LETVAR]) ++ compileArgs true (pre.length + clen a + 1) fin rest ++
            post := by
        simp [compileArgs, List.append_assoc]
      have hp2 : Path (pre ++ compileArgs true pre.length fin (a :: rest) ++ post) 0 (pre.length + clen a + 1) :=
        (hp.trans (pa.path.trans (p1.path.cast (by omega) rfl))).cast rfl (by omega)
      have pr := compileArgs_pathOk ps top rest true fin (pre.length + clen a + 1) _ post (by simp <;> omega) hs.2
        (hc2 ▸ hp2)
      rw [← hc2] at pr
      exact (pa.trans ((p1.cast (by omega) rfl).trans (pr.cast (by omega) rfl))).cast rfl (by simp [clenL] <;> omega)
end

/-- **The code generated for a top-level form satisfying the source predicate satisfies the bytecode rules.** -/
theorem goodCode_top (ps : Params) (e : Core) (h : TailOnlySrc ps e = true) : GoodCode ps true (compileTop e) := by
  simp only [TailOnlySrc, Bool.and_eq_true, decide_eq_true_eq] at h
  have p1 := compile_pathOk ps true e false 0 0 [] [.POPPURE] rfl h.2 (.refl 0)
  have hcode : ([] : List Instr) ++ compile false 0 0 e ++ [.POPPURE] = compileTop e := by simp [compileTop]
  rw [hcode] at p1
  have hx : (compileTop e)[0 + clen e]? = some .POPPURE := by
    simp only [compileTop]; exact gh (by simp)
  have p2 : PathOk ps true (compileTop e) (0 + clen e) (0 + clen e + 1) :=
    step_plain1 hx rfl (by rw [width_eq hx]; rfl)
  have hl : (compileTop e).length = 0 + clen e + 1 := by simp [compileTop]
  exact goodCode_of_pathOk (by rw [hl] <;> omega) ((p1.trans p2).cast rfl hl.symm)

end SteelVerif.C09C.T
