/-
C17 — obligations over the table regenerated from /repo by translate/c16_callpaths.py (`GenPollsTable.lean`):
the poll at the head of the dispatch loop, and which opcodes jit2/cgen.rs compiles to a native back-edge.
The bound `B` of `interrupt_bounded` is finite for a program only if it enters no native region with a
back-edge that neither polls nor returns to the dispatch loop.
-/
import SteelVerif.C17.GenPollsTable
namespace SteelVerif.C17

/-- `loop { self.safepoint_or_interrupt()?; … }`: one poll per dispatched instruction (B = 1 in the interpreter,
also inside the nested `vm()` loops of higher-order built-ins, which run the same loop). -/
theorem dispatch_loop_polls : dispatchLoopPolls = true := by decide

/-- Opcodes compiled to a native back-edge without poll (class predicate of K17b). -/
def knownNativeLoops : List String := ["SELFTAILCALLNOARITY"]

/-- Every self-tail-call opcode was found, and every one that becomes an unpolled native back-edge is a known
one. -/
theorem native_backedges_listed :
    ∀ e ∈ nativeEdges, e.found = true ∧ (e.backedge = true → e.poll = false → e.opcode ∈ knownNativeLoops) := by
  decide

theorem known_native_loops_tight :
    ∀ n ∈ knownNativeLoops, (nativeEdges.any fun e => e.opcode == n && e.backedge && !e.poll) = true := by
  decide

/-- The JIT's runtime helpers call a compiled callee's native entry directly ("trampoline").  A compiled self-tail
loop polls only because `TCOJMP` makes the native code return to the dispatch loop: no helper may call the entry
again in a loop of its own. -/
theorem trampoline_calls_once :
    4 ≤ trampolineSites.length ∧ ∀ e ∈ trampolineSites, e.inLoop = false := by decide

/-- Sites that may drop a callback's error: none.  (Before /repo 3cbe5bf4 — K17d — the tail thunk of a lazy stream
(`lazy_stream.rs` `next`) and the generic reducer's `fold` did.) -/
def knownErrorDrops : List (String × String) := []

/-- Everywhere in the iterator pipelines of `transduce` the error returned by a Steel callback (e.g. the
interrupt raised by the poll at its first instruction) is handed on: to the next stage and finally to the reducer,
which stops. -/
theorem iteration_errors_propagate :
    6 ≤ iterSites.length ∧
    ∀ e ∈ iterSites, e.swallows = true → (e.file, e.stage) ∈ knownErrorDrops := by decide

end SteelVerif.C17
