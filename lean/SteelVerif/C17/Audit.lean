import SteelVerif.C17.Props
import SteelVerif.C17.GenPolls
open SteelVerif.C17
#print axioms ready_step
#print axioms interrupt_bounded
#print axioms interrupt_bounded_error
#print axioms readyNative_reached
#print axioms readyNative_ready
#print axioms interrupt_end_to_end_partial
#print axioms poll_delivers
#print axioms interrupt_not_lost_partial
#print axioms lostInterrupt_lost
#print axioms lostInterrupt_runs_on
#print axioms not_interrupt_not_lost
#print axioms lostInterrupt_guard
#print axioms lostInterrupt2_lost
#print axioms not_interrupt_bounded_native
#print axioms step_inv2
#print axioms interrupt_delivered_partial
#print axioms parkedForever_parks
#print axioms parked_stays
#print axioms not_interrupt_delivered
#print axioms parkedForever_guard
#print axioms resume_usable
#print axioms example_delivered
#print axioms example_native_nested
#print axioms native_backedges_listed
#print axioms trampoline_calls_once
#print axioms iteration_errors_propagate
#print axioms ready_host
#print axioms interrupt_bounded_host
