/-
C17 — model M of interruption: ONE engine thread (the dispatch loop of `VmCore::vm` with its poll
`safepoint_or_interrupt`, nested `vm()` loops entered from higher-order built-ins, the native tier, the exit
loop of `enter_safepoint`, and the thread's OWN stop-the-world rounds — `Heap::mark` and `with_locked_env` call
`stop_threads()` / `resume_threads()` on the running thread's controller) and the HOST, which holds the very same
controller (`Engine::get_thread_state_controller()` returns `synchronizer.state`) and calls
`interrupt()` = `paused.store(true); state.store(Interrupted)` and `resume()` = `paused.store(false);
state.store(Running)`.  Every store / load of `paused` and `state` is one atomic step.

The native tier is "runs until it returns to dispatch": `native (some k)` returns after `k` more steps,
`native none` is a region that never returns (a native back-edge without poll: `SELFTAILCALLNOARITY` compiled
by `jit2/cgen.rs`).
Ghost: `pending` — an interrupt was requested and the evaluation has not yet returned.
-/
namespace SteelVerif.C17

inductive TState where
  | running | pausedAtSafepoint | interrupted
deriving DecidableEq, Repr, Inhabited

inductive PC where
  | dispatch                    -- top of `loop { safepoint_or_interrupt()?; … }`: next `paused.load()`
  | sawPaused                   -- next `state.load()`
  | exec                        -- executes one instruction (what it does is the schedule's choice)
  | native (k : Option Nat)     -- inside native code
  | roundP | roundS             -- own `stop_threads`: `paused.store(true)`, `state.store(PausedAtSafepoint)`
  | roundBody                   -- the stack scan / the global table update
  | resP | resS                 -- own `resume_threads`: `paused.store(false)`, `state.store(Running)`
  | spExit | spState            -- exit loop of `enter_safepoint`: `paused.load()`, `state.load()`
  | parked                      -- `park()` (nobody unparks a single thread)
  | errored                     -- `run` returned `Err("Interrupted by user")`
  | finished                    -- `run` returned `Ok`
deriving DecidableEq, Repr, Inhabited

structure State where
  pc : PC := .dispatch
  paused : Bool := false
  st : TState := .running
  depth : Nat := 0              -- nested `vm()` loops
  hostMid : Bool := false       -- `interrupt()` between its two stores
  pending : Bool := false       -- ghost
deriving DecidableEq, Repr, Inhabited

def init : State := {}

/-- What the instruction at `exec` does. -/
inductive Choice where
  | plain                       -- an ordinary instruction
  | callNative (k : Nat)        -- enters native code that returns after `k` steps
  | nativeLoop                  -- enters a native back-edge loop
  | beginRound                  -- an allocation that collects / a define or set! of a global
  | callPrim                    -- a primitive wrapped in `enter_safepoint`
  | nest | unnest               -- a higher-order built-in enters / leaves a nested `vm()` loop
  | finish
deriving DecidableEq, Repr, Inhabited

/-- One step of the engine thread (total; `c` is used only at `exec`). -/
def stepT (s : State) (c : Choice) : State :=
  match s.pc with
  | .dispatch => if s.paused then { s with pc := .sawPaused } else { s with pc := .exec }
  | .sawPaused =>
      match s.st with
      | .interrupted => { s with pc := .errored, pending := false }
      | .pausedAtSafepoint => { s with pc := .parked }      -- publishes and parks while paused
      | .running => { s with pc := .exec }
  | .exec =>
      match c with
      | .plain => { s with pc := .dispatch }
      | .callNative k => { s with pc := .native (some k) }
      | .nativeLoop => { s with pc := .native none }
      | .beginRound => { s with pc := .roundP }
      | .callPrim => { s with pc := .spExit }
      | .nest => { s with pc := .dispatch, depth := s.depth + 1 }
      | .unnest => { s with pc := .dispatch, depth := s.depth - 1 }
      | .finish => if s.depth = 0 then { s with pc := .finished } else { s with pc := .dispatch }
  | .native (some 0) => { s with pc := .dispatch }
  | .native (some (k + 1)) => { s with pc := .native (some k) }
  | .native none => s
  | .roundP => { s with paused := true, pc := .roundS }
  | .roundS => { s with st := .pausedAtSafepoint, pc := .roundBody }
  | .roundBody => { s with pc := .resP }
  | .resP => { s with paused := false, pc := .resS }
  | .resS => { s with st := .running, pc := .dispatch }
  | .spExit => if s.paused then { s with pc := .spState } else { s with pc := .dispatch }
  | .spState => if s.st = .interrupted then { s with pc := .dispatch } else { s with pc := .parked }
  | .parked => s
  | .errored => s
  | .finished => s

inductive Act where
  | thread (c : Choice)
  | intP | intS                 -- host: `interrupt()`
  | hresP | hresS               -- host: `resume()`
  | rerun                       -- host: calls `run` again on the engine
deriving DecidableEq, Repr, Inhabited

def step (s : State) : Act → Option State
  | .thread c => some (stepT s c)
  | .intP => some { s with paused := true, hostMid := true, pending := true }
  | .intS => if s.hostMid then some { s with st := .interrupted, hostMid := false } else none
  | .hresP => some { s with paused := false }
  | .hresS => some { s with st := .running }
  | .rerun =>
      if s.pc = .errored ∨ s.pc = .finished then some { s with pc := .dispatch, depth := 0 } else none

def run (s : State) : List Act → State
  | [] => s
  | a :: r => match step s a with
    | none => s
    | some s' => run s' r

def runT (s : State) : List Choice → State
  | [] => s
  | c :: r => runT (stepT s c) r

def PC.inRound : PC → Bool
  | .roundP | .roundS | .roundBody | .resP | .resS => true
  | _ => false

/-- The guard: no `stop_threads`/`resume_threads` pair of the thread's own collection or global update overlaps
a pending request (neither begins nor runs while one is pending; no request is issued while one runs), and the
host does not `resume()` while its own request is pending. -/
def G (s : State) : Act → Bool
  | .thread c => !(s.pending && (s.pc.inRound || (s.pc == .exec && c == .beginRound)))
  | .intP => !s.pc.inRound
  | .intS => true
  | .hresP | .hresS => !s.pending
  | .rerun => true

def runG (s : State) : List Act → State
  | [] => s
  | a :: r =>
      if G s a then
        match step s a with
        | none => s
        | some s' => runG s' r
      else s

/-- A choice that keeps the thread within `B` steps of its next poll. -/
def Choice.bounded (B : Nat) : Choice → Bool
  | .callNative k => decide (k ≤ B)
  | .nativeLoop | .beginRound => false
  | _ => true

/-- Steps until `run` returns, at most, for a thread with a delivered-able request. -/
def dist (B : Nat) : PC → Nat
  | .dispatch => 2
  | .sawPaused => 1
  | .exec => B + 5
  | .native (some k) => k + 3
  | .spExit => 4
  | .spState => 3
  | _ => 0

end SteelVerif.C17
