/-
C17 driver: runs a schedule on the model.  stdin lines: plain | native <k> | nativeLoop | round | prim | nest |
unnest | finish | intP | intS | hresP | hresS | rerun ; `reset` ends a schedule.
Per schedule: `spec pc=… paused=… st=… pending=… guardOk=…`.
-/
import SteelVerif.C17.Model
open SteelVerif.C17

def parseAct (l : String) : Option Act :=
  match l.splitOn " " with
  | ["plain"] => some (.thread .plain) | ["native", k] => k.toNat?.map fun k => .thread (.callNative k)
  | ["nativeLoop"] => some (.thread .nativeLoop) | ["round"] => some (.thread .beginRound)
  | ["prim"] => some (.thread .callPrim) | ["nest"] => some (.thread .nest)
  | ["unnest"] => some (.thread .unnest) | ["finish"] => some (.thread .finish)
  | ["intP"] => some .intP | ["intS"] => some .intS | ["hresP"] => some .hresP | ["hresS"] => some .hresS
  | ["rerun"] => some .rerun
  | _ => none

partial def loop (h : IO.FS.Stream) (s : State) (gok : Bool) (n : Nat) : IO Unit := do
  let line ← h.getLine
  let fin : IO Unit :=
    IO.println s!"spec pc={repr s.pc} paused={s.paused} st={repr s.st} pending={s.pending} guardOk={gok} steps={n}"
  if line.isEmpty then
    if n > 0 then fin
    return
  let l := line.trimAscii.toString
  if l == "reset" then do fin; loop h init true 0
  else if l.isEmpty || l.startsWith "#" then loop h s gok n
  else match parseAct l with
    | some a =>
      let g := G s a
      match step s a with
      | some s' => loop h s' (gok && g) (n + 1)
      | none => IO.println "bad"; loop h s gok n
    | none => IO.println "bad"; loop h s gok n

def main (_ : List String) : IO Unit := do
  let h ← IO.getStdin
  loop h init true 0
