/-
C17 — property theorems: a running script can always be interrupted.

Model: `Model.lean` (one engine thread with its poll, nested `vm()` loops, the native tier, the thread's own
stop-the-world rounds, and the host's `interrupt()` / `resume()` on the SAME controller).

The code as it is does not satisfy the full statements:
* `not_interrupt_not_lost`: an `interrupt()` that overlaps the thread's own `stop_threads()/resume_threads()`
  pair (every define / set! of a global, every full collection) is erased (finding K17a);
* `not_interrupt_bounded_native`: a native back-edge without poll never returns to the dispatch loop (K17b).
What is proved for all schedules is the statement under the guard `G` (no such overlap) and for programs whose
native regions are bounded.
-/
import SteelVerif.C17.Model
namespace SteelVerif.C17

def PC.terminal : PC → Bool
  | .errored | .finished => true
  | _ => false

/-- The request is complete (`paused` and `Interrupted` both stored) and the thread is somewhere from where it
reaches its poll within `B` steps of native code. -/
def Ready (B : Nat) (s : State) : Prop :=
  s.paused = true ∧ s.st = .interrupted ∧ s.pc.inRound = false ∧ s.pc ≠ .native none ∧ s.pc ≠ .parked ∧
  ∀ k, s.pc = .native (some k) → k ≤ B

theorem stepT_terminal {s : State} (h : s.pc.terminal = true) (c : Choice) : stepT s c = s := by
  cases hp : s.pc <;> simp [hp, PC.terminal] at h <;> simp [stepT, hp]

theorem runT_terminal (cs : List Choice) : ∀ {s : State}, s.pc.terminal = true → runT s cs = s := by
  induction cs with
  | nil => intro s _; rfl
  | cons c r ih => intro s h; simp only [runT]; rw [stepT_terminal h]; exact ih h

/-- One step of a ready thread: it stays ready (or returns) and gets closer to returning. -/
theorem ready_step {B : Nat} {s : State} {c : Choice} (h : Ready B s) (hc : c.bounded B = true)
    (hnt : s.pc.terminal = false) :
    (Ready B (stepT s c) ∨ (stepT s c).pc.terminal = true) ∧
    dist B (stepT s c).pc < dist B s.pc := by
  obtain ⟨h1, h2, h3, h4, h5, h6⟩ := h
  cases hp : s.pc with
  | dispatch => simp [stepT, hp, h1, Ready, h2, PC.inRound, dist, PC.terminal]
  | sawPaused => simp [stepT, hp, h2, Ready, PC.terminal, dist]
  | exec =>
    cases c with
    | plain => simp [stepT, hp, Ready, h1, h2, PC.inRound, dist]
    | callNative k =>
      have hk : k ≤ B := by simpa [Choice.bounded] using hc
      simp [stepT, hp, Ready, h1, h2, PC.inRound, dist]; omega
    | nativeLoop => simp [Choice.bounded] at hc
    | beginRound => simp [Choice.bounded] at hc
    | callPrim => simp [stepT, hp, Ready, h1, h2, PC.inRound, dist]
    | nest => simp [stepT, hp, Ready, h1, h2, PC.inRound, dist]
    | unnest => simp [stepT, hp, Ready, h1, h2, PC.inRound, dist]
    | finish =>
      by_cases hd : s.depth = 0
      · simp [stepT, hp, hd, PC.terminal, dist]
      · simp [stepT, hp, hd, Ready, h1, h2, PC.inRound, dist]
  | native k =>
    cases k with
    | none => exact absurd hp h4
    | some k =>
      have hk := h6 k hp
      cases k with
      | zero => simp [stepT, hp, Ready, h1, h2, PC.inRound, dist]
      | succ k => simp [stepT, hp, Ready, h1, h2, PC.inRound, dist]; omega
  | roundP => simp [hp, PC.inRound] at h3
  | roundS => simp [hp, PC.inRound] at h3
  | roundBody => simp [hp, PC.inRound] at h3
  | resP => simp [hp, PC.inRound] at h3
  | resS => simp [hp, PC.inRound] at h3
  | spExit => simp [stepT, hp, h1, Ready, h2, PC.inRound, dist]
  | spState => simp [stepT, hp, h2, Ready, h1, PC.inRound, dist]
  | parked => exact absurd hp h5
  | errored => simp [hp, PC.terminal] at hnt
  | finished => simp [hp, PC.terminal] at hnt

/-- **Bounded interruption.**  Once the request is complete, the evaluation returns (with the interrupt error,
or because it finished) within `dist B pc ≤ B + 5` further steps of the thread, where `B` bounds the length of
the native regions it enters — whatever instructions it executes (ordinary ones, primitives, nested `vm()`
loops of higher-order built-ins, native calls), as long as it does not begin a stop-the-world round of its own
and does not enter a native loop without poll. -/
theorem interrupt_bounded (B : Nat) (cs : List Choice) : ∀ (s : State), Ready B s →
    (∀ c ∈ cs, c.bounded B = true) → dist B s.pc ≤ cs.length → (runT s cs).pc.terminal = true := by
  induction cs with
  | nil =>
    intro s h _ hd
    obtain ⟨h1, h2, h3, h4, h5, h6⟩ := h
    simp only [List.length_nil, Nat.le_zero] at hd
    cases hp : s.pc <;> simp_all [dist, PC.terminal, PC.inRound, runT]
    all_goals (rename_i k; cases k <;> simp_all)
  | cons c r ih =>
    intro s h hb hd
    simp only [runT]
    by_cases hnt : s.pc.terminal = true
    · rw [stepT_terminal hnt, runT_terminal r hnt]; exact hnt
    · have hnt' : s.pc.terminal = false := by simpa using hnt
      obtain ⟨hr, hlt⟩ := ready_step h (hb c (by simp)) hnt'
      rcases hr with hr | hr
      · apply ih _ hr (fun c' hc' => hb c' (by simp [hc']))
        simp only [List.length_cons] at hd; omega
      · rw [runT_terminal r hr]; exact hr

/-- The state of `example_native_nested` when the request is complete: 3 steps deep in native code, inside a
nested `vm()` loop. -/
def readyNative : State :=
  { pc := .native (some 3), paused := true, st := .interrupted, depth := 1, pending := true }

theorem readyNative_reached :
    run init [.thread .plain, .thread .nest, .thread .plain, .thread (.callNative 3), .intP, .intS]
      = readyNative := by decide

theorem readyNative_ready : Ready 3 readyNative := by
  refine ⟨rfl, rfl, rfl, by decide, by decide, ?_⟩
  intro k hk
  have : k = 3 := by simp [readyNative] at hk; omega
  omega

/-! ### Host steps interleaved with the thread's last steps -/

/-- Run a schedule of thread steps and host calls; a line that is not executable (an `intS` with no `interrupt()` in
flight) is skipped. -/
def runS (s : State) : List Act → State
  | [] => s
  | a :: r => match step s a with
    | none => runS s r
    | some s' => runS s' r

def Act.isThread : Act → Bool
  | .thread _ => true
  | _ => false

/-- A line of the mixed schedule: a bounded thread step or one of the two stores of a further `interrupt()`. -/
def hostOk (B : Nat) : Act → Bool
  | .thread c => c.bounded B
  | .intP | .intS => true
  | _ => false

theorem hostOk_cases {B : Nat} {a : Act} (h : hostOk B a = true) :
    (∃ c, a = .thread c ∧ c.bounded B = true) ∨ a = .intP ∨ a = .intS := by
  cases a <;> simp_all [hostOk]

/-- A further `interrupt()` (either of its two stores) leaves a ready thread ready, where it is. -/
theorem ready_host {B : Nat} {s s' : State} {a : Act} (h : Ready B s) (ha : a = .intP ∨ a = .intS)
    (hs : step s a = some s') : Ready B s' ∧ s'.pc = s.pc := by
  obtain ⟨h1, h2, h3, h4, h5, h6⟩ := h
  rcases ha with rfl | rfl
  · simp only [step] at hs; cases hs
    exact ⟨⟨rfl, h2, h3, h4, h5, h6⟩, rfl⟩
  · simp only [step] at hs
    split at hs
    · cases hs; exact ⟨⟨h1, rfl, h3, h4, h5, h6⟩, rfl⟩
    · cases hs

theorem runS_terminal (as : List Act) : ∀ {s : State}, s.pc.terminal = true →
    (∀ a ∈ as, a.isThread = true ∨ a = .intP ∨ a = .intS) → (runS s as).pc.terminal = true := by
  induction as with
  | nil => intro s h _; exact h
  | cons a r ih =>
    intro s h hb
    have hr : ∀ a ∈ r, a.isThread = true ∨ a = .intP ∨ a = .intS := fun x hx => hb x (by simp [hx])
    simp only [runS]
    cases hs : step s a with
    | none => exact ih h hr
    | some s' =>
      apply ih _ hr
      rcases hb a (by simp) with ht | rfl | rfl
      · cases a <;> simp [Act.isThread] at ht
        simp only [step] at hs; cases hs
        rw [stepT_terminal h]; exact h
      · simp only [step] at hs; cases hs; exact h
      · simp only [step] at hs; split at hs <;> cases hs; exact h

/-- **Bounded interruption with the host still acting**: once the request is complete, the evaluation returns within
`dist B pc ≤ B + 5` further steps OF THE THREAD, however many further `interrupt()` calls (their two stores, in any
position) are interleaved with them. -/
theorem interrupt_bounded_host (B : Nat) (as : List Act) : ∀ (s : State), Ready B s →
    (∀ a ∈ as, hostOk B a = true) →
    dist B s.pc ≤ (as.filter Act.isThread).length → (runS s as).pc.terminal = true := by
  induction as with
  | nil =>
    intro s h _ hd
    obtain ⟨h1, h2, h3, h4, h5, h6⟩ := h
    simp only [List.filter_nil, List.length_nil, Nat.le_zero] at hd
    cases hp : s.pc <;> simp_all [dist, PC.terminal, PC.inRound, runS]
    all_goals (rename_i k; cases k <;> simp_all)
  | cons a r ih =>
    intro s h hb hd
    have hr : ∀ a ∈ r, hostOk B a = true := fun x hx => hb x (by simp [hx])
    have hr' : ∀ a ∈ r, a.isThread = true ∨ a = .intP ∨ a = .intS := by
      intro x hx
      rcases hostOk_cases (hr x hx) with ⟨c, rfl, _⟩ | e | e
      · exact Or.inl rfl
      · exact Or.inr (Or.inl e)
      · exact Or.inr (Or.inr e)
    simp only [runS]
    rcases hostOk_cases (hb a (by simp)) with ⟨c, rfl, hc⟩ | ha | ha
    · simp only [step]
      by_cases hnt : s.pc.terminal = true
      · rw [stepT_terminal hnt]; exact runS_terminal r hnt hr'
      · have hnt' : s.pc.terminal = false := by simpa using hnt
        obtain ⟨hrd, hlt⟩ := ready_step h hc hnt'
        rcases hrd with hrd | hrd
        · apply ih _ hrd hr
          rw [List.filter_cons_of_pos (by rfl)] at hd
          simp only [List.length_cons] at hd; omega
        · exact runS_terminal r hrd hr'
    · cases hs : step s a with
      | none => simp only []; apply ih s h hr; rcases ha with rfl | rfl <;> simpa [Act.isThread] using hd
      | some s' =>
        simp only []
        obtain ⟨h', hpc⟩ := ready_host h (Or.inl ha) hs
        apply ih s' h' hr
        rw [hpc]; subst ha; simpa [Act.isThread] using hd
    · cases hs : step s a with
      | none => simp only []; apply ih s h hr; subst ha; simpa [Act.isThread] using hd
      | some s' =>
        simp only []
        obtain ⟨h', hpc⟩ := ready_host h (Or.inr ha) hs
        apply ih s' h' hr
        rw [hpc]; subst ha; simpa [Act.isThread] using hd

/-- Non-vacuity: `readyNative` (B = 3, dist = 6) with two further `interrupt()` calls interleaved. -/
example : (runS readyNative [.thread .plain, .intP, .thread .callPrim, .intS, .thread .nest, .intS, .thread .plain,
    .thread (.callNative 2), .intP, .thread .plain]).pc.terminal = true :=
  interrupt_bounded_host 3 _ readyNative readyNative_ready (by decide) (by decide)

/-- Non-vacuity of `ready_step` and `interrupt_bounded`: all hypotheses hold on `readyNative` (reachable,
`B = 3`, `dist = 6`) with a tail that calls a primitive, enters a nested loop and calls native code again. -/
example : (Ready 3 (stepT readyNative .plain) ∨ (stepT readyNative .plain).pc.terminal = true) ∧
    dist 3 (stepT readyNative .plain).pc < dist 3 readyNative.pc :=
  ready_step readyNative_ready (by decide) (by decide)

example : (runT readyNative [.plain, .callPrim, .nest, .plain, .callNative 2, .plain]).pc.terminal = true :=
  interrupt_bounded 3 _ readyNative readyNative_ready (by decide) (by decide)

example : (runT readyNative [.plain, .callPrim, .nest, .plain, .callNative 2, .plain]).pc = .errored ∧
    (runT readyNative [.plain, .callPrim, .nest, .plain, .callNative 2]).pc ≠ .errored := by decide

theorem stepT_finished {s : State} {c : Choice} (h : (stepT s c).pc = .finished) :
    s.pc = .finished ∨ c = .finish := by
  cases hp : s.pc with
  | exec =>
    cases c <;> simp [stepT, hp] at h ⊢
  | dispatch => simp only [stepT, hp] at h; split at h <;> simp at h
  | sawPaused => simp only [stepT, hp] at h; split at h <;> simp at h
  | native k =>
    cases k with
    | none => simp [stepT, hp] at h
    | some k => cases k <;> simp [stepT, hp] at h
  | spExit => simp only [stepT, hp] at h; split at h <;> simp at h
  | spState => simp only [stepT, hp] at h; split at h <;> simp at h
  | finished => exact Or.inl rfl
  | roundP => simp [stepT, hp] at h
  | roundS => simp [stepT, hp] at h
  | roundBody => simp [stepT, hp] at h
  | resP => simp [stepT, hp] at h
  | resS => simp [stepT, hp] at h
  | parked => simp [stepT, hp] at h
  | errored => simp [stepT, hp] at h

theorem runT_finished (cs : List Choice) : ∀ {s : State}, (runT s cs).pc = .finished →
    s.pc = .finished ∨ Choice.finish ∈ cs := by
  induction cs with
  | nil => intro s h; exact Or.inl h
  | cons c r ih =>
    intro s h
    simp only [runT] at h
    rcases ih h with h1 | h1
    · rcases stepT_finished h1 with h2 | h2
      · exact Or.inl h2
      · exact Or.inr (by simp [h2])
    · exact Or.inr (by simp [h1])

/-- **… stops with an error**: in `interrupt_bounded`, if the program does not finish by itself within those
steps (no `finish` instruction among them), the evaluation returns the interrupt error. -/
theorem interrupt_bounded_error (B : Nat) (cs : List Choice) (s : State) (h : Ready B s)
    (hb : ∀ c ∈ cs, c.bounded B = true) (hd : dist B s.pc ≤ cs.length) (hnf : Choice.finish ∉ cs)
    (hs : s.pc ≠ .finished) : (runT s cs).pc = .errored := by
  have ht := interrupt_bounded B cs s h hb hd
  cases hp : (runT s cs).pc <;> simp [hp, PC.terminal] at ht
  · rfl
  · rcases runT_finished cs hp with h1 | h1
    · exact absurd h1 hs
    · exact absurd h1 hnf

example : (runT readyNative [.plain, .callPrim, .nest, .plain, .callNative 2, .plain]).pc = .errored :=
  interrupt_bounded_error 3 _ readyNative readyNative_ready (by decide) (by decide) (by decide) (by decide)

/-- With the request complete, a return means the interrupt error unless the program finished by itself:
the poll never lets a ready thread fall through. -/
theorem poll_delivers (s : State) (c c' : Choice) (hp : s.pc = .dispatch) (h1 : s.paused = true)
    (h2 : s.st = .interrupted) : (stepT (stepT s c) c').pc = .errored := by
  simp [stepT, hp, h1, h2]

/-- Non-vacuity of `poll_delivers`: a reachable state at the poll with the request complete. -/
example : (run init [.thread .plain, .thread .plain, .intP, .intS]).pc = .dispatch ∧
    (stepT (stepT (run init [.thread .plain, .thread .plain, .intP, .intS]) .nest) .beginRound).pc = .errored :=
  ⟨by decide, poll_delivers _ _ _ (by decide) (by decide) (by decide)⟩

/-! ## The request is not lost — under the guard -/

def Inv (s : State) : Prop :=
  s.pending = true → s.paused = true ∧ (s.st = .interrupted ∨ s.hostMid = true)

theorem stepT_keeps {s : State} {c : Choice} (hr : s.pc.inRound = false)
    (hb : ¬ (s.pc = .exec ∧ c = .beginRound)) :
    (stepT s c).paused = s.paused ∧ (stepT s c).st = s.st ∧ (stepT s c).hostMid = s.hostMid ∧
    ((stepT s c).pending = true → s.pending = true) := by
  cases hp : s.pc with
  | dispatch => simp only [stepT, hp]; split <;> simp
  | sawPaused => simp only [stepT, hp]; split <;> simp
  | exec =>
    cases c <;> simp [stepT, hp]
    split <;> simp
  | native k =>
    cases k with
    | none => simp [stepT, hp]
    | some k => cases k <;> simp [stepT, hp]
  | roundP => simp [hp, PC.inRound] at hr
  | roundS => simp [hp, PC.inRound] at hr
  | roundBody => simp [hp, PC.inRound] at hr
  | resP => simp [hp, PC.inRound] at hr
  | resS => simp [hp, PC.inRound] at hr
  | spExit => simp only [stepT, hp]; split <;> simp
  | spState => simp only [stepT, hp]; split <;> simp
  | parked => simp [stepT, hp]
  | errored => simp [stepT, hp]
  | finished => simp [stepT, hp]

theorem stepT_pending {s : State} {c : Choice} : (stepT s c).pending = true → s.pending = true := by
  cases hp : s.pc with
  | dispatch => simp only [stepT, hp]; split <;> simp
  | sawPaused => simp only [stepT, hp]; split <;> simp
  | exec =>
    cases c <;> simp [stepT, hp]
    split <;> simp
  | native k =>
    cases k with
    | none => simp [stepT, hp]
    | some k => cases k <;> simp [stepT, hp]
  | roundP => simp [stepT, hp]
  | roundS => simp [stepT, hp]
  | roundBody => simp [stepT, hp]
  | resP => simp [stepT, hp]
  | resS => simp [stepT, hp]
  | spExit => simp only [stepT, hp]; split <;> simp
  | spState => simp only [stepT, hp]; split <;> simp
  | parked => simp [stepT, hp]
  | errored => simp [stepT, hp]
  | finished => simp [stepT, hp]

theorem step_inv {s s' : State} {a : Act} (h : Inv s) (hg : G s a = true) (hs : step s a = some s') :
    Inv s' := by
  cases a with
  | thread c =>
    simp only [step] at hs; cases hs
    intro hp
    have hps := stepT_pending hp
    have hg' : ¬ (s.pc.inRound = true ∨ (s.pc = .exec ∧ c = .beginRound)) := by
      simp [G, hps] at hg
      intro hx
      rcases hx with hx | ⟨hx1, hx2⟩
      · rw [hg.1] at hx; cases hx
      · rcases hg.2 with hh | hh
        · exact hh hx1
        · exact hh hx2
    have hr : s.pc.inRound = false := by
      cases hh : s.pc.inRound
      · rfl
      · exact absurd (Or.inl hh) hg'
    obtain ⟨k1, k2, k3, _⟩ := stepT_keeps (c := c) hr (fun e => hg' (Or.inr e))
    rw [k1, k2, k3]; exact h hps
  | intP => simp only [step] at hs; cases hs; intro _; simp
  | intS =>
    simp only [step] at hs
    split at hs
    · cases hs; intro hp; exact ⟨(h hp).1, Or.inl rfl⟩
    · cases hs
  | hresP =>
    simp only [step] at hs; cases hs
    intro hp; simp [G] at hg; simp [hg] at hp
  | hresS =>
    simp only [step] at hs; cases hs
    intro hp; simp [G] at hg; simp [hg] at hp
  | rerun =>
    simp only [step] at hs
    split at hs
    · cases hs; exact h
    · cases hs

theorem runG_inv (sched : List Act) : ∀ {s : State}, Inv s → Inv (runG s sched) := by
  induction sched with
  | nil => intro s h; exact h
  | cons a r ih =>
    intro s h
    simp only [runG]
    split
    · rename_i hg
      cases hs : step s a with
      | none => exact h
      | some s' => exact ih (step_inv h hg hs)
    · exact h

/-- **Full statement (does NOT hold — `not_interrupt_not_lost`).**  A request that has been issued and not yet
delivered stays visible to the poll. -/
def InterruptNotLost : Prop :=
  ∀ sched : List Act, (run init sched).pending = true →
    (run init sched).paused = true ∧ ((run init sched).st = .interrupted ∨ (run init sched).hostMid = true)

/-- **The request is not lost**, for every history of instructions, rounds, nested loops, native calls,
requests and resumes in which no `stop_threads()/resume_threads()` pair of the thread's own collection or global
update overlaps a pending request: the flag stays raised and the state stays `Interrupted` (or is about to be
stored) until the evaluation returns. -/
theorem interrupt_not_lost_partial (sched : List Act) :
    (runG init sched).pending = true →
    (runG init sched).paused = true ∧
      ((runG init sched).st = .interrupted ∨ (runG init sched).hostMid = true) :=
  runG_inv sched (s := init) (by intro h; simp [init] at h)

/-- Non-vacuity of `interrupt_not_lost_partial`: the hypothesis (`pending`) holds on guarded schedules — between
the two stores of the request (second disjunct), after both (first disjunct), also with the thread in native
code inside a nested loop, and after a complete round of the thread's own that ended before the request. -/
example :
    (runG init [.thread .plain, .thread .plain, .intP]).pending = true ∧
    (runG init [.thread .plain, .thread .plain, .intP]).st = .running ∧
    (runG init [.thread .plain, .thread .nest, .thread .plain, .thread (.callNative 3), .intP, .intS,
                .thread .plain]).pending = true ∧
    (runG init [.thread .plain, .thread .beginRound, .thread .plain, .thread .plain, .thread .plain,
                .thread .plain, .thread .plain, .intP, .intS, .thread .plain]).pending = true ∧
    (runG init [.thread .plain, .thread .beginRound, .thread .plain, .thread .plain, .thread .plain,
                .thread .plain, .thread .plain, .intP, .intS, .thread .plain]).pc = .sawPaused := by decide

/-- The lost interrupt (K17a): the request lands inside the thread's own round (here: between its
`pause_for_safepoint()` and its `resume()`); `resume()` stores `paused = false, Running` unconditionally. -/
def lostInterrupt : List Act :=
  [.thread .plain, .thread .beginRound, .thread .plain, .thread .plain,   -- poll, instruction, stop_threads
   .intP, .intS,                                                           -- host: interrupt()
   .thread .plain, .thread .plain, .thread .plain]                         -- body, resume_threads

theorem lostInterrupt_lost :
    let s := run init lostInterrupt
    s.pending = true ∧ s.paused = false ∧ s.st = .running ∧ s.pc = .dispatch := by decide

/-- … and the evaluation then runs on for ever: after any number of further ordinary instructions it has
not returned. -/
theorem lostInterrupt_runs_on (n : Nat) :
    (runT (run init lostInterrupt) (List.replicate n .plain)).pc.terminal = false := by
  have e : run init lostInterrupt = { pending := true } := by decide
  rw [e]
  have key : ∀ n (s : State), s.paused = false → (s.pc = .dispatch ∨ s.pc = .exec) →
      (runT s (List.replicate n .plain)).pc.terminal = false := by
    intro n
    induction n with
    | zero => intro s _ hp; rcases hp with hp | hp <;> simp [runT, hp, PC.terminal]
    | succ n ih =>
      intro s h1 hp
      simp only [List.replicate_succ, runT]
      rcases hp with hp | hp
      · exact ih _ (by simp [stepT, hp, h1]) (Or.inr (by simp [stepT, hp, h1]))
      · exact ih _ (by simp [stepT, hp, h1]) (Or.inl (by simp [stepT, hp]))
  exact key n _ rfl (Or.inl rfl)

theorem not_interrupt_not_lost : ¬ InterruptNotLost := by
  intro h
  have := h lostInterrupt lostInterrupt_lost.1
  rw [lostInterrupt_lost.2.1] at this
  exact absurd this.1 (by simp)

/-- The guard rejects that schedule at the host's request (the thread is inside a round). -/
theorem lostInterrupt_guard : runG init lostInterrupt = run init (lostInterrupt.take 4) := by decide

/-- The other overlap: the request is complete BEFORE the round begins (the poll of this instruction was
already passed); `pause_for_safepoint()` overwrites `Interrupted`, `resume()` lowers the flag. -/
def lostInterrupt2 : List Act :=
  [.thread .plain, .intP, .intS, .thread .beginRound,
   .thread .plain, .thread .plain, .thread .plain, .thread .plain, .thread .plain]

theorem lostInterrupt2_lost :
    let s := run init lostInterrupt2
    s.pending = true ∧ s.paused = false ∧ s.st = .running := by decide

/-! ## The request reaches the thread — the thread never parks on it

`interrupt()` is two stores.  A thread in the exit loop of `enter_safepoint` that loads `paused = true` after the
first and `state` before the second does not `break`: it calls `park()`, and `interrupt()` never unparks
(finding K17c).  Under the stronger guard `G2` (the thread does not execute that `state.load()` while a request is
between its two stores; the host calls `resume()` only after `run` has returned, flag first) the thread never
parks, so a pending request always ends in a state from which `interrupt_bounded` applies. -/

def G2 (s : State) (a : Act) : Bool :=
  G s a && (match a with
    | .thread _ => !(s.pc == .spState && s.hostMid)
    | .hresP => s.pc.terminal
    | .hresS => s.pc.terminal && !s.paused
    | _ => true)

def runG2 (s : State) : List Act → State
  | [] => s
  | a :: r =>
      if G2 s a then
        match step s a with
        | none => s
        | some s' => runG2 s' r
      else s

def PC.roundTail : PC → Bool
  | .roundBody | .resP | .resS => true
  | _ => false

structure Inv2 (s : State) : Prop where
  base : Inv s
  a : s.pending = true → s.pc.inRound = false
  b : s.st = .pausedAtSafepoint → s.pc.roundTail = true
  c : s.pc = .spState → s.paused = true
  k : s.paused = true → s.pending = true ∨ s.pc.inRound = true ∨ s.st = .interrupted
  d : s.pc ≠ .parked
  e : s.pc = .resS → s.paused = false

theorem g2_g {s : State} {a : Act} (h : G2 s a = true) : G s a = true := by
  simp only [G2, Bool.and_eq_true] at h; exact h.1

theorem step_inv2 {s s' : State} {a : Act} (h : Inv2 s) (hg : G2 s a = true) (hs : step s a = some s') :
    Inv2 s' := by
  have hb := step_inv h.base (g2_g hg) hs
  obtain ⟨h0, ha, hb2, hc, hk, hd, he⟩ := h
  cases a with
  | thread c =>
    simp only [step] at hs; cases hs
    have hG := g2_g hg
    have hg2 : ¬ (s.pc = .spState ∧ s.hostMid = true) := by
      simp only [G2, Bool.and_eq_true] at hg
      have := hg.2
      intro hx; simp [hx.1, hx.2] at this
    have hgr : s.pending = true → ¬ (s.pc.inRound = true ∨ (s.pc = .exec ∧ c = .beginRound)) := by
      intro hp hx
      simp [G, hp] at hG
      rcases hx with hx | ⟨hx1, hx2⟩
      · rw [hG.1] at hx; cases hx
      · rcases hG.2 with hh | hh
        · exact hh hx1
        · exact hh hx2
    have hcI := fun hx => (h0 hx)
    cases hp : s.pc with
    | dispatch =>
      by_cases hpa : s.paused = true
      · have e : stepT s c = { s with pc := .sawPaused } := by simp [stepT, hp, hpa]
        rw [e] at hb ⊢
        refine ⟨hb, ?_, ?_, ?_, ?_, ?_, ?_⟩ <;> simp_all [PC.inRound, PC.roundTail]
      · have e : stepT s c = { s with pc := .exec } := by simp [stepT, hp, hpa]
        rw [e] at hb ⊢
        refine ⟨hb, ?_, ?_, ?_, ?_, ?_, ?_⟩ <;> simp_all [PC.inRound, PC.roundTail]
    | sawPaused =>
      cases hst : s.st with
      | interrupted =>
        have e : stepT s c = { s with pc := .errored, pending := false } := by simp [stepT, hp, hst]
        rw [e] at hb ⊢
        refine ⟨hb, ?_, ?_, ?_, ?_, ?_, ?_⟩ <;> simp_all [PC.inRound, PC.roundTail]
      | pausedAtSafepoint =>
        have := hb2 hst; simp [hp, PC.roundTail] at this
      | running =>
        have e : stepT s c = { s with pc := .exec } := by simp [stepT, hp, hst]
        rw [e] at hb ⊢
        refine ⟨hb, ?_, ?_, ?_, ?_, ?_, ?_⟩ <;> simp_all [PC.inRound, PC.roundTail]
    | exec =>
      have hnp : c = .beginRound → s.pending = false := by
        intro hc'
        cases hpd : s.pending
        · rfl
        · exact absurd (Or.inr ⟨hp, hc'⟩) (hgr hpd)
      cases c with
      | beginRound =>
        have hpd := hnp rfl
        have e : stepT s .beginRound = { s with pc := .roundP } := by simp [stepT, hp]
        rw [e] at hb ⊢
        refine ⟨hb, ?_, ?_, ?_, ?_, ?_, ?_⟩ <;> simp_all [PC.inRound, PC.roundTail]
      | finish =>
        by_cases hdp : s.depth = 0
        · have e : stepT s .finish = { s with pc := .finished } := by simp [stepT, hp, hdp]
          rw [e] at hb ⊢
          refine ⟨hb, ?_, ?_, ?_, ?_, ?_, ?_⟩ <;> simp_all [PC.inRound, PC.roundTail]
        · have e : stepT s .finish = { s with pc := .dispatch } := by simp [stepT, hp, hdp]
          rw [e] at hb ⊢
          refine ⟨hb, ?_, ?_, ?_, ?_, ?_, ?_⟩ <;> simp_all [PC.inRound, PC.roundTail]
      | plain =>
        have e : stepT s .plain = { s with pc := .dispatch } := by simp [stepT, hp]
        rw [e] at hb ⊢
        refine ⟨hb, ?_, ?_, ?_, ?_, ?_, ?_⟩ <;> simp_all [PC.inRound, PC.roundTail]
      | callNative k =>
        have e : stepT s (.callNative k) = { s with pc := .native (some k) } := by simp [stepT, hp]
        rw [e] at hb ⊢
        refine ⟨hb, ?_, ?_, ?_, ?_, ?_, ?_⟩ <;> simp_all [PC.inRound, PC.roundTail]
      | nativeLoop =>
        have e : stepT s .nativeLoop = { s with pc := .native none } := by simp [stepT, hp]
        rw [e] at hb ⊢
        refine ⟨hb, ?_, ?_, ?_, ?_, ?_, ?_⟩ <;> simp_all [PC.inRound, PC.roundTail]
      | callPrim =>
        have e : stepT s .callPrim = { s with pc := .spExit } := by simp [stepT, hp]
        rw [e] at hb ⊢
        refine ⟨hb, ?_, ?_, ?_, ?_, ?_, ?_⟩ <;> simp_all [PC.inRound, PC.roundTail]
      | nest =>
        have e : stepT s .nest = { s with pc := .dispatch, depth := s.depth + 1 } := by simp [stepT, hp]
        rw [e] at hb ⊢
        refine ⟨hb, ?_, ?_, ?_, ?_, ?_, ?_⟩ <;> simp_all [PC.inRound, PC.roundTail]
      | unnest =>
        have e : stepT s .unnest = { s with pc := .dispatch, depth := s.depth - 1 } := by simp [stepT, hp]
        rw [e] at hb ⊢
        refine ⟨hb, ?_, ?_, ?_, ?_, ?_, ?_⟩ <;> simp_all [PC.inRound, PC.roundTail]
    | native k =>
      cases k with
      | none =>
        have e : stepT s c = s := by simp [stepT, hp]
        rw [e] at hb ⊢
        exact ⟨hb, ha, hb2, hc, hk, hd, he⟩
      | some k =>
        cases k with
        | zero =>
          have e : stepT s c = { s with pc := .dispatch } := by simp [stepT, hp]
          rw [e] at hb ⊢
          refine ⟨hb, ?_, ?_, ?_, ?_, ?_, ?_⟩ <;> simp_all [PC.inRound, PC.roundTail]
        | succ k =>
          have e : stepT s c = { s with pc := .native (some k) } := by simp [stepT, hp]
          rw [e] at hb ⊢
          refine ⟨hb, ?_, ?_, ?_, ?_, ?_, ?_⟩ <;> simp_all [PC.inRound, PC.roundTail]
    | roundP =>
      have hpd : s.pending = false := by
        cases hpd : s.pending
        · rfl
        · have := ha hpd; simp [hp, PC.inRound] at this
      have e : stepT s c = { s with paused := true, pc := .roundS } := by simp [stepT, hp]
      rw [e] at hb ⊢
      refine ⟨hb, ?_, ?_, ?_, ?_, ?_, ?_⟩ <;> simp_all [PC.inRound, PC.roundTail]
    | roundS =>
      have hpd : s.pending = false := by
        cases hpd : s.pending
        · rfl
        · have := ha hpd; simp [hp, PC.inRound] at this
      have e : stepT s c = { s with st := .pausedAtSafepoint, pc := .roundBody } := by simp [stepT, hp]
      rw [e] at hb ⊢
      refine ⟨hb, ?_, ?_, ?_, ?_, ?_, ?_⟩ <;> simp_all [PC.inRound, PC.roundTail]
    | roundBody =>
      have hpd : s.pending = false := by
        cases hpd : s.pending
        · rfl
        · have := ha hpd; simp [hp, PC.inRound] at this
      have e : stepT s c = { s with pc := .resP } := by simp [stepT, hp]
      rw [e] at hb ⊢
      refine ⟨hb, ?_, ?_, ?_, ?_, ?_, ?_⟩ <;> simp_all [PC.inRound, PC.roundTail]
    | resP =>
      have hpd : s.pending = false := by
        cases hpd : s.pending
        · rfl
        · have := ha hpd; simp [hp, PC.inRound] at this
      have e : stepT s c = { s with paused := false, pc := .resS } := by simp [stepT, hp]
      rw [e] at hb ⊢
      refine ⟨hb, ?_, ?_, ?_, ?_, ?_, ?_⟩ <;> simp_all [PC.inRound, PC.roundTail]
    | resS =>
      have hpd : s.pending = false := by
        cases hpd : s.pending
        · rfl
        · have := ha hpd; simp [hp, PC.inRound] at this
      have hpz : s.paused = false := he hp
      have e : stepT s c = { s with st := .running, pc := .dispatch } := by simp [stepT, hp]
      rw [e] at hb ⊢
      refine ⟨hb, ?_, ?_, ?_, ?_, ?_, ?_⟩ <;> simp_all [PC.inRound, PC.roundTail]
    | spExit =>
      by_cases hpa : s.paused = true
      · have e : stepT s c = { s with pc := .spState } := by simp [stepT, hp, hpa]
        rw [e] at hb ⊢
        refine ⟨hb, ?_, ?_, ?_, ?_, ?_, ?_⟩ <;> simp_all [PC.inRound, PC.roundTail]
      · have e : stepT s c = { s with pc := .dispatch } := by simp [stepT, hp, hpa]
        rw [e] at hb ⊢
        refine ⟨hb, ?_, ?_, ?_, ?_, ?_, ?_⟩ <;> simp_all [PC.inRound, PC.roundTail]
    | spState =>
      have hpa := hc hp
      have hnm : s.hostMid = false := by
        cases hm : s.hostMid
        · rfl
        · exact absurd ⟨hp, hm⟩ hg2
      have hint : s.st = .interrupted := by
        rcases hk hpa with h1 | h1 | h1
        · rcases (hcI h1).2 with h2 | h2
          · exact h2
          · rw [hnm] at h2; cases h2
        · simp [hp, PC.inRound] at h1
        · exact h1
      have e : stepT s c = { s with pc := .dispatch } := by simp [stepT, hp, hint]
      rw [e] at hb ⊢
      refine ⟨hb, ?_, ?_, ?_, ?_, ?_, ?_⟩ <;> simp_all [PC.inRound, PC.roundTail]
    | parked => exact absurd hp hd
    | errored =>
      have e : stepT s c = s := by simp [stepT, hp]
      rw [e] at hb ⊢
      exact ⟨hb, ha, hb2, hc, hk, hd, he⟩
    | finished =>
      have e : stepT s c = s := by simp [stepT, hp]
      rw [e] at hb ⊢
      exact ⟨hb, ha, hb2, hc, hk, hd, he⟩
  | intP =>
    simp only [step] at hs; cases hs
    have hnr : s.pc.inRound = false := by
      have := g2_g hg; simpa [G] using this
    exact ⟨hb, fun _ => hnr, hb2, fun _ => rfl, fun _ => Or.inl rfl, hd,
      fun hx => by rw [hx] at hnr; simp [PC.inRound] at hnr⟩
  | intS =>
    simp only [step] at hs
    split at hs
    · cases hs
      exact ⟨hb, ha, fun hx => by simp at hx, hc, fun _ => Or.inr (Or.inr rfl), hd, he⟩
    · cases hs
  | hresP =>
    simp only [step] at hs; cases hs
    have ht : s.pc.terminal = true := by
      simp only [G2, Bool.and_eq_true] at hg; exact hg.2
    refine ⟨hb, ha, hb2, ?_, fun hx => by simp at hx, hd, fun _ => rfl⟩
    intro hx; rw [hx] at ht; simp [PC.terminal] at ht
  | hresS =>
    simp only [step] at hs; cases hs
    have ht : s.pc.terminal = true ∧ s.paused = false := by
      simp only [G2, Bool.and_eq_true] at hg
      have := hg.2; simpa using this
    refine ⟨hb, ha, fun hx => by simp at hx, hc, ?_, hd, he⟩
    intro hx; rw [ht.2] at hx; cases hx
  | rerun =>
    simp only [step] at hs
    split at hs
    · rename_i ht
      cases hs
      refine ⟨hb, ?_, ?_, ?_, ?_, by simp, by simp⟩
      · intro _; simp [PC.inRound]
      · intro hx; have := hb2 hx; rcases ht with ht | ht <;> simp [ht, PC.roundTail] at this
      · intro hx; simp at hx
      · intro hx
        rcases hk hx with h1 | h1 | h1
        · exact Or.inl h1
        · rcases ht with ht | ht <;> simp [ht, PC.inRound] at h1
        · exact Or.inr (Or.inr h1)
    · cases hs

theorem inv2_init : Inv2 init :=
  ⟨by intro h; simp [init] at h, by simp [init], by simp [init], by simp [init], by simp [init],
   by simp [init], by simp [init]⟩

theorem runG2_inv (sched : List Act) : ∀ {s : State}, Inv2 s → Inv2 (runG2 s sched) := by
  induction sched with
  | nil => intro s h; exact h
  | cons a r ih =>
    intro s h
    simp only [runG2]
    split
    · rename_i hg
      cases hs : step s a with
      | none => exact h
      | some s' => exact ih (step_inv2 h hg hs)
    · exact h

/-- **Under the guard `G2` the evaluation thread never parks on a request**, and a complete pending request finds
it ready: flag raised, state `Interrupted`, not inside a round, not parked — `interrupt_bounded` then bounds the
return (for programs whose native regions are bounded). -/
theorem interrupt_delivered_partial (sched : List Act) :
    let s := runG2 init sched
    s.pc ≠ .parked ∧
    (s.pending = true → s.hostMid = false →
      s.paused = true ∧ s.st = .interrupted ∧ s.pc.inRound = false) := by
  have h := runG2_inv sched inv2_init
  refine ⟨h.d, fun hp hm => ?_⟩
  have := h.base hp
  refine ⟨this.1, ?_, h.a hp⟩
  rcases this.2 with h1 | h1
  · exact h1
  · rw [hm] at h1; cases h1

/-- Non-vacuity of `interrupt_delivered_partial`: a `G2`-respecting schedule (every line accepted: `runG2 = run`)
in which the request arrives while the thread is in the exit loop of a primitive's safepoint — the situation of
K17c, with the thread's `state.load()` after the second store — reaches a state with the request pending and
complete; the thread breaks out of the loop and the next poll raises the error. -/
def primExit : List Act :=
  [.thread .plain, .thread .callPrim, .intP, .thread .plain, .intS, .thread .plain]

example : runG2 init primExit = run init primExit ∧ (runG2 init primExit).pending = true ∧
    (runG2 init primExit).hostMid = false ∧ (runG2 init primExit).pc = .dispatch ∧
    (runG2 init (primExit ++ [.thread .plain, .thread .plain])).pc = .errored := by decide

/-- **Interruption end to end, under `G2`**: for every `G2`-respecting history of instructions, rounds, nested
loops, native calls, requests, resumes and re-runs, if in the state reached a request is pending and complete
and the thread is not inside a native region longer than `B` (or one without poll), then whatever it executes
next (bounded choices: no round of its own, native regions ≤ `B`), the evaluation has returned after
`dist B pc ≤ B + 5` further steps of the thread — with the interrupt error unless the program finishes first.
(Host steps interleaved with those last `B + 5` thread steps: `interrupt_bounded_host`.) -/
theorem interrupt_end_to_end_partial (B : Nat) (sched : List Act) (cs : List Choice) :
    let s := runG2 init sched
    s.pending = true → s.hostMid = false → s.pc ≠ .native none → (∀ k, s.pc = .native (some k) → k ≤ B) →
    (∀ c ∈ cs, c.bounded B = true) → dist B s.pc ≤ cs.length →
    (runT s cs).pc.terminal = true ∧
    (s.pc ≠ .finished → Choice.finish ∉ cs → (runT s cs).pc = .errored) := by
  intro s hp hm hn hk hb hd
  obtain ⟨h1, h2⟩ := interrupt_delivered_partial sched
  obtain ⟨a, b, c⟩ := h2 hp hm
  have hr : Ready B s := ⟨a, b, c, hn, h1, hk⟩
  exact ⟨interrupt_bounded B cs s hr hb hd, fun hs hnf => interrupt_bounded_error B cs s hr hb hd hnf hs⟩

example : (runT (runG2 init primExit) [.plain, .plain]).pc = .errored :=
  (interrupt_end_to_end_partial 0 primExit [.plain, .plain] (by decide) (by decide) (by decide)
    (by intro k hk; rw [show (runG2 init primExit).pc = .dispatch by decide] at hk; cases hk)
    (by decide) (by decide)).2 (by decide) (by decide)

/-- The request that parks the thread (K17c): `paused` is stored, the thread — in the exit loop of a primitive's
safepoint — loads `paused = true`, then `state = Running`, and parks; `Interrupted` is stored afterwards. -/
def parkedForever : List Act :=
  [.thread .plain, .thread .callPrim,       -- poll, an instruction that calls a primitive; now at the exit loop
   .intP,                                    -- host: paused.store(true)
   .thread .plain, .thread .plain,           -- thread: paused.load() = true; state.load() = Running → park()
   .intS]                                    -- host: state.store(Interrupted)

theorem parkedForever_parks :
    let s := run init parkedForever
    s.pc = .parked ∧ s.pending = true ∧ s.paused = true ∧ s.st = .interrupted := by decide

/-- … and stays parked whatever else the thread's schedule says (`interrupt()` and `resume()` never unpark). -/
theorem parked_stays (cs : List Choice) (s : State) (h : s.pc = .parked) : (runT s cs).pc = .parked := by
  induction cs generalizing s with
  | nil => exact h
  | cons c r ih => simp only [runT]; apply ih; simp [stepT, h]

example : (runT (run init parkedForever) [.plain, .callPrim, .finish, .beginRound]).pc = .parked :=
  parked_stays _ _ parkedForever_parks.1

/-- The full delivery statement is false for the code as it is. -/
theorem not_interrupt_delivered :
    ¬ ∀ sched : List Act, (run init sched).pc ≠ .parked := by
  intro h
  exact h parkedForever parkedForever_parks.1

/-- `G2` rejects that schedule at the thread's `state.load()`. -/
theorem parkedForever_guard : runG2 init parkedForever = run init (parkedForever.take 4) := by decide

/-! ## Native loops -/

/-- A native back-edge without poll (K17b): the request is complete and is never seen. -/
theorem not_interrupt_bounded_native (cs : List Choice) :
    (runT { pc := .native none, paused := true, st := .interrupted, pending := true } cs).pc
      = .native none := by
  induction cs with
  | nil => rfl
  | cons c r ih => simpa [runT, stepT] using ih

/-! ## Resume -/

/-- **After the error and `resume()` the engine is usable**: the flag is lowered, the state is `Running`, a new
`run` starts at the dispatch loop with no nested loops, and its first poll passes. -/
theorem resume_usable (s : State) (he : s.pc = .errored) (c : Choice) :
    let s' := run s [.hresP, .hresS, .rerun]
    s'.paused = false ∧ s'.st = .running ∧ s'.pc = .dispatch ∧ s'.depth = 0 ∧
    (stepT s' c).pc = .exec := by
  simp [run, step, he, stepT]

/-- Non-vacuity of `resume_usable`: the errored state of `example_delivered`; the whole history — loop,
request, error, `resume()`, second `run`, two more instructions — respects `G2`, and the second evaluation
dispatches normally and can be interrupted again. -/
def delivered : List Act :=
  [.thread .plain, .thread .plain, .intP, .intS, .thread .plain, .thread .plain, .thread .plain]

example : (run init delivered).pc = .errored ∧ (run init delivered).pending = false ∧
    runG2 init (delivered ++ [.hresP, .hresS, .rerun, .thread .plain, .thread .plain]) =
      run (run init delivered) [.hresP, .hresS, .rerun, .thread .plain, .thread .plain] ∧
    (runG2 init (delivered ++ [.hresP, .hresS, .rerun, .thread .plain, .thread .plain])).pc = .dispatch ∧
    (runG2 init (delivered ++ [.hresP, .hresS, .rerun, .thread .plain, .intP, .intS, .thread .plain,
      .thread .plain, .thread .plain])).pc = .errored := by decide

example : (stepT (run (run init delivered) [.hresP, .hresS, .rerun]) .plain).pc = .exec :=
  (resume_usable (run init delivered) (by decide) .plain).2.2.2.2

/-! ## Non-vacuity

`example_delivered` and `example_native_nested` are TESTS of the model on two schedules (by `decide`), not
general claims. -/

/-- A request during an ordinary loop is delivered: poll, instruction, request, poll → error. -/
theorem example_delivered :
    (runG init [.thread .plain, .thread .plain, .intP, .intS, .thread .plain, .thread .plain,
                .thread .plain]).pc = .errored := by decide

/-- A request while the thread is 3 steps deep in native code, inside a nested loop: delivered after the native
code returns. -/
theorem example_native_nested :
    (runG init [.thread .plain, .thread .nest, .thread .plain, .thread (.callNative 3), .intP, .intS,
                .thread .plain, .thread .plain, .thread .plain, .thread .plain,
                .thread .plain, .thread .plain]).pc = .errored := by decide

/-! ## Clauses of the property not carried by a theorem

* "whatever code is running: interpreted or native-compiled loops, loops inside higher-order library procedures,
  transducers, handlers or wind thunks": the model has ONE dispatch loop with a depth counter for nested `vm()`
  loops and an abstract native tier (`native (some k)` / `native none`).  That every one of those program shapes
  is an instance — each callback of `map`/`fold`/`transduce`/`for-each`, each handler and wind thunk runs under
  a loop that polls per instruction, no built-in loops on its own without re-entering the dispatch loop, errors
  raised in callbacks are propagated — is carried only by the regenerated tables (`dispatch_loop_polls`,
  `native_backedges_listed`, `trampoline_calls_once`, `iteration_errors_propagate`: `decide` over the extracted
  sites) and the differential run.  Built-ins that run long without calling back (a sort of a huge list, a
  blocking read) are not modelled: `callPrim` takes one step.
* "for interrupt requests arriving at arbitrary times": only for the times the guards allow.  Excluded: a request
  overlapping the thread's own `stop_threads()/resume_threads()` pair (every define / set! of a global, every
  full collection — false there: `not_interrupt_not_lost`, K17a); a request whose two stores straddle the
  `state.load()` of a safepoint exit loop (false: `not_interrupt_delivered`, K17c); a `resume()` before `run`
  has returned.
* "within a bounded number of further script steps": `B + 5` where `B` is a PARAMETER bounding the native
  regions entered; for a native back-edge without poll there is no bound (`not_interrupt_bounded_native`,
  K17b).  Host steps interleaved with the thread's last steps ARE covered: `interrupt_bounded_host` (any number of
  further `interrupt()` calls, their stores in any position, `B + 5` counts thread steps only).  More than one engine
  thread (requests to a thread parked in another thread's round) is part of `C15.R.interrupt_not_lost` only.
* "with native code generation on and off": one abstract tier; which opcodes compile to what is the table.
* "the engine can then be resumed and used normally": `resume_usable` is about the two flags, the pc and the
  depth counter.  That the stack, the global table, open `dynamic-wind` extents, handlers and the heap of the
  real engine are in a usable state after the error is not modelled (probe evaluations of the differential
  run).
* Wall-clock latency (`run_with_timeout`), Relaxed visibility of the two stores.
* A REPAIR of K17a / K17c exists as a model only (`SteelVerif.C15.ModelR`: the controller as one word of request
  bits — `interrupt()` sets INTERRUPT, the stopper's resume clears STOP only, the exit loops wait on STOP only — in
  the N-thread handshake model, so "more than one engine thread" and "requests to a thread parked in another thread's
  round" ARE part of it): `C15.R.interrupt_not_lost` (for every number of threads and every schedule without a host
  `resume()` on that controller the request stays pending, whatever rounds overlap it — the full `InterruptNotLost`
  clause, no guard), `C15.R.poll_delivers` (the next poll returns the error), `C15.R.interruptInRound_delivered`
  (the K17a schedule, by evaluation).  No patch of /repo has been written for it; the bound `B + 5` and the program
  shapes are not restated there. -/

end SteelVerif.C17
