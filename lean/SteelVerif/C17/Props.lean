/-
C17 — property theorems: a running script can always be interrupted.

Model: `Model.lean` (one engine thread with its poll, nested `vm()` loops, the native tier, the thread's own
stop-the-world rounds, and the host's `interrupt()` / `resume()` on the SAME controller).

The code as it is does not satisfy the full statements:
* `not_interrupt_not_lost`: an `interrupt()` that overlaps the thread's own `stop_threads()/resume_threads()`
  pair (every define / set! of a global, every full collection) is erased (finding K17a);
* `not_interrupt_bounded_native`: a native back-edge without poll never returns to the dispatch loop (K17b).
What is proved for all schedules is the statement under the guard `G` (no such overlap) and for programs whose
native regions are bounded.
-/
import SteelVerif.C17.Model
namespace SteelVerif.C17

def PC.terminal : PC → Bool
  | .errored | .finished => true
  | _ => false

/-- The request is complete (`paused` and `Interrupted` both stored) and the thread is somewhere from where it
reaches its poll within `B` steps of native code. -/
def Ready (B : Nat) (s : State) : Prop :=
  s.paused = true ∧ s.st = .interrupted ∧ s.pc.inRound = false ∧ s.pc ≠ .native none ∧ s.pc ≠ .parked ∧
  ∀ k, s.pc = .native (some k) → k ≤ B

theorem stepT_terminal {s : State} (h : s.pc.terminal = true) (c : Choice) : stepT s c = s := by
  cases hp : s.pc <;> simp [hp, PC.terminal] at h <;> simp [stepT, hp]

theorem runT_terminal (cs : List Choice) : ∀ {s : State}, s.pc.terminal = true → runT s cs = s := by
  induction cs with
  | nil => intro s _; rfl
  | cons c r ih => intro s h; simp only [runT]; rw [stepT_terminal h]; exact ih h

/-- One step of a ready thread: it stays ready (or returns) and gets closer to returning. -/
theorem ready_step {B : Nat} {s : State} {c : Choice} (h : Ready B s) (hc : c.bounded B = true)
    (hnt : s.pc.terminal = false) :
    (Ready B (stepT s c) ∨ (stepT s c).pc.terminal = true) ∧
    dist B (stepT s c).pc < dist B s.pc := by
  obtain ⟨h1, h2, h3, h4, h5, h6⟩ := h
  cases hp : s.pc with
  | dispatch => simp [stepT, hp, h1, Ready, h2, PC.inRound, dist, PC.terminal]
  | sawPaused => simp [stepT, hp, h2, Ready, PC.terminal, dist]
  | exec =>
    cases c with
    | plain => simp [stepT, hp, Ready, h1, h2, PC.inRound, dist]
    | callNative k =>
      have hk : k ≤ B := by simpa [Choice.bounded] using hc
      simp [stepT, hp, Ready, h1, h2, PC.inRound, dist]; omega
    | nativeLoop => simp [Choice.bounded] at hc
    | beginRound => simp [Choice.bounded] at hc
    | callPrim => simp [stepT, hp, Ready, h1, h2, PC.inRound, dist]
    | nest => simp [stepT, hp, Ready, h1, h2, PC.inRound, dist]
    | unnest => simp [stepT, hp, Ready, h1, h2, PC.inRound, dist]
    | finish =>
      by_cases hd : s.depth = 0
      · simp [stepT, hp, hd, PC.terminal, dist]
      · simp [stepT, hp, hd, Ready, h1, h2, PC.inRound, dist]
  | native k =>
    cases k with
    | none => exact absurd hp h4
    | some k =>
      have hk := h6 k hp
      cases k with
      | zero => simp [stepT, hp, Ready, h1, h2, PC.inRound, dist]
      | succ k => simp [stepT, hp, Ready, h1, h2, PC.inRound, dist]; omega
  | roundP => simp [hp, PC.inRound] at h3
  | roundS => simp [hp, PC.inRound] at h3
  | roundBody => simp [hp, PC.inRound] at h3
  | resP => simp [hp, PC.inRound] at h3
  | resS => simp [hp, PC.inRound] at h3
  | spExit => simp [stepT, hp, h1, Ready, h2, PC.inRound, dist]
  | spState => simp [stepT, hp, h2, Ready, h1, PC.inRound, dist]
  | parked => exact absurd hp h5
  | errored => simp [hp, PC.terminal] at hnt
  | finished => simp [hp, PC.terminal] at hnt

/-- **Bounded interruption.**  Once the request is complete, the evaluation returns (with the interrupt error,
or because it finished) within `dist B pc ≤ B + 5` further steps of the thread, where `B` bounds the length of
the native regions it enters — whatever instructions it executes (ordinary ones, primitives, nested `vm()`
loops of higher-order built-ins, native calls), as long as it does not begin a stop-the-world round of its own
and does not enter a native loop without poll. -/
theorem interrupt_bounded (B : Nat) (cs : List Choice) : ∀ (s : State), Ready B s →
    (∀ c ∈ cs, c.bounded B = true) → dist B s.pc ≤ cs.length → (runT s cs).pc.terminal = true := by
  induction cs with
  | nil =>
    intro s h _ hd
    obtain ⟨h1, h2, h3, h4, h5, h6⟩ := h
    simp only [List.length_nil, Nat.le_zero] at hd
    cases hp : s.pc <;> simp_all [dist, PC.terminal, PC.inRound, runT]
    all_goals (rename_i k; cases k <;> simp_all)
  | cons c r ih =>
    intro s h hb hd
    simp only [runT]
    by_cases hnt : s.pc.terminal = true
    · rw [stepT_terminal hnt, runT_terminal r hnt]; exact hnt
    · have hnt' : s.pc.terminal = false := by simpa using hnt
      obtain ⟨hr, hlt⟩ := ready_step h (hb c (by simp)) hnt'
      rcases hr with hr | hr
      · apply ih _ hr (fun c' hc' => hb c' (by simp [hc']))
        simp only [List.length_cons] at hd; omega
      · rw [runT_terminal r hr]; exact hr

/-- With the request complete, a return means the interrupt error unless the program finished by itself:
the poll never lets a ready thread fall through. -/
theorem poll_delivers (s : State) (c c' : Choice) (hp : s.pc = .dispatch) (h1 : s.paused = true)
    (h2 : s.st = .interrupted) : (stepT (stepT s c) c').pc = .errored := by
  simp [stepT, hp, h1, h2]

/-! ## The request is not lost — under the guard -/

def Inv (s : State) : Prop :=
  s.pending = true → s.paused = true ∧ (s.st = .interrupted ∨ s.hostMid = true)

theorem stepT_keeps {s : State} {c : Choice} (hr : s.pc.inRound = false)
    (hb : ¬ (s.pc = .exec ∧ c = .beginRound)) :
    (stepT s c).paused = s.paused ∧ (stepT s c).st = s.st ∧ (stepT s c).hostMid = s.hostMid ∧
    ((stepT s c).pending = true → s.pending = true) := by
  cases hp : s.pc with
  | dispatch => simp only [stepT, hp]; split <;> simp
  | sawPaused => simp only [stepT, hp]; split <;> simp
  | exec =>
    cases c <;> simp [stepT, hp]
    split <;> simp
  | native k =>
    cases k with
    | none => simp [stepT, hp]
    | some k => cases k <;> simp [stepT, hp]
  | roundP => simp [hp, PC.inRound] at hr
  | roundS => simp [hp, PC.inRound] at hr
  | roundBody => simp [hp, PC.inRound] at hr
  | resP => simp [hp, PC.inRound] at hr
  | resS => simp [hp, PC.inRound] at hr
  | spExit => simp only [stepT, hp]; split <;> simp
  | spState => simp only [stepT, hp]; split <;> simp
  | parked => simp [stepT, hp]
  | errored => simp [stepT, hp]
  | finished => simp [stepT, hp]

theorem stepT_pending {s : State} {c : Choice} : (stepT s c).pending = true → s.pending = true := by
  cases hp : s.pc with
  | dispatch => simp only [stepT, hp]; split <;> simp
  | sawPaused => simp only [stepT, hp]; split <;> simp
  | exec =>
    cases c <;> simp [stepT, hp]
    split <;> simp
  | native k =>
    cases k with
    | none => simp [stepT, hp]
    | some k => cases k <;> simp [stepT, hp]
  | roundP => simp [stepT, hp]
  | roundS => simp [stepT, hp]
  | roundBody => simp [stepT, hp]
  | resP => simp [stepT, hp]
  | resS => simp [stepT, hp]
  | spExit => simp only [stepT, hp]; split <;> simp
  | spState => simp only [stepT, hp]; split <;> simp
  | parked => simp [stepT, hp]
  | errored => simp [stepT, hp]
  | finished => simp [stepT, hp]

theorem step_inv {s s' : State} {a : Act} (h : Inv s) (hg : G s a = true) (hs : step s a = some s') :
    Inv s' := by
  cases a with
  | thread c =>
    simp only [step] at hs; cases hs
    intro hp
    have hps := stepT_pending hp
    have hg' : ¬ (s.pc.inRound = true ∨ (s.pc = .exec ∧ c = .beginRound)) := by
      simp [G, hps] at hg
      intro hx
      rcases hx with hx | ⟨hx1, hx2⟩
      · rw [hg.1] at hx; cases hx
      · rcases hg.2 with hh | hh
        · exact hh hx1
        · exact hh hx2
    have hr : s.pc.inRound = false := by
      cases hh : s.pc.inRound
      · rfl
      · exact absurd (Or.inl hh) hg'
    obtain ⟨k1, k2, k3, _⟩ := stepT_keeps (c := c) hr (fun e => hg' (Or.inr e))
    rw [k1, k2, k3]; exact h hps
  | intP => simp only [step] at hs; cases hs; intro _; simp
  | intS =>
    simp only [step] at hs
    split at hs
    · cases hs; intro hp; exact ⟨(h hp).1, Or.inl rfl⟩
    · cases hs
  | hresP =>
    simp only [step] at hs; cases hs
    intro hp; simp [G] at hg; simp [hg] at hp
  | hresS =>
    simp only [step] at hs; cases hs
    intro hp; simp [G] at hg; simp [hg] at hp
  | rerun =>
    simp only [step] at hs
    split at hs
    · cases hs; exact h
    · cases hs

theorem runG_inv (sched : List Act) : ∀ {s : State}, Inv s → Inv (runG s sched) := by
  induction sched with
  | nil => intro s h; exact h
  | cons a r ih =>
    intro s h
    simp only [runG]
    split
    · rename_i hg
      cases hs : step s a with
      | none => exact h
      | some s' => exact ih (step_inv h hg hs)
    · exact h

/-- **Full statement (does NOT hold — `not_interrupt_not_lost`).**  A request that has been issued and not yet
delivered stays visible to the poll. -/
def InterruptNotLost : Prop :=
  ∀ sched : List Act, (run init sched).pending = true →
    (run init sched).paused = true ∧ ((run init sched).st = .interrupted ∨ (run init sched).hostMid = true)

/-- **The request is not lost**, for every history of instructions, rounds, nested loops, native calls,
requests and resumes in which no `stop_threads()/resume_threads()` pair of the thread's own collection or global
update overlaps a pending request: the flag stays raised and the state stays `Interrupted` (or is about to be
stored) until the evaluation returns. -/
theorem interrupt_not_lost_partial (sched : List Act) :
    (runG init sched).pending = true →
    (runG init sched).paused = true ∧
      ((runG init sched).st = .interrupted ∨ (runG init sched).hostMid = true) :=
  runG_inv sched (s := init) (by intro h; simp [init] at h)

/-- The lost interrupt (K17a): the request lands inside the thread's own round (here: between its
`pause_for_safepoint()` and its `resume()`); `resume()` stores `paused = false, Running` unconditionally. -/
def lostInterrupt : List Act :=
  [.thread .plain, .thread .beginRound, .thread .plain, .thread .plain,   -- poll, instruction, stop_threads
   .intP, .intS,                                                           -- host: interrupt()
   .thread .plain, .thread .plain, .thread .plain]                         -- body, resume_threads

theorem lostInterrupt_lost :
    let s := run init lostInterrupt
    s.pending = true ∧ s.paused = false ∧ s.st = .running ∧ s.pc = .dispatch := by decide

/-- … and the evaluation then runs on for ever: after any number of further ordinary instructions it has
not returned. -/
theorem lostInterrupt_runs_on (n : Nat) :
    (runT (run init lostInterrupt) (List.replicate n .plain)).pc.terminal = false := by
  have e : run init lostInterrupt = { pending := true } := by decide
  rw [e]
  have key : ∀ n (s : State), s.paused = false → (s.pc = .dispatch ∨ s.pc = .exec) →
      (runT s (List.replicate n .plain)).pc.terminal = false := by
    intro n
    induction n with
    | zero => intro s _ hp; rcases hp with hp | hp <;> simp [runT, hp, PC.terminal]
    | succ n ih =>
      intro s h1 hp
      simp only [List.replicate_succ, runT]
      rcases hp with hp | hp
      · exact ih _ (by simp [stepT, hp, h1]) (Or.inr (by simp [stepT, hp, h1]))
      · exact ih _ (by simp [stepT, hp, h1]) (Or.inl (by simp [stepT, hp]))
  exact key n _ rfl (Or.inl rfl)

theorem not_interrupt_not_lost : ¬ InterruptNotLost := by
  intro h
  have := h lostInterrupt lostInterrupt_lost.1
  rw [lostInterrupt_lost.2.1] at this
  exact absurd this.1 (by simp)

/-- The guard rejects that schedule at the host's request (the thread is inside a round). -/
theorem lostInterrupt_guard : runG init lostInterrupt = run init (lostInterrupt.take 4) := by decide

/-- The other overlap: the request is complete BEFORE the round begins (the poll of this instruction was
already passed); `pause_for_safepoint()` overwrites `Interrupted`, `resume()` lowers the flag. -/
def lostInterrupt2 : List Act :=
  [.thread .plain, .intP, .intS, .thread .beginRound,
   .thread .plain, .thread .plain, .thread .plain, .thread .plain, .thread .plain]

theorem lostInterrupt2_lost :
    let s := run init lostInterrupt2
    s.pending = true ∧ s.paused = false ∧ s.st = .running := by decide

/-! ## Native loops -/

/-- A native back-edge without poll (K17b): the request is complete and is never seen. -/
theorem not_interrupt_bounded_native (cs : List Choice) :
    (runT { pc := .native none, paused := true, st := .interrupted, pending := true } cs).pc
      = .native none := by
  induction cs with
  | nil => rfl
  | cons c r ih => simpa [runT, stepT] using ih

/-! ## Resume -/

/-- **After the error and `resume()` the engine is usable**: the flag is lowered, the state is `Running`, a new
`run` starts at the dispatch loop with no nested loops, and its first poll passes. -/
theorem resume_usable (s : State) (he : s.pc = .errored) (c : Choice) :
    let s' := run s [.hresP, .hresS, .rerun]
    s'.paused = false ∧ s'.st = .running ∧ s'.pc = .dispatch ∧ s'.depth = 0 ∧
    (stepT s' c).pc = .exec := by
  simp [run, step, he, stepT]

/-! ## Non-vacuity -/

/-- A request during an ordinary loop is delivered: poll, instruction, request, poll → error. -/
theorem example_delivered :
    (runG init [.thread .plain, .thread .plain, .intP, .intS, .thread .plain, .thread .plain,
                .thread .plain]).pc = .errored := by decide

/-- A request while the thread is 3 steps deep in native code, inside a nested loop: delivered after the native
code returns. -/
theorem example_native_nested :
    (runG init [.thread .plain, .thread .nest, .thread .plain, .thread (.callNative 3), .intP, .intS,
                .thread .plain, .thread .plain, .thread .plain, .thread .plain,
                .thread .plain, .thread .plain]).pc = .errored := by decide

end SteelVerif.C17
