import SteelVerif.C06.Props
import SteelVerif.C06.Rollback
open SteelVerif.C06
#print axioms scan_complete
#print axioms gen_recycler_fixpoint
#print axioms get_add
#print axioms shadowed_add
#print axioms add_fresh
#print axioms recycleLoop_closed
#print axioms recycle_safe
#print axioms recycle_frees_only_shadowed
#print axioms rollback_restores_partial
#print axioms rollback_restores_fl
#print axioms rollback_restores_reachable
#print axioms rollback_fails_after_slot_reuse
#print axioms not_rollbackRestores
#print axioms wf_empty
#print axioms add_wf
#print axioms add_wf_general
#print axioms rollBack_wf
#print axioms rollBack_freeOK
#print axioms reachable_wf
