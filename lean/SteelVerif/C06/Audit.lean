import SteelVerif.C06.Props
open SteelVerif.C06
#print axioms scan_complete
#print axioms get_add
#print axioms shadowed_add
#print axioms add_fresh
#print axioms recycleLoop_closed
#print axioms recycle_safe
#print axioms recycle_frees_only_shadowed
