/-
C06 — lemmas for the history refinement, part 3: one whole piece (build, roll-back or recycler run, run of the
forms) keeps the abstraction relation and produces the same observable result under M and under S.
-/
import SteelVerif.C06.LemmasHistory2
namespace SteelVerif.C06

/-! ## `evalPiece` of M and of S, phase by phase -/

def maybeRecycle (m : State) : State :=
  if m.sym.fl.shadowed.length > m.sym.fl.threshold then recycle m else m

theorem evalPiece_eq (s : State) (forms : List Form) : evalPiece s forms =
    if buildOk s.sym forms = true then
      ({ maybeRecycle { s with sym := addAll s.sym (defNames forms) } with
          globals := (evalPiece.go (maybeRecycle { s with sym := addAll s.sym (defNames forms) }) forms
            (maybeRecycle { s with sym := addAll s.sym (defNames forms) }).globals []).1 },
        if (evalPiece.go (maybeRecycle { s with sym := addAll s.sym (defNames forms) }) forms
            (maybeRecycle { s with sym := addAll s.sym (defNames forms) }).globals []).2.2 = true
        then .ok (evalPiece.go (maybeRecycle { s with sym := addAll s.sym (defNames forms) }) forms
            (maybeRecycle { s with sym := addAll s.sym (defNames forms) }).globals []).2.1 else .err)
    else ({ s with sym := (addAll s.sym (defNames forms)).rollBack s.sym.values.length }, .err) := by
  unfold evalPiece maybeRecycle
  generalize hsym : List.foldl _ s.sym forms = sym1
  have : sym1 = addAll s.sym (defNames forms) := by rw [← hsym]; exact build_eq forms s.sym
  subst this
  by_cases hb : buildOk s.sym forms = true
  · rw [if_pos hb]; unfold buildOk at hb
    simp only [hb, Bool.not_true, Bool.false_eq_true, if_false]
  · rw [if_neg hb]; unfold buildOk at hb
    have hb' := Bool.eq_false_iff.mpr hb
    simp only [hb', Bool.not_false, if_true]

def sBuildOk (env : List (Name × Nat)) (forms : List Form) : Bool :=
  forms.all fun f => f != .fail && f.uses.all fun n => (Spec.lookup env n).isSome

theorem sEvalPiece_eq (s : Spec.State) (forms : List Form) : Spec.evalPiece s forms =
    let s1 := Spec.bindAll s (defNames forms)
    if sBuildOk s1.env forms = true then
      let r := Spec.evalPiece.go s1.env forms [] s1.cells []
      if r.2.2.2 = true then ({ env := s1.env, cells := r.2.1 }, .ok r.2.2.1)
      else ({ env := (s1.env.take (s1.env.length - s.env.length)).filter
                (fun p => (r.1.filterMap Form.defines).contains p.1) ++ s.env, cells := r.2.1 }, .err)
    else (s, .err) := by
  unfold Spec.evalPiece
  rw [compileEnv_eq]
  simp only [bindAll_cells, List.length_append, List.length_replicate, Nat.add_sub_cancel_left]
  by_cases hb : sBuildOk (Spec.bindAll s (defNames forms)).env forms = true
  · rw [if_pos hb]; unfold sBuildOk at hb
    simp only [hb, Bool.not_true, Bool.false_eq_true, if_false]
  · rw [if_neg hb]; unfold sBuildOk at hb
    have hb' := Bool.eq_false_iff.mpr hb
    simp only [hb', Bool.not_false, if_true]


theorem go_nil (m2 : State) (g : List Val) (out : List String) :
    evalPiece.go m2 [] g out = (g, out, true) := by
  rw [evalPiece.go]

theorem go_cons_none (m2 : State) (f : Form) (rest : List Form) (g : List Val) (out : List String)
    (h : runForm m2.sym g f = none) : evalPiece.go m2 (f :: rest) g out = (g, out, false) := by
  rw [evalPiece.go, h]

theorem go_cons_some (m2 : State) (f : Form) (rest : List Form) (g g' : List Val) (out : List String)
    (o : Option String) (h : runForm m2.sym g f = some (g', o)) :
    evalPiece.go m2 (f :: rest) g out = evalPiece.go m2 rest g' (out ++ o.toList) := by
  rw [evalPiece.go, h]
  cases o <;> simp

theorem sgo_nil (env : List (Name × Nat)) (done : List Form) (cells : List Spec.Val) (out : List String) :
    Spec.evalPiece.go env [] done cells out = (done, cells, out, true) := by
  rw [Spec.evalPiece.go]

theorem sgo_cons_none (env : List (Name × Nat)) (f : Form) (rest done : List Form) (cells : List Spec.Val)
    (out : List String) (h : Spec.runForm env cells f = none) :
    Spec.evalPiece.go env (f :: rest) done cells out = (done, cells, out, false) := by
  rw [Spec.evalPiece.go, h]

theorem sgo_cons_some (env : List (Name × Nat)) (f : Form) (rest done : List Form)
    (cells cells' : List Spec.Val) (out : List String) (o : Option String)
    (h : Spec.runForm env cells f = some (cells', o)) :
    Spec.evalPiece.go env (f :: rest) done cells out =
      Spec.evalPiece.go env rest (done ++ [f]) cells' (out ++ o.toList) := by
  rw [Spec.evalPiece.go, h]
  cases o <;> simp

/-! ## The run of the forms -/

/-- The defining forms at the head of a piece: they all run, print nothing, and afterwards the slot of every
name they define lies inside the global vector. -/
theorem go_defs {own : Own} {env : List (Name × Nat)} (m2 : State) (I : List Form) :
    ∀ (D : List Form) (g : List Val) (cells : List Spec.Val) (done : List Form) (out : List String),
    (∀ f ∈ D, ∃ x, f.defines = some x ∧ (m2.sym.get x).isSome ∧ ∀ n ∈ f.uses, (m2.sym.get n).isSome) →
    Rel own ⟨env, cells⟩ ⟨m2.sym, g⟩ →
    ∃ g' cells', evalPiece.go m2 (D ++ I) g out = evalPiece.go m2 I g' out ∧
      Spec.evalPiece.go env (D ++ I) done cells out = Spec.evalPiece.go env I (done ++ D) cells' out ∧
      Rel own ⟨env, cells'⟩ ⟨m2.sym, g'⟩ ∧ g.length ≤ g'.length ∧
      (∀ f ∈ D, ∀ x, f.defines = some x → ∃ i, m2.sym.get x = some i ∧ i < g'.length) := by
  intro D
  induction D with
  | nil =>
    intro g cells done out _ h
    exact ⟨g, cells, rfl, by simp, h, Nat.le_refl _, fun f hf => by cases hf⟩
  | cons f D ih =>
    intro g cells done out hD h
    obtain ⟨x, hd, hx, hu⟩ := hD f (by simp)
    obtain ⟨g1, cells1, hr, hrs, h1, hl1, i, hgi, hil⟩ := runForm_def_rel h f x hd hx hu
    obtain ⟨g', cells', e1, e2, h2, hl2, hall⟩ :=
      ih g1 cells1 (done ++ [f]) out (fun f' hf' => hD f' (by simp [hf'])) h1
    refine ⟨g', cells', ?_, ?_, h2, Nat.le_trans hl1 hl2, ?_⟩
    · rw [List.cons_append, go_cons_some m2 f _ g g1 out none hr]
      simpa using e1
    · rw [List.cons_append, sgo_cons_some env f _ done cells cells1 out none hrs]
      simpa using e2
    · intro f' hf' y hy
      rcases List.mem_cons.mp hf' with e | hf'
      · subst e
        rw [hd] at hy; cases hy
        exact ⟨i, hgi, Nat.lt_of_lt_of_le hil hl2⟩
      · exact hall f' hf' y hy

/-- The forms after the definitions: run with every slot in use assigned. -/
theorem go_uses {own : Own} {env : List (Name × Nat)} (m2 : State) :
    ∀ (I : List Form) (g : List Val) (cells : List Spec.Val) (done : List Form) (out : List String),
    (∀ f ∈ I, f.defines = none) → Rel own ⟨env, cells⟩ ⟨m2.sym, g⟩ → Assigned m2.sym g →
    ∃ g' cells' done' out' ok, evalPiece.go m2 I g out = (g', out', ok) ∧
      Spec.evalPiece.go env I done cells out = (done', cells', out', ok) ∧
      Rel own ⟨env, cells'⟩ ⟨m2.sym, g'⟩ ∧ Assigned m2.sym g' ∧
      done'.filterMap Form.defines = done.filterMap Form.defines := by
  intro I
  induction I with
  | nil =>
    intro g cells done out _ h hA
    exact ⟨g, cells, done, out, true, go_nil .., sgo_nil .., h, hA, rfl⟩
  | cons f I ih =>
    intro g cells done out hI h hA
    have hd := hI f (by simp)
    rcases runForm_use_rel h hA f hd with ⟨h1, h2⟩ | ⟨g1, cells1, o, h1, h2, h3, h4⟩
    · exact ⟨g, cells, done, out, false, go_cons_none m2 f I g out h1, sgo_cons_none env f I done cells out h2,
        h, hA, rfl⟩
    · have hA1 : Assigned m2.sym g1 := by unfold Assigned at hA ⊢; rw [h4]; exact hA
      obtain ⟨g', cells', done', out', ok, e1, e2, h5, h6, h7⟩ :=
        ih g1 cells1 (done ++ [f]) (out ++ o.toList) (fun f' hf' => hI f' (by simp [hf'])) h3 hA1
      refine ⟨g', cells', done', out', ok, ?_, ?_, h5, h6, ?_⟩
      · rw [go_cons_some m2 f I g g1 out o h1]; exact e1
      · rw [sgo_cons_some env f I done cells cells1 out o h2]; exact e2
      · rw [h7, List.filterMap_append]; simp [hd]

/-! ## The shape of a piece inside the guards -/

theorem noneAfter_cons (p q : Form → Bool) (f : Form) (rest : List Form) :
    noneAfter p q (f :: rest) = ((!p f || rest.all (fun g => !q g)) && noneAfter p q rest) := rfl

theorem isDef_iff (f : Form) : f.isDef = true ↔ ∃ x, f.defines = some x := by
  unfold Form.isDef
  cases f.defines <;> simp

/-- Inside `guardB` and `guardU`, a piece that builds is its definitions followed by forms that define nothing. -/
theorem split_defs : ∀ (forms : List Form), guardB forms = true → guardU forms = true →
    (∀ f ∈ forms, f ≠ .fail) →
    ∃ D I, forms = D ++ I ∧ (∀ f ∈ D, f.isDef = true) ∧ (∀ f ∈ I, f.defines = none) := by
  intro forms
  induction forms with
  | nil => intro _ _ _; exact ⟨[], [], rfl, (fun f hf => by cases hf), (fun f hf => by cases hf)⟩
  | cons f rest ih =>
    intro hB hU hF
    unfold guardB at hB; unfold guardU at hU
    rw [noneAfter_cons] at hB hU
    simp only [Bool.and_eq_true, Bool.or_eq_true, Bool.not_eq_true'] at hB hU
    by_cases hd : f.isDef = true
    · obtain ⟨D, I, e, h1, h2⟩ := ih hB.2 hU.2 (fun f' hf' => hF f' (by simp [hf']))
      refine ⟨f :: D, I, by rw [e]; rfl, ?_, h2⟩
      intro f' hf'
      rcases List.mem_cons.mp hf' with e' | hf'
      · rw [e']; exact hd
      · exact h1 f' hf'
    · have hrest : rest.all (fun g => !Form.isDef g) = true := by
        have hne := hF f (by simp)
        cases f with
        | defc _ _ => exact absurd rfl hd
        | defn _ _ => exact absurd rfl hd
        | defs _ _ => exact absurd rfl hd
        | deff _ _ => exact absurd rfl hd
        | fail => exact absurd rfl hne
        | rfail => exact hB.1.resolve_left (by simp)
        | set _ _ => exact hU.1.resolve_left (by simp [Form.isUse])
        | setn _ _ => exact hU.1.resolve_left (by simp [Form.isUse])
        | call _ => exact hU.1.resolve_left (by simp [Form.isUse])
        | calls _ _ => exact hU.1.resolve_left (by simp [Form.isUse])
        | read _ => exact hU.1.resolve_left (by simp [Form.isUse])
      refine ⟨[], f :: rest, rfl, (fun f' hf' => by cases hf'), ?_⟩
      intro f' hf'
      have hnd : ∀ f'' : Form, f''.isDef ≠ true → f''.defines = none := by
        intro f'' h''
        unfold Form.isDef at h''
        cases hx : f''.defines with
        | none => rfl
        | some x => rw [hx] at h''; exact absurd rfl h''
      rcases List.mem_cons.mp hf' with e' | hf'
      · rw [e']; exact hnd f hd
      · apply hnd
        have := List.all_eq_true.mp hrest f' hf'
        simpa using this

end SteelVerif.C06
