/-
C06 — lemmas for the history refinement, part 5: evaluating M on concrete histories inside the kernel.
`recycleLoop` is defined by well-founded recursion (every round removes a candidate), which `decide` cannot
unfold; `recycleLoopF` runs the same rounds on explicit fuel `cands.length` and is proved equal.  `runMF`,
`histOKF`, `stateMF` are `runM`, `histOK`, `stateM` computed that way: the concrete witnesses and non-vacuity
examples of `Props.lean` are `decide`d through them.
-/
import SteelVerif.C06.LemmasHistory4
namespace SteelVerif.C06

def recycleLoopF (g : List Val) : Nat → List Nat → List Nat → List Nat
  | 0, cands, _ => cands
  | fuel + 1, cands, frontier =>
    if liveOf g cands frontier = [] then cands
    else recycleLoopF g fuel (dropLive g cands frontier) (liveOf g cands frontier)

theorem recycleLoop_eq_F (g : List Val) : ∀ (fuel : Nat) (cands frontier : List Nat),
    cands.length ≤ fuel → recycleLoop g cands frontier = recycleLoopF g fuel cands frontier := by
  intro fuel
  induction fuel with
  | zero =>
    intro cands frontier h
    have : cands = [] := List.eq_nil_of_length_eq_zero (Nat.le_zero.mp h)
    subst this
    rw [recycleLoop, dif_pos (by simp [liveOf])]
    rfl
  | succ fuel ih =>
    intro cands frontier h
    rw [recycleLoop]
    by_cases hl : liveOf g cands frontier = []
    · rw [dif_pos hl]; simp [recycleLoopF, hl]
    · rw [dif_neg hl]
      have := liveOf_decreases g cands frontier hl
      rw [ih _ _ (by omega)]
      simp [recycleLoopF, hl]

def recycleF (s : State) : State :=
  let cands := s.sym.fl.shadowed.eraseDups
  let roots := (List.range s.globals.length).filter (fun i => !cands.contains i)
  let dead := (recycleLoopF s.globals cands.length cands roots).filter (· < s.globals.length)
  let globals := dead.foldl (fun g i => g.set i .void) s.globals
  { sym := { s.sym with fl := ({ s.sym.fl with shadowed := [], free := s.sym.fl.free ++ dead }).incrementGeneration },
    globals := globals }

theorem recycleF_eq (s : State) : recycleF s = recycle s := by
  unfold recycleF recycle
  simp only [recycleLoop_eq_F s.globals _ _ _ (Nat.le_refl _)]

def evalPieceF (s : State) (forms : List Form) : State × Res :=
  if buildOk s.sym forms = true then
    let s1 : State := { s with sym := addAll s.sym (defNames forms) }
    let s2 := if s1.sym.fl.shadowed.length > s1.sym.fl.threshold then recycleF s1 else s1
    let r := evalPiece.go s2 forms s2.globals []
    ({ s2 with globals := r.1 }, if r.2.2 = true then .ok r.2.1 else .err)
  else ({ s with sym := (addAll s.sym (defNames forms)).rollBack s.sym.values.length }, .err)

theorem evalPieceF_eq (s : State) (forms : List Form) : evalPieceF s forms = evalPiece s forms := by
  rw [evalPiece_eq]
  unfold evalPieceF maybeRecycle
  simp only [recycleF_eq]

def runMF (m : State) : History → List Res
  | [] => []
  | p :: rest => (evalPieceF m p).2 :: runMF (evalPieceF m p).1 rest

def stateMF (m : State) : History → State
  | [] => m
  | p :: rest => stateMF (evalPieceF m p).1 rest

def histOKF (m : State) : History → Bool
  | [] => true
  | p :: rest => pieceOK m p && histOKF (evalPieceF m p).1 rest

theorem runMF_eq : ∀ (h : History) (m : State), runMF m h = runM m h := by
  intro h
  induction h with
  | nil => intro m; rfl
  | cons p rest ih => intro m; simp only [runMF, runM, evalPieceF_eq, ih]

theorem stateMF_eq : ∀ (h : History) (m : State), stateMF m h = stateM m h := by
  intro h
  induction h with
  | nil => intro m; rfl
  | cons p rest ih => intro m; simp only [stateMF, stateM, evalPieceF_eq, ih]

theorem histOKF_eq : ∀ (h : History) (m : State), histOKF m h = histOK m h := by
  intro h
  induction h with
  | nil => intro m; rfl
  | cons p rest ih => intro m; simp only [histOKF, histOK, evalPieceF_eq, ih]

theorem runM_append : ∀ (h1 h2 : History) (m : State),
    runM m (h1 ++ h2) = runM m h1 ++ runM (stateM m h1) h2 := by
  intro h1
  induction h1 with
  | nil => intro h2 m; rfl
  | cons p rest ih => intro h2 m; simp only [List.cons_append, runM, stateM, ih]

theorem runS_append : ∀ (h1 h2 : History) (s : Spec.State),
    runS s (h1 ++ h2) = runS s h1 ++ runS (stateS s h1) h2 := by
  intro h1
  induction h1 with
  | nil => intro h2 s; rfl
  | cons p rest ih => intro h2 s; simp only [List.cons_append, runS, stateS, ih]

theorem histOK_append : ∀ (h1 h2 : History) (m : State),
    histOK m (h1 ++ h2) = (histOK m h1 && histOK (stateM m h1) h2) := by
  intro h1
  induction h1 with
  | nil => intro h2 m; simp [histOK, stateM]
  | cons p rest ih => intro h2 m; simp only [List.cons_append, histOK, stateM, ih, Bool.and_assoc]

end SteelVerif.C06
