/-
C06 — lemmas for the history refinement, part 1: the abstraction relation `Rel` is kept by the build phase
(`SymbolMap::add` against "a new cell"), by a roll-back of a failed build (under the guard of K06c) and by a
run of the slot recycler.
-/
import SteelVerif.C06.History
namespace SteelVerif.C06

/-! ## References and values read through `own` -/

/-- The slot a mention refers to, if any. -/
def FRef.slot : FRef → Option Nat
  | .g _ i => some i
  | .k _ => none

theorem slots_fn (refs : List FRef) : (Val.fn refs).slots = refs.filterMap FRef.slot := by
  simp only [Val.slots]
  congr 1

theorem absRef_g {own : Own} {b : Bool} {i : Nat} {r' : FRef} :
    absRef own (.g b i) = some r' ↔ ∃ c, own i = some c ∧ r' = .g b c := by
  simp only [absRef]
  cases h : own i with
  | none => simp
  | some c =>
    simp only [Option.map_some, Option.some.injEq]
    constructor
    · intro e; exact ⟨c, rfl, e.symm⟩
    · rintro ⟨c', e1, e2⟩; cases e1; exact e2.symm

theorem map_some_cons {α β} {f : α → Option β} {r : α} {rs : List α} {l : List β}
    (h : (r :: rs).map f = l.map some) :
    ∃ r' rs', l = r' :: rs' ∧ f r = some r' ∧ rs.map f = rs'.map some := by
  cases l with
  | nil => simp at h
  | cons r' rs' =>
    simp only [List.map_cons, List.cons.injEq] at h
    exact ⟨r', rs', rfl, h.1, h.2⟩

/-- Two ways of reading the same mentions agree when they agree on every slot mentioned. -/
theorem absRefs_congr {own own' : Own} : ∀ (refs : List FRef),
    (∀ i ∈ refs.filterMap FRef.slot, own' i = own i) → refs.map (absRef own') = refs.map (absRef own) := by
  intro refs h
  apply List.map_congr_left
  intro r hr
  cases r with
  | k n => rfl
  | g b i =>
    simp only [absRef]
    rw [h i (List.mem_filterMap.mpr ⟨.g b i, hr, rfl⟩)]

theorem absRefs_owned {own : Own} : ∀ (refs refs' : List FRef),
    refs.map (absRef own) = refs'.map some → ∀ i ∈ refs.filterMap FRef.slot, ∃ c, own i = some c := by
  intro refs
  induction refs with
  | nil => intro _ _ r hr; cases hr
  | cons a rs ih =>
    intro refs' h i hi
    obtain ⟨r', rs', _, h1, h2⟩ := map_some_cons h
    cases a with
    | k n =>
      have : i ∈ rs.filterMap FRef.slot := by simpa [List.filterMap_cons, FRef.slot] using hi
      exact ih rs' h2 i this
    | g b j =>
      have : i = j ∨ i ∈ rs.filterMap FRef.slot := by simpa [List.filterMap_cons, FRef.slot] using hi
      rcases this with e | hi
      · subst e
        obtain ⟨c, hc, _⟩ := absRef_g.mp h1
        exact ⟨c, hc⟩
      · exact ih rs' h2 i hi

/-- Every slot a related value mentions is in use. -/
theorem ValRel.owned {own : Own} {v : Val} {v' : Spec.Val} (h : ValRel own v v') :
    ∀ r ∈ v.slots, ∃ c, own r = some c := by
  intro r hr
  cases v <;> cases v' <;> simp only [ValRel] at h
  case fn.fn refs refs' =>
    rw [slots_fn] at hr
    exact absRefs_owned _ _ h r hr
  case setter.setter i c =>
    have : r = i := by simpa [Val.slots] using hr
    subst this
    exact ⟨_, h⟩
  all_goals simp [Val.slots] at hr

/-- A value stays related when `own` changes only outside the slots it mentions. -/
theorem ValRel.congr {own own' : Own} {v : Val} {v' : Spec.Val} (h : ValRel own v v')
    (hs : ∀ r ∈ v.slots, own' r = own r) : ValRel own' v v' := by
  cases v <;> cases v' <;> simp only [ValRel] at h ⊢ <;> try exact h
  · rw [← h]
    apply absRefs_congr
    intro i hi
    exact hs i (by rw [slots_fn]; exact hi)
  · rw [hs _ (by simp [Val.slots])]; exact h

theorem ValRel.mono {own own' : Own} {v : Val} {v' : Spec.Val} (h : ValRel own v v')
    (hm : ∀ i c, own i = some c → own' i = some c) : ValRel own' v v' := by
  apply h.congr
  intro r hr
  obtain ⟨c, hc⟩ := h.owned r hr
  rw [hc, hm r c hc]

/-! ## The build phase -/

theorem defNames_cons_none {f : Form} (rest : List Form) (h : f.defines = none) :
    defNames (f :: rest) = defNames rest := by
  simp [defNames, List.filterMap_cons, h]

theorem defNames_cons_some {f : Form} {x : Name} (rest : List Form) (h : f.defines = some x) :
    defNames (f :: rest) = x :: defNames rest := by
  simp [defNames, List.filterMap_cons, h]

theorem build_eq (forms : List Form) : ∀ m : SymMap,
    forms.foldl (fun m f => match f.defines with | some x => (m.add x).1 | none => m) m
      = addAll m (defNames forms) := by
  induction forms with
  | nil => intro m; rfl
  | cons f rest ih =>
    intro m
    rw [List.foldl_cons, ih]
    cases h : f.defines with
    | none => rw [defNames_cons_none rest h]
    | some x => rw [defNames_cons_some rest h]; rfl

theorem bindAll_cells (ns : List Name) : ∀ s : Spec.State,
    (Spec.bindAll s ns).cells = s.cells ++ List.replicate ns.length .void := by
  induction ns with
  | nil => intro s; simp [Spec.bindAll]
  | cons x ns ih =>
    intro s
    have := ih (Spec.bind1 s x)
    simp only [Spec.bindAll, List.foldl_cons] at this ⊢
    rw [this]
    simp [Spec.bind1, List.replicate_succ]

theorem compileEnv_eq (forms : List Form) : ∀ s : Spec.State,
    Spec.compileEnv s forms =
      ((Spec.bindAll s (defNames forms)).env, (Spec.bindAll s (defNames forms)).cells.length) := by
  unfold Spec.compileEnv
  induction forms with
  | nil => intro s; rfl
  | cons f rest ih =>
    intro s
    rw [List.foldl_cons]
    cases h : f.defines with
    | none => rw [defNames_cons_none rest h]; exact ih s
    | some x =>
      rw [defNames_cons_some rest h]
      have := ih (Spec.bind1 s x)
      simp only [Spec.bindAll, List.foldl_cons]
      simp only [Spec.bind1, List.length_append, List.length_singleton] at this ⊢
      exact this

/-- What `add` does, by cases on the free list. -/
theorem add_cases (m : SymMap) (n : Name) :
    (m.fl.free = [] ∧ (m.add n).2 = m.values.length ∧ (m.add n).1.values = m.values ++ [n] ∧
      (m.add n).1.fl.free = []) ∨
    (∃ F f, m.fl.free = F ++ [f] ∧ (m.add n).2 = f ∧
      (m.add n).1.values = (if f = m.values.length then m.values ++ [n] else m.values.set f n) ∧
      (m.add n).1.fl.free = F) := by
  cases hfree : m.fl.free.getLast? with
  | none =>
    have hf : m.fl.free = [] := List.getLast?_eq_none_iff.mp hfree
    left
    exact ⟨hf, (add_fresh m n hf).1, (add_fresh m n hf).2.1, (add_fresh m n hf).2.2⟩
  | some f =>
    obtain ⟨F, hF⟩ := List.getLast?_eq_some_iff.mp hfree
    right
    refine ⟨F, f, hF, ?_, ?_, ?_⟩
    · simp [SymMap.add, hfree]
    · simp [SymMap.add, hfree]
    · simp [SymMap.add, hF]

def ownSet (own : Own) (i c : Nat) : Own := fun j => if j = i then some c else own j

/-- Where the slot taken by `add` stands with respect to the relation. -/
theorem add_facts {own : Own} {s : Spec.State} {m : State} (h : Rel own s m) (x : Name) :
    own (m.sym.add x).2 = none ∧
    (m.sym.add x).2 < (m.sym.add x).1.values.length ∧
    m.sym.values.length ≤ (m.sym.add x).1.values.length ∧
    (∀ n, m.sym.get n ≠ some (m.sym.add x).2) ∧
    (∀ f ∈ (m.sym.add x).1.fl.free, f ∈ m.sym.fl.free ∧ f ≠ (m.sym.add x).2) ∧
    (m.globals[(m.sym.add x).2]? = some .void ∨ m.globals.length ≤ (m.sym.add x).2) := by
  rcases add_cases m.sym x with ⟨hf, hidx, hvals, hfree⟩ | ⟨F, f, hF, hidx, hvals, hfree⟩
  · rw [hidx, hvals, hfree]
    refine ⟨?_, by simp, by simp, ?_, ?_, Or.inr h.gle⟩
    · cases ho : own m.sym.values.length with
      | none => rfl
      | some c => exact absurd (h.dom _ c ho).1 (Nat.lt_irrefl _)
    · intro n hn
      exact absurd (h.wf.slot_lt (n := n) hn) (Nat.lt_irrefl _)
    · intro f hf'; cases hf'
  · have hfmem : f ∈ m.sym.fl.free := by rw [hF]; simp
    have hflt : f < m.sym.values.length := h.fo.free_lt f hfmem
    have hne : f ≠ m.sym.values.length := Nat.ne_of_lt hflt
    rw [hidx, hvals, hfree, if_neg hne]
    refine ⟨?_, by simpa using hflt, by simp, ?_, ?_, Or.inl (h.freeVoid f hfmem)⟩
    · cases ho : own f with
      | none => rfl
      | some c => exact absurd hfmem (h.notfree f c ho)
    · intro n hn
      exact h.fo.free_not_mapped f hfmem n hn
    · intro g hg
      refine ⟨by rw [hF]; simp [hg], ?_⟩
      intro e; subst e
      have hnd : (F ++ [g]).Nodup := hF ▸ h.fo.free_nodup
      exact (List.nodup_append.mp hnd).2.2 g hg g (by simp) rfl

theorem lookup_cons (env : List (Name × Nat)) (x n : Name) (c : Nat) :
    Spec.lookup ((x, c) :: env) n = if n = x then some c else Spec.lookup env n := by
  unfold Spec.lookup
  by_cases e : n = x
  · subst e; simp
  · have : (x == n) = false := by simp; exact fun e' => e e'.symm
    simp [List.find?_cons, this, e]

/-- **One definition in the build phase**: `SymbolMap::add` takes a fresh or a reclaimed slot, the
specification a new cell; the slot now carries that cell. -/
theorem add_rel {own : Own} {s : Spec.State} {m : State} (h : Rel own s m) (x : Name) :
    Rel (ownSet own (m.sym.add x).2 s.cells.length) (Spec.bind1 s x)
      { m with sym := (m.sym.add x).1 } := by
  obtain ⟨hwf', hfo'⟩ := add_wf_general m.sym x h.wf h.fo
  obtain ⟨hnone, hlt, hle, hnm, hfr, hgv⟩ := add_facts h x
  have hget := get_add m.sym x
  generalize (m.sym.add x).2 = idx at *
  generalize (m.sym.add x).1 = m1 at *
  have hext : ∀ i c, own i = some c → ownSet own idx s.cells.length i = some c := by
    intro i c hi
    unfold ownSet
    have : i ≠ idx := by intro e; subst e; rw [hnone] at hi; cases hi
    rw [if_neg this]; exact hi
  refine ⟨hwf', hfo', Nat.le_trans h.gle hle, ?_, ?_, ?_, ?_, ?_, ?_, ?_⟩
  · intro n
    show Spec.lookup ((x, s.cells.length) :: s.env) n = _
    rw [lookup_cons, hget]
    by_cases e : n = x
    · simp [e, ownSet]
    · rw [if_neg e, if_neg e, h.names n]
      cases hg : m.sym.get n with
      | none => rfl
      | some i =>
        have : i ≠ idx := fun e' => hnm n (e' ▸ hg)
        simp [ownSet, this]
  · intro n i hn
    rw [hget] at hn
    by_cases e : n = x
    · rw [if_pos e] at hn; cases hn
      exact ⟨s.cells.length, by simp [ownSet]⟩
    · rw [if_neg e] at hn
      obtain ⟨c, hc⟩ := h.mapped n i hn
      exact ⟨c, hext i c hc⟩
  · intro i j c hi hj
    unfold ownSet at hi hj
    by_cases ei : i = idx <;> by_cases ej : j = idx
    · rw [ei, ej]
    · rw [if_pos ei] at hi; rw [if_neg ej] at hj; cases hi
      exact absurd (h.dom j _ hj).2 (Nat.lt_irrefl _)
    · rw [if_neg ei] at hi; rw [if_pos ej] at hj; cases hj
      exact absurd (h.dom i _ hi).2 (Nat.lt_irrefl _)
    · rw [if_neg ei] at hi; rw [if_neg ej] at hj
      exact h.inj i j c hi hj
  · intro i c hi
    show i < m1.values.length ∧ c < (s.cells ++ [Spec.Val.void]).length
    unfold ownSet at hi
    by_cases ei : i = idx
    · rw [if_pos ei] at hi; cases hi
      exact ⟨ei ▸ hlt, by simp⟩
    · rw [if_neg ei] at hi
      obtain ⟨h1, h2⟩ := h.dom i c hi
      exact ⟨Nat.lt_of_lt_of_le h1 hle, by simp; omega⟩
  · intro i c hi hmem
    obtain ⟨hm, hne⟩ := hfr i hmem
    unfold ownSet at hi
    rw [if_neg hne] at hi
    exact h.notfree i c hi hm
  · intro i c hi
    show (∃ v v', m.globals[i]? = some v ∧ (s.cells ++ [Spec.Val.void])[c]? = some v' ∧ _) ∨
      (m.globals.length ≤ i ∧ (s.cells ++ [Spec.Val.void])[c]? = some .void)
    unfold ownSet at hi
    by_cases ei : i = idx
    · rw [if_pos ei] at hi; cases hi
      have hc : (s.cells ++ [Spec.Val.void])[s.cells.length]? = some .void := by simp
      rcases hgv with hg | hg
      · left; exact ⟨.void, .void, ei ▸ hg, hc, trivial⟩
      · right; exact ⟨ei ▸ hg, hc⟩
    · rw [if_neg ei] at hi
      have hcl : c < s.cells.length := (h.dom i c hi).2
      have hc : (s.cells ++ [Spec.Val.void])[c]? = s.cells[c]? := List.getElem?_append_left hcl
      rcases h.vals i c hi with ⟨v, v', h1, h2, h3⟩ | ⟨h1, h2⟩
      · left; exact ⟨v, v', h1, by rw [hc]; exact h2, h3.mono hext⟩
      · right; exact ⟨h1, by rw [hc]; exact h2⟩
  · intro f hf
    exact h.freeVoid f (hfr f hf).1

/-- **The build phase**: all the definitions of a piece. -/
theorem addAll_rel : ∀ (ns : List Name) {own : Own} {s : Spec.State} {m : State}, Rel own s m →
    ∃ own', Rel own' (Spec.bindAll s ns) { m with sym := addAll m.sym ns } ∧
      (∀ i c, own i = some c → own' i = some c) := by
  intro ns
  induction ns with
  | nil => intro own s m h; exact ⟨own, h, fun _ _ hc => hc⟩
  | cons x ns ih =>
    intro own s m h
    have h1 := add_rel h x
    obtain ⟨hnone, _⟩ := add_facts h x
    obtain ⟨own', h2, hext⟩ := ih h1
    refine ⟨own', h2, ?_⟩
    intro i c hi
    apply hext
    unfold ownSet
    have : i ≠ (m.sym.add x).2 := by intro e; subst e; rw [hnone] at hi; cases hi
    rw [if_neg this]; exact hi

/-- The top slot of the symbol map, once the build has taken a brand-new slot, belongs to a name of the piece. -/
def TopNamed (L : Nat) (N : List Name) (m : SymMap) : Prop :=
  m.values.length = L ∨ (m.fl.free = [] ∧ ∃ n ∈ N, m.get n = some (m.values.length - 1))

theorem addAll_top (L : Nat) (N : List Name) : ∀ (ns : List Name), (∀ x ∈ ns, x ∈ N) → ∀ m : SymMap,
    m.WF → m.FreeOK → TopNamed L N m → TopNamed L N (addAll m ns) := by
  intro ns
  induction ns with
  | nil => intro _ m _ _ h; exact h
  | cons x ns ih =>
    intro hN m hw hfo h
    obtain ⟨hw', hfo'⟩ := add_wf_general m x hw hfo
    apply ih (fun y hy => hN y (by simp [hy])) _ hw' hfo'
    have hget := get_add m x x
    rw [if_pos rfl] at hget
    rcases add_cases m x with ⟨hf, hidx, hvals, hfree⟩ | ⟨F, f, hF, hidx, hvals, hfree⟩
    · right
      refine ⟨hfree, x, hN x (by simp), ?_⟩
      rw [hget, hidx, hvals]; simp
    · have hfmem : f ∈ m.fl.free := by rw [hF]; simp
      have hne : f ≠ m.values.length := Nat.ne_of_lt (hfo.free_lt f hfmem)
      rcases h with h | ⟨h, _⟩
      · left; rw [hvals, if_neg hne, List.length_set]; exact h
      · rw [h] at hF; simp at hF

/-! ## A failed build (guard of K06c) -/

theorem rollBack_self (m : SymMap) (hw : m.WF) : m.rollBack m.values.length = m := by
  have hshf : m.fl.shadowed.filter (· < m.values.length) = m.fl.shadowed :=
    List.filter_eq_self.mpr (fun a ha => by simpa using hw.shadowed_lt ha)
  unfold SymMap.rollBack
  simp only [List.drop_length, List.reverse_nil, List.foldl_nil, List.take_length, hshf]

/-- Under the guard of K06c a failed build leaves the symbol map as it was (up to the representation of
the name map). -/
theorem rollback_guarded (m : SymMap) (ns : List Name) (hw : m.WF) (hg : m.fl.free = [] ∨ ns = []) :
    ((addAll m ns).rollBack m.values.length).values = m.values ∧
    (∀ n, ((addAll m ns).rollBack m.values.length).get n = m.get n) ∧
    ((addAll m ns).rollBack m.values.length).fl = m.fl := by
  rcases hg with hf | hn
  · have h := rollback_restores_fl m ns hw hf
    exact ⟨h.1.1, h.1.2.1, h.2⟩
  · subst hn
    show (m.rollBack m.values.length).values = _ ∧ (∀ n, (m.rollBack m.values.length).get n = _) ∧
      (m.rollBack m.values.length).fl = _
    rw [rollBack_self m hw]
    exact ⟨rfl, fun _ => rfl, rfl⟩

/-- The relation only looks at the symbol map through `values`, `get` and the free-list record. -/
theorem Rel.congr_sym {own : Own} {s : Spec.State} {m : State} (h : Rel own s m) (sym' : SymMap)
    (hv : sym'.values = m.sym.values) (hg : ∀ n, sym'.get n = m.sym.get n) (hfl : sym'.fl = m.sym.fl) :
    Rel own s { m with sym := sym' } := by
  have hlk : ∀ n, lk sym'.map n = lk m.sym.map n := hg
  refine ⟨?_, ?_, ?_, ?_, ?_, h.inj, ?_, ?_, h.vals, ?_⟩
  · show Inv sym'.values sym'.map sym'.fl.shadowed
    rw [hv, hfl]
    refine ⟨?_, ?_, h.wf.shadowed_nodup⟩
    · intro n i hn; rw [hlk] at hn; exact h.wf.slot_name n i hn
    · intro s' hs
      obtain ⟨n, j, h1, h2, h3⟩ := h.wf.shadowed_bound s' hs
      exact ⟨n, j, h1, by rw [hlk]; exact h2, h3⟩
  · refine ⟨?_, ?_, ?_, ?_⟩
    · intro f hf; rw [hv]; exact h.fo.free_lt f (hfl ▸ hf)
    · intro f hf; rw [hfl]; exact h.fo.free_not_shadowed f (hfl ▸ hf)
    · intro f hf n; rw [hg]; exact h.fo.free_not_mapped f (hfl ▸ hf) n
    · rw [hfl]; exact h.fo.free_nodup
  · show m.globals.length ≤ sym'.values.length
    rw [hv]; exact h.gle
  · intro n; show _ = (sym'.get n).bind own; rw [hg]; exact h.names n
  · intro n i hn; exact h.mapped n i ((hg n) ▸ hn)
  · intro i c hi; show i < sym'.values.length ∧ _; rw [hv]; exact h.dom i c hi
  · intro i c hi; show i ∉ sym'.fl.free; rw [hfl]; exact h.notfree i c hi
  · intro f hf; exact h.freeVoid f (hfl ▸ hf)

/-! ## A run of the slot recycler -/

theorem recycleLoop_sublist (g : List Val) : ∀ (cands frontier : List Nat),
    (recycleLoop g cands frontier).Sublist cands := by
  intro cands frontier
  induction cands, frontier using recycleLoop.induct (globals := g) with
  | case1 cands frontier hlive => rw [recycleLoop, dif_pos hlive]; exact List.Sublist.refl _
  | case2 cands frontier hlive ih =>
    rw [recycleLoop, dif_neg hlive]
    exact ih.trans List.filter_sublist

theorem eraseDups_of_nodup : ∀ (l : List Nat), l.Nodup → l.eraseDups = l := by
  intro l
  induction l with
  | nil => intro _; simp
  | cons a as ih =>
    intro h
    obtain ⟨ha, has⟩ := List.nodup_cons.mp h
    have hf : as.filter (fun b => !b == a) = as := by
      apply List.filter_eq_self.mpr
      intro b hb
      have : b ≠ a := fun e => ha (e ▸ hb)
      simp [this]
    rw [List.eraseDups_cons, hf, ih has]

/-- The slots a recycler run reclaims. -/
def deadOf (m : State) : List Nat :=
  (recycleLoop m.globals m.sym.fl.shadowed.eraseDups
    ((List.range m.globals.length).filter (fun i => !m.sym.fl.shadowed.eraseDups.contains i))).filter
      (· < m.globals.length)

theorem incGen_free (f : FreeList) : f.incrementGeneration.free = f.free := by
  unfold FreeList.incrementGeneration; split <;> rfl

theorem incGen_shadowed (f : FreeList) : f.incrementGeneration.shadowed = f.shadowed := by
  unfold FreeList.incrementGeneration; split <;> rfl

theorem recycle_sym (m : State) : (recycle m).sym.values = m.sym.values ∧ (recycle m).sym.map = m.sym.map ∧
    (recycle m).sym.fl.shadowed = [] ∧ (recycle m).sym.fl.free = m.sym.fl.free ++ deadOf m := by
  refine ⟨rfl, rfl, ?_, ?_⟩
  · show (FreeList.incrementGeneration _).shadowed = _; rw [incGen_shadowed]
  · show (FreeList.incrementGeneration _).free = _; rw [incGen_free]; rfl

theorem recycle_globals (m : State) :
    (recycle m).globals = (deadOf m).foldl (fun g i => g.set i .void) m.globals := rfl

theorem foldl_set_void : ∀ (dead : List Nat) (g : List Val),
    (dead.foldl (fun g i => g.set i Val.void) g).length = g.length ∧
    ∀ j, (dead.foldl (fun g i => g.set i Val.void) g)[j]? =
      if j ∈ dead ∧ j < g.length then some .void else g[j]? := by
  intro dead
  induction dead with
  | nil => intro g; simp
  | cons d ds ih =>
    intro g
    obtain ⟨h1, h2⟩ := ih (g.set d .void)
    rw [List.foldl_cons]
    refine ⟨by rw [h1, List.length_set], ?_⟩
    intro j
    rw [h2, List.length_set, List.getElem?_set]
    by_cases hj : j < g.length <;> by_cases hd : j = d <;> by_cases hds : j ∈ ds <;>
      simp [hj, hd, hds, Ne.symm] <;> (try subst hd) <;> (try simp [hj]) <;> (try omega)
    all_goals (intro e; exact absurd e.symm hd)

theorem deadOf_facts {own : Own} {s : Spec.State} {m : State} (h : Rel own s m) :
    (∀ d ∈ deadOf m, d ∈ m.sym.fl.shadowed ∧ d < m.globals.length) ∧ (deadOf m).Nodup ∧
    (∀ i, i < m.globals.length → i ∉ deadOf m → ∀ r ∈ slotsOf m.globals i, r ∉ deadOf m) := by
  refine ⟨?_, ?_, ?_⟩
  · intro d hd
    obtain ⟨h1, h2⟩ := List.mem_filter.mp hd
    exact ⟨recycle_frees_only_shadowed m d h1, by simpa using h2⟩
  · apply List.Nodup.sublist (List.filter_sublist)
    apply List.Nodup.sublist (recycleLoop_sublist _ _ _)
    rw [eraseDups_of_nodup _ h.wf.shadowed_nodup]
    exact h.wf.shadowed_nodup
  · intro i hi hid r hr hrd
    have hraw : i ∉ recycleLoop m.globals m.sym.fl.shadowed.eraseDups
        ((List.range m.globals.length).filter (fun i => !m.sym.fl.shadowed.eraseDups.contains i)) := by
      intro hmem
      exact hid (List.mem_filter.mpr ⟨hmem, by simpa using hi⟩)
    exact recycle_safe m i hi hraw r hr (List.mem_filter.mp hrd).1

/-- `own` after a recycler run: the reclaimed slots carry no cell any more. -/
def ownDrop (own : Own) (dead : List Nat) : Own := fun i => if i ∈ dead then none else own i

/-- **A run of the slot recycler keeps the relation**: only slots that no slot in use mentions are
reclaimed, so every slot that stays in use still mentions slots in use only, owned by the same cells. -/
theorem recycle_rel {own : Own} {s : Spec.State} {m : State} (h : Rel own s m) :
    Rel (ownDrop own (deadOf m)) s (recycle m) ∧
      (∀ n i, m.sym.get n = some i → i ∉ deadOf m) := by
  obtain ⟨hd1, hd2, hd3⟩ := deadOf_facts h
  obtain ⟨hv, hmap, hsh, hfr⟩ := recycle_sym m
  obtain ⟨hlen, hget⟩ := foldl_set_void (deadOf m) m.globals
  have hmapped : ∀ n i, m.sym.get n = some i → i ∉ deadOf m := by
    intro n i hn hmem
    exact h.wf.mapped_not_shadowed (n := n) hn (hd1 i hmem).1
  have hgetn : ∀ n, (recycle m).sym.get n = m.sym.get n := by
    intro n; show lk (recycle m).sym.map n = lk m.sym.map n; rw [hmap]
  have hsub : ∀ i c, ownDrop own (deadOf m) i = some c → own i = some c ∧ i ∉ deadOf m := by
    intro i c hi
    unfold ownDrop at hi
    by_cases hm : i ∈ deadOf m
    · rw [if_pos hm] at hi; cases hi
    · rw [if_neg hm] at hi; exact ⟨hi, hm⟩
  refine ⟨⟨?_, ?_, ?_, ?_, ?_, ?_, ?_, ?_, ?_, ?_⟩, hmapped⟩
  · show Inv (recycle m).sym.values (recycle m).sym.map (recycle m).sym.fl.shadowed
    rw [hv, hmap, hsh]
    exact ⟨h.wf.slot_name, (fun s' hs => by cases hs), List.nodup_nil⟩
  · refine ⟨?_, ?_, ?_, ?_⟩
    · intro f hf
      rw [hfr] at hf; rw [hv]
      rcases List.mem_append.mp hf with hf | hf
      · exact h.fo.free_lt f hf
      · exact Nat.lt_of_lt_of_le (hd1 f hf).2 h.gle
    · intro f _; rw [hsh]; intro hc; cases hc
    · intro f hf n
      rw [hfr] at hf; rw [hgetn]
      rcases List.mem_append.mp hf with hf | hf
      · exact h.fo.free_not_mapped f hf n
      · intro hn; exact hmapped n f hn hf
    · rw [hfr]
      refine List.nodup_append.mpr ⟨h.fo.free_nodup, hd2, ?_⟩
      intro a ha b hb e
      subst e
      exact h.fo.free_not_shadowed a ha (hd1 a hb).1
  · rw [recycle_globals, hlen, hv]; exact h.gle
  · intro n
    rw [hgetn, h.names n]
    cases hg : m.sym.get n with
    | none => rfl
    | some i => simp [ownDrop, hmapped n i hg]
  · intro n i hn
    rw [hgetn] at hn
    obtain ⟨c, hc⟩ := h.mapped n i hn
    exact ⟨c, by simp [ownDrop, hmapped n i hn, hc]⟩
  · intro i j c hi hj
    exact h.inj i j c (hsub i c hi).1 (hsub j c hj).1
  · intro i c hi
    rw [hv]; exact h.dom i c (hsub i c hi).1
  · intro i c hi hmem
    rw [hfr] at hmem
    obtain ⟨ho, hnd⟩ := hsub i c hi
    rcases List.mem_append.mp hmem with hm | hm
    · exact h.notfree i c ho hm
    · exact hnd hm
  · intro i c hi
    obtain ⟨ho, hnd⟩ := hsub i c hi
    rw [recycle_globals, hlen, hget, if_neg (fun hc => hnd hc.1)]
    rcases h.vals i c ho with ⟨v, v', h1, h2, h3⟩ | h2
    · left
      refine ⟨v, v', h1, h2, h3.congr ?_⟩
      intro r hr
      have hil : i < m.globals.length := (List.getElem?_eq_some_iff.mp h1).1
      have : r ∉ deadOf m := hd3 i hil hnd r (by simp [slotsOf, h1, hr])
      simp [ownDrop, this]
    · right; exact h2
  · intro f hf
    rw [hfr] at hf
    rw [recycle_globals, hget]
    rcases List.mem_append.mp hf with hf | hf
    · have hnd : f ∉ deadOf m := fun hc => h.fo.free_not_shadowed f hf (hd1 f hc).1
      rw [if_neg (fun hc => hnd hc.1)]
      exact h.freeVoid f hf
    · rw [if_pos ⟨hf, (hd1 f hf).2⟩]

end SteelVerif.C06
