/-
C06 — whole evaluation histories: definitions for the refinement theorem `slots_refine_cells`.

* `runS` / `runM` – the observable trace of a history (one result per top-level evaluation) under the
  specification S (binding cells) and under the mechanism model M (symbol map + global vector + recycler).
* `Rel own s m` – the abstraction relation: `own : slot ↦ cell` maps every slot that is in use to the binding
  cell it currently carries.  It says: names resolve to corresponding slots/cells; `own` is injective; a slot
  that is in use is never on the free list; the value in a slot corresponds to the value in its cell, where a
  function corresponds to a function iff every slot it mentions is in use and owned by the cell the
  specification's function captured.
* `pieceOK` / `histOK` – the decidable guards under which M refines S: the negations of the classes of the open
  findings K06c (`guardC`), K06b (`guardB`) and of "use before the definition in the same unit" (`guardU`).
-/
import SteelVerif.C06.Rollback
namespace SteelVerif.C06

/-! ## Histories and their observable traces -/

abbrev Piece := List Form
abbrev History := List Piece

def runS (s : Spec.State) : History → List Res
  | [] => []
  | p :: rest => (Spec.evalPiece s p).2 :: runS (Spec.evalPiece s p).1 rest

def runM (m : State) : History → List Res
  | [] => []
  | p :: rest => (evalPiece m p).2 :: runM (evalPiece m p).1 rest

/-- The state of M after a history. -/
def stateM (m : State) : History → State
  | [] => m
  | p :: rest => stateM (evalPiece m p).1 rest

def stateS (s : Spec.State) : History → Spec.State
  | [] => s
  | p :: rest => stateS (Spec.evalPiece s p).1 rest

/-! ## The build phase, name by name -/

/-- The names a piece defines, in order. -/
def defNames (forms : List Form) : List Name := forms.filterMap Form.defines

/-- `SymbolMap::add` for every name. -/
def addAll (m : SymMap) (ns : List Name) : SymMap := ns.foldl (fun acc n => (acc.add n).1) m

/-- S: a new cell for a name. -/
def Spec.bind1 (s : Spec.State) (x : Name) : Spec.State :=
  { env := (x, s.cells.length) :: s.env, cells := s.cells ++ [.void] }

def Spec.bindAll (s : Spec.State) (ns : List Name) : Spec.State := ns.foldl Spec.bind1 s

/-- M: every name a form uses resolves (the build succeeds). -/
def buildOk (m : SymMap) (forms : List Form) : Bool :=
  forms.all fun f => f != .fail && f.uses.all fun n => ((addAll m (defNames forms)).get n).isSome

/-! ## Guards -/

def Form.isDef (f : Form) : Bool := f.defines.isSome

/-- A form that is evaluated for its effect or value when the piece runs. -/
def Form.isUse : Form → Bool
  | .set .. | .setn .. | .call .. | .calls .. | .read .. => true
  | _ => false

/-- No form satisfying `q` comes after a form satisfying `p`. -/
def noneAfter (p q : Form → Bool) : List Form → Bool
  | [] => true
  | f :: rest => (!p f || rest.all (fun g => !q g)) && noneAfter p q rest

/-- Guard of K06c: a build that fails does so while no reclaimed slot is waiting for reuse (or it defined
nothing). -/
def guardC (m : State) (forms : List Form) : Bool :=
  buildOk m.sym forms || m.sym.fl.free.isEmpty || (defNames forms).isEmpty

/-- Guard of K06b: no definition follows a form that raises an error (`(error …)`). -/
def guardB (forms : List Form) : Bool := noneAfter (fun f => f == .rfail) Form.isDef forms

/-- No definition follows, in the same unit, a form that reads, calls or assigns. -/
def guardU (forms : List Form) : Bool := noneAfter Form.isUse Form.isDef forms

def pieceOK (m : State) (forms : List Form) : Bool := guardC m forms && guardB forms && guardU forms

/-- The guard of a history: every piece is fine in the state of M in which it is evaluated. -/
def histOK (m : State) : History → Bool
  | [] => true
  | p :: rest => pieceOK m p && histOK (evalPiece m p).1 rest

/-! ## The abstraction relation -/

/-- slot ↦ binding cell -/
abbrev Own := Nat → Option Nat

/-- A mention of a slot read through `own` (a literal is a literal). -/
def absRef (own : Own) : FRef → Option FRef
  | .g b i => (own i).map fun c => .g b c
  | .k n => some (.k n)

/-- The value in a slot corresponds to the value in a cell. -/
def ValRel (own : Own) : Val → Spec.Val → Prop
  | .void, .void => True
  | .int n, .int n' => n = n'
  | .nat k, .nat k' => k = k'
  | .setter i, .setter c => own i = some c
  | .fn refs, .fn refs' => refs.map (absRef own) = refs'.map some
  | _, _ => False

structure Rel (own : Own) (s : Spec.State) (m : State) : Prop where
  wf : m.sym.WF
  fo : m.sym.FreeOK
  gle : m.globals.length ≤ m.sym.values.length
  names : ∀ n, Spec.lookup s.env n = (m.sym.get n).bind own
  mapped : ∀ n i, m.sym.get n = some i → ∃ c, own i = some c
  inj : ∀ i j c, own i = some c → own j = some c → i = j
  dom : ∀ i c, own i = some c → i < m.sym.values.length ∧ c < s.cells.length
  notfree : ∀ i c, own i = some c → i ∉ m.sym.fl.free
  /-- a slot in use holds the value of its cell, or has not been assigned yet (then neither has the cell) -/
  vals : ∀ i c, own i = some c →
    (∃ v v', m.globals[i]? = some v ∧ s.cells[c]? = some v' ∧ ValRel own v v') ∨
    (m.globals.length ≤ i ∧ s.cells[c]? = some .void)
  freeVoid : ∀ f ∈ m.sym.fl.free, m.globals[f]? = some .void

end SteelVerif.C06
