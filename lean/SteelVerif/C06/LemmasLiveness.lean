/-
C06 — liveness of the slot recycler: what `recycle` must free, it frees.

`Live g cands roots c`: candidate `c` is reached — mentioned by the value of a root (a slot that is not a candidate), or
by the value of a candidate that is itself reached.  `recycleLoop_complete` / `recycle_dead_iff`: the candidates that
remain after the fixed point are EXACTLY the unreached ones, so every shadowed slot that no live code can reach is
reclaimed — in particular candidates that mention themselves or each other in a cycle
(`recycle_frees_candidate_cycles`).  The variant that also walks the candidates as roots keeps a self-mentioning
candidate for ever (`walking_candidates_keeps_self_mention`, decided).
-/
import SteelVerif.C06.LemmasHistory5
namespace SteelVerif.C06

/-- Candidate `c` is reached from the roots through the mentions of values, transitively through reached candidates. -/
inductive Live (g : List Val) (cands roots : List Nat) : Nat → Prop
  | root (i c : Nat) : i ∈ roots → c ∈ slotsOf g i → c ∈ cands → Live g cands roots c
  | step (i c : Nat) : Live g cands roots i → c ∈ slotsOf g i → c ∈ cands → Live g cands roots c

/-- Completeness of the fixed point: a candidate that the loop drops was reached (every slot of the frontier being a
root or a reached candidate). -/
theorem recycleLoop_complete (g : List Val) (roots : List Nat) : ∀ (cands frontier : List Nat) (all : List Nat),
    (∀ c ∈ cands, c ∈ all) →
    (∀ i ∈ frontier, i ∈ roots ∨ Live g all roots i) →
    ∀ d ∈ cands, d ∉ recycleLoop g cands frontier → Live g all roots d := by
  intro cands frontier
  induction cands, frontier using recycleLoop.induct (globals := g) with
  | case1 cands frontier hlive =>
    intro all _ _ d hd hnot
    rw [recycleLoop, dif_pos hlive] at hnot
    exact absurd hd hnot
  | case2 cands frontier hlive ih =>
    intro all hall hsrc d hd hnot
    rw [recycleLoop, dif_neg hlive] at hnot
    have hliveOf : ∀ c ∈ liveOf g cands frontier, Live g all roots c := by
      intro c hc
      obtain ⟨hcc, i, hi, hs⟩ := (mem_liveOf g cands frontier c).mp hc
      rcases hsrc i hi with hr | hl
      · exact Live.root i c hr hs (hall c hcc)
      · exact Live.step i c hl hs (hall c hcc)
    by_cases hdl : d ∈ liveOf g cands frontier
    · exact hliveOf d hdl
    · have hdd : d ∈ dropLive g cands frontier := (mem_dropLive g cands frontier d).mpr ⟨hd, hdl⟩
      exact ih all (fun c hc => hall c ((mem_dropLive g cands frontier c).mp hc).1)
        (fun i hi => Or.inr (hliveOf i hi)) d hdd hnot

/-- Soundness, in the same terms: a reached candidate is not among the remaining ones. -/
theorem live_not_dead (g : List Val) (cands roots : List Nat) :
    ∀ c, Live g cands roots c → c ∉ recycleLoop g cands roots := by
  have h := (recycleLoop_closed g cands roots [] (by simp)).2
  have hsub := (recycleLoop_closed g cands roots [] (by simp)).1
  intro c hl
  induction hl with
  | root i c hi hs _ => exact h i (Or.inr (Or.inl hi)) c hs
  | step i c hli hs _ ih =>
    have hic : i ∈ cands := by cases hli <;> assumption
    exact h i (Or.inr (Or.inr ⟨hic, ih⟩)) c hs

/-- The roots of a recycler run: every slot of the global vector that is not a candidate. -/
def rootsOf (m : State) : List Nat :=
  (List.range m.globals.length).filter (fun i => !m.sym.fl.shadowed.eraseDups.contains i)

/-- **What a recycler run reclaims, exactly**: the candidate slots inside the global vector that are not reached. -/
theorem recycle_dead_iff (m : State) (c : Nat) :
    c ∈ deadOf m ↔ c ∈ m.sym.fl.shadowed ∧ c < m.globals.length ∧
      ¬ Live m.globals m.sym.fl.shadowed.eraseDups (rootsOf m) c := by
  unfold deadOf
  rw [List.mem_filter]
  constructor
  · rintro ⟨h1, h2⟩
    refine ⟨recycle_frees_only_shadowed m c h1, by simpa using h2, ?_⟩
    intro hl
    exact live_not_dead m.globals _ (rootsOf m) c hl h1
  · rintro ⟨h1, h2, h3⟩
    refine ⟨?_, by simpa using h2⟩
    have hc : c ∈ m.sym.fl.shadowed.eraseDups := List.mem_eraseDups.mpr h1
    by_cases hd : c ∈ recycleLoop m.globals m.sym.fl.shadowed.eraseDups (rootsOf m)
    · exact hd
    · exact absurd (recycleLoop_complete m.globals (rootsOf m) _ (rootsOf m) _ (fun _ h => h)
        (fun i hi => Or.inl hi) c hc hd) h3

/-- **Liveness.**  Every shadowed slot that is not reached from the unshadowed globals (through the mentions of their
values, transitively through still-referenced shadowed slots) IS reclaimed by `recycle`: it is on the free list
afterwards and holds void. -/
theorem recycle_frees_unreached (m : State) (c : Nat) (hc : c ∈ m.sym.fl.shadowed) (hlt : c < m.globals.length)
    (hun : ¬ Live m.globals m.sym.fl.shadowed.eraseDups (rootsOf m) c) :
    c ∈ (recycle m).sym.fl.free ∧ (recycle m).globals[c]? = some .void := by
  have hd : c ∈ deadOf m := (recycle_dead_iff m c).mpr ⟨hc, hlt, hun⟩
  refine ⟨by rw [(recycle_sym m).2.2.2]; exact List.mem_append_right _ hd, ?_⟩
  rw [recycle_globals, (foldl_set_void (deadOf m) m.globals).2, if_pos ⟨hd, hlt⟩]

/-- **Cycles of garbage are reclaimed.**  A set `C` of shadowed slots whose members are mentioned only by members of
`C` (a shadowed recursive function mentions itself; mutually recursive ones mention each other) is reclaimed
entirely. -/
theorem recycle_frees_candidate_cycles (m : State) (C : List Nat)
    (hC : ∀ c ∈ C, c ∈ m.sym.fl.shadowed ∧ c < m.globals.length)
    (hclosed : ∀ c ∈ C, ∀ i, c ∈ slotsOf m.globals i → i ∈ C) :
    ∀ c ∈ C, c ∈ (recycle m).sym.fl.free ∧ (recycle m).globals[c]? = some .void := by
  have hnot : ∀ c, Live m.globals m.sym.fl.shadowed.eraseDups (rootsOf m) c → c ∉ C := by
    intro c hl
    induction hl with
    | root i c hi hs _ =>
      intro hcC
      have hiC := hclosed c hcC i hs
      have hish : i ∈ m.sym.fl.shadowed.eraseDups := List.mem_eraseDups.mpr (hC i hiC).1
      have := (List.mem_filter.mp hi).2
      simp [hish] at this
    | step i c _ hs _ ih =>
      intro hcC
      exact ih (hclosed c hcC i hs)
  intro c hcC
  exact recycle_frees_unreached m c (hC c hcC).1 (hC c hcC).2 (fun hl => hnot c hl hcC)

/-- The number of slots in use (allocated and not reclaimed). -/
def inUse (m : SymMap) : Nat := m.values.length - m.fl.free.length

/-- A recycler run lowers the number of slots in use by the number of reclaimed (= unreached, `recycle_dead_iff`)
candidates, and leaves no pending shadow. -/
theorem recycle_inUse (m : State) :
    inUse (recycle m).sym = inUse m.sym - (deadOf m).length ∧ (recycle m).sym.fl.shadowed = [] := by
  refine ⟨?_, (recycle_sym m).2.2.1⟩
  unfold inUse
  rw [(recycle_sym m).1, (recycle_sym m).2.2.2, List.length_append]
  omega

/-! ## Pending shadows never exceed the threshold at a boundary -/

/-- After every top-level evaluation inside the guards, the queue of shadowed slots is within the threshold: a build
that pushes it over triggers the recycler, which empties it; a failed build puts it back. -/
theorem step_pending {own : Own} {s : Spec.State} {m : State} (h : Rel own s m) (forms : List Form)
    (hok : pieceOK m forms = true) (hb : m.sym.fl.shadowed.length ≤ m.sym.fl.threshold) :
    (evalPiece m forms).1.sym.fl.shadowed.length ≤ (evalPiece m forms).1.sym.fl.threshold := by
  rw [evalPiece_eq]
  by_cases hbo : buildOk m.sym forms = true
  · rw [if_pos hbo]
    show (maybeRecycle { m with sym := addAll m.sym (defNames forms) }).sym.fl.shadowed.length ≤
      (maybeRecycle { m with sym := addAll m.sym (defNames forms) }).sym.fl.threshold
    unfold maybeRecycle
    split
    · rw [(recycle_sym _).2.2.1]; exact Nat.zero_le _
    · rename_i hgt; exact Nat.le_of_not_gt hgt
  · rw [if_neg hbo]
    have hguard : m.sym.fl.free = [] ∨ defNames forms = [] := by
      unfold pieceOK guardC at hok
      simp only [Bool.and_eq_true, Bool.or_eq_true, List.isEmpty_iff] at hok
      rcases hok.1.1 with (hC | hC) | hC
      · exact absurd hC hbo
      · exact Or.inl hC
      · exact Or.inr hC
    obtain ⟨_, _, hfl⟩ := rollback_guarded m.sym (defNames forms) h.wf hguard
    show ((addAll m.sym (defNames forms)).rollBack m.sym.values.length).fl.shadowed.length ≤
      ((addAll m.sym (defNames forms)).rollBack m.sym.values.length).fl.threshold
    rw [hfl]; exact hb

/-! ## The variant that walks the candidates as roots (seeded change C19-n2) -/

/-- Slot 0 holds a shadowed recursive function (it mentions itself); nothing else exists. -/
def selfMention : List Val := [.fn [.g true 0]]

/-- With the roots of the code (the non-candidates: none here) the slot is reclaimed; when the candidate itself is
walked as a root it declares itself live and is kept — in this run and, the state being unchanged, in every later
one. -/
theorem walking_candidates_keeps_self_mention :
    recycleLoop selfMention [0] [] = [0] ∧ recycleLoop selfMention [0] [0] = [] := by
  rw [recycleLoop_eq_F selfMention 1 [0] [] (by decide), recycleLoop_eq_F selfMention 1 [0] [0] (by decide)]
  decide

end SteelVerif.C06
