/-
C06 — earlier definitions keep their meaning across any evaluation history.

`S` (the specification): names map to binding *cells*; a function compiled in a piece refers to the
cells that were in force when the piece was compiled; redefinition makes a new cell; `set!` writes the
cell; a piece that fails to compile changes nothing; a piece that fails while running keeps the effect
of the forms that completed and nothing else.

`M` (the mechanism of `compiler/map.rs`, `values/closed.rs::GlobalSlotRecycler`,
`steel_vm/engine.rs::{raw_program_to_executable, run_raw_program, gc_shadowed_roots}`): names map to
*slots* of the global vector through `SymbolMap {values, map, free_list {shadowed_slots, free_list,
threshold, multiplier, epoch}}`; a redefinition takes a fresh or recycled slot and queues the old one;
a failed build rolls the map back; when more than `threshold` slots are queued the recycler frees every
queued slot that no reachable function mentions.

History language (one line = one top-level evaluation = one compilation unit; forms separated by `;`):
  defc x n | deff f a:r b:c … | defs f x | set x n | call f | calls f n | read x | fail | rfail
-/
namespace SteelVerif.C06

abbrev Name := String

inductive Ref where
  | read (n : Name)   -- the value of global `n`
  | call (n : Name)   -- `(n)`
  | const (k : Int)   -- a literal; never written by hand: `propagate` (the unit-local constant propagation of the
                      -- compiler) puts it in place of `read x` when the same unit holds `(define x k)`
deriving DecidableEq, Repr, Inhabited

/-- What the body of a compiled function mentions: a global (by slot in M, by cell in S), or a literal. -/
inductive FRef where
  | g (isCall : Bool) (i : Nat)   -- CALLGLOBAL* / PUSH payload
  | k (n : Int)                   -- PUSHCONST
deriving DecidableEq, Repr, Inhabited

inductive Form where
  | defc (x : Name) (n : Int)            -- (define x n)
  | deff (f : Name) (refs : List Ref)    -- (define (f) (list ref…))
  | defs (f : Name) (x : Name)           -- (define (f v) (set! x v) 0)
  | set (x : Name) (n : Int)             -- (begin (set! x n) 0)
  | defn (x : Name) (k : Int)            -- (define x <native k>): a global holding a built-in procedure (`+` for 0, `*` for 1)
  | setn (x : Name) (k : Int)            -- (begin (set! x <native k>) 0)
  | call (f : Name)                      -- (f)
  | calls (f : Name) (n : Int)           -- (f n)
  | read (x : Name)                      -- x
  | fail                                 -- reference to an undefined identifier: build error
  | rfail                                -- (error "boom"): run-time error
deriving DecidableEq, Repr, Inhabited

/-- Observable result of a piece. -/
inductive Res where
  | ok (vals : List String)
  | err
deriving DecidableEq, Repr

def showInts (l : List String) : String := "(" ++ " ".intercalate l ++ ")"

def Form.defines : Form → Option Name
  | .defc x _ | .deff x _ | .defs x _ | .defn x _ => some x
  | _ => none

def Form.uses : Form → List Name
  | .deff _ refs => refs.filterMap (fun | .read n => some n | .call n => some n | .const _ => none)
  | .defs _ x | .set x _ | .setn x _ | .read x => [x]
  | .call f | .calls f _ => [f]
  | _ => []

/-- The name a form assigns with `set!` (directly, or in the body of the procedure it defines). -/
def Form.assigns : Form → Option Name
  | .set x _ | .setn x _ | .defs _ x => some x
  | _ => none

/-! ## The unit-local constant propagation of the compiler

`compiler.rs` runs `inline_function_calls(None, …)` and constant evaluation on every compilation unit, guarded
only by the `set!`s of *that unit*: when a unit holds `(define x k)` for a literal `k`, defines `x` once and
assigns it nowhere, every `x` in a function body of the unit is replaced by `k`.  (The same pass inlines small
procedures of the unit into their callers; that part is not modelled — it is inside the same finding class.) -/

def constOf (forms : List Form) (x : Name) : Option Int :=
  match forms.filter (fun f => f.defines == some x) with
  | [.defc _ k] => if forms.any (fun f => f.assigns == some x) then none else some k
  | _ => none

def propagateRef (forms : List Form) : Ref → Ref
  | .read x => match constOf forms x with
    | some k => .const k
    | none => .read x
  | r => r

def propagate (forms : List Form) : List Form :=
  forms.map fun
    | .deff f refs => .deff f (refs.map (propagateRef forms))
    | f => f

/-! ## S: binding cells -/
namespace Spec

inductive Val where
  | void
  | int (n : Int)
  | fn (refs : List FRef)           -- mentions of cells / literals
  | setter (cell : Nat)
  | nat (k : Int)                   -- a built-in procedure; `(k)` with no operands returns k
deriving DecidableEq, Repr, Inhabited

structure State where
  env : List (Name × Nat) := []    -- newest first
  cells : List Val := []
deriving DecidableEq, Repr, Inhabited

def lookup (env : List (Name × Nat)) (n : Name) : Option Nat := (env.find? (·.1 == n)).map (·.2)

/-- Value of a cell as the script sees it (`fuel` bounds call nesting). -/
def valStr (cells : List Val) : Nat → Val → Option String
  | _, .void => some "#<void>"
  | _, .int n => some (toString n)
  | _, .fn _ => some "#<function>"
  | _, .setter _ => some "#<function>"
  | _, .nat _ => some "#<function>"

def callFn (cells : List Val) : Nat → Nat → Option String
  | 0, _ => none
  | fuel + 1, c =>
    match cells[c]? with
    | some (.fn refs) =>
        let parts := refs.map fun
          | .g isCall cell =>
            if isCall then callFn cells fuel cell
            else (cells[cell]?).bind (valStr cells fuel)
          | .k n => some (toString n)
        if parts.all Option.isSome then some (showInts (parts.filterMap id)) else none
    | some (.nat k) => some (toString k)
    | _ => none

/-- Compile a piece: every `define` of the piece gets a new cell, visible to the whole piece. -/
def compileEnv (s : State) (forms : List Form) : List (Name × Nat) × Nat :=
  forms.foldl (fun (env, next) f =>
    match f.defines with
    | some x => ((x, next) :: env, next + 1)
    | none => (env, next)) (s.env, s.cells.length)

def runForm (env : List (Name × Nat)) (cells : List Val) : Form → Option (List Val × Option String)
  | .defc x n => (lookup env x).map fun c => (cells.set c (.int n), none)
  | .deff f refs =>
      let rs := refs.map fun
        | .read n => (lookup env n).map (fun c => FRef.g false c)
        | .call n => (lookup env n).map (fun c => FRef.g true c)
        | .const k => some (FRef.k k)
      if rs.all Option.isSome then
        (lookup env f).map fun c => (cells.set c (.fn (rs.filterMap id)), none)
      else none
  | .defs f x =>
      match lookup env f, lookup env x with
      | some c, some cx => some (cells.set c (.setter cx), none)
      | _, _ => none
  | .set x n => (lookup env x).map fun c => (cells.set c (.int n), some "0")
  | .defn x k => (lookup env x).map fun c => (cells.set c (.nat k), none)
  | .setn x k => (lookup env x).map fun c => (cells.set c (.nat k), some "0")
  | .call f => (lookup env f).bind fun c => (callFn cells 64 c).map fun r => (cells, some r)
  | .calls f n =>
      (lookup env f).bind fun c =>
        match cells[c]? with
        | some (.setter cx) => some (cells.set cx (.int n), some "0")
        | _ => none
  | .read x => (lookup env x).bind fun c => ((cells[c]?).bind (valStr cells 1)).map fun r => (cells, some r)
  | .fail | .rfail => none

/-- One top-level evaluation. -/
def evalPiece (s : State) (forms : List Form) : State × Res :=
  -- build: every used name must be bound (in the piece or before)
  let (env', next) := compileEnv s forms
  let usedOk := forms.all fun f => f != .fail && f.uses.all fun n => (lookup env' n).isSome
  if !usedOk then (s, .err)
  else
    let cells0 := s.cells ++ List.replicate (next - s.cells.length) .void
    -- run the forms in order; on a run-time error keep what completed
    let rec go (fs : List Form) (done : List Form) (cells : List Val) (out : List String) :
        List Form × List Val × List String × Bool :=
      match fs with
      | [] => (done, cells, out, true)
      | f :: rest =>
        match runForm env' cells f with
        | none => (done, cells, out, false)
        | some (cells', o) => go rest (done ++ [f]) cells' (match o with | some v => out ++ [v] | none => out)
    let (done, cells, out, okAll) := go forms [] cells0 []
    if okAll then ({ env := env', cells := cells }, .ok out)
    else
      -- only the definitions that were executed take effect
      let executed := done.filterMap Form.defines
      let envKeep := (env'.take (env'.length - s.env.length)).filter (fun p => executed.contains p.1) ++ s.env
      ({ env := envKeep, cells := cells }, .err)

end Spec

/-! ## M: symbol map, global slots, recycler -/

structure FreeList where
  shadowed : List Nat := []
  free : List Nat := []          -- used as a stack: `pop` takes the last element
  threshold : Nat := 100
  multiplier : Nat := 2
  epoch : Nat := 1
deriving DecidableEq, Repr, Inhabited

structure SymMap where
  values : List Name := []              -- slot ↦ name
  map : List (Name × Nat) := []         -- name ↦ slot (association list, newest first)
  fl : FreeList := {}
deriving DecidableEq, Repr, Inhabited

def SymMap.get (m : SymMap) (n : Name) : Option Nat := (m.map.find? (·.1 == n)).map (·.2)

def mapInsert (map : List (Name × Nat)) (n : Name) (i : Nat) : List (Name × Nat) :=
  (n, i) :: map.filter (·.1 != n)

/-- `SymbolMap::add`. -/
def SymMap.add (m : SymMap) (n : Name) : SymMap × Nat :=
  let (idx, free') :=
    match m.fl.free.getLast? with
    | some i => (i, m.fl.free.dropLast)
    | none => (m.values.length, m.fl.free)
  let prev := m.get n
  let shadowed := match prev with
    | some p => m.fl.shadowed ++ [p]
    | none => m.fl.shadowed
  let values := if idx = m.values.length then m.values ++ [n] else m.values.set idx n
  ({ values := values, map := mapInsert m.map n idx,
     fl := { m.fl with shadowed := shadowed, free := free' } }, idx)

/-- Position of the last element satisfying `p`. -/
def rposition (l : List Nat) (p : Nat → Bool) : Option Nat :=
  let idxs := (List.range l.length).filter fun i => match l[i]? with | some x => p x | none => false
  idxs.getLast?

/-- One name of the rolled-back tail (processed last-added first). -/
def rollStep (values : List Name) (index : Nat) (acc : List (Name × Nat) × List Nat) (v : Name) :
    List (Name × Nat) × List Nat :=
  let (map, shadowed) := acc
  -- a name the failed program defined more than once has already been dealt with
  match (map.find? (·.1 == v)).map (·.2) with
  | some slot =>
    if slot < index then (map, shadowed)
    else
      let map := map.filter (·.1 != v)
      match rposition shadowed (fun slot => values[slot]? == some v) with
      | some pos =>
          match shadowed[pos]? with
          | some prev => (mapInsert map v prev, shadowed.eraseIdx pos)
          | none => (map, shadowed)
      | none => (map, shadowed)
  | none =>
      match rposition shadowed (fun slot => values[slot]? == some v) with
      | some pos =>
          match shadowed[pos]? with
          | some prev => (mapInsert map v prev, shadowed.eraseIdx pos)
          | none => (map, shadowed)
      | none => (map, shadowed)

/-- `SymbolMap::roll_back` (as fixed in /repo commits 2bafdf61 and 7d9a2c21). -/
def SymMap.rollBack (m : SymMap) (index : Nat) : SymMap :=
  let shadowed0 := m.fl.shadowed.filter (· < index)
  let removed := m.values.drop index
  let values := m.values.take index
  let (map, shadowed) := removed.reverse.foldl (rollStep values index) (m.map, shadowed0)
  { values := values, map := map, fl := { m.fl with shadowed := shadowed } }

inductive Val where
  | void
  | int (n : Int)
  | fn (refs : List FRef)           -- CALLGLOBAL* / PUSH payloads (slots), PUSHCONST literals
  | setter (slot : Nat)             -- SET payload
  | nat (k : Int)                   -- a built-in procedure; `(k)` with no operands returns k
deriving DecidableEq, Repr, Inhabited

def Val.slots : Val → List Nat
  | .fn refs => refs.filterMap (fun | .g _ i => some i | .k _ => none)
  | .setter s => [s]
  | _ => []

structure State where
  sym : SymMap := {}
  globals : List Val := []
deriving DecidableEq, Repr, Inhabited

def FreeList.incrementGeneration (f : FreeList) : FreeList :=
  if f.epoch = 4 then { f with threshold := 100, epoch := 1 }
  else { f with threshold := f.threshold * f.multiplier, epoch := f.epoch + 1 }

/-- The slots that the value stored in slot `i` mentions. -/
def slotsOf (g : List Val) (i : Nat) : List Nat :=
  match g[i]? with
  | some v => v.slots
  | none => []

def mentionedBy (globals : List Val) (frontier : List Nat) : List Nat :=
  frontier.flatMap (slotsOf globals)

/-- The candidates that the frontier's values mention. -/
def liveOf (globals : List Val) (cands frontier : List Nat) : List Nat :=
  cands.filter (fun c => (mentionedBy globals frontier).contains c)

/-- The candidates that stay candidates after this round. -/
def dropLive (globals : List Val) (cands frontier : List Nat) : List Nat :=
  cands.filter (fun c => !(liveOf globals cands frontier).contains c)

theorem liveOf_decreases (globals : List Val) (cands frontier : List Nat)
    (h : liveOf globals cands frontier ≠ []) :
    (dropLive globals cands frontier).length < cands.length := by
  unfold dropLive
  obtain ⟨x, hx⟩ := List.exists_mem_of_ne_nil _ h
  have hxc : x ∈ cands := (List.mem_filter.mp hx).1
  apply List.length_filter_lt_length_iff_exists.mpr
  exact ⟨x, hxc, by simp [hx]⟩

/-- `GlobalSlotRecycler::recycle` (with the transitive walk of /repo commit d7f174d9): the slots that
remain candidates after walking from the non-candidate roots and from every candidate that turned out to
be referenced.  Every round removes at least one candidate, so it terminates. -/
def recycleLoop (globals : List Val) (cands frontier : List Nat) : List Nat :=
  if h : liveOf globals cands frontier = [] then cands
  else recycleLoop globals (dropLive globals cands frontier) (liveOf globals cands frontier)
termination_by cands.length
decreasing_by exact liveOf_decreases globals cands frontier h

def recycle (s : State) : State :=
  let cands := s.sym.fl.shadowed.eraseDups
  let roots := (List.range s.globals.length).filter (fun i => !cands.contains i)
  let dead := (recycleLoop s.globals cands roots).filter (· < s.globals.length)
  let globals := dead.foldl (fun g i => g.set i .void) s.globals
  { sym := { s.sym with fl := ({ s.sym.fl with shadowed := [], free := s.sym.fl.free ++ dead }).incrementGeneration },
    globals := globals }

def gset (g : List Val) (i : Nat) (v : Val) : List Val :=
  if i < g.length then g.set i v else g ++ List.replicate (i - g.length) .void ++ [v]

def valStr : Val → String
  | .void => "#<void>"
  | .int n => toString n
  | _ => "#<function>"

def callFn (g : List Val) : Nat → Nat → Option String
  | 0, _ => none
  | fuel + 1, c =>
    match g[c]? with
    | some (.fn refs) =>
        let parts := refs.map fun
          | .g isCall slot =>
            if isCall then callFn g fuel slot
            else (g[slot]?).map valStr
          | .k n => some (toString n)
        if parts.all Option.isSome then some (showInts (parts.filterMap id)) else none
    | some (.nat k) => some (toString k)
    | _ => none

def runForm (m : SymMap) (g : List Val) : Form → Option (List Val × Option String)
  | .defc x n => (m.get x).map fun c => (gset g c (.int n), none)
  | .deff f refs =>
      let rs := refs.map fun
        | .read n => (m.get n).map (fun c => FRef.g false c)
        | .call n => (m.get n).map (fun c => FRef.g true c)
        | .const k => some (FRef.k k)
      if rs.all Option.isSome then (m.get f).map fun c => (gset g c (.fn (rs.filterMap id)), none) else none
  | .defs f x =>
      match m.get f, m.get x with
      | some c, some cx => some (gset g c (.setter cx), none)
      | _, _ => none
  | .set x n => (m.get x).bind fun c => if c < g.length then some (g.set c (.int n), some "0") else none
  | .defn x k => (m.get x).map fun c => (gset g c (.nat k), none)
  | .setn x k => (m.get x).bind fun c => if c < g.length then some (g.set c (.nat k), some "0") else none
  | .call f => (m.get f).bind fun c => (callFn g 64 c).map fun r => (g, some r)
  | .calls f n =>
      (m.get f).bind fun c =>
        match g[c]? with
        | some (.setter cx) => if cx < g.length then some (g.set cx (.int n), some "0") else none
        | _ => none
  | .read x => (m.get x).bind fun c => (g[c]?).map fun v => (g, some (valStr v))
  | .fail | .rfail => none

/-- One top-level evaluation: build (first pass adds every define, then references are resolved; a
failed build rolls back), recycle when due, run. -/
def evalPiece (s : State) (forms : List Form) : State × Res :=
  let offset := s.sym.values.length
  let sym1 := forms.foldl (fun m f => match f.defines with | some x => (m.add x).1 | none => m) s.sym
  let usedOk := forms.all fun f => f != .fail && f.uses.all fun n => (sym1.get n).isSome
  if !usedOk then ({ s with sym := sym1.rollBack offset }, .err)
  else
    let s1 : State := { s with sym := sym1 }
    let s2 := if s1.sym.fl.shadowed.length > s1.sym.fl.threshold then recycle s1 else s1
    let rec go (fs : List Form) (g : List Val) (out : List String) : List Val × List String × Bool :=
      match fs with
      | [] => (g, out, true)
      | f :: rest =>
        match runForm s2.sym g f with
        | none => (g, out, false)
        | some (g', o) => go rest g' (match o with | some v => out ++ [v] | none => out)
    let (g, out, okAll) := go forms s2.globals []
    ({ s2 with globals := g }, if okAll then .ok out else .err)

/-- The pipeline that exists: constant propagation inside the unit, then `evalPiece`. -/
def evalPieceR (s : State) (forms : List Form) : State × Res := evalPiece s (propagate forms)

end SteelVerif.C06
