/-
C06 driver.  `c06driver hist`: one history line per piece (forms separated by `;`), prints
`S=<res> M=<res> ## …`: S = the specification on the piece as written, M = the mechanism model on the piece after
the unit-local constant propagation (`evalPieceR`); after `##` the state of M (shadowed / free / threshold / epoch),
the guards of `slots_refine_cells` for this piece (`gc gb gu`, `ok` = all pieces so far inside the guards), the guard
of `propagate_refines_partial` (`ga`, `oka` = all pieces so far inside it; `fz` = number of frozen cells),
whether the build failed (`rb` = a roll-back happened), whether the recycler ran (`rc`) and the largest number
of allocated slots that carry one name (`d`).  `reset` starts over; `init n t e` replays a prelude of n
redefinitions on S and on M with the threshold / epoch of the real engine, so that the run starts in a state
that `slots_refine_cells` covers.  `c06driver unit`: drives `SymMap` like harness `c06 unit`.
-/
import SteelVerif.C06.LemmasPropagate3
namespace SteelVerif.C06

def parseRef (s : String) : Option Ref :=
  match s.splitOn ":" with
  | [n, "r"] => some (.read n)
  | [n, "c"] => some (.call n)
  | _ => none

def parseForm (s : String) : Option Form :=
  match (s.trimAscii.toString.splitOn " ").filter (· ≠ "") with
  | ["defc", x, n] => n.toInt?.map (Form.defc x)
  | "deff" :: f :: refs =>
      let rs := refs.map parseRef
      if rs.all Option.isSome then some (.deff f (rs.filterMap id)) else none
  | ["defs", f, x] => some (.defs f x)
  | ["set", x, n] => n.toInt?.map (Form.set x)
  | ["defn", x, k] => k.toInt?.map (Form.defn x)
  | ["setn", x, k] => k.toInt?.map (Form.setn x)
  | ["call", f] => some (.call f)
  | ["calls", f, n] => n.toInt?.map (Form.calls f)
  | ["read", x] => some (.read x)
  | ["fail"] => some .fail
  | ["rfail"] => some .rfail
  | _ => none

def showRes : Res → String
  | .ok vals => "ok " ++ "|".intercalate vals
  | .err => "err"

/-- The largest number of allocated (not reclaimed) slots carrying the same name. -/
def shadowDepth (m : SymMap) : Nat :=
  let live := (List.range m.values.length).filter (fun i => !m.fl.free.contains i)
  let names := live.filterMap (fun i => m.values[i]?)
  names.eraseDups.foldl (fun acc n => max acc (names.filter (· == n)).length) 0

/-- The prelude of the real engine as a history: `n` names defined twice. -/
def preludeHist (n : Nat) : History :=
  ((List.range n).map fun i => [Form.defc s!"##prelude{i}" 0]) ++
  ((List.range n).map fun i => [Form.defc s!"##prelude{i}" 0])

def runPrelude (n t e : Nat) : Spec.State × State :=
  let m0 : State := { sym := { fl := { threshold := t, epoch := e } } }
  (stateS {} (preludeHist n), stateM m0 (preludeHist n))

def b2s (b : Bool) : String := if b then "1" else "0"

partial def histLoop (h : IO.FS.Stream) (s : Spec.State) (m : State) (ok : Bool) (fz : Frozen := []) (oka : Bool := true) : IO Unit := do
  let l ← h.getLine
  if l.isEmpty then return ()
  let l := l.trimAscii.toString
  if l == "reset" then
    IO.println "reset"
    histLoop h {} {} true
  else if l.startsWith "init " then
    -- `init <shadowed> <threshold> <epoch>`: the state of the real engine after loading its prelude
    match (l.splitOn " ").filter (· ≠ "") with
    | [_, sh, t, e] =>
        let (s0, m0) := runPrelude sh.toNat! t.toNat! e.toNat!
        histLoop h s0 m0 true
    | _ => IO.println "bad"; histLoop h s m ok fz oka
  else
    let forms := (l.splitOn ";").map parseForm
    if forms.all Option.isSome then
      let fs := forms.filterMap id
      let pfs := propagate fs
      let (s', rs) := Spec.evalPiece s fs
      let (m', rm) := evalPieceR m fs
      let gc := guardC m pfs
      let gb := guardB pfs
      let gu := guardU pfs
      let ok' := ok && gc && gb && gu
      let rb := !(buildOk m.sym pfs)
      let rc := m'.sym.fl.epoch != m.sym.fl.epoch
      let ga := guardA (fz ++ newFz (unitEnv s fs) fs) (unitEnv s fs) fs
      let oka' := oka && pieceOKA fz s fs
      let fz' := fzNext fz s fs
      IO.println s!"S={showRes rs} M={showRes rm} ## s={m'.sym.fl.shadowed.length} f={m'.sym.fl.free.length} t={m'.sym.fl.threshold} e={m'.sym.fl.epoch} gc={b2s gc} gb={b2s gb} gu={b2s gu} ok={b2s ok'} ga={b2s ga} oka={b2s oka'} fz={fz'.length} rb={b2s rb} rc={b2s rc} d={shadowDepth m'.sym} pr={b2s (pfs != fs)}"
      histLoop h s' m' ok' fz' oka'
    else
      IO.println "bad"
      histLoop h s m ok fz oka

def showSym (m : SymMap) : String :=
  let mp := (m.map.map fun (k, v) => s!"{k}={v}").toArray.qsort (· < ·) |>.toList
  s!"values=[{",".intercalate m.values}] map=[{",".intercalate mp}] shadowed={m.fl.shadowed} free={m.fl.free}"

partial def unitLoop (h : IO.FS.Stream) (m : SymMap) (marks : List Nat := []) : IO Unit := do
  let l ← h.getLine
  if l.isEmpty then return ()
  match (l.trimAscii.toString.splitOn " ").filter (· ≠ "") with
  | ["reset"] => IO.println "reset"; unitLoop h {} []
  | ["add", n] => let (m', i) := m.add n; IO.println (toString i); unitLoop h m' marks
  | ["get", n] =>
      IO.println (match m.get n with | some i => toString i | none => "err"); unitLoop h m marks
  | ["len"] => IO.println (toString m.values.length); unitLoop h m marks
  | ["rollback", n] => IO.println "ok"; unitLoop h (m.rollBack n.toNat!) marks
  | ["free", k] =>
      IO.println "ok"; unitLoop h { m with fl := { m.fl with free := m.fl.free ++ [k.toNat!] } } marks
  | "recycle" :: live =>
      -- a recycler run: every shadowed slot stops being a candidate; those not listed as live are reclaimed
      let keep := live.filterMap String.toNat?
      let dead := m.fl.shadowed.filter (fun s => !keep.contains s)
      IO.println "ok"; unitLoop h { m with fl := { m.fl with shadowed := [], free := m.fl.free ++ dead } } marks
  | ["mark"] => IO.println (toString m.values.length); unitLoop h m (m.values.length :: marks)
  | ["rollbackmark"] =>
      IO.println "ok"
      match marks with
      | k :: rest => unitLoop h (m.rollBack k) rest
      | [] => unitLoop h m []
  | ["state"] => IO.println (showSym m); unitLoop h m marks
  | _ => IO.println "bad"; unitLoop h m marks

def mainC06 (args : List String) : IO Unit := do
  match args with
  | ["unit"] => unitLoop (← IO.getStdin) {} []
  | _ => histLoop (← IO.getStdin) {} {} true

end SteelVerif.C06

def main (args : List String) : IO Unit := SteelVerif.C06.mainC06 args
