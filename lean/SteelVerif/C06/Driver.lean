/-
C06 driver.  `c06driver hist`: one history line per piece (forms separated by `;`), prints
`S=<res> M=<res>`; `reset` starts over.  `c06driver unit`: drives `SymMap` like harness `c06 unit`.
-/
import SteelVerif.C06.Model
namespace SteelVerif.C06

def parseRef (s : String) : Option Ref :=
  match s.splitOn ":" with
  | [n, "r"] => some (.read n)
  | [n, "c"] => some (.call n)
  | _ => none

def parseForm (s : String) : Option Form :=
  match (s.trimAscii.toString.splitOn " ").filter (· ≠ "") with
  | ["defc", x, n] => n.toInt?.map (Form.defc x)
  | "deff" :: f :: refs =>
      let rs := refs.map parseRef
      if rs.all Option.isSome then some (.deff f (rs.filterMap id)) else none
  | ["defs", f, x] => some (.defs f x)
  | ["set", x, n] => n.toInt?.map (Form.set x)
  | ["defn", x, k] => k.toInt?.map (Form.defn x)
  | ["setn", x, k] => k.toInt?.map (Form.setn x)
  | ["call", f] => some (.call f)
  | ["calls", f, n] => n.toInt?.map (Form.calls f)
  | ["read", x] => some (.read x)
  | ["fail"] => some .fail
  | ["rfail"] => some .rfail
  | _ => none

def showRes : Res → String
  | .ok vals => "ok " ++ "|".intercalate vals
  | .err => "err"

partial def histLoop (h : IO.FS.Stream) (s : Spec.State) (m : State) : IO Unit := do
  let l ← h.getLine
  if l.isEmpty then return ()
  let l := l.trimAscii.toString
  if l == "reset" then
    IO.println "reset"
    histLoop h {} {}
  else if l.startsWith "init " then
    -- `init <shadowed> <threshold> <epoch>`: the state of the real engine after loading its prelude
    match (l.splitOn " ").filter (· ≠ "") with
    | [_, sh, t, e] =>
        let n := sh.toNat!
        let names := (List.range n).map (fun i => s!"##prelude{i}")
        let sym : SymMap := { values := names, map := [],
                              fl := { shadowed := List.range n, threshold := t.toNat!, epoch := e.toNat! } }
        histLoop h s { sym := sym, globals := List.replicate n .void }
    | _ => IO.println "bad"; histLoop h s m
  else
    let forms := (l.splitOn ";").map parseForm
    if forms.all Option.isSome then
      let fs := forms.filterMap id
      let (s', rs) := Spec.evalPiece s fs
      let (m', rm) := evalPiece m fs
      IO.println s!"S={showRes rs} M={showRes rm} ## s={m'.sym.fl.shadowed.length} f={m'.sym.fl.free.length} t={m'.sym.fl.threshold} e={m'.sym.fl.epoch}"
      histLoop h s' m'
    else
      IO.println "bad"
      histLoop h s m

def showSym (m : SymMap) : String :=
  let mp := (m.map.map fun (k, v) => s!"{k}={v}").toArray.qsort (· < ·) |>.toList
  s!"values=[{",".intercalate m.values}] map=[{",".intercalate mp}] shadowed={m.fl.shadowed} free={m.fl.free}"

partial def unitLoop (h : IO.FS.Stream) (m : SymMap) (marks : List Nat := []) : IO Unit := do
  let l ← h.getLine
  if l.isEmpty then return ()
  match (l.trimAscii.toString.splitOn " ").filter (· ≠ "") with
  | ["reset"] => IO.println "reset"; unitLoop h {} []
  | ["add", n] => let (m', i) := m.add n; IO.println (toString i); unitLoop h m' marks
  | ["get", n] =>
      IO.println (match m.get n with | some i => toString i | none => "err"); unitLoop h m marks
  | ["len"] => IO.println (toString m.values.length); unitLoop h m marks
  | ["rollback", n] => IO.println "ok"; unitLoop h (m.rollBack n.toNat!) marks
  | ["free", k] =>
      IO.println "ok"; unitLoop h { m with fl := { m.fl with free := m.fl.free ++ [k.toNat!] } } marks
  | "recycle" :: live =>
      -- a recycler run: every shadowed slot stops being a candidate; those not listed as live are reclaimed
      let keep := live.filterMap String.toNat?
      let dead := m.fl.shadowed.filter (fun s => !keep.contains s)
      IO.println "ok"; unitLoop h { m with fl := { m.fl with shadowed := [], free := m.fl.free ++ dead } } marks
  | ["mark"] => IO.println (toString m.values.length); unitLoop h m (m.values.length :: marks)
  | ["rollbackmark"] =>
      IO.println "ok"
      match marks with
      | k :: rest => unitLoop h (m.rollBack k) rest
      | [] => unitLoop h m []
  | ["state"] => IO.println (showSym m); unitLoop h m marks
  | _ => IO.println "bad"; unitLoop h m marks

def mainC06 (args : List String) : IO Unit := do
  match args with
  | ["unit"] => unitLoop (← IO.getStdin) {} []
  | _ => histLoop (← IO.getStdin) {} {}

end SteelVerif.C06

def main (args : List String) : IO Unit := SteelVerif.C06.mainC06 args
