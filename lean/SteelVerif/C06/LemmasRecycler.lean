/-
C06 — the symbol map (`add`/`get`) and the global-slot recycler: scan-list coverage (regenerated table), the
recycler frees only slots that no surviving slot mentions.  (The property theorems over whole histories are in
`Props.lean`.)
-/
import SteelVerif.C06.Model
import SteelVerif.C06.GenScan
namespace SteelVerif.C06

/-! ## The recycler's scan list covers every op code that indexes the global vector -/

/-- Op codes (of those the code generator emits in the jit2 configuration) whose handler indexes the
global vector with the instruction's payload, plus `DynSuperInstruction`, which overwrites the op code of
a compiled function's entry instruction and keeps its payload. -/
def globalIndexingOps : List String :=
  ["CALLGLOBAL", "CALLGLOBALTAIL", "CALLGLOBALNOARITY", "CALLGLOBALTAILNOARITY", "CALLPRIMITIVE",
   "PUSH", "SET", "DynSuperInstruction"]

/-- `recyclerScanOps` is regenerated from `values/closed.rs` on every run: dropping an op code from
`GlobalSlotRecycler::visit_closure` makes this theorem fail to check. -/
theorem scan_complete : ∀ op ∈ globalIndexingOps, op ∈ recyclerScanOps := by decide

/-- The model's `recycleLoop` iterates to a fixed point (`recycle_safe` below is about that loop); this obligation
ties it to the source: it stops checking when `GlobalSlotRecycler::recycle` no longer re-walks the values of
newly live shadowed slots until nothing changes (a single extra pass frees a slot that is reachable through a
chain of three shadowed bindings). -/
theorem gen_recycler_fixpoint : recyclerIteratesToFixpoint = true := by decide

/-- The model's `recycle` starts the walk from `roots` = the slots that are NOT candidates (`recycle_frees_unreached`,
`recycle_frees_candidate_cycles` are about that); this obligation ties it to the source: it stops checking when the first
walk of `GlobalSlotRecycler::recycle` also starts from candidate slots (a shadowed recursive function then keeps its own
slot alive and is never reclaimed - seeded change C19-n2). -/
theorem gen_recycler_roots_exclude_candidates : recyclerRootsExcludeCandidates = true := by decide

/-- A live continuation's pending code (the functions of its captured frames and the top-level instructions they
return into) mentions global slots exactly like a function body; this obligation stops checking when
`GlobalSlotRecycler::visit_continuation` no longer hands that code to the scan (finding K06d, fixed in /repo
f2f700ff: a continuation resumed after a recycler run read a reclaimed slot). -/
theorem gen_recycler_scans_continuations : recyclerScansContinuationCode = true := by decide

/-! ## `SymbolMap::add` / `get` -/

theorem find_mapInsert (map : List (Name × Nat)) (n n' : Name) (i : Nat) :
    ((mapInsert map n i).find? (·.1 == n')).map (·.2) =
      if n' = n then some i else (map.find? (·.1 == n')).map (·.2) := by
  unfold mapInsert
  by_cases h : n' = n
  · subst h; simp
  · have hne : (n == n') = false := by simp; exact fun e => h e.symm
    simp only [List.find?_cons, hne, h, if_false, List.find?_filter]
    congr 2
    funext a
    by_cases ha : a.1 = n'
    · have : a.1 ≠ n := fun e => h (ha ▸ e)
      simp [ha, this]; exact fun e => h e
    · simp [ha]

/-- After a definition the name resolves to the slot just taken; every other name is unaffected. -/
theorem get_add (m : SymMap) (n n' : Name) :
    (m.add n).1.get n' = if n' = n then some (m.add n).2 else m.get n' := by
  simp only [SymMap.add, SymMap.get]
  exact find_mapInsert _ _ _ _

/-- A redefinition queues the slot that was in force, and nothing else. -/
theorem shadowed_add (m : SymMap) (n : Name) :
    (m.add n).1.fl.shadowed = match m.get n with
      | some p => m.fl.shadowed ++ [p]
      | none => m.fl.shadowed := by
  simp only [SymMap.add]
  cases m.get n <;> rfl

/-- Without a reclaimed slot to reuse, a definition takes a brand-new slot at the end. -/
theorem add_fresh (m : SymMap) (n : Name) (h : m.fl.free = []) :
    (m.add n).2 = m.values.length ∧ (m.add n).1.values = m.values ++ [n] ∧ (m.add n).1.fl.free = [] := by
  simp [SymMap.add, h]

/-! ## The recycler frees only slots that no surviving slot's value mentions -/

theorem mem_mentionedBy (g : List Val) (frontier : List Nat) (s : Nat) :
    s ∈ mentionedBy g frontier ↔ ∃ i ∈ frontier, s ∈ slotsOf g i := by
  simp [mentionedBy, List.mem_flatMap]

theorem mem_liveOf (g : List Val) (cands frontier : List Nat) (c : Nat) :
    c ∈ liveOf g cands frontier ↔ c ∈ cands ∧ ∃ i ∈ frontier, c ∈ slotsOf g i := by
  simp [liveOf, List.mem_filter, ← mem_mentionedBy]

theorem mem_dropLive (g : List Val) (cands frontier : List Nat) (c : Nat) :
    c ∈ dropLive g cands frontier ↔ c ∈ cands ∧ c ∉ liveOf g cands frontier := by
  simp [dropLive, List.mem_filter]

/-- Loop invariant of the recycler's fixed point. -/
theorem recycleLoop_closed (g : List Val) : ∀ (cands frontier visited : List Nat),
    (∀ i ∈ visited, ∀ s ∈ slotsOf g i, s ∉ cands) →
    (∀ d ∈ recycleLoop g cands frontier, d ∈ cands) ∧
    (∀ i, (i ∈ visited ∨ i ∈ frontier ∨ (i ∈ cands ∧ i ∉ recycleLoop g cands frontier)) →
      ∀ s ∈ slotsOf g i, s ∉ recycleLoop g cands frontier) := by
  intro cands frontier
  induction cands, frontier using recycleLoop.induct (globals := g) with
  | case1 cands frontier hlive =>
    intro visited hinv
    rw [recycleLoop, dif_pos hlive]
    refine ⟨fun d hd => hd, ?_⟩
    intro i hi s hs hsc
    rcases hi with hi | hi | ⟨hic, hid⟩
    · exact hinv i hi s hs hsc
    · have : s ∈ liveOf g cands frontier := (mem_liveOf g cands frontier s).mpr ⟨hsc, i, hi, hs⟩
      rw [hlive] at this; cases this
    · exact absurd hic hid
  | case2 cands frontier hlive ih =>
    intro visited hinv
    rw [recycleLoop, dif_neg hlive]
    have hinv' : ∀ i ∈ visited ++ frontier, ∀ s ∈ slotsOf g i, s ∉ dropLive g cands frontier := by
      intro i hi s hs hsd
      obtain ⟨hsc, hnl⟩ := (mem_dropLive g cands frontier s).mp hsd
      rcases List.mem_append.mp hi with hv | hf
      · exact hinv i hv s hs hsc
      · exact hnl ((mem_liveOf g cands frontier s).mpr ⟨hsc, i, hf, hs⟩)
    obtain ⟨h1, h2⟩ := ih (visited ++ frontier) hinv'
    refine ⟨fun d hd => ((mem_dropLive g cands frontier d).mp (h1 d hd)).1, ?_⟩
    intro i hi s hs
    apply h2 i ?_ s hs
    rcases hi with hi | hi | ⟨hic, hid⟩
    · exact Or.inl (List.mem_append.mpr (Or.inl hi))
    · exact Or.inl (List.mem_append.mpr (Or.inr hi))
    · by_cases hl : i ∈ liveOf g cands frontier
      · exact Or.inr (Or.inl hl)
      · exact Or.inr (Or.inr ⟨(mem_dropLive g cands frontier i).mpr ⟨hic, hl⟩, hid⟩)

/-- **No live code can reach a freed slot.**  After `recycle`, the value stored in any global slot that
was not freed mentions no freed slot (in the *old* global vector, i.e. before the freed slots are
overwritten with void): the freed slots are unreachable from every surviving global, transitively. -/
theorem recycle_safe (s : State) :
    let cands := s.sym.fl.shadowed.eraseDups
    let roots := (List.range s.globals.length).filter (fun i => !cands.contains i)
    let dead := recycleLoop s.globals cands roots
    ∀ i, i < s.globals.length → i ∉ dead → ∀ r ∈ slotsOf s.globals i, r ∉ dead := by
  intro cands roots dead i hi hid r hr
  have h := (recycleLoop_closed s.globals cands roots [] (by simp)).2
  apply h i ?_ r hr
  by_cases hc : i ∈ cands
  · exact Or.inr (Or.inr ⟨hc, hid⟩)
  · refine Or.inr (Or.inl ?_)
    simp only [roots, List.mem_filter, List.mem_range]
    exact ⟨hi, by simpa using hc⟩

/-- Only queued (shadowed) slots are ever freed. -/
theorem recycle_frees_only_shadowed (s : State) :
    ∀ d ∈ recycleLoop s.globals s.sym.fl.shadowed.eraseDups
        ((List.range s.globals.length).filter (fun i => !s.sym.fl.shadowed.eraseDups.contains i)),
      d ∈ s.sym.fl.shadowed := by
  intro d hd
  have := (recycleLoop_closed s.globals _ _ [] (by simp)).1 d hd
  exact List.mem_eraseDups.mp this

/-! ## Non-vacuity and regression witnesses (concrete histories, evaluated by the kernel) -/

/-- The D15 history: `h` calls the old `f`, which calls the old `g`; both are redefined.  The
recycler must keep the old `g` (slot 1) although only the shadowed-but-live old `f` mentions it. -/
example :
    let g : List Val := [.int 7, .fn [.g false 0], .fn [.g true 1], .fn [.g true 2], .fn [.g false 0], .fn [.g false 0]]
    recycleLoop g [1, 2] [0, 3, 4, 5] = [] := by
  simp [recycleLoop, liveOf, dropLive, mentionedBy, slotsOf, Val.slots]

/-- … and a slot nobody mentions is freed. -/
example :
    let g : List Val := [.int 7, .fn [.g false 0], .fn [.g true 1], .fn [.g false 0], .fn [.g false 0]]
    recycleLoop g [1, 2] [0, 3, 4] = [1, 2] := by
  simp [recycleLoop, liveOf, dropLive, mentionedBy, slotsOf, Val.slots]

end SteelVerif.C06
