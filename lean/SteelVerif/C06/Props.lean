/-
C06 — "earlier definitions keep their meaning across any evaluation history": the property theorems.

* `slots_refine_cells` — for EVERY history (any number of pieces, definitions, redefinitions, `set!`s, calls,
  failing builds, run-time failures, any number of recycler runs, any initial threshold / epoch) inside the
  decidable guards, the mechanism M (symbol map with shadow / free lists, global vector, roll-back, slot
  recycler with its trigger) produces exactly the results of the specification S (binding cells).
* `slots_refine_cells_any_reuse_order` — the same when an oracle permutes the free list before every unit (the
  real recycler's hash set decides which reclaimed slot a later definition takes).
* `live_slots_owned` — the invariant of DESIGN §7: in every reachable state there is a map slot ↦ cell under
  which every function stored in a slot in use mentions only slots that are in use, are not on the free list and
  are owned by the cell that the specification's function captured.
* corollaries `redefinition_only_affects_later_code`, `set_visible_to_all`, `failed_unit_is_noop_partial`;
* `propagate_refines_partial` / `slots_refine_cells_real` — the pipeline that exists runs a unit-local constant
  propagation before M (`evalPieceR`); inside the decidable guard `histOKA` (no form assigns a cell whose
  definition was propagated — the negation of the class of K06a) it is invisible, so the whole pipeline refines S;
* decided witnesses outside each guard (`k06a_outside_guard`, `k06b_outside_guard`, `k06c_outside_guard`,
  `use_before_define_outside_guard`) — they are the replays of the open findings K06a, K06b, K06c;
* non-vacuity: a history that crosses the recycling threshold while a live function still refers to a shadowed
  slot (through another shadowed slot), a slot is reclaimed and reused.

The older unit-level theorems (`scan_complete`, `gen_recycler_fixpoint`, `get_add`, `recycle_safe`, …,
`rollback_restores_partial`, `not_rollbackRestores`) are in `LemmasRecycler.lean` / `Rollback.lean` and are used
here; `Audit.lean` lists all of them.
-/
import SteelVerif.C06.LemmasHistory5
import SteelVerif.C06.LemmasPropagate3
import SteelVerif.C06.LemmasLiveness
namespace SteelVerif.C06

/-- The empty engine, with any recycling threshold and epoch. -/
def emptyM (t e : Nat) : State := { sym := { fl := { threshold := t, epoch := e } } }

theorem rel_empty (t e : Nat) : Rel (fun _ => none) {} (emptyM t e) := by
  refine ⟨wf_empty, ⟨?_, ?_, ?_, List.nodup_nil⟩, Nat.le_refl _, ?_, ?_, ?_, ?_, ?_, ?_, ?_⟩
  · intro f hf; cases hf
  · intro f hf; cases hf
  · intro f hf; cases hf
  · intro n; rfl
  · intro n i hn; simp [emptyM, SymMap.get] at hn
  · intro i j c hi; cases hi
  · intro i c hi; cases hi
  · intro i c hi; cases hi
  · intro i c hi; cases hi
  · intro f hf; cases hf

/-! ## The refinement theorem -/

/-- From any pair of related states. -/
theorem slots_refine_cells_from : ∀ (hist : History) {own : Own} {s : Spec.State} {m : State},
    Rel own s m → Assigned m.sym m.globals → histOK m hist = true →
    runM m hist = runS s hist ∧
    ∃ own', Rel own' (stateS s hist) (stateM m hist) ∧ Assigned (stateM m hist).sym (stateM m hist).globals := by
  intro hist
  induction hist with
  | nil => intro own s m h hA _; exact ⟨rfl, own, h, hA⟩
  | cons p rest ih =>
    intro own s m h hA hok
    simp only [histOK, Bool.and_eq_true] at hok
    obtain ⟨hres, own', h', hA'⟩ := step_refines h hA p hok.1
    obtain ⟨hrest, hfin⟩ := ih h' hA' hok.2
    exact ⟨by simp only [runM, runS, hres, hrest], hfin⟩

/-- **slots refine cells.**  For every history inside the guards, from the empty engine with any threshold and
epoch: every top-level evaluation gives the same result through slots (M) as through binding cells (S). -/
theorem slots_refine_cells (t e : Nat) (hist : History) (hok : histOK (emptyM t e) hist = true) :
    runM (emptyM t e) hist = runS {} hist :=
  (slots_refine_cells_from hist (rel_empty t e) rfl hok).1

/-- The same for the pipeline that exists (unit-local constant propagation, then M): it computes what S computes
on the propagated units. -/
theorem slots_refine_cells_propagated (t e : Nat) (hist : History)
    (hok : histOK (emptyM t e) (hist.map propagate) = true) :
    runM (emptyM t e) (hist.map propagate) = runS {} (hist.map propagate) :=
  slots_refine_cells t e _ hok

/-- **The invariant** (DESIGN §7).  After every history inside the guards there is a map slot ↦ cell such that:
names resolve to the slot carrying their cell; two slots never carry the same cell; a slot in use is not on the
free list; and a function stored in a slot in use corresponds, mention by mention, to the function stored in its
cell — every slot it mentions is in use, hence not on the free list, and is owned by the cell that the
specification's function captured. -/
theorem live_slots_owned (t e : Nat) (hist : History) (hok : histOK (emptyM t e) hist = true) :
    ∃ own : Own,
      (∀ n, Spec.lookup (stateS {} hist).env n = ((stateM (emptyM t e) hist).sym.get n).bind own) ∧
      (∀ i j c, own i = some c → own j = some c → i = j) ∧
      (∀ i c, own i = some c → i ∉ (stateM (emptyM t e) hist).sym.fl.free) ∧
      (∀ i c refs, own i = some c → (stateM (emptyM t e) hist).globals[i]? = some (.fn refs) →
        ∃ refs', (stateS {} hist).cells[c]? = some (.fn refs') ∧ refs.map (absRef own) = refs'.map some ∧
          ∀ r ∈ refs.filterMap FRef.slot, r ∉ (stateM (emptyM t e) hist).sym.fl.free ∧ ∃ cr, own r = some cr) := by
  obtain ⟨_, own, h, hA⟩ := slots_refine_cells_from hist (rel_empty t e) rfl hok
  refine ⟨own, h.names, h.inj, h.notfree, ?_⟩
  intro i c refs hi hg
  rcases h.vals i c hi with ⟨v, v', h1, h2, h3⟩ | ⟨h1, _⟩
  · rw [hg] at h1; cases h1
    cases v' <;> simp only [ValRel] at h3
    rename_i refs'
    refine ⟨refs', h2, h3, ?_⟩
    intro r hr
    obtain ⟨cr, hcr⟩ := absRefs_owned _ _ h3 r hr
    exact ⟨h.notfree r cr hcr, cr, hcr⟩
  · have := (List.getElem?_eq_some_iff.mp hg).1
    omega

/-! ## Any order of reuse of reclaimed slots

The real recycler keeps the candidate slots in a hash set: the order in which reclaimed slots enter the free list —
hence which slot a later definition takes — is not determined.  The theorem does not depend on it: before every
piece an oracle may permute the free list. -/

/-- Replace the free list. -/
def withFree (m : State) (l : List Nat) : State :=
  { m with sym := { m.sym with fl := { m.sym.fl with free := l } } }

theorem Rel.perm_free {own : Own} {s : Spec.State} {m : State} (h : Rel own s m) (l : List Nat)
    (hp : l.Perm m.sym.fl.free) : Rel own s (withFree m l) := by
  have hmem : ∀ f, f ∈ l ↔ f ∈ m.sym.fl.free := fun f => hp.mem_iff
  refine ⟨h.wf, ⟨?_, ?_, ?_, ?_⟩, h.gle, h.names, h.mapped, h.inj, h.dom, ?_, h.vals, ?_⟩
  · intro f hf; exact h.fo.free_lt f ((hmem f).mp hf)
  · intro f hf; exact h.fo.free_not_shadowed f ((hmem f).mp hf)
  · intro f hf; exact h.fo.free_not_mapped f ((hmem f).mp hf)
  · exact hp.nodup_iff.mpr h.fo.free_nodup
  · intro i c hi hf; exact h.notfree i c hi ((hmem i).mp hf)
  · intro f hf; exact h.freeVoid f ((hmem f).mp hf)

/-- The trace of M when an oracle reorders the free list before every piece. -/
def runMO (oracle : State → List Nat) (m : State) : History → List Res
  | [] => []
  | p :: rest =>
    (evalPiece (withFree m (oracle m)) p).2 :: runMO oracle (evalPiece (withFree m (oracle m)) p).1 rest

def histOKO (oracle : State → List Nat) (m : State) : History → Bool
  | [] => true
  | p :: rest =>
    pieceOK (withFree m (oracle m)) p && histOKO oracle (evalPiece (withFree m (oracle m)) p).1 rest

theorem slots_refine_cells_any_reuse_order_from (oracle : State → List Nat)
    (horacle : ∀ m, (oracle m).Perm m.sym.fl.free) : ∀ (hist : History) {own : Own} {s : Spec.State} {m : State},
    Rel own s m → Assigned m.sym m.globals → histOKO oracle m hist = true →
    runMO oracle m hist = runS s hist := by
  intro hist
  induction hist with
  | nil => intro own s m _ _ _; rfl
  | cons p rest ih =>
    intro own s m h hA hok
    simp only [histOKO, Bool.and_eq_true] at hok
    have h0 := h.perm_free (oracle m) (horacle m)
    have hA0 : Assigned (withFree m (oracle m)).sym (withFree m (oracle m)).globals := hA
    obtain ⟨hres, own', h', hA'⟩ := step_refines h0 hA0 p hok.1
    simp only [runMO, runS, hres, ih h' hA' hok.2]

/-- **slots refine cells, whatever slot a definition reuses.** -/
theorem slots_refine_cells_any_reuse_order (oracle : State → List Nat)
    (horacle : ∀ m, (oracle m).Perm m.sym.fl.free) (t e : Nat) (hist : History)
    (hok : histOKO oracle (emptyM t e) hist = true) : runMO oracle (emptyM t e) hist = runS {} hist :=
  slots_refine_cells_any_reuse_order_from oracle horacle hist (rel_empty t e) rfl hok

/-- The oracle "reverse the free list" is admissible, and the theorem applies (here to the replay of K06a's first
two units followed by a call; the free list is permuted whenever it is not empty). -/
example :
    let oracle : State → List Nat := fun m => m.sym.fl.free.reverse
    let hist : History := [[.defc "x" 5], [.deff "f" [.read "x"]], [.defc "x" 6], [.call "f"]]
    (∀ m, (oracle m).Perm m.sym.fl.free) ∧ histOKO oracle (emptyM 100 1) hist = true ∧
    runMO oracle (emptyM 100 1) hist = runS {} hist ∧ runS {} hist = [.ok [], .ok [], .ok [], .ok ["(5)"]] := by
  intro oracle hist
  have ho : ∀ m, (oracle m).Perm m.sym.fl.free := fun m => List.reverse_perm _
  have hok : histOKO oracle (emptyM 100 1) hist = true := by decide
  exact ⟨ho, hok, slots_refine_cells_any_reuse_order oracle ho 100 1 hist hok, by decide⟩

/-! ## Liveness: the slots in use stay bounded

Safety says a slot in use is never reclaimed; liveness says garbage IS reclaimed (`recycle_frees_unreached`,
`recycle_dead_iff`, `recycle_frees_candidate_cycles` in `LemmasLiveness.lean`: a recycler run frees exactly the
candidates that are not reached from the unshadowed globals, cycles included).  Along a history: -/

/-- **Pending shadows are bounded.**  After every history inside the guards the queue of shadowed slots is within the
threshold in force. -/
theorem pending_shadows_bounded : ∀ (hist : History) {own : Own} {s : Spec.State} {m : State},
    Rel own s m → Assigned m.sym m.globals → histOK m hist = true →
    m.sym.fl.shadowed.length ≤ m.sym.fl.threshold →
    (stateM m hist).sym.fl.shadowed.length ≤ (stateM m hist).sym.fl.threshold := by
  intro hist
  induction hist with
  | nil => intro own s m _ _ _ hb; exact hb
  | cons p rest ih =>
    intro own s m h hA hok hb
    simp only [histOK, Bool.and_eq_true] at hok
    obtain ⟨_, own', h', hA'⟩ := step_refines h hA p hok.1
    exact ih h' hA' hok.2 (step_pending h p hok.1 hb)

/-- **The slots in use are bounded by what is settled plus the threshold** (the plateau): after every history inside
the guards, from the empty engine, the slots in use split into the pending shadows — at most `threshold` of them —
and the settled ones (bound to a name, or retained by an earlier recycler run because they were reached), and every
recycler run along the way removed every candidate that was not reached (`recycle_dead_iff`), so the settled part
grows only by definitions of new names and by reached candidates. -/
theorem slots_bounded (t e : Nat) (hist : History) (hok : histOK (emptyM t e) hist = true) :
    inUse (stateM (emptyM t e) hist).sym ≤
      (inUse (stateM (emptyM t e) hist).sym - (stateM (emptyM t e) hist).sym.fl.shadowed.length) +
        (stateM (emptyM t e) hist).sym.fl.threshold := by
  have := pending_shadows_bounded hist (rel_empty t e) rfl hok (Nat.zero_le _)
  omega

/-- What is retained is not reconsidered (the engine: "after one pass, we'll ignore it forever"): `h` reads the first
`v`, `v` is redefined (the recycler runs and must keep the first `v`), then `h` is redefined — the first `v` is
unreachable now but is no candidate any more: three slots stay in use for two names and no pending shadow.  So
"slots in use ≤ names + threshold" holds only up to such retained slots. -/
theorem retained_slots_are_not_reconsidered :
    let hist : History := [[.defc "v" 1], [.deff "h" [.read "v"]], [.defc "v" 2], [.deff "h" [.read "v"]],
      [.defc "j" 0]]
    histOK (emptyM 0 1) hist = true ∧ (stateM (emptyM 0 1) hist).sym.fl.shadowed = [] ∧
    (stateM (emptyM 0 1) hist).sym.map.length = 3 ∧ inUse (stateM (emptyM 0 1) hist).sym = 4 := by
  intro hist
  rw [← histOKF_eq, ← stateMF_eq]
  refine ⟨by decide, by decide, by decide, by decide⟩

/-- The state in the middle of a build (threshold 0): slot 1 holds the first `r`, a recursive function (it mentions
itself and the first `v`, slot 0); slot 2 holds `q`, which reads the first `v`; `r` and `v` have just been redefined,
so slots 1 and 0 are candidates. -/
def cycState : State :=
  { sym := { values := ["v", "r", "q", "r", "v"], map := [("v", 4), ("r", 3), ("q", 2)], fl := { shadowed := [1, 0], threshold := 0 } },
    globals := [.int 1, .fn [.g true 1, .g false 0], .fn [.g false 0]] }

/-- Non-vacuity of the liveness theorems: the hypotheses of `recycle_frees_candidate_cycles` hold for `C = [1]` (only
slot 1 mentions slot 1), so the recursive function's slot is reclaimed although it mentions itself; slot 0 is reached
(`Live`: the root `q` mentions it) and `recycle_dead_iff` keeps it; the run as computed agrees. -/
example :
    (1 ∈ (recycle cycState).sym.fl.free ∧ (recycle cycState).globals[1]? = some .void) ∧
    Live cycState.globals cycState.sym.fl.shadowed.eraseDups (rootsOf cycState) 0 ∧ 0 ∉ deadOf cycState ∧
    (recycle cycState).sym.fl.free = [1] ∧ inUse (recycle cycState).sym = 4 := by
  have hcyc := recycle_frees_candidate_cycles cycState [1]
    (by intro c hc; have : c = 1 := by simpa using hc
        subst this; decide)
    (by intro c hc i hi
        have : c = 1 := by simpa using hc
        subst this
        have hi3 : i < 3 := by
          by_cases h3 : i < 3
          · exact h3
          · have hn : cycState.globals[i]? = none := List.getElem?_eq_none (by simp [cycState]; omega)
            simp [slotsOf, hn] at hi
        have : i = 0 ∨ i = 1 ∨ i = 2 := by omega
        rcases this with e | e | e <;> subst e
        · simp [slotsOf, cycState, Val.slots] at hi
        · simp
        · simp [slotsOf, cycState, Val.slots] at hi)
    1 (by simp)
  have hlive : Live cycState.globals cycState.sym.fl.shadowed.eraseDups (rootsOf cycState) 0 :=
    Live.root 2 0 (by decide) (by decide) (by decide)
  have h0 : 0 ∉ deadOf cycState := fun hd => ((recycle_dead_iff cycState 0).mp hd).2.2 hlive
  refine ⟨hcyc, hlive, h0, ?_, ?_⟩ <;> (rw [← recycleF_eq]; decide)

/-! ## Corollaries -/

theorem pieceOK_defc (m : State) (x : Name) (n : Int) : pieceOK m [.defc x n] = true := by
  simp [pieceOK, guardC, guardB, guardU, buildOk, noneAfter, Form.uses]

theorem pieceOK_call (m : State) (f : Name) : pieceOK m [.call f] = true := by
  simp [pieceOK, guardC, guardB, guardU, noneAfter, defNames, Form.defines]

theorem pieceOK_set (m : State) (x : Name) (n : Int) : pieceOK m [.set x n] = true := by
  simp [pieceOK, guardC, guardB, guardU, noneAfter, defNames, Form.defines]

theorem sEval_defc (s : Spec.State) (x : Name) (n : Int) :
    Spec.evalPiece s [.defc x n] =
      ({ env := (x, s.cells.length) :: s.env, cells := s.cells ++ [.int n] }, .ok []) := by
  rw [sEvalPiece_eq]
  have hN : defNames [Form.defc x n] = [x] := rfl
  simp only [hN, Spec.bindAll, List.foldl_cons, List.foldl_nil, Spec.bind1]
  have hb : sBuildOk ((x, s.cells.length) :: s.env) [Form.defc x n] = true := by
    simp [sBuildOk, Form.uses]
  rw [if_pos hb]
  have hl : Spec.lookup ((x, s.cells.length) :: s.env) x = some s.cells.length := by
    rw [lookup_cons, if_pos rfl]
  have hr : Spec.runForm ((x, s.cells.length) :: s.env) (s.cells ++ [Spec.Val.void]) (.defc x n)
      = some ((s.cells ++ [Spec.Val.void]).set s.cells.length (.int n), none) := by
    simp only [Spec.runForm, hl, Option.map_some]
  rw [sgo_cons_some _ _ _ _ _ _ _ none hr, sgo_nil]
  simp

theorem sEval_call (s : Spec.State) (f : Name) :
    Spec.evalPiece s [.call f] = (s, match (Spec.lookup s.env f).bind (Spec.callFn s.cells 64) with
      | some r => .ok [r]
      | none => .err) := by
  rw [sEvalPiece_eq]
  have hN : defNames [Form.call f] = [] := rfl
  simp only [hN, Spec.bindAll, List.foldl_nil]
  cases hl : Spec.lookup s.env f with
  | none =>
    have hb : sBuildOk s.env [Form.call f] = false := by simp [sBuildOk, Form.uses, hl]
    rw [if_neg (by simp [hb])]; rfl
  | some c =>
    have hb : sBuildOk s.env [Form.call f] = true := by simp [sBuildOk, Form.uses, hl]
    rw [if_pos hb]
    cases hc : Spec.callFn s.cells 64 c with
    | none =>
      have hr : Spec.runForm s.env s.cells (.call f) = none := by
        simp only [Spec.runForm, hl, Option.bind_some, hc, Option.map_none]
      rw [sgo_cons_none _ _ _ _ _ _ hr]
      simp [hc]
    | some r =>
      have hr : Spec.runForm s.env s.cells (.call f) = some (s.cells, some r) := by
        simp only [Spec.runForm, hl, Option.bind_some, hc, Option.map_some]
      rw [sgo_cons_some _ _ _ _ _ _ _ _ hr, sgo_nil]
      simp [hc]

theorem sEval_set (s : Spec.State) (x : Name) (n : Int) (c : Nat) (hl : Spec.lookup s.env x = some c) :
    Spec.evalPiece s [.set x n] = ({ s with cells := s.cells.set c (.int n) }, .ok ["0"]) := by
  rw [sEvalPiece_eq]
  have hN : defNames [Form.set x n] = [] := rfl
  simp only [hN, Spec.bindAll, List.foldl_nil]
  have hb : sBuildOk s.env [Form.set x n] = true := by simp [sBuildOk, Form.uses, hl]
  rw [if_pos hb]
  have hr : Spec.runForm s.env s.cells (.set x n) = some (s.cells.set c (.int n), some "0") := by
    simp only [Spec.runForm, hl, Option.map_some]
  rw [sgo_cons_some _ _ _ _ _ _ _ _ hr, sgo_nil]
  simp

/-- In the specification, cells that exist are not touched by appending new ones: calling a function gives the
same result when its (transitive) mentions all exist — `P` is a set of existing cells closed under "mentions". -/
theorem sCallFn_append (cells extra : List Spec.Val) (P : Nat → Prop)
    (hP : ∀ c, P c → c < cells.length ∧
      ∀ refs, cells[c]? = some (.fn refs) → ∀ r ∈ refs.filterMap FRef.slot, P r) :
    ∀ (fuel c : Nat), P c → Spec.callFn (cells ++ extra) fuel c = Spec.callFn cells fuel c := by
  intro fuel
  induction fuel with
  | zero => intro c _; rfl
  | succ fuel ih =>
    intro c hPc
    obtain ⟨hc, hcl⟩ := hP c hPc
    unfold Spec.callFn
    rw [List.getElem?_append_left hc]
    cases hv : cells[c]? with
    | none => rfl
    | some v =>
      cases v with
      | fn refs =>
        show (if (refs.map (sPart (cells ++ extra) fuel)).all Option.isSome = true then
            some (showInts ((refs.map (sPart (cells ++ extra) fuel)).filterMap id)) else none) =
          (if (refs.map (sPart cells fuel)).all Option.isSome = true then
            some (showInts ((refs.map (sPart cells fuel)).filterMap id)) else none)
        have : refs.map (sPart (cells ++ extra) fuel) = refs.map (sPart cells fuel) := by
          apply List.map_congr_left
          intro r hr
          cases r with
          | k n => rfl
          | g b j =>
            have hPj : P j := hcl refs hv j (List.mem_filterMap.mpr ⟨.g b j, hr, rfl⟩)
            have hj : j < cells.length := (hP j hPj).1
            simp only [sPart]
            rw [ih j hPj, List.getElem?_append_left hj]
            cases b
            · simp only [Bool.false_eq_true, if_false]
              cases hw : cells[j]? with
              | none => rfl
              | some w => cases w <;> rfl
            · rfl
        rw [this]
      | _ => rfl

/-- The cells carried by slots in use are closed under "mentions". -/
theorem Rel.sclosed {own : Own} {s : Spec.State} {m : State} (h : Rel own s m)
    (hA : Assigned m.sym m.globals) :
    ∀ c, (∃ i, own i = some c) → c < s.cells.length ∧
      ∀ refs, s.cells[c]? = some (.fn refs) → ∀ r ∈ refs.filterMap FRef.slot, ∃ j, own j = some r := by
  rintro c ⟨i, hi⟩
  refine ⟨(h.dom i c hi).2, ?_⟩
  intro refs hc r hr
  obtain ⟨v, v', h1, h2, h3⟩ := Rel.val_of_assigned (env := s.env) (cells := s.cells) (sym := m.sym)
    (g := m.globals) h hA hi
  rw [hc] at h2; cases h2
  cases v <;> simp only [ValRel] at h3
  rename_i refsM
  -- every mention of the specification's function is the image of a mention of a slot in use
  have : ∀ (rm rs : List FRef), rm.map (absRef own) = rs.map some →
      ∀ r ∈ rs.filterMap FRef.slot, ∃ j, own j = some r := by
    intro rm
    induction rm with
    | nil =>
      intro rs hrs r hr
      cases rs with
      | nil => cases hr
      | cons _ _ => simp at hrs
    | cons a rm ihm =>
      intro rs hrs r hr
      obtain ⟨a', rs', e, ha, hrest⟩ := map_some_cons hrs
      subst e
      cases a with
      | k n =>
        simp only [absRef, Option.some.injEq] at ha
        subst ha
        exact ihm rs' hrest r (by simpa [List.filterMap_cons, FRef.slot] using hr)
      | g b j =>
        obtain ⟨cj, hcj, e⟩ := absRef_g.mp ha
        subst e
        have : r = cj ∨ r ∈ rs'.filterMap FRef.slot := by simpa [List.filterMap_cons, FRef.slot] using hr
        rcases this with e | hr
        · rw [e]; exact ⟨j, hcj⟩
        · exact ihm rs' hrest r hr
  exact this refsM refs h3 r hr

/-- **Redefinition affects only code compiled afterwards.**  In every state reachable inside the guards (any
state related to a specification state), redefining `x` does not change what an existing function `f ≠ x`
returns — although the redefinition takes a slot (a fresh one or a reclaimed one), queues the old slot of `x` and
may trigger a run of the recycler. -/
theorem redefinition_only_affects_later_code {own : Own} {s : Spec.State} {m : State} (h : Rel own s m)
    (hA : Assigned m.sym m.globals) (x f : Name) (n : Int) (hne : f ≠ x) :
    (evalPiece (evalPiece m [.defc x n]).1 [.call f]).2 = (evalPiece m [.call f]).2 := by
  obtain ⟨_, own1, h1, hA1⟩ := step_refines h hA [.defc x n] (pieceOK_defc m x n)
  obtain ⟨e2, _⟩ := step_refines h1 hA1 [.call f] (pieceOK_call _ f)
  obtain ⟨e3, _⟩ := step_refines h hA [.call f] (pieceOK_call m f)
  rw [e2, e3, sEval_defc, sEval_call, sEval_call]
  simp only [lookup_cons, if_neg hne]
  cases hl : Spec.lookup s.env f with
  | none => rfl
  | some c =>
    obtain ⟨i, c', hg, ho, hl'⟩ : ∃ i c', m.sym.get f = some i ∧ own i = some c' ∧
        Spec.lookup s.env f = some c' := by
      rcases h.resolve f with ⟨_, hn⟩ | hr
      · rw [hn] at hl; cases hl
      · exact hr
    rw [hl] at hl'; cases hl'
    simp only [Option.bind_some]
    rw [sCallFn_append s.cells [.int n] (fun c => ∃ i, own i = some c) (h.sclosed hA) 64 c ⟨i, ho⟩]

/-- **`set!` of a global is seen by all code referring to that binding.**  After `(set! x n)`, every slot that
carries the cell of `x`'s binding — i.e. the slot mentioned by every function compiled against that binding —
holds `n`; there is exactly one such slot, and the states are related again. -/
theorem set_visible_to_all {own : Own} {s : Spec.State} {m : State} (h : Rel own s m)
    (hA : Assigned m.sym m.globals) (x : Name) (n : Int) (c : Nat) (hx : Spec.lookup s.env x = some c) :
    (evalPiece m [.set x n]).2 = .ok ["0"] ∧
    ∃ own', Rel own' { s with cells := s.cells.set c (.int n) } (evalPiece m [.set x n]).1 ∧
      (∃ r, own' r = some c ∧ (evalPiece m [.set x n]).1.sym.get x = some r) ∧
      ∀ r, own' r = some c → (evalPiece m [.set x n]).1.globals[r]? = some (.int n) := by
  obtain ⟨e1, own', h', hA'⟩ := step_refines h hA [.set x n] (pieceOK_set m x n)
  rw [sEval_set s x n c hx] at e1 h'
  refine ⟨e1, own', h', ?_, ?_⟩
  · rcases h'.resolve x with ⟨_, hn⟩ | ⟨r, c', hg, ho, hl⟩
    · rw [show Spec.lookup s.env x = none from hn] at hx; cases hx
    · rw [show Spec.lookup s.env x = some c' from hl] at hx; cases hx
      exact ⟨r, ho, hg⟩
  · intro r hr
    obtain ⟨v, v', h1, h2, h3⟩ := Rel.val_of_assigned (env := s.env) (cells := s.cells.set c (.int n))
      (sym := (evalPiece m [.set x n]).1.sym) (g := (evalPiece m [.set x n]).1.globals) h' hA' hr
    have hc : c < s.cells.length := by
      rcases h.resolve x with ⟨_, hn⟩ | ⟨i, c', _, ho, hl⟩
      · rw [hn] at hx; cases hx
      · rw [hl] at hx; cases hx; exact (h.dom i c ho).2
    rw [List.getElem?_set] at h2
    simp only [if_true, hc] at h2
    cases h2
    cases v <;> simp only [ValRel] at h3
    subst h3
    exact h1

/-- **A unit that fails to build is a no-op** (inside the guard of K06c: no reclaimed slot is waiting for reuse,
or the unit defines nothing): the global vector is untouched and the symbol map resolves every name as before,
with the same slot names, shadow queue, free list, threshold and epoch. -/
theorem failed_unit_is_noop_partial (m : State) (forms : List Form) (hw : m.sym.WF)
    (hfail : buildOk m.sym forms = false) (hg : guardC m forms = true) :
    (evalPiece m forms).2 = .err ∧ (evalPiece m forms).1.globals = m.globals ∧
    (evalPiece m forms).1.sym.values = m.sym.values ∧
    (∀ n, (evalPiece m forms).1.sym.get n = m.sym.get n) ∧
    (evalPiece m forms).1.sym.fl = m.sym.fl := by
  rw [evalPiece_eq, if_neg (by simp [hfail])]
  have hguard : m.sym.fl.free = [] ∨ defNames forms = [] := by
    unfold guardC at hg
    simp only [Bool.or_eq_true, List.isEmpty_iff, hfail, Bool.false_eq_true, false_or] at hg
    exact hg
  obtain ⟨hv, hgt, hfl⟩ := rollback_guarded m.sym (defNames forms) hw hguard
  exact ⟨rfl, rfl, hv, hgt, hfl⟩

/-- The unguarded statement: a unit that fails to build leaves every name resolving as before. -/
def FailedUnitIsNoop : Prop :=
  ∀ (m : State) (forms : List Form), m.sym.WF → m.sym.FreeOK → buildOk m.sym forms = false →
    ∀ n, (evalPiece m forms).1.sym.get n = m.sym.get n

/-- … is false (K06c): `k06cMap` is well-formed, slot 0 is reclaimed, and the failing unit
`(define x 3) (undefined 1)` leaves `x` resolving to the reclaimed slot. -/
theorem not_failedUnitIsNoop : ¬ FailedUnitIsNoop := by
  intro h
  have := h { sym := k06cMap, globals := [.void, .int 2] } [.defc "x" 3, .fail] k06cMap_wf.1 k06cMap_wf.2
    (by decide) "x"
  revert this
  decide

/-! ## Outside the guards: the open findings, decided -/

/-- K06b (`findings/C06-K06b.txt`): `(define x 1)` | `(error "boom") (define x 5)` | `x`. -/
def k06bHist : History := [[.defc "x" 1], [.rfail, .defc "x" 5], [.read "x"]]

/-- Outside `guardB` M really deviates from S: the earlier definition of `x` is lost (S: `1`, M: error — the
real engine: free identifier). -/
theorem k06b_outside_guard :
    histOK (emptyM 100 1) k06bHist = false ∧ guardB [.rfail, .defc "x" 5] = false ∧
    runM (emptyM 100 1) k06bHist = [.ok [], .err, .err] ∧
    runS {} k06bHist = [.ok [], .err, .ok ["1"]] := by
  refine ⟨by decide, by decide, by decide, by decide⟩

/-- K06c (`findings/C06-K06c.txt`, with the recycling threshold at 0 instead of 100 junk definitions):
`(define x 1)` | `(define x 2)` [recycler runs: slot 0 reclaimed] | `(define x 3) (undefined 1)` | `x`. -/
def k06cHist : History := [[.defc "x" 1], [.defc "x" 2], [.defc "x" 3, .fail], [.read "x"]]

/-- Outside `guardC` M really deviates from S: after the failed build `x` resolves to the reclaimed slot
(S: `2`, M: `#<void>` — as the real engine). -/
theorem k06c_outside_guard :
    histOK (emptyM 0 1) k06cHist = false ∧
    (stateM (emptyM 0 1) [[.defc "x" 1], [.defc "x" 2]]).sym.fl.free = [0] ∧
    guardC (stateM (emptyM 0 1) [[.defc "x" 1], [.defc "x" 2]]) [.defc "x" 3, .fail] = false ∧
    runM (emptyM 0 1) k06cHist = [.ok [], .ok [], .err, .ok ["#<void>"]] ∧
    runS {} k06cHist = [.ok [], .ok [], .err, .ok ["2"]] := by
  rw [← histOKF_eq, ← stateMF_eq, ← runMF_eq]
  refine ⟨by decide, by decide, by decide, by decide, by decide⟩

/-- Use before the definition in the same unit: `x (define x 1)`.  (The real engine answers `1`: the constant
is propagated; S answers `#<void>`, M fails.) -/
theorem use_before_define_outside_guard :
    guardU [.read "x", .defc "x" 1] = false ∧
    runM (emptyM 100 1) [[.read "x", .defc "x" 1]] = [.err] ∧
    runS {} [[.read "x", .defc "x" 1]] = [.ok ["#<void>", ]] := by
  refine ⟨by decide, by decide, by decide⟩

/-! ## The pipeline that exists: constant propagation, then M (finding K06a) -/

/-- The observable trace of the pipeline that exists. -/
def runR (m : State) : History → List Res
  | [] => []
  | p :: rest => (evalPieceR m p).2 :: runR (evalPieceR m p).1 rest

theorem runR_eq : ∀ (hist : History) (m : State), runR m hist = runM m (hist.map propagate) := by
  intro hist
  induction hist with
  | nil => intro m; rfl
  | cons p rest ih => intro m; simp only [runR, List.map_cons, runM, evalPieceR, ih]

/-- **Constant propagation is invisible inside the guard of K06a**: for every history in which no form assigns a
cell whose definition was propagated into a function of the same unit, the specification gives the same results
on the propagated units as on the units as written. -/
theorem propagate_refines_partial (hist : History) (hok : histOKA [] {} hist = true) :
    runS {} (hist.map propagate) = runS {} hist :=
  propagate_refines_from hist pstate_empty hok

/-- **The whole pipeline refines the specification** (all guards): constant propagation, symbol map, roll-back,
recycler — for every history, any initial threshold and epoch. -/
theorem slots_refine_cells_real (t e : Nat) (hist : History)
    (hM : histOK (emptyM t e) (hist.map propagate) = true) (hA : histOKA [] {} hist = true) :
    runR (emptyM t e) hist = runS {} hist := by
  rw [runR_eq, slots_refine_cells t e _ hM, propagate_refines_partial hist hA]

/-- K06a (`findings/C06-K06a.txt`): `(define x 5) (define (f) (list x))` | `(set! x 6)` | `(f)`. -/
def k06aHist : History := [[.defc "x" 5, .deff "f" [.read "x"]], [.set "x" 6], [.call "f"]]

/-- Outside `histOKA` the pipeline really deviates from S: `f` keeps answering `(5)` (as the real engine); all
the guards of `slots_refine_cells` hold, so it is the propagation alone. -/
theorem k06a_outside_guard :
    histOKA [] {} k06aHist = false ∧ histOK (emptyM 100 1) (k06aHist.map propagate) = true ∧
    runR (emptyM 100 1) k06aHist = [.ok [], .ok ["0"], .ok ["(5)"]] ∧
    runS {} k06aHist = [.ok [], .ok ["0"], .ok ["(6)"]] := by
  refine ⟨by decide, by decide, by decide, by decide⟩

/-- The unguarded statement "the pipeline refines S on every history inside the guards of M" is false. -/
theorem not_pipeline_refines_unguarded :
    ¬ ∀ hist : History, histOK (emptyM 100 1) (hist.map propagate) = true →
      runR (emptyM 100 1) hist = runS {} hist := by
  intro h
  have := h k06aHist k06a_outside_guard.2.1
  rw [k06a_outside_guard.2.2.1, k06a_outside_guard.2.2.2] at this
  revert this
  decide

/-- Non-vacuity of `propagate_refines_partial` / `slots_refine_cells_real`: the definition of `x` is propagated
into `f` (the unit changes), `x` is then REdefined (a new cell — allowed) and assigned; `f` answers `(5)` on
both sides, the new `g` sees the assignment. -/
example :
    let hist : History := [[.defc "x" 5, .deff "f" [.read "x"]], [.defc "x" 6], [.deff "g" [.read "x"]],
      [.set "x" 7], [.call "f", .call "g"]]
    hist.map propagate ≠ hist ∧ histOKA [] {} hist = true ∧
    histOK (emptyM 100 1) (hist.map propagate) = true ∧
    runR (emptyM 100 1) hist = runS {} hist ∧
    runS {} hist = [.ok [], .ok [], .ok [], .ok ["0"], .ok ["(5)", "(7)"]] := by
  intro hist
  have h1 : histOKA [] {} hist = true := by decide
  have h2 : histOK (emptyM 100 1) (hist.map propagate) = true := by decide
  exact ⟨by decide, h1, h2, slots_refine_cells_real 100 1 hist h2 h1, by decide⟩

/-! ## Non-vacuity -/

/-- A history that crosses the recycling threshold twice (1, then 2) while the live function `h` still refers to
the shadowed first `f`, which refers to the shadowed first `v`; the first slot of `j` is reclaimed and reused by
the second `f`; it contains a failing build, a run-time failure and a literal. -/
def exHist : History :=
  [[.defc "v" 7], [.deff "f" [.read "v"]], [.deff "h" [.call "f", .const 3]], [.defc "j" 1],
   [.defc "j" 2], [.defc "v" 8], [.deff "f" [.read "v"]],
   [.defc "w" 9], [.set "v" 10], [.call "h", .call "f", .read "w", .read "j"],
   [.defc "w" 11, .fail], [.set "w" 12, .rfail], [.read "w"],
   [.defc "w" 13], [.defc "w" 14], [.call "h", .read "w"]]

/-- `slots_refine_cells` applies to it.  The recycler ran twice (epoch 3, threshold 4); the first run reclaimed
slot 3 (the first `j`), which the second `f` took; the old `f` and the old `v` (slots 1 and 0) survived both runs
because `h` still calls them: `(h)` is `((7) 3)` although `v` is `10` for the new `f`; the second run reclaimed
the first two slots of `w`. -/
example :
    histOK (emptyM 1 1) exHist = true ∧
    runS {} exHist = [.ok [], .ok [], .ok [], .ok [], .ok [], .ok [], .ok [], .ok [], .ok ["0"],
      .ok ["((7) 3)", "(10)", "9", "2"], .err, .err, .ok ["12"], .ok [], .ok [], .ok ["((7) 3)", "14"]] ∧
    runM (emptyM 1 1) exHist = runS {} exHist ∧
    (stateM (emptyM 1 1) exHist).sym.fl = { shadowed := [], free := [6, 7], threshold := 4, epoch := 3 } ∧
    (stateM (emptyM 1 1) exHist).sym.get "f" = some 3 ∧
    (stateM (emptyM 1 1) exHist).globals[1]? = some (.fn [.g false 0]) ∧
    (stateM (emptyM 1 1) exHist).globals[2]? = some (.fn [.g true 1, .k 3]) := by
  have hok : histOK (emptyM 1 1) exHist = true := by rw [← histOKF_eq]; decide
  refine ⟨hok, by decide, slots_refine_cells 1 1 exHist hok, ?_, ?_, ?_, ?_⟩ <;>
    (rw [← stateMF_eq]; decide)

/-- `redefinition_only_affects_later_code` and `set_visible_to_all` apply in the state after that history. -/
example : ∃ own s, Rel own s (stateM (emptyM 1 1) exHist) ∧
    Assigned (stateM (emptyM 1 1) exHist).sym (stateM (emptyM 1 1) exHist).globals ∧
    Spec.lookup s.env "v" = some 5 := by
  have hok : histOK (emptyM 1 1) exHist = true := by rw [← histOKF_eq]; decide
  obtain ⟨_, own, h, hA⟩ := slots_refine_cells_from exHist (rel_empty 1 1) rfl hok
  exact ⟨own, _, h, hA, by decide⟩

/-- `failed_unit_is_noop_partial` on a unit that redefines twice and fails, from a state with a shadowed name. -/
example : (evalPiece { sym := exMap, globals := [.int 1, .int 2, .int 3] }
      [.defc "a" 5, .defc "b" 6, .defc "a" 7, .fail]).1.sym.get "a" = some 2 :=
  ((failed_unit_is_noop_partial { sym := exMap, globals := [.int 1, .int 2, .int 3] }
    [.defc "a" 5, .defc "b" 6, .defc "a" 7, .fail] (reachable_wf _ exMap_reachable).1 (by decide)
    (by decide)).2.2.2.1 "a").trans (by decide)

end SteelVerif.C06
