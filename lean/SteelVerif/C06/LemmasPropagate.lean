/-
C06 — the unit-local constant propagation (`propagate`, finding K06a) against the specification.

`propagate` replaces, inside a unit, `x` in function bodies by the literal `k` of `(define x k)`.  The cell of such an
`x` is *frozen*: as long as nothing assigns it, reading the cell and using the literal are the same.  `PRel` relates
the run of S on the propagated units to the run of S on the units as written: same environment, same cells except
that a function may hold a literal where the original holds a read of a frozen cell; no setter targets a frozen cell;
every frozen cell holds its literal.  `guardA` (decidable, evaluated along the run of S) says that no form assigns a
frozen cell — its negation is the class of K06a.
-/
import SteelVerif.C06.LemmasHistory5
namespace SteelVerif.C06

/-! ## `propagate`, form by form -/

def pform (forms : List Form) : Form → Form
  | .deff f refs => .deff f (refs.map (propagateRef forms))
  | f => f

theorem propagate_eq (forms : List Form) : propagate forms = forms.map (pform forms) := by
  unfold propagate
  apply List.map_congr_left
  intro f _; cases f <;> rfl

theorem pform_defines (forms : List Form) (f : Form) : (pform forms f).defines = f.defines := by
  cases f <;> rfl

theorem pform_of_not_deff (forms : List Form) (f : Form) (h : ∀ g refs, f ≠ .deff g refs) :
    pform forms f = f := by
  cases f <;> first | rfl | exact absurd rfl (h _ _)

theorem defNames_map_pform (forms l : List Form) : defNames (l.map (pform forms)) = defNames l := by
  unfold defNames
  rw [List.filterMap_map]
  congr 1
  funext f
  exact pform_defines forms f

theorem defNames_propagate (forms : List Form) : defNames (propagate forms) = defNames forms := by
  rw [propagate_eq, defNames_map_pform]

theorem propagateRef_cases (forms : List Form) (r : Ref) :
    propagateRef forms r = r ∨ ∃ x n, r = .read x ∧ constOf forms x = some n ∧ propagateRef forms r = .const n := by
  cases r with
  | read x =>
    cases h : constOf forms x with
    | none => left; simp [propagateRef, h]
    | some n => right; exact ⟨x, n, rfl, h, by simp [propagateRef, h]⟩
  | call x => left; rfl
  | const k => left; rfl

/-- A name whose definition is propagated is defined by the unit, by exactly one form, `(define x k)`. -/
theorem constOf_spec {forms : List Form} {x : Name} {n : Int} (h : constOf forms x = some n) :
    forms.filter (fun f => f.defines == some x) = [.defc x n] ∧
    forms.any (fun f => f.assigns == some x) = false := by
  unfold constOf at h
  split at h
  · rename_i y k heq
    split at h
    · cases h
    · rename_i hany
      cases h
      have hmem : Form.defc y n ∈ forms.filter (fun f => f.defines == some x) := by rw [heq]; simp
      have := (List.mem_filter.mp hmem).2
      have hy : y = x := by simpa [Form.defines] using this
      subst hy
      exact ⟨heq, by simpa using hany⟩
  · cases h

theorem constOf_mem {forms : List Form} {x : Name} {n : Int} (h : constOf forms x = some n) :
    x ∈ defNames forms := by
  have hmem : Form.defc x n ∈ forms.filter (fun f => f.defines == some x) := by rw [(constOf_spec h).1]; simp
  exact mem_defNames.mpr ⟨_, (List.mem_filter.mp hmem).1, rfl⟩

/-! ## Frozen cells, the guard of K06a -/

/-- Frozen cells with their literal. -/
abbrev Frozen := List (Nat × Int)

def Frozen.has (fz : Frozen) (c : Nat) : Bool := fz.any (·.1 == c)

theorem Frozen.has_false {fz : Frozen} {c : Nat} (h : fz.has c = false) : ∀ n, (c, n) ∉ fz := by
  intro n hm
  unfold Frozen.has at h
  have := List.any_eq_false.mp h (c, n) hm
  simp at this

theorem Frozen.has_append (a b : Frozen) (c : Nat) : (a ++ b).has c = (a.has c || b.has c) := by
  simp [Frozen.has]

/-- Some function body of the unit reads `x`. -/
def readIn (forms : List Form) (x : Name) : Bool :=
  forms.any fun
    | .deff _ refs => refs.contains (.read x)
    | _ => false

theorem readIn_of_mem {forms : List Form} {g : Name} {refs : List Ref} {x : Name}
    (hf : Form.deff g refs ∈ forms) (hx : Ref.read x ∈ refs) : readIn forms x = true := by
  unfold readIn
  apply List.any_eq_true.mpr
  exact ⟨_, hf, by simpa using hx⟩

/-- The cells frozen by a unit: the cell of every name whose definition the unit propagates into a function
body. -/
def newFz (env : List (Name × Nat)) (forms : List Form) : Frozen :=
  (defNames forms).filterMap fun x =>
    match readIn forms x, constOf forms x, Spec.lookup env x with
    | true, some n, some c => some (c, n)
    | _, _, _ => none

theorem mem_newFz {env : List (Name × Nat)} {forms : List Form} {c : Nat} {n : Int} :
    (c, n) ∈ newFz env forms ↔
      ∃ x, readIn forms x = true ∧ constOf forms x = some n ∧ Spec.lookup env x = some c := by
  unfold newFz
  rw [List.mem_filterMap]
  constructor
  · rintro ⟨x, _, hx⟩
    cases h0 : readIn forms x with
    | false => simp [h0] at hx
    | true =>
      cases h1 : constOf forms x with
      | none => simp [h0, h1] at hx
      | some n' =>
        cases h2 : Spec.lookup env x with
        | none => simp [h0, h1, h2] at hx
        | some c' =>
          simp only [h0, h1, h2, Option.some.injEq, Prod.mk.injEq] at hx
          obtain ⟨e1, e2⟩ := hx
          subst e1; subst e2
          exact ⟨x, h0, h1, h2⟩
  · rintro ⟨x, h0, h1, h2⟩
    exact ⟨x, constOf_mem h1, by simp [h0, h1, h2]⟩

/-- No form of the unit assigns a frozen cell (`set!` directly, or in the body of a procedure it defines). -/
def guardA (fz : Frozen) (env : List (Name × Nat)) (forms : List Form) : Bool :=
  forms.all fun f =>
    match f.assigns with
    | some x =>
      match Spec.lookup env x with
      | some c => !(fz.has c)
      | none => true
    | none => true

theorem guardA_spec {fz : Frozen} {env : List (Name × Nat)} {forms : List Form} (h : guardA fz env forms = true)
    {f : Form} (hf : f ∈ forms) {x : Name} (hx : f.assigns = some x) {c : Nat}
    (hc : Spec.lookup env x = some c) : fz.has c = false := by
  have := List.all_eq_true.mp h f hf
  simp only [hx, hc] at this
  simpa using this

/-! ## The relation between the propagated run and the run as written -/

def PRef (fz : Frozen) (rP rO : FRef) : Prop :=
  rP = rO ∨ ∃ c n, rP = .k n ∧ rO = .g false c ∧ (c, n) ∈ fz

def PRefs (fz : Frozen) : List FRef → List FRef → Prop
  | [], [] => True
  | a :: as, b :: bs => PRef fz a b ∧ PRefs fz as bs
  | _, _ => False

def PVal (fz : Frozen) (vP vO : Spec.Val) : Prop :=
  vP = vO ∨ ∃ rp ro, vP = .fn rp ∧ vO = .fn ro ∧ PRefs fz rp ro

theorem PRefs.mono {fz fz' : Frozen} (h : ∀ p, p ∈ fz → p ∈ fz') : ∀ (a b : List FRef),
    PRefs fz a b → PRefs fz' a b := by
  intro a
  induction a with
  | nil => intro b hb; cases b <;> simpa [PRefs] using hb
  | cons x a ih =>
    intro b hb
    cases b with
    | nil => simp [PRefs] at hb
    | cons y b =>
      obtain ⟨h1, h2⟩ := hb
      refine ⟨?_, ih b h2⟩
      rcases h1 with e | ⟨c, n, e1, e2, hm⟩
      · exact Or.inl e
      · exact Or.inr ⟨c, n, e1, e2, h _ hm⟩

theorem PVal.mono {fz fz' : Frozen} (h : ∀ p, p ∈ fz → p ∈ fz') {vP vO : Spec.Val} (hv : PVal fz vP vO) :
    PVal fz' vP vO := by
  rcases hv with e | ⟨rp, ro, e1, e2, hr⟩
  · exact Or.inl e
  · exact Or.inr ⟨rp, ro, e1, e2, PRefs.mono h rp ro hr⟩

theorem PRefs.refl (fz : Frozen) : ∀ a : List FRef, PRefs fz a a := by
  intro a
  induction a with
  | nil => trivial
  | cons x a ih => exact ⟨Or.inl rfl, ih⟩

theorem PVal.valStr {fz : Frozen} {vP vO : Spec.Val} (h : PVal fz vP vO) (c1 c2 : List Spec.Val) (k1 k2 : Nat) :
    Spec.valStr c1 k1 vP = Spec.valStr c2 k2 vO := by
  rcases h with e | ⟨rp, ro, e1, e2, _⟩
  · subst e; cases vP <;> rfl
  · subst e1; subst e2; rfl

structure PRel (fz fzv : Frozen) (env : List (Name × Nat)) (cP cO : List Spec.Val) : Prop where
  len : cP.length = cO.length
  vals : ∀ (c : Nat) (vP vO : Spec.Val), cP[c]? = some vP → cO[c]? = some vO → PVal fz vP vO
  envlt : ∀ (x : Name) (c : Nat), Spec.lookup env x = some c → c < cO.length
  setters : ∀ (c cx : Nat), cO[c]? = some (.setter cx) → cx < cO.length ∧ fz.has cx = false
  frozen : ∀ (c : Nat) (n : Int), (c, n) ∈ fzv → cO[c]? = some (.int n)

/-- Writing related values into the same cell. -/
theorem PRel.set {fz fzv : Frozen} {env : List (Name × Nat)} {cP cO : List Spec.Val}
    (h : PRel fz fzv env cP cO) {c : Nat} {vP vO : Spec.Val} (hv : PVal fz vP vO)
    (hs : ∀ cx, vO = .setter cx → cx < cO.length ∧ fz.has cx = false)
    (hfz : ∀ n, (c, n) ∈ fzv → vO = .int n) :
    PRel fz fzv env (cP.set c vP) (cO.set c vO) := by
  refine ⟨by simp [h.len], ?_, ?_, ?_, ?_⟩
  · intro d wP wO h1 h2
    rw [List.getElem?_set] at h1 h2
    by_cases e : c = d
    · rw [if_pos e] at h1 h2
      split at h1
      · split at h2
        · cases h1; cases h2; exact hv
        · cases h2
      · cases h1
    · rw [if_neg e] at h1 h2
      exact h.vals d wP wO h1 h2
  · intro x d hx; rw [List.length_set]; exact h.envlt x d hx
  · intro d cx hd
    rw [List.length_set]
    rw [List.getElem?_set] at hd
    by_cases e : c = d
    · rw [if_pos e] at hd
      split at hd
      · cases hd; exact hs cx rfl
      · cases hd
    · rw [if_neg e] at hd; exact h.setters d cx hd
  · intro d n hm
    rw [List.getElem?_set]
    by_cases e : c = d
    · subst e
      have hlt : c < cO.length := (List.getElem?_eq_some_iff.mp (h.frozen c n hm)).1
      rw [if_pos rfl, if_pos hlt, hfz n hm]
    · rw [if_neg e]; exact h.frozen d n hm

/-- Calling a function gives the same list on both sides: a literal equals the content of its frozen cell. -/
theorem pcallFn {fz : Frozen} {env : List (Name × Nat)} {cP cO : List Spec.Val} (h : PRel fz fz env cP cO) :
    ∀ (fuel c : Nat), Spec.callFn cP fuel c = Spec.callFn cO fuel c := by
  intro fuel
  induction fuel with
  | zero => intro c; rfl
  | succ fuel ih =>
    intro c
    have hpart : ∀ rP rO, PRef fz rP rO → sPart cP fuel rP = sPart cO fuel rO := by
      intro rP rO hr
      rcases hr with e | ⟨d, n, e1, e2, hm⟩
      · subst e
        cases rP with
        | k n => rfl
        | g b j =>
          simp only [sPart]
          rw [ih j]
          cases b
          · simp only [Bool.false_eq_true, if_false]
            cases h1 : cP[j]? with
            | none =>
              have : cO[j]? = none := by
                rw [List.getElem?_eq_none_iff] at h1 ⊢; rw [← h.len]; exact h1
              rw [this]; rfl
            | some w =>
              have hj : j < cO.length := by rw [← h.len]; exact (List.getElem?_eq_some_iff.mp h1).1
              obtain ⟨w', hw'⟩ : ∃ w', cO[j]? = some w' := ⟨cO[j], List.getElem?_eq_getElem hj⟩
              rw [hw']
              simp only [Option.bind_some]
              exact (h.vals j w w' h1 hw').valStr _ _ _ _
          · rfl
      · subst e1; subst e2
        simp only [sPart, Bool.false_eq_true, if_false, h.frozen d n hm, Option.bind_some, Spec.valStr]
    have hparts : ∀ rp ro, PRefs fz rp ro → rp.map (sPart cP fuel) = ro.map (sPart cO fuel) := by
      intro rp
      induction rp with
      | nil => intro ro hr; cases ro with
        | nil => rfl
        | cons _ _ => simp [PRefs] at hr
      | cons a rp ihp =>
        intro ro hr
        cases ro with
        | nil => simp [PRefs] at hr
        | cons b ro =>
          obtain ⟨h1, h2⟩ := hr
          simp only [List.map_cons]
          rw [hpart a b h1, ihp ro h2]
    unfold Spec.callFn
    cases h1 : cP[c]? with
    | none =>
      have : cO[c]? = none := by
        rw [List.getElem?_eq_none_iff] at h1 ⊢; rw [← h.len]; exact h1
      rw [this]
    | some vP =>
      have hc : c < cO.length := by rw [← h.len]; exact (List.getElem?_eq_some_iff.mp h1).1
      obtain ⟨vO, hvO⟩ : ∃ vO, cO[c]? = some vO := ⟨cO[c], List.getElem?_eq_getElem hc⟩
      rw [hvO]
      have hfn : ∀ rp ro, PRefs fz rp ro →
          (if (rp.map (sPart cP fuel)).all Option.isSome = true then
            some (showInts ((rp.map (sPart cP fuel)).filterMap id)) else none) =
          (if (ro.map (sPart cO fuel)).all Option.isSome = true then
            some (showInts ((ro.map (sPart cO fuel)).filterMap id)) else none) := by
        intro rp ro hr
        rw [hparts rp ro hr]
      rcases h.vals c vP vO h1 hvO with e | ⟨rp, ro, e1, e2, hr⟩
      · subst e
        cases vP with
        | fn refs => exact hfn refs refs (PRefs.refl fz refs)
        | _ => rfl
      · subst e1; subst e2
        exact hfn rp ro hr

end SteelVerif.C06
