/-
C06 — lemmas for the history refinement, part 2: running the forms of a piece.  Under the abstraction relation
`Rel` every form does the same through slots (M) as through cells (S): same outcome, same output, and the
relation holds again afterwards.
-/
import SteelVerif.C06.LemmasHistory1
namespace SteelVerif.C06

/-! ## Writing a global slot -/

theorem gset_lt (g : List Val) (i : Nat) (v : Val) (h : i < g.length) : gset g i v = g.set i v := by
  unfold gset; rw [if_pos h]

theorem gset_length (g : List Val) (i : Nat) (v : Val) :
    (gset g i v).length = max g.length (i + 1) := by
  unfold gset
  by_cases h : i < g.length
  · rw [if_pos h, List.length_set]; omega
  · rw [if_neg h]; simp; omega

theorem gset_get_self (g : List Val) (i : Nat) (v : Val) : (gset g i v)[i]? = some v := by
  unfold gset
  by_cases h : i < g.length
  · rw [if_pos h, List.getElem?_set]; simp [h]
  · rw [if_neg h]
    have : (g ++ List.replicate (i - g.length) Val.void).length = i := by simp; omega
    rw [List.getElem?_append_right (by omega), this]; simp

theorem gset_get_ne (g : List Val) (i j : Nat) (v : Val) (hne : j ≠ i) :
    (gset g i v)[j]? = if j < g.length then g[j]? else if j < i then some .void else none := by
  unfold gset
  by_cases h : i < g.length
  · rw [if_pos h, List.getElem?_set, if_neg (Ne.symm hne)]
    by_cases hj : j < g.length
    · rw [if_pos hj]
    · rw [if_neg hj, if_neg (by omega)]
      exact List.getElem?_eq_none (by omega)
  · rw [if_neg h]
    by_cases hj : j < g.length
    · rw [if_pos hj, List.append_assoc, List.getElem?_append_left hj]
    · rw [if_neg hj]
      by_cases hji : j < i
      · rw [if_pos hji, List.getElem?_append_left (by simp; omega),
          List.getElem?_append_right (by omega), List.getElem?_replicate, if_pos (by omega)]
      · rw [if_neg hji]
        exact List.getElem?_eq_none (by simp; omega)

/-- **Writing a slot in use against writing its cell.** -/
theorem set_rel {own : Own} {env : List (Name × Nat)} {cells : List Spec.Val} {sym : SymMap}
    {g : List Val} (h : Rel own ⟨env, cells⟩ ⟨sym, g⟩) {i c : Nat} (hi : own i = some c)
    {v : Val} {v' : Spec.Val} (hv : ValRel own v v') :
    Rel own ⟨env, cells.set c v'⟩ ⟨sym, gset g i v⟩ := by
  obtain ⟨hil, hcl⟩ := h.dom i c hi
  refine ⟨h.wf, h.fo, ?_, h.names, h.mapped, h.inj, ?_, h.notfree, ?_, ?_⟩
  · show (gset g i v).length ≤ sym.values.length
    rw [gset_length]
    have := h.gle
    exact Nat.max_le.mpr ⟨this, hil⟩
  · intro j d hj
    show j < sym.values.length ∧ d < (cells.set c v').length
    rw [List.length_set]; exact h.dom j d hj
  · intro j d hj
    show (∃ w w', (gset g i v)[j]? = some w ∧ (cells.set c v')[d]? = some w' ∧ ValRel own w w') ∨
      ((gset g i v).length ≤ j ∧ (cells.set c v')[d]? = some .void)
    by_cases e : j = i
    · subst e
      rw [hi] at hj; cases hj
      left
      exact ⟨v, v', gset_get_self g j v, by rw [List.getElem?_set]; simp [hcl], hv⟩
    · have hdc : c ≠ d := by
        intro e'; subst e'
        exact e (h.inj j i c hj hi)
      have hcd : (cells.set c v')[d]? = cells[d]? := by rw [List.getElem?_set, if_neg hdc]
      rw [hcd, gset_get_ne g i j v e, gset_length]
      rcases h.vals j d hj with ⟨w, w', h1, h2, h3⟩ | ⟨h1, h2⟩
      · left
        have hjl : j < g.length := (List.getElem?_eq_some_iff.mp h1).1
        exact ⟨w, w', by rw [if_pos hjl]; exact h1, h2, h3⟩
      · have h1' : g.length ≤ j := h1
        by_cases hji : j < i
        · left
          exact ⟨.void, .void, by rw [if_neg (by omega), if_pos hji], h2, trivial⟩
        · right
          exact ⟨Nat.max_le.mpr ⟨h1', by omega⟩, h2⟩
  · intro f hf
    show (gset g i v)[f]? = some .void
    have hne : f ≠ i := by intro e; subst e; exact h.notfree f c hi hf
    have hfv : g[f]? = some Val.void := h.freeVoid f hf
    have hfl : f < g.length := (List.getElem?_eq_some_iff.mp hfv).1
    rw [gset_get_ne g i f v hne, if_pos hfl]; exact hfv

/-- Every slot in use has been assigned. -/
def Assigned (sym : SymMap) (g : List Val) : Prop := g.length = sym.values.length

theorem Rel.val_of_assigned {own : Own} {env : List (Name × Nat)} {cells : List Spec.Val} {sym : SymMap}
    {g : List Val} (h : Rel own ⟨env, cells⟩ ⟨sym, g⟩) (hA : Assigned sym g) {i c : Nat}
    (hi : own i = some c) : ∃ v v', g[i]? = some v ∧ cells[c]? = some v' ∧ ValRel own v v' := by
  rcases h.vals i c hi with hv | ⟨h1, _⟩
  · exact hv
  · have h1' : g.length ≤ i := h1
    have := (h.dom i c hi).1
    unfold Assigned at hA
    have : i < sym.values.length := this
    omega

/-- How a name resolves on both sides. -/
theorem Rel.resolve {own : Own} {s : Spec.State} {m : State} (h : Rel own s m) (x : Name) :
    (m.sym.get x = none ∧ Spec.lookup s.env x = none) ∨
    ∃ i c, m.sym.get x = some i ∧ own i = some c ∧ Spec.lookup s.env x = some c := by
  cases hg : m.sym.get x with
  | none => left; exact ⟨rfl, by rw [h.names x, hg]; rfl⟩
  | some i =>
    obtain ⟨c, hc⟩ := h.mapped x i hg
    right; exact ⟨i, c, rfl, hc, by rw [h.names x, hg]; exact hc⟩

/-! ## Calling a function -/

theorem valStr_rel {own : Own} {v : Val} {v' : Spec.Val} (h : ValRel own v v') (cells : List Spec.Val)
    (k : Nat) : Spec.valStr cells k v' = some (valStr v) := by
  cases v <;> cases v' <;> simp only [ValRel] at h <;> simp [Spec.valStr, valStr, h]

/-- One element of the list a function returns: M. -/
def mPart (g : List Val) (fuel : Nat) : FRef → Option String
  | .g isCall slot => if isCall then callFn g fuel slot else (g[slot]?).map valStr
  | .k n => some (toString n)

/-- One element of the list a function returns: S. -/
def sPart (cells : List Spec.Val) (fuel : Nat) : FRef → Option String
  | .g isCall cell => if isCall then Spec.callFn cells fuel cell else (cells[cell]?).bind (Spec.valStr cells fuel)
  | .k n => some (toString n)

theorem callFn_rel {own : Own} {env : List (Name × Nat)} {cells : List Spec.Val} {sym : SymMap}
    {g : List Val} (h : Rel own ⟨env, cells⟩ ⟨sym, g⟩) (hA : Assigned sym g) :
    ∀ (fuel i c : Nat), own i = some c → callFn g fuel i = Spec.callFn cells fuel c := by
  intro fuel
  induction fuel with
  | zero => intro i c _; rfl
  | succ fuel ih =>
    intro i c hi
    obtain ⟨v, v', h1, h2, h3⟩ := h.val_of_assigned hA hi
    unfold callFn Spec.callFn
    rw [h1, h2]
    cases v <;> cases v' <;> simp only [ValRel] at h3 <;> try rfl
    · rename_i refs refs'
      have hparts : ∀ (rs rs' : List FRef), rs.map (absRef own) = rs'.map some →
          rs.map (mPart g fuel) = rs'.map (sPart cells fuel) := by
        intro rs
        induction rs with
        | nil =>
          intro rs' hr
          cases rs' with
          | nil => rfl
          | cons _ _ => simp at hr
        | cons r rs ihr =>
          intro rs' hr
          obtain ⟨r', rs'', e, hr1, hr2⟩ := map_some_cons hr
          subst e
          simp only [List.map_cons, List.cons.injEq]
          refine ⟨?_, ihr rs'' hr2⟩
          cases r with
          | k n =>
            simp only [absRef, Option.some.injEq] at hr1
            subst hr1; rfl
          | g b j =>
            obtain ⟨cj, ho, e⟩ := absRef_g.mp hr1
            subst e
            simp only [mPart, sPart]
            by_cases hc : b = true
            · rw [if_pos hc, if_pos hc]; exact ih j cj ho
            · rw [if_neg hc, if_neg hc]
              obtain ⟨w, w', hw1, hw2, hw3⟩ := h.val_of_assigned hA ho
              rw [hw1, hw2]
              simp [valStr_rel hw3]
      show (if (refs.map (mPart g fuel)).all Option.isSome = true then
          some (showInts ((refs.map (mPart g fuel)).filterMap id)) else none) =
        (if (refs'.map (sPart cells fuel)).all Option.isSome = true then
          some (showInts ((refs'.map (sPart cells fuel)).filterMap id)) else none)
      rw [hparts refs refs' h3]
    · subst h3; rfl

/-! ## One form -/

def Ref.name : Ref → Option Name
  | .read n => some n
  | .call n => some n
  | .const _ => none

def mRef (m : SymMap) : Ref → Option FRef
  | .read n => (m.get n).map (fun c => FRef.g false c)
  | .call n => (m.get n).map (fun c => FRef.g true c)
  | .const k => some (FRef.k k)

def sRef (env : List (Name × Nat)) : Ref → Option FRef
  | .read n => (Spec.lookup env n).map (fun c => FRef.g false c)
  | .call n => (Spec.lookup env n).map (fun c => FRef.g true c)
  | .const k => some (FRef.k k)

theorem runForm_deff (m : SymMap) (g : List Val) (f : Name) (refs : List Ref) :
    runForm m g (.deff f refs) =
      if (refs.map (mRef m)).all Option.isSome then
        (m.get f).map fun c => (gset g c (.fn ((refs.map (mRef m)).filterMap id)), none) else none := rfl

theorem sRunForm_deff (env : List (Name × Nat)) (cells : List Spec.Val) (f : Name) (refs : List Ref) :
    Spec.runForm env cells (.deff f refs) =
      if (refs.map (sRef env)).all Option.isSome then
        (Spec.lookup env f).map fun c => (cells.set c (.fn ((refs.map (sRef env)).filterMap id)), none)
      else none := rfl

theorem uses_deff (f : Name) (refs : List Ref) : (Form.deff f refs).uses = refs.filterMap Ref.name := by
  simp only [Form.uses]
  congr 1

theorem all_map_some {α} (l : List α) : (l.map some).all Option.isSome = true := by
  induction l with
  | nil => rfl
  | cons a l ih => simp [ih]

theorem filterMap_map_some {α} (l : List α) : (l.map some).filterMap id = l := by
  induction l with
  | nil => rfl
  | cons a l ih => simp [ih]

/-- The references of a function body resolve to corresponding slots and cells. -/
theorem refs_rel {own : Own} {s : Spec.State} {m : State} (h : Rel own s m) : ∀ (refs : List Ref),
    (∀ n ∈ refs.filterMap Ref.name, (m.sym.get n).isSome) →
    ∃ rsM rsS : List FRef, refs.map (mRef m.sym) = rsM.map some ∧ refs.map (sRef s.env) = rsS.map some ∧
      rsM.map (absRef own) = rsS.map some := by
  intro refs
  induction refs with
  | nil => intro _; exact ⟨[], [], rfl, rfl, rfl⟩
  | cons r refs ih =>
    intro hall
    have hall' : ∀ n ∈ refs.filterMap Ref.name, (m.sym.get n).isSome := by
      intro n hn
      apply hall n
      rw [List.filterMap_cons]
      cases r.name <;> simp [hn]
    obtain ⟨rsM, rsS, h1, h2, h3⟩ := ih hall'
    cases r with
    | const k =>
      exact ⟨.k k :: rsM, .k k :: rsS, by simp only [List.map_cons, h1, mRef],
        by simp only [List.map_cons, h2, sRef], by simp only [List.map_cons, h3, absRef]⟩
    | read n =>
      have hr := hall n (by simp [List.filterMap_cons, Ref.name])
      rcases h.resolve n with ⟨hn, _⟩ | ⟨i, c, hg, ho, hl⟩
      · rw [hn] at hr; cases hr
      · refine ⟨.g false i :: rsM, .g false c :: rsS, ?_, ?_, ?_⟩
        · simp only [List.map_cons, h1, mRef]; rw [show m.sym.get n = some i from hg]; rfl
        · simp only [List.map_cons, h2, sRef]; rw [show Spec.lookup s.env n = some c from hl]; rfl
        · simp only [List.map_cons, h3, absRef, ho]; rfl
    | call n =>
      have hr := hall n (by simp [List.filterMap_cons, Ref.name])
      rcases h.resolve n with ⟨hn, _⟩ | ⟨i, c, hg, ho, hl⟩
      · rw [hn] at hr; cases hr
      · refine ⟨.g true i :: rsM, .g true c :: rsS, ?_, ?_, ?_⟩
        · simp only [List.map_cons, h1, mRef]; rw [show m.sym.get n = some i from hg]; rfl
        · simp only [List.map_cons, h2, sRef]; rw [show Spec.lookup s.env n = some c from hl]; rfl
        · simp only [List.map_cons, h3, absRef, ho]; rfl

/-- **A defining form** whose names resolve never fails, prints nothing and writes the slot / the cell of the
name it defines. -/
theorem runForm_def_rel {own : Own} {env : List (Name × Nat)} {cells : List Spec.Val} {sym : SymMap}
    {g : List Val} (h : Rel own ⟨env, cells⟩ ⟨sym, g⟩) (f : Form) (x : Name) (hd : f.defines = some x)
    (hx : (sym.get x).isSome) (hu : ∀ n ∈ f.uses, (sym.get n).isSome) :
    ∃ g' cells', runForm sym g f = some (g', none) ∧ Spec.runForm env cells f = some (cells', none) ∧
      Rel own ⟨env, cells'⟩ ⟨sym, g'⟩ ∧ g.length ≤ g'.length ∧ ∃ i, sym.get x = some i ∧ i < g'.length := by
  have hres : ∃ i c, sym.get x = some i ∧ own i = some c ∧ Spec.lookup env x = some c := by
    rcases h.resolve x with ⟨hn, _⟩ | hr
    · rw [show sym.get x = none from hn] at hx; cases hx
    · exact hr
  obtain ⟨i, c, hg, ho, hl⟩ := hres
  have hlen : ∀ v, g.length ≤ (gset g i v).length ∧ i < (gset g i v).length := by
    intro v; rw [gset_length]; omega
  cases f with
  | defc y n =>
    cases hd
    refine ⟨gset g i (.int n), cells.set c (.int n), ?_, ?_, set_rel h ho rfl, (hlen _).1, i, hg, (hlen _).2⟩
    · simp only [runForm, hg, Option.map_some]
    · simp only [Spec.runForm, hl, Option.map_some]
  | defn y k =>
    cases hd
    refine ⟨gset g i (.nat k), cells.set c (.nat k), ?_, ?_, set_rel h ho rfl, (hlen _).1, i, hg, (hlen _).2⟩
    · simp only [runForm, hg, Option.map_some]
    · simp only [Spec.runForm, hl, Option.map_some]
  | defs y z =>
    cases hd
    have hz := hu z (by simp [Form.uses])
    rcases h.resolve z with ⟨hn, _⟩ | ⟨iz, cz, hgz, hoz, hlz⟩
    · rw [show sym.get z = none from hn] at hz; cases hz
    · have hgz' : sym.get z = some iz := hgz
      have hlz' : Spec.lookup env z = some cz := hlz
      refine ⟨gset g i (.setter iz), cells.set c (.setter cz), ?_, ?_, set_rel h ho hoz, (hlen _).1, i, hg,
        (hlen _).2⟩
      · simp only [runForm, hg, hgz']
      · simp only [Spec.runForm, hl, hlz']
  | deff y refs =>
    cases hd
    rw [uses_deff] at hu
    obtain ⟨rsM, rsS, h1, h2, h3⟩ := refs_rel h refs hu
    have h1' : refs.map (mRef sym) = rsM.map some := h1
    have h2' : refs.map (sRef env) = rsS.map some := h2
    refine ⟨gset g i (.fn rsM), cells.set c (.fn rsS), ?_, ?_, set_rel h ho h3, (hlen _).1, i, hg, (hlen _).2⟩
    · rw [runForm_deff, h1', all_map_some, filterMap_map_some, if_pos rfl, hg]; rfl
    · rw [sRunForm_deff, h2', all_map_some, filterMap_map_some, if_pos rfl, hl]; rfl
  | set _ _ => cases hd
  | setn _ _ => cases hd
  | call _ => cases hd
  | calls _ _ => cases hd
  | read _ => cases hd
  | fail => cases hd
  | rfail => cases hd

/-- **A form that reads, calls or assigns**, run when every slot in use has been assigned: both sides fail,
or both succeed with the same output and the relation holds again (the global vector keeps its length). -/
theorem runForm_use_rel {own : Own} {env : List (Name × Nat)} {cells : List Spec.Val} {sym : SymMap}
    {g : List Val} (h : Rel own ⟨env, cells⟩ ⟨sym, g⟩) (hA : Assigned sym g) (f : Form)
    (hd : f.defines = none) :
    (runForm sym g f = none ∧ Spec.runForm env cells f = none) ∨
    ∃ g' cells' o, runForm sym g f = some (g', o) ∧ Spec.runForm env cells f = some (cells', o) ∧
      Rel own ⟨env, cells'⟩ ⟨sym, g'⟩ ∧ g'.length = g.length := by
  have hin : ∀ i c, own i = some c → i < g.length := by
    intro i c hi
    have := (h.dom i c hi).1
    unfold Assigned at hA
    have : i < sym.values.length := this
    omega
  have hsetlen : ∀ i c v, own i = some c → (gset g i v).length = g.length := by
    intro i c v hi; rw [gset_length]; have := hin i c hi; omega
  cases f with
  | defc _ _ => cases hd
  | defn _ _ => cases hd
  | defs _ _ => cases hd
  | deff _ _ => cases hd
  | fail => left; exact ⟨rfl, rfl⟩
  | rfail => left; exact ⟨rfl, rfl⟩
  | set x n =>
    rcases h.resolve x with ⟨hn, hl⟩ | ⟨i, c, hg, ho, hl⟩
    · left
      have hn' : sym.get x = none := hn
      have hl' : Spec.lookup env x = none := hl
      exact ⟨by simp only [runForm, hn', Option.bind_none], by simp only [Spec.runForm, hl', Option.map_none]⟩
    · right
      have hg' : sym.get x = some i := hg
      have hl' : Spec.lookup env x = some c := hl
      refine ⟨gset g i (.int n), cells.set c (.int n), some "0", ?_, ?_, set_rel h ho rfl, hsetlen i c _ ho⟩
      · simp only [runForm, hg', Option.bind_some, if_pos (hin i c ho), gset_lt g i _ (hin i c ho)]
      · simp only [Spec.runForm, hl', Option.map_some]
  | setn x k =>
    rcases h.resolve x with ⟨hn, hl⟩ | ⟨i, c, hg, ho, hl⟩
    · left
      have hn' : sym.get x = none := hn
      have hl' : Spec.lookup env x = none := hl
      exact ⟨by simp only [runForm, hn', Option.bind_none], by simp only [Spec.runForm, hl', Option.map_none]⟩
    · right
      have hg' : sym.get x = some i := hg
      have hl' : Spec.lookup env x = some c := hl
      refine ⟨gset g i (.nat k), cells.set c (.nat k), some "0", ?_, ?_, set_rel h ho rfl, hsetlen i c _ ho⟩
      · simp only [runForm, hg', Option.bind_some, if_pos (hin i c ho), gset_lt g i _ (hin i c ho)]
      · simp only [Spec.runForm, hl', Option.map_some]
  | read x =>
    rcases h.resolve x with ⟨hn, hl⟩ | ⟨i, c, hg, ho, hl⟩
    · left
      have hn' : sym.get x = none := hn
      have hl' : Spec.lookup env x = none := hl
      exact ⟨by simp only [runForm, hn', Option.bind_none], by simp only [Spec.runForm, hl', Option.bind_none]⟩
    · right
      have hg' : sym.get x = some i := hg
      have hl' : Spec.lookup env x = some c := hl
      obtain ⟨v, v', h1, h2, h3⟩ := h.val_of_assigned hA ho
      refine ⟨g, cells, some (valStr v), ?_, ?_, h, rfl⟩
      · simp only [runForm, hg', Option.bind_some, h1, Option.map_some]
      · simp only [Spec.runForm, hl', Option.bind_some, h2, valStr_rel h3, Option.map_some]
  | call x =>
    rcases h.resolve x with ⟨hn, hl⟩ | ⟨i, c, hg, ho, hl⟩
    · left
      have hn' : sym.get x = none := hn
      have hl' : Spec.lookup env x = none := hl
      exact ⟨by simp only [runForm, hn', Option.bind_none], by simp only [Spec.runForm, hl', Option.bind_none]⟩
    · have hg' : sym.get x = some i := hg
      have hl' : Spec.lookup env x = some c := hl
      have hc := callFn_rel h hA 64 i c ho
      cases hr : Spec.callFn cells 64 c with
      | none =>
        left
        rw [hr] at hc
        exact ⟨by simp only [runForm, hg', Option.bind_some, hc, Option.map_none],
          by simp only [Spec.runForm, hl', Option.bind_some, hr, Option.map_none]⟩
      | some r =>
        right
        rw [hr] at hc
        exact ⟨g, cells, some r, by simp only [runForm, hg', Option.bind_some, hc, Option.map_some],
          by simp only [Spec.runForm, hl', Option.bind_some, hr, Option.map_some], h, rfl⟩
  | calls x n =>
    rcases h.resolve x with ⟨hn, hl⟩ | ⟨i, c, hg, ho, hl⟩
    · left
      have hn' : sym.get x = none := hn
      have hl' : Spec.lookup env x = none := hl
      exact ⟨by simp only [runForm, hn', Option.bind_none], by simp only [Spec.runForm, hl', Option.bind_none]⟩
    · have hg' : sym.get x = some i := hg
      have hl' : Spec.lookup env x = some c := hl
      obtain ⟨v, v', h1, h2, h3⟩ := h.val_of_assigned hA ho
      cases v <;> cases v' <;> simp only [ValRel] at h3
      case setter.setter ix cx =>
        right
        refine ⟨gset g ix (.int n), cells.set cx (.int n), some "0", ?_, ?_, set_rel h h3 rfl,
          hsetlen ix cx _ h3⟩
        · simp only [runForm, hg', Option.bind_some, h1, if_pos (hin ix cx h3), gset_lt g ix _ (hin ix cx h3)]
        · simp only [Spec.runForm, hl', Option.bind_some, h2]
      all_goals
        left
        exact ⟨by simp only [runForm, hg', Option.bind_some, h1], by simp only [Spec.runForm, hl', Option.bind_some, h2]⟩

end SteelVerif.C06
