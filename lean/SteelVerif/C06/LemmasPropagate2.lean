/-
C06 — constant propagation against the specification, part 2: environments of a unit, one form, the run of the
forms.
-/
import SteelVerif.C06.LemmasPropagate
namespace SteelVerif.C06

/-! ## The environment of a unit -/

/-- Every binding of the environment points at an existing cell. -/
def EnvLt (s : Spec.State) : Prop := ∀ x c, Spec.lookup s.env x = some c → c < s.cells.length

theorem bind1_lookup (s : Spec.State) (x y : Name) :
    Spec.lookup (Spec.bind1 s x).env y = if y = x then some s.cells.length else Spec.lookup s.env y :=
  lookup_cons s.env x y s.cells.length

theorem bind1_envlt {s : Spec.State} (h : EnvLt s) (x : Name) : EnvLt (Spec.bind1 s x) := by
  intro y c hy
  rw [bind1_lookup] at hy
  show c < (s.cells ++ [Spec.Val.void]).length
  rw [List.length_append, List.length_singleton]
  split at hy
  · cases hy; omega
  · have := h y c hy; omega

theorem bindAll_cons (s : Spec.State) (x : Name) (ns : List Name) :
    Spec.bindAll s (x :: ns) = Spec.bindAll (Spec.bind1 s x) ns := rfl

theorem bindAll_envlt : ∀ (ns : List Name) {s : Spec.State}, EnvLt s → EnvLt (Spec.bindAll s ns) := by
  intro ns
  induction ns with
  | nil => intro s h; exact h
  | cons x ns ih => intro s h; rw [bindAll_cons]; exact ih (bind1_envlt h x)

theorem bindAll_len_le : ∀ (ns : List Name) (s : Spec.State), s.cells.length ≤ (Spec.bindAll s ns).cells.length := by
  intro ns s; rw [bindAll_cells]; simp

theorem bindAll_lookup_notin : ∀ (ns : List Name) (s : Spec.State) (x : Name), x ∉ ns →
    Spec.lookup (Spec.bindAll s ns).env x = Spec.lookup s.env x := by
  intro ns
  induction ns with
  | nil => intro s x _; rfl
  | cons y ns ih =>
    intro s x hx
    have hne : x ≠ y := fun e => hx (by rw [e]; simp)
    rw [bindAll_cons, ih _ x (fun h => hx (List.mem_cons_of_mem _ h)), bind1_lookup, if_neg hne]

theorem bindAll_lookup_mem : ∀ (ns : List Name) (s : Spec.State) (x : Name),
    ((Spec.lookup s.env x).isSome ∨ x ∈ ns) → (Spec.lookup (Spec.bindAll s ns).env x).isSome := by
  intro ns
  induction ns with
  | nil =>
    intro s x h
    rcases h with h | h
    · exact h
    · cases h
  | cons y ns ih =>
    intro s x h
    rw [bindAll_cons]
    apply ih
    rw [bind1_lookup]
    by_cases e : x = y
    · left; rw [if_pos e]; rfl
    · rw [if_neg e]
      rcases h with h | h
      · exact Or.inl h
      · rcases List.mem_cons.mp h with e' | h
        · exact absurd e' e
        · exact Or.inr h

/-- A name the unit defines is bound to a new cell. -/
theorem bindAll_lookup_new : ∀ (ns : List Name) {s : Spec.State}, EnvLt s → ∀ (x : Name) (c : Nat), x ∈ ns →
    Spec.lookup (Spec.bindAll s ns).env x = some c → s.cells.length ≤ c := by
  intro ns
  induction ns with
  | nil => intro s _ x c hx; cases hx
  | cons y ns ih =>
    intro s h x c hx hl
    rw [bindAll_cons] at hl
    by_cases hxn : x ∈ ns
    · have := ih (bind1_envlt h y) x c hxn hl
      have hlen : (Spec.bind1 s y).cells.length = s.cells.length + 1 := by simp [Spec.bind1]
      omega
    · rw [bindAll_lookup_notin ns _ x hxn, bind1_lookup] at hl
      have e : x = y := by
        rcases List.mem_cons.mp hx with e | h'
        · exact e
        · exact absurd h' hxn
      rw [if_pos e] at hl; cases hl
      exact Nat.le_refl _

/-- Two names bound to the same new cell are the same name. -/
theorem bindAll_inj : ∀ (ns : List Name) {s : Spec.State}, EnvLt s → ∀ (a b : Name) (c : Nat),
    Spec.lookup (Spec.bindAll s ns).env a = some c → Spec.lookup (Spec.bindAll s ns).env b = some c →
    s.cells.length ≤ c → a = b := by
  intro ns
  induction ns with
  | nil =>
    intro s h a b c ha _ hc
    have := h a c ha
    omega
  | cons y ns ih =>
    intro s h a b c ha hb hc
    rw [bindAll_cons] at ha hb
    have hlen : (Spec.bind1 s y).cells.length = s.cells.length + 1 := by simp [Spec.bind1]
    by_cases hc1 : s.cells.length + 1 ≤ c
    · exact ih (bind1_envlt h y) a b c ha hb (by omega)
    · have hceq : c = s.cells.length := by omega
      have key : ∀ z, Spec.lookup (Spec.bindAll (Spec.bind1 s y) ns).env z = some c → z = y := by
        intro z hz
        by_cases hzn : z ∈ ns
        · have := bindAll_lookup_new ns (bind1_envlt h y) z c hzn hz
          omega
        · rw [bindAll_lookup_notin ns _ z hzn, bind1_lookup] at hz
          by_cases e : z = y
          · exact e
          · rw [if_neg e] at hz
            have := h z c hz
            omega
      rw [key a ha, key b hb]

theorem bindAll_env_congr : ∀ (ns : List Name) (s s' : Spec.State), s.env = s'.env →
    s.cells.length = s'.cells.length → (Spec.bindAll s ns).env = (Spec.bindAll s' ns).env := by
  intro ns
  induction ns with
  | nil => intro s s' h _; exact h
  | cons x ns ih =>
    intro s s' h1 h2
    rw [bindAll_cons, bindAll_cons]
    apply ih
    · simp [Spec.bind1, h1, h2]
    · simp [Spec.bind1, h2]

/-! ## References -/

theorem srefs_some (env : List (Name × Nat)) : ∀ (refs : List Ref),
    (∀ n ∈ refs.filterMap Ref.name, (Spec.lookup env n).isSome) →
    ∃ rsO : List FRef, refs.map (sRef env) = rsO.map some := by
  intro refs
  induction refs with
  | nil => intro _; exact ⟨[], rfl⟩
  | cons r refs ih =>
    intro hall
    have hall' : ∀ n ∈ refs.filterMap Ref.name, (Spec.lookup env n).isSome := by
      intro n hn
      apply hall n
      rw [List.filterMap_cons]
      cases r.name <;> simp [hn]
    obtain ⟨rsO, h⟩ := ih hall'
    cases r with
    | const k => exact ⟨.k k :: rsO, by simp only [List.map_cons, h, sRef]⟩
    | read n =>
      have hr := hall n (by simp [List.filterMap_cons, Ref.name])
      obtain ⟨c, hc⟩ := Option.isSome_iff_exists.mp hr
      exact ⟨.g false c :: rsO, by simp only [List.map_cons, h, sRef, hc, Option.map_some]⟩
    | call n =>
      have hr := hall n (by simp [List.filterMap_cons, Ref.name])
      obtain ⟨c, hc⟩ := Option.isSome_iff_exists.mp hr
      exact ⟨.g true c :: rsO, by simp only [List.map_cons, h, sRef, hc, Option.map_some]⟩

/-- The body of a propagated function against the body as written. -/
theorem prefs_of_refs {fz : Frozen} {env : List (Name × Nat)} {forms : List Form} :
    ∀ (refs : List Ref) (rsO : List FRef),
    (∀ x n c, Ref.read x ∈ refs → constOf forms x = some n → Spec.lookup env x = some c → (c, n) ∈ fz) →
    refs.map (sRef env) = rsO.map some →
    ∃ rsP : List FRef, (refs.map (propagateRef forms)).map (sRef env) = rsP.map some ∧ PRefs fz rsP rsO := by
  intro refs
  induction refs with
  | nil =>
    intro rsO _ h
    cases rsO with
    | nil => exact ⟨[], rfl, trivial⟩
    | cons _ _ => simp at h
  | cons r refs ih =>
    intro rsO hfz h
    obtain ⟨rO, rsO', e, h1, h2⟩ := map_some_cons h
    subst e
    obtain ⟨rsP, h3, h4⟩ := ih rsO' (fun x n c hx => hfz x n c (List.mem_cons_of_mem _ hx)) h2
    rcases propagateRef_cases forms r with e | ⟨x, n, e1, e2, e3⟩
    · exact ⟨rO :: rsP, by simp only [List.map_cons, e, h1, h3], Or.inl rfl, h4⟩
    · subst e1
      refine ⟨.k n :: rsP, by simp only [List.map_cons, e3, sRef, h3], ?_, h4⟩
      simp only [sRef] at h1
      cases hl : Spec.lookup env x with
      | none => rw [hl] at h1; cases h1
      | some c =>
        rw [hl] at h1
        simp only [Option.map_some, Option.some.injEq] at h1
        exact Or.inr ⟨c, n, rfl, h1.symm, hfz x n c (List.mem_cons_self ..) e2 hl⟩

/-! ## One form -/

/-- A defining form: the propagated form and the form as written both succeed, print nothing and write the cell of
the name they define with related values. -/
theorem prun_def {fz fzv : Frozen} {env : List (Name × Nat)} {cP cO : List Spec.Val} {forms : List Form}
    (h : PRel fz fzv env cP cO) (f : Form) (y : Name) (hd : f.defines = some y)
    (hy : (Spec.lookup env y).isSome) (hu : ∀ n ∈ f.uses, (Spec.lookup env n).isSome)
    (hfz : ∀ g refs, f = .deff g refs → ∀ x n c, Ref.read x ∈ refs → constOf forms x = some n →
      Spec.lookup env x = some c → (c, n) ∈ fz)
    (hg : ∀ x c, f.assigns = some x → Spec.lookup env x = some c → fz.has c = false)
    (hnew : ∀ c, Spec.lookup env y = some c → ∀ n, (c, n) ∉ fzv) :
    ∃ c cP' vO, Spec.lookup env y = some c ∧
      Spec.runForm env cP (pform forms f) = some (cP', none) ∧
      Spec.runForm env cO f = some (cO.set c vO, none) ∧
      PRel fz fzv env cP' (cO.set c vO) ∧ (∀ n, f = .defc y n → vO = .int n) := by
  obtain ⟨c, hc⟩ := Option.isSome_iff_exists.mp hy
  have hfzv : ∀ (vO : Spec.Val) n, (c, n) ∈ fzv → vO = .int n := fun _ n hm => absurd hm (hnew c hc n)
  cases f with
  | defc z k =>
    cases hd
    refine ⟨c, cP.set c (.int k), .int k, hc, ?_, ?_, h.set (Or.inl rfl) (fun cx e => by cases e) (hfzv _), ?_⟩
    · simp only [pform, Spec.runForm, hc, Option.map_some]
    · simp only [Spec.runForm, hc, Option.map_some]
    · intro n e; cases e; rfl
  | defn z k =>
    cases hd
    refine ⟨c, cP.set c (.nat k), .nat k, hc, ?_, ?_, h.set (Or.inl rfl) (fun cx e => by cases e) (hfzv _), ?_⟩
    · simp only [pform, Spec.runForm, hc, Option.map_some]
    · simp only [Spec.runForm, hc, Option.map_some]
    · intro n e; cases e
  | defs z w =>
    cases hd
    obtain ⟨cw, hcw⟩ := Option.isSome_iff_exists.mp (hu w (by simp [Form.uses]))
    refine ⟨c, cP.set c (.setter cw), .setter cw, hc, ?_, ?_,
      h.set (Or.inl rfl) (fun cx e => ?_) (hfzv _), ?_⟩
    · simp only [pform, Spec.runForm, hc, hcw]
    · simp only [Spec.runForm, hc, hcw]
    · cases e
      exact ⟨h.envlt w cw hcw, hg w cw rfl hcw⟩
    · intro n e; cases e
  | deff z refs =>
    cases hd
    rw [uses_deff] at hu
    obtain ⟨rsO, hO⟩ := srefs_some env refs hu
    obtain ⟨rsP, hP, hrel⟩ := prefs_of_refs (forms := forms) refs rsO (hfz y refs rfl) hO
    refine ⟨c, cP.set c (.fn rsP), .fn rsO, hc, ?_, ?_,
      h.set (Or.inr ⟨rsP, rsO, rfl, rfl, hrel⟩) (fun cx e => by cases e) (hfzv _), ?_⟩
    · show Spec.runForm env cP (.deff y (refs.map (propagateRef forms))) = _
      rw [sRunForm_deff, hP, all_map_some, filterMap_map_some, if_pos rfl, hc]; rfl
    · rw [sRunForm_deff, hO, all_map_some, filterMap_map_some, if_pos rfl, hc]; rfl
    · intro n e; cases e
  | set _ _ => cases hd
  | setn _ _ => cases hd
  | call _ => cases hd
  | calls _ _ => cases hd
  | read _ => cases hd
  | fail => cases hd
  | rfail => cases hd

theorem PRel.getElem? {fz fzv : Frozen} {env : List (Name × Nat)} {cP cO : List Spec.Val}
    (h : PRel fz fzv env cP cO) (c : Nat) :
    (cP[c]? = none ∧ cO[c]? = none) ∨ ∃ vP vO, cP[c]? = some vP ∧ cO[c]? = some vO ∧ PVal fz vP vO := by
  by_cases hc : c < cO.length
  · have hc' : c < cP.length := by rw [h.len]; exact hc
    right
    exact ⟨cP[c], cO[c], List.getElem?_eq_getElem hc', List.getElem?_eq_getElem hc,
      h.vals c _ _ (List.getElem?_eq_getElem hc') (List.getElem?_eq_getElem hc)⟩
  · left
    have hc' : ¬ c < cP.length := by rw [h.len]; exact hc
    exact ⟨List.getElem?_eq_none (by omega), List.getElem?_eq_none (by omega)⟩

/-- A form that reads, calls or assigns (it is not changed by the propagation): both sides fail, or both succeed
with the same output and stay related — inside the guard (no assignment to a frozen cell). -/
theorem prun_use {fz : Frozen} {env : List (Name × Nat)} {cP cO : List Spec.Val}
    (h : PRel fz fz env cP cO) (f : Form) (hd : f.defines = none)
    (hg : ∀ x c, f.assigns = some x → Spec.lookup env x = some c → fz.has c = false) :
    (Spec.runForm env cP f = none ∧ Spec.runForm env cO f = none) ∨
    ∃ cP' cO' o, Spec.runForm env cP f = some (cP', o) ∧ Spec.runForm env cO f = some (cO', o) ∧
      PRel fz fz env cP' cO' := by
  cases f with
  | defc _ _ => cases hd
  | defn _ _ => cases hd
  | defs _ _ => cases hd
  | deff _ _ => cases hd
  | fail => left; exact ⟨rfl, rfl⟩
  | rfail => left; exact ⟨rfl, rfl⟩
  | set x n =>
    cases hl : Spec.lookup env x with
    | none => left; exact ⟨by simp only [Spec.runForm, hl, Option.map_none], by simp only [Spec.runForm, hl, Option.map_none]⟩
    | some c =>
      right
      have hfc := hg x c rfl hl
      exact ⟨cP.set c (.int n), cO.set c (.int n), some "0", by simp only [Spec.runForm, hl, Option.map_some],
        by simp only [Spec.runForm, hl, Option.map_some],
        h.set (Or.inl rfl) (fun cx e => by cases e) (fun n' hm => absurd hm (Frozen.has_false hfc n'))⟩
  | setn x k =>
    cases hl : Spec.lookup env x with
    | none => left; exact ⟨by simp only [Spec.runForm, hl, Option.map_none], by simp only [Spec.runForm, hl, Option.map_none]⟩
    | some c =>
      right
      have hfc := hg x c rfl hl
      exact ⟨cP.set c (.nat k), cO.set c (.nat k), some "0", by simp only [Spec.runForm, hl, Option.map_some],
        by simp only [Spec.runForm, hl, Option.map_some],
        h.set (Or.inl rfl) (fun cx e => by cases e) (fun n' hm => absurd hm (Frozen.has_false hfc n'))⟩
  | read x =>
    cases hl : Spec.lookup env x with
    | none => left; exact ⟨by simp only [Spec.runForm, hl, Option.bind_none], by simp only [Spec.runForm, hl, Option.bind_none]⟩
    | some c =>
      rcases h.getElem? c with ⟨h1, h2⟩ | ⟨vP, vO, h1, h2, h3⟩
      · left
        exact ⟨by simp only [Spec.runForm, hl, Option.bind_some, h1, Option.bind_none, Option.map_none],
          by simp only [Spec.runForm, hl, Option.bind_some, h2, Option.bind_none, Option.map_none]⟩
      · have hv : Spec.valStr cP 1 vP = Spec.valStr cO 1 vO := h3.valStr _ _ _ _
        cases hs : Spec.valStr cO 1 vO with
        | none =>
          left
          rw [hs] at hv
          exact ⟨by simp only [Spec.runForm, hl, Option.bind_some, h1, hv, Option.map_none],
            by simp only [Spec.runForm, hl, Option.bind_some, h2, hs, Option.map_none]⟩
        | some r =>
          right
          rw [hs] at hv
          exact ⟨cP, cO, some r, by simp only [Spec.runForm, hl, Option.bind_some, h1, hv, Option.map_some],
            by simp only [Spec.runForm, hl, Option.bind_some, h2, hs, Option.map_some], h⟩
  | call x =>
    cases hl : Spec.lookup env x with
    | none => left; exact ⟨by simp only [Spec.runForm, hl, Option.bind_none], by simp only [Spec.runForm, hl, Option.bind_none]⟩
    | some c =>
      have hc := pcallFn h 64 c
      cases hr : Spec.callFn cO 64 c with
      | none =>
        left
        rw [hr] at hc
        exact ⟨by simp only [Spec.runForm, hl, Option.bind_some, hc, Option.map_none],
          by simp only [Spec.runForm, hl, Option.bind_some, hr, Option.map_none]⟩
      | some r =>
        right
        rw [hr] at hc
        exact ⟨cP, cO, some r, by simp only [Spec.runForm, hl, Option.bind_some, hc, Option.map_some],
          by simp only [Spec.runForm, hl, Option.bind_some, hr, Option.map_some], h⟩
  | calls x n =>
    cases hl : Spec.lookup env x with
    | none => left; exact ⟨by simp only [Spec.runForm, hl, Option.bind_none], by simp only [Spec.runForm, hl, Option.bind_none]⟩
    | some c =>
      rcases h.getElem? c with ⟨h1, h2⟩ | ⟨vP, vO, h1, h2, h3⟩
      · left
        exact ⟨by simp only [Spec.runForm, hl, Option.bind_some, h1], by simp only [Spec.runForm, hl, Option.bind_some, h2]⟩
      · rcases h3 with e | ⟨rp, ro, e1, e2, _⟩
        · subst e
          cases vP with
          | setter cx =>
            right
            obtain ⟨_, hfc⟩ := h.setters c cx h2
            exact ⟨cP.set cx (.int n), cO.set cx (.int n), some "0",
              by simp only [Spec.runForm, hl, Option.bind_some, h1],
              by simp only [Spec.runForm, hl, Option.bind_some, h2],
              h.set (Or.inl rfl) (fun cx' e => by cases e) (fun n' hm => absurd hm (Frozen.has_false hfc n'))⟩
          | void => left; exact ⟨by simp only [Spec.runForm, hl, Option.bind_some, h1], by simp only [Spec.runForm, hl, Option.bind_some, h2]⟩
          | int _ => left; exact ⟨by simp only [Spec.runForm, hl, Option.bind_some, h1], by simp only [Spec.runForm, hl, Option.bind_some, h2]⟩
          | fn _ => left; exact ⟨by simp only [Spec.runForm, hl, Option.bind_some, h1], by simp only [Spec.runForm, hl, Option.bind_some, h2]⟩
          | nat _ => left; exact ⟨by simp only [Spec.runForm, hl, Option.bind_some, h1], by simp only [Spec.runForm, hl, Option.bind_some, h2]⟩
        · subst e1; subst e2
          left
          exact ⟨by simp only [Spec.runForm, hl, Option.bind_some, h1], by simp only [Spec.runForm, hl, Option.bind_some, h2]⟩

end SteelVerif.C06
