/-
C06 — "a failed evaluation leaves earlier definitions intact": `SymbolMap::roll_back` undoes the
`SymbolMap::add`s of a failed build.

A failed build adds the names `ns` (new names, names already bound, duplicates) with `add`, then calls
`roll_back(index)` with `index` = the number of slots before the build.

* `RollbackRestores`            – the full statement (for every well-formed symbol map);
* `rollback_fails_after_slot_reuse` – it is FALSE: when the free list is non-empty `add` reuses a slot
  below `index`, which `roll_back` cannot undo (open finding K06c);
* `rollback_restores_partial`   – it holds whenever the free list is empty (the exact negation of the
  situation of K06c);
* `wf_empty`, `add_wf`, `add_wf_general`, `rollBack_wf`, `reachable_wf` – the invariant `SymMap.WF` holds
  in every state built from the empty map by `add` / `roll_back`, so the theorem applies to all of them.
-/
import SteelVerif.C06.LemmasRollback
namespace SteelVerif.C06

/-- The symbol map after a failed build that defined `ns`. -/
abbrev failedBuild (m : SymMap) (ns : List Name) : SymMap :=
  (ns.foldl (fun acc n => (acc.add n).1) m).rollBack m.values.length

/-- What "the failed build left `m` intact" means. -/
def Restored (m m' : SymMap) : Prop :=
  m'.values = m.values ∧ (∀ n, m'.get n = m.get n) ∧ m'.fl.shadowed = m.fl.shadowed ∧
    m'.fl.free = m.fl.free

/-- **The full statement**: from every well-formed symbol map, a failed build changes nothing. -/
def RollbackRestores : Prop :=
  ∀ (m : SymMap) (ns : List Name), m.WF → m.FreeOK →
    let m' := (ns.foldl (fun acc n => (acc.add n).1) m).rollBack m.values.length
    m'.values = m.values ∧ (∀ n, m'.get n = m.get n) ∧ m'.fl.shadowed = m.fl.shadowed ∧
      m'.fl.free = m.fl.free

/-! ## Relating the state in the middle of the failed build / of the roll-back to the original map -/

/-- `map` and `T` (the queued slots *beyond* those of `m`) in the middle of a failed build over `m`:
every name either resolves as in `m` or is *pending* (resolves to a slot at or past the checkpoint, and
is still to be rolled back); `T` lists, once each, the slots that the pending names had in `m`. -/
structure Pend (m : SymMap) (rest : List Name) (map : List (Name × Nat)) (T : List Nat) : Prop where
  get : ∀ n, lk map n = m.get n ∨ ∃ j, lk map n = some j ∧ m.values.length ≤ j ∧ n ∈ rest
  t_nodup : T.Nodup
  t_old : ∀ t ∈ T, ∃ n j, m.get n = some t ∧ lk map n = some j ∧ m.values.length ≤ j
  t_all : ∀ n p j, m.get n = some p → lk map n = some j → m.values.length ≤ j → p ∈ T

/-- Rolling back `v` (it resolves as in `m` again, its old slot leaves the queue). -/
theorem pend_roll (m : SymMap) (hw : m.WF) (rest : List Name) (v : Name)
    (map map' : List (Name × Nat)) (T T' : List Nat) (h : Pend m (rest ++ [v]) map T)
    (hlk : ∀ n, lk map' n = if n = v then m.get v else lk map n)
    (hnd : T'.Nodup) (hT : ∀ t, t ∈ T' ↔ t ∈ T ∧ m.get v ≠ some t) : Pend m rest map' T' := by
  refine ⟨?_, hnd, ?_, ?_⟩
  · intro n
    by_cases e : n = v
    · left; rw [hlk, if_pos e, e]
    · rcases h.get n with h1 | ⟨j, hj, hL, hm⟩
      · left; rw [hlk, if_neg e]; exact h1
      · right
        refine ⟨j, by rw [hlk, if_neg e]; exact hj, hL, ?_⟩
        rcases List.mem_append.mp hm with hm | hm
        · exact hm
        · exact absurd (by simpa using hm) e
  · intro t ht
    obtain ⟨ht, hne⟩ := (hT t).mp ht
    obtain ⟨n, j, hn, hj, hL⟩ := h.t_old t ht
    have e : n ≠ v := by intro e; subst e; exact hne hn
    exact ⟨n, j, hn, by rw [hlk, if_neg e]; exact hj, hL⟩
  · intro n p j hn hj hL
    by_cases e : n = v
    · subst e
      rw [hlk, if_pos rfl] at hj
      have : j < m.values.length := hw.slot_lt (n := n) hj
      omega
    · rw [hlk, if_neg e] at hj
      exact (hT p).mpr ⟨h.t_all n p j hn hj hL, fun hv => e (hw.inj (n := n) (n' := v) hn hv)⟩

/-- One step of `roll_back`'s loop, seen from `m`. -/
theorem pend_rollStep (m : SymMap) (hw : m.WF) (rest : List Name) (v : Name)
    (map : List (Name × Nat)) (T : List Nat) (h : Pend m (rest ++ [v]) map T) :
    ∃ map' T', rollStep m.values m.values.length (map, m.fl.shadowed ++ T) v
        = (map', m.fl.shadowed ++ T') ∧ Pend m rest map' T' := by
  -- the name of a slot queued in `m` is bound in `m`; so is the name of a slot of `T`
  have hname : ∀ s ∈ m.fl.shadowed ++ T, ∃ x, m.values[s]? = some x ∧ ∃ j, m.get x = some j := by
    intro s hs
    rcases List.mem_append.mp hs with hs | hs
    · obtain ⟨x, j, hx, hj, _⟩ := hw.shadowed_bound s hs
      exact ⟨x, hx, j, hj⟩
    · obtain ⟨x, j, hx, _, _⟩ := h.t_old s hs
      exact ⟨x, hw.slot_name x s hx, s, hx⟩
  cases hv : m.get v with
  | none =>
    have hno : ∀ s ∈ m.fl.shadowed ++ T, m.values[s]? ≠ some v := by
      intro s hs hsv
      obtain ⟨x, hx, j, hj⟩ := hname s hs
      rw [hsv] at hx
      cases hx
      rw [hv] at hj; cases hj
    have hns : ∀ slot, lk map v = some slot → m.values.length ≤ slot := by
      intro slot hs
      rcases h.get v with h1 | ⟨j, hj, hL, _⟩
      · rw [h1, hv] at hs; cases hs
      · rw [hj] at hs; cases hs; exact hL
    obtain ⟨map', he, hlk⟩ := rollStep_drop m.values m.values.length map _ v hns hno
    refine ⟨map', T, he, pend_roll m hw rest v map map' T T h ?_ h.t_nodup ?_⟩
    · intro n; rw [hlk, hv]
    · intro t; simp [hv]
  | some p =>
    have hp_lt : p < m.values.length := hw.slot_lt (n := v) hv
    rcases h.get v with h1 | ⟨j, hj, hL, _⟩
    · -- already in force below the checkpoint: skipped
      rw [hv] at h1
      refine ⟨map, T, rollStep_skip _ _ _ _ _ p h1 hp_lt,
        pend_roll m hw rest v map map T T h ?_ h.t_nodup ?_⟩
      · intro n
        split
        · next e => rw [e, h1, hv]
        · rfl
      · intro t
        refine ⟨fun ht => ⟨ht, ?_⟩, fun ht => ht.1⟩
        intro hvt
        obtain ⟨n, j, hn, hj, hL⟩ := h.t_old t ht
        have : n = v := hw.inj (n := n) (n' := v) hn hvt
        subst this
        rw [h1] at hj; cases hj
        omega
    · -- pending: its slot in `m` is the last queued slot named `v`
      have hpT : p ∈ T := h.t_all v p j hv hj hL
      obtain ⟨T1, T2, hsplit⟩ := List.append_of_mem hpT
      subst hsplit
      have hnd := h.t_nodup
      rw [List.nodup_append] at hnd
      obtain ⟨hnd1, hnd2, hdis⟩ := hnd
      have hp1 : p ∉ T1 := fun hp => hdis p hp p (by simp) rfl
      have hp2 : p ∉ T2 := (List.nodup_cons.mp hnd2).1
      have hB : ∀ b ∈ T2, m.values[b]? ≠ some v := by
        intro b hb hbv
        obtain ⟨x, j', hx, _, _⟩ := h.t_old b (by simp [hb])
        have h1 := hw.slot_name x b hx
        rw [hbv] at h1
        cases h1
        rw [hv] at hx; cases hx
        exact hp2 hb
      have hns : ∀ slot, lk map v = some slot → m.values.length ≤ slot := by
        intro slot hs; rw [hj] at hs; cases hs; exact hL
      obtain ⟨map', he, hlk⟩ := rollStep_restore m.values m.values.length map
        (m.fl.shadowed ++ T1) T2 p v hns (hw.slot_name v p hv) hB
      rw [List.append_assoc] at he
      refine ⟨map', T1 ++ T2, by rw [he, List.append_assoc], pend_roll m hw rest v map map' _ _ h ?_ ?_ ?_⟩
      · intro n; rw [hlk, hv]
      · exact List.nodup_append.mpr ⟨hnd1, (List.nodup_cons.mp hnd2).2,
          fun a ha b hb => hdis a ha b (by simp [hb])⟩
      · intro t
        rw [hv]
        constructor
        · intro ht
          rcases List.mem_append.mp ht with ht | ht
          · exact ⟨by simp [ht], fun e => hp1 (Option.some.inj e ▸ ht)⟩
          · exact ⟨by simp [ht], fun e => hp2 (Option.some.inj e ▸ ht)⟩
        · rintro ⟨ht, hne⟩
          rcases List.mem_append.mp ht with ht | ht
          · exact List.mem_append.mpr (Or.inl ht)
          · rcases List.mem_cons.mp ht with e | ht
            · exact absurd (by rw [e]) hne
            · exact List.mem_append.mpr (Or.inr ht)

/-- The whole loop of `roll_back`, seen from `m`. -/
theorem pend_fold (m : SymMap) (hw : m.WF) : ∀ (r : List Name) (map : List (Name × Nat)) (T : List Nat),
    Pend m r.reverse map T →
    ∃ map' T', r.foldl (rollStep m.values m.values.length) (map, m.fl.shadowed ++ T)
        = (map', m.fl.shadowed ++ T') ∧ Pend m [] map' T' := by
  intro r
  induction r with
  | nil => intro map T h; exact ⟨map, T, rfl, h⟩
  | cons v r ih =>
    intro map T h
    rw [List.reverse_cons] at h
    obtain ⟨map1, T1, he, h1⟩ := pend_rollStep m hw r.reverse v map T h
    rw [List.foldl_cons, he]
    exact ih map1 T1 h1

/-- Nothing is pending any more: the map resolves as `m` does and the queue is `m`'s. -/
theorem pend_nil (m : SymMap) (hw : m.WF) (map : List (Name × Nat)) (T : List Nat)
    (h : Pend m [] map T) : (∀ n, lk map n = m.get n) ∧ T = [] := by
  have hget : ∀ n, lk map n = m.get n := by
    intro n
    rcases h.get n with h1 | ⟨_, _, _, hm⟩
    · exact h1
    · cases hm
  refine ⟨hget, List.eq_nil_iff_forall_not_mem.mpr ?_⟩
  intro t ht
  obtain ⟨n, j, _, hj, hL⟩ := h.t_old t ht
  rw [hget] at hj
  have : j < m.values.length := hw.slot_lt (n := n) hj
  omega

/-- Defining `v` in the middle of the build (it takes the new slot `idx`). -/
theorem pend_add (m : SymMap) (done : List Name) (v : Name) (map map' : List (Name × Nat))
    (T T' : List Nat) (idx : Nat) (h : Pend m done map T) (hidx : m.values.length ≤ idx)
    (hlk : ∀ n, lk map' n = if n = v then some idx else lk map n)
    (hnd : T'.Nodup) (hT : ∀ t, t ∈ T' ↔ t ∈ T ∨ m.get v = some t) :
    Pend m (done ++ [v]) map' T' := by
  refine ⟨?_, hnd, ?_, ?_⟩
  · intro n
    by_cases e : n = v
    · right; exact ⟨idx, by rw [hlk, if_pos e], hidx, by simp [e]⟩
    · rcases h.get n with h1 | ⟨j, hj, hL, hm⟩
      · left; rw [hlk, if_neg e]; exact h1
      · right; exact ⟨j, by rw [hlk, if_neg e]; exact hj, hL, List.mem_append.mpr (Or.inl hm)⟩
  · intro t ht
    rcases (hT t).mp ht with ht | hvt
    · obtain ⟨n, j, hn, hj, hL⟩ := h.t_old t ht
      by_cases e : n = v
      · exact ⟨n, idx, hn, by rw [hlk, if_pos e], hidx⟩
      · exact ⟨n, j, hn, by rw [hlk, if_neg e]; exact hj, hL⟩
    · exact ⟨v, idx, hvt, by rw [hlk, if_pos rfl], hidx⟩
  · intro n p j hn hj hL
    by_cases e : n = v
    · subst e; exact (hT p).mpr (Or.inr hn)
    · rw [hlk, if_neg e] at hj
      exact (hT p).mpr (Or.inl (h.t_all n p j hn hj hL))

/-- The state in the middle of the failed build, after defining `done`. -/
structure AddInv (m : SymMap) (done : List Name) (m1 : SymMap) : Prop where
  values : m1.values = m.values ++ done
  free : m1.fl.free = []
  thr : m1.fl.threshold = m.fl.threshold
  mult : m1.fl.multiplier = m.fl.multiplier
  epoch : m1.fl.epoch = m.fl.epoch
  sh : ∃ U, m1.fl.shadowed = m.fl.shadowed ++ U ∧
    Pend m done m1.map (U.filter (· < m.values.length))

theorem addInv_step (m : SymMap) (hw : m.WF) (done : List Name) (m1 : SymMap) (v : Name)
    (h : AddInv m done m1) : AddInv m (done ++ [v]) (m1.add v).1 := by
  obtain ⟨hthr, hmult, hep⟩ := add_fl_rest m1 v
  refine ⟨?_, add_free_fresh m1 v h.free, hthr.trans h.thr, hmult.trans h.mult, hep.trans h.epoch, ?_⟩
  · rw [add_values_fresh m1 v h.free, h.values, List.append_assoc]
  · obtain ⟨U, hU, hP⟩ := h.sh
    have hidx : m.values.length ≤ m1.values.length := by rw [h.values]; simp
    have hlk : ∀ n, lk (m1.add v).1.map n = if n = v then some m1.values.length else lk m1.map n := by
      intro n; rw [add_map_fresh m1 v h.free]; exact lk_mapInsert ..
    rw [shadowed_add]
    cases hq : m1.get v with
    | none =>
      have hq' : lk m1.map v = none := hq
      refine ⟨U, hU, pend_add m done v _ _ _ _ _ hP hidx hlk hP.t_nodup ?_⟩
      intro t
      refine ⟨Or.inl, fun ht => ht.elim id ?_⟩
      intro hvt
      rcases hP.get v with h1 | ⟨j, hj, _, _⟩
      · rw [hq', hvt] at h1; cases h1
      · rw [hq'] at hj; cases hj
    | some q =>
      have hq' : lk m1.map v = some q := hq
      refine ⟨U ++ [q], by simp only [hU, List.append_assoc], ?_⟩
      rw [List.filter_append]
      by_cases hql : q < m.values.length
      · have hf : [q].filter (· < m.values.length) = [q] := by simp [hql]
        rw [hf]
        have hmq : m.get v = some q := by
          rcases hP.get v with h1 | ⟨j, hj, hL, _⟩
          · rw [← h1]; exact hq'
          · rw [hq'] at hj; cases hj; omega
        have hqT : q ∉ U.filter (· < m.values.length) := by
          intro hqT
          obtain ⟨n, j, hn, hj, hL⟩ := hP.t_old q hqT
          have : n = v := hw.inj (n := n) (n' := v) hn hmq
          subst this
          rw [hq'] at hj; cases hj; omega
        refine pend_add m done v _ _ _ _ _ hP hidx hlk ?_ ?_
        · refine List.nodup_append.mpr ⟨hP.t_nodup, by simp, ?_⟩
          intro a ha b hb e
          have : b = q := by simpa using hb
          subst this; subst e
          exact hqT ha
        · intro t
          rw [hmq, List.mem_append]
          constructor
          · rintro (ht | ht)
            · exact Or.inl ht
            · right; rw [show t = q by simpa using ht]
          · rintro (ht | ht)
            · exact Or.inl ht
            · right; cases ht; simp
      · have hf : [q].filter (· < m.values.length) = [] := by simp [hql]
        rw [hf, List.append_nil]
        refine pend_add m done v _ _ _ _ _ hP hidx hlk hP.t_nodup ?_
        intro t
        refine ⟨Or.inl, fun ht => ht.elim id ?_⟩
        intro hvt
        rcases hP.get v with h1 | ⟨j, hj, hL, _⟩
        · rw [hq', hvt] at h1
          cases h1
          exact absurd (hw.slot_lt (n := v) hvt) hql
        · exact hP.t_all v t j hvt hj hL

theorem addInv_fold (m : SymMap) (hw : m.WF) : ∀ (ns done : List Name) (m1 : SymMap),
    AddInv m done m1 → AddInv m (done ++ ns) (ns.foldl (fun acc n => (acc.add n).1) m1) := by
  intro ns
  induction ns with
  | nil => intro done m1 h; simpa using h
  | cons v ns ih =>
    intro done m1 h
    have := ih (done ++ [v]) _ (addInv_step m hw done m1 v h)
    simpa [List.append_assoc] using this

theorem addInv_refl (m : SymMap) (hw : m.WF) (hf : m.fl.free = []) : AddInv m [] m := by
  refine ⟨(by simp), hf, rfl, rfl, rfl, [], (by simp), ?_⟩
  show Pend m [] m.map []
  refine ⟨fun n => Or.inl rfl, List.nodup_nil, (fun t ht => by cases ht), ?_⟩
  intro n p j _ hj hL
  have : j < m.values.length := hw.slot_lt (n := n) hj
  omega

/-! ## The theorem -/

/-- **A failed build leaves the symbol map intact** (whenever no reclaimed slot is waiting for reuse):
the slot names, the resolution of *every* name, the queue of shadowed slots (same slots, same order) and
the free list are what they were before the build — whatever the build defined: new names, names already
bound, the same name several times. -/
theorem rollback_restores_partial (m : SymMap) (ns : List Name) (hw : m.WF) (hf : m.fl.free = []) :
    let m' := (ns.foldl (fun acc n => (acc.add n).1) m).rollBack m.values.length
    m'.values = m.values ∧ (∀ n, m'.get n = m.get n) ∧ m'.fl.shadowed = m.fl.shadowed ∧
      m'.fl.free = m.fl.free := by
  intro m'
  have h1 := addInv_fold m hw ns [] m (addInv_refl m hw hf)
  rw [List.nil_append] at h1
  obtain ⟨U, hU, hP⟩ := h1.sh
  have hshf : m.fl.shadowed.filter (· < m.values.length) = m.fl.shadowed :=
    List.filter_eq_self.mpr (fun a ha => by simpa using hw.shadowed_lt ha)
  have hP2 : Pend m ns.reverse.reverse (ns.foldl (fun acc n => (acc.add n).1) m).map
      (U.filter (· < m.values.length)) := by rw [List.reverse_reverse]; exact hP
  obtain ⟨map', T', he, hP'⟩ := pend_fold m hw ns.reverse _ _ hP2
  obtain ⟨hget, hT⟩ := pend_nil m hw map' T' hP'
  subst hT
  have hfold : (((ns.foldl (fun acc n => (acc.add n).1) m).values.drop m.values.length).reverse.foldl
      (rollStep ((ns.foldl (fun acc n => (acc.add n).1) m).values.take m.values.length) m.values.length)
      ((ns.foldl (fun acc n => (acc.add n).1) m).map,
        (ns.foldl (fun acc n => (acc.add n).1) m).fl.shadowed.filter (· < m.values.length)))
      = (map', m.fl.shadowed) := by
    rw [h1.values, List.take_left, List.drop_left, hU, List.filter_append, hshf, he, List.append_nil]
  refine ⟨?_, ?_, ?_, ?_⟩
  · show (SymMap.rollBack _ _).values = _
    rw [rollBack_values, h1.values, List.take_left]
  · intro n
    show lk (SymMap.rollBack _ _).map n = _
    rw [rollBack_map, hfold]
    exact hget n
  · show (SymMap.rollBack _ _).fl.shadowed = _
    rw [rollBack_shadowed, hfold]
  · show (SymMap.rollBack _ _).fl.free = _
    rw [(rollBack_fl_rest _ _).1, h1.free, hf]

/-- The same, as the predicate `Restored`, together with the rest of the free-list record. -/
theorem rollback_restores_fl (m : SymMap) (ns : List Name) (hw : m.WF) (hf : m.fl.free = []) :
    Restored m (failedBuild m ns) ∧ (failedBuild m ns).fl = m.fl := by
  have h := rollback_restores_partial m ns hw hf
  refine ⟨h, ?_⟩
  have h1 := addInv_fold m hw ns [] m (addInv_refl m hw hf)
  obtain ⟨_, h3, h4, h5⟩ := rollBack_fl_rest (ns.foldl (fun acc n => (acc.add n).1) m) m.values.length
  have hs := h.2.2.1
  have hfr := h.2.2.2
  show (SymMap.rollBack _ _).fl = m.fl
  cases hfl : (SymMap.rollBack (ns.foldl (fun acc n => (acc.add n).1) m) m.values.length).fl with
  | mk a b c d e =>
    cases hm : m.fl with
    | mk a' b' c' d' e' =>
      simp only [hfl, hm] at hs hfr
      rw [hfl, h1.thr, hm] at h3
      rw [hfl, h1.mult, hm] at h4
      rw [hfl, h1.epoch, hm] at h5
      simp only at h3 h4 h5
      subst hs hfr h3 h4 h5
      rfl

/-! ## Every reachable state is well-formed -/

/-- `add` keeps the whole invariant (also when it reuses a reclaimed slot). -/
theorem add_wf_general (m : SymMap) (n : Name) (hw : m.WF) (hfo : m.FreeOK) :
    (m.add n).1.WF ∧ (m.add n).1.FreeOK := by
  cases hfree : m.fl.free.getLast? with
  | none =>
    have hf : m.fl.free = [] := List.getLast?_eq_none_iff.mp hfree
    refine ⟨add_wf m n hw hf, ?_⟩
    have := add_free_fresh m n hf
    exact ⟨(by rw [this]; intro f h; cases h), (by rw [this]; intro f h; cases h),
      (by rw [this]; intro f h; cases h), (by rw [this]; exact List.nodup_nil)⟩
  | some f =>
    obtain ⟨F, hF⟩ := List.getLast?_eq_some_iff.mp hfree
    have hnd : (F ++ [f]).Nodup := hF ▸ hfo.free_nodup
    have hfF : f ∉ F := by
      intro h
      exact (List.nodup_append.mp hnd).2.2 f h f (by simp) rfl
    have hfmem : f ∈ m.fl.free := by rw [hF]; simp
    have hFmem : ∀ g ∈ F, g ∈ m.fl.free := by intro g hg; rw [hF]; simp [hg]
    have hflt : f < m.values.length := hfo.free_lt f hfmem
    have hne : f ≠ m.values.length := Nat.ne_of_lt hflt
    have hvals : (m.add n).1.values = m.values.set f n := by
      simp [SymMap.add, hfree, hne]
    have hmap : (m.add n).1.map = mapInsert m.map n f := by
      simp [SymMap.add, hfree]
    have hfr : (m.add n).1.fl.free = F := by
      simp [SymMap.add, hF]
    have hlk : ∀ n', lk (m.add n).1.map n' = if n' = n then some f else lk m.map n' := by
      intro n'; rw [hmap]; exact lk_mapInsert ..
    have hold : ∀ (i : Nat) (x : Name), i ≠ f → m.values[i]? = some x →
        (m.values.set f n)[i]? = some x := by
      intro i x hi hx
      rw [List.getElem?_set_ne (Ne.symm hi)]; exact hx
    have hslot : ∀ n' i, lk (m.add n).1.map n' = some i → (m.values.set f n)[i]? = some n' := by
      intro n' i h
      rw [hlk] at h
      split at h
      · next e => cases h; subst e; simp [hflt]
      · refine hold _ _ ?_ (hw.slot_name n' i h)
        intro e; subst e
        exact hfo.free_not_mapped i hfmem n' h
    have hbound : ∀ s ∈ m.fl.shadowed, ∃ n' j, (m.values.set f n)[s]? = some n' ∧
        lk (m.add n).1.map n' = some j ∧ j ≠ s := by
      intro s hs
      have hsf : s ≠ f := fun e => hfo.free_not_shadowed f hfmem (e ▸ hs)
      obtain ⟨n', j, hv, hj, hne⟩ := hw.shadowed_bound s hs
      by_cases e : n' = n
      · exact ⟨n', f, hold _ _ hsf hv, by rw [hlk, if_pos e], Ne.symm hsf⟩
      · exact ⟨n', j, hold _ _ hsf hv, by rw [hlk, if_neg e]; exact hj, hne⟩
    have hwf : (m.add n).1.WF := by
      unfold SymMap.WF
      rw [hvals, shadowed_add]
      cases hp : m.get n with
      | none => exact ⟨hslot, hbound, hw.shadowed_nodup⟩
      | some p =>
        have hp' : lk m.map n = some p := hp
        have hpf : p ≠ f := fun e => hfo.free_not_mapped f hfmem n (e ▸ hp)
        refine ⟨hslot, ?_, ?_⟩
        · intro s hs
          rcases List.mem_append.mp hs with hs | hs
          · exact hbound s hs
          · have : s = p := by simpa using hs
            subst this
            exact ⟨n, f, hold _ _ hpf (hw.slot_name n s hp'), by rw [hlk, if_pos rfl], Ne.symm hpf⟩
        · refine List.nodup_append.mpr ⟨hw.shadowed_nodup, by simp, ?_⟩
          intro a ha b hb
          have : b = p := by simpa using hb
          subst this
          intro e; subst e
          exact hw.mapped_not_shadowed hp' ha
    refine ⟨hwf, ?_, ?_, ?_, ?_⟩
    · intro g hg
      rw [hfr] at hg
      rw [hvals, List.length_set]
      exact hfo.free_lt g (hFmem g hg)
    · intro g hg
      rw [hfr] at hg
      rw [shadowed_add]
      have h1 : g ∉ m.fl.shadowed := hfo.free_not_shadowed g (hFmem g hg)
      cases hp : m.get n with
      | none => exact h1
      | some p =>
        intro h
        rcases List.mem_append.mp h with h | h
        · exact h1 h
        · have : g = p := by simpa using h
          subst this
          exact hfo.free_not_mapped g (hFmem g hg) n hp
    · intro g hg n' h
      rw [hfr] at hg
      have h' : lk (m.add n).1.map n' = some g := h
      rw [hlk] at h'
      split at h'
      · cases h'; exact hfF hg
      · exact hfo.free_not_mapped g (hFmem g hg) n' h'
    · rw [hfr]; exact (List.nodup_append.mp hnd).1

/-- `roll_back` to a checkpoint that every reclaimed slot is below keeps the free-list invariant too
(the engine calls `roll_back` with the length before the build, and reclaimed slots are older). -/
theorem rollBack_freeOK (m : SymMap) (k : Nat) (hfo : m.FreeOK)
    (hfk : ∀ f ∈ m.fl.free, f < k) : (m.rollBack k).FreeOK := by
  have hfree : (m.rollBack k).fl.free = m.fl.free := (rollBack_fl_rest m k).1
  -- the loop only ever puts in force slots that were queued, and only ever shrinks the queue
  have hloop : ∀ (rest : List Name) (acc : List (Name × Nat) × List Nat),
      (∀ s ∈ acc.2, s ∈ m.fl.shadowed) →
      (∀ n i, lk acc.1 n = some i → lk m.map n = some i ∨ i ∈ m.fl.shadowed) →
      (∀ s ∈ (rest.foldl (rollStep (m.values.take k) k) acc).2, s ∈ m.fl.shadowed) ∧
      (∀ n i, lk (rest.foldl (rollStep (m.values.take k) k) acc).1 n = some i →
        lk m.map n = some i ∨ i ∈ m.fl.shadowed) := by
    intro rest
    induction rest with
    | nil => intro acc h1 h2; exact ⟨h1, h2⟩
    | cons v rest ih =>
      intro acc h1 h2
      rw [List.foldl_cons]
      apply ih
      · rcases rollStep_cases (m.values.take k) k acc.1 acc.2 v with
          ⟨_, _, _, he⟩ | ⟨A, prev, B, map', hl, _, he, _⟩ | ⟨_, map', he, _⟩
        · rw [he]; exact h1
        · rw [he]; intro s hs
          apply h1; rw [hl]
          rcases List.mem_append.mp hs with h | h
          · simp [h]
          · simp [h]
        · rw [he]; exact h1
      · rcases rollStep_cases (m.values.take k) k acc.1 acc.2 v with
          ⟨_, _, _, he⟩ | ⟨A, prev, B, map', hl, _, he, hlk⟩ | ⟨_, map', he, hlk⟩
        · rw [he]; exact h2
        · rw [he]; intro n i hn
          rw [hlk] at hn
          split at hn
          · cases hn; right; apply h1; rw [hl]; simp
          · exact h2 n i hn
        · rw [he]; intro n i hn
          rw [hlk] at hn
          split at hn
          · cases hn
          · exact h2 n i hn
  obtain ⟨hl1, hl2⟩ := hloop (m.values.drop k).reverse (m.map, m.fl.shadowed.filter (· < k))
    (fun s hs => (List.mem_filter.mp hs).1) (fun n i h => Or.inl h)
  refine ⟨?_, ?_, ?_, ?_⟩
  · intro f hf
    rw [hfree] at hf
    rw [rollBack_values, List.length_take]
    exact Nat.lt_min.mpr ⟨hfk f hf, hfo.free_lt f hf⟩
  · intro f hf
    rw [hfree] at hf
    rw [rollBack_shadowed]
    intro h
    exact hfo.free_not_shadowed f hf (hl1 f h)
  · intro f hf n h
    rw [hfree] at hf
    have h' : lk (m.rollBack k).map n = some f := h
    rw [rollBack_map] at h'
    rcases hl2 n f h' with h'' | h''
    · exact hfo.free_not_mapped f hf n h''
    · exact hfo.free_not_shadowed f hf h''
  · rw [hfree]; exact hfo.free_nodup

/-- The states of the symbol map that `add` and `roll_back` (to an earlier length) can produce from the
empty map. -/
inductive Reachable : SymMap → Prop
  | empty : Reachable {}
  | add (m : SymMap) (n : Name) : Reachable m → Reachable (m.add n).1
  | rollBack (m : SymMap) (k : Nat) : Reachable m → k ≤ m.values.length → Reachable (m.rollBack k)

/-- Every reachable state is well-formed and has an empty free list: `rollback_restores_partial` applies
to all of them. -/
theorem reachable_wf (m : SymMap) (h : Reachable m) : m.WF ∧ m.fl.free = [] := by
  induction h with
  | empty => exact ⟨wf_empty, rfl⟩
  | add m n _ ih => exact ⟨add_wf m n ih.1 ih.2, add_free_fresh m n ih.2⟩
  | rollBack m k _ _ ih => exact ⟨rollBack_wf m k ih.1, (rollBack_fl_rest m k).1.trans ih.2⟩

/-- … hence a failed build leaves every reachable state intact. -/
theorem rollback_restores_reachable (m : SymMap) (ns : List Name) (h : Reachable m) :
    Restored m (failedBuild m ns) :=
  rollback_restores_partial m ns (reachable_wf m h).1 (reachable_wf m h).2

/-! ## The full statement is false: K06c -/

/-- The symbol map after `(define x 1)`, `(define x 2)` and a recycling event that reclaimed the first
slot: slot 1 is in force, slot 0 is on the free list. -/
def k06cMap : SymMap := { values := ["x", "x"], map := [("x", 1)], fl := { free := [0] } }

theorem k06cMap_wf : k06cMap.WF ∧ k06cMap.FreeOK := by
  refine ⟨⟨?_, ?_, ?_⟩, ⟨?_, ?_, ?_, ?_⟩⟩
  · intro n i h
    simp only [k06cMap, lk, List.find?_cons, List.find?_nil] at h
    split at h
    · next e =>
      have : "x" = n := by simpa using e
      subst this; cases h; rfl
    · cases h
  · intro s hs; cases hs
  · exact List.nodup_nil
  · intro f hf
    have : f = 0 := by simpa [k06cMap] using hf
    subst this; decide
  · intro f _ h; cases h
  · intro f hf n h
    have : f = 0 := by simpa [k06cMap] using hf
    subst this
    simp only [k06cMap, SymMap.get, List.find?_cons, List.find?_nil] at h
    split at h
    · cases h
    · cases h
  · show [0].Nodup
    simp

/-- **Counter-witness (K06c).**  On a well-formed map whose free list is not empty, a failed build that
redefines `x` takes the reclaimed slot 0 — below the checkpoint — and `roll_back` does not notice:
afterwards `x` resolves to the reclaimed slot instead of slot 1, slot 1 (the definition in force) stays
queued as shadowed, and the free list has lost slot 0. -/
theorem rollback_fails_after_slot_reuse :
    k06cMap.WF ∧ k06cMap.FreeOK ∧ k06cMap.fl.free ≠ [] ∧
    k06cMap.get "x" = some 1 ∧ (failedBuild k06cMap ["x"]).get "x" = some 0 ∧
    k06cMap.fl.shadowed = [] ∧ (failedBuild k06cMap ["x"]).fl.shadowed = [1] ∧
    k06cMap.fl.free = [0] ∧ (failedBuild k06cMap ["x"]).fl.free = [] :=
  ⟨k06cMap_wf.1, k06cMap_wf.2, by decide, by decide, by decide, by decide, by decide, by decide,
    by decide⟩

/-- A build that defines a *new* name after recycling also changes the slot names. -/
example : (failedBuild k06cMap ["c"]).values = ["c", "x"] ∧ (failedBuild k06cMap ["c"]).get "c" = some 0 := by
  decide

/-- The full statement does not hold. -/
theorem not_rollbackRestores : ¬ RollbackRestores := by
  intro h
  have h2 := (h k06cMap ["x"] k06cMap_wf.1 k06cMap_wf.2).2.1 "x"
  revert h2
  decide

/-! ## Non-vacuity -/

/-- `(define a …) (define b …) (define a …)`: `a` is shadowed once. -/
def exMap : SymMap := ((((({} : SymMap).add "a").1).add "b").1.add "a").1

/-- The failed build: `a` (bound, shadowed) twice, `b` (bound), `c` (new) twice. -/
def exNames : List Name := ["a", "c", "a", "b", "c"]

theorem exMap_reachable : Reachable exMap := .add _ _ (.add _ _ (.add _ _ .empty))

/-- `rollback_restores_partial` / `rollback_restores_reachable` / `reachable_wf` apply to a map with a
shadowed name and a build with duplicates, rebinding and new names; the build really changes the map
(8 slots, 4 queued slots, `a` moved) and the roll-back really restores it (also checked by evaluation). -/
example :
    (exMap.WF ∧ exMap.fl.free = []) ∧
    exMap.values = ["a", "b", "a"] ∧ exMap.fl.shadowed = [0] ∧ exMap.get "a" = some 2 ∧
    (exNames.foldl (fun acc n => (acc.add n).1) exMap).values = ["a", "b", "a", "a", "c", "a", "b", "c"] ∧
    (exNames.foldl (fun acc n => (acc.add n).1) exMap).fl.shadowed = [0, 2, 3, 1, 4] ∧
    (exNames.foldl (fun acc n => (acc.add n).1) exMap).get "a" = some 5 ∧
    Restored exMap (failedBuild exMap exNames) ∧
    (failedBuild exMap exNames).values = ["a", "b", "a"] ∧
    (failedBuild exMap exNames).fl.shadowed = [0] ∧
    (failedBuild exMap exNames).get "a" = some 2 ∧ (failedBuild exMap exNames).get "b" = some 1 ∧
    (failedBuild exMap exNames).get "c" = none :=
  ⟨reachable_wf _ exMap_reachable, by decide, by decide, by decide, by decide, by decide, by decide,
    rollback_restores_reachable _ _ exMap_reachable, by decide, by decide, by decide, by decide, by decide⟩

/-- `rollback_restores_fl` on the same input. -/
example : (failedBuild exMap exNames).fl = exMap.fl :=
  (rollback_restores_fl exMap exNames (reachable_wf _ exMap_reachable).1 (reachable_wf _ exMap_reachable).2).2

/-- `rollBack_wf` / `Reachable.rollBack` with an *earlier* checkpoint: rolling `exMap` back to one slot
puts the first `a` in force again and empties the queue; the result is well-formed. -/
example : (exMap.rollBack 1).WF ∧ (exMap.rollBack 1).values = ["a"] ∧ (exMap.rollBack 1).get "a" = some 0 ∧
    (exMap.rollBack 1).get "b" = none ∧ (exMap.rollBack 1).fl.shadowed = [] :=
  ⟨rollBack_wf _ _ (reachable_wf _ exMap_reachable).1, by decide, by decide, by decide, by decide⟩

/-- `add_wf` on a redefinition. -/
example : (exMap.add "b").1.WF ∧ (exMap.add "b").1.fl.shadowed = [0, 1] :=
  ⟨add_wf _ _ (reachable_wf _ exMap_reachable).1 (reachable_wf _ exMap_reachable).2, by decide⟩

/-- `add_wf_general` where `add` reuses a reclaimed slot, and `rollBack_freeOK`. -/
example : ((k06cMap.add "x").1.WF ∧ (k06cMap.add "x").1.FreeOK) ∧ (k06cMap.add "x").2 = 0 ∧
    (k06cMap.rollBack 2).FreeOK ∧ (k06cMap.rollBack 2).fl.free = [0] :=
  ⟨add_wf_general _ _ k06cMap_wf.1 k06cMap_wf.2, by decide,
    rollBack_freeOK _ _ k06cMap_wf.2 (by decide), by decide⟩

end SteelVerif.C06
