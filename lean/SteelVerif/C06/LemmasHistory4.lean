/-
C06 — lemmas for the history refinement, part 4: one top-level evaluation.  `step_refines`: from related states,
inside the guards, M and S give the same result and end in related states.
-/
import SteelVerif.C06.LemmasHistory3
namespace SteelVerif.C06

theorem addAll_get_isSome : ∀ (ns : List Name) (m : SymMap) (x : Name),
    ((m.get x).isSome ∨ x ∈ ns) → ((addAll m ns).get x).isSome := by
  intro ns
  induction ns with
  | nil =>
    intro m x h
    rcases h with h | h
    · exact h
    · cases h
  | cons y ns ih =>
    intro m x h
    show ((addAll (m.add y).1 ns).get x).isSome
    apply ih
    rw [get_add]
    by_cases e : x = y
    · left; rw [if_pos e]; rfl
    · rw [if_neg e]
      rcases h with h | h
      · exact Or.inl h
      · rcases List.mem_cons.mp h with e' | h
        · exact absurd e' e
        · exact Or.inr h

theorem bindAll_env : ∀ (ns : List Name) (s : Spec.State),
    ∃ new, (Spec.bindAll s ns).env = new ++ s.env ∧ ∀ p ∈ new, p.1 ∈ ns := by
  intro ns
  induction ns with
  | nil => intro s; exact ⟨[], rfl, fun p hp => by cases hp⟩
  | cons x ns ih =>
    intro s
    obtain ⟨new, h1, h2⟩ := ih (Spec.bind1 s x)
    refine ⟨new ++ [(x, s.cells.length)], ?_, ?_⟩
    · show (Spec.bindAll (Spec.bind1 s x) ns).env = _
      rw [h1]; simp [Spec.bind1]
    · intro p hp
      rcases List.mem_append.mp hp with hp | hp
      · exact List.mem_cons_of_mem _ (h2 p hp)
      · have : p = (x, s.cells.length) := by simpa using hp
        rw [this]; simp

/-- After a run-time failure the specification keeps the bindings of the definitions that were executed: when
all of them were, that is the whole environment of the piece. -/
theorem envKeep_all (s : Spec.State) (ns executed : List Name) (h : ∀ n ∈ ns, n ∈ executed) :
    ((Spec.bindAll s ns).env.take ((Spec.bindAll s ns).env.length - s.env.length)).filter
      (fun p => executed.contains p.1) ++ s.env = (Spec.bindAll s ns).env := by
  obtain ⟨new, h1, h2⟩ := bindAll_env ns s
  rw [h1]
  have : (new ++ s.env).length - s.env.length = new.length := by simp
  rw [this, List.take_left]
  congr 1
  apply List.filter_eq_self.mpr
  intro p hp
  simpa using h p.1 (h2 p hp)

theorem maybeRecycle_rel {own : Own} {s : Spec.State} {m : State} (h : Rel own s m) :
    ∃ own', Rel own' s (maybeRecycle m) ∧ (maybeRecycle m).sym.values = m.sym.values ∧
      (∀ n, (maybeRecycle m).sym.get n = m.sym.get n) ∧
      (maybeRecycle m).globals.length = m.globals.length ∧
      (∀ i c, own' i = some c → own i = some c) := by
  unfold maybeRecycle
  split
  · refine ⟨_, (recycle_rel h).1, (recycle_sym m).1, ?_, ?_, ?_⟩
    · intro n; show lk (recycle m).sym.map n = lk m.sym.map n; rw [(recycle_sym m).2.1]
    · rw [recycle_globals]; exact (foldl_set_void _ _).1
    · intro i c hi
      unfold ownDrop at hi
      split at hi
      · cases hi
      · exact hi
  · exact ⟨own, h, rfl, fun _ => rfl, rfl, fun _ _ hc => hc⟩

theorem defNames_append (a b : List Form) : defNames (a ++ b) = defNames a ++ defNames b := by
  simp [defNames, List.filterMap_append]

theorem defNames_nil_of (I : List Form) (h : ∀ f ∈ I, f.defines = none) : defNames I = [] := by
  unfold defNames
  apply List.filterMap_eq_nil_iff.mpr
  exact h

theorem mem_defNames {forms : List Form} {x : Name} :
    x ∈ defNames forms ↔ ∃ f ∈ forms, f.defines = some x := by
  simp [defNames, List.mem_filterMap]

/-- **One top-level evaluation.**  From related states in which every slot in use has been assigned, a piece
inside the guards gives the same result under M (slots, symbol map, roll-back, recycler) as under S (cells),
and the states are related again. -/
theorem step_refines {own : Own} {s : Spec.State} {m : State} (h : Rel own s m)
    (hA : Assigned m.sym m.globals) (forms : List Form) (hok : pieceOK m forms = true) :
    (evalPiece m forms).2 = (Spec.evalPiece s forms).2 ∧
    ∃ own', Rel own' (Spec.evalPiece s forms).1 (evalPiece m forms).1 ∧
      Assigned (evalPiece m forms).1.sym (evalPiece m forms).1.globals := by
  obtain ⟨own1, h1, _⟩ := addAll_rel (defNames forms) h
  have hpt : ∀ n, (Spec.lookup (Spec.bindAll s (defNames forms)).env n).isSome =
      ((addAll m.sym (defNames forms)).get n).isSome := by
    intro n
    rcases h1.resolve n with ⟨a, b⟩ | ⟨i, c, a, _, b⟩
    · have a' : (addAll m.sym (defNames forms)).get n = none := a
      rw [a', b]
    · have a' : (addAll m.sym (defNames forms)).get n = some i := a
      rw [a', b]; rfl
  have hbo : sBuildOk (Spec.bindAll s (defNames forms)).env forms = buildOk m.sym forms := by
    unfold sBuildOk buildOk; simp only [hpt]
  rw [evalPiece_eq, sEvalPiece_eq]
  simp only [hbo]
  unfold pieceOK at hok
  simp only [Bool.and_eq_true] at hok
  obtain ⟨⟨hC, hB⟩, hU⟩ := hok
  by_cases hb : buildOk m.sym forms = true
  · rw [if_pos hb, if_pos hb]
    -- the build succeeded
    obtain ⟨own2, h2, hv2, hg2, hl2, _⟩ := maybeRecycle_rel h1
    generalize hm2 : maybeRecycle { m with sym := addAll m.sym (defNames forms) } = m2 at h2 hv2 hg2 hl2 ⊢
    have hv2' : m2.sym.values = (addAll m.sym (defNames forms)).values := hv2
    have hg2' : ∀ n, m2.sym.get n = (addAll m.sym (defNames forms)).get n := hg2
    have hl2' : m2.globals.length = m.globals.length := hl2
    have hb' := hb
    unfold buildOk at hb'
    have hball := List.all_eq_true.mp hb'
    have hnofail : ∀ f ∈ forms, f ≠ .fail := by
      intro f hf
      have := hball f hf
      simp only [Bool.and_eq_true, bne_iff_ne, ne_eq] at this
      exact this.1
    have huses : ∀ f ∈ forms, ∀ n ∈ f.uses, (m2.sym.get n).isSome := by
      intro f hf n hn
      have := hball f hf
      simp only [Bool.and_eq_true] at this
      rw [hg2']
      exact List.all_eq_true.mp this.2 n hn
    obtain ⟨D, I, hsplit, hDdef, hInone⟩ := split_defs forms hB hU hnofail
    have hDI : ∀ f, f ∈ D → f ∈ forms := fun f hf => by rw [hsplit]; exact List.mem_append_left _ hf
    have hN : defNames forms = defNames D := by
      rw [hsplit, defNames_append, defNames_nil_of I hInone, List.append_nil]
    have hD : ∀ f ∈ D, ∃ x, f.defines = some x ∧ (m2.sym.get x).isSome ∧
        ∀ n ∈ f.uses, (m2.sym.get n).isSome := by
      intro f hf
      obtain ⟨x, hx⟩ := (isDef_iff f).mp (hDdef f hf)
      refine ⟨x, hx, ?_, huses f (hDI f hf)⟩
      rw [hg2']
      exact addAll_get_isSome _ _ _ (Or.inr (mem_defNames.mpr ⟨f, hDI f hf, hx⟩))
    have h2' : Rel own2 ⟨(Spec.bindAll s (defNames forms)).env, (Spec.bindAll s (defNames forms)).cells⟩
        ⟨m2.sym, m2.globals⟩ := h2
    obtain ⟨g1, cells1, e1, e2, h3, hl3, hall⟩ :=
      go_defs m2 I D m2.globals (Spec.bindAll s (defNames forms)).cells [] [] hD h2'
    -- every slot in use is assigned once the definitions have run
    have hA1 : Assigned m2.sym g1 := by
      unfold Assigned at hA ⊢
      have hgle : g1.length ≤ m2.sym.values.length := h3.gle
      have htop := addAll_top m.sym.values.length (defNames forms) (defNames forms) (fun x hx => hx) m.sym
        h.wf h.fo (Or.inl rfl)
      rw [hv2'] at hgle ⊢
      rcases htop with ht | ⟨_, n, hn, hgn⟩
      · omega
      · obtain ⟨f, hf, hfx⟩ := mem_defNames.mp hn
        have hfD : f ∈ D := by
          rw [hsplit] at hf
          rcases List.mem_append.mp hf with hf | hf
          · exact hf
          · rw [hInone f hf] at hfx; cases hfx
        obtain ⟨i, hi, hil⟩ := hall f hfD n hfx
        rw [hg2', hgn] at hi
        cases hi
        omega
    obtain ⟨g', cells', done', out', ok, e3, e4, h5, hA5, hdone⟩ :=
      go_uses m2 I g1 cells1 ([] ++ D) [] hInone h3 hA1
    have eM : evalPiece.go m2 forms m2.globals [] = (g', out', ok) := by
      have : ∀ fs, fs = D ++ I → evalPiece.go m2 fs m2.globals [] = (g', out', ok) := by
        intro fs hfs; rw [hfs, e1, e3]
      exact this forms hsplit
    have eS : Spec.evalPiece.go (Spec.bindAll s (defNames forms)).env forms []
        (Spec.bindAll s (defNames forms)).cells [] = (done', cells', out', ok) := by
      have : ∀ fs, fs = D ++ I → Spec.evalPiece.go (Spec.bindAll s (defNames forms)).env fs []
          (Spec.bindAll s (defNames forms)).cells [] = (done', cells', out', ok) := by
        intro fs hfs; rw [hfs, e2, e4]
      exact this forms hsplit
    rw [eM]
    simp only [eS]
    cases ok with
    | true =>
      exact ⟨rfl, own2, h5, hA5⟩
    | false =>
      refine ⟨rfl, own2, ?_, hA5⟩
      simp only [Bool.false_eq_true, if_false]
      have hexec : ∀ n ∈ defNames forms, n ∈ done'.filterMap Form.defines := by
        intro n hn
        rw [hdone, List.nil_append]
        rw [hN] at hn
        exact hn
      rw [envKeep_all s (defNames forms) _ hexec]
      exact h5
  · rw [if_neg hb, if_neg hb]
    -- the build failed: roll-back
    have hguard : m.sym.fl.free = [] ∨ defNames forms = [] := by
      unfold guardC at hC
      simp only [Bool.or_eq_true, List.isEmpty_iff] at hC
      rcases hC with (hC | hC) | hC
      · exact absurd hC hb
      · exact Or.inl hC
      · exact Or.inr hC
    obtain ⟨hv, hg, hfl⟩ := rollback_guarded m.sym (defNames forms) h.wf hguard
    refine ⟨rfl, own, h.congr_sym _ hv hg hfl, ?_⟩
    unfold Assigned at hA ⊢
    show m.globals.length = _
    rw [hv]; exact hA

end SteelVerif.C06
