/-
C06 — constant propagation against the specification, part 3: the run of the forms, one unit, whole histories.
-/
import SteelVerif.C06.LemmasPropagate2
namespace SteelVerif.C06

/-! ## The run of the forms -/

theorem filter_cons_eq_singleton {α} {p : α → Bool} {a b : α} {l : List α}
    (h : (a :: l).filter p = [b]) :
    (p a = true ∧ a = b ∧ l.filter p = []) ∨ (p a = false ∧ l.filter p = [b]) := by
  rw [List.filter_cons] at h
  cases hp : p a with
  | true =>
    rw [hp] at h
    simp only [if_true, List.cons.injEq] at h
    exact Or.inl ⟨rfl, h.1, h.2⟩
  | false =>
    rw [hp] at h
    simp only [Bool.false_eq_true, if_false] at h
    exact Or.inr ⟨rfl, h⟩

/-- The defining forms at the head of a unit, propagated and as written. -/
theorem pgo_defs {fz fzv : Frozen} {env : List (Name × Nat)} {forms : List Form} (IP IO : List Form) :
    ∀ (D : List Form) (cP cO : List Spec.Val) (doneP doneO : List Form) (out : List String),
    (∀ f ∈ D, ∃ y, f.defines = some y ∧ (Spec.lookup env y).isSome ∧
      (∀ g refs, f = .deff g refs → ∀ x n c, Ref.read x ∈ refs → constOf forms x = some n →
        Spec.lookup env x = some c → (c, n) ∈ fz) ∧
      (∀ n ∈ f.uses, (Spec.lookup env n).isSome) ∧
      (∀ x c, f.assigns = some x → Spec.lookup env x = some c → fz.has c = false) ∧
      (∀ c, Spec.lookup env y = some c → ∀ n, (c, n) ∉ fzv)) →
    PRel fz fzv env cP cO →
    ∃ cP' cO',
      Spec.evalPiece.go env (D.map (pform forms) ++ IP) doneP cP out =
        Spec.evalPiece.go env IP (doneP ++ D.map (pform forms)) cP' out ∧
      Spec.evalPiece.go env (D ++ IO) doneO cO out = Spec.evalPiece.go env IO (doneO ++ D) cO' out ∧
      PRel fz fzv env cP' cO' ∧
      (∀ c, (∀ f ∈ D, ∀ y, f.defines = some y → Spec.lookup env y ≠ some c) → cO'[c]? = cO[c]?) ∧
      (∀ x n c, Spec.lookup env x = some c → D.filter (fun f => f.defines == some x) = [.defc x n] →
        (∀ y, y ≠ x → Spec.lookup env y ≠ some c) → cO'[c]? = some (.int n)) := by
  intro D
  induction D with
  | nil =>
    intro cP cO doneP doneO out _ h
    refine ⟨cP, cO, by simp, by simp, h, fun _ _ => rfl, ?_⟩
    intro x n c _ hf; simp at hf
  | cons f D ih =>
    intro cP cO doneP doneO out hD h
    obtain ⟨y, hd, hy, hfz, hu, hg, hnew⟩ := hD f (by simp)
    obtain ⟨cf, cP1, vO, hcf, hrP, hrO, h1, hdefc⟩ := prun_def (forms := forms) h f y hd hy hu hfz hg hnew
    obtain ⟨cP', cO', eP, eO, h2, hpres, hlast⟩ :=
      ih cP1 (cO.set cf vO) (doneP ++ [pform forms f]) (doneO ++ [f]) out
        (fun f' hf' => hD f' (by simp [hf'])) h1
    have hcflt : cf < cO.length := h.envlt y cf hcf
    refine ⟨cP', cO', ?_, ?_, h2, ?_, ?_⟩
    · rw [List.map_cons, List.cons_append, sgo_cons_some env _ _ doneP cP cP1 out none hrP]
      simpa using eP
    · rw [List.cons_append, sgo_cons_some env _ _ doneO cO _ out none hrO]
      simpa using eO
    · intro c hc
      rw [hpres c (fun f' hf' y' hy' => hc f' (by simp [hf']) y' hy')]
      have hne : cf ≠ c := by
        intro e; subst e
        exact hc f (by simp) y hd hcf
      rw [List.getElem?_set, if_neg hne]
    · intro x n c hxc hfilt hinj
      rcases filter_cons_eq_singleton hfilt with ⟨hp, hfe, hnil⟩ | ⟨hp, hrest⟩
      · -- this form is the definition of `x`
        have hyx : y = x := by
          rw [hd] at hp
          simpa using hp
        subst hyx
        have hcc : cf = c := by rw [hcf] at hxc; exact Option.some.inj hxc
        subst hcc
        have hv : vO = .int n := hdefc n hfe
        rw [hpres cf ?_, List.getElem?_set, if_pos rfl, if_pos hcflt, hv]
        intro f' hf' y' hy'
        by_cases e : y' = y
        · subst e
          have : f' ∈ D.filter (fun f => f.defines == some y') :=
            List.mem_filter.mpr ⟨hf', by simp [hy']⟩
          rw [hnil] at this; cases this
        · exact hinj y' e
      · exact hlast x n c hxc hrest hinj

/-- The forms after the definitions (the propagation does not change them). -/
theorem pgo_uses {fz : Frozen} {env : List (Name × Nat)} :
    ∀ (I : List Form) (cP cO : List Spec.Val) (doneP doneO : List Form) (out : List String),
    (∀ f ∈ I, f.defines = none ∧
      ∀ x c, f.assigns = some x → Spec.lookup env x = some c → fz.has c = false) →
    PRel fz fz env cP cO →
    ∃ cP' cO' doneP' doneO' out' ok,
      Spec.evalPiece.go env I doneP cP out = (doneP', cP', out', ok) ∧
      Spec.evalPiece.go env I doneO cO out = (doneO', cO', out', ok) ∧
      PRel fz fz env cP' cO' ∧
      doneP'.filterMap Form.defines = doneP.filterMap Form.defines ∧
      doneO'.filterMap Form.defines = doneO.filterMap Form.defines := by
  intro I
  induction I with
  | nil =>
    intro cP cO doneP doneO out _ h
    exact ⟨cP, cO, doneP, doneO, out, true, sgo_nil .., sgo_nil .., h, rfl, rfl⟩
  | cons f I ih =>
    intro cP cO doneP doneO out hI h
    obtain ⟨hd, hg⟩ := hI f (by simp)
    rcases prun_use h f hd hg with ⟨h1, h2⟩ | ⟨cP1, cO1, o, h1, h2, h3⟩
    · exact ⟨cP, cO, doneP, doneO, out, false, sgo_cons_none env f I doneP cP out h1,
        sgo_cons_none env f I doneO cO out h2, h, rfl, rfl⟩
    · obtain ⟨cP', cO', doneP', doneO', out', ok, e1, e2, h4, h5, h6⟩ :=
        ih cP1 cO1 (doneP ++ [f]) (doneO ++ [f]) (out ++ o.toList) (fun f' hf' => hI f' (by simp [hf'])) h3
      refine ⟨cP', cO', doneP', doneO', out', ok, ?_, ?_, h4, ?_, ?_⟩
      · rw [sgo_cons_some env f I doneP cP cP1 out o h1]; exact e1
      · rw [sgo_cons_some env f I doneO cO cO1 out o h2]; exact e2
      · rw [h5, List.filterMap_append]; simp [hd]
      · rw [h6, List.filterMap_append]; simp [hd]

/-! ## One unit -/

/-- The environment in which the forms of a unit are compiled. -/
def unitEnv (s : Spec.State) (forms : List Form) : List (Name × Nat) := (Spec.bindAll s (defNames forms)).env

/-- The guard of K06a for one unit, with the guards under which a unit is "definitions, then uses". -/
def pieceOKA (fz : Frozen) (sO : Spec.State) (forms : List Form) : Bool :=
  guardA (fz ++ newFz (unitEnv sO forms) forms) (unitEnv sO forms) forms && guardB forms && guardU forms

/-- The frozen cells after a unit. -/
def fzNext (fz : Frozen) (sO : Spec.State) (forms : List Form) : Frozen :=
  if sBuildOk (unitEnv sO forms) forms = true then fz ++ newFz (unitEnv sO forms) forms else fz

/-- The guard of K06a along a history (evaluated with the specification). -/
def histOKA (fz : Frozen) (sO : Spec.State) : History → Bool
  | [] => true
  | p :: rest => pieceOKA fz sO p && histOKA (fzNext fz sO p) (Spec.evalPiece sO p).1 rest

structure PState (fz : Frozen) (sP sO : Spec.State) : Prop where
  env_eq : sP.env = sO.env
  rel : PRel fz fz sO.env sP.cells sO.cells
  fzlt : ∀ c n, (c, n) ∈ fz → c < sO.cells.length

theorem uses_all_propagate (forms : List Form) (R : Name → Bool)
    (hR : ∀ x n, constOf forms x = some n → R x = true) : ∀ refs : List Ref,
    ((refs.map (propagateRef forms)).filterMap Ref.name).all R = (refs.filterMap Ref.name).all R := by
  intro refs
  induction refs with
  | nil => rfl
  | cons r refs ih =>
    rcases propagateRef_cases forms r with e | ⟨x, n, e1, e2, e3⟩
    · rw [List.map_cons, e, List.filterMap_cons, List.filterMap_cons]
      cases r.name with
      | none => exact ih
      | some a => simp only [List.all_cons, ih]
    · subst e1
      rw [List.map_cons, e3, List.filterMap_cons, List.filterMap_cons]
      simp only [Ref.name]
      rw [List.all_cons, hR x n e2, Bool.true_and]
      exact ih

theorem sBuildOk_propagate (env : List (Name × Nat)) (forms : List Form)
    (hres : ∀ x n, constOf forms x = some n → (Spec.lookup env x).isSome = true) :
    sBuildOk env (propagate forms) = sBuildOk env forms := by
  unfold sBuildOk
  rw [propagate_eq, List.all_map]
  apply List.all_congr rfl
  intro f
  cases f with
  | deff g refs =>
    show (Form.deff g (refs.map (propagateRef forms)) != Form.fail &&
      (Form.deff g (refs.map (propagateRef forms))).uses.all _) = _
    rw [uses_deff, uses_deff, uses_all_propagate forms _ hres]
    rfl
  | _ => rfl

theorem map_pform_of_nodef (forms : List Form) : ∀ (I : List Form), (∀ f ∈ I, f.defines = none) →
    I.map (pform forms) = I := by
  intro I
  induction I with
  | nil => intro _; rfl
  | cons f I ih =>
    intro h
    rw [List.map_cons, ih (fun f' hf' => h f' (by simp [hf']))]
    have := h f (by simp)
    cases f <;> first | rfl | (simp [Form.defines] at this)

theorem getElem?_append_replicate_void (cells : List Spec.Val) (k c : Nat) (v : Spec.Val)
    (h : (cells ++ List.replicate k Spec.Val.void)[c]? = some v) : cells[c]? = some v ∨ (cells.length ≤ c ∧ v = .void) := by
  by_cases hc : c < cells.length
  · left; rw [List.getElem?_append_left hc] at h; exact h
  · right
    rw [List.getElem?_append_right (by omega), List.getElem?_replicate] at h
    split at h
    · cases h; exact ⟨by omega, rfl⟩
    · cases h

/-- **One unit**: inside the guards, the specification gives the same result on the propagated unit as on the unit
as written, and the states stay related (with the cells this unit froze). -/
theorem pstep {fz : Frozen} {sP sO : Spec.State} (h : PState fz sP sO) (forms : List Form)
    (hok : pieceOKA fz sO forms = true) :
    (Spec.evalPiece sP (propagate forms)).2 = (Spec.evalPiece sO forms).2 ∧
    PState (fzNext fz sO forms) (Spec.evalPiece sP (propagate forms)).1 (Spec.evalPiece sO forms).1 := by
  have hlt : EnvLt sO := h.rel.envlt
  have henv : (Spec.bindAll sP (defNames forms)).env = (Spec.bindAll sO (defNames forms)).env :=
    bindAll_env_congr _ sP sO h.env_eq h.rel.len
  have hres : ∀ x n, constOf forms x = some n →
      (Spec.lookup (Spec.bindAll sO (defNames forms)).env x).isSome = true :=
    fun x n hx => bindAll_lookup_mem _ sO x (Or.inr (constOf_mem hx))
  have hbo := sBuildOk_propagate (Spec.bindAll sO (defNames forms)).env forms hres
  unfold pieceOKA at hok
  simp only [Bool.and_eq_true] at hok
  obtain ⟨⟨hA, hB⟩, hU⟩ := hok
  unfold fzNext unitEnv
  unfold unitEnv at hA
  rw [sEvalPiece_eq, sEvalPiece_eq, defNames_propagate]
  simp only [henv, h.env_eq, hbo, bindAll_cells]
  generalize henv' : (Spec.bindAll sO (defNames forms)).env = env' at *
  by_cases hb : sBuildOk env' forms = true
  · simp only [hb, if_true]
    -- the shape of the unit
    have hb' := hb
    unfold sBuildOk at hb'
    have hball := List.all_eq_true.mp hb'
    have hnofail : ∀ f ∈ forms, f ≠ .fail := by
      intro f hf
      have := hball f hf
      simp only [Bool.and_eq_true, bne_iff_ne, ne_eq] at this
      exact this.1
    have huses : ∀ f ∈ forms, ∀ n ∈ f.uses, (Spec.lookup env' n).isSome := by
      intro f hf n hn
      have := hball f hf
      simp only [Bool.and_eq_true] at this
      exact List.all_eq_true.mp this.2 n hn
    obtain ⟨D, I, hsplit, hDdef, hInone⟩ := split_defs forms hB hU hnofail
    have hDI : ∀ f, f ∈ D → f ∈ forms := fun f hf => by rw [hsplit]; exact List.mem_append_left _ hf
    have hII : ∀ f, f ∈ I → f ∈ forms := fun f hf => by rw [hsplit]; exact List.mem_append_right _ hf
    have hN : defNames forms = defNames D := by
      rw [hsplit, defNames_append, defNames_nil_of I hInone, List.append_nil]
    have hprop : propagate forms = D.map (pform forms) ++ I := by
      rw [propagate_eq]
      conv => lhs; arg 2; rw [hsplit]
      rw [List.map_append, map_pform_of_nodef forms I hInone]
    -- the frozen cells of this unit are new cells
    have hnewcell : ∀ y c, y ∈ defNames forms → Spec.lookup env' y = some c → sO.cells.length ≤ c := by
      intro y c hy hc
      rw [← henv'] at hc
      exact bindAll_lookup_new _ hlt y c hy hc
    have hnewfz : ∀ c n, (c, n) ∈ newFz env' forms → sO.cells.length ≤ c := by
      intro c n hm
      obtain ⟨x, _, hx, hl⟩ := mem_newFz.mp hm
      exact hnewcell x c (constOf_mem hx) hl
    have henvlt' : ∀ x c, Spec.lookup env' x = some c →
        c < (sO.cells ++ List.replicate (defNames forms).length Spec.Val.void).length := by
      intro x c hc
      rw [← henv'] at hc
      have := bindAll_envlt (defNames forms) hlt x c hc
      rw [bindAll_cells] at this
      exact this
    -- the relation at the start of the run
    have h0 : PRel (fz ++ newFz env' forms) fz env'
        (sP.cells ++ List.replicate (defNames forms).length Spec.Val.void)
        (sO.cells ++ List.replicate (defNames forms).length Spec.Val.void) := by
      refine ⟨by simp [h.rel.len], ?_, henvlt', ?_, ?_⟩
      · intro c vP vO h1 h2
        rcases getElem?_append_replicate_void _ _ _ _ h1 with h1 | ⟨h1, e1⟩
        · rcases getElem?_append_replicate_void _ _ _ _ h2 with h2 | ⟨h2, _⟩
          · exact (h.rel.vals c vP vO h1 h2).mono (fun p hp => List.mem_append_left _ hp)
          · have := (List.getElem?_eq_some_iff.mp h1).1
            rw [h.rel.len] at this; omega
        · rcases getElem?_append_replicate_void _ _ _ _ h2 with h2 | ⟨_, e2⟩
          · have := (List.getElem?_eq_some_iff.mp h2).1
            rw [h.rel.len] at h1; omega
          · rw [e1, e2]; exact Or.inl rfl
      · intro c cx hc
        rcases getElem?_append_replicate_void _ _ _ _ hc with hc | ⟨_, e⟩
        · obtain ⟨h1, h2⟩ := h.rel.setters c cx hc
          refine ⟨by simp; omega, ?_⟩
          rw [Frozen.has_append, h2, Bool.false_or]
          cases hh : (newFz env' forms).has cx with
          | false => rfl
          | true =>
            unfold Frozen.has at hh
            obtain ⟨p, hp, hpc⟩ := List.any_eq_true.mp hh
            have hpc' : p.1 = cx := by simpa using hpc
            have := hnewfz p.1 p.2 hp
            omega
        · cases e
      · intro c n hm
        have hc := h.fzlt c n hm
        rw [List.getElem?_append_left hc]
        exact h.rel.frozen c n hm
    -- the definitions
    have hD : ∀ f ∈ D, ∃ y, f.defines = some y ∧ (Spec.lookup env' y).isSome ∧
        (∀ g refs, f = .deff g refs → ∀ x n c, Ref.read x ∈ refs → constOf forms x = some n →
          Spec.lookup env' x = some c → (c, n) ∈ fz ++ newFz env' forms) ∧
        (∀ n ∈ f.uses, (Spec.lookup env' n).isSome) ∧
        (∀ x c, f.assigns = some x → Spec.lookup env' x = some c → (fz ++ newFz env' forms).has c = false) ∧
        (∀ c, Spec.lookup env' y = some c → ∀ n, (c, n) ∉ fz) := by
      intro f hf
      obtain ⟨y, hy⟩ := (isDef_iff f).mp (hDdef f hf)
      have hymem : y ∈ defNames forms := mem_defNames.mpr ⟨f, hDI f hf, hy⟩
      refine ⟨y, hy, ?_, ?_, huses f (hDI f hf), ?_, ?_⟩
      · rw [← henv']; exact bindAll_lookup_mem _ sO y (Or.inr hymem)
      · intro g refs e x n c hxr hx hl
        exact List.mem_append_right _ (mem_newFz.mpr ⟨x, readIn_of_mem (e ▸ hDI f hf) hxr, hx, hl⟩)
      · intro x c hx hc; exact guardA_spec hA (hDI f hf) hx hc
      · intro c hc n hm
        have := hnewcell y c hymem hc
        have := h.fzlt c n hm
        omega
    obtain ⟨cP1, cO1, eP, eO, h1, _, hlast⟩ :=
      pgo_defs (forms := forms) I I D _ _ [] [] [] hD h0
    -- every frozen cell now holds its literal
    have h1' : PRel (fz ++ newFz env' forms) (fz ++ newFz env' forms) env' cP1 cO1 := by
      refine ⟨h1.len, h1.vals, h1.envlt, h1.setters, ?_⟩
      intro c n hm
      rcases List.mem_append.mp hm with hm | hm
      · exact h1.frozen c n hm
      · obtain ⟨x, _, hx, hl⟩ := mem_newFz.mp hm
        have hfilt : D.filter (fun f => f.defines == some x) = [.defc x n] := by
          have := (constOf_spec hx).1
          rw [hsplit, List.filter_append] at this
          have hI : I.filter (fun f => f.defines == some x) = [] := by
            apply List.filter_eq_nil_iff.mpr
            intro f hf
            simp [hInone f hf]
          rw [hI, List.append_nil] at this
          exact this
        apply hlast x n c hl hfilt
        intro y hyx hy
        have hc := hnewcell x c (constOf_mem hx) hl
        rw [← henv'] at hl hy
        exact hyx (bindAll_inj _ hlt y x c hy hl hc)
    have hI : ∀ f ∈ I, f.defines = none ∧
        ∀ x c, f.assigns = some x → Spec.lookup env' x = some c → (fz ++ newFz env' forms).has c = false :=
      fun f hf => ⟨hInone f hf, fun x c hx hc => guardA_spec hA (hII f hf) hx hc⟩
    obtain ⟨cP2, cO2, doneP', doneO', out', ok, e3, e4, h2, hdP, hdO⟩ :=
      pgo_uses I cP1 cO1 ([] ++ D.map (pform forms)) ([] ++ D) [] hI h1'
    have eSP : Spec.evalPiece.go env' (propagate forms) []
        (sP.cells ++ List.replicate (defNames forms).length Spec.Val.void) [] = (doneP', cP2, out', ok) := by
      rw [hprop, eP, e3]
    have eSO : Spec.evalPiece.go env' forms []
        (sO.cells ++ List.replicate (defNames forms).length Spec.Val.void) [] = (doneO', cO2, out', ok) := by
      have : ∀ fs, fs = D ++ I → Spec.evalPiece.go env' fs []
          (sO.cells ++ List.replicate (defNames forms).length Spec.Val.void) [] = (doneO', cO2, out', ok) := by
        intro fs hfs; rw [hfs, eO, e4]
      exact this forms hsplit
    simp only [eSP, eSO]
    have hfzlt' : ∀ c n, (c, n) ∈ fz ++ newFz env' forms → c < cO2.length := by
      intro c n hm
      exact (List.getElem?_eq_some_iff.mp (h2.frozen c n hm)).1
    cases ok with
    | true => exact ⟨by first | rfl | trivial, rfl, h2, hfzlt'⟩
    | false =>
      have hexP : ∀ n ∈ defNames forms, n ∈ doneP'.filterMap Form.defines := by
        intro n hn
        rw [hdP, List.nil_append]
        have : defNames (D.map (pform forms)) = defNames D := defNames_map_pform forms D
        unfold defNames at this
        rw [this]
        rw [hN] at hn; exact hn
      have hexO : ∀ n ∈ defNames forms, n ∈ doneO'.filterMap Form.defines := by
        intro n hn
        rw [hdO, List.nil_append]
        rw [hN] at hn; exact hn
      have kP := envKeep_all sO (defNames forms) _ hexP
      have kO := envKeep_all sO (defNames forms) _ hexO
      rw [henv'] at kP kO
      simp only [Bool.false_eq_true, if_false]
      rw [kP, kO]
      exact ⟨by first | rfl | trivial, rfl, h2, hfzlt'⟩
  · simp only [hb, Bool.false_eq_true, if_false]
    exact ⟨by first | rfl | trivial, h⟩

/-! ## Histories -/

theorem pstate_empty : PState [] {} {} := by
  refine ⟨rfl, ⟨rfl, ?_, ?_, ?_, ?_⟩, ?_⟩
  · intro c vP vO h1; simp at h1
  · intro x c hx; simp [Spec.lookup] at hx
  · intro c cx hc; simp at hc
  · intro c n hm; cases hm
  · intro c n hm; cases hm

theorem propagate_refines_from : ∀ (hist : History) {fz : Frozen} {sP sO : Spec.State},
    PState fz sP sO → histOKA fz sO hist = true → runS sP (hist.map propagate) = runS sO hist := by
  intro hist
  induction hist with
  | nil => intro fz sP sO _ _; rfl
  | cons p rest ih =>
    intro fz sP sO h hok
    simp only [histOKA, Bool.and_eq_true] at hok
    obtain ⟨hres, h'⟩ := pstep h p hok.1
    simp only [List.map_cons, runS, hres, ih h' hok.2]

end SteelVerif.C06
