/-
C06 — helper lemmas for the roll-back theorem (`Rollback.lean`): association-list lookup, `rposition`,
one `rollStep`, the well-formedness invariant of the symbol map and its preservation.
-/
import SteelVerif.C06.LemmasRecycler
namespace SteelVerif.C06

/-! ## Association-list lookup (the `map` field read through `get`) -/

/-- `SymMap.get` on the bare association list. -/
def lk (map : List (Name × Nat)) (n : Name) : Option Nat := (map.find? (·.1 == n)).map (·.2)

theorem SymMap.get_eq_lk (m : SymMap) (n : Name) : m.get n = lk m.map n := rfl

theorem lk_mapInsert (map : List (Name × Nat)) (n n' : Name) (i : Nat) :
    lk (mapInsert map n i) n' = if n' = n then some i else lk map n' :=
  find_mapInsert map n n' i

theorem lk_filter_ne (map : List (Name × Nat)) (v n : Name) :
    lk (map.filter (·.1 != v)) n = if n = v then none else lk map n := by
  unfold lk
  rw [List.find?_filter]
  by_cases h : n = v
  · subst h
    simp
  · simp only [h, if_false]
    congr 2
    funext a
    by_cases ha : a.1 = n
    · simp [ha]; exact fun e => h e
    · simp [ha]

/-! ## `rposition` -/

theorem rposition_eq (l : List Nat) (p : Nat → Bool) :
    rposition l p = ((List.range l.length).filter (fun i => l[i]?.any p)).getLast? := by
  unfold rposition
  show (List.filter _ _).getLast? = _
  congr 2
  funext i
  cases l[i]? <;> rfl

theorem rposition_snoc (l : List Nat) (x : Nat) (p : Nat → Bool) :
    rposition (l ++ [x]) p = if p x then some l.length else rposition l p := by
  rw [rposition_eq, rposition_eq]
  have h1 : (List.range l.length).filter (fun i => (l ++ [x])[i]?.any p)
      = (List.range l.length).filter (fun i => l[i]?.any p) := by
    apply List.filter_congr
    intro i hi
    have : i < l.length := List.mem_range.mp hi
    simp [List.getElem?_append_left this]
  have h2 : [l.length].filter (fun i => (l ++ [x])[i]?.any p)
      = if p x then [l.length] else [] := by
    simp [List.filter_cons]
  simp only [List.length_append, List.length_singleton, List.range_succ, List.filter_append, h1, h2,
    List.getLast?_append]
  by_cases hx : p x = true
  · simp [hx]
  · simp [hx]

theorem rposition_append_false (l : List Nat) (p : Nat → Bool) :
    ∀ R : List Nat, (∀ b ∈ R, p b = false) → rposition (l ++ R.reverse) p = rposition l p := by
  intro R
  induction R with
  | nil => intro _; simp
  | cons a R ih =>
    intro h
    rw [List.reverse_cons, ← List.append_assoc, rposition_snoc, h a (by simp)]
    simpa using ih (fun b hb => h b (by simp [hb]))

theorem rposition_nil (p : Nat → Bool) : rposition [] p = none := by
  simp [rposition]

/-- No element satisfies `p`: no position. -/
theorem rposition_none (l : List Nat) (p : Nat → Bool) (h : ∀ b ∈ l, p b = false) :
    rposition l p = none := by
  have := rposition_append_false [] p l.reverse (by simpa using h)
  simpa [rposition_nil] using this

/-- `x` is the last element satisfying `p`: its position. -/
theorem rposition_append_cons (A B : List Nat) (x : Nat) (p : Nat → Bool) (hx : p x = true)
    (hB : ∀ b ∈ B, p b = false) : rposition (A ++ x :: B) p = some A.length := by
  have h := rposition_append_false (A ++ [x]) p B.reverse (by simpa using hB)
  rw [List.reverse_reverse, List.append_assoc] at h
  rw [show A ++ x :: B = A ++ ([x] ++ B) from rfl, h, rposition_snoc, hx]
  rfl

/-- Every list either has no element satisfying `p`, or splits at the last one. -/
theorem split_last (p : Nat → Bool) : ∀ l : List Nat,
    (∀ b ∈ l, p b = false) ∨
      ∃ A x B, l = A ++ x :: B ∧ p x = true ∧ ∀ b ∈ B, p b = false := by
  intro l
  induction l with
  | nil => left; simp
  | cons a l ih =>
    rcases ih with h | ⟨A, x, B, hl, hx, hB⟩
    · by_cases ha : p a = true
      · right; exact ⟨[], a, l, rfl, ha, h⟩
      · left
        intro b hb
        rcases List.mem_cons.mp hb with rfl | hb
        · simpa using ha
        · exact h b hb
    · right; exact ⟨a :: A, x, B, by simp [hl], hx, hB⟩

/-! ## One step of `roll_back`'s loop -/

/-- The name is in force at a slot below the checkpoint: nothing to do. -/
theorem rollStep_skip (values : List Name) (index : Nat) (map : List (Name × Nat)) (sh : List Nat)
    (v : Name) (slot : Nat) (h : lk map v = some slot) (hlt : slot < index) :
    rollStep values index (map, sh) v = (map, sh) := by
  unfold lk at h
  simp only [rollStep, h, hlt, if_true]

/-- The last queued slot named `v` is put in force again and leaves the queue. -/
theorem rollStep_restore (values : List Name) (index : Nat) (map : List (Name × Nat))
    (A B : List Nat) (prev : Nat) (v : Name)
    (hns : ∀ slot, lk map v = some slot → index ≤ slot)
    (hprev : values[prev]? = some v) (hB : ∀ b ∈ B, values[b]? ≠ some v) :
    ∃ map', rollStep values index (map, A ++ prev :: B) v = (map', A ++ B) ∧
      ∀ n, lk map' n = if n = v then some prev else lk map n := by
  have hpos : rposition (A ++ prev :: B) (fun slot => values[slot]? == some v) = some A.length :=
    rposition_append_cons _ _ _ _ (by simp [hprev]) (by intro b hb; simpa using hB b hb)
  have hget : (A ++ prev :: B)[A.length]? = some prev := by simp
  have herase : (A ++ prev :: B).eraseIdx A.length = A ++ B := by
    rw [List.eraseIdx_append_of_length_le (Nat.le_refl _)]; simp
  cases h : lk map v with
  | none =>
    refine ⟨mapInsert map v prev, ?_, fun n => lk_mapInsert ..⟩
    unfold lk at h
    simp only [rollStep, h, hpos, hget, herase]
  | some slot =>
    have hge := hns slot h
    refine ⟨mapInsert (map.filter (·.1 != v)) v prev, ?_, ?_⟩
    · unfold lk at h
      simp only [rollStep, h, if_neg (Nat.not_lt.mpr hge), hpos, hget, herase]
    · intro n
      rw [lk_mapInsert, lk_filter_ne]
      split <;> rfl

/-- No queued slot is named `v`: the name just disappears. -/
theorem rollStep_drop (values : List Name) (index : Nat) (map : List (Name × Nat)) (sh : List Nat)
    (v : Name) (hns : ∀ slot, lk map v = some slot → index ≤ slot)
    (hsh : ∀ s ∈ sh, values[s]? ≠ some v) :
    ∃ map', rollStep values index (map, sh) v = (map', sh) ∧
      ∀ n, lk map' n = if n = v then none else lk map n := by
  have hpos : rposition sh (fun slot => values[slot]? == some v) = none :=
    rposition_none _ _ (by intro b hb; simpa using hsh b hb)
  cases h : lk map v with
  | none =>
    refine ⟨map, ?_, ?_⟩
    · unfold lk at h
      simp only [rollStep, h, hpos]
    · intro n
      split
      · next e => rw [e, h]
      · rfl
  | some slot =>
    have hge := hns slot h
    refine ⟨map.filter (·.1 != v), ?_, fun n => lk_filter_ne ..⟩
    unfold lk at h
    simp only [rollStep, h, if_neg (Nat.not_lt.mpr hge), hpos]

/-- What one step can do, exhaustively. -/
theorem rollStep_cases (values : List Name) (index : Nat) (map : List (Name × Nat)) (sh : List Nat)
    (v : Name) :
    (∃ slot, lk map v = some slot ∧ slot < index ∧ rollStep values index (map, sh) v = (map, sh)) ∨
    (∃ A prev B map', sh = A ++ prev :: B ∧ values[prev]? = some v ∧
        rollStep values index (map, sh) v = (map', A ++ B) ∧
        ∀ n, lk map' n = if n = v then some prev else lk map n) ∨
    ((∀ s ∈ sh, values[s]? ≠ some v) ∧
      ∃ map', rollStep values index (map, sh) v = (map', sh) ∧
        ∀ n, lk map' n = if n = v then none else lk map n) := by
  by_cases hskip : ∃ slot, lk map v = some slot ∧ slot < index
  · obtain ⟨slot, h, hlt⟩ := hskip
    exact Or.inl ⟨slot, h, hlt, rollStep_skip _ _ _ _ _ _ h hlt⟩
  · have hns : ∀ slot, lk map v = some slot → index ≤ slot := by
      intro slot h
      exact Nat.le_of_not_lt fun hlt => hskip ⟨slot, h, hlt⟩
    right
    rcases split_last (fun slot => values[slot]? == some v) sh with hnone | ⟨A, prev, B, hl, hx, hB⟩
    · right
      have hsh : ∀ s ∈ sh, values[s]? ≠ some v := by
        intro s hs; simpa using hnone s hs
      exact ⟨hsh, rollStep_drop _ _ _ _ _ hns hsh⟩
    · left
      have hprev : values[prev]? = some v := by simpa using hx
      have hB' : ∀ b ∈ B, values[b]? ≠ some v := by intro b hb; simpa using hB b hb
      obtain ⟨map', h1, h2⟩ := rollStep_restore values index map A B prev v hns hprev hB'
      exact ⟨A, prev, B, map', hl, hprev, hl ▸ h1, h2⟩

/-! ## The invariant of the symbol map -/

/-- Well-formedness of (slot names, name ↦ slot, queued slots):
* the slot a name resolves to carries that name;
* every queued (shadowed) slot carries a name that currently resolves to *another* slot;
* no slot is queued twice. -/
structure Inv (values : List Name) (map : List (Name × Nat)) (sh : List Nat) : Prop where
  slot_name : ∀ n i, lk map n = some i → values[i]? = some n
  shadowed_bound : ∀ s ∈ sh, ∃ n j, values[s]? = some n ∧ lk map n = some j ∧ j ≠ s
  shadowed_nodup : sh.Nodup

/-- The invariant of `SymbolMap` (free list aside). -/
def SymMap.WF (m : SymMap) : Prop := Inv m.values m.map m.fl.shadowed

/-- The free-list part of the invariant: a reclaimed slot exists, is neither in force nor queued, and is
listed once. -/
structure SymMap.FreeOK (m : SymMap) : Prop where
  free_lt : ∀ f ∈ m.fl.free, f < m.values.length
  free_not_shadowed : ∀ f ∈ m.fl.free, f ∉ m.fl.shadowed
  free_not_mapped : ∀ f ∈ m.fl.free, ∀ n, m.get n ≠ some f
  free_nodup : m.fl.free.Nodup

theorem Inv.slot_lt {values map sh} (h : Inv values map sh) {n i} (hn : lk map n = some i) :
    i < values.length := by
  have := h.slot_name n i hn
  exact (List.getElem?_eq_some_iff.mp this).1

theorem Inv.inj {values map sh} (h : Inv values map sh) {n n' i} (hn : lk map n = some i)
    (hn' : lk map n' = some i) : n = n' := by
  have h1 := h.slot_name n i hn
  have h2 := h.slot_name n' i hn'
  rw [h1] at h2
  exact Option.some.inj h2

theorem Inv.shadowed_lt {values map sh} (h : Inv values map sh) {s} (hs : s ∈ sh) :
    s < values.length := by
  obtain ⟨n, j, hv, _, _⟩ := h.shadowed_bound s hs
  exact (List.getElem?_eq_some_iff.mp hv).1

/-- A slot that is in force is not queued. -/
theorem Inv.mapped_not_shadowed {values map sh} (h : Inv values map sh) {n i}
    (hn : lk map n = some i) : i ∉ sh := by
  intro hs
  obtain ⟨n', j, hv, hj, hne⟩ := h.shadowed_bound i hs
  have h1 := h.slot_name n i hn
  rw [h1] at hv
  have : n = n' := Option.some.inj hv
  subst this
  rw [hn] at hj
  exact hne (Option.some.inj hj).symm

theorem wf_empty : ({} : SymMap).WF :=
  ⟨(by intro n i h; simp [lk] at h), (by intro s hs; cases hs), List.nodup_nil⟩

theorem freeOK_empty : ({} : SymMap).FreeOK :=
  ⟨(by intro f hf; cases hf), (by intro f hf; cases hf), (by intro f hf; cases hf), List.nodup_nil⟩

/-! ### `add` keeps the invariant -/

theorem add_values_fresh (m : SymMap) (n : Name) (h : m.fl.free = []) :
    (m.add n).1.values = m.values ++ [n] := (add_fresh m n h).2.1

theorem add_free_fresh (m : SymMap) (n : Name) (h : m.fl.free = []) :
    (m.add n).1.fl.free = [] := (add_fresh m n h).2.2

theorem add_map_fresh (m : SymMap) (n : Name) (h : m.fl.free = []) :
    (m.add n).1.map = mapInsert m.map n m.values.length := by
  simp [SymMap.add, h]

theorem add_fl_rest (m : SymMap) (n : Name) :
    (m.add n).1.fl.threshold = m.fl.threshold ∧ (m.add n).1.fl.multiplier = m.fl.multiplier ∧
      (m.add n).1.fl.epoch = m.fl.epoch := by
  simp [SymMap.add]

/-- `add` keeps the invariant when it takes a brand-new slot. -/
theorem add_wf (m : SymMap) (n : Name) (hw : m.WF) (hf : m.fl.free = []) : (m.add n).1.WF := by
  unfold SymMap.WF
  rw [add_values_fresh m n hf, add_map_fresh m n hf, shadowed_add]
  have hlk : ∀ n', lk (mapInsert m.map n m.values.length) n' =
      if n' = n then some m.values.length else lk m.map n' := fun n' => lk_mapInsert ..
  have hold : ∀ (i : Nat) (x : Name), m.values[i]? = some x → (m.values ++ [n])[i]? = some x := by
    intro i x hx
    rw [List.getElem?_append_left (List.getElem?_eq_some_iff.mp hx).1]; exact hx
  -- the part that does not depend on what was in force
  have hslot : ∀ n' i, lk (mapInsert m.map n m.values.length) n' = some i →
      (m.values ++ [n])[i]? = some n' := by
    intro n' i h
    rw [hlk] at h
    split at h
    · next e => cases h; subst e; simp
    · exact hold _ _ (hw.slot_name n' i h)
  have hbound : ∀ s ∈ m.fl.shadowed, ∃ n' j, (m.values ++ [n])[s]? = some n' ∧
      lk (mapInsert m.map n m.values.length) n' = some j ∧ j ≠ s := by
    intro s hs
    obtain ⟨n', j, hv, hj, hne⟩ := hw.shadowed_bound s hs
    by_cases e : n' = n
    · refine ⟨n', m.values.length, hold _ _ hv, by rw [hlk, if_pos e], ?_⟩
      exact Nat.ne_of_gt (hw.shadowed_lt hs)
    · exact ⟨n', j, hold _ _ hv, by rw [hlk, if_neg e]; exact hj, hne⟩
  cases hp : m.get n with
  | none => exact ⟨hslot, hbound, hw.shadowed_nodup⟩
  | some p =>
    have hp' : lk m.map n = some p := hp
    refine ⟨hslot, ?_, ?_⟩
    · intro s hs
      rcases List.mem_append.mp hs with hs | hs
      · exact hbound s hs
      · have : s = p := by simpa using hs
        subst this
        refine ⟨n, m.values.length, hold _ _ (hw.slot_name n s hp'), by rw [hlk, if_pos rfl], ?_⟩
        exact Nat.ne_of_gt (hw.slot_lt hp')
    · refine List.nodup_append.mpr ⟨hw.shadowed_nodup, by simp, ?_⟩
      intro a ha b hb
      have : b = p := by simpa using hb
      subst this
      intro e; subst e
      exact hw.mapped_not_shadowed hp' ha

/-! ### `roll_back` keeps the invariant (any checkpoint) -/

/-- Invariant of `roll_back`'s loop: `Inv` on the untruncated slot names, every queued slot below the
checkpoint, every name in force at or above the checkpoint still to be processed. -/
structure LoopInv (vs : List Name) (k : Nat) (rest : List Name) (map : List (Name × Nat))
    (sh : List Nat) : Prop where
  inv : Inv vs map sh
  sh_lt : ∀ s ∈ sh, s < k
  pending : ∀ n i, lk map n = some i → i < k ∨ n ∈ rest

theorem getElem?_take_lt {α} (l : List α) {k s : Nat} (h : s < k) : (l.take k)[s]? = l[s]? := by
  rw [List.getElem?_take, if_pos h]

theorem loopInv_step (vs : List Name) (k : Nat) (v : Name) (rest : List Name)
    (map : List (Name × Nat)) (sh : List Nat) (h : LoopInv vs k (v :: rest) map sh) :
    LoopInv vs k rest (rollStep (vs.take k) k (map, sh) v).1 (rollStep (vs.take k) k (map, sh) v).2 := by
  rcases rollStep_cases (vs.take k) k map sh v with
    ⟨slot, hs, hlt, he⟩ | ⟨A, prev, B, map', hl, hprev, he, hlk⟩ | ⟨hno, map', he, hlk⟩
  · rw [he]
    refine ⟨h.inv, h.sh_lt, ?_⟩
    intro n i hn
    rcases h.pending n i hn with hi | hm
    · exact Or.inl hi
    · rcases List.mem_cons.mp hm with e | hm
      · subst e; rw [hs] at hn; cases hn; exact Or.inl hlt
      · exact Or.inr hm
  · rw [he]
    have hprev_mem : prev ∈ sh := by rw [hl]; simp
    have hprev_lt : prev < k := h.sh_lt prev hprev_mem
    have hprev' : vs[prev]? = some v := by rw [← getElem?_take_lt vs hprev_lt]; exact hprev
    have hnd : (A ++ prev :: B).Nodup := hl ▸ h.inv.shadowed_nodup
    have hmem : ∀ s ∈ A ++ B, s ∈ sh ∧ s ≠ prev := by
      intro s hs
      rw [List.nodup_append] at hnd
      obtain ⟨_, hndB, hdis⟩ := hnd
      rcases List.mem_append.mp hs with ha | hb
      · exact ⟨by rw [hl]; simp [ha], hdis s ha prev (by simp)⟩
      · refine ⟨by rw [hl]; simp [hb], ?_⟩
        intro e; subst e
        exact (List.nodup_cons.mp hndB).1 hb
    refine ⟨⟨?_, ?_, ?_⟩, ?_, ?_⟩
    · intro n i hn
      rw [hlk] at hn
      split at hn
      · next e => cases hn; subst e; exact hprev'
      · exact h.inv.slot_name n i hn
    · intro s hs
      obtain ⟨hs1, hs2⟩ := hmem s hs
      obtain ⟨n, j, hv, hj, hne⟩ := h.inv.shadowed_bound s hs1
      by_cases e : n = v
      · exact ⟨n, prev, hv, by rw [hlk, if_pos e], fun e' => hs2 e'.symm⟩
      · exact ⟨n, j, hv, by rw [hlk, if_neg e]; exact hj, hne⟩
    · have : (A ++ B).Sublist (A ++ prev :: B) :=
        List.Sublist.append_left (List.sublist_cons_self prev B) A
      exact hnd.sublist this
    · intro s hs; exact h.sh_lt s (hmem s hs).1
    · intro n i hn
      rw [hlk] at hn
      split at hn
      · cases hn; exact Or.inl hprev_lt
      · next e =>
        rcases h.pending n i hn with hi | hm
        · exact Or.inl hi
        · rcases List.mem_cons.mp hm with e' | hm
          · exact absurd e' e
          · exact Or.inr hm
  · rw [he]
    refine ⟨⟨?_, ?_, h.inv.shadowed_nodup⟩, h.sh_lt, ?_⟩
    · intro n i hn
      rw [hlk] at hn
      split at hn
      · cases hn
      · exact h.inv.slot_name n i hn
    · intro s hs
      obtain ⟨n, j, hv, hj, hne⟩ := h.inv.shadowed_bound s hs
      have e : n ≠ v := by
        intro e; subst e
        exact hno s hs (by rw [getElem?_take_lt vs (h.sh_lt s hs)]; exact hv)
      exact ⟨n, j, hv, by rw [hlk, if_neg e]; exact hj, hne⟩
    · intro n i hn
      rw [hlk] at hn
      split at hn
      · cases hn
      · next e =>
        rcases h.pending n i hn with hi | hm
        · exact Or.inl hi
        · rcases List.mem_cons.mp hm with e' | hm
          · exact absurd e' e
          · exact Or.inr hm

theorem loopInv_fold (vs : List Name) (k : Nat) : ∀ (rest : List Name) (acc : List (Name × Nat) × List Nat),
    LoopInv vs k rest acc.1 acc.2 →
    LoopInv vs k [] (rest.foldl (rollStep (vs.take k) k) acc).1
      (rest.foldl (rollStep (vs.take k) k) acc).2 := by
  intro rest
  induction rest with
  | nil => intro acc h; exact h
  | cons v rest ih =>
    intro acc h
    rw [List.foldl_cons]
    exact ih _ (loopInv_step vs k v rest acc.1 acc.2 h)

theorem rollBack_values (m : SymMap) (k : Nat) : (m.rollBack k).values = m.values.take k := rfl

theorem rollBack_map (m : SymMap) (k : Nat) : (m.rollBack k).map =
    ((m.values.drop k).reverse.foldl (rollStep (m.values.take k) k)
      (m.map, m.fl.shadowed.filter (· < k))).1 := rfl

theorem rollBack_shadowed (m : SymMap) (k : Nat) : (m.rollBack k).fl.shadowed =
    ((m.values.drop k).reverse.foldl (rollStep (m.values.take k) k)
      (m.map, m.fl.shadowed.filter (· < k))).2 := rfl

theorem rollBack_fl_rest (m : SymMap) (k : Nat) :
    (m.rollBack k).fl.free = m.fl.free ∧ (m.rollBack k).fl.threshold = m.fl.threshold ∧
      (m.rollBack k).fl.multiplier = m.fl.multiplier ∧ (m.rollBack k).fl.epoch = m.fl.epoch :=
  ⟨rfl, rfl, rfl, rfl⟩

/-- `roll_back` to any checkpoint keeps the invariant. -/
theorem rollBack_wf (m : SymMap) (k : Nat) (hw : m.WF) : (m.rollBack k).WF := by
  unfold SymMap.WF
  rw [rollBack_values, rollBack_map, rollBack_shadowed]
  have h0 : LoopInv m.values k (m.values.drop k).reverse m.map (m.fl.shadowed.filter (· < k)) := by
    refine ⟨⟨hw.slot_name, ?_, hw.shadowed_nodup.sublist List.filter_sublist⟩, ?_, ?_⟩
    · intro s hs
      exact hw.shadowed_bound s (List.mem_filter.mp hs).1
    · intro s hs
      simpa using (List.mem_filter.mp hs).2
    · intro n i hn
      by_cases hi : i < k
      · exact Or.inl hi
      · right
        have hv := hw.slot_name n i hn
        have hk : k ≤ i := Nat.le_of_not_lt hi
        have : (m.values.drop k)[i - k]? = some n := by
          rw [List.getElem?_drop]
          rw [show k + (i - k) = i by omega]; exact hv
        exact List.mem_reverse.mpr (List.mem_of_getElem? this)
  have h := loopInv_fold m.values k _ (m.map, m.fl.shadowed.filter (· < k)) h0
  refine ⟨?_, ?_, h.inv.shadowed_nodup⟩
  · intro n i hn
    have hv := h.inv.slot_name n i hn
    rcases h.pending n i hn with hi | hm
    · rw [getElem?_take_lt _ hi]; exact hv
    · cases hm
  · intro s hs
    obtain ⟨n, j, hv, hj, hne⟩ := h.inv.shadowed_bound s hs
    exact ⟨n, j, by rw [getElem?_take_lt _ (h.sh_lt s hs)]; exact hv, hj, hne⟩

end SteelVerif.C06
