import SteelVerif.C18.LemmasWl
/-
C18 — termination of the cycle collector (`ccStep`, first phase of printing) on arbitrary graphs.
-/
namespace SteelVerif.C18

theorem ccExpands_ne_leaf {k : Kind} (h : ccExpands k = true) : k ≠ .leaf := by
  cases k <;> simp [ccExpands] at h ⊢

/-- the nodes that end the unrecorded phase or are not expanded at all -/
def ccTrackedA (c : Cfg) (g : Graph) (v : Nat) : Bool :=
  ccSetsFound c (g.kind v) || !ccExpands (g.kind v) || c.ccTracksAlways

def ccPhaseB (c : Cfg) (s : CcSt) : Bool := s.found || c.ccTracksAlways

def ccMeasure (c : Cfg) (g : Graph) (s : CcSt) : Nat :=
  if ccPhaseB c s then unseen (List.range g.size) s.vis * (g.maxDeg + 1) + s.work.length
  else g.size * (g.maxDeg + 1) + sumW (expWt g (ccTrackedA c g)) s.work

theorem ccStep_decreases (c : Cfg) (g : Graph) (hd : ccDescB c g = true) (s s' : CcSt)
    (hs : ccStep c g s = .next s') : ccMeasure c g s' < ccMeasure c g s := by
  unfold ccStep at hs
  cases hw : s.work with
  | nil => simp [hw] at hs
  | cons v rest =>
    simp only [hw] at hs
    have hwpos := expWt_pos g (ccTrackedA c g) v
    have hUle := unseen_le_length (List.range g.size) s.vis
    simp only [List.length_range] at hUle
    have hUmul := Nat.mul_le_mul_right (g.maxDeg + 1) hUle
    by_cases he : ccExpands (g.kind v) = true
    · simp only [he, Bool.not_true, Bool.false_eq_true, if_false] at hs
      have hvlt : v < g.size := lt_size_of_kind_ne_leaf g (ccExpands_ne_leaf he)
      have hdeg := sons_length_le g v
      by_cases hB : (s.found || ccSetsFound c (g.kind v) || c.ccTracksAlways) = true
      · -- recording is (now) on
        have hB' : ((s.found || ccSetsFound c (g.kind v)) || c.ccTracksAlways) = true := hB
        simp only [hB', if_true] at hs
        by_cases hc : s.vis.contains v = true
        · simp only [hc, if_true] at hs
          cases hs
          unfold ccMeasure ccPhaseB
          simp only [hw]
          have hnew : (s.found || ccSetsFound c (g.kind v) || c.ccTracksAlways) = true := hB
          simp only [hnew, if_true]
          split
          · simp only [List.length_cons]; omega
          · have := length_le_sumW (expWt g (ccTrackedA c g)) rest (expWt_pos g _)
            simp only [sumW_cons]
            omega
        · simp only [hc, Bool.false_eq_true, if_false] at hs
          cases hs
          unfold ccMeasure ccPhaseB
          simp only [hw]
          have hnew : (s.found || ccSetsFound c (g.kind v) || c.ccTracksAlways) = true := hB
          simp only [hnew, if_true]
          have hnot : v ∉ s.vis := by simpa using hc
          have hlt := unseen_cons_lt (List.range g.size) s.vis v (List.mem_range.mpr hvlt) hnot
          have hm : (unseen (List.range g.size) (v :: s.vis) + 1) * (g.maxDeg + 1) ≤ unseen (List.range g.size) s.vis * (g.maxDeg + 1) :=
            Nat.mul_le_mul_right _ hlt
          rw [Nat.add_mul] at hm
          split
          · simp only [List.length_cons, List.length_append]; omega
          · have := length_le_sumW (expWt g (ccTrackedA c g)) rest (expWt_pos g _)
            simp only [sumW_cons, List.length_append]
            omega
      · -- still unrecorded: expand without remembering
        have hB' : ((s.found || ccSetsFound c (g.kind v)) || c.ccTracksAlways) = false := by simpa using hB
        simp only [hB', Bool.false_eq_true, if_false] at hs
        cases hs
        simp only [Bool.or_eq_false_iff] at hB'
        obtain ⟨⟨hf, hsf⟩, hta⟩ := hB'
        unfold ccMeasure ccPhaseB
        simp only [hw, hf, hsf, hta, Bool.or_self, Bool.false_eq_true, if_false]
        have htr : ccTrackedA c g v = false := by simp [ccTrackedA, hsf, he, hta]
        have := expWt_sons_lt g (ccTrackedA c g) (by unfold ccDescB at hd; exact hd) v htr
        simp only [sumW_append, sumW_cons]
        omega
    · simp only [he, Bool.not_false, if_true] at hs
      cases hs
      unfold ccMeasure ccPhaseB
      simp only [hw]
      split
      · simp only [List.length_cons]; omega
      · simp only [sumW_cons]; omega

def ccBound (g : Graph) : Nat := g.size * (g.maxDeg + 1) + (g.maxDeg + 1) ^ g.size + 1

theorem cc_terminates (c : Cfg) (g : Graph) (hd : ccDescB c g = true) (root : Nat) :
    ∃ fuel, fuel ≤ ccBound g ∧ ∃ r, iter (ccStep c g) fuel { work := [root], vis := [], found := false } = some r := by
  obtain ⟨r, hr⟩ := iter_of_measure (fun _ => True) (ccMeasure c g) (fun _ _ _ _ => trivial)
    (fun s s' _ h => ccStep_decreases c g hd s s' h) _ { work := [root], vis := [], found := false } trivial (Nat.le_refl _)
  refine ⟨_, ?_, r, hr⟩
  unfold ccMeasure ccBound
  have h1 := unseen_le_length (List.range g.size) ([] : List Nat)
  simp only [List.length_range] at h1
  have h2 := Nat.mul_le_mul_right (g.maxDeg + 1) h1
  have h3 := expWt_le g (ccTrackedA c g) root
  have h4 : 1 ≤ (g.maxDeg + 1) ^ g.size := Nat.pow_pos (by omega)
  split
  · simp only [List.length_cons, List.length_nil]; omega
  · simp only [sumW_cons, sumW_nil]; omega

end SteelVerif.C18
