import SteelVerif.C18.LemmasMachine
import SteelVerif.C18.LemmasDropAll
import SteelVerif.C18.LemmasEq
import SteelVerif.C18.LemmasDepth
/-
C18 — heap space and rounds of the worklists (linear in the number of edges), sweep, reference-count cycles, nested
comparisons of keys, the second phase of printing, the prelude's printer, `serialize-value`, call graphs.
-/
namespace SteelVerif.C18

/-! ## the worklist never holds more than `|roots| + |edges|` entries, and ends after that many rounds -/

def deg (g : Graph) (v : Nat) : Nat := (g.sons v).length

/-- edges leaving nodes that have no mark yet -/
def edgesUnseen (g : Graph) (vis : List Nat) : Nat :=
  ((List.range g.size).map fun u => if u ∈ vis then 0 else deg g u).sum

theorem edgesUnseen_nil (g : Graph) : edgesUnseen g [] = g.edges := by
  simp [edgesUnseen, Graph.edges, deg]

theorem edgesUnseen_cons (g : Graph) (vis : List Nat) (v : Nat) (hv : v < g.size) (hn : v ∉ vis) :
    edgesUnseen g vis = edgesUnseen g (v :: vis) + deg g v := by
  unfold edgesUnseen
  have := sum_map_zero_one (List.range g.size) List.nodup_range
    (fun u => if u ∈ vis then 0 else deg g u)
    (fun u => if u ∈ v :: vis then 0 else deg g u) v (List.mem_range.mpr hv)
    (by simp)
    (by
      intro u hu
      by_cases h : u ∈ vis
      · simp [h]
      · simp [h, hu])
  simp only [hn, if_false] at this
  exact this

/-- potential: entries in the worklist + edges that can still be pushed -/
def wlPot (g : Graph) (s : WlSt) : Nat := s.work.length + edgesUnseen g s.vis

/-- when every node with children is tracked, every round lowers the potential by exactly one -/
theorem wlStep_pot (g : Graph) (tracked : Nat → Bool)
    (hall : ∀ v, tracked v = false → g.sons v = []) (h4 : ∀ v, tracked v = true → v < g.size)
    (s s' : WlSt) (hs : wlStep g tracked s = .next s') : wlPot g s' + 1 = wlPot g s := by
  unfold wlStep at hs
  cases hw : s.work with
  | nil => simp [hw] at hs
  | cons v rest =>
    simp only [hw] at hs
    unfold wlPot
    rw [hw]
    cases ht : tracked v with
    | false =>
      simp only [ht, Bool.false_eq_true, if_false] at hs
      cases hs
      simp [hall v ht]
      omega
    | true =>
      simp only [ht, if_true] at hs
      by_cases hc : s.vis.contains v = true
      · simp only [hc, if_true] at hs
        cases hs
        simp
        omega
      · simp only [hc, Bool.false_eq_true, if_false] at hs
        cases hs
        have hnot : v ∉ s.vis := by simpa using hc
        have := edgesUnseen_cons g s.vis v (h4 v ht) hnot
        simp only [List.length_append, List.length_cons, deg] at this ⊢
        omega

/-- **heap space of the worklist**: in every state the loop reaches, the worklist holds at most `|roots| + |edges|`
    entries — for every graph (cyclic, shared), when every node with children carries a visited mark. -/
theorem wl_space_linear (g : Graph) (tracked : Nat → Bool)
    (hall : ∀ v, tracked v = false → g.sons v = []) (h4 : ∀ v, tracked v = true → v < g.size)
    (roots : List Nat) (n : Nat) (t : WlSt) (h : runN (wlStep g tracked) n { work := roots, vis := [] } = some t) :
    t.work.length ≤ roots.length + g.edges := by
  have := runN_inv (fun s => wlPot g s ≤ roots.length + g.edges)
    (fun s s' hI hs => by have := wlStep_pot g tracked hall h4 s s' hs; omega) n _ t
    (by simp [wlPot, edgesUnseen_nil]) h
  unfold wlPot at this
  omega

/-- … and the loop ends within `|roots| + |edges| + 1` rounds -/
theorem wl_terminates_linear (g : Graph) (tracked : Nat → Bool)
    (hall : ∀ v, tracked v = false → g.sons v = []) (h4 : ∀ v, tracked v = true → v < g.size) (roots : List Nat) :
    ∃ r, iter (wlStep g tracked) (roots.length + g.edges + 1) { work := roots, vis := [] } = some r := by
  have := iter_of_measure (fun _ => True) (wlPot g) (fun _ _ _ _ => trivial)
    (fun s s' _ hs => by have := wlStep_pot g tracked hall h4 s s' hs; omega)
    (roots.length + g.edges) { work := roots, vis := [] } trivial (by simp [wlPot, edgesUnseen_nil])
  exact this

/-! ## the drop worklist: at most `1 + |edges|` entries (every node is taken apart at most once) -/

def dropPot (g : Graph) (s : DropSt) : Nat := s.work.length + edgesUnseen g s.freed

/-- a node whose count is 1 has not been freed before (freed nodes have count 0) -/
def DropFreedZero (s : DropSt) : Prop := ∀ v ∈ s.freed, s.rc.getD v 0 = 0

theorem dropStep_freedZero (g : Graph) (s s' : DropSt) (hI : DropFreedZero s) (hs : dropStep g s = .next s') : DropFreedZero s' := by
  unfold dropStep at hs
  cases hw : s.work with
  | nil => simp [hw] at hs
  | cons v rest =>
    simp only [hw] at hs
    split at hs
    · cases hs; exact hI
    · split at hs
      · cases hs
        intro u hu
        rcases List.mem_cons.mp hu with rfl | hu
        · rw [getD_set]; split <;> simp_all
        · rw [getD_set]; split
          · rfl
          · exact hI u hu
      · cases hs
        intro u hu
        have h0 := hI u hu
        rw [getD_set]
        split
        · rename_i h; obtain ⟨rfl, _⟩ := h; simp_all
        · exact h0

theorem dropStep_pot (g : Graph) (s s' : DropSt) (hI : DropFreedZero s) (hs : dropStep g s = .next s') : dropPot g s' ≤ dropPot g s := by
  unfold dropStep at hs
  cases hw : s.work with
  | nil => simp [hw] at hs
  | cons v rest =>
    simp only [hw] at hs
    unfold dropPot
    rw [hw]
    split at hs
    · cases hs; simp
    · split at hs
      · rename_i h0 h1
        cases hs
        have hnot : v ∉ s.freed := fun hm => by have := hI v hm; omega
        by_cases hv : v < g.size
        · have := edgesUnseen_cons g s.freed v hv hnot
          simp only [List.length_append, List.length_cons, deg] at this ⊢
          omega
        · simp only [sons_of_ge g (by omega : g.size ≤ v), List.nil_append, List.length_cons]
          have : edgesUnseen g (v :: s.freed) = edgesUnseen g s.freed := by
            unfold edgesUnseen
            congr 1
            apply List.map_congr_left
            intro u hu
            have : u ≠ v := by have := List.mem_range.mp hu; omega
            simp [this]
          omega
      · cases hs; simp

/-- **heap space of the drop handler**: for every graph and every table of strong counts the drop buffer never holds
    more than `1 + |edges|` values. -/
theorem drop_space_linear (g : Graph) (rc : List Nat) (root : Nat) (n : Nat) (t : DropSt)
    (h : runN (dropStep g) n { work := [root], rc := rc, freed := [] } = some t) : t.work.length ≤ 1 + g.edges := by
  have := runN_inv (fun s => DropFreedZero s ∧ dropPot g s ≤ 1 + g.edges)
    (fun s s' hI hs => ⟨dropStep_freedZero g s s' hI.1 hs, Nat.le_trans (dropStep_pot g s s' hI.1 hs) hI.2⟩) n _ t
    ⟨(by intro v hv; cases hv), (by simp [dropPot, edgesUnseen_nil])⟩ h
  have h2 := this.2
  unfold dropPot at h2
  omega

/-- **reference-count cycles are leaked**: when the value is still referenced from somewhere else (from inside itself:
    a cycle of strong boxes) at the moment the outside reference is dropped, nothing at all is taken apart. -/
theorem drop_shared_root_frees_nothing (g : Graph) (rc : List Nat) (root : Nat) (h : 2 ≤ rc.getD root 0) :
    iter (dropStep g) 2 { work := [root], rc := rc, freed := [] } = some ([], rc.set root (rc.getD root 0 - 1)) := by
  have h0 : ¬ rc.getD root 0 = 0 := by omega
  have h1 : ¬ rc.getD root 0 = 1 := by omega
  simp only [iter, dropStep, if_neg h0, if_neg h1]

/-! ## sweep -/

theorem sweep_run (marked : List Nat) : ∀ (todo free : List Nat),
    ∃ r, iter (sweepStep marked) (todo.length + 1) { todo := todo, free := free } = some r ∧
      ∀ v, v ∈ r ↔ v ∈ free ∨ (v ∈ todo ∧ v ∉ marked) := by
  intro todo
  induction todo with
  | nil => intro free; exact ⟨free, by simp [iter, sweepStep], by simp⟩
  | cons x xs ih =>
    intro free
    obtain ⟨r, hr, hm⟩ := ih (if marked.contains x then free else x :: free)
    refine ⟨r, by simpa [iter, sweepStep] using hr, ?_⟩
    intro v
    rw [hm v]
    by_cases hx : marked.contains x = true
    · have hx' : x ∈ marked := by simpa using hx
      simp only [hx, if_true, List.mem_cons]
      constructor
      · rintro (h | ⟨h1, h2⟩)
        · exact Or.inl h
        · exact Or.inr ⟨Or.inr h1, h2⟩
      · rintro (h | ⟨h1 | h1, h2⟩)
        · exact Or.inl h
        · subst h1; exact absurd hx' h2
        · exact Or.inr ⟨h1, h2⟩
    · have hx' : x ∉ marked := by simpa using hx
      simp only [hx, Bool.false_eq_true, if_false, List.mem_cons]
      constructor
      · rintro ((h | h) | ⟨h1, h2⟩)
        · subst h; exact Or.inr ⟨Or.inl rfl, hx'⟩
        · exact Or.inl h
        · exact Or.inr ⟨Or.inr h1, h2⟩
      · rintro (h | ⟨h1 | h1, h2⟩)
        · exact Or.inl (Or.inr h)
        · exact Or.inl (Or.inl h1)
        · exact Or.inr ⟨h1, h2⟩

theorem mem_slots (g : Graph) (v : Nat) : v ∈ slots g ↔ (g.kind v = .box ∨ g.kind v = .mvec) := by
  unfold slots
  simp only [List.mem_filter, List.mem_range, Bool.or_eq_true, beq_iff_eq]
  constructor
  · exact fun h => h.2
  · intro h
    refine ⟨lt_size_of_kind_ne_leaf g ?_, h⟩
    rcases h with h | h <;> simp [h]

theorem slots_length_le (g : Graph) : (slots g).length ≤ g.size := by
  unfold slots
  have := List.length_filter_le (fun v => g.kind v == .box || g.kind v == .mvec) (List.range g.size)
  simpa using this

/-! ## nested comparison of keys -/

/-- with every descending arm checked, `==` with `d` native re-entries available for container keys ends, whatever `d`
    is: each level is one run of the worklist with a total key comparison -/
theorem eqRun_terminates (c : Cfg) (hc : eqAllChecked c = true) (g : Graph) (d a b : Nat) :
    ∃ r : Bool, eqRun c g (eqBoundPoly g) d a b = some r := by
  cases d with
  | zero =>
    obtain ⟨fuel, hf, r, hr⟩ := eq_terminates_poly c hc g (leafKeyEq g) a b
    exact ⟨r, by unfold eqRun; exact iter_mono hr hf⟩
  | succ d =>
    obtain ⟨fuel, hf, r, hr⟩ := eq_terminates_poly c hc g (fun k k' =>
      if g.kind k == .leaf || g.kind k' == .leaf then leafKeyEq g k k'
      else (eqRun c g (eqBoundPoly g) d k k').getD false) a b
    exact ⟨r, by unfold eqRun; exact iter_mono hr hf⟩

/-! ## second phase of printing -/

theorem fmtList_some (go : Nat → Option (List PTok)) : ∀ (cs : List Nat), (∀ c ∈ cs, (go c).isSome = true) → (fmtList go cs).isSome = true := by
  intro cs
  induction cs with
  | nil => intro _; rfl
  | cons c cs ih =>
    intro h
    have h1 := h c (List.mem_cons_self ..)
    have h2 := ih (fun x hx => h x (List.mem_cons_of_mem _ hx))
    simp only [fmtList]
    cases hc : go c with
    | none => simp [hc] at h1
    | some a =>
      cases hl : fmtList go cs with
      | none => simp [hl] at h2
      | some b => rfl

/-- when no kind re-enters `Display`, `format_with_cycles` returns a finite text within `printLimit + 1 − ctr` frames:
    for every graph, every label table -/
theorem fmtOut_total (c : Cfg) (g : Graph) (labels : List Nat) (h : ∀ v, printReenters c (g.kind v) = false) :
    ∀ (fuel ctr : Nat) (top : Bool) (v : Nat), ctr ≤ printLimit → printLimit + 1 ≤ fuel + ctr →
      (fmtOut c g labels fuel ctr top v).isSome = true := by
  intro fuel
  induction fuel with
  | zero => intro ctr top v h1 h2; omega
  | succ f ih =>
    intro ctr top v h1 h2
    unfold fmtOut
    by_cases hlim : ctr ≥ printLimit
    · simp [hlim]
    · simp only [hlim, if_false]
      have hr := h v
      have hkids : (fmtList (fmtOut c g labels f (ctr + 1) false) (g.sons v)).isSome = true :=
        fmtList_some _ _ (fun j _ => ih (ctr + 1) false j (by omega) (by omega))
      cases hk : g.kind v <;> simp only [hk] at hr ⊢ <;> try rfl
      all_goals
        simp only [hr, Bool.false_eq_true, if_false]
        split
        · rfl
        · cases hb : fmtList (fmtOut c g labels f (ctr + 1) false) (g.sons v) with
          | none => simp [hb] at hkids
          | some body => rfl

theorem fmtAll_total (c : Cfg) (g : Graph) (labels : List Nat) (h : ∀ v, printReenters c (g.kind v) = false) (root : Nat) :
    (fmtAll c g labels (printLimit + 1) root).isSome = true := by
  unfold fmtAll
  have hh : (fmtList (fun l => fmtOut c g labels (printLimit + 1) 0 true l) labels).isSome = true :=
    fmtList_some _ _ (fun l _ => fmtOut_total c g labels h _ 0 true l (by omega) (by omega))
  cases hl : fmtList (fun l => fmtOut c g labels (printLimit + 1) 0 true l) labels with
  | none => simp [hl] at hh
  | some hs =>
    simp only
    split
    · rfl
    · have := fmtOut_total c g labels h (printLimit + 1) 0 false root (by omega) (by omega)
      cases hr : fmtOut c g labels (printLimit + 1) 0 false root with
      | none => simp [hr] at this
      | some r => rfl

/-! ## the prelude's printer -/

/-- when from every node the printer only goes to labelled nodes or nodes of smaller index, its recursion from `v` is at
    most `v + 2` deep, whatever the fuel -/
theorem preludeDepth_le (g : Graph) (labels : List Nat) (hg : labelsCutB g labels = true) :
    ∀ (fuel : Nat) (top : Bool) (v : Nat), preludeDepth g labels fuel top v ≤ v + 2 := by
  intro fuel
  induction fuel with
  | zero => intro top v; simp [preludeDepth]
  | succ f ih =>
    intro top v
    simp only [preludeDepth]
    split
    · omega
    · have : maxL ((printerSons g v).map (preludeDepth g labels f false)) ≤ v + 1 := by
        apply maxL_le
        intro x hx
        rw [List.mem_map] at hx
        obtain ⟨j, hj, rfl⟩ := hx
        by_cases hv : v < g.size
        · unfold labelsCutB at hg
          rw [List.all_eq_true] at hg
          have h1 := hg v (List.mem_range.mpr hv)
          rw [List.all_eq_true] at h1
          have h2 := h1 j hj
          simp only [Bool.or_eq_true, decide_eq_true_eq] at h2
          rcases h2 with h2 | h2
          · cases f with
            | zero => simp [preludeDepth]
            | succ f' =>
              simp only [preludeDepth, h2]
              simp
          · have := ih false j
            omega
        · have hk : g.kind v = .leaf := kind_of_ge g (i := v) (by omega)
          simp [printerSons, hk] at hj
      omega

/-- K18k: the struct that holds itself in a mutable field: the collector labels the slot of the field, which the printer
    never sees — the recursion uses all the fuel it gets -/
theorem preludeDepth_selfStruct : ∀ (fuel : Nat) (top : Bool), preludeDepth selfStruct [1] fuel top 0 = fuel := by
  intro fuel
  induction fuel with
  | zero => intro top; rfl
  | succ f ih =>
    intro top
    have hs : printerSons selfStruct 0 = [0] := by decide
    have hc : ([1] : List Nat).contains 0 = false := by decide
    simp only [preludeDepth, hs, hc, Bool.and_false, Bool.false_eq_true, if_false, List.map_cons, List.map_nil, maxL, ih false]
    omega

/-! ## call graphs -/

/-- `G[f]`: the functions that function `f` calls -/
def callees (G : List (List Nat)) (f : Nat) : List Nat := G.getD f []

/-- every function only calls functions listed before it: the call graph has no cycle -/
def rankedB (G : List (List Nat)) : Bool := (List.range G.length).all fun f => (callees G f).all fun c => decide (c < f)

/-- a chain of nested calls starting in `f` (outermost first) -/
def IsCallChain (G : List (List Nat)) : Nat → List Nat → Prop
  | _, [] => True
  | f, c :: rest => c ∈ callees G f ∧ IsCallChain G c rest

/-- longest chain of nested calls from `f`, cut off after `fuel` -/
def chainDepth (G : List (List Nat)) : Nat → Nat → Nat
  | 0, _ => 0
  | fuel + 1, f => 1 + maxL ((callees G f).map (chainDepth G fuel))

theorem callee_lt (G : List (List Nat)) (h : rankedB G = true) {f c : Nat} (hc : c ∈ callees G f) : c < f := by
  by_cases hf : f < G.length
  · unfold rankedB at h
    rw [List.all_eq_true] at h
    have := h f (List.mem_range.mpr hf)
    rw [List.all_eq_true] at this
    simpa using this c hc
  · unfold callees at hc
    simp [List.getD, List.getElem?_eq_none (by omega : G.length ≤ f)] at hc

/-- In a call graph without cycles the native stack below `f` — any chain of nested calls, whatever the data is that
    drives the calls — is at most `chainDepth` deep. -/
theorem call_chain_bounded (G : List (List Nat)) (h : rankedB G = true) :
    ∀ (chain : List Nat) (f fuel : Nat), f < fuel → IsCallChain G f chain → chain.length + 1 ≤ chainDepth G fuel f := by
  intro chain
  induction chain with
  | nil =>
    intro f fuel hf _
    cases fuel with
    | zero => omega
    | succ k => simp [chainDepth]
  | cons c rest ih =>
    intro f fuel hf hch
    obtain ⟨hc, hrest⟩ := hch
    have hlt := callee_lt G h hc
    cases fuel with
    | zero => omega
    | succ k =>
      have h1 := ih c k (by omega) hrest
      have h2 : chainDepth G k c ≤ maxL ((callees G f).map (chainDepth G k)) := le_maxL_map hc
      simp only [chainDepth, List.length_cons]
      omega

/-- can `f` be reached again from `f`?  (`fuel` rounds of following the edges) -/
def reachesB (G : List (List Nat)) (target : Nat) : Nat → List Nat → Bool
  | 0, _ => false
  | fuel + 1, frontier =>
    let next := frontier.flatMap (callees G)
    next.contains target || reachesB G target fuel next.eraseDups

/-! ## `serialize-value` on chains -/

theorem serGo_chain (k : Kind) (hk : serRecurses k = true) (n : Nat) : ∀ (i : Nat), i ≤ n → ∀ (fuel : Nat) (vis : List Nat),
    i < fuel → (∀ x ∈ vis, i < x) → (serGo (chain k n) fuel vis i).1 = i + 1 := by
  have hkl : k ≠ .leaf := by intro h; subst h; simp [serRecurses] at hk
  intro i
  induction i with
  | zero =>
    intro _ fuel vis hf _
    cases fuel with
    | zero => omega
    | succ f =>
      have : (chain k n).kind 0 = .leaf := by simp [Graph.kind, chain_node k n 0 (Nat.zero_le _)]
      simp [serGo, this, serRecurses]
  | succ i ih =>
    intro hi fuel vis hf hvis
    cases fuel with
    | zero => omega
    | succ f =>
      have hkind := chain_kind k n (i + 1) (by omega) hi
      have hsons := chain_sons k hkl n (i + 1) (by omega) hi
      simp only [Nat.add_sub_cancel] at hsons
      have hnot : vis.contains (i + 1) = false := by
        cases hc : vis.contains (i + 1) with
        | false => rfl
        | true =>
          have : i + 1 ∈ vis := by simpa using hc
          have := hvis _ this
          omega
      simp only [serGo, hkind, hk, Bool.not_true, Bool.false_eq_true, if_false, hsons, hnot, foldSer]
      split
      · rw [ih (by omega) f ((i + 1) :: vis) (by omega) (by
          intro x hx
          rcases List.mem_cons.mp hx with rfl | hx
          · omega
          · have := hvis x hx; omega)]
        simp
        omega
      · rw [ih (by omega) f vis (by omega) (by intro x hx; have := hvis x hx; omega)]
        simp
        omega

end SteelVerif.C18
