import SteelVerif.C18.LemmasWitness
import SteelVerif.C18.LemmasCc
import SteelVerif.C18.LemmasDropAll
import SteelVerif.C18.LemmasSpace
import SteelVerif.C18.GenTraversals
/-
C18 — arbitrarily deep, wide or cyclic values are handled without exhausting the host.

The property theorems.  `Cfg.current` is the code as it is (tied to the source by `cfg_current_is_scanned` below:
the flags are regenerated from /repo on every run), `Cfg.legacy` the code as it was before the repairs 35ea4f4c
(equal?), fffa6bd3 (Display of boxes), 31703dd1 (Drop for pairs / hash sets), `Cfg.fixed` the configuration for which
all full statements hold.  For each statement that is false for `Cfg.current` (or was for `Cfg.legacy`) the full
statement is proved for the sound configurations, a `…_partial` statement under a decidable guard for every
configuration, and the negation from a concrete family of graphs.
-/
namespace SteelVerif.C18

/-! ## 1. Worklist operations use constant native stack — for ALL graphs (any depth, width, cyclic) -/

/-- Every operation that the configuration marks as a worklist for all kinds runs in at most `wlFrames = 4` native
    frames, whatever the graph is and however long the run is taken.
    WHAT THIS SAYS: for `mark` and `collect` `nativeDepth` is MEASURED on the visitor machine `mStep` — the deepest
    native call stack (`visit` → `visit_<kind>` → `mark_heap_reference` / `add` → `push_back`) among all states of the
    run — and the bound is the invariant `StackOk` of that machine (`machine_native_stack_bounded`); that the machine
    is the loop model of §2 is `marker_loop_is_machine_run`; that the code's methods call each other the way the machine's
    frames do is the regenerated call graph (§4: `worklist_call_graphs_acyclic`, `worklist_native_stack_scanned`).
    `send` moves one reference (`as_rooted`).  For `eq`, `hash`, `drop` the theorem has content only for
    configurations that differ from the code (`Cfg.fixed`); for the code as it is the statements about these
    operations are the NEGATIONS of §3. -/
theorem iterative_constant_depth (c : Cfg) (op : Op) (h : op.iterativeIn c = true) (g : Graph) (fuel v : Nat) :
    nativeDepth c op g fuel v ≤ wlFrames := by
  cases op with
  | eq =>
    simp only [Op.iterativeIn] at h
    have := recDepth_const (containerKeys g) (fun _ => !c.eqKeysIterative) (fun _ => by simp [h]) fuel v
    simp only [nativeDepth, eqKeyDepth, wlFrames]; omega
  | hash =>
    simp only [Op.iterativeIn] at h
    have := recDepth_const g.sons (fun v => !c.hashIterative && hashRecurses (g.kind v)) (fun _ => by simp [h]) fuel v
    simp only [nativeDepth, hashDepth, wlFrames]; omega
  | collect => exact mProfile_depth_le _ _ _ fuel (mInit [v]) 0 0 (stackOk_init [v]) (by decide)
  | print => simp [Op.iterativeIn] at h
  | mark => exact mProfile_depth_le _ _ _ fuel (mInit [v]) 0 0 (stackOk_init [v]) (by decide)
  | drop =>
    simp only [Op.iterativeIn, Bool.and_eq_true] at h
    have := recDepth_const g.sons (fun w => dropNativeKind c (g.kind w))
      (fun w => by cases hk : (g.kind w) <;> simp [dropNativeKind, h.1, h.2]) fuel v
    simp only [nativeDepth, dropDepth, wlFrames]; omega
  | send => simp [nativeDepth, wlFrames]
  | serialize => simp [Op.iterativeIn] at h

/-- **The native stack of the visitor machine** — in every state that the machine reaches from the call of `visit`,
    for every graph, every order of the children, every choice of tracked kinds and of kinds that switch recording on
    (so: the marker and the cycle collector under every configuration), the call stack holds at most four frames. -/
theorem machine_native_stack_bounded (sons : Nat → List Nat) (setsFound : Nat → Bool) (tracked : Bool → Nat → Bool)
    (roots : List Nat) (n : Nat) (t : MSt) (h : runN (mStep sons setsFound tracked) n (mInit roots) = some t) :
    t.stack.length ≤ wlFrames :=
  machine_depth_le sons setsFound tracked roots n t h

/-- **The loop model is the machine** — one round of `wlStep` (the marker of §2, any tracked set) is a run of the machine
    from loop head to loop head with the same queue and the same marks, and when the loop model is done the machine
    returns from `visit` with the same marks. -/
theorem marker_loop_is_machine_run (c : Cfg) (g : Graph) (w vis : List Nat) :
    (∀ w' vis', wlStep g (markTracked c g) { work := w, vis := vis } = .next { work := w', vis := vis' } →
      ∃ n, runN (mStep (fun v => (g.sons v).reverse) (fun _ => false) (fun _ v => markTracked c g v)) n
          { stack := [.visit], queue := w, vis := vis, found := false }
        = some { stack := [.visit], queue := w', vis := vis', found := false }) ∧
    (∀ r, wlStep g (markTracked c g) { work := w, vis := vis } = .done r →
      ∃ t, runN (mStep (fun v => (g.sons v).reverse) (fun _ => false) (fun _ v => markTracked c g v)) 1
          { stack := [.visit], queue := w, vis := vis, found := false } = some t ∧
        mStep (fun v => (g.sons v).reverse) (fun _ => false) (fun _ v => markTracked c g v) t = .done r) :=
  ⟨fun w' vis' h => machine_simulates_wl g (markTracked c g) w vis w' vis' h,
   fun r h => machine_simulates_wl_done g (markTracked c g) w vis r h⟩

/-- Non-vacuity: the machine on a chain of 5 lists reaches 3 frames (`push_back` ← `visit_list` ← `visit`), on a chain
    of 5 boxes 4 frames (`push_back` ← `mark_heap_reference` ← `visit_heap_allocated` ← `visit`); on the cyclic
    `ring .box 3` it ends with all three boxes marked, the queue never longer than one entry. -/
example : nativeDepth Cfg.current .mark (chain .list 5) 200 5 = 3 ∧ nativeDepth Cfg.current .mark (chain .box 5) 200 5 = 4 ∧
    nativeDepth Cfg.current .collect (chain .box 5) 200 5 = 4 := by decide
example : mProfile (ring .box 3).sons (fun _ => false) (fun _ v => markTracked Cfg.current (ring .box 3) v) 100 (mInit [0]) 0 0
    = (4, 1, some [2, 1, 0]) := by decide

/-- **Heap space of the marker's worklist** — with a visited mark on every container (`Cfg.fixed`) the worklist holds at
    most `|roots| + |edges|` entries in every state the loop reaches, for every graph; and the loop ends within
    `|roots| + |edges| + 1` rounds (linear, where `mark_terminates_cyclic` says `|g|·(maxDeg+1)`). -/
theorem worklist_space_linear (c : Cfg) (h1 : c.markSboxVisited = true) (h2 : c.markImmVisited = true) (g : Graph)
    (roots : List Nat) :
    (∀ n t, runN (wlStep g (markTracked c g)) n { work := roots, vis := [] } = some t → t.work.length ≤ roots.length + g.edges) ∧
    ∃ m, markRun c g (roots.length + g.edges + 1) roots = some m := by
  have hall : ∀ v, markTracked c g v = false → g.sons v = [] := by
    intro v hv
    unfold Graph.sons
    cases hk : (g.node v).kind <;> simp [markTracked, Graph.kind, hk, h1, h2] at hv ⊢
  have h4 : ∀ v, markTracked c g v = true → v < g.size := by
    intro v hv
    apply lt_size_of_kind_ne_leaf
    intro hk
    simp [markTracked, hk] at hv
  exact ⟨fun n t h => wl_space_linear g (markTracked c g) hall h4 roots n t h,
    wl_terminates_linear g (markTracked c g) hall h4 roots⟩

/-- the same for the code as it is, when the value has no immutable containers / strong boxes with children
    (mutable vectors and boxes over leaves — e.g. every ring of boxes and mutable vectors) -/
theorem worklist_space_linear_partial (c : Cfg) (g : Graph) (hg : ∀ v, markTracked c g v = false → g.sons v = [])
    (roots : List Nat) (n : Nat) (t : WlSt) (h : runN (wlStep g (markTracked c g)) n { work := roots, vis := [] } = some t) :
    t.work.length ≤ roots.length + g.edges :=
  wl_space_linear g (markTracked c g) hg (fun v hv => by
    apply lt_size_of_kind_ne_leaf
    intro hk
    simp [markTracked, hk] at hv) roots n t h

/-- Non-vacuity (`Cfg.fixed` on the doubling dag of depth 3: 6 edges; `Cfg.current` on a ring of boxes). -/
example : ∃ m, markRun Cfg.fixed (dag 3) (1 + (dag 3).edges + 1) [3] = some m :=
  (worklist_space_linear Cfg.fixed rfl rfl (dag 3) [3]).2
example : (dag 3).edges = 6 ∧ markRun Cfg.fixed (dag 3) 8 [3] = some [1, 2, 3] := by decide

/-- **Heap space of the drop handler** — for every graph and every table of strong counts the drop buffer never holds more
    than `1 + |edges|` values (every node is taken apart at most once). -/
theorem drop_worklist_space_linear (g : Graph) (rc : List Nat) (root : Nat) (n : Nat) (t : DropSt)
    (h : runN (dropStep g) n { work := [root], rc := rc, freed := [] } = some t) : t.work.length ≤ 1 + g.edges :=
  drop_space_linear g rc root n t h

/-- The code as it is: the marker, the cycle collector and sending a value to a thread are worklists / moves. -/
theorem iterative_ops_current : (Op.iterativeIn Cfg.current .mark && Op.iterativeIn Cfg.current .collect &&
    Op.iterativeIn Cfg.current .send) = true := by decide

/-- For the fixed configuration every operation except printing and `serialize-value` (no repair is modelled: K18e) is
    constant, … -/
theorem iterative_ops_fixed : ∀ op : Op, op ≠ .print → op ≠ .serialize → op.iterativeIn Cfg.fixed = true := by
  intro op h h'; cases op <;> simp_all [Op.iterativeIn, Cfg.fixed]

/-- … and printing stays below the explicit depth limit (plus the two frames of the entry points), for all graphs,
    as soon as no kind re-enters `Display` (`Cfg.fixed`), or no such kind occurs in the value (`Cfg.current`). -/
theorem print_depth_bounded (c : Cfg) (g : Graph) (h : ∀ v, printReenters c (g.kind v) = false) (fuel v : Nat) :
    nativeDepth c .print g fuel v ≤ printLimit + 2 := by
  have := printDepth_le c g h fuel 0 v (by simp [printLimit])
  simp only [nativeDepth]
  omega

theorem print_depth_bounded_fixed (g : Graph) (fuel v : Nat) : nativeDepth Cfg.fixed .print g fuel v ≤ printLimit + 2 :=
  print_depth_bounded Cfg.fixed g (fun v => by cases (g.kind v) <;> simp [printReenters, Cfg.fixed]) fuel v

/-- Non-vacuity of `print_depth_bounded(_fixed)`: under `Cfg.fixed` a chain of 140 hash maps is printed with
    exactly `printLimit + 2 = 130` frames — the limit is reached, the bound is tight (`Cfg.current`: 142, §3). -/
example : nativeDepth Cfg.fixed .print (chain .map 140) 150 140 ≤ printLimit + 2 :=
  print_depth_bounded_fixed _ _ _

set_option maxRecDepth 100000 in
example : nativeDepth Cfg.fixed .print (chain .map 140) 150 140 = 130 ∧
    nativeDepth Cfg.current .print (chain .list 140) 150 140 = 130 := by decide

/-- `equal?` on values whose hash-map keys and set members are leaves never re-enters `==`: constant depth. -/
theorem eq_constant_depth_leaf_keys (c : Cfg) (g : Graph) (h : leafKeysB g = true) (fuel v : Nat) :
    nativeDepth c .eq g fuel v ≤ 1 := by
  have hk : ∀ w, containerKeys g w = [] := by
    intro w
    unfold containerKeys
    rw [List.filter_eq_nil_iff]
    intro k hk
    by_cases hw : w < g.size
    · unfold leafKeysB at h
      rw [Array.all_eq_true] at h
      have := h w hw
      simp only [List.all_eq_true] at this
      have hn : g.node w = g[w] := by simp [Graph.node, Array.getD, hw]
      rw [hn] at hk
      simpa using this k hk
    · rw [node_of_ge g (by omega)] at hk
      cases hk
  simp only [nativeDepth, eqKeyDepth]
  cases fuel with
  | zero => simp [recDepth]
  | succ f =>
    simp only [recDepth, hk v]
    split <;> simp [maxL]

/-! ## 2. Termination on arbitrary (cyclic) graphs, with a bound on the number of loop rounds

In all `…_terminates…` theorems `iter step fuel s = some r` means: the loop reaches its `done` within `fuel`
rounds (`iter _ 0 _ = none`, so the witness is never trivial), and the bound on `fuel` is part of the
statement.  In the `equal?` theorems `keyEq` — the nested comparison of hash-map keys — is an ARBITRARY TOTAL
function: termination of the nested comparisons themselves (`eqRun` with container keys) is not claimed. -/

/-- a cyclic graph on which the partial guards hold: a mutable vector holding a list holding the vector -/
def demoCycle : Graph := #[{ kind := .leaf, tag := 7 }, { kind := .mvec, kids := [2] }, { kind := .list, kids := [1, 0] }]

/-- **equal?** — when every descending arm enters its pair into `visited` (the two flags), the comparison of any two
    nodes of any graph (cyclic, shared, ill-formed) ends within `|g|²·(maxDeg+1) + 2` rounds, whatever the key
    comparison answers.  Measure: pairs not yet visited. -/
theorem eq_terminates_cyclic (c : Cfg) (hc : eqAllChecked c = true) (g : Graph) (keyEq : Nat → Nat → Bool) (a b : Nat) :
    ∃ fuel, fuel ≤ eqBoundPoly g ∧ ∃ r : Bool, iter (eqStep c g keyEq) fuel { work := [(a, b)], vis := [] } = some r :=
  eq_terminates_poly c hc g keyEq a b

/-- the partial statement for every configuration, in particular `Cfg.current`: if, along the pairs that are not
    entered into `visited` (boxes against boxes, vector against mutable vector), the left index decreases -/
theorem eq_terminates_cyclic_partial (c : Cfg) (g : Graph) (hg : eqUncheckedDescB c g = true) (keyEq : Nat → Nat → Bool) (a b : Nat) :
    ∃ fuel, fuel ≤ eqBoundExp g ∧ ∃ r : Bool, iter (eqStep c g keyEq) fuel { work := [(a, b)], vis := [] } = some r :=
  eq_terminates_exp c g hg keyEq a b

/-- the code as it is (after 35ea4f4c): every pair of values of every graph -/
theorem eq_terminates_cyclic_current (g : Graph) (keyEq : Nat → Nat → Bool) (a b : Nat) :
    ∃ fuel, fuel ≤ eqBoundPoly g ∧ ∃ r : Bool, iter (eqStep Cfg.current g keyEq) fuel { work := [(a, b)], vis := [] } = some r :=
  eq_terminates_poly Cfg.current (by decide) g keyEq a b

/-- the negation for the code as it was: two distinct rings of boxes (heap boxes or strong boxes) of any length -/
theorem not_eq_terminates_cyclic (k : Kind) (hk : k = .box ∨ k = .sbox) (n : Nat) (hn : 0 < n) (keyEq : Nat → Nat → Bool) :
    ¬ ∃ fuel, ∃ r : Bool, iter (eqStep Cfg.legacy (twoRings k n) keyEq) fuel { work := [(0, n)], vis := [] } = some r := by
  intro ⟨fuel, r, h⟩
  rw [eq_box_rings_diverge k hk n hn keyEq fuel] at h
  cases h

/-- Non-vacuity of `eq_terminates_cyclic_partial` with a guard that is not vacuous: under `Cfg.legacy` box pairs are
    not entered into `visited`; on a chain of boxes the guard holds (the left index decreases) and the comparison
    of two different boxes of the chain ends. -/
example : eqUncheckedDescB Cfg.legacy (chain .box 3) = true ∧ eqTop Cfg.legacy (chain .box 3) 20 3 2 = some false := by
  decide

example : ∃ fuel, fuel ≤ eqBoundExp (chain .box 3) ∧ ∃ r : Bool,
    iter (eqStep Cfg.legacy (chain .box 3) (leafKeyEq (chain .box 3))) fuel { work := [(3, 2)], vis := [] } = some r :=
  eq_terminates_cyclic_partial Cfg.legacy _ (by decide) _ 3 2

theorem markTracked_lt (c : Cfg) (g : Graph) (v : Nat) (h : markTracked c g v = true) : v < g.size := by
  apply lt_size_of_kind_ne_leaf
  intro hk
  simp [markTracked, hk] at h

/-- **marker** — with a visited mark on every container the marking of any graph from any roots ends within
    `|g|·(maxDeg+1) + |roots| + 1` rounds.  Measure: unmarked nodes. -/
theorem mark_terminates_cyclic (c : Cfg) (h1 : c.markSboxVisited = true) (h2 : c.markImmVisited = true) (g : Graph) (roots : List Nat) :
    ∃ fuel, fuel ≤ wlBoundPoly g roots ∧ ∃ m, markRun c g fuel roots = some m := by
  apply wl_terminates_poly g (markTracked c g) _ (markTracked_lt c g) roots
  intro v hv
  unfold Graph.sons
  cases hk : (g.node v).kind <;> simp [markTracked, Graph.kind, hk, h1, h2] at hv ⊢

/-- the partial statement: the nodes without a mark (immutable containers, strong boxes for `Cfg.current`) only have
    unmarked children of smaller index.  The bound is exponential — see `mark_dag_exponential`. -/
theorem mark_terminates_cyclic_partial (c : Cfg) (g : Graph) (hg : untrackedDescB g (markTracked c g) = true) (roots : List Nat) :
    ∃ fuel, fuel ≤ wlBoundExp g roots ∧ ∃ m, markRun c g fuel roots = some m :=
  wl_terminates_exp g (markTracked c g) hg (markTracked_lt c g) roots

/-- Non-vacuity of `mark_terminates_cyclic_partial` (the guard on `demoCycle`, a cyclic graph, is checked in §5): -/
example : ∃ fuel, fuel ≤ wlBoundExp demoCycle [1] ∧ ∃ m, markRun Cfg.current demoCycle fuel [1] = some m :=
  mark_terminates_cyclic_partial Cfg.current demoCycle (by decide) [1]

/-- negation 1: a ring of strong boxes is marked for ever -/
theorem not_mark_terminates_cyclic (n : Nat) (hn : 0 < n) :
    ¬ ∃ fuel, ∃ m, markRun Cfg.current (ring .sbox n) fuel [0] = some m := by
  intro ⟨fuel, m, h⟩
  rw [mark_sbox_ring_diverges n hn fuel] at h
  cases h

/-- negation 2 (no polynomial bound): the doubling dag of depth `n` — `n+1` nodes — needs `2^(n+1) - 1` rounds -/
theorem mark_not_polynomial (n fuel : Nat) (h : fuel + 1 < 2 ^ (n + 1)) : markRun Cfg.current (dag n) fuel [n] = none :=
  mark_dag_exponential n fuel h

/-- **printing**, first phase (cycle collector) — recording from the start (`ccTracksAlways`): every graph. -/
theorem print_terminates_cyclic (c : Cfg) (h : c.ccTracksAlways = true) (g : Graph) (root : Nat) :
    ∃ fuel, fuel ≤ ccBound g ∧ ∃ r, ccRun c g fuel root = some r := by
  apply cc_terminates c g _ root
  unfold ccDescB untrackedDescB
  simp [h]

/-- partial: every cycle passes through a node that switches recording on (a heap box, a mutable vector) -/
theorem print_terminates_cyclic_partial (c : Cfg) (g : Graph) (hg : ccDescB c g = true) (root : Nat) :
    ∃ fuel, fuel ≤ ccBound g ∧ ∃ r, ccRun c g fuel root = some r :=
  cc_terminates c g hg root

example : ∃ fuel, fuel ≤ ccBound demoCycle ∧ ∃ r, ccRun Cfg.current demoCycle fuel 1 = some r :=
  print_terminates_cyclic_partial Cfg.current demoCycle (by decide) 1

/-- negation for the code as it was (before fffa6bd3): a ring of strong boxes never switched recording on -/
theorem not_print_terminates_cyclic (n : Nat) (hn : 0 < n) :
    ¬ ∃ fuel, ∃ r, ccRun Cfg.legacy (ring .sbox n) fuel 0 = some r := by
  intro ⟨fuel, r, h⟩
  rw [cc_sbox_ring_diverges n hn fuel] at h
  cases h

/-- second phase on a ring of heap boxes, as it was: `Display` re-entered itself at every box, every level of fuel is used -/
theorem print_box_ring_unbounded (n fuel i : Nat) (hi : i < n) : nativeDepth Cfg.legacy .print (ring .box n) fuel i = 1 + fuel := by
  simp [nativeDepth, printDepth_box_ring n fuel i hi]

/-- **drop** — the worklist consumes one reference per round: it ends on every graph (cycles are leaked, not looped),
    within `(sum of the strong counts)·(maxDeg+1) + 2` rounds. -/
theorem drop_terminates (g : Graph) (rc : List Nat) (root : Nat) :
    ∃ fuel, fuel ≤ dropBound g rc ∧ ∃ r, iter (dropStep g) fuel { work := [root], rc := rc, freed := [] } = some r :=
  drop_terminates_gen g rc root

theorem closed_of_acyclic (g : Graph) (ha : acyclicB g = true) : closedB g = true := by
  unfold acyclicB at ha
  unfold closedB
  rw [List.all_eq_true] at ha ⊢
  intro i hi
  have := ha i hi
  rw [List.all_eq_true] at this ⊢
  intro j hj
  have h1 := this j hj
  have h2 := List.mem_range.mp hi
  simp only [decide_eq_true_eq] at h1 ⊢
  omega

/-- **drop frees everything** — on an acyclic graph (children have smaller indices) in which every node other than
    the root is held by some node, with strong counts = number of holders (+1 for the outside reference to the root),
    dropping the root ends with every node freed. -/
theorem drop_frees_all_acyclic (g : Graph) (root : Nat) (ha : acyclicB g = true) (hr : root < g.size)
    (hh : allHeldB g root = true) :
    ∃ fuel, fuel ≤ dropBound g (initRc g root) ∧ ∃ freed rc, dropRun g fuel root = some (freed, rc) ∧
      ∀ v, v < g.size → v ∈ freed := by
  obtain ⟨fuel, hb, r, hrun⟩ := drop_terminates_gen g (initRc g root) root
  refine ⟨fuel, hb, r.1, r.2, hrun, ?_⟩
  have hc := closed_of_acyclic g ha
  exact iter_inv (DropInv g) (fun r => ∀ v, v < g.size → v ∈ r.1)
    (fun s s' hI hs => dropStep_inv g hc s s' hI hs)
    (fun s r hI hs => by
      unfold dropStep at hs
      cases hw : s.work with
      | nil =>
        simp only [hw] at hs
        cases hs
        exact drop_final_all g ha s hI hw
      | cons v rest =>
        simp only [hw] at hs
        split at hs
        · cases hs
        · split at hs <;> cases hs)
    fuel _ r (drop_init_inv g root hr hh) hrun

/-- Non-vacuity of `drop_frees_all_acyclic`: the doubling dag of depth 3 (every node held twice) satisfies the three
    hypotheses; dropping node 3 frees all four nodes within the bound (23 rounds). -/
example : ∃ fuel, fuel ≤ dropBound (dag 3) (initRc (dag 3) 3) ∧ ∃ freed rc, dropRun (dag 3) fuel 3 = some (freed, rc) ∧
    ∀ v, v < (dag 3).size → v ∈ freed :=
  drop_frees_all_acyclic (dag 3) 3 (by decide) (by decide) (by decide)

example : dropRun (dag 3) 23 3 = some ([0, 1, 2, 3], [0, 0, 0, 0]) ∧ dropBound (dag 3) (initRc (dag 3) 3) = 23 := by decide

/-- `drop_terminates` on a CYCLE (two strong boxes pointing at each other, one outside reference): the loop ends,
    nothing is freed — the cycle is leaked, as the doc comment says; freeing is claimed for acyclic graphs only. -/
example : (dropRun (ring .sbox 2) 10 0).map (·.1) = some [] := by decide

/-- **sweep** — one pass over the slot array: it ends after `|slots| + 1 ≤ |g| + 1` rounds (one frame) and frees exactly
    the slots without a mark. -/
theorem sweep_frees_exactly_unmarked (g : Graph) (marked : List Nat) :
    ∃ r, iter (sweepStep marked) ((slots g).length + 1) { todo := slots g, free := [] } = some r ∧
      ∀ v, v ∈ r ↔ ((g.kind v = .box ∨ g.kind v = .mvec) ∧ v ∉ marked) := by
  obtain ⟨r, hr, hm⟩ := sweep_run marked (slots g) []
  refine ⟨r, hr, fun v => ?_⟩
  rw [hm v, mem_slots]
  simp

/-- **a full collection** — whenever the mark phase ends (with the marked set `m`), the collection ends within the same
    fuel (if it is at least `|g| + 1`) and frees exactly the heap slots that are not in `m`: in particular every cycle of
    boxes / mutable vectors that the marker did not reach — cycles through heap slots are not reference-count cycles
    (the handles are weak), they are reclaimed by the sweep. -/
theorem collect_frees_exactly_unmarked (c : Cfg) (g : Graph) (fuel : Nat) (hf : g.size + 1 ≤ fuel) (roots m : List Nat)
    (hm : markRun c g fuel roots = some m) :
    ∃ r, collectRun c g fuel roots = some r ∧ ∀ v, v ∈ r ↔ ((g.kind v = .box ∨ g.kind v = .mvec) ∧ v ∉ m) := by
  obtain ⟨r, hr, hv⟩ := sweep_frees_exactly_unmarked g m
  refine ⟨r, ?_, hv⟩
  unfold collectRun
  rw [hm]
  exact iter_mono hr (by have := slots_length_le g; omega)

/-- Non-vacuity: two disjoint rings of two boxes, root in the first: the second ring (nodes 2, 3) is freed. -/
example : collectRun Cfg.current (twoRings .box 2) 10 [0] = some [3, 2] := by decide

/-- **reference-count cycles** — a value that is still referenced from elsewhere (from inside itself: a cycle through strong
    boxes, which are reference counted and not heap slots) when the outside reference goes is not taken apart at all: the
    drop ends after two rounds with nothing freed, and the sweep does not know strong boxes (`slots`).  The cycle is
    LEAKED — no operation of the host is exhausted by it, the memory is. -/
theorem rc_cycle_leaked (g : Graph) (rc : List Nat) (root : Nat) (h : 2 ≤ rc.getD root 0) :
    iter (dropStep g) 2 { work := [root], rc := rc, freed := [] } = some ([], rc.set root (rc.getD root 0 - 1)) :=
  drop_shared_root_frees_nothing g rc root h

example : (initRc (ring .sbox 3) 0).getD 0 0 = 2 ∧ (dropRun (ring .sbox 3) 2 0).map (·.1) = some [] ∧
    slots (ring .sbox 3) = [] := by decide

/-- **nested comparison of keys** — for the code as it is (box pairs and vector pairs are entered into `visited`), `==` with
    `d` native re-entries available for keys that are containers ends for every `d`, every graph and every pair: each level
    is one run of the worklist (fresh queues, fresh visited set) whose key comparison is the level below.  What grows
    with the nesting of keys is the NATIVE DEPTH (`eq_key_depth_linear`, K18d), not the number of rounds per level. -/
theorem eq_nested_terminates_current (g : Graph) (d a b : Nat) :
    ∃ r : Bool, eqRun Cfg.current g (eqBoundPoly g) d a b = some r :=
  eqRun_terminates Cfg.current (by decide) g d a b

example : eqRun Cfg.current (keyChain 3) 50 3 3 3 = some true := by decide

/-- **printing, second phase** (`start_format` / `format_with_cycles`) — when no kind re-enters `Display`, the second phase
    returns a FINITE text — one header per label, `#i#` for a labelled node, `...` below the depth limit — within
    `printLimit + 1` native frames: for every graph (cyclic, shared), every root and EVERY label table (also an empty or
    a wrong one: the depth counter alone stops the recursion; the labels only decide what the text looks like). -/
theorem print_output_finite (c : Cfg) (g : Graph) (labels : List Nat) (h : ∀ v, printReenters c (g.kind v) = false) (root : Nat) :
    ∃ out, fmtAll c g labels (printLimit + 1) root = some out := by
  have := fmtAll_total c g labels h root
  cases ho : fmtAll c g labels (printLimit + 1) root with
  | none => simp [ho] at this
  | some out => exact ⟨out, rfl⟩

theorem print_output_finite_fixed (g : Graph) (labels : List Nat) (root : Nat) :
    ∃ out, fmtAll Cfg.fixed g labels (printLimit + 1) root = some out :=
  print_output_finite Cfg.fixed g labels (fun v => by cases (g.kind v) <;> simp [printReenters, Cfg.fixed]) root

/-- the code as it is: values without hash maps / hash sets -/
theorem print_output_finite_current (g : Graph) (labels : List Nat) (h : ∀ v, g.kind v ≠ .map ∧ g.kind v ≠ .set) (root : Nat) :
    ∃ out, fmtAll Cfg.current g labels (printLimit + 1) root = some out :=
  print_output_finite Cfg.current g labels (fun v => by
    have := h v
    cases hk : g.kind v <;> simp_all [printReenters, Cfg.current, Cfg.legacy]) root

/-- Non-vacuity: `demoCycle` (mutable vector ⇄ list) with the labels the first phase finds: one header `#0=` and the
    value written as a reference to it. -/
example : (ccLabels Cfg.current demoCycle 50 { work := [1], vis := [], found := false } []) = [1] ∧
    fmtAll Cfg.current demoCycle [1] (printLimit + 1) 1 =
      some [.open 1, .open 2, .ref 0, .atom 0, .close, .close] := by decide

/-- **the prelude's printer** (`scheme/print.scm`: no depth limit, it relies on the labels alone) — when from every node
    the printer only goes to labelled nodes or to nodes of smaller index, its recursion from `v` is at most `v + 2` deep,
    whatever fuel it is given: it ends. -/
theorem prelude_print_terminates_partial (g : Graph) (labels : List Nat) (hg : labelsCutB g labels = true) (fuel : Nat) (top : Bool) (v : Nat) :
    preludeDepth g labels fuel top v ≤ v + 2 :=
  preludeDepth_le g labels hg fuel top v

/-- Non-vacuity: a mutable vector (node 2) holding a list (node 1) holding the vector: with the labels of the first phase
    (the vector) the guard holds — the list's way back into the vector is labelled. -/
def demoCycleR : Graph := #[{ kind := .leaf, tag := 7 }, { kind := .list, kids := [2, 0] }, { kind := .mvec, kids := [1] }]
example : ccLabels Cfg.current demoCycleR 50 { work := [2], vis := [], found := false } [] = [2] ∧
    labelsCutB demoCycleR [2] = true ∧ preludeDepth demoCycleR [2] 1000 true 2 = 3 := by decide

/-- the negation (K18k): a mutable struct that holds itself.  The first phase labels the SLOT of the field (node 1) — the
    struct was expanded before anything mutable had been met, so `add` did not record it — and the printer, to which
    fields arrive unboxed, never sees the slot: the recursion uses every level of fuel it is given. -/
theorem not_prelude_print_terminates (fuel : Nat) :
    ccLabels Cfg.current selfStruct 50 { work := [0], vis := [], found := false } [] = [1] ∧
    labelsCutB selfStruct [1] = false ∧ preludeDepth selfStruct [1] fuel true 0 = fuel :=
  ⟨by decide, by decide, preludeDepth_selfStruct fuel true⟩

/-- … and with `ccTracksAlways` (`Cfg.fixed`) the struct itself gets the label and the printer stops -/
example : ccLabels Cfg.fixed selfStruct 50 { work := [0], vis := [], found := false } [] = [0] ∧
    labelsCutB selfStruct [0] = true ∧ preludeDepth selfStruct [0] 1000 true 0 = 2 := by decide

/-! ## 3. Native recursion: depth linear in the depth of the value -/

/-- **D7** — `Hash for SteelVal` on a chain of `n` containers uses `n + 1` native frames: no constant bounds it. -/
theorem recursive_depth_linear (k : Kind) (hk : hashRecurses k = true) (n fuel : Nat) (hf : n + 1 ≤ fuel) :
    nativeDepth Cfg.current .hash (chain k n) fuel n = n + 1 := by
  simp only [nativeDepth, hashDepth]
  apply recDepth_chain (chain k n).sons _ n (Or.inr (chain_sons_zero k n))
    (fun i h0 hi => chain_sons k (hashRecurses_ne_leaf hk) n i h0 hi)
    (fun i h0 hi => by simp [Cfg.current, Cfg.legacy, chain_kind k n i h0 hi, hk]) n fuel (Nat.le_refl _) hf

theorem no_constant_bound_hash (k : Kind) (hk : hashRecurses k = true) (b : Nat) :
    ∃ g fuel v, b < nativeDepth Cfg.current .hash g fuel v :=
  ⟨chain k b, b + 1, b, by rw [recursive_depth_linear k hk b (b + 1) (Nat.le_refl _)]; omega⟩

/-- the positive part: a value whose height fits into the frames that are available is hashed -/
theorem recursive_depth_linear_partial (g : Graph) (lim fuel v : Nat) (h1 : height g fuel v < fuel) (h2 : height g fuel v ≤ lim) :
    (hashLim g lim v).isSome = true :=
  hashLim_of_height g lim fuel v h1 h2

/-- Non-vacuity of `recursive_depth_linear_partial`: a chain of 5 lists has height 6; 6 frames are enough. -/
example : (hashLim (chain .list 5) 6 5).isSome = true :=
  recursive_depth_linear_partial (chain .list 5) 6 100 5 (by decide) (by decide)

/-- with `lim` frames a chain of `lim` or more containers exhausts the native stack … -/
theorem hash_chain_overflows (k : Kind) (hk : hashRecurses k = true) (n lim : Nat) (h : lim ≤ n) : hashLim (chain k n) lim n = none :=
  hashLim_chain_none k hk n lim n h (Nat.le_refl _)

/-- … and a cycle exhausts any stack -/
theorem hash_cycle_overflows (k : Kind) (hk : hashRecurses k = true) (n lim i : Nat) (hi : i < n) : hashLim (ring k n) lim i = none :=
  hashLim_ring_none k hk n lim i hi

/-- dropping the last reference to a chain of pairs / strong boxes / closures / hash sets: recursive drop glue -/
theorem drop_depth_linear (k : Kind) (hk : dropNativeKind Cfg.current k = true) (n fuel : Nat) (hf : n + 1 ≤ fuel) :
    nativeDepth Cfg.current .drop (chain k n) fuel n = n + 1 := by
  have hkl : k ≠ .leaf := by intro h; subst h; simp [dropNativeKind] at hk
  simp only [nativeDepth, dropDepth]
  apply recDepth_chain (chain k n).sons _ n (Or.inr (chain_sons_zero k n))
    (fun i h0 hi => chain_sons k hkl n i h0 hi)
    (fun i h0 hi => by simp [chain_kind k n i h0 hi, hk]) n fuel (Nat.le_refl _) hf

/-- Display of a chain of a kind that re-enters `Display for SteelVal` at every level: the depth limit never applies.
    `Cfg.current`: hash maps and hash sets; `Cfg.legacy`: boxes and strong boxes as well. -/
theorem print_depth_linear_reentrant (c : Cfg) (k : Kind) (hk : printReenters c k = true) (n fuel : Nat) (hf : n + 1 ≤ fuel) :
    nativeDepth c .print (chain k n) fuel n = n + 2 := by
  simp only [nativeDepth, printDepth_reentrant_chain c k hk n n fuel (Nat.le_refl _) hf]
  omega

theorem print_depth_linear_maps (n fuel : Nat) (hf : n + 1 ≤ fuel) : nativeDepth Cfg.current .print (chain .map n) fuel n = n + 2 :=
  print_depth_linear_reentrant Cfg.current .map (by decide) n fuel hf

theorem print_depth_linear_boxes (n fuel : Nat) (hf : n + 1 ≤ fuel) : nativeDepth Cfg.legacy .print (chain .box n) fuel n = n + 2 :=
  print_depth_linear_reentrant Cfg.legacy .box (by decide) n fuel hf

/-- after fffa6bd3 a value without hash maps / hash sets is printed below the depth limit, boxes included -/
theorem print_depth_bounded_current (g : Graph) (h : ∀ v, g.kind v ≠ .map ∧ g.kind v ≠ .set) (fuel v : Nat) :
    nativeDepth Cfg.current .print g fuel v ≤ printLimit + 2 :=
  print_depth_bounded Cfg.current g (fun v => by
    have := h v
    cases hk : g.kind v <;> simp_all [printReenters, Cfg.current, Cfg.legacy]) fuel v

theorem demoCycle_no_maps : ∀ v, demoCycle.kind v ≠ .map ∧ demoCycle.kind v ≠ .set := by
  intro v
  by_cases h : v < 3
  · have : v = 0 ∨ v = 1 ∨ v = 2 := by omega
    rcases this with rfl | rfl | rfl <;> decide
  · have : demoCycle.node v = { kind := .leaf } := node_of_ge demoCycle (by simp [demoCycle]; omega)
    simp [Graph.kind, this]

/-- Non-vacuity of `print_depth_bounded_current`: the cyclic `demoCycle` (mutable vector ⇄ list) has no maps; its
    second printing phase, cut off by the depth counter only (the cycle table is not modelled), uses exactly 130
    frames. -/
example : nativeDepth Cfg.current .print demoCycle 300 1 ≤ printLimit + 2 :=
  print_depth_bounded_current demoCycle demoCycle_no_maps 300 1

set_option maxRecDepth 100000 in
example : nativeDepth Cfg.current .print demoCycle 300 1 = 130 := by decide

theorem keyChain_containerKeys (n i : Nat) (h0 : 0 < i) (hi : i ≤ n) : containerKeys (keyChain n) i = if i = 1 then [] else [i - 1] := by
  have hne : i ≠ 0 := by omega
  unfold containerKeys
  rw [keyChain_node n i hi]
  simp only [hne, if_false, List.filter_cons, List.filter_nil]
  have hk : (keyChain n).kind (i - 1) = if i - 1 = 0 then Kind.leaf else Kind.map := by
    simp only [Graph.kind, keyChain_node n (i - 1) (by omega)]
    split <;> rfl
  rw [hk]
  by_cases h1 : i = 1
  · subst h1; simp
  · have : i - 1 ≠ 0 := by omega
    simp [this, h1]

/-- `equal?` on maps whose key is a map whose key is a map …: one native re-entry of `==` per level -/
theorem eq_key_depth_linear (n fuel : Nat) (hf : n + 1 ≤ fuel) (hn : 0 < n) :
    n ≤ nativeDepth Cfg.current .eq (keyChain n) fuel n := by
  simp only [nativeDepth, eqKeyDepth]
  -- shift the chain by one: node i+1 of the key chain behaves like node i of a chain
  have key : ∀ i f, i + 1 ≤ n → i + 1 ≤ f →
      recDepth (containerKeys (keyChain n)) (fun _ => !Cfg.current.eqKeysIterative) f (i + 1) = i + 1 := by
    intro i
    induction i with
    | zero =>
      intro f h1 h2
      cases f with
      | zero => omega
      | succ f => simp [recDepth, Cfg.current, Cfg.legacy, keyChain_containerKeys n 1 (by omega) h1, maxL]
    | succ i ih =>
      intro f h1 h2
      cases f with
      | zero => omega
      | succ f =>
        have := keyChain_containerKeys n (i + 2) (by omega) h1
        simp only [recDepth, Cfg.current, Cfg.legacy, Bool.not_false, if_true, this]
        simp only [show ¬ (i + 2 = 1) by omega, if_false, List.map_cons, List.map_nil, maxL, show i + 2 - 1 = i + 1 by omega]
        have h := ih f (by omega) (by omega)
        simp only [Cfg.current, Cfg.legacy, Bool.not_false] at h
        rw [h]
        simp
        omega
  obtain ⟨m, rfl⟩ : ∃ m, n = m + 1 := ⟨n - 1, by omega⟩
  rw [key m fuel (Nat.le_refl _) (by omega)]
  omega

/-- Non-vacuity of `eq_constant_depth_leaf_keys` (a map with a leaf key whose value is the map's own mutable
    holder) and of `eq_key_depth_linear` (three maps keyed by maps). -/
def demoMap : Graph := #[{ kind := .leaf, tag := 1 }, { kind := .mvec, kids := [2] }, { kind := .map, keys := [0], kids := [1] }]

example : nativeDepth Cfg.current .eq demoMap 50 2 ≤ 1 :=
  eq_constant_depth_leaf_keys Cfg.current demoMap (by simp [leafKeysB, demoMap, Graph.kind, Graph.node]) 50 2
example : eqTop Cfg.current demoMap 20 2 2 = some true ∧ eqTop Cfg.current demoMap 20 1 1 = some true := by decide
example : 3 ≤ nativeDepth Cfg.current .eq (keyChain 3) 10 3 := eq_key_depth_linear 3 10 (by decide) (by decide)

/-- **K18e** — `serialize-value` (`into_serializable_value`) on a chain of `n` containers uses `n + 1` native frames. -/
theorem serialize_depth_linear (k : Kind) (hk : serRecurses k = true) (n fuel : Nat) (hf : n + 1 ≤ fuel) :
    nativeDepth Cfg.current .serialize (chain k n) fuel n = n + 1 := by
  simp only [nativeDepth, serDepth]
  exact serGo_chain k hk n n (Nat.le_refl _) fuel [] (by omega) (by intro x hx; cases hx)

theorem no_constant_bound_serialize (k : Kind) (hk : serRecurses k = true) (b : Nat) :
    ∃ g fuel v, b < nativeDepth Cfg.current .serialize g fuel v :=
  ⟨chain k b, b + 1, b, by rw [serialize_depth_linear k hk b (b + 1) (Nat.le_refl _)]; omega⟩

/-- cycles through heap slots do not make the serializer loop (`ctx.visited`): a ring of three boxes is 4 frames deep,
    whatever the fuel; a strong box is refused at once -/
example : serDepth (ring .box 3) 100 0 = 4 ∧ serDepth (ring .box 3) 1000 0 = 4 ∧ serDepth (ring .mvec 2) 100 0 = 3 ∧
    serDepth (ring .sbox 3) 100 0 = 1 ∧ nativeDepth Cfg.current .serialize (chain .list 5) 100 5 = 6 := by decide

/-! ## 4. The table regenerated from the source

The theorems of this section are `decide` over the table `Gen.table` that `translate/` regenerates from /repo on
every run: they are statements about THAT TABLE (every entry of it), i.e. checks of the scanner's output, not
theorems about the Rust code. -/

set_option maxRecDepth 1000000 in
open Gen in
/-- every (operation, SteelVal variant) has a classified entry — a new variant or a new arm that the scan cannot
    classify fails here -/
theorem all_ops_classified :
    (ops.all fun op => variants.all fun v =>
      match table.find? (fun e => e.1 == op && e.2.1 == v) with
      | some e => e.2.2 != T.missing
      | none => false) = true := by decide

/-- The (operation, variant) pairs that the code walks by unbounded native recursion, as listed findings. -/
def knownRecursive : List (String × List String) := [
  -- K18a  Hash for SteelVal
  ("hash", ["VectorV", "HashMapV", "HashSetV", "CustomStruct", "IterV", "ReducerV", "ListV", "Pair", "MutableVector",
            "SyntaxObject", "Boxed", "HeapAllocated"]),
  -- K18b  Display re-entered with a fresh depth counter (boxes repaired by fffa6bd3)
  ("print", ["HashMapV", "HashSetV", "SyntaxObject"]),
  -- K18d  key lookup inside ==
  ("equal", ["HashMapV", "HashSetV"]),
  -- K18f  payloads without `impl Drop` (pairs and hash sets repaired by 31703dd1)
  ("drop", ["Closure", "Custom", "IterV", "ReducerV", "FutureV", "ContinuationFunction", "BoxedIterator",
            "SyntaxObject", "Boxed", "Reference"]),
  -- K18e  serialize-value
  ("serialize", ["Closure", "ListV", "Pair", "HashMapV", "CustomStruct", "HeapAllocated", "VectorV", "StreamV", "HashSetV",
                 "MutableVector"])]

set_option maxRecDepth 1000000 in
open Gen in
/-- no unbounded native recursion outside the listed classes — a newly introduced recursive traversal fails here -/
theorem no_unbounded_recursion_partial :
    (table.all fun e => e.2.2 != T.recUnbounded ||
      (knownRecursive.any fun k => k.1 == e.1 && k.2.contains e.2.1)) = true := by decide

set_option maxRecDepth 1000000 in
open Gen in
/-- and the listed classes are still there (a repaired class makes this fail: the entry has to be retired) -/
theorem known_recursive_present :
    (knownRecursive.all fun k => k.2.all fun v => table.contains (k.1, v, T.recUnbounded)) = true := by decide

set_option maxRecDepth 1000000 in
open Gen in
/-- the worklists are worklists: the marker (both copies), the cycle collector and the drop handler never call `visit`
    from a `visit_*` method; sending moves the reference -/
theorem worklists_do_not_recurse :
    (table.all fun e => !(e.1 == "mark" || e.1 == "collect" || e.1 == "dropwl" || e.1 == "send") ||
      e.2.2 == T.iterative || e.2.2 == T.atomic) = true ∧ mark2Recursive = [] := by decide

/-! ### the call graph of the traversal code

`Gen.wlCalls` / `Gen.wlFns`: the functions of the marker (both copies), the cycle collector, the drop handler, the `Drop`
impls that start it and the functions they hand the visitor to (`visit_children`, `drop_mut`, …: every function of that name
in the crate), with the calls the scan finds in their bodies.  These are again statements about the scanner's output. -/

set_option maxRecDepth 1000000 in
/-- no function of the worklist traversals reaches itself: no `visit_*` method (or helper, or custom-type hook) leads back
    into a `visit` loop, directly or through other methods — a recursive path makes the list unorderable and this fails -/
theorem worklist_call_graphs_acyclic : rankedB Gen.wlCalls = true ∧ Gen.wlCalls.length = Gen.wlFns.length ∧
    Gen.recursivePaths = [] := by decide

set_option maxRecDepth 1000000 in
theorem worklist_chain_depths :
    (Gen.wlEntries.all fun e => decide (chainDepth Gen.wlCalls (e.2 + 1) e.2 ≤ 5)) = true ∧
    (Gen.wlDropEntries.all fun e => decide (chainDepth Gen.wlCalls (e + 1) e ≤ 7)) = true := by decide

/-- **the native stack of the scanned code** — whatever value drives them, the nested calls below the `visit` of the marker,
    of its parallel copy, of the cycle collector and of the drop handler are at most 5 deep (`visit` → `visit_custom_type`
    → `visit_children` → `gc_visit_children` → `push_back` is the longest), and below a `Drop` impl at most 7: the proof is
    `call_chain_bounded` (a call graph without cycles bounds every chain of nested calls) applied to the regenerated graph. -/
theorem worklist_native_stack_scanned (op : String) (e : Nat) (he : (op, e) ∈ Gen.wlEntries) (chain : List Nat)
    (hc : IsCallChain Gen.wlCalls e chain) : chain.length + 1 ≤ 5 := by
  have h1 := call_chain_bounded Gen.wlCalls worklist_call_graphs_acyclic.1 chain e (e + 1) (by omega) hc
  have h2 := worklist_chain_depths.1
  rw [List.all_eq_true] at h2
  have := h2 (op, e) he
  simp only [decide_eq_true_eq] at this
  omega

set_option maxRecDepth 1000000 in
/-- **K18d in the call graph** — the equality handler does reach itself: the arms for hash maps / hash sets look keys up
    (`r.get(key)`), which is `PartialEq for SteelVal`, which builds a new handler.  The flag of the model is exactly this. -/
theorem eq_reenters_itself_scanned :
    reachesB Gen.eqCalls Gen.eqEntry Gen.eqCalls.length [Gen.eqEntry] = !Gen.eqKeysIterative ∧
    rankedB Gen.eqCalls = Gen.eqKeysIterative := by decide

/-- the configuration of the model that stands for the code is the one the scan finds -/
def scannedCfg : Cfg :=
  { eqBoxVisited := Gen.eqBoxVisited, eqMixVecVisited := Gen.eqMixVecVisited, eqKeysIterative := Gen.eqKeysIterative,
    markSboxVisited := Gen.markSboxVisited, markImmVisited := Gen.markImmVisited, ccSboxMutable := Gen.ccSboxMutable,
    ccTracksAlways := Gen.ccTracksAlways, hashIterative := Gen.hashIterative, hashCycleSafe := Gen.hashCycleSafe,
    printBoxNoReentry := Gen.printBoxNoReentry, printMapNoReentry := Gen.printMapNoReentry,
    dropPairSetIterative := Gen.dropPairSetIterative, dropClosureBoxIterative := Gen.dropClosureBoxIterative }

theorem cfg_current_is_scanned : scannedCfg = Cfg.current := by decide

theorem print_limit_is_scanned : Gen.printLimit = printLimit := by decide

/-- the kinds the model treats as checked / switching recording on are the ones the scan finds -/
theorem scanned_kind_sets :
    Gen.eqCheckedVariants = ["Boxed", "CustomStruct", "HashMapV", "HashSetV", "HeapAllocated", "ListV", "MutableVector", "Pair",
      "VectorV"] ∧
    Gen.ccSetsFoundVariants = ["Boxed", "HeapAllocated", "MutableVector"] ∧
    Gen.dropImpls = ["LazyStream", "Pair", "SteelHashMap", "SteelHashSet", "SteelVector", "UserDefinedStruct"] ∧
    Gen.listDropHandler = true := by decide

/-! ## 5. Non-vacuity -/

/- `demoCycle` (defined in §2): a cyclic graph on which the partial guards hold. -/

example : eqUncheckedDescB Cfg.current demoCycle = true ∧ untrackedDescB demoCycle (markTracked Cfg.current demoCycle) = true ∧
    ccDescB Cfg.current demoCycle = true := by decide

example : eqTop Cfg.current demoCycle 20 1 1 = some true := by decide
example : markRun Cfg.current demoCycle 20 [1] = some [1] := by decide
example : ccRun Cfg.current demoCycle 20 1 = some [2, 1] := by decide

/-- two separate self-referential mutable vectors are compared in two rounds -/
def demoTwo : Graph := #[{ kind := .mvec, kids := [0] }, { kind := .mvec, kids := [1] }]
example : eqTop Cfg.current demoTwo 5 0 1 = some true := by decide
example : eqUncheckedDescB Cfg.current demoTwo = true := by decide

/-- the guard failed exactly where the code looped: two self-referential boxes -/
example : eqUncheckedDescB Cfg.legacy (twoRings .box 1) = false := by decide
example : eqTop Cfg.legacy (twoRings .box 1) 40 0 1 = none := by decide
example : eqTop Cfg.current (twoRings .box 1) 5 0 1 = some true := by decide
example : eqTop Cfg.fixed (twoRings .box 1) 5 0 1 = some true := by decide
example : (ccRun Cfg.current (ring .sbox 2) 10 0).isSome = true ∧ ccRun Cfg.legacy (ring .sbox 2) 10 0 = none := by decide
example : nativeDepth Cfg.current .print (chain .box 20) 100 20 = 22 ∧ nativeDepth Cfg.legacy .print (chain .box 20) 100 20 = 22 := by decide
example : nativeDepth Cfg.current .drop (chain .pair 5) 100 5 = 1 ∧ nativeDepth Cfg.legacy .drop (chain .pair 5) 100 5 = 6 ∧
    nativeDepth Cfg.current .drop (chain .closure 5) 100 5 = 6 := by decide

example : nativeDepth Cfg.current .hash (chain .list 5) 100 5 = 6 := by decide
example : nativeDepth Cfg.fixed .hash (chain .list 5) 100 5 = 1 := by decide
example : nativeDepth Cfg.current .mark (chain .list 5) 100 5 = 3 := by decide
example : hashLim (chain .list 5) 6 5 = some () ∧ hashLim (chain .list 5) 5 5 = none := by decide
example : (dropRun (chain .pair 3) 100 3).map (·.1) = some [0, 1, 2, 3] := by decide
example : acyclicB (chain .pair 3) = true ∧ allHeldB (chain .pair 3) 3 = true := by decide
example : acyclicB (dag 3) = true ∧ allHeldB (dag 3) 3 = true := by decide
example : markRun Cfg.current (dag 3) 15 [3] = none ∧ (markRun Cfg.current (dag 3) 16 [3]).isSome = true := by decide

/-! ## Clauses of the property not carried by a theorem

For the code as it is (`Cfg.current`) several clauses of the property are FALSE in the model, and what is proved is
their negation: hashing (`recursive_depth_linear`, `hash_cycle_overflows`: K18a), printing of nested hash maps / sets
(`print_depth_linear_maps`: K18b), `equal?` on maps keyed by maps (`eq_key_depth_linear`: K18d — the re-entry is also
visible in the scanned call graph: `eq_reenters_itself_scanned`), `serialize-value` (`serialize_depth_linear`: K18e),
dropping chains of closures / strong boxes (`drop_depth_linear`: K18f), marking a ring of strong boxes
(`not_mark_terminates_cyclic`: K18g), the exponential marking of shared immutable structure (`mark_not_polynomial`:
K18i), the prelude's printer on a mutable struct that holds itself (`not_prelude_print_terminates`: K18k).
Not carried by any theorem:

* "Creating": construction of values (reader, `list` / `vector` constructors, `apply`, `map`, `append`, `list->vector`,
  transducers) is not modelled; it is exercised on the real engine only (shapes `built:*` of the check: 20 construction
  primitives on 10^6 elements, element count compared with S).
* "using native stack space independent of the value's depth" for `mark`, `collect`: now a theorem about the visitor
  MACHINE (`machine_native_stack_bounded`, ≤ 4 frames in every reachable state) that is tied to the loop model of the
  termination theorems for the marker (`marker_loop_is_machine_run`); for the cycle collector the machine has the
  `found_mutable` switch but no simulation theorem against `ccStep` (the check compares the two on every generated shape).
  The 5th frame of the scanned code (custom types handing the visitor to `visit_children` → `gc_visit_children`) is in the
  call graph (`worklist_native_stack_scanned`: ≤ 5) but custom types are not a kind of the model.  The call graph is a
  regex scan: calls through closures / trait objects other than the functions named like the ones the visitor is handed
  to, and the compiler's drop glue for temporaries inside `visit_*` methods, are not seen.
* HEAP space: `worklist_space_linear` (≤ |roots| + |edges| entries) needs a mark on every container (`Cfg.fixed`) or a
  value without immutable containers (`…_partial`); for the code as it is on shared immutable structure no bound is
  proved (time is exponential: K18i; the depth-first queue stays small in the runs of the check but that is not a
  theorem).  `drop_worklist_space_linear` holds for every graph.  The `visited` SET of `equal?` (|g|² pairs) and the
  parallel marker's `SegQueue` are not bounded by a theorem.
* "sending to another thread": `send` is a move of one reference in the model (table: `channel_send` does
  `as_rooted`); `serialize-value` is modelled by its native depth and its `visited` set only (no output).
* "collecting": mark (under the guard `untrackedDescB` for `Cfg.current`) + sweep (`collect_frees_exactly_unmarked`:
  frees exactly the unmarked slots); that the marked set is the set of nodes REACHABLE from the roots is not proved here
  (C04's subject); the minor collection (`weak_count == 0`), growth / compaction of the slot array and the weak-reference
  upgrade are not modelled.  Reference-count cycles (strong boxes) are leaked (`rc_cycle_leaked`) — never collected.
* "comparison … of cyclic structures terminate": `eq_terminates_cyclic_current` (one run, arbitrary total `keyEq`) and
  `eq_nested_terminates_current` (every level of nested key comparison, for every bound `d` on the nesting); a cycle
  THROUGH keys (a map that is reachable from its own key through a box) makes the real nesting unbounded — in the model
  that is `d → ∞`, i.e. the native depth (K18d), not a theorem about rounds; `eqv?`/`eq?`, numeric towers, and custom
  `PartialEq` of opaque Rust values are outside.
* "printing of cyclic structures terminate": first phase `print_terminates_cyclic(_partial)` (for `Cfg.current` under the
  guard `ccDescB`); second phase `print_output_finite(_current)`: finite text within 129 frames for every graph and
  every label table, but only for values without hash maps / hash sets (K18b), and the text is a list of abstract
  tokens (widths of shared structure: up to maxDeg^128 tokens — not bounded polynomially by a theorem).  That the
  first phase's labels cut every cycle (`labelsCutB` of `ccLabels`) is NOT proved in general — it is false for
  `Cfg.current` (K18k) and for `Cfg.fixed` it is checked on the generated shapes only; the prelude's printer ends
  under that guard (`prelude_print_terminates_partial`).
* "discarding": `drop_terminates` holds for every graph, but only acyclic graphs are proved to be freed
  (`drop_frees_all_acyclic`); cycles are leaked by the worklist (and left to the collector).  The native depth of
  the drop GLUE is the negative result K18f.
* "(or returns an error value)": no operation of the model returns an error (the serializer's refusal of a strong box is
  depth 1); `hashLim = none` stands for the process dying of stack exhaustion.
* "hash maps, structs, … closures capturing each other, streams": kinds are modelled by their child lists only;
  streams are never forced; struct fields of mutable structs are `box` nodes; hashing of closures / streams is by
  identity.  "depth up to 10^6": the theorems are for all depths; wall-clock time is not modelled (the bounds are
  numbers of loop rounds, exponential in the `_partial` statements).
Everything in §5 and the `example`s are TESTS on concrete graphs (by `decide`), not general claims. -/

end SteelVerif.C18
