import SteelVerif.C18.LemmasWitness
import SteelVerif.C18.LemmasCc
import SteelVerif.C18.LemmasDropAll
import SteelVerif.C18.GenTraversals
/-
C18 — arbitrarily deep, wide or cyclic values are handled without exhausting the host.

The property theorems.  `Cfg.current` is the code as it is (tied to the source by `cfg_current_is_scanned` below:
the flags are regenerated from /repo on every run), `Cfg.legacy` the code as it was before the repairs 35ea4f4c
(equal?), fffa6bd3 (Display of boxes), 31703dd1 (Drop for pairs / hash sets), `Cfg.fixed` the configuration for which
all full statements hold.  For each statement that is false for `Cfg.current` (or was for `Cfg.legacy`) the full
statement is proved for the sound configurations, a `…_partial` statement under a decidable guard for every
configuration, and the negation from a concrete family of graphs.
-/
namespace SteelVerif.C18

/-! ## 1. Worklist operations use constant native stack — for ALL graphs (any depth, width, cyclic) -/

/-- Every operation that the configuration marks as a worklist for all kinds runs in one native frame, whatever
    the graph is and however deep the (cut-off) unfolding is taken.
    WHAT THIS SAYS AND WHAT IT DOES NOT: for `collect`, `mark` and `send` — the only operations with
    `iterativeIn Cfg.current` — the bound holds BY CONSTRUCTION of the model (`nativeDepth` is the constant 1 for
    them: the marker, the cycle collector and the drop handler are written as `iter` of a step function, a loop);
    that the code's `visit_*` methods really never call `visit` is the regenerated table
    (`worklists_do_not_recurse`), not this theorem.  For `eq`, `hash`, `drop` the theorem has content only for
    configurations that differ from the code (`Cfg.fixed`); for the code as it is the statements about these
    operations are the NEGATIONS of §3. -/
theorem iterative_constant_depth (c : Cfg) (op : Op) (h : op.iterativeIn c = true) (g : Graph) (fuel v : Nat) :
    nativeDepth c op g fuel v ≤ 1 := by
  cases op with
  | eq =>
    simp only [Op.iterativeIn] at h
    exact recDepth_const _ _ (fun _ => by simp [h]) fuel v
  | hash =>
    simp only [Op.iterativeIn] at h
    exact recDepth_const _ _ (fun _ => by simp [h]) fuel v
  | collect => simp [nativeDepth]
  | print => simp [Op.iterativeIn] at h
  | mark => simp [nativeDepth]
  | drop =>
    simp only [Op.iterativeIn, Bool.and_eq_true] at h
    exact recDepth_const _ _ (fun w => by cases hk : (g.kind w) <;> simp [dropNativeKind, h.1, h.2]) fuel v
  | send => simp [nativeDepth]

/-- The definitional part of `iterative_constant_depth`, stated as what it is. -/
theorem worklist_depth_by_construction (c : Cfg) (g : Graph) (fuel v : Nat) :
    nativeDepth c .mark g fuel v = 1 ∧ nativeDepth c .collect g fuel v = 1 ∧ nativeDepth c .send g fuel v = 1 :=
  ⟨rfl, rfl, rfl⟩

/-- Non-vacuity of `iterative_constant_depth` where it has content: hashing and dropping a chain of 5 lists /
    closures under `Cfg.fixed` (one frame; `Cfg.current` uses 6 — §5). -/
example : nativeDepth Cfg.fixed .hash (chain .list 5) 100 5 ≤ 1 ∧ nativeDepth Cfg.fixed .drop (chain .closure 5) 100 5 ≤ 1 :=
  ⟨iterative_constant_depth Cfg.fixed .hash (by decide) _ _ _, iterative_constant_depth Cfg.fixed .drop (by decide) _ _ _⟩

/-- The code as it is: the marker, the cycle collector and sending a value to a thread are worklists / moves. -/
theorem iterative_ops_current : (Op.iterativeIn Cfg.current .mark && Op.iterativeIn Cfg.current .collect &&
    Op.iterativeIn Cfg.current .send) = true := by decide

/-- For the fixed configuration every operation except printing is constant, … -/
theorem iterative_ops_fixed : ∀ op : Op, op ≠ .print → op.iterativeIn Cfg.fixed = true := by
  intro op h; cases op <;> simp_all [Op.iterativeIn, Cfg.fixed]

/-- … and printing stays below the explicit depth limit (plus the two frames of the entry points), for all graphs,
    as soon as no kind re-enters `Display` (`Cfg.fixed`), or no such kind occurs in the value (`Cfg.current`). -/
theorem print_depth_bounded (c : Cfg) (g : Graph) (h : ∀ v, printReenters c (g.kind v) = false) (fuel v : Nat) :
    nativeDepth c .print g fuel v ≤ printLimit + 2 := by
  have := printDepth_le c g h fuel 0 v (by simp [printLimit])
  simp only [nativeDepth]
  omega

theorem print_depth_bounded_fixed (g : Graph) (fuel v : Nat) : nativeDepth Cfg.fixed .print g fuel v ≤ printLimit + 2 :=
  print_depth_bounded Cfg.fixed g (fun v => by cases (g.kind v) <;> simp [printReenters, Cfg.fixed]) fuel v

/-- Non-vacuity of `print_depth_bounded(_fixed)`: under `Cfg.fixed` a chain of 140 hash maps is printed with
    exactly `printLimit + 2 = 130` frames — the limit is reached, the bound is tight (`Cfg.current`: 142, §3). -/
example : nativeDepth Cfg.fixed .print (chain .map 140) 150 140 ≤ printLimit + 2 :=
  print_depth_bounded_fixed _ _ _

set_option maxRecDepth 100000 in
example : nativeDepth Cfg.fixed .print (chain .map 140) 150 140 = 130 ∧
    nativeDepth Cfg.current .print (chain .list 140) 150 140 = 130 := by decide

/-- `equal?` on values whose hash-map keys and set members are leaves never re-enters `==`: constant depth. -/
theorem eq_constant_depth_leaf_keys (c : Cfg) (g : Graph) (h : leafKeysB g = true) (fuel v : Nat) :
    nativeDepth c .eq g fuel v ≤ 1 := by
  have hk : ∀ w, containerKeys g w = [] := by
    intro w
    unfold containerKeys
    rw [List.filter_eq_nil_iff]
    intro k hk
    by_cases hw : w < g.size
    · unfold leafKeysB at h
      rw [Array.all_eq_true] at h
      have := h w hw
      simp only [List.all_eq_true] at this
      have hn : g.node w = g[w] := by simp [Graph.node, Array.getD, hw]
      rw [hn] at hk
      simpa using this k hk
    · rw [node_of_ge g (by omega)] at hk
      cases hk
  simp only [nativeDepth, eqKeyDepth]
  cases fuel with
  | zero => simp [recDepth]
  | succ f =>
    simp only [recDepth, hk v]
    split <;> simp [maxL]

/-! ## 2. Termination on arbitrary (cyclic) graphs, with a bound on the number of loop rounds

In all `…_terminates…` theorems `iter step fuel s = some r` means: the loop reaches its `done` within `fuel`
rounds (`iter _ 0 _ = none`, so the witness is never trivial), and the bound on `fuel` is part of the
statement.  In the `equal?` theorems `keyEq` — the nested comparison of hash-map keys — is an ARBITRARY TOTAL
function: termination of the nested comparisons themselves (`eqRun` with container keys) is not claimed. -/

/-- a cyclic graph on which the partial guards hold: a mutable vector holding a list holding the vector -/
def demoCycle : Graph := #[{ kind := .leaf, tag := 7 }, { kind := .mvec, kids := [2] }, { kind := .list, kids := [1, 0] }]

/-- **equal?** — when every descending arm enters its pair into `visited` (the two flags), the comparison of any two
    nodes of any graph (cyclic, shared, ill-formed) ends within `|g|²·(maxDeg+1) + 2` rounds, whatever the key
    comparison answers.  Measure: pairs not yet visited. -/
theorem eq_terminates_cyclic (c : Cfg) (hc : eqAllChecked c = true) (g : Graph) (keyEq : Nat → Nat → Bool) (a b : Nat) :
    ∃ fuel, fuel ≤ eqBoundPoly g ∧ ∃ r : Bool, iter (eqStep c g keyEq) fuel { work := [(a, b)], vis := [] } = some r :=
  eq_terminates_poly c hc g keyEq a b

/-- the partial statement for every configuration, in particular `Cfg.current`: if, along the pairs that are not
    entered into `visited` (boxes against boxes, vector against mutable vector), the left index decreases -/
theorem eq_terminates_cyclic_partial (c : Cfg) (g : Graph) (hg : eqUncheckedDescB c g = true) (keyEq : Nat → Nat → Bool) (a b : Nat) :
    ∃ fuel, fuel ≤ eqBoundExp g ∧ ∃ r : Bool, iter (eqStep c g keyEq) fuel { work := [(a, b)], vis := [] } = some r :=
  eq_terminates_exp c g hg keyEq a b

/-- the code as it is (after 35ea4f4c): every pair of values of every graph -/
theorem eq_terminates_cyclic_current (g : Graph) (keyEq : Nat → Nat → Bool) (a b : Nat) :
    ∃ fuel, fuel ≤ eqBoundPoly g ∧ ∃ r : Bool, iter (eqStep Cfg.current g keyEq) fuel { work := [(a, b)], vis := [] } = some r :=
  eq_terminates_poly Cfg.current (by decide) g keyEq a b

/-- the negation for the code as it was: two distinct rings of boxes (heap boxes or strong boxes) of any length -/
theorem not_eq_terminates_cyclic (k : Kind) (hk : k = .box ∨ k = .sbox) (n : Nat) (hn : 0 < n) (keyEq : Nat → Nat → Bool) :
    ¬ ∃ fuel, ∃ r : Bool, iter (eqStep Cfg.legacy (twoRings k n) keyEq) fuel { work := [(0, n)], vis := [] } = some r := by
  intro ⟨fuel, r, h⟩
  rw [eq_box_rings_diverge k hk n hn keyEq fuel] at h
  cases h

/-- Non-vacuity of `eq_terminates_cyclic_partial` with a guard that is not vacuous: under `Cfg.legacy` box pairs are
    not entered into `visited`; on a chain of boxes the guard holds (the left index decreases) and the comparison
    of two different boxes of the chain ends. -/
example : eqUncheckedDescB Cfg.legacy (chain .box 3) = true ∧ eqTop Cfg.legacy (chain .box 3) 20 3 2 = some false := by
  decide

example : ∃ fuel, fuel ≤ eqBoundExp (chain .box 3) ∧ ∃ r : Bool,
    iter (eqStep Cfg.legacy (chain .box 3) (leafKeyEq (chain .box 3))) fuel { work := [(3, 2)], vis := [] } = some r :=
  eq_terminates_cyclic_partial Cfg.legacy _ (by decide) _ 3 2

theorem markTracked_lt (c : Cfg) (g : Graph) (v : Nat) (h : markTracked c g v = true) : v < g.size := by
  apply lt_size_of_kind_ne_leaf
  intro hk
  simp [markTracked, hk] at h

/-- **marker** — with a visited mark on every container the marking of any graph from any roots ends within
    `|g|·(maxDeg+1) + |roots| + 1` rounds.  Measure: unmarked nodes. -/
theorem mark_terminates_cyclic (c : Cfg) (h1 : c.markSboxVisited = true) (h2 : c.markImmVisited = true) (g : Graph) (roots : List Nat) :
    ∃ fuel, fuel ≤ wlBoundPoly g roots ∧ ∃ m, markRun c g fuel roots = some m := by
  apply wl_terminates_poly g (markTracked c g) _ (markTracked_lt c g) roots
  intro v hv
  unfold Graph.sons
  cases hk : (g.node v).kind <;> simp [markTracked, Graph.kind, hk, h1, h2] at hv ⊢

/-- the partial statement: the nodes without a mark (immutable containers, strong boxes for `Cfg.current`) only have
    unmarked children of smaller index.  The bound is exponential — see `mark_dag_exponential`. -/
theorem mark_terminates_cyclic_partial (c : Cfg) (g : Graph) (hg : untrackedDescB g (markTracked c g) = true) (roots : List Nat) :
    ∃ fuel, fuel ≤ wlBoundExp g roots ∧ ∃ m, markRun c g fuel roots = some m :=
  wl_terminates_exp g (markTracked c g) hg (markTracked_lt c g) roots

/-- Non-vacuity of `mark_terminates_cyclic_partial` (the guard on `demoCycle`, a cyclic graph, is checked in §5): -/
example : ∃ fuel, fuel ≤ wlBoundExp demoCycle [1] ∧ ∃ m, markRun Cfg.current demoCycle fuel [1] = some m :=
  mark_terminates_cyclic_partial Cfg.current demoCycle (by decide) [1]

/-- negation 1: a ring of strong boxes is marked for ever -/
theorem not_mark_terminates_cyclic (n : Nat) (hn : 0 < n) :
    ¬ ∃ fuel, ∃ m, markRun Cfg.current (ring .sbox n) fuel [0] = some m := by
  intro ⟨fuel, m, h⟩
  rw [mark_sbox_ring_diverges n hn fuel] at h
  cases h

/-- negation 2 (no polynomial bound): the doubling dag of depth `n` — `n+1` nodes — needs `2^(n+1) - 1` rounds -/
theorem mark_not_polynomial (n fuel : Nat) (h : fuel + 1 < 2 ^ (n + 1)) : markRun Cfg.current (dag n) fuel [n] = none :=
  mark_dag_exponential n fuel h

/-- **printing**, first phase (cycle collector) — recording from the start (`ccTracksAlways`): every graph. -/
theorem print_terminates_cyclic (c : Cfg) (h : c.ccTracksAlways = true) (g : Graph) (root : Nat) :
    ∃ fuel, fuel ≤ ccBound g ∧ ∃ r, ccRun c g fuel root = some r := by
  apply cc_terminates c g _ root
  unfold ccDescB untrackedDescB
  simp [h]

/-- partial: every cycle passes through a node that switches recording on (a heap box, a mutable vector) -/
theorem print_terminates_cyclic_partial (c : Cfg) (g : Graph) (hg : ccDescB c g = true) (root : Nat) :
    ∃ fuel, fuel ≤ ccBound g ∧ ∃ r, ccRun c g fuel root = some r :=
  cc_terminates c g hg root

example : ∃ fuel, fuel ≤ ccBound demoCycle ∧ ∃ r, ccRun Cfg.current demoCycle fuel 1 = some r :=
  print_terminates_cyclic_partial Cfg.current demoCycle (by decide) 1

/-- negation for the code as it was (before fffa6bd3): a ring of strong boxes never switched recording on -/
theorem not_print_terminates_cyclic (n : Nat) (hn : 0 < n) :
    ¬ ∃ fuel, ∃ r, ccRun Cfg.legacy (ring .sbox n) fuel 0 = some r := by
  intro ⟨fuel, r, h⟩
  rw [cc_sbox_ring_diverges n hn fuel] at h
  cases h

/-- second phase on a ring of heap boxes, as it was: `Display` re-entered itself at every box, every level of fuel is used -/
theorem print_box_ring_unbounded (n fuel i : Nat) (hi : i < n) : nativeDepth Cfg.legacy .print (ring .box n) fuel i = 1 + fuel := by
  simp [nativeDepth, printDepth_box_ring n fuel i hi]

/-- **drop** — the worklist consumes one reference per round: it ends on every graph (cycles are leaked, not looped),
    within `(sum of the strong counts)·(maxDeg+1) + 2` rounds. -/
theorem drop_terminates (g : Graph) (rc : List Nat) (root : Nat) :
    ∃ fuel, fuel ≤ dropBound g rc ∧ ∃ r, iter (dropStep g) fuel { work := [root], rc := rc, freed := [] } = some r :=
  drop_terminates_gen g rc root

theorem closed_of_acyclic (g : Graph) (ha : acyclicB g = true) : closedB g = true := by
  unfold acyclicB at ha
  unfold closedB
  rw [List.all_eq_true] at ha ⊢
  intro i hi
  have := ha i hi
  rw [List.all_eq_true] at this ⊢
  intro j hj
  have h1 := this j hj
  have h2 := List.mem_range.mp hi
  simp only [decide_eq_true_eq] at h1 ⊢
  omega

/-- **drop frees everything** — on an acyclic graph (children have smaller indices) in which every node other than
    the root is held by some node, with strong counts = number of holders (+1 for the outside reference to the root),
    dropping the root ends with every node freed. -/
theorem drop_frees_all_acyclic (g : Graph) (root : Nat) (ha : acyclicB g = true) (hr : root < g.size)
    (hh : allHeldB g root = true) :
    ∃ fuel, fuel ≤ dropBound g (initRc g root) ∧ ∃ freed rc, dropRun g fuel root = some (freed, rc) ∧
      ∀ v, v < g.size → v ∈ freed := by
  obtain ⟨fuel, hb, r, hrun⟩ := drop_terminates_gen g (initRc g root) root
  refine ⟨fuel, hb, r.1, r.2, hrun, ?_⟩
  have hc := closed_of_acyclic g ha
  exact iter_inv (DropInv g) (fun r => ∀ v, v < g.size → v ∈ r.1)
    (fun s s' hI hs => dropStep_inv g hc s s' hI hs)
    (fun s r hI hs => by
      unfold dropStep at hs
      cases hw : s.work with
      | nil =>
        simp only [hw] at hs
        cases hs
        exact drop_final_all g ha s hI hw
      | cons v rest =>
        simp only [hw] at hs
        split at hs
        · cases hs
        · split at hs <;> cases hs)
    fuel _ r (drop_init_inv g root hr hh) hrun

/-- Non-vacuity of `drop_frees_all_acyclic`: the doubling dag of depth 3 (every node held twice) satisfies the three
    hypotheses; dropping node 3 frees all four nodes within the bound (23 rounds). -/
example : ∃ fuel, fuel ≤ dropBound (dag 3) (initRc (dag 3) 3) ∧ ∃ freed rc, dropRun (dag 3) fuel 3 = some (freed, rc) ∧
    ∀ v, v < (dag 3).size → v ∈ freed :=
  drop_frees_all_acyclic (dag 3) 3 (by decide) (by decide) (by decide)

example : dropRun (dag 3) 23 3 = some ([0, 1, 2, 3], [0, 0, 0, 0]) ∧ dropBound (dag 3) (initRc (dag 3) 3) = 23 := by decide

/-- `drop_terminates` on a CYCLE (two strong boxes pointing at each other, one outside reference): the loop ends,
    nothing is freed — the cycle is leaked, as the doc comment says; freeing is claimed for acyclic graphs only. -/
example : (dropRun (ring .sbox 2) 10 0).map (·.1) = some [] := by decide

/-! ## 3. Native recursion: depth linear in the depth of the value -/

/-- **D7** — `Hash for SteelVal` on a chain of `n` containers uses `n + 1` native frames: no constant bounds it. -/
theorem recursive_depth_linear (k : Kind) (hk : hashRecurses k = true) (n fuel : Nat) (hf : n + 1 ≤ fuel) :
    nativeDepth Cfg.current .hash (chain k n) fuel n = n + 1 := by
  simp only [nativeDepth, hashDepth]
  apply recDepth_chain (chain k n).sons _ n (Or.inr (chain_sons_zero k n))
    (fun i h0 hi => chain_sons k (hashRecurses_ne_leaf hk) n i h0 hi)
    (fun i h0 hi => by simp [Cfg.current, Cfg.legacy, chain_kind k n i h0 hi, hk]) n fuel (Nat.le_refl _) hf

theorem no_constant_bound_hash (k : Kind) (hk : hashRecurses k = true) (b : Nat) :
    ∃ g fuel v, b < nativeDepth Cfg.current .hash g fuel v :=
  ⟨chain k b, b + 1, b, by rw [recursive_depth_linear k hk b (b + 1) (Nat.le_refl _)]; omega⟩

/-- the positive part: a value whose height fits into the frames that are available is hashed -/
theorem recursive_depth_linear_partial (g : Graph) (lim fuel v : Nat) (h1 : height g fuel v < fuel) (h2 : height g fuel v ≤ lim) :
    (hashLim g lim v).isSome = true :=
  hashLim_of_height g lim fuel v h1 h2

/-- Non-vacuity of `recursive_depth_linear_partial`: a chain of 5 lists has height 6; 6 frames are enough. -/
example : (hashLim (chain .list 5) 6 5).isSome = true :=
  recursive_depth_linear_partial (chain .list 5) 6 100 5 (by decide) (by decide)

/-- with `lim` frames a chain of `lim` or more containers exhausts the native stack … -/
theorem hash_chain_overflows (k : Kind) (hk : hashRecurses k = true) (n lim : Nat) (h : lim ≤ n) : hashLim (chain k n) lim n = none :=
  hashLim_chain_none k hk n lim n h (Nat.le_refl _)

/-- … and a cycle exhausts any stack -/
theorem hash_cycle_overflows (k : Kind) (hk : hashRecurses k = true) (n lim i : Nat) (hi : i < n) : hashLim (ring k n) lim i = none :=
  hashLim_ring_none k hk n lim i hi

/-- dropping the last reference to a chain of pairs / strong boxes / closures / hash sets: recursive drop glue -/
theorem drop_depth_linear (k : Kind) (hk : dropNativeKind Cfg.current k = true) (n fuel : Nat) (hf : n + 1 ≤ fuel) :
    nativeDepth Cfg.current .drop (chain k n) fuel n = n + 1 := by
  have hkl : k ≠ .leaf := by intro h; subst h; simp [dropNativeKind] at hk
  simp only [nativeDepth, dropDepth]
  apply recDepth_chain (chain k n).sons _ n (Or.inr (chain_sons_zero k n))
    (fun i h0 hi => chain_sons k hkl n i h0 hi)
    (fun i h0 hi => by simp [chain_kind k n i h0 hi, hk]) n fuel (Nat.le_refl _) hf

/-- Display of a chain of a kind that re-enters `Display for SteelVal` at every level: the depth limit never applies.
    `Cfg.current`: hash maps and hash sets; `Cfg.legacy`: boxes and strong boxes as well. -/
theorem print_depth_linear_reentrant (c : Cfg) (k : Kind) (hk : printReenters c k = true) (n fuel : Nat) (hf : n + 1 ≤ fuel) :
    nativeDepth c .print (chain k n) fuel n = n + 2 := by
  simp only [nativeDepth, printDepth_reentrant_chain c k hk n n fuel (Nat.le_refl _) hf]
  omega

theorem print_depth_linear_maps (n fuel : Nat) (hf : n + 1 ≤ fuel) : nativeDepth Cfg.current .print (chain .map n) fuel n = n + 2 :=
  print_depth_linear_reentrant Cfg.current .map (by decide) n fuel hf

theorem print_depth_linear_boxes (n fuel : Nat) (hf : n + 1 ≤ fuel) : nativeDepth Cfg.legacy .print (chain .box n) fuel n = n + 2 :=
  print_depth_linear_reentrant Cfg.legacy .box (by decide) n fuel hf

/-- after fffa6bd3 a value without hash maps / hash sets is printed below the depth limit, boxes included -/
theorem print_depth_bounded_current (g : Graph) (h : ∀ v, g.kind v ≠ .map ∧ g.kind v ≠ .set) (fuel v : Nat) :
    nativeDepth Cfg.current .print g fuel v ≤ printLimit + 2 :=
  print_depth_bounded Cfg.current g (fun v => by
    have := h v
    cases hk : g.kind v <;> simp_all [printReenters, Cfg.current, Cfg.legacy]) fuel v

theorem demoCycle_no_maps : ∀ v, demoCycle.kind v ≠ .map ∧ demoCycle.kind v ≠ .set := by
  intro v
  by_cases h : v < 3
  · have : v = 0 ∨ v = 1 ∨ v = 2 := by omega
    rcases this with rfl | rfl | rfl <;> decide
  · have : demoCycle.node v = { kind := .leaf } := node_of_ge demoCycle (by simp [demoCycle]; omega)
    simp [Graph.kind, this]

/-- Non-vacuity of `print_depth_bounded_current`: the cyclic `demoCycle` (mutable vector ⇄ list) has no maps; its
    second printing phase, cut off by the depth counter only (the cycle table is not modelled), uses exactly 130
    frames. -/
example : nativeDepth Cfg.current .print demoCycle 300 1 ≤ printLimit + 2 :=
  print_depth_bounded_current demoCycle demoCycle_no_maps 300 1

set_option maxRecDepth 100000 in
example : nativeDepth Cfg.current .print demoCycle 300 1 = 130 := by decide

theorem keyChain_containerKeys (n i : Nat) (h0 : 0 < i) (hi : i ≤ n) : containerKeys (keyChain n) i = if i = 1 then [] else [i - 1] := by
  have hne : i ≠ 0 := by omega
  unfold containerKeys
  rw [keyChain_node n i hi]
  simp only [hne, if_false, List.filter_cons, List.filter_nil]
  have hk : (keyChain n).kind (i - 1) = if i - 1 = 0 then Kind.leaf else Kind.map := by
    simp only [Graph.kind, keyChain_node n (i - 1) (by omega)]
    split <;> rfl
  rw [hk]
  by_cases h1 : i = 1
  · subst h1; simp
  · have : i - 1 ≠ 0 := by omega
    simp [this, h1]

/-- `equal?` on maps whose key is a map whose key is a map …: one native re-entry of `==` per level -/
theorem eq_key_depth_linear (n fuel : Nat) (hf : n + 1 ≤ fuel) (hn : 0 < n) :
    n ≤ nativeDepth Cfg.current .eq (keyChain n) fuel n := by
  simp only [nativeDepth, eqKeyDepth]
  -- shift the chain by one: node i+1 of the key chain behaves like node i of a chain
  have key : ∀ i f, i + 1 ≤ n → i + 1 ≤ f →
      recDepth (containerKeys (keyChain n)) (fun _ => !Cfg.current.eqKeysIterative) f (i + 1) = i + 1 := by
    intro i
    induction i with
    | zero =>
      intro f h1 h2
      cases f with
      | zero => omega
      | succ f => simp [recDepth, Cfg.current, Cfg.legacy, keyChain_containerKeys n 1 (by omega) h1, maxL]
    | succ i ih =>
      intro f h1 h2
      cases f with
      | zero => omega
      | succ f =>
        have := keyChain_containerKeys n (i + 2) (by omega) h1
        simp only [recDepth, Cfg.current, Cfg.legacy, Bool.not_false, if_true, this]
        simp only [show ¬ (i + 2 = 1) by omega, if_false, List.map_cons, List.map_nil, maxL, show i + 2 - 1 = i + 1 by omega]
        have h := ih f (by omega) (by omega)
        simp only [Cfg.current, Cfg.legacy, Bool.not_false] at h
        rw [h]
        simp
        omega
  obtain ⟨m, rfl⟩ : ∃ m, n = m + 1 := ⟨n - 1, by omega⟩
  rw [key m fuel (Nat.le_refl _) (by omega)]
  omega

/-- Non-vacuity of `eq_constant_depth_leaf_keys` (a map with a leaf key whose value is the map's own mutable
    holder) and of `eq_key_depth_linear` (three maps keyed by maps). -/
def demoMap : Graph := #[{ kind := .leaf, tag := 1 }, { kind := .mvec, kids := [2] }, { kind := .map, keys := [0], kids := [1] }]

example : nativeDepth Cfg.current .eq demoMap 50 2 ≤ 1 :=
  eq_constant_depth_leaf_keys Cfg.current demoMap (by simp [leafKeysB, demoMap, Graph.kind, Graph.node]) 50 2
example : eqTop Cfg.current demoMap 20 2 2 = some true ∧ eqTop Cfg.current demoMap 20 1 1 = some true := by decide
example : 3 ≤ nativeDepth Cfg.current .eq (keyChain 3) 10 3 := eq_key_depth_linear 3 10 (by decide) (by decide)

/-! ## 4. The table regenerated from the source

The theorems of this section are `decide` over the table `Gen.table` that `translate/` regenerates from /repo on
every run: they are statements about THAT TABLE (every entry of it), i.e. checks of the scanner's output, not
theorems about the Rust code. -/

set_option maxRecDepth 1000000 in
open Gen in
/-- every (operation, SteelVal variant) has a classified entry — a new variant or a new arm that the scan cannot
    classify fails here -/
theorem all_ops_classified :
    (ops.all fun op => variants.all fun v =>
      match table.find? (fun e => e.1 == op && e.2.1 == v) with
      | some e => e.2.2 != T.missing
      | none => false) = true := by decide

/-- The (operation, variant) pairs that the code walks by unbounded native recursion, as listed findings. -/
def knownRecursive : List (String × List String) := [
  -- K18a  Hash for SteelVal
  ("hash", ["VectorV", "HashMapV", "HashSetV", "CustomStruct", "IterV", "ReducerV", "ListV", "Pair", "MutableVector",
            "SyntaxObject", "Boxed", "HeapAllocated"]),
  -- K18b  Display re-entered with a fresh depth counter (boxes repaired by fffa6bd3)
  ("print", ["HashMapV", "HashSetV", "SyntaxObject"]),
  -- K18d  key lookup inside ==
  ("equal", ["HashMapV", "HashSetV"]),
  -- K18f  payloads without `impl Drop` (pairs and hash sets repaired by 31703dd1)
  ("drop", ["Closure", "Custom", "IterV", "ReducerV", "FutureV", "ContinuationFunction", "BoxedIterator",
            "SyntaxObject", "Boxed", "Reference"]),
  -- K18e  serialize-value
  ("serialize", ["Closure", "ListV", "Pair", "HashMapV", "CustomStruct", "HeapAllocated", "VectorV", "StreamV", "HashSetV",
                 "MutableVector"])]

set_option maxRecDepth 1000000 in
open Gen in
/-- no unbounded native recursion outside the listed classes — a newly introduced recursive traversal fails here -/
theorem no_unbounded_recursion_partial :
    (table.all fun e => e.2.2 != T.recUnbounded ||
      (knownRecursive.any fun k => k.1 == e.1 && k.2.contains e.2.1)) = true := by decide

set_option maxRecDepth 1000000 in
open Gen in
/-- and the listed classes are still there (a repaired class makes this fail: the entry has to be retired) -/
theorem known_recursive_present :
    (knownRecursive.all fun k => k.2.all fun v => table.contains (k.1, v, T.recUnbounded)) = true := by decide

set_option maxRecDepth 1000000 in
open Gen in
/-- the worklists are worklists: the marker (both copies), the cycle collector and the drop handler never call `visit`
    from a `visit_*` method; sending moves the reference -/
theorem worklists_do_not_recurse :
    (table.all fun e => !(e.1 == "mark" || e.1 == "collect" || e.1 == "dropwl" || e.1 == "send") ||
      e.2.2 == T.iterative || e.2.2 == T.atomic) = true ∧ mark2Recursive = [] := by decide

/-- the configuration of the model that stands for the code is the one the scan finds -/
def scannedCfg : Cfg :=
  { eqBoxVisited := Gen.eqBoxVisited, eqMixVecVisited := Gen.eqMixVecVisited, eqKeysIterative := Gen.eqKeysIterative,
    markSboxVisited := Gen.markSboxVisited, markImmVisited := Gen.markImmVisited, ccSboxMutable := Gen.ccSboxMutable,
    ccTracksAlways := Gen.ccTracksAlways, hashIterative := Gen.hashIterative, hashCycleSafe := Gen.hashCycleSafe,
    printBoxNoReentry := Gen.printBoxNoReentry, printMapNoReentry := Gen.printMapNoReentry,
    dropPairSetIterative := Gen.dropPairSetIterative, dropClosureBoxIterative := Gen.dropClosureBoxIterative }

theorem cfg_current_is_scanned : scannedCfg = Cfg.current := by decide

theorem print_limit_is_scanned : Gen.printLimit = printLimit := by decide

/-- the kinds the model treats as checked / switching recording on are the ones the scan finds -/
theorem scanned_kind_sets :
    Gen.eqCheckedVariants = ["Boxed", "CustomStruct", "HashMapV", "HashSetV", "HeapAllocated", "ListV", "MutableVector", "Pair",
      "VectorV"] ∧
    Gen.ccSetsFoundVariants = ["Boxed", "HeapAllocated", "MutableVector"] ∧
    Gen.dropImpls = ["LazyStream", "Pair", "SteelHashMap", "SteelHashSet", "SteelVector", "UserDefinedStruct"] ∧
    Gen.listDropHandler = true := by decide

/-! ## 5. Non-vacuity -/

/- `demoCycle` (defined in §2): a cyclic graph on which the partial guards hold. -/

example : eqUncheckedDescB Cfg.current demoCycle = true ∧ untrackedDescB demoCycle (markTracked Cfg.current demoCycle) = true ∧
    ccDescB Cfg.current demoCycle = true := by decide

example : eqTop Cfg.current demoCycle 20 1 1 = some true := by decide
example : markRun Cfg.current demoCycle 20 [1] = some [1] := by decide
example : ccRun Cfg.current demoCycle 20 1 = some [2, 1] := by decide

/-- two separate self-referential mutable vectors are compared in two rounds -/
def demoTwo : Graph := #[{ kind := .mvec, kids := [0] }, { kind := .mvec, kids := [1] }]
example : eqTop Cfg.current demoTwo 5 0 1 = some true := by decide
example : eqUncheckedDescB Cfg.current demoTwo = true := by decide

/-- the guard failed exactly where the code looped: two self-referential boxes -/
example : eqUncheckedDescB Cfg.legacy (twoRings .box 1) = false := by decide
example : eqTop Cfg.legacy (twoRings .box 1) 40 0 1 = none := by decide
example : eqTop Cfg.current (twoRings .box 1) 5 0 1 = some true := by decide
example : eqTop Cfg.fixed (twoRings .box 1) 5 0 1 = some true := by decide
example : (ccRun Cfg.current (ring .sbox 2) 10 0).isSome = true ∧ ccRun Cfg.legacy (ring .sbox 2) 10 0 = none := by decide
example : nativeDepth Cfg.current .print (chain .box 20) 100 20 = 22 ∧ nativeDepth Cfg.legacy .print (chain .box 20) 100 20 = 22 := by decide
example : nativeDepth Cfg.current .drop (chain .pair 5) 100 5 = 1 ∧ nativeDepth Cfg.legacy .drop (chain .pair 5) 100 5 = 6 ∧
    nativeDepth Cfg.current .drop (chain .closure 5) 100 5 = 6 := by decide

example : nativeDepth Cfg.current .hash (chain .list 5) 100 5 = 6 := by decide
example : nativeDepth Cfg.fixed .hash (chain .list 5) 100 5 = 1 := by decide
example : nativeDepth Cfg.current .mark (chain .list 5) 100 5 = 1 := by decide
example : hashLim (chain .list 5) 6 5 = some () ∧ hashLim (chain .list 5) 5 5 = none := by decide
example : (dropRun (chain .pair 3) 100 3).map (·.1) = some [0, 1, 2, 3] := by decide
example : acyclicB (chain .pair 3) = true ∧ allHeldB (chain .pair 3) 3 = true := by decide
example : acyclicB (dag 3) = true ∧ allHeldB (dag 3) 3 = true := by decide
example : markRun Cfg.current (dag 3) 15 [3] = none ∧ (markRun Cfg.current (dag 3) 16 [3]).isSome = true := by decide

/-! ## Clauses of the property not carried by a theorem

For the code as it is (`Cfg.current`) several clauses of the property are FALSE in the model, and what is proved is
their negation: hashing (`recursive_depth_linear`, `hash_cycle_overflows`: K18a), printing of nested hash maps / sets
(`print_depth_linear_maps`: K18b), `equal?` on maps keyed by maps (`eq_key_depth_linear`: K18d), dropping chains of
closures / strong boxes (`drop_depth_linear`: K18f), marking a ring of strong boxes (`not_mark_terminates_cyclic`)
and the exponential marking of shared immutable structure (`mark_not_polynomial`).  Not carried by any theorem:

* "Creating": construction of values (reader, `list`/`vector` constructors, `cons` chains built by loops) is not
  modelled.
* "using native stack space independent of the value's depth" for `mark`, `collect`, `send`: true BY CONSTRUCTION of
  the model (`worklist_depth_by_construction`); the evidence about the code is the regenerated table
  (`worklists_do_not_recurse`) and the differential run.  HEAP space of the worklists (`visited` sets of size
  |g|², the exponential `mark` queue) is not bounded by any theorem.
* "sending to another thread": `send` is a move of one reference in the model; `serialize-value` (closures sent to
  `spawn-native-thread`) is natively recursive in the table (K18e) and not modelled as an operation.
* "collecting": only the MARK phase, and for `Cfg.current` only under the guard `untrackedDescB` (untracked nodes —
  immutable containers, strong boxes — have untracked children of smaller index); sweep, the reference-count
  based collection of unreachable cycles and the weak-reference upgrade are not modelled.
* "comparison … of cyclic structures terminate": `eq_terminates_cyclic_current` is one run of the worklist with
  `keyEq` an arbitrary total function; the nested `==` on container keys (`eqRun`: fresh queues per level) is not
  proved to terminate; `eqv?`/`eq?`, numeric towers, and custom `PartialEq` of opaque Rust values are outside.
* "printing of cyclic structures terminate": `print_terminates_cyclic(_partial)` is the FIRST phase (cycle
  collector), for `Cfg.current` only under the guard `ccDescB` (every cycle passes through a heap box, strong box
  or mutable vector).  The second phase (`format_with_cycles`) is modelled by its native depth only
  (`printDepth`, cut off by fuel): that it emits finitely many characters — that the cycle table stops it at
  every back edge, and how wide the output of shared structure is — is not a theorem.
* "discarding": `drop_terminates` holds for every graph, but only acyclic graphs are proved to be freed
  (`drop_frees_all_acyclic`); cycles are leaked by the worklist (and left to the collector).  The native depth of
  the drop GLUE is the negative result K18f.
* "(or returns an error value)": no operation of the model returns an error; `hashLim = none` stands for the
  process dying of stack exhaustion.
* "hash maps, structs, … closures capturing each other, streams": kinds are modelled by their child lists only;
  streams are never forced; struct fields of mutable structs are `box` nodes; hashing of closures / streams is by
  identity.  "depth up to 10^6": the theorems are for all depths; wall-clock time is not modelled (the bounds are
  numbers of loop rounds, exponential in the `_partial` statements).
Everything in §5 and the `example`s are TESTS on concrete graphs (by `decide`), not general claims. -/

end SteelVerif.C18
