import SteelVerif.C18.LemmasWl
/-
C18 — termination of the equality worklist (`eqStep`) on arbitrary pairs of (cyclic) graphs.
-/
namespace SteelVerif.C18

def allPairs (n : Nat) : List (Nat × Nat) := (List.range n).flatMap fun i => (List.range n).map fun j => (i, j)

theorem mem_allPairs {n i j : Nat} : (i, j) ∈ allPairs n ↔ i < n ∧ j < n := by
  simp [allPairs, List.mem_flatMap, List.mem_map, List.mem_range]

theorem sum_map_const {α : Type} (xs : List α) (c : Nat) : (xs.map fun _ => c).sum = xs.length * c := by
  induction xs with
  | nil => simp
  | cons x xs ih => simp [ih, Nat.succ_mul]; omega

theorem length_allPairs (n : Nat) : (allPairs n).length = n * n := by
  simp [allPairs, List.length_flatMap, sum_map_const]

theorem eqDescends_ne_leaf {k1 k2 : Kind} (h : eqDescends k1 k2 = true) : k1 ≠ .leaf ∧ k2 ≠ .leaf := by
  cases k1 <;> cases k2 <;> simp [eqDescends] at h ⊢

theorem matchEntries_spec (keyEq : Nat → Nat → Bool) (rk rv : List Nat) :
    ∀ (ks vs : List Nat) (ps : List (Nat × Nat)), matchEntries keyEq rk rv ks vs = some ps →
      ps.length ≤ vs.length ∧ ∀ p ∈ ps, p.1 ∈ vs ∧ p.2 ∈ rv := by
  intro ks
  induction ks with
  | nil => intro vs ps h; simp [matchEntries] at h; subst h; simp
  | cons k ks ih =>
    intro vs ps h
    cases vs with
    | nil => simp [matchEntries] at h; subst h; simp
    | cons v vs =>
      simp only [matchEntries] at h
      cases hf : (rk.zip rv).find? (fun e => keyEq k e.1) with
      | none => simp [hf] at h
      | some e =>
        simp only [hf] at h
        cases hm : matchEntries keyEq rk rv ks vs with
        | none => simp [hm] at h
        | some qs =>
          simp only [hm, Option.some.injEq] at h
          subst h
          obtain ⟨h1, h2⟩ := ih vs qs hm
          have he : e ∈ rk.zip rv := List.mem_of_find?_eq_some hf
          have he2 : e.2 ∈ rv := by
            obtain ⟨e1, e2⟩ := e
            exact (List.of_mem_zip he).2
          refine ⟨by simp; omega, ?_⟩
          intro p hp
          cases hp with
          | head => exact ⟨List.mem_cons_self .., he2⟩
          | tail _ hp' => exact ⟨List.mem_cons_of_mem _ (h2 p hp').1, (h2 p hp').2⟩

theorem sons_of_ne_leaf (g : Graph) (i : Nat) (h : g.kind i ≠ .leaf) : g.sons i = (g.node i).keys ++ (g.node i).kids := by
  unfold Graph.sons
  simp only [Graph.kind] at h
  simp [h]

theorem eqChildren_spec (g : Graph) (keyEq : Nat → Nat → Bool) (l r : Nat) (ps : List (Nat × Nat))
    (hd : eqDescends (g.kind l) (g.kind r) = true)
    (h : eqChildren g keyEq l r = some ps) :
    ps.length ≤ (g.sons l).length ∧ ∀ p ∈ ps, p.1 ∈ g.sons l ∧ p.2 ∈ g.sons r := by
  rw [sons_of_ne_leaf g l (eqDescends_ne_leaf hd).1, sons_of_ne_leaf g r (eqDescends_ne_leaf hd).2]
  unfold eqChildren at h
  simp only at h
  split at h
  · split at h
    · cases h
    · obtain ⟨h1, h2⟩ := matchEntries_spec keyEq _ _ _ _ ps h
      refine ⟨by simp; omega, ?_⟩
      intro p hp
      exact ⟨by simp [(h2 p hp).1], by simp [(h2 p hp).2]⟩
  · split at h
    · cases h
    · split at h
      · cases h; simp
      · cases h
  · split at h
    · cases h
    · cases h
      refine ⟨by simp [List.length_zip]; omega, ?_⟩
      intro p hp
      obtain ⟨p1, p2⟩ := p
      have := List.of_mem_zip hp
      exact ⟨by simp [this.1], by simp [this.2]⟩

/-- what an arm that continues does -/
theorem eqArm_cont (c : Cfg) (g : Graph) (keyEq : Nat → Nat → Bool) (l r : Nat) (vis vis' : List (Nat × Nat))
    (ps : List (Nat × Nat)) (h : eqArm c g keyEq l r vis = .cont ps vis') :
    (vis' = vis ∧ ps = []) ∨
    (vis' = vis ∧ eqUnchecked c g (l, r) = true ∧ eqChildren g keyEq l r = some ps) ∨
    (vis' = (l, r) :: vis ∧ (l, r) ∉ vis ∧ eqDescends (g.kind l) (g.kind r) = true ∧ eqChildren g keyEq l r = some ps) := by
  unfold eqArm at h
  by_cases hd : eqDescends (g.kind l) (g.kind r) = true
  · simp only [hd, Bool.not_true, Bool.false_eq_true, if_false] at h
    by_cases hlr : (l == r) = true
    · simp only [hlr, if_true] at h
      cases h
      exact Or.inl ⟨rfl, rfl⟩
    · simp only [hlr, Bool.false_eq_true, if_false] at h
      by_cases hc : eqChecked c (g.kind l) (g.kind r) = true
      · simp only [hc, if_true] at h
        by_cases hv : vis.contains (l, r) = true
        · simp only [hv, if_true] at h
          cases h
          exact Or.inl ⟨rfl, rfl⟩
        · simp only [hv, Bool.false_eq_true, if_false] at h
          cases hch : eqChildren g keyEq l r with
          | none => simp [hch] at h
          | some qs =>
            simp only [hch] at h
            cases h
            exact Or.inr (Or.inr ⟨rfl, by simpa using hv, hd, rfl⟩)
      · simp only [hc, Bool.false_eq_true, if_false] at h
        cases hch : eqChildren g keyEq l r with
        | none => simp [hch] at h
        | some qs =>
          simp only [hch] at h
          cases h
          refine Or.inr (Or.inl ⟨rfl, ?_, rfl⟩)
          simp [eqUnchecked, hd, hc]
  · simp only [hd, Bool.not_false, if_true] at h
    split at h
    · cases h; exact Or.inl ⟨rfl, rfl⟩
    · cases h

def eqMeasure (g : Graph) (wt : Nat × Nat → Nat) (B : Nat) (s : EqSt) : Nat :=
  unseen (allPairs g.size) s.vis * (B + 1) + sumW wt s.work

theorem eqStep_decreases (c : Cfg) (g : Graph) (keyEq : Nat → Nat → Bool) (wt : Nat × Nat → Nat) (B : Nat)
    (h1 : ∀ p, 1 ≤ wt p)
    (h2 : ∀ l r ps, eqUnchecked c g (l, r) = true → eqChildren g keyEq l r = some ps → sumW wt ps < wt (l, r))
    (h3 : ∀ l r ps, eqDescends (g.kind l) (g.kind r) = true → eqChildren g keyEq l r = some ps → sumW wt ps ≤ B)
    (s s' : EqSt) (hs : eqStep c g keyEq s = .next s') : eqMeasure g wt B s' < eqMeasure g wt B s := by
  unfold eqStep at hs
  cases hw : s.work with
  | nil => simp [hw] at hs
  | cons p rest =>
    obtain ⟨l, r⟩ := p
    simp only [hw] at hs
    cases ha : eqArm c g keyEq l r s.vis with
    | ret b => simp [ha] at hs
    | cont ps vis' =>
      simp only [ha] at hs
      cases hs
      unfold eqMeasure
      rw [hw]
      simp only [sumW_cons, sumW_append, sumW_reverse]
      have hp := h1 (l, r)
      rcases eqArm_cont c g keyEq l r s.vis vis' ps ha with ⟨hv, hps⟩ | ⟨hv, hu, hch⟩ | ⟨hv, hn, hd, hch⟩
      · subst hv; subst hps
        simp [sumW]
        omega
      · subst hv
        have := h2 l r ps hu hch
        omega
      · subst hv
        have hb := h3 l r ps hd hch
        obtain ⟨hl, hr⟩ := eqDescends_ne_leaf hd
        have hmem : (l, r) ∈ allPairs g.size :=
          mem_allPairs.mpr ⟨lt_size_of_kind_ne_leaf g hl, lt_size_of_kind_ne_leaf g hr⟩
        have hlt := unseen_cons_lt (allPairs g.size) s.vis (l, r) hmem hn
        have : (unseen (allPairs g.size) ((l, r) :: s.vis) + 1) * (B + 1) ≤ unseen (allPairs g.size) s.vis * (B + 1) :=
          Nat.mul_le_mul_right _ hlt
        rw [Nat.add_mul] at this
        omega

theorem eq_terminates_gen (c : Cfg) (g : Graph) (keyEq : Nat → Nat → Bool) (wt : Nat × Nat → Nat) (B : Nat)
    (h1 : ∀ p, 1 ≤ wt p)
    (h2 : ∀ l r ps, eqUnchecked c g (l, r) = true → eqChildren g keyEq l r = some ps → sumW wt ps < wt (l, r))
    (h3 : ∀ l r ps, eqDescends (g.kind l) (g.kind r) = true → eqChildren g keyEq l r = some ps → sumW wt ps ≤ B)
    (s : EqSt) : ∃ b, iter (eqStep c g keyEq) (eqMeasure g wt B s + 1) s = some b :=
  iter_of_measure (fun _ => True) (eqMeasure g wt B) (fun _ _ _ _ => trivial)
    (fun s s' _ h => eqStep_decreases c g keyEq wt B h1 h2 h3 s s' h) _ s trivial (Nat.le_refl _)

/-! ### all descending arms are checked: polynomial bound -/

def eqAllChecked (c : Cfg) : Bool := c.eqBoxVisited && c.eqMixVecVisited

theorem eqUnchecked_false_of_allChecked (c : Cfg) (h : eqAllChecked c = true) (g : Graph) (p : Nat × Nat) :
    eqUnchecked c g p = false := by
  simp only [eqAllChecked, Bool.and_eq_true] at h
  unfold eqUnchecked
  cases h1 : g.kind p.1 <;> cases h2 : g.kind p.2 <;> simp [eqDescends, eqChecked, h.1, h.2]

/-- rounds of the loop: one per pair of nodes, plus the pairs of children pushed -/
def eqBoundPoly (g : Graph) : Nat := g.size * g.size * (g.maxDeg + 1) + 2

theorem eq_terminates_poly (c : Cfg) (hc : eqAllChecked c = true) (g : Graph) (keyEq : Nat → Nat → Bool) (a b : Nat) :
    ∃ fuel, fuel ≤ eqBoundPoly g ∧ ∃ r, iter (eqStep c g keyEq) fuel { work := [(a, b)], vis := [] } = some r := by
  obtain ⟨r, hr⟩ := eq_terminates_gen c g keyEq (fun _ => 1) g.maxDeg (fun _ => Nat.le_refl _)
    (fun l r ps hu _ => by rw [eqUnchecked_false_of_allChecked c hc g (l, r)] at hu; cases hu)
    (fun l r ps hd hch => by
      have := sumW_le_of_forall (fun _ : Nat × Nat => 1) ps 1 (fun _ _ => Nat.le_refl _)
      have h1 := (eqChildren_spec g keyEq l r ps hd hch).1
      have h2 := sons_length_le g l
      omega)
    { work := [(a, b)], vis := [] }
  refine ⟨_, ?_, r, hr⟩
  unfold eqMeasure eqBoundPoly
  have h1 := unseen_le_length (allPairs g.size) ([] : List (Nat × Nat))
  rw [length_allPairs] at h1
  have := Nat.mul_le_mul_right (g.maxDeg + 1) h1
  simp [sumW]
  omega

/-! ### some arms are unchecked: exponential weights, under the guard -/

def pairWt (c : Cfg) (g : Graph) (p : Nat × Nat) : Nat :=
  if eqUnchecked c g p then (g.maxDeg + 1) ^ (p.1 + 1) else 1

theorem pairWt_pos (c : Cfg) (g : Graph) (p : Nat × Nat) : 1 ≤ pairWt c g p := by
  unfold pairWt
  split
  · have : 0 < (g.maxDeg + 1) ^ (p.1 + 1) := Nat.pow_pos (by omega)
    omega
  · exact Nat.le_refl _

theorem pairWt_le (c : Cfg) (g : Graph) (p : Nat × Nat) : pairWt c g p ≤ (g.maxDeg + 1) ^ g.size := by
  unfold pairWt
  split
  · rename_i h
    simp only [eqUnchecked, Bool.and_eq_true] at h
    have := lt_size_of_kind_ne_leaf g (eqDescends_ne_leaf h.1).1
    exact Nat.pow_le_pow_right (by omega) (by omega)
  · exact Nat.pow_pos (by omega)

def eqBoundExp (g : Graph) : Nat :=
  g.size * g.size * (g.maxDeg * (g.maxDeg + 1) ^ g.size + 1) + (g.maxDeg + 1) ^ g.size + 1

theorem eq_terminates_exp (c : Cfg) (g : Graph) (hg : eqUncheckedDescB c g = true) (keyEq : Nat → Nat → Bool) (a b : Nat) :
    ∃ fuel, fuel ≤ eqBoundExp g ∧ ∃ r, iter (eqStep c g keyEq) fuel { work := [(a, b)], vis := [] } = some r := by
  obtain ⟨r, hr⟩ := eq_terminates_gen c g keyEq (pairWt c g) (g.maxDeg * (g.maxDeg + 1) ^ g.size) (pairWt_pos c g)
    (fun l r ps hu hch => by
      have hu' := hu
      simp only [eqUnchecked, Bool.and_eq_true] at hu'
      obtain ⟨hlen, hmem⟩ := eqChildren_spec g keyEq l r ps hu'.1 hch
      have hl := lt_size_of_kind_ne_leaf g (eqDescends_ne_leaf hu'.1).1
      have hr' := lt_size_of_kind_ne_leaf g (eqDescends_ne_leaf hu'.1).2
      have hw : pairWt c g (l, r) = (g.maxDeg + 1) ^ (l + 1) := by simp [pairWt, hu]
      have hson : ∀ p ∈ ps, pairWt c g p ≤ (g.maxDeg + 1) ^ l := by
        intro p hp
        obtain ⟨hp1, hp2⟩ := hmem p hp
        unfold pairWt
        split
        · rename_i hup
          unfold eqUncheckedDescB at hg
          rw [List.all_eq_true] at hg
          have h1 := hg l (List.mem_range.mpr hl)
          rw [List.all_eq_true] at h1
          have h2 := h1 r (List.mem_range.mpr hr')
          simp only [hu, Bool.not_true, Bool.false_or, List.all_eq_true] at h2
          have h3 := h2 p.1 hp1 p.2 hp2
          have hup' : eqUnchecked c g (p.1, p.2) = true := by cases p; exact hup
          simp only [hup', Bool.not_true, Bool.false_or, decide_eq_true_eq] at h3
          exact Nat.pow_le_pow_right (by omega) (by omega)
        · exact Nat.pow_pos (by omega)
      have hsum := sumW_le_of_forall (pairWt c g) ps _ hson
      have hdeg := sons_length_le g l
      rw [hw, Nat.pow_succ]
      have : ps.length * (g.maxDeg + 1) ^ l ≤ g.maxDeg * (g.maxDeg + 1) ^ l := Nat.mul_le_mul_right _ (by omega)
      have hpos : 0 < (g.maxDeg + 1) ^ l := Nat.pow_pos (by omega)
      calc sumW (pairWt c g) ps ≤ g.maxDeg * (g.maxDeg + 1) ^ l := Nat.le_trans hsum this
        _ < (g.maxDeg + 1) ^ l * (g.maxDeg + 1) := by
          rw [Nat.mul_comm ((g.maxDeg + 1) ^ l), Nat.add_mul]
          omega)
    (fun l r ps hd hch => by
      have hsum := sumW_le_of_forall (pairWt c g) ps _ (fun p _ => pairWt_le c g p)
      have h1 := (eqChildren_spec g keyEq l r ps hd hch).1
      have h2 := sons_length_le g l
      exact Nat.le_trans hsum (Nat.mul_le_mul_right _ (by omega)))
    { work := [(a, b)], vis := [] }
  refine ⟨_, ?_, r, hr⟩
  unfold eqMeasure eqBoundExp
  have h1 := unseen_le_length (allPairs g.size) ([] : List (Nat × Nat))
  rw [length_allPairs] at h1
  have := Nat.mul_le_mul_right (g.maxDeg * (g.maxDeg + 1) ^ g.size + 1) h1
  have h2 := pairWt_le c g (a, b)
  simp [sumW]
  omega

end SteelVerif.C18
