import SteelVerif.C18.LemmasIter
/-
C18 — termination of the one-graph worklist (`wlStep`: marker) and of the cycle collector (`ccStep`) on
arbitrary graphs, from a weight function on nodes.
-/
namespace SteelVerif.C18

theorem node_of_ge (g : Graph) {i : Nat} (h : g.size ≤ i) : g.node i = { kind := .leaf } := by
  unfold Graph.node
  simp [Array.getD]
  intro h'; omega

theorem sons_of_ge (g : Graph) {i : Nat} (h : g.size ≤ i) : g.sons i = [] := by
  simp [Graph.sons, node_of_ge g h]

theorem kind_of_ge (g : Graph) {i : Nat} (h : g.size ≤ i) : g.kind i = .leaf := by
  simp [Graph.kind, node_of_ge g h]

theorem lt_size_of_kind_ne_leaf (g : Graph) {i : Nat} (h : g.kind i ≠ .leaf) : i < g.size := by
  apply Classical.byContradiction
  intro hn
  exact h (kind_of_ge g (by omega))

/-- `maxDeg` bounds the number of children of every node -/
theorem foldl_max_ge (f : Node → Nat) (xs : List Node) (m : Nat) :
    m ≤ xs.foldl (fun m n => max m (f n)) m ∧ ∀ n ∈ xs, f n ≤ xs.foldl (fun m n => max m (f n)) m := by
  induction xs generalizing m with
  | nil => simp
  | cons x xs ih =>
    simp only [List.foldl_cons]
    obtain ⟨h1, h2⟩ := ih (max m (f x))
    refine ⟨Nat.le_trans (Nat.le_max_left ..) h1, ?_⟩
    intro n hn
    cases hn with
    | head => exact Nat.le_trans (Nat.le_max_right ..) h1
    | tail _ h => exact h2 n h

theorem sons_length_le (g : Graph) (i : Nat) : (g.sons i).length ≤ g.maxDeg := by
  by_cases h : i < g.size
  · have hm : g.node i ∈ g.toList := by
      unfold Graph.node
      simp [Array.getD, h]
    have := (foldl_max_ge (fun n => n.keys.length + n.kids.length) g.toList 0).2 _ hm
    unfold Graph.maxDeg
    rw [← Array.foldl_toList]
    unfold Graph.sons
    split
    · simp
    · simpa using this
  · simp [sons_of_ge g (by omega : g.size ≤ i)]

/-! ## the generic worklist -/

def wlMeasure (g : Graph) (wt : Nat → Nat) (B : Nat) (s : WlSt) : Nat :=
  unseen (List.range g.size) s.vis * (B + 1) + sumW wt s.work

/-- If untracked nodes weigh more than their children together, and the children of a tracked node weigh at
    most `B`, every step of the worklist decreases `wlMeasure`. -/
theorem wlStep_decreases (g : Graph) (tracked : Nat → Bool) (wt : Nat → Nat) (B : Nat)
    (h1 : ∀ v, 1 ≤ wt v)
    (h2 : ∀ v, tracked v = false → sumW wt (g.sons v) < wt v)
    (h3 : ∀ v, tracked v = true → sumW wt (g.sons v) ≤ B)
    (h4 : ∀ v, tracked v = true → v < g.size)
    (s s' : WlSt) (hs : wlStep g tracked s = .next s') : wlMeasure g wt B s' < wlMeasure g wt B s := by
  unfold wlStep at hs
  cases hw : s.work with
  | nil => simp [hw] at hs
  | cons v rest =>
    simp only [hw] at hs
    unfold wlMeasure
    rw [hw, sumW_cons]
    have hv := h1 v
    cases ht : tracked v with
    | false =>
      simp only [ht, Bool.false_eq_true, if_false] at hs
      cases hs
      simp only [sumW_append]
      have := h2 v ht
      omega
    | true =>
      simp only [ht, if_true] at hs
      by_cases hc : s.vis.contains v = true
      · simp only [hc, if_true] at hs
        cases hs
        simp only
        omega
      · simp only [hc, Bool.false_eq_true, if_false] at hs
        cases hs
        simp only [sumW_append]
        have hb := h3 v ht
        have hmem : v ∈ List.range g.size := List.mem_range.mpr (h4 v ht)
        have hnot : v ∉ s.vis := by simpa using hc
        have hlt := unseen_cons_lt (List.range g.size) s.vis v hmem hnot
        have : (unseen (List.range g.size) (v :: s.vis) + 1) * (B + 1) ≤ unseen (List.range g.size) s.vis * (B + 1) :=
          Nat.mul_le_mul_right _ hlt
        rw [Nat.add_mul] at this
        omega

theorem wl_terminates (g : Graph) (tracked : Nat → Bool) (wt : Nat → Nat) (B : Nat)
    (h1 : ∀ v, 1 ≤ wt v)
    (h2 : ∀ v, tracked v = false → sumW wt (g.sons v) < wt v)
    (h3 : ∀ v, tracked v = true → sumW wt (g.sons v) ≤ B)
    (h4 : ∀ v, tracked v = true → v < g.size)
    (s : WlSt) : ∃ r, iter (wlStep g tracked) (wlMeasure g wt B s + 1) s = some r :=
  iter_of_measure (fun _ => True) (wlMeasure g wt B) (fun _ _ _ _ => trivial)
    (fun s s' _ h => wlStep_decreases g tracked wt B h1 h2 h3 h4 s s' h) _ s trivial (Nat.le_refl _)

/-! ### weights -/

/-- exponential weight of an untracked node; tracked and non-existent nodes weigh 1 -/
def expWt (g : Graph) (tracked : Nat → Bool) (v : Nat) : Nat :=
  if tracked v || decide (g.size ≤ v) then 1 else (g.maxDeg + 1) ^ (v + 1)

theorem expWt_pos (g : Graph) (tracked : Nat → Bool) (v : Nat) : 1 ≤ expWt g tracked v := by
  unfold expWt
  split
  · exact Nat.le_refl _
  · have : 0 < (g.maxDeg + 1) ^ (v + 1) := Nat.pow_pos (by omega)
    omega

theorem expWt_le (g : Graph) (tracked : Nat → Bool) (v : Nat) : expWt g tracked v ≤ (g.maxDeg + 1) ^ g.size := by
  unfold expWt
  split
  · exact Nat.pow_pos (by omega)
  · rename_i h
    simp only [Bool.or_eq_true, decide_eq_true_eq, not_or, Nat.not_le] at h
    exact Nat.pow_le_pow_right (by omega) (by omega)

theorem expWt_sons_lt (g : Graph) (tracked : Nat → Bool) (hd : untrackedDescB g tracked = true) (v : Nat)
    (ht : tracked v = false) : sumW (expWt g tracked) (g.sons v) < expWt g tracked v := by
  by_cases hv : g.size ≤ v
  · rw [sons_of_ge g hv]
    have := expWt_pos g tracked v
    simp [sumW]; omega
  · have hvlt : v < g.size := by omega
    have hw : expWt g tracked v = (g.maxDeg + 1) ^ (v + 1) := by
      unfold expWt
      simp [ht, hv]
    have hson : ∀ j ∈ g.sons v, expWt g tracked j ≤ (g.maxDeg + 1) ^ v := by
      intro j hj
      unfold untrackedDescB at hd
      rw [List.all_eq_true] at hd
      have := hd v (List.mem_range.mpr hvlt)
      simp only [ht, Bool.false_or, List.all_eq_true] at this
      have hj' := this j hj
      unfold expWt
      split
      · exact Nat.pow_pos (by omega)
      · rename_i hh
        simp only [Bool.or_eq_true, decide_eq_true_eq, not_or] at hh
        have : j < v := by
          simp only [Bool.or_eq_true, decide_eq_true_eq] at hj'
          rcases hj' with h | h
          · exact absurd h hh.1
          · exact h
        exact Nat.pow_le_pow_right (by omega) (by omega)
    have hsum := sumW_le_of_forall (expWt g tracked) (g.sons v) _ hson
    have hlen := sons_length_le g v
    rw [hw, Nat.pow_succ]
    have : (g.sons v).length * (g.maxDeg + 1) ^ v ≤ g.maxDeg * (g.maxDeg + 1) ^ v := Nat.mul_le_mul_right _ hlen
    have hpos : 0 < (g.maxDeg + 1) ^ v := Nat.pow_pos (by omega)
    calc sumW (expWt g tracked) (g.sons v) ≤ g.maxDeg * (g.maxDeg + 1) ^ v := Nat.le_trans hsum this
      _ < (g.maxDeg + 1) ^ v * (g.maxDeg + 1) := by
        rw [Nat.mul_comm ((g.maxDeg + 1) ^ v), Nat.add_mul]
        omega

theorem expWt_sons_le (g : Graph) (tracked : Nat → Bool) (v : Nat) :
    sumW (expWt g tracked) (g.sons v) ≤ g.maxDeg * (g.maxDeg + 1) ^ g.size := by
  have hsum := sumW_le_of_forall (expWt g tracked) (g.sons v) _ (fun j _ => expWt_le g tracked j)
  exact Nat.le_trans hsum (Nat.mul_le_mul_right _ (sons_length_le g v))

/-- exponential bound (number of rounds) for partially tracked worklists -/
def wlBoundExp (g : Graph) (work : List Nat) : Nat :=
  g.size * (g.maxDeg * (g.maxDeg + 1) ^ g.size + 1) + work.length * (g.maxDeg + 1) ^ g.size + 1

/-- polynomial bound when every node with children is tracked -/
def wlBoundPoly (g : Graph) (work : List Nat) : Nat := g.size * (g.maxDeg + 1) + work.length + 1

theorem wl_terminates_exp (g : Graph) (tracked : Nat → Bool) (hd : untrackedDescB g tracked = true)
    (h4 : ∀ v, tracked v = true → v < g.size) (work : List Nat) :
    ∃ fuel, fuel ≤ wlBoundExp g work ∧ ∃ r, iter (wlStep g tracked) fuel { work := work, vis := [] } = some r := by
  obtain ⟨r, hr⟩ := wl_terminates g tracked (expWt g tracked) (g.maxDeg * (g.maxDeg + 1) ^ g.size)
    (expWt_pos g tracked) (expWt_sons_lt g tracked hd) (fun v _ => expWt_sons_le g tracked v) h4
    { work := work, vis := [] }
  refine ⟨_, ?_, r, hr⟩
  unfold wlMeasure wlBoundExp
  have h1 := unseen_le_length (List.range g.size) ([] : List Nat)
  simp only [List.length_range] at h1
  have h2 := sumW_le_of_forall (expWt g tracked) work _ (fun j _ => expWt_le g tracked j)
  have := Nat.mul_le_mul_right (g.maxDeg * (g.maxDeg + 1) ^ g.size + 1) h1
  simp only
  omega

theorem wl_terminates_poly (g : Graph) (tracked : Nat → Bool)
    (hall : ∀ v, tracked v = false → g.sons v = [])
    (h4 : ∀ v, tracked v = true → v < g.size) (work : List Nat) :
    ∃ fuel, fuel ≤ wlBoundPoly g work ∧ ∃ r, iter (wlStep g tracked) fuel { work := work, vis := [] } = some r := by
  obtain ⟨r, hr⟩ := wl_terminates g tracked (fun _ => 1) g.maxDeg
    (fun _ => Nat.le_refl _)
    (fun v hv => by rw [hall v hv]; simp [sumW])
    (fun v _ => by
      have := sumW_le_of_forall (fun _ => 1) (g.sons v) 1 (fun _ _ => Nat.le_refl _)
      have h := sons_length_le g v
      omega)
    h4 { work := work, vis := [] }
  refine ⟨_, ?_, r, hr⟩
  unfold wlMeasure wlBoundPoly
  have h1 := unseen_le_length (List.range g.size) ([] : List Nat)
  simp only [List.length_range] at h1
  have h2 := sumW_le_of_forall (fun _ : Nat => 1) work 1 (fun _ _ => Nat.le_refl _)
  have := Nat.mul_le_mul_right (g.maxDeg + 1) h1
  simp only
  omega

end SteelVerif.C18
