import SteelVerif.C18.LemmasDrop
/-
C18 — on an acyclic graph the drop worklist frees every node (strong counts = in-degree, plus the one
outside reference to the root; every node has a holder).
-/
namespace SteelVerif.C18

/-- references to `v` held by nodes that have not been freed -/
def liveRefs (g : Graph) (freed : List Nat) (v : Nat) : Nat :=
  ((List.range g.size).map fun u => if u ∈ freed then 0 else (g.sons u).count v).sum

theorem getD_set (xs : List Nat) (i j x : Nat) :
    (xs.set i x).getD j 0 = if j = i ∧ i < xs.length then x else xs.getD j 0 := by
  simp only [List.getD_eq_getElem?_getD, List.getElem?_set]
  by_cases h : i = j
  · subst h
    by_cases hl : i < xs.length
    · simp [hl]
    · simp [hl]
  · have : ¬ (j = i) := fun e => h e.symm
    simp [h, this]

/-- zeroing the term of one element that occurs once -/
theorem sum_map_zero_one (xs : List Nat) (hnd : xs.Nodup) (f f' : Nat → Nat) (v : Nat) (hv : v ∈ xs)
    (h0 : f' v = 0) (hne : ∀ u, u ≠ v → f' u = f u) : (xs.map f).sum = (xs.map f').sum + f v := by
  induction xs with
  | nil => cases hv
  | cons x xs ih =>
    rw [List.nodup_cons] at hnd
    simp only [List.map_cons, List.sum_cons]
    by_cases hx : x = v
    · subst hx
      have hrest : (xs.map f).sum = (xs.map f').sum := by
        congr 1
        apply List.map_congr_left
        intro u hu
        exact (hne u (fun e => hnd.1 (e ▸ hu))).symm
      rw [h0, hrest]
      omega
    · have hv' : v ∈ xs := by
        cases hv with
        | head => exact absurd rfl hx
        | tail _ h => exact h
      rw [ih hnd.2 hv', hne x hx]
      omega

theorem liveRefs_cons (g : Graph) (freed : List Nat) (v w : Nat) (hv : v < g.size) (hn : v ∉ freed) :
    liveRefs g freed w = liveRefs g (v :: freed) w + (g.sons v).count w := by
  unfold liveRefs
  have := sum_map_zero_one (List.range g.size) List.nodup_range
    (fun u => if u ∈ freed then 0 else (g.sons u).count w)
    (fun u => if u ∈ v :: freed then 0 else (g.sons u).count w) v (List.mem_range.mpr hv)
    (by simp)
    (by
      intro u hu
      by_cases h : u ∈ freed
      · simp [h]
      · simp [h, hu])
  simp only [hn, if_false] at this
  exact this

structure DropInv (g : Graph) (s : DropSt) : Prop where
  len : s.rc.length = g.size
  inRange : ∀ w ∈ s.work, w < g.size
  live : ∀ v, v < g.size → v ∉ s.freed → s.rc.getD v 0 = liveRefs g s.freed v + s.work.count v ∧ 1 ≤ s.rc.getD v 0
  dead : ∀ v, v ∈ s.freed → v < g.size ∧ s.work.count v = 0 ∧ ∀ u, u < g.size → u ∉ s.freed → (g.sons u).count v = 0

theorem sons_lt_of_closed (g : Graph) (hc : closedB g = true) {u j : Nat} (hu : u < g.size) (hj : j ∈ g.sons u) : j < g.size := by
  unfold closedB at hc
  rw [List.all_eq_true] at hc
  have := hc u (List.mem_range.mpr hu)
  rw [List.all_eq_true] at this
  simpa using this j hj

theorem sum_eq_zero_of (xs : List Nat) (h : ∀ x ∈ xs, x = 0) : xs.sum = 0 := by
  induction xs with
  | nil => rfl
  | cons y ys ih =>
    simp only [List.sum_cons]
    rw [h y (List.mem_cons_self ..), ih (fun x hx => h x (List.mem_cons_of_mem _ hx))]

theorem le_sum_of_mem (xs : List Nat) (x : Nat) (h : x ∈ xs) : x ≤ xs.sum := by
  induction xs with
  | nil => cases h
  | cons y ys ih =>
    simp only [List.sum_cons]
    cases h with
    | head => omega
    | tail _ h' => have := ih h'; omega

theorem count_pos_of_liveRefs_pos (g : Graph) (freed : List Nat) (v : Nat) (h : 0 < liveRefs g freed v) :
    ∃ u, u < g.size ∧ u ∉ freed ∧ 0 < (g.sons u).count v := by
  unfold liveRefs at h
  apply Classical.byContradiction
  intro hno
  have hz : ((List.range g.size).map fun u => if u ∈ freed then 0 else (g.sons u).count v).sum = 0 := by
    apply sum_eq_zero_of
    intro x hx
    obtain ⟨u, hu, rfl⟩ := List.mem_map.mp hx
    by_cases hf : u ∈ freed
    · simp [hf]
    · simp only [hf, if_false]
      apply Classical.byContradiction
      intro hne
      exact hno ⟨u, List.mem_range.mp hu, hf, by omega⟩
  omega

theorem dropStep_inv (g : Graph) (hc : closedB g = true) (s s' : DropSt) (hI : DropInv g s)
    (hs : dropStep g s = .next s') : DropInv g s' := by
  unfold dropStep at hs
  cases hw : s.work with
  | nil => simp [hw] at hs
  | cons v rest =>
    simp only [hw] at hs
    have hvN : v < g.size := hI.inRange v (by simp [hw])
    have hvl : v < s.rc.length := by rw [hI.len]; exact hvN
    -- a popped node is not freed, so its count is at least 1
    have hvf : v ∉ s.freed := by
      intro hf
      have := (hI.dead v hf).2.1
      simp [hw] at this
    obtain ⟨hrc, hpos⟩ := hI.live v hvN hvf
    have h0 : ¬ s.rc.getD v 0 = 0 := by omega
    simp only [h0, if_false] at hs
    by_cases h1 : s.rc.getD v 0 = 1
    · -- the last reference: free v
      simp only [h1, if_true] at hs
      cases hs
      rw [hw] at hrc
      simp only [List.count_cons_self] at hrc
      have hlr : liveRefs g s.freed v = 0 := by omega
      have hcr : rest.count v = 0 := by omega
      refine ⟨by simp [hI.len], ?_, ?_, ?_⟩
      · intro w hwm
        rcases List.mem_append.mp hwm with h | h
        · exact sons_lt_of_closed g hc hvN h
        · exact hI.inRange w (by simp [hw, h])
      · intro w hwN hwf
        have hwv : w ≠ v := fun e => hwf (by simp [e])
        have hwf' : w ∉ s.freed := fun h => hwf (List.mem_cons_of_mem _ h)
        obtain ⟨h2, h3⟩ := hI.live w hwN hwf'
        have hset : (s.rc.set v 0).getD w 0 = s.rc.getD w 0 := by
          rw [getD_set]; simp [hwv]
        rw [hset]
        refine ⟨?_, h3⟩
        rw [h2, hw, liveRefs_cons g s.freed v w hvN hvf]
        simp only [List.count_append, List.count_cons]
        have : (v == w) = false := by simpa using fun e => hwv e.symm
        simp [this]
        omega
      · intro w hwm
        rcases List.mem_cons.mp hwm with rfl | hold
        · refine ⟨hvN, ?_, ?_⟩
          · simp only [List.count_append]
            have hself : (g.sons w).count w = 0 := by
              apply Classical.byContradiction
              intro hne
              have hpos' : 0 < liveRefs g s.freed w := by
                rw [liveRefs_cons g s.freed w w hvN hvf]; omega
              omega
            omega
          · intro u hu huf
            have huf' : u ∉ s.freed := fun h => huf (List.mem_cons_of_mem _ h)
            apply Classical.byContradiction
            intro hne
            have huw : u ≠ w := fun e => huf (by simp [e])
            -- u is live and refers to w: liveRefs would be positive
            have : 0 < liveRefs g s.freed w := by
              unfold liveRefs
              have hmem : (if u ∈ s.freed then 0 else (g.sons u).count w) ∈
                  (List.range g.size).map fun u => if u ∈ s.freed then 0 else (g.sons u).count w :=
                List.mem_map.mpr ⟨u, List.mem_range.mpr hu, rfl⟩
              have hle := le_sum_of_mem _ _ hmem
              simp only [huf', if_false] at hle
              omega
            omega
        · obtain ⟨h1', h2', h3'⟩ := hI.dead w hold
          refine ⟨h1', ?_, ?_⟩
          · simp only [List.count_append]
            have : (g.sons v).count w = 0 := h3' v hvN hvf
            rw [hw] at h2'
            have hwv : w ≠ v := fun e => hvf (e ▸ hold)
            have hc' : (v :: rest).count w = rest.count w := by
              simp [hwv.symm]
            omega
          · intro u hu huf
            exact h3' u hu (fun h => huf (List.mem_cons_of_mem _ h))
    · -- other holders remain
      simp only [h1, if_false] at hs
      cases hs
      refine ⟨by simp [hI.len], ?_, ?_, ?_⟩
      · intro w hwm
        exact hI.inRange w (by simp [hw, hwm])
      · intro w hwN hwf
        obtain ⟨h2, h3⟩ := hI.live w hwN hwf
        rw [getD_set]
        by_cases hwv : w = v
        · subst hwv
          simp only [hvl, and_self, if_true]
          rw [hw] at h2
          simp only [List.count_cons_self] at h2
          omega
        · simp only [hwv, false_and, if_false]
          refine ⟨?_, h3⟩
          rw [h2, hw]
          have : (v == w) = false := by simpa using fun e => hwv e.symm
          simp [List.count_cons, this]
      · intro w hwm
        obtain ⟨h1', h2', h3'⟩ := hI.dead w hwm
        refine ⟨h1', ?_, h3'⟩
        rw [hw] at h2'
        have hwv : w ≠ v := fun e => hvf (e ▸ hwm)
        have : (v == w) = false := by simpa using fun e => hwv e.symm
        simpa [List.count_cons, this] using h2'

/-- a property of the final state follows from an invariant -/
theorem iter_inv {σ ρ : Type} {step : σ → Step σ ρ} (I : σ → Prop) (Q : ρ → Prop)
    (hI : ∀ s s', I s → step s = .next s' → I s') (hQ : ∀ s r, I s → step s = .done r → Q r) :
    ∀ (fuel : Nat) (s : σ) (r : ρ), I s → iter step fuel s = some r → Q r := by
  intro fuel
  induction fuel with
  | zero => intro s r _ h; simp [iter] at h
  | succ n ih =>
    intro s r hs h
    simp only [iter] at h
    cases hst : step s with
    | done r' =>
      rw [hst] at h
      simp only [Option.some.injEq] at h
      subst h
      exact hQ s _ hs hst
    | next s' =>
      rw [hst] at h
      exact ih s' r (hI s s' hs hst) h

theorem initRc_getD (g : Graph) (root v : Nat) (hv : v < g.size) :
    (initRc g root).getD v 0 = inDeg g v + (if v = root then 1 else 0) := by
  unfold initRc
  simp [List.getD_eq_getElem?_getD, hv]

theorem liveRefs_nil (g : Graph) (v : Nat) : liveRefs g [] v = inDeg g v := by
  simp [liveRefs, inDeg]

/-- every node other than the root is held by some node -/
def allHeldB (g : Graph) (root : Nat) : Bool := (List.range g.size).all fun v => v == root || decide (1 ≤ inDeg g v)

theorem drop_init_inv (g : Graph) (root : Nat) (hr : root < g.size) (hh : allHeldB g root = true) :
    DropInv g { work := [root], rc := initRc g root, freed := [] } := by
  refine ⟨by simp [initRc], ?_, ?_, ?_⟩
  · intro w hw; simp at hw; subst hw; exact hr
  · intro v hv _
    rw [initRc_getD g root v hv, liveRefs_nil]
    unfold allHeldB at hh
    rw [List.all_eq_true] at hh
    have := hh v (List.mem_range.mpr hv)
    by_cases hvr : v = root
    · subst hvr; simp
    · have hne : (root == v) = false := by simpa using fun e => hvr e.symm
      simp only [hvr, if_false, List.count_cons, List.count_nil, hne]
      simp [hvr] at this
      simp
      omega
  · intro v hv; cases hv

/-- at the end nothing is left unfreed: the unfreed node of largest index would have no holder left -/
theorem drop_final_all (g : Graph) (ha : acyclicB g = true) (s : DropSt) (hI : DropInv g s) (hw : s.work = []) :
    ∀ v, v < g.size → v ∈ s.freed := by
  -- strong induction downwards: all nodes of index > v are freed
  have key : ∀ k v, g.size - v ≤ k → v < g.size → v ∈ s.freed := by
    intro k
    induction k with
    | zero => intro v h hv; omega
    | succ k ih =>
      intro v hk hv
      apply Classical.byContradiction
      intro hnf
      obtain ⟨h1, h2⟩ := hI.live v hv hnf
      rw [hw] at h1
      simp only [List.count_nil, Nat.add_zero] at h1
      have hpos : 0 < liveRefs g s.freed v := by omega
      obtain ⟨u, hu, huf, hc⟩ := count_pos_of_liveRefs_pos g s.freed v hpos
      have hmem : v ∈ g.sons u := List.count_pos_iff.mp hc
      unfold acyclicB at ha
      rw [List.all_eq_true] at ha
      have := ha u (List.mem_range.mpr hu)
      rw [List.all_eq_true] at this
      have hlt : v < u := by simpa using this v hmem
      exact huf (ih u (by omega) hu)
  intro v hv
  exact key (g.size - v) v (Nat.le_refl _) hv

end SteelVerif.C18
