import SteelVerif.C18.Model
/-
C18 — lemmas about `iter` (termination from a measure), `unseen`, sums of weights.
-/
namespace SteelVerif.C18

variable {σ ρ : Type}

theorem iter_mono {step : σ → Step σ ρ} {r : ρ} :
    ∀ {f f' : Nat} {s : σ}, iter step f s = some r → f ≤ f' → iter step f' s = some r := by
  intro f
  induction f with
  | zero => intro f' s h; simp [iter] at h
  | succ n ih =>
    intro f' s h hle
    cases f' with
    | zero => omega
    | succ m =>
      simp only [iter] at h ⊢
      cases hs : step s with
      | done r' => simpa [hs] using h
      | next s' =>
        rw [hs] at h
        simp only at h ⊢
        exact ih h (by omega)

/-- A loop whose body decreases a measure (as long as an invariant holds) terminates within `μ s + 1` rounds. -/
theorem iter_of_measure {step : σ → Step σ ρ} (I : σ → Prop) (μ : σ → Nat)
    (hI : ∀ s s', I s → step s = .next s' → I s')
    (hμ : ∀ s s', I s → step s = .next s' → μ s' < μ s) :
    ∀ (n : Nat) (s : σ), I s → μ s ≤ n → ∃ r, iter step (n + 1) s = some r := by
  intro n
  induction n with
  | zero =>
    intro s hs hle
    cases h : step s with
    | done r => exact ⟨r, by simp [iter, h]⟩
    | next s' => have := hμ s s' hs h; omega
  | succ n ih =>
    intro s hs hle
    cases h : step s with
    | done r => exact ⟨r, by simp [iter, h]⟩
    | next s' =>
      have hlt := hμ s s' hs h
      obtain ⟨r, hr⟩ := ih s' (hI s s' hs h) (by omega)
      exact ⟨r, by simp only [iter, h]; exact hr⟩

/-- A loop whose body returns to the same state never finishes. -/
theorem iter_fixpoint_none {step : σ → Step σ ρ} {s : σ} (h : step s = .next s) : ∀ f, iter step f s = none := by
  intro f
  induction f with
  | zero => rfl
  | succ n ih => simp only [iter, h]; exact ih

/-- A loop that cycles through finitely many states never finishes: `P` is closed under the body and
    no state of `P` is final. -/
theorem iter_closed_none {step : σ → Step σ ρ} (P : σ → Prop)
    (h : ∀ s, P s → ∃ s', step s = .next s' ∧ P s') : ∀ f s, P s → iter step f s = none := by
  intro f
  induction f with
  | zero => intro s _; rfl
  | succ n ih =>
    intro s hs
    obtain ⟨s', h1, h2⟩ := h s hs
    simp only [iter, h1]
    exact ih s' h2

/-! ## `unseen` -/

section
variable {α : Type} [DecidableEq α]

theorem unseen_le_length (xs vis : List α) : unseen xs vis ≤ xs.length := by
  unfold unseen
  exact List.length_filter_le _ _

theorem unseen_cons (x : α) (xs vis : List α) :
    unseen (x :: xs) vis = (if x ∈ vis then 0 else 1) + unseen xs vis := by
  unfold unseen
  simp only [List.filter_cons]
  by_cases h : x ∈ vis <;> simp [h] <;> omega

theorem unseen_cons_le (xs vis : List α) (p : α) : unseen xs (p :: vis) ≤ unseen xs vis := by
  induction xs with
  | nil => simp [unseen]
  | cons x xs ih =>
    rw [unseen_cons, unseen_cons]
    by_cases h1 : x ∈ vis <;> by_cases h2 : x = p <;> simp [h1, h2, List.mem_cons] <;> omega

theorem unseen_cons_lt (xs vis : List α) (p : α) (hp : p ∈ xs) (hn : p ∉ vis) :
    unseen xs (p :: vis) < unseen xs vis := by
  induction xs with
  | nil => cases hp
  | cons x xs ih =>
    have hle := unseen_cons_le xs vis p
    rw [unseen_cons, unseen_cons]
    by_cases hx : x = p
    · subst hx
      simp [hn]
      omega
    · have hp' : p ∈ xs := by
        cases hp with
        | head => exact absurd rfl hx
        | tail _ h => exact h
      have ih' := ih hp'
      by_cases h1 : x ∈ vis <;> simp [h1, hx, List.mem_cons] <;> omega
end

/-! ## sums -/

def sumW {α : Type} (wt : α → Nat) (xs : List α) : Nat := (xs.map wt).sum

theorem sumW_nil {α : Type} (wt : α → Nat) : sumW wt [] = 0 := rfl
theorem sumW_cons {α : Type} (wt : α → Nat) (x : α) (xs : List α) : sumW wt (x :: xs) = wt x + sumW wt xs := by
  simp [sumW]
theorem sumW_append {α : Type} (wt : α → Nat) (xs ys : List α) : sumW wt (xs ++ ys) = sumW wt xs + sumW wt ys := by
  simp [sumW]
theorem sumW_reverse {α : Type} (wt : α → Nat) (xs : List α) : sumW wt xs.reverse = sumW wt xs := by
  induction xs with
  | nil => rfl
  | cons x xs ih => simp [List.reverse_cons, sumW_append, sumW_cons, ih, sumW_nil]; omega

theorem sumW_le_of_forall {α : Type} (wt : α → Nat) (xs : List α) (b : Nat) (h : ∀ x ∈ xs, wt x ≤ b) :
    sumW wt xs ≤ xs.length * b := by
  induction xs with
  | nil => simp [sumW]
  | cons x xs ih =>
    have h1 := h x (List.mem_cons_self ..)
    have h2 := ih (fun y hy => h y (List.mem_cons_of_mem _ hy))
    simp only [sumW_cons, List.length_cons, Nat.succ_mul]
    omega

theorem length_le_sumW {α : Type} (wt : α → Nat) (xs : List α) (h : ∀ x, 1 ≤ wt x) : xs.length ≤ sumW wt xs := by
  induction xs with
  | nil => simp
  | cons x xs ih => simp only [sumW_cons, List.length_cons]; have := h x; omega

theorem le_maxL {x : Nat} {xs : List Nat} (h : x ∈ xs) : x ≤ maxL xs := by
  induction xs with
  | nil => cases h
  | cons y ys ih =>
    simp only [maxL]
    cases h with
    | head => exact Nat.le_max_left ..
    | tail _ h => exact Nat.le_trans (ih h) (Nat.le_max_right ..)

theorem maxL_le {xs : List Nat} {b : Nat} (h : ∀ x ∈ xs, x ≤ b) : maxL xs ≤ b := by
  induction xs with
  | nil => simp [maxL]
  | cons y ys ih =>
    simp only [maxL]
    exact Nat.max_le.mpr ⟨h y (List.mem_cons_self ..), ih (fun x hx => h x (List.mem_cons_of_mem _ hx))⟩

end SteelVerif.C18
