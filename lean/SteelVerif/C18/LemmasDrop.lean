import SteelVerif.C18.LemmasWl
/-
C18 — the drop worklist (`dropStep`) terminates on every graph (cyclic or not): every round consumes one
reference.
-/
namespace SteelVerif.C18

theorem sum_set (xs : List Nat) (i x : Nat) (h : i < xs.length) : (xs.set i x).sum + xs.getD i 0 = xs.sum + x := by
  induction xs generalizing i with
  | nil => simp at h
  | cons y ys ih =>
    cases i with
    | zero => simp; omega
    | succ j =>
      have := ih j (by simpa using h)
      simp only [List.set_cons_succ, List.sum_cons, List.getD_cons_succ] at this ⊢
      omega

theorem lt_length_of_getD_ne_zero (xs : List Nat) (i : Nat) (h : xs.getD i 0 ≠ 0) : i < xs.length := by
  apply Classical.byContradiction
  intro hn
  apply h
  simp [List.getD, List.getElem?_eq_none (by omega : xs.length ≤ i)]

def dropMeasure (g : Graph) (s : DropSt) : Nat := s.rc.sum * (g.maxDeg + 1) + s.work.length

theorem dropStep_decreases (g : Graph) (s s' : DropSt) (hs : dropStep g s = .next s') :
    dropMeasure g s' < dropMeasure g s := by
  unfold dropStep at hs
  cases hw : s.work with
  | nil => simp [hw] at hs
  | cons v rest =>
    simp only [hw] at hs
    unfold dropMeasure
    rw [hw]
    by_cases h0 : s.rc.getD v 0 = 0
    · simp only [h0, if_true] at hs
      cases hs
      simp
    · have hlt := lt_length_of_getD_ne_zero s.rc v h0
      simp only [h0, if_false] at hs
      by_cases h1 : s.rc.getD v 0 = 1
      · simp only [h1, if_true] at hs
        cases hs
        have hsum := sum_set s.rc v 0 hlt
        have hdeg := sons_length_le g v
        simp only [List.length_append, List.length_cons]
        have : (s.rc.set v 0).sum + 1 = s.rc.sum := by omega
        rw [← this, Nat.add_mul]
        omega
      · simp only [h1, if_false] at hs
        cases hs
        have hsum := sum_set s.rc v (s.rc.getD v 0 - 1) hlt
        have : (s.rc.set v (s.rc.getD v 0 - 1)).sum + 1 = s.rc.sum := by omega
        simp only [List.length_cons]
        rw [← this, Nat.add_mul]
        omega

def dropBound (g : Graph) (rc : List Nat) : Nat := rc.sum * (g.maxDeg + 1) + 2

theorem drop_terminates_gen (g : Graph) (rc : List Nat) (root : Nat) :
    ∃ fuel, fuel ≤ dropBound g rc ∧ ∃ r, iter (dropStep g) fuel { work := [root], rc := rc, freed := [] } = some r := by
  obtain ⟨r, hr⟩ := iter_of_measure (fun _ => True) (dropMeasure g) (fun _ _ _ _ => trivial)
    (fun s s' _ h => dropStep_decreases g s s' h) _ { work := [root], rc := rc, freed := [] } trivial (Nat.le_refl _)
  exact ⟨_, by simp [dropMeasure, dropBound], r, hr⟩

end SteelVerif.C18
