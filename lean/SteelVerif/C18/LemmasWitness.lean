import SteelVerif.C18.LemmasDepth
import SteelVerif.C18.LemmasEq
/-
C18 — the negative results: runs of the model that never finish or take exponentially many rounds — for
`Cfg.current` (the code as it is) where the defect is open, for `Cfg.legacy` where it has been repaired.
-/
namespace SteelVerif.C18

theorem twoRings_node_left (k : Kind) (n i : Nat) (h : i < n) :
    (twoRings k n).node i = { kind := k, kids := [(i + 1) % n] } := by
  unfold Graph.node twoRings
  have : i < 2 * n := by omega
  simp [Array.getD, this, h]

theorem twoRings_node_right (k : Kind) (n i : Nat) (h : i < n) :
    (twoRings k n).node (n + i) = { kind := k, kids := [n + (i + 1) % n] } := by
  unfold Graph.node twoRings
  have h1 : n + i < 2 * n := by omega
  have h2 : ¬ (n + i < n) := by omega
  simp [Array.getD, h1, h2]

/-- `equal?` of two distinct rings of boxes of any length: the loop returns to where it was. -/
theorem eq_box_rings_closed (k : Kind) (hk : k = .box ∨ k = .sbox) (n : Nat) (keyEq : Nat → Nat → Bool) (i : Nat) (hi : i < n) :
    eqStep Cfg.legacy (twoRings k n) keyEq { work := [(i, n + i)], vis := [] } =
      .next { work := [((i + 1) % n, n + (i + 1) % n)], vis := [] } := by
  have hl := twoRings_node_left k n i hi
  have hr := twoRings_node_right k n i hi
  have hne : (i == n + i) = false := by simp; omega
  rcases hk with rfl | rfl
  · simp [eqStep, eqArm, eqChildren, Graph.kind, hl, hr, eqDescends, eqChecked, Cfg.legacy, hne]
  · simp [eqStep, eqArm, eqChildren, Graph.kind, hl, hr, eqDescends, eqChecked, Cfg.legacy, hne]

theorem eq_box_rings_diverge (k : Kind) (hk : k = .box ∨ k = .sbox) (n : Nat) (hn : 0 < n) (keyEq : Nat → Nat → Bool) (fuel : Nat) :
    iter (eqStep Cfg.legacy (twoRings k n) keyEq) fuel { work := [(0, n)], vis := [] } = none := by
  apply iter_closed_none (fun s => ∃ i, i < n ∧ s = { work := [(i, n + i)], vis := [] })
  · intro s ⟨i, hi, hs⟩
    subst hs
    exact ⟨_, eq_box_rings_closed k hk n keyEq i hi, (i + 1) % n, Nat.mod_lt _ hn, rfl⟩
  · exact ⟨0, hn, by simp⟩

/-- the marker on a ring of strong boxes -/
theorem mark_sbox_ring_diverges (n : Nat) (hn : 0 < n) (fuel : Nat) :
    markRun Cfg.current (ring .sbox n) fuel [0] = none := by
  unfold markRun
  apply iter_closed_none (fun s => ∃ i, i < n ∧ s = { work := [i], vis := [] })
  · intro s ⟨i, hi, hs⟩
    subst hs
    refine ⟨{ work := [(i + 1) % n], vis := [] }, ?_, (i + 1) % n, Nat.mod_lt _ hn, rfl⟩
    simp [wlStep, markTracked, ring_kind .sbox n i hi, ring_sons .sbox (by decide) n i hi, Cfg.current, Cfg.legacy]
  · exact ⟨0, hn, rfl⟩

/-- the cycle collector (display) on a ring of strong boxes -/
theorem cc_sbox_ring_diverges (n : Nat) (hn : 0 < n) (fuel : Nat) :
    ccRun Cfg.legacy (ring .sbox n) fuel 0 = none := by
  unfold ccRun
  apply iter_closed_none (fun s => ∃ i, i < n ∧ s = { work := [i], vis := [], found := false })
  · intro s ⟨i, hi, hs⟩
    subst hs
    refine ⟨{ work := [(i + 1) % n], vis := [], found := false }, ?_, (i + 1) % n, Nat.mod_lt _ hn, rfl⟩
    simp [ccStep, ccExpands, ccSetsFound, ring_kind .sbox n i hi, ring_sons .sbox (by decide) n i hi, Cfg.legacy]
  · exact ⟨0, hn, rfl⟩

/-- Display of a ring of boxes re-enters itself for ever: every level of fuel is used -/
theorem printDepth_box_ring (n : Nat) : ∀ (fuel i : Nat), i < n → printDepth Cfg.legacy (ring .box n) fuel 0 i = fuel := by
  intro fuel
  induction fuel with
  | zero => intro i _; rfl
  | succ f ih =>
    intro i hi
    have hn : 0 < n := by omega
    have hre : printReenters Cfg.legacy .box = true := by decide
    simp only [printDepth, printLimit, ring_kind .box n i hi, ring_sons .box (by decide) n i hi, hre, if_true,
      List.map_cons, List.map_nil, maxL, ih ((i + 1) % n) (Nat.mod_lt _ hn)]
    simp
    omega

/-! ## the doubling dag: the marker takes `2^(n+1)` rounds -/

theorem dag_node (n i : Nat) (h : i ≤ n) :
    (dag n).node i = if i = 0 then { kind := .leaf } else { kind := .list, kids := [i - 1, i - 1] } := by
  unfold Graph.node dag
  have : i < n + 1 := by omega
  simp [Array.getD, this]

def dagT : Nat → Nat
  | 0 => 1
  | i + 1 => 1 + 2 * dagT i

theorem dagT_eq (i : Nat) : dagT i + 1 = 2 ^ (i + 1) := by
  induction i with
  | zero => rfl
  | succ i ih => simp only [dagT, Nat.pow_succ] at ih ⊢; omega

theorem mark_dag_rounds (n : Nat) : ∀ (i : Nat), i ≤ n → ∀ (fuel : Nat) (rest vis : List Nat),
    iter (wlStep (dag n) (markTracked Cfg.current (dag n))) (dagT i + fuel) { work := i :: rest, vis := vis } =
    iter (wlStep (dag n) (markTracked Cfg.current (dag n))) fuel { work := rest, vis := vis } := by
  intro i
  induction i with
  | zero =>
    intro _ fuel rest vis
    have hn := dag_node n 0 (by omega)
    simp only [dagT, Nat.add_comm 1 fuel, iter]
    simp [wlStep, markTracked, Graph.kind, Graph.sons, hn]
  | succ i ih =>
    intro hi fuel rest vis
    have hn := dag_node n (i + 1) hi
    have hf : dagT (i + 1) + fuel = (dagT i + (dagT i + fuel)) + 1 := by simp only [dagT]; omega
    rw [hf]
    simp only [iter]
    have hstep : wlStep (dag n) (markTracked Cfg.current (dag n)) { work := (i + 1) :: rest, vis := vis } =
        .next { work := i :: i :: rest, vis := vis } := by
      simp [wlStep, markTracked, Graph.kind, Graph.sons, hn, Cfg.current, Cfg.legacy]
    rw [hstep]
    simp only
    rw [ih (by omega), ih (by omega)]

/-- with fewer than `2^(n+1) - 1` rounds the marker has not finished the dag of depth `n` -/
theorem mark_dag_exponential (n fuel : Nat) (h : fuel + 1 < 2 ^ (n + 1)) :
    markRun Cfg.current (dag n) fuel [n] = none := by
  unfold markRun
  have h0 := mark_dag_rounds n n (Nat.le_refl _) 0 [] []
  simp only [Nat.add_zero, iter] at h0
  cases hr : iter (wlStep (dag n) (markTracked Cfg.current (dag n))) fuel { work := [n], vis := [] } with
  | none => rfl
  | some r =>
    have := iter_mono hr (by have := dagT_eq n; omega : fuel ≤ dagT n)
    rw [h0] at this
    cases this

end SteelVerif.C18
