import SteelVerif.C18.LemmasWl
/-
C18 — the worklist visitor as a machine with an explicit native call stack (`mStep`):
* the native stack never holds more than `wlFrames = 4` frames, in any state the machine can reach, for any
  graph, any order of the children, any choice of tracked kinds (`machine_depth_le`);
* every round of the loop model `wlStep` is a run of the machine from loop head to loop head
  (`machine_simulates_wl`, `machine_simulates_wl_done`).
-/
namespace SteelVerif.C18

/-! ## `runN` -/

section
variable {σ ρ : Type}

theorem runN_add (step : σ → Step σ ρ) : ∀ (a b : Nat) (s : σ), runN step (a + b) s = (runN step a s).bind (runN step b) := by
  intro a
  induction a with
  | zero => intro b s; simp [runN]
  | succ n ih =>
    intro b s
    rw [show n + 1 + b = (n + b) + 1 by omega]
    simp only [runN]
    cases h : step s with
    | done r => simp
    | next s' => simp only; exact ih b s'

theorem runN_trans {step : σ → Step σ ρ} {a b : Nat} {s t u : σ} (h1 : runN step a s = some t) (h2 : runN step b t = some u) :
    runN step (a + b) s = some u := by
  rw [runN_add, h1]; exact h2

theorem runN_one {step : σ → Step σ ρ} {s t : σ} (h : step s = .next t) : runN step 1 s = some t := by
  simp [runN, h]

/-- an invariant of the loop body holds in every state the loop reaches -/
theorem runN_inv {step : σ → Step σ ρ} (I : σ → Prop) (hI : ∀ s s', I s → step s = .next s' → I s') :
    ∀ (n : Nat) (s t : σ), I s → runN step n s = some t → I t := by
  intro n
  induction n with
  | zero => intro s t hs h; simp [runN] at h; exact h ▸ hs
  | succ n ih =>
    intro s t hs h
    simp only [runN] at h
    cases hst : step s with
    | done r => simp [hst] at h
    | next s' =>
      rw [hst] at h
      exact ih s' t (hI s s' hs hst) h
end

/-! ## the native stack is at most four frames deep -/

def Frame.rank : Frame → Nat
  | .visit => 0
  | .kind .. => 1
  | .helper .. => 2
  | .push _ => 3

/-- ranks strictly decrease from the innermost frame outwards: `push_back` is called by a helper or a `visit_<kind>`,
    a helper by a `visit_<kind>`, a `visit_<kind>` by `visit` -/
def StackOk (st : List Frame) : Prop := (st.map Frame.rank).Pairwise (· > ·)

theorem desc_length_le : ∀ (l : List Nat) (b : Nat), l.Pairwise (· > ·) → (∀ x ∈ l, x ≤ b) → l.length ≤ b + 1 := by
  intro l
  induction l with
  | nil => intro b _ _; simp
  | cons x xs ih =>
    intro b hp hb
    rw [List.pairwise_cons] at hp
    have hx := hb x (List.mem_cons_self ..)
    cases xs with
    | nil => simp
    | cons y ys =>
      have hy : y < x := hp.1 y (List.mem_cons_self ..)
      have : (y :: ys).length ≤ (b - 1) + 1 := by
        apply ih (b - 1) hp.2
        intro z hz
        have := hp.1 z hz
        omega
      simp only [List.length_cons] at this ⊢
      omega

theorem stackOk_length_le (st : List Frame) (h : StackOk st) : st.length ≤ wlFrames := by
  have := desc_length_le (st.map Frame.rank) 3 h (by
    intro x hx
    rw [List.mem_map] at hx
    obtain ⟨f, _, rfl⟩ := hx
    cases f <;> simp [Frame.rank])
  simpa [wlFrames] using this

theorem stackOk_tail {f : Frame} {rest : List Frame} (h : StackOk (f :: rest)) : StackOk rest := by
  unfold StackOk at h ⊢
  simp only [List.map_cons, List.pairwise_cons] at h
  exact h.2

/-- replace the innermost frame by one of the same rank -/
theorem stackOk_replace {f f' : Frame} {rest : List Frame} (h : StackOk (f :: rest)) (hr : f'.rank = f.rank) : StackOk (f' :: rest) := by
  unfold StackOk at h ⊢
  simp only [List.map_cons, List.pairwise_cons] at h ⊢
  rw [hr]
  exact h

/-- a call: a frame of higher rank on top -/
theorem stackOk_call {f' f : Frame} {rest : List Frame} (h : StackOk (f :: rest)) (hr : f.rank < f'.rank) : StackOk (f' :: f :: rest) := by
  unfold StackOk at h ⊢
  simp only [List.map_cons, List.pairwise_cons] at h ⊢
  refine ⟨?_, h⟩
  intro x hx
  rcases List.mem_cons.mp hx with rfl | hx
  · exact hr
  · have := h.1 x hx
    omega

theorem mStep_stackOk (sons : Nat → List Nat) (setsFound : Nat → Bool) (tracked : Bool → Nat → Bool) (s s' : MSt)
    (hI : StackOk s.stack) (hs : mStep sons setsFound tracked s = .next s') : StackOk s'.stack := by
  unfold mStep at hs
  split at hs
  · cases hs
  · rename_i rest hst
    rw [hst] at hI
    split at hs
    · cases hs; exact stackOk_tail hI
    · cases hs
      exact stackOk_call hI (by simp [Frame.rank])
  · rename_i v rest hst
    rw [hst] at hI
    simp only at hs
    split at hs
    · cases hs
      exact stackOk_call (stackOk_replace hI (by simp [Frame.rank])) (by simp [Frame.rank])
    · cases hs
      exact stackOk_replace hI (by simp [Frame.rank])
  · rename_i rest hst
    rw [hst] at hI
    cases hs; exact stackOk_tail hI
  · rename_i v c cs rest hst
    rw [hst] at hI
    cases hs
    exact stackOk_call (stackOk_replace hI (by simp [Frame.rank])) (by simp [Frame.rank])
  · rename_i v rest hst
    rw [hst] at hI
    split at hs
    · cases hs; exact stackOk_tail hI
    · cases hs
      exact stackOk_replace hI (by simp [Frame.rank])
  · rename_i rest hst
    rw [hst] at hI
    cases hs; exact stackOk_tail hI
  · rename_i v c cs rest hst
    rw [hst] at hI
    cases hs
    exact stackOk_call (stackOk_replace hI (by simp [Frame.rank])) (by simp [Frame.rank])
  · rename_i c rest hst
    rw [hst] at hI
    cases hs; exact stackOk_tail hI

theorem stackOk_init (roots : List Nat) : StackOk (mInit roots).stack := by
  simp [StackOk, mInit, Frame.rank]

/-- In every state the visitor machine reaches from the call of `visit`, the native stack holds at most four frames. -/
theorem machine_depth_le (sons : Nat → List Nat) (setsFound : Nat → Bool) (tracked : Bool → Nat → Bool) (roots : List Nat)
    (n : Nat) (t : MSt) (h : runN (mStep sons setsFound tracked) n (mInit roots) = some t) : t.stack.length ≤ wlFrames :=
  stackOk_length_le _ (runN_inv (fun s => StackOk s.stack) (fun s s' => mStep_stackOk sons setsFound tracked s s') n _ t
    (stackOk_init roots) h)

theorem mProfile_depth_le (sons : Nat → List Nat) (setsFound : Nat → Bool) (tracked : Bool → Nat → Bool) :
    ∀ (fuel : Nat) (s : MSt) (d q : Nat), StackOk s.stack → d ≤ wlFrames →
      (mProfile sons setsFound tracked fuel s d q).1 ≤ wlFrames := by
  intro fuel
  induction fuel with
  | zero =>
    intro s d q hs hd
    simp only [mProfile]
    exact Nat.max_le.mpr ⟨hd, stackOk_length_le _ hs⟩
  | succ f ih =>
    intro s d q hs hd
    simp only [mProfile]
    cases hst : mStep sons setsFound tracked s with
    | done r => exact Nat.max_le.mpr ⟨hd, stackOk_length_le _ hs⟩
    | next s' =>
      exact ih s' _ _ (mStep_stackOk sons setsFound tracked s s' hs hst) (Nat.max_le.mpr ⟨hd, stackOk_length_le _ hs⟩)

/-! ## the loop model `wlStep` is a run of the machine -/

section
variable (sons : Nat → List Nat) (setsFound : Nat → Bool) (tracked : Bool → Nat → Bool)

/-- the `for` loop of a `visit_<kind>`: two steps per child (call `push_back`, push and return), one to return -/
theorem run_kind_loop (v : Nat) : ∀ (cs : List Nat) (rest : List Frame) (q vis : List Nat) (fd : Bool),
    runN (mStep sons setsFound tracked) (2 * cs.length + 1) { stack := .kind v (some cs) :: rest, queue := q, vis := vis, found := fd }
      = some { stack := rest, queue := cs.reverse ++ q, vis := vis, found := fd } := by
  intro cs
  induction cs with
  | nil => intro rest q vis fd; simp [runN, mStep]
  | cons c cs ih =>
    intro rest q vis fd
    rw [show 2 * (c :: cs).length + 1 = 2 + (2 * cs.length + 1) by simp only [List.length_cons]; omega]
    apply runN_trans (t := { stack := .kind v (some cs) :: rest, queue := c :: q, vis := vis, found := fd })
    · simp [runN, mStep]
    · rw [ih rest (c :: q) vis fd]
      simp

theorem run_helper_loop (v : Nat) : ∀ (cs : List Nat) (rest : List Frame) (q vis : List Nat) (fd : Bool),
    runN (mStep sons setsFound tracked) (2 * cs.length + 1) { stack := .helper v (some cs) :: rest, queue := q, vis := vis, found := fd }
      = some { stack := rest, queue := cs.reverse ++ q, vis := vis, found := fd } := by
  intro cs
  induction cs with
  | nil => intro rest q vis fd; simp [runN, mStep]
  | cons c cs ih =>
    intro rest q vis fd
    rw [show 2 * (c :: cs).length + 1 = 2 + (2 * cs.length + 1) by simp only [List.length_cons]; omega]
    apply runN_trans (t := { stack := .helper v (some cs) :: rest, queue := c :: q, vis := vis, found := fd })
    · simp [runN, mStep]
    · rw [ih rest (c :: q) vis fd]
      simp
end

/-- One round of the marker's loop model is a run of the machine from loop head to loop head: same queue, same marks.
    (The machine pushes the children in the order `sons v`, on top of the queue: it is given the reverse of the order
    in which `wlStep` lists them.) -/
theorem machine_simulates_wl (g : Graph) (tracked : Nat → Bool) (w vis w' vis' : List Nat)
    (h : wlStep g tracked { work := w, vis := vis } = .next { work := w', vis := vis' }) :
    ∃ n, runN (mStep (fun v => (g.sons v).reverse) (fun _ => false) (fun _ v => tracked v)) n
        { stack := [.visit], queue := w, vis := vis, found := false }
      = some { stack := [.visit], queue := w', vis := vis', found := false } := by
  unfold wlStep at h
  cases w with
  | nil => simp at h
  | cons v rest =>
    simp only at h
    by_cases ht : tracked v = true
    · simp only [ht, if_true] at h
      by_cases hc : vis.contains v = true
      · simp only [hc, if_true] at h
        cases h
        have hc' : v ∈ vis := by simpa using hc
        exact ⟨4, by simp [runN, mStep, ht, hc']⟩
      · simp only [hc, Bool.false_eq_true, if_false] at h
        cases h
        have hc' : v ∉ vis := by simpa using hc
        refine ⟨3 + ((2 * (g.sons v).reverse.length + 1) + 1), ?_⟩
        apply runN_trans (t := { stack := [.helper v (some (g.sons v).reverse), .kind v (some []), .visit], queue := rest, vis := v :: vis, found := false })
        · simp [runN, mStep, ht, hc']
        · apply runN_trans (t := { stack := [.kind v (some []), .visit], queue := g.sons v ++ rest, vis := v :: vis, found := false })
          · have := run_helper_loop (fun v => (g.sons v).reverse) (fun _ => false) (fun _ v => tracked v) v (g.sons v).reverse
              [.kind v (some []), .visit] rest (v :: vis) false
            simpa using this
          · simp [runN, mStep]
    · simp only [ht, Bool.false_eq_true, if_false] at h
      cases h
      refine ⟨2 + (2 * (g.sons v).reverse.length + 1), ?_⟩
      apply runN_trans (t := { stack := [.kind v (some (g.sons v).reverse), .visit], queue := rest, vis := vis, found := false })
      · simp [runN, mStep, ht]
      · have := run_kind_loop (fun v => (g.sons v).reverse) (fun _ => false) (fun _ v => tracked v) v (g.sons v).reverse
          [.visit] rest vis false
        simpa using this

/-- … and when the loop model is done, the machine returns from `visit` with the same marks -/
theorem machine_simulates_wl_done (g : Graph) (tracked : Nat → Bool) (w vis r : List Nat)
    (h : wlStep g tracked { work := w, vis := vis } = .done r) :
    ∃ t, runN (mStep (fun v => (g.sons v).reverse) (fun _ => false) (fun _ v => tracked v)) 1
        { stack := [.visit], queue := w, vis := vis, found := false } = some t ∧
      mStep (fun v => (g.sons v).reverse) (fun _ => false) (fun _ v => tracked v) t = .done r := by
  unfold wlStep at h
  cases w with
  | nil =>
    simp only at h
    cases h
    exact ⟨{ stack := [], queue := [], vis := vis, found := false }, by simp [runN, mStep], by simp [mStep]⟩
  | cons v rest =>
    simp only at h
    split at h
    · split at h <;> cases h
    · cases h

end SteelVerif.C18
