import SteelVerif.C18.Model
import SteelVerif.C18.GenTraversals
/-
C18 driver: runs the model M (configuration `Cfg.current`, i.e. the flags scanned from the source) and the
specification S on shapes described on stdin.

  predict <shape>         for every model operation: native depth at two sizes, loop rounds at two sizes, and the class
                          `constant | linear | diverges | exponential` with the configuration flag that causes it
                          (`serialize`: the model of `into_serializable_value`; `mark-stack` / `collect-stack`: the deepest
                          native stack of the visitor machine `mStep` on the shape)
  machine <shape> <n>     the visitor machine against the loop model on the shape at size n: marked sets equal?, deepest
                          stack, longest queue, |edges|
  text <mode> <shape> <n> the text S expects: `display` (no depth limit) or `host` (Display for SteelVal, `...` below
                          depth 128); answer `text <bytes> <fnv1a-64> <first 48>|<last 48>` or `text none`
  table                   the regenerated traversal table
Shapes:  chain:<kind>   (list pair-car pair-cdr mvec ivec map-value map-key set struct mstruct box sbox closure stream mixed)
         dag            the doubling list
         ring:<k1>,<k2>,…   a cycle through cells `box sbox mvec mstruct closure`, each optionally `/list /ivec /pair /struct /map`
-/
namespace SteelVerif.C18

/-! ## building graphs -/

structure B where
  g : Graph := #[]
  deriving Inhabited

def B.add (b : B) (n : Node) : B × Nat :=
  let i := b.g.size
  ({ g := b.g.push n }, i)

/-- one level of a chain of the given shape kind above node `below`; returns the new top -/
def level (b : B) (kind : String) (below aux : Nat) : B × Nat :=
  match kind with
  | "list" => b.add { kind := .list, kids := [below] }
  | "pair-car" => b.add { kind := .pair, kids := [below, aux] }
  | "pair-cdr" => b.add { kind := .pair, kids := [aux, below] }
  | "mvec" => b.add { kind := .mvec, kids := [below] }
  | "ivec" => b.add { kind := .vec, kids := [below] }
  | "map-value" => b.add { kind := .map, keys := [aux], kids := [below] }
  | "map-key" => b.add { kind := .map, keys := [below], kids := [aux] }
  | "set" => b.add { kind := .set, keys := [below] }
  | "struct" => b.add { kind := .struct, tag := 1, kids := [below] }
  | "mstruct" =>
    let (b1, bx) := b.add { kind := .box, kids := [below] }
    b1.add { kind := .struct, tag := 2, kids := [bx] }
  | "box" => b.add { kind := .box, kids := [below] }
  | "sbox" => b.add { kind := .sbox, kids := [below] }
  | "closure" => b.add { kind := .closure, tag := 1, kids := [below] }
  | "stream" =>
    let (b1, th) := b.add { kind := .closure, tag := 2, kids := [below] }
    b1.add { kind := .stream, kids := [aux, th] }
  | _ => b.add { kind := .list, kids := [below] }

def mixKinds : Array String := #["list", "mvec", "struct", "pair-car", "box", "map-value", "ivec", "mstruct", "pair-cdr"]

/-- a chain of depth `n`; `base` is the tag of the innermost leaf.  Returns (builder, top). -/
def buildChain (b : B) (kind : String) (n base : Nat) : B × Nat := Id.run do
  let (b0, leaf) := b.add { kind := .leaf, tag := base }
  let (b1, aux) := b0.add { kind := .leaf, tag := 1000 }
  let mut cur := b1
  let mut top := leaf
  for i in [0:n] do
    -- the python side wraps from the inside out with n, n-1, …: level j (1-based from the inside) uses index (n - j + 1)
    let alts := if kind.startsWith "alt:" then ((kind.drop 4).toString.splitOn "+").toArray else #[]
    let k := if kind == "mixed" then mixKinds[(n - i) % mixKinds.size]!
             else if alts.size > 0 then alts[(n - i) % alts.size]! else kind
    let (c, t) := level cur k top aux
    cur := c
    top := t
  return (cur, top)

def buildDag (b : B) (n base : Nat) : B × Nat := Id.run do
  let (b0, leaf) := b.add { kind := .leaf, tag := base }
  let (b1, l0) := b0.add { kind := .list, kids := [leaf] }
  let mut cur := b1
  let mut top := l0
  for _ in [0:n] do
    let (c, t) := cur.add { kind := .list, kids := [top, top] }
    cur := c
    top := t
  return (cur, top)

def cellKind : String → Kind
  | "box" | "mstruct" | "closure" => .box
  | "sbox" => .sbox
  | "mvec" => .mvec
  | _ => .box

/-- a ring of cells; cell i is `base + i·3`, an optional wrapper (struct of a mutable struct, closure around its
    captured box) sits at `+1`, the optional connector at `+2`.  Returns (builder, entry node). -/
def buildRing (b : B) (cells : List (String × String)) : B × Nat := Id.run do
  let base := b.g.size
  let L := cells.length
  let mut g := b.g
  let (g1, aux) := (g.push { kind := .leaf, tag := 1000 }, g.size)
  g := g1
  let start := base + 1
  let entry (i : Nat) (k : String) : Nat :=
    -- what a reference to cell i is: the struct / closure wrapper if there is one, else the cell
    if k == "mstruct" || k == "closure" then start + i * 3 + 1 else start + i * 3
  let mut i := 0
  for (k, conn) in cells do
    let nxt := (i + 1) % L
    let nk := (cells.getD nxt ("box", "")).1
    let target := entry nxt nk
    let viaConn := start + i * 3 + 2
    let pointee := if conn == "" then target else viaConn
    g := g.push { kind := cellKind k, kids := [pointee] }
    g := g.push (if k == "mstruct" then { kind := .struct, tag := 2, kids := [start + i * 3] }
                 else if k == "closure" then { kind := .closure, tag := 3, kids := [start + i * 3] }
                 else { kind := .leaf, tag := 999 })
    g := g.push (match conn with
      | "list" => { kind := .list, kids := [aux, target] }
      | "ivec" => { kind := .vec, kids := [target] }
      | "pair" => { kind := .pair, kids := [target, aux] }
      | "struct" => { kind := .struct, tag := 1, kids := [target] }
      | "map" => { kind := .map, keys := [aux], kids := [target] }
      | _ => { kind := .leaf, tag := 998 })
    i := i + 1
  let first := (cells.getD 0 ("box", "")).1
  return ({ g := g }, entry 0 first)

/-! ## instrumented loop -/

def iterCount {σ ρ : Type} (step : σ → Step σ ρ) : Nat → Nat → σ → Option (ρ × Nat)
  | 0, _, _ => none
  | f + 1, n, s =>
    match step s with
    | .done r => some (r, n + 1)
    | .next s' => iterCount step f (n + 1) s'

def showOpt : Option Nat → String
  | some n => toString n
  | none => "diverges"

/-! ## predictions -/

structure Pred where
  op : String
  small : String
  large : String
  cls : String
  cause : String

def classify (a b : Option Nat) (na nb : Nat) : String :=
  match a, b with
  | some x, some y =>
    if y ≤ x + 2 then "constant"
    else if y * na ≤ x * nb * 3 + 64 * nb then "linear"      -- grows at most proportionally to the size
    else "exponential"
  | _, _ => "diverges"

/- the prelude's printer (`ccLabels`, `printerSons`, `preludeDepth`) is part of the model: Model.lean -/

def parseCells (s : String) : List (String × String) :=
  (s.splitOn ",").map fun c =>
    match c.splitOn "/" with
    | [k, conn] => (k, conn)
    | [k] => (k, "")
    | _ => ("box", "")

/-- build the two copies (for `equal?`) of a shape at size n: returns graph, top of copy a, top of copy b -/
def buildShape (shape : String) (n : Nat) : Graph × Nat × Nat :=
  if shape == "dag" then
    let (b1, a) := buildDag {} n 0
    let (b2, b) := buildDag b1 n 0
    (b2.g, a, b)
  else if shape.startsWith "ring:" then
    let spec := (shape.drop 5).toString
    let (cellsS, outer) := match spec.splitOn "@" with
      | [c, o] => (c, o)
      | _ => (spec, "")
    let cells := parseCells cellsS
    let wrap (b : B) (base entry : Nat) : B × Nat :=
      if outer == "" then (b, entry)
      else
        -- the value held by cell 0 (what its slot points to), wrapped in the outer container
        let content := ((b.g.getD (base + 1) { kind := .leaf }).kids).headD entry
        match outer with
        | "mvec" => b.add { kind := .mvec, kids := [content] }
        | "ivec" => b.add { kind := .vec, kids := [content] }
        | "list" => b.add { kind := .list, kids := [content] }
        | "box" => b.add { kind := .box, kids := [content] }
        | "sbox" => b.add { kind := .sbox, kids := [content] }
        | "mstruct" =>
          let (b1, bx) := b.add { kind := .box, kids := [content] }
          b1.add { kind := .struct, tag := 2, kids := [bx] }
        | _ => b.add { kind := .list, kids := [content] }
    let base1 := 0
    let (b1, a0) := buildRing {} cells
    let (b1', a) := wrap b1 base1 a0
    let base2 := b1'.g.size
    let (b2, b0) := buildRing b1' cells
    let (b2', b) := wrap b2 base2 b0
    (b2'.g, a, b)
  else
    let kind := (shape.drop 6).toString
    let (b1, a) := buildChain {} kind n 0
    let (b2, b) := buildChain b1 kind n 0
    (b2.g, a, b)

def predictAll (c : Cfg) (shape : String) : List Pred := Id.run do
  let ring := shape.startsWith "ring:"
  let dagS := shape == "dag"
  let (na, nb) := if dagS then (6, 12) else if ring then (1, 1) else (200, 400)
  let (ga, ta, tb) := buildShape shape na
  let (gb, ua, ub) := buildShape shape nb
  let fuelD := 100000
  let bound (g : Graph) : Nat := 200 * (g.size * g.size * (g.maxDeg + 1) + 64)
  let depthPred (name cause : String) (f : Graph → Nat → Nat) : Pred :=
    let a := f ga ta
    let b := f gb ua
    -- a recursion that uses all the fuel it gets does not return (cycle)
    let a' := if a ≥ fuelD then none else some a
    let b' := if b ≥ fuelD then none else some b
    let cls := classify a' b' na nb
    { op := name, small := showOpt a', large := showOpt b', cls := cls, cause := if cls == "constant" then "-" else cause }
  let roundPred (name : String) (cause : String → String) (f : Graph → Nat → Nat → Nat → Option Nat) : Pred :=
    let a := f ga ta tb (bound ga)
    let b := f gb ua ub (bound gb)
    let cls := match classify a b na nb with
      | "constant" => "constant"
      | "linear" => "constant"       -- loop rounds may grow with the value: only divergence / explosion matters
      | x => x
    { op := name, small := showOpt a, large := showOpt b, cls := cls, cause := if cls == "constant" then "-" else cause cls }
  let mut out : List Pred := []
  out := out ++ [depthPred "hash" (if c.hashIterative then "-" else "hashIterative") fun g t => hashDepth c g fuelD t]
  -- the flag that is to blame: boxes / pairs only if their own flag is (again) off
  out := out ++ [depthPred "print-depth" (if c.printBoxNoReentry then "printMapNoReentry" else "printBoxNoReentry")
    fun g t => 1 + printDepth c g fuelD 0 t]
  out := out ++ [depthPred "drop-depth" (if c.dropPairSetIterative then "dropClosureBoxIterative" else "dropPairSetIterative")
    fun g t => dropDepth c g fuelD t]
  out := out ++ [depthPred "eq-key-depth" "eqKeysIterative" fun g t => eqKeyDepth c g fuelD t]
  out := out ++ [roundPred "eq" (fun _ => "eqBoxVisited") fun g a b fuel =>
    (iterCount (eqStep c g (leafKeyEq g)) fuel 0 { work := [(a, b)], vis := [] }).map (·.2)]
  out := out ++ [roundPred "mark" (fun cls => if cls == "diverges" then "markSboxVisited" else "markImmVisited") fun g a _ fuel =>
    (iterCount (wlStep g (markTracked c g)) fuel 0 { work := [a], vis := [] }).map (·.2)]
  out := out ++ [roundPred "collect" (fun cls => if cls == "diverges" then "ccSboxMutable" else "ccTracksAlways") fun g a _ fuel =>
    (iterCount (ccStep c g) fuel 0 { work := [a], vis := [], found := false }).map (·.2)]
  out := out ++ [depthPred "prelude-print" "ccTracksAlways" fun g t =>
    let labels := ccLabels c g (bound g) { work := [t], vis := [], found := false } []
    if shape.startsWith "ring:" then preludeDepth g labels fuelD true t else 1]
  out := out ++ [depthPred "serialize" "serialize" fun g t => serDepth g fuelD t]
  -- the visitor machine: deepest native stack (must stay ≤ wlFrames whatever the shape) and longest queue
  out := out ++ [depthPred "mark-stack" "machine" fun g t =>
    (mProfile g.sons (fun _ => false) (fun _ v => markTracked c g v) (bound g) (mInit [t]) 0 0).1]
  out := out ++ [depthPred "collect-stack" "machine" fun g t =>
    (mProfile (ccSons g) (fun v => ccSetsFound c (g.kind v)) (fun found v => ccExpands (g.kind v) && (found || c.ccTracksAlways))
      (bound g) (mInit [t]) 0 0).1]
  out := out ++ [roundPred "drop" (fun _ => "-") fun g a _ fuel =>
    (iterCount (dropStep g) fuel 0 { work := [a], rc := initRc g a, freed := [] }).map (·.2)]
  return out

def scannedCfgD : Cfg :=
  { eqBoxVisited := Gen.eqBoxVisited, eqMixVecVisited := Gen.eqMixVecVisited, eqKeysIterative := Gen.eqKeysIterative,
    markSboxVisited := Gen.markSboxVisited, markImmVisited := Gen.markImmVisited, ccSboxMutable := Gen.ccSboxMutable,
    ccTracksAlways := Gen.ccTracksAlways, hashIterative := Gen.hashIterative, hashCycleSafe := Gen.hashCycleSafe,
    printBoxNoReentry := Gen.printBoxNoReentry, printMapNoReentry := Gen.printMapNoReentry,
    dropPairSetIterative := Gen.dropPairSetIterative, dropClosureBoxIterative := Gen.dropClosureBoxIterative }

/-! ## S: the printed text -/

def fnv (s : String) : UInt64 :=
  s.toUTF8.foldl (fun h b => (h ^^^ b.toUInt64) * 0x100000001b3) 0xcbf29ce484222325

def hex16 (n : UInt64) : String :=
  let s := String.ofList (Nat.toDigits 16 n.toNat)
  String.ofList (List.replicate (16 - s.length) '0') ++ s

def clip (s : String) : String := s.map fun c => if c == '\n' then '↵' else c

def textLine (s : String) : String :=
  let head := (s.take 48).toString
  let tail := (s.drop (s.length - 48)).toString
  s!"text {s.utf8ByteSize} {hex16 (fnv s)} {clip head}|{clip tail}"

inductive Tok
  | node (v depth : Nat)
  | lit (s : String)

/-- S: print node `v` with an explicit stack.  `limit = 0`: no depth limit (the `display` of the prelude);
    otherwise nesting deeper than `limit` prints `...` (`Display for SteelVal`).  `dotted`: pairs are always written
    `(a . b)` (host Display) instead of list notation (prelude).  Only acyclic shapes of printable kinds. -/
partial def render (g : Graph) (limit : Nat) (dotted : Bool) (stack : List Tok) (acc : String) : Option String :=
  match stack with
  | [] => some acc
  | .lit s :: rest => render g limit dotted rest (acc ++ s)
  | .node v d :: rest =>
    if limit != 0 && d > limit then render g limit dotted rest (acc ++ "...")
    else
      let n := g.node v
      match n.kind with
      | .leaf => render g limit dotted rest (acc ++ toString n.tag)
      | .list =>
        let items := n.kids.map fun k => Tok.node k (d + 1)
        render g limit dotted (.lit "(" :: (items.intersperse (.lit " ")) ++ .lit ")" :: rest) acc
      | .vec | .mvec =>
        let items := n.kids.map fun k => Tok.node k (d + 1)
        render g limit dotted (.lit "#(" :: (items.intersperse (.lit " ")) ++ .lit ")" :: rest) acc
      | .struct =>
        if n.tag == 1 then
          let items := n.kids.map fun k => [Tok.lit " ", Tok.node k (d + 1)]
          render g limit dotted (.lit "(node" :: items.flatten ++ .lit ")" :: rest) acc
        else none
      | .pair =>
        match n.kids with
        | [a, b] =>
          if dotted then render g limit dotted (.lit "(" :: .node a (d + 1) :: .lit " . " :: .node b (d + 1) :: .lit ")" :: rest) acc
          else
            -- prelude: `emit-pair` walks the cdr chain iteratively: (a b c . d)
            let rec spine (fuel : Nat) (cur : Nat) (rev : List Tok) : List Tok :=
              match fuel with
              | 0 => rev.reverse
              | f + 1 =>
                let m := g.node cur
                match m.kind, m.kids with
                | .pair, [x, y] => spine f y (Tok.node x (d + 1) :: Tok.lit " " :: rev)
                | _, _ => (Tok.node cur (d + 1) :: Tok.lit " . " :: rev).reverse
            render g limit dotted (.lit "(" :: .node a (d + 1) :: spine (g.size + 1) b [] ++ .lit ")" :: rest) acc
        | _ => none
      | _ => none

/-- S for `display` of a cyclic value made of lists, pairs and vectors: datum labels.  One header line `#n=<value>` per
    labelled node (in the order the labels were handed out), then the value; inside, a labelled node is written `#n#`. -/
partial def renderCyc (g : Graph) (labels : List Nat) (fuel : Nat) (top : Bool) (v : Nat) : Option String :=
  if fuel == 0 then none
  else
    let inner (j : Nat) := renderCyc g labels (fuel - 1) false j
    match (if top then none else labels.idxOf? v) with
    | some id => some s!"#{id}#"
    | none =>
      let n := g.node v
      let seq (xs : List Nat) : Option (List String) := xs.mapM inner
      match n.kind with
      | .leaf => some (toString (if n.tag == 1000 then 1 else n.tag))
      | .list => (seq n.kids).map fun ss => "(" ++ " ".intercalate ss ++ ")"
      | .vec | .mvec => (seq n.kids).map fun ss => "#(" ++ " ".intercalate ss ++ ")"
      | .pair =>
        match n.kids with
        | [a, b] =>
          -- emit-pair: follows the cdr while it is a pair (without looking at labels), then ` . tail`
          let rec go (f : Nat) (cur : Nat) (acc : List String) : Option (List String × Nat) :=
            match f with
            | 0 => none
            | f + 1 =>
              let m := g.node cur
              match m.kind, m.kids with
              | .pair, [x, y] => (inner x).bind fun sx => go f y (acc ++ [sx])
              | _, _ => some (acc, cur)
          (inner a).bind fun sa => (go 64 b [sa]).bind fun (items, tail) =>
            (inner tail).map fun st => "(" ++ " ".intercalate items ++ " . " ++ st ++ ")"
        | _ => none
      | _ => none

def expectedCycText (shape : String) : Option String :=
  let (g, root, _) := buildShape shape 1
  let printable := g.all fun n => n.kind == .leaf || n.kind == .list || n.kind == .vec || n.kind == .mvec || n.kind == .pair
  if !printable then none
  else
    let labels := (ccLabels scannedCfgD g (200 * (g.size * g.size + 8)) { work := [root], vis := [], found := false } []).reverse
    let headers := labels.mapM fun l => (renderCyc g labels 200 true l).map fun s => s!"#{labels.idxOf l}=" ++ s ++ "\n"
    headers.bind fun hs => (renderCyc g labels 200 true root).map fun r => String.join hs ++ r

def expectedText (mode : String) (shape : String) (n : Nat) : Option String :=
  if shape.startsWith "ring:" then (if mode == "display" then expectedCycText shape else none)
  else if !(shape.startsWith "chain:") then none
  else
    let kind := (shape.drop 6).toString
    let parts := if kind.startsWith "alt:" then (kind.drop 4).toString.splitOn "+" else [kind]
    if !(parts.all fun k => ["list", "pair-car", "pair-cdr", "mvec", "ivec", "struct"].contains k) then none
    else
      let (b, top) := buildChain {} kind n 0
      -- the aux leaf prints as 1 (the shapes use the literal 1 next to the chain)
      let g := b.g.map fun nd => if nd.kind == .leaf && nd.tag == 1000 then { nd with tag := 1 } else nd
      match mode with
      | "display" =>
        -- a cdr chain of pairs ending in a non-list is printed by emit-pair without nesting
        render g 0 false [.node top 1] ""
      | "host" => render g printLimit true [.node top 1] ""
      | _ => none

end SteelVerif.C18

open SteelVerif.C18 in
def showT : Gen.T → String
  | .atomic => "atomic"
  | .iterative => "iterative"
  | .recBounded n => s!"recBounded:{n}"
  | .recUnbounded => "recUnbounded"
  | .missing => "missing"

open SteelVerif.C18 in
def scannedCfg' : Cfg :=
  { eqBoxVisited := Gen.eqBoxVisited, eqMixVecVisited := Gen.eqMixVecVisited, eqKeysIterative := Gen.eqKeysIterative,
    markSboxVisited := Gen.markSboxVisited, markImmVisited := Gen.markImmVisited, ccSboxMutable := Gen.ccSboxMutable,
    ccTracksAlways := Gen.ccTracksAlways, hashIterative := Gen.hashIterative, hashCycleSafe := Gen.hashCycleSafe,
    printBoxNoReentry := Gen.printBoxNoReentry, printMapNoReentry := Gen.printMapNoReentry,
    dropPairSetIterative := Gen.dropPairSetIterative, dropClosureBoxIterative := Gen.dropClosureBoxIterative }

open SteelVerif.C18 in
partial def loop (h : IO.FS.Stream) : IO Unit := do
  let line ← h.getLine
  if line.isEmpty then return
  let l := line.trimAscii.toString
  let ws := l.splitOn " "
  match ws with
  | ["predict", shape] =>
    for p in predictAll scannedCfg' shape do
      IO.println s!"predict shape={shape} op={p.op} small={p.small} large={p.large} class={p.cls} cause={p.cause}"
    IO.println "predict end"
  | ["predict-fixed", shape] =>
    for p in predictAll Cfg.fixed shape do
      IO.println s!"predict shape={shape} op={p.op} small={p.small} large={p.large} class={p.cls} cause={p.cause}"
    IO.println "predict end"
  | ["text", mode, shape, n] =>
    match expectedText mode shape n.toNat! with
    | some s => IO.println (textLine s)
    | none => IO.println "text none"
  | ["machine", shape, n] =>
    let (g, a, _) := buildShape shape n.toNat!
    let fuel := 400 * (g.size * (g.maxDeg + 2) + 64)
    let c := scannedCfg'
    -- only shapes on which the marker ends (the model says so) are asked
    let wl := iter (wlStep g (markTracked c g)) fuel { work := [a], vis := [] }
    let m := mProfile (fun v => (g.sons v).reverse) (fun _ => false) (fun _ v => markTracked c g v) fuel (mInit [a]) 0 0
    let same := match wl, m.2.2 with
      | some x, some y => x == y
      | none, none => true
      | _, _ => false
    IO.println s!"machine shape={shape} n={n} same={same} stack={m.1} queue={m.2.1} edges={g.edges} ended={m.2.2.isSome}"
  | ["table"] =>
    for e in Gen.table do
      IO.println s!"row {e.1} {e.2.1} {showT e.2.2}"
    IO.println "table end"
  | _ => IO.println s!"error unknown command: {l}"
  loop h

def main (_args : List String) : IO Unit := do
  let stdin ← IO.getStdin
  loop stdin
