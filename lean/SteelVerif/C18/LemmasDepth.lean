import SteelVerif.C18.LemmasWl
/-
C18 — native depth: functions that never call themselves use one frame; functions that call themselves on
the children use as many frames as the value is deep (chains), and never finish on a cycle.
-/
namespace SteelVerif.C18

theorem recDepth_const (sons : Nat → List Nat) (rec : Nat → Bool) (h : ∀ v, rec v = false) (fuel v : Nat) :
    recDepth sons rec fuel v ≤ 1 := by
  cases fuel with
  | zero => simp [recDepth]
  | succ f => simp [recDepth, h v]

theorem recDepth_le_fuel (sons : Nat → List Nat) (rec : Nat → Bool) : ∀ (fuel v : Nat), recDepth sons rec fuel v ≤ fuel := by
  intro fuel
  induction fuel with
  | zero => intro v; simp [recDepth]
  | succ f ih =>
    intro v
    simp only [recDepth]
    split
    · have : maxL ((sons v).map (recDepth sons rec f)) ≤ f :=
        maxL_le (fun x hx => by
          obtain ⟨j, _, rfl⟩ := List.mem_map.mp hx
          exact ih j)
      omega
    · omega

/-- on a chain (`sons i = [i-1]`, recursion at every node above 0) the depth is the length of the chain -/
theorem recDepth_chain (sons : Nat → List Nat) (rec : Nat → Bool) (n : Nat)
    (h0 : rec 0 = false ∨ sons 0 = [])
    (hs : ∀ i, 0 < i → i ≤ n → sons i = [i - 1]) (hr : ∀ i, 0 < i → i ≤ n → rec i = true) :
    ∀ (i fuel : Nat), i ≤ n → i + 1 ≤ fuel → recDepth sons rec fuel i = i + 1 := by
  intro i
  induction i with
  | zero =>
    intro fuel _ hf
    cases fuel with
    | zero => omega
    | succ f =>
      simp only [recDepth]
      rcases h0 with h | h
      · simp [h]
      · simp [h, maxL]
  | succ i ih =>
    intro fuel hi hf
    cases fuel with
    | zero => omega
    | succ f =>
      simp only [recDepth, hr (i + 1) (by omega) hi, if_true, hs (i + 1) (by omega) hi]
      simp only [Nat.add_sub_cancel, List.map_cons, List.map_nil, maxL]
      rw [ih f (by omega) (by omega)]
      simp
      omega

/-- on a ring every level of fuel is used: the recursion never returns -/
theorem recDepth_ring (sons : Nat → List Nat) (rec : Nat → Bool) (n : Nat)
    (hs : ∀ i, i < n → ∃ j, j < n ∧ sons i = [j]) (hr : ∀ i, i < n → rec i = true) :
    ∀ (fuel i : Nat), i < n → recDepth sons rec fuel i = fuel := by
  intro fuel
  induction fuel with
  | zero => intro i _; rfl
  | succ f ih =>
    intro i hi
    obtain ⟨j, hj, hsj⟩ := hs i hi
    simp only [recDepth, hr i hi, if_true, hsj, List.map_cons, List.map_nil, maxL, ih j hj]
    simp
    omega

/-! ## the shapes -/

theorem chain_size (k : Kind) (n : Nat) : (chain k n).size = n + 1 := by simp [chain]

theorem chain_node (k : Kind) (n i : Nat) (h : i ≤ n) :
    (chain k n).node i = if i = 0 then { kind := .leaf } else { kind := k, kids := [i - 1] } := by
  unfold Graph.node chain
  have : i < n + 1 := by omega
  simp [Array.getD, this]

theorem chain_sons (k : Kind) (hk : k ≠ .leaf) (n i : Nat) (h0 : 0 < i) (h : i ≤ n) : (chain k n).sons i = [i - 1] := by
  have : i ≠ 0 := by omega
  simp [Graph.sons, chain_node k n i h, this, hk]

theorem chain_sons_zero (k : Kind) (n : Nat) : (chain k n).sons 0 = [] := by
  simp [Graph.sons, chain_node k n 0 (by omega)]

theorem chain_kind (k : Kind) (n i : Nat) (h0 : 0 < i) (h : i ≤ n) : (chain k n).kind i = k := by
  have : i ≠ 0 := by omega
  simp [Graph.kind, chain_node k n i h, this]

theorem keyChain_node (n i : Nat) (h : i ≤ n) :
    (keyChain n).node i = if i = 0 then { kind := .leaf } else { kind := .map, keys := [i - 1], kids := [0] } := by
  unfold Graph.node keyChain
  have : i < n + 1 := by omega
  simp [Array.getD, this]

theorem ring_node (k : Kind) (n i : Nat) (h : i < n) : (ring k n).node i = { kind := k, kids := [(i + 1) % n] } := by
  unfold Graph.node ring
  simp [Array.getD, h]

theorem ring_sons (k : Kind) (hk : k ≠ .leaf) (n i : Nat) (h : i < n) : (ring k n).sons i = [(i + 1) % n] := by
  simp [Graph.sons, ring_node k n i h, hk]

theorem hashRecurses_ne_leaf {k : Kind} (h : hashRecurses k = true) : k ≠ .leaf := by
  cases k <;> simp [hashRecurses] at h ⊢

theorem ring_kind (k : Kind) (n i : Nat) (h : i < n) : (ring k n).kind i = k := by
  simp [Graph.kind, ring_node k n i h]

/-! ## `hashLim`: hashing with a bounded native stack -/

theorem le_maxL_map {f : Nat → Nat} {xs : List Nat} {j : Nat} (h : j ∈ xs) : f j ≤ maxL (xs.map f) :=
  le_maxL (List.mem_map.mpr ⟨j, h, rfl⟩)

/-- a value whose height fits into the available frames is hashed -/
theorem hashLim_of_height (g : Graph) : ∀ (lim fuel v : Nat), height g fuel v < fuel → height g fuel v ≤ lim →
    (hashLim g lim v).isSome = true := by
  intro lim
  induction lim with
  | zero =>
    intro fuel v h1 h2
    cases fuel with
    | zero => omega
    | succ f => simp only [height] at h2; omega
  | succ lim ih =>
    intro fuel v h1 h2
    cases fuel with
    | zero => omega
    | succ f =>
      simp only [height] at h1 h2
      simp only [hashLim]
      split
      · have : ((g.sons v).all fun j => (hashLim g lim j).isSome) = true := by
          rw [List.all_eq_true]
          intro j hj
          have hle : height g f j ≤ maxL ((g.sons v).map (height g f)) := le_maxL_map hj
          exact ih f j (by omega) (by omega)
        simp [this]
      · simp

theorem hashLim_chain_none (k : Kind) (hk : hashRecurses k = true) (n : Nat) :
    ∀ (lim i : Nat), lim ≤ i → i ≤ n → hashLim (chain k n) lim i = none := by
  intro lim
  induction lim with
  | zero => intro i _ _; rfl
  | succ lim ih =>
    intro i h1 h2
    simp only [hashLim, chain_kind k n i (by omega) h2, hk, if_true, chain_sons k (hashRecurses_ne_leaf hk) n i (by omega) h2]
    simp [ih (i - 1) (by omega) (by omega)]

theorem hashLim_ring_none (k : Kind) (hk : hashRecurses k = true) (n : Nat) :
    ∀ (lim i : Nat), i < n → hashLim (ring k n) lim i = none := by
  intro lim
  induction lim with
  | zero => intro i _; rfl
  | succ lim ih =>
    intro i hi
    have hn : 0 < n := by omega
    simp only [hashLim, ring_kind k n i hi, hk, if_true, ring_sons k (hashRecurses_ne_leaf hk) n i hi]
    simp [ih ((i + 1) % n) (Nat.mod_lt _ hn)]

/-! ## printing -/

theorem printDepth_le (c : Cfg) (g : Graph) (h : ∀ v, printReenters c (g.kind v) = false) :
    ∀ (fuel ctr v : Nat), ctr ≤ printLimit → printDepth c g fuel ctr v ≤ printLimit - ctr + 1 := by
  intro fuel
  induction fuel with
  | zero => intro ctr v _; simp [printDepth]
  | succ f ih =>
    intro ctr v hc
    simp only [printDepth]
    split
    · omega
    · rename_i hlt
      have hlt' : ctr < printLimit := by omega
      split
      · omega
      · omega
      · omega
      · simp only [h v, Bool.false_eq_true, if_false]
        have : maxL ((g.sons v).map (printDepth c g f (ctr + 1))) ≤ printLimit - (ctr + 1) + 1 :=
          maxL_le (fun x hx => by
            obtain ⟨j, _, rfl⟩ := List.mem_map.mp hx
            exact ih (ctr + 1) j (by omega))
        omega

/-- a chain of a kind whose Display re-enters `Display for SteelVal`: the counter restarts at every level -/
theorem printDepth_reentrant_chain (c : Cfg) (k : Kind) (hk : printReenters c k = true) (n : Nat) :
    ∀ (i fuel : Nat), i ≤ n → i + 1 ≤ fuel → printDepth c (chain k n) fuel 0 i = i + 1 := by
  have hkl : k ≠ .leaf := by intro h; subst h; simp [printReenters] at hk
  intro i
  induction i with
  | zero =>
    intro fuel _ hf
    cases fuel with
    | zero => omega
    | succ f =>
      have h0 : (chain k n).kind 0 = .leaf := by simp [Graph.kind, chain_node k n 0 (by omega)]
      simp [printDepth, printLimit, h0]
  | succ i ih =>
    intro fuel hi hf
    cases fuel with
    | zero => omega
    | succ f =>
      have hkind : (chain k n).kind (i + 1) = k := chain_kind k n (i + 1) (by omega) hi
      have hih := ih f (by omega) (by omega)
      have hs := chain_sons k hkl n (i + 1) (by omega) hi
      cases k <;> simp [printReenters] at hk <;>
        (simp only [printDepth, printLimit, hkind, hs, printReenters, hk,
          List.map_cons, List.map_nil, maxL, Nat.add_sub_cancel, hih]
         simp
         omega)

end SteelVerif.C18
