/-
C18 — arbitrarily deep, wide or cyclic values are handled without exhausting the host.

Model M of the traversals of `SteelVal` in `crates/steel-core/src`:

* `rvals/cycles.rs`   `RecursiveEqualityHandler::visit` (equal?), `CycleCollector` (first phase of printing),
                      `CycleDetector::format_with_cycles` (second phase, depth counter 128), `IterativeDropHandler`,
* `values/closed.rs`  `MarkAndSweepContext*::visit` (the marker of a full collection),
* `values/lists.rs`   `list_drop_handler`,
* `rvals.rs`          `impl Hash for SteelVal` (native recursion), `impl Display/Debug for SteelVal`.

Values are *graphs*: an array of nodes, a node names its children by index.  Nothing restricts the
indices, so graphs may be cyclic, share sub-values, or mention indices that do not exist (read as leaves).
Every algorithm is written the way the code runs it:

* a **worklist** algorithm is a `step` function on an explicit state, iterated by `iter` — a loop: it runs in
  one native frame whatever the value is;
* a **natively recursive** algorithm is a structurally recursive function that carries its recursion depth.

Which is which, per operation and value kind, is the table `GenTraversals.lean` (regenerated from the source).
What differs between the code as it is and the code for which the property holds is a field of `Cfg`.
-/
namespace SteelVerif.C18

inductive Kind
  | leaf      -- numbers, strings, symbols, characters, booleans, void, ports, …: no `SteelVal` inside
  | list      -- ListV
  | pair      -- Pair
  | vec       -- VectorV (immutable)
  | mvec      -- MutableVector (heap slot)
  | map       -- HashMapV
  | set       -- HashSetV
  | struct    -- CustomStruct (the fields of a mutable struct are `box` nodes)
  | box       -- HeapAllocated (`box`, assigned captured variables, mutable struct fields): a heap slot
  | sbox      -- Boxed (`box-strong`): a reference counted cell, not a heap slot
  | closure   -- Closure (children = captured values)
  | stream    -- StreamV (children = first value and thunk)
  deriving DecidableEq, Repr, Inhabited

structure Node where
  kind : Kind
  tag : Nat := 0            -- payload of a leaf / type of a struct / identity of a closure's code
  keys : List Nat := []     -- children in key position (keys of a hash map, members of a hash set)
  kids : List Nat := []     -- all other children, in order
  deriving DecidableEq, Repr, Inhabited

abbrev Graph := Array Node

def Graph.node (g : Graph) (i : Nat) : Node := g.getD i { kind := .leaf }
def Graph.kind (g : Graph) (i : Nat) : Kind := (g.node i).kind
/-- every child, keys first (the order in which `visit_hash_map` pushes key, value does not matter here);
    a leaf has none, whatever the record says -/
def Graph.sons (g : Graph) (i : Nat) : List Nat :=
  if (g.node i).kind = .leaf then [] else (g.node i).keys ++ (g.node i).kids

/-- largest number of children of a node -/
def Graph.maxDeg (g : Graph) : Nat := g.foldl (fun m n => max m (n.keys.length + n.kids.length)) 0

/-! ## Configuration -/

structure Cfg where
  /-- the `(Boxed, Boxed)` and `(HeapAllocated, HeapAllocated)` arms of the equality worklist call `should_visit` -/
  eqBoxVisited : Bool
  /-- the `(VectorV, MutableVector)` / `(MutableVector, VectorV)` arms call `should_visit` -/
  eqMixVecVisited : Bool
  /-- keys of hash maps / members of hash sets are compared without re-entering `==` natively -/
  eqKeysIterative : Bool
  /-- the marker remembers which strong boxes (`Boxed`) it has expanded -/
  markSboxVisited : Bool
  /-- the marker remembers which immutable containers it has expanded -/
  markImmVisited : Bool
  /-- `CycleCollector::visit_boxed_value` sets `found_mutable` -/
  ccSboxMutable : Bool
  /-- `CycleCollector::add` records containers before the first mutable object was met -/
  ccTracksAlways : Bool
  /-- `Hash for SteelVal` uses an explicit stack -/
  hashIterative : Bool
  /-- `Hash for SteelVal` stops at a slot / cell that it is already hashing (cycle) -/
  hashCycleSafe : Bool
  /-- Display of `Boxed` / `HeapAllocated` continues with the running depth counter and cycle table instead of
      calling `Display for SteelVal` again -/
  printBoxNoReentry : Bool
  /-- the same for `HashMapV` / `HashSetV` (they print through `{:#?}` of the collection) -/
  printMapNoReentry : Bool
  /-- pairs and hash sets are released through the worklist (`impl Drop` that starts the drop handler) -/
  dropPairSetIterative : Bool
  /-- closure captures and strong boxes are released through the worklist -/
  dropClosureBoxIterative : Bool
  deriving DecidableEq, Repr

/-- the configuration for which the property holds -/
def Cfg.fixed : Cfg :=
  { eqBoxVisited := true, eqMixVecVisited := true, eqKeysIterative := true, markSboxVisited := true,
    markImmVisited := true, ccSboxMutable := true, ccTracksAlways := true, hashIterative := true,
    hashCycleSafe := true, printBoxNoReentry := true, printMapNoReentry := true, dropPairSetIterative := true,
    dropClosureBoxIterative := true }

/-- the code as it was when this check was written (before the repairs 35ea4f4c, fffa6bd3, 31703dd1) -/
def Cfg.legacy : Cfg :=
  { eqBoxVisited := false, eqMixVecVisited := false, eqKeysIterative := false, markSboxVisited := false,
    markImmVisited := false, ccSboxMutable := false, ccTracksAlways := false, hashIterative := false,
    hashCycleSafe := false, printBoxNoReentry := false, printMapNoReentry := false, dropPairSetIterative := false,
    dropClosureBoxIterative := false }

/-- the code as it is (checked against the source by `GenTraversals.lean` on every run): the equality worklist
    remembers box pairs and vector / mutable-vector pairs, boxes are printed in place, strong boxes switch cycle
    recording on, pairs and hash sets have a `Drop` that starts the drop handler -/
def Cfg.current : Cfg :=
  { Cfg.legacy with eqBoxVisited := true, eqMixVecVisited := true, ccSboxMutable := true, printBoxNoReentry := true,
                    dropPairSetIterative := true }

/-! ## Loops -/

inductive Step (σ ρ : Type)
  | next (s : σ)
  | done (r : ρ)

/-- `iter step fuel s`: run the loop body at most `fuel` times.  One native frame. -/
def iter {σ ρ : Type} (step : σ → Step σ ρ) : Nat → σ → Option ρ
  | 0, _ => none
  | f + 1, s =>
    match step s with
    | .done r => some r
    | .next s' => iter step f s'

/-- number of elements of `xs` that are not in `vis` -/
def unseen {α : Type} [DecidableEq α] (xs vis : List α) : Nat := (xs.filter fun x => !vis.contains x).length

/-! ## `equal?` — `RecursiveEqualityHandler::visit` -/

/-- The two queues are `Vec`s that every arm pushes in lockstep (the lengths are compared first), so they are
    one stack of (left, right) pairs; the `(Some, None)` arm of the loop is unreachable for the modelled kinds. -/
structure EqSt where
  work : List (Nat × Nat)
  vis : List (Nat × Nat)
  deriving Repr

/-- does the arm for this pair of kinds go through `should_visit`? -/
def eqChecked (c : Cfg) : Kind → Kind → Bool
  | .list, .list | .pair, .pair | .vec, .vec | .mvec, .mvec | .map, .map | .set, .set | .struct, .struct => true
  | .box, .box | .sbox, .sbox => c.eqBoxVisited
  | .vec, .mvec | .mvec, .vec => c.eqMixVecVisited
  | _, _ => false

/-- arms that compare children -/
def eqDescends : Kind → Kind → Bool
  | .list, .list | .pair, .pair | .vec, .vec | .mvec, .mvec | .map, .map | .set, .set | .struct, .struct
  | .box, .box | .sbox, .sbox | .vec, .mvec | .mvec, .vec => true
  | _, _ => false

/-- pair the values of the left map's entries with the values under the matching keys of the right map
    (`r.get(key)`); `none`: some key is missing.  `keyEq` is the comparison `get` performs on keys. -/
def matchEntries (keyEq : Nat → Nat → Bool) (rk rv : List Nat) : List Nat → List Nat → Option (List (Nat × Nat))
  | k :: ks, v :: vs =>
    match (rk.zip rv).find? (fun e => keyEq k e.1) with
    | none => none
    | some e =>
      match matchEntries keyEq rk rv ks vs with
      | none => none
      | some ps => some ((v, e.2) :: ps)
  | _, _ => some []

/-- the pairs of children an arm pushes; `none`: the arm returns `false` (different lengths, types, keys) -/
def eqChildren (g : Graph) (keyEq : Nat → Nat → Bool) (l r : Nat) : Option (List (Nat × Nat)) :=
  let nl := g.node l
  let nr := g.node r
  match nl.kind with
  | .map =>
    if nl.keys.length != nr.keys.length then none
    else matchEntries keyEq nr.keys nr.kids nl.keys nl.kids
  | .set =>
    if nl.keys.length != nr.keys.length then none
    else if nl.keys.all (fun k => nr.keys.any (keyEq k)) then some [] else none
  | _ =>
    if nl.kids.length != nr.kids.length || (nl.kind == .struct && nl.tag != nr.tag) then none
    else some (nl.kids.zip nr.kids)

/-- arms without children: leaves by value, closures and streams by identity, different kinds differ -/
def eqAtom (g : Graph) (l r : Nat) : Bool :=
  match g.kind l, g.kind r with
  | .leaf, .leaf => (g.node l).tag == (g.node r).tag
  | .closure, .closure => l == r
  | .stream, .stream => l == r
  | _, _ => false

inductive Out
  | ret (b : Bool)
  | cont (pairs : List (Nat × Nat)) (vis : List (Nat × Nat))

/-- the `match (left, right)` of one loop iteration.  `keyEq` compares keys (a nested `==`). -/
def eqArm (c : Cfg) (g : Graph) (keyEq : Nat → Nat → Bool) (l r : Nat) (vis : List (Nat × Nat)) : Out :=
  if !eqDescends (g.kind l) (g.kind r) then (if eqAtom g l r then .cont [] vis else .ret false)
  else if l == r then .cont [] vis                                          -- pointer equality short cut
  else if eqChecked c (g.kind l) (g.kind r) then
    if vis.contains (l, r) then .cont [] vis                                -- `should_visit` = false
    else
      match eqChildren g keyEq l r with
      | none => .ret false
      | some ps => .cont ps ((l, r) :: vis)
  else
    match eqChildren g keyEq l r with
    | none => .ret false
    | some ps => .cont ps vis

def eqStep (c : Cfg) (g : Graph) (keyEq : Nat → Nat → Bool) (s : EqSt) : Step EqSt Bool :=
  match s.work with
  | [] => .done true
  | (l, r) :: rest =>
    match eqArm c g keyEq l r s.vis with
    | .ret b => .done b
    | .cont ps vis' => .next { work := ps.reverse ++ rest, vis := vis' }

/-- keys that are leaves are compared on the spot (the fast path of `PartialEq for SteelVal`) -/
def leafKeyEq (g : Graph) (k k' : Nat) : Bool :=
  (g.kind k == .leaf && g.kind k' == .leaf && (g.node k).tag == (g.node k').tag)

/-- `left == right` with `depth` native re-entries available for keys that are containers: a key comparison
    that is not between leaves calls `==` again (fresh queues, fresh visited set), one native level deeper.
    `none`: out of fuel or out of native depth. -/
def eqRun (c : Cfg) (g : Graph) (fuel : Nat) : Nat → Nat → Nat → Option Bool
  | 0, a, b => iter (eqStep c g (leafKeyEq g)) fuel { work := [(a, b)], vis := [] }
  | d + 1, a, b =>
    iter (eqStep c g (fun k k' =>
      if g.kind k == .leaf || g.kind k' == .leaf then leafKeyEq g k k'
      else (eqRun c g fuel d k k').getD false)) fuel { work := [(a, b)], vis := [] }

/-- all keys of maps and members of sets are leaves -/
def leafKeysB (g : Graph) : Bool := g.all fun n => n.keys.all fun k => g.kind k == .leaf

/-- the comparison used when every key is a leaf (no native re-entry) -/
def eqTop (c : Cfg) (g : Graph) (fuel a b : Nat) : Option Bool :=
  iter (eqStep c g (leafKeyEq g)) fuel { work := [(a, b)], vis := [] }

/-- Guard of the partial theorem: along pairs that are *not* entered into `visited`, the left index decreases.
    (With `eqBoxVisited` and `eqMixVecVisited` every descending arm is checked and the guard is vacuous.) -/
def eqUnchecked (c : Cfg) (g : Graph) (p : Nat × Nat) : Bool :=
  eqDescends (g.kind p.1) (g.kind p.2) && !eqChecked c (g.kind p.1) (g.kind p.2)

def eqUncheckedDescB (c : Cfg) (g : Graph) : Bool :=
  (List.range g.size).all fun l => (List.range g.size).all fun r =>
    !eqUnchecked c g (l, r) ||
      (g.sons l).all fun l' => (g.sons r).all fun r' => !eqUnchecked c g (l', r') || decide (l' < l)

/-! ## Worklists over one graph: the marker, the cycle collector -/

structure WlSt where
  work : List Nat
  vis : List Nat
  deriving Repr

/-- one iteration of a visitor whose `visit_*` methods push the children, with a visited mark on the nodes
    for which `tracked` holds -/
def wlStep (g : Graph) (tracked : Nat → Bool) (s : WlSt) : Step WlSt (List Nat) :=
  match s.work with
  | [] => .done s.vis
  | v :: rest =>
    if tracked v then
      if s.vis.contains v then .next { work := rest, vis := s.vis }
      else .next { work := g.sons v ++ rest, vis := v :: s.vis }
    else .next { work := g.sons v ++ rest, vis := s.vis }

def isContainer : Kind → Bool
  | .leaf => false
  | _ => true

/-- the marker: `reachable` bit on heap slots (boxes, mutable vectors) only -/
def markTracked (c : Cfg) (g : Graph) (v : Nat) : Bool :=
  match g.kind v with
  | .box | .mvec => true
  | .sbox => c.markSboxVisited
  | .leaf => false
  | _ => c.markImmVisited

/-- `MarkAndSweepContext::visit` from the roots; the result is the set of marked nodes -/
def markRun (c : Cfg) (g : Graph) (fuel : Nat) (roots : List Nat) : Option (List Nat) :=
  iter (wlStep g (markTracked c g)) fuel { work := roots, vis := [] }

/-- Guard: untracked nodes only have untracked children of smaller index (immutable values are built from
    values that already exist, so this is how every graph of immutable nodes looks). -/
def untrackedDescB (g : Graph) (tracked : Nat → Bool) : Bool :=
  (List.range g.size).all fun i => tracked i || (g.sons i).all fun j => tracked j || decide (j < i)

/-- The cycle collector (first phase of printing): `add` starts recording once a mutable object was met. -/
structure CcSt where
  work : List Nat
  vis : List Nat
  found : Bool
  deriving Repr

def ccSetsFound (c : Cfg) : Kind → Bool
  | .box | .mvec => true
  | .sbox => c.ccSboxMutable
  | _ => false

/-- kinds on which `add` is called (closures, streams and leaves are not expanded at all) -/
def ccExpands : Kind → Bool
  | .list | .pair | .vec | .mvec | .map | .set | .struct | .box | .sbox => true
  | _ => false

def ccStep (c : Cfg) (g : Graph) (s : CcSt) : Step CcSt (List Nat) :=
  match s.work with
  | [] => .done s.vis
  | v :: rest =>
    if !ccExpands (g.kind v) then .next { s with work := rest }
    else
      let found := s.found || ccSetsFound c (g.kind v)
      if found || c.ccTracksAlways then
        if s.vis.contains v then .next { work := rest, vis := s.vis, found := found }
        else .next { work := g.sons v ++ rest, vis := v :: s.vis, found := found }
      else .next { work := g.sons v ++ rest, vis := s.vis, found := found }

def ccRun (c : Cfg) (g : Graph) (fuel : Nat) (root : Nat) : Option (List Nat) :=
  iter (ccStep c g) fuel { work := [root], vis := [], found := false }

/-- Guard for the cycle collector: nodes that do not switch recording on only have such children of smaller index -/
def ccDescB (c : Cfg) (g : Graph) : Bool :=
  untrackedDescB g fun v => ccSetsFound c (g.kind v) || !ccExpands (g.kind v) || c.ccTracksAlways

/-! ## Drop — `IterativeDropHandler` -/

structure DropSt where
  work : List Nat
  rc : List Nat        -- strong count of every node
  freed : List Nat
  deriving Repr

/-- pop a reference: the count goes down; the holder of the last reference takes the node apart
    (`try_unwrap` / `get_mut` succeed) and the children's references go to the queue.
    (A reference to a node whose count is already 0 cannot exist; the arm is there to make the step total.) -/
def dropStep (g : Graph) (s : DropSt) : Step DropSt (List Nat × List Nat) :=
  match s.work with
  | [] => .done (s.freed, s.rc)
  | v :: rest =>
    let n := s.rc.getD v 0
    if n = 0 then .next { work := rest, rc := s.rc, freed := s.freed }
    else if n = 1 then .next { work := g.sons v ++ rest, rc := s.rc.set v 0, freed := v :: s.freed }
    else .next { work := rest, rc := s.rc.set v (n - 1), freed := s.freed }

/-- number of references to `v` held by nodes of the graph -/
def inDeg (g : Graph) (v : Nat) : Nat := ((List.range g.size).map fun u => (g.sons u).count v).sum

/-- strong counts when the only outside reference is the one to `root` -/
def initRc (g : Graph) (root : Nat) : List Nat :=
  (List.range g.size).map fun v => inDeg g v + (if v = root then 1 else 0)

def dropRun (g : Graph) (fuel : Nat) (root : Nat) : Option (List Nat × List Nat) :=
  iter (dropStep g) fuel { work := [root], rc := initRc g root, freed := [] }

/-- children have smaller indices: the graph is acyclic -/
def acyclicB (g : Graph) : Bool := (List.range g.size).all fun i => (g.sons i).all fun j => decide (j < i)
/-- every child index exists -/
def closedB (g : Graph) : Bool := (List.range g.size).all fun i => (g.sons i).all fun j => decide (j < g.size)

/-! ## Native recursion: depth of the call chain -/

def maxL : List Nat → Nat
  | [] => 0
  | x :: xs => max x (maxL xs)

/-- does `Hash for SteelVal` call itself on the children of this kind? (closures hash their id, streams their address) -/
def hashRecurses : Kind → Bool
  | .leaf | .closure | .stream => false
  | _ => true

/-- Native frames of a function that calls itself on the children `sons v` of every node `v` with `rec v`,
    and does not recurse on the others; cut off after `fuel` levels. -/
def recDepth (sons : Nat → List Nat) (rec : Nat → Bool) : Nat → Nat → Nat
  | 0, _ => 0
  | f + 1, v => if rec v then 1 + maxL ((sons v).map (recDepth sons rec f)) else 1

/-- native frames that `hash` of node `v` uses.  With an explicit stack: one. -/
def hashDepth (c : Cfg) (g : Graph) (fuel v : Nat) : Nat :=
  recDepth g.sons (fun v => !c.hashIterative && hashRecurses (g.kind v)) fuel v

/-- `hash` with `limit` native frames available: `none` = the native stack is exhausted -/
def hashLim (g : Graph) : Nat → Nat → Option Unit
  | 0, _ => none
  | lim + 1, v =>
    if hashRecurses (g.kind v) then
      if (g.sons v).all fun j => (hashLim g lim j).isSome then some () else none
    else some ()

/-- height of the value: longest path to a leaf, cut off after `fuel` levels -/
def height (g : Graph) : Nat → Nat → Nat
  | 0, _ => 0
  | f + 1, v => 1 + maxL ((g.sons v).map (height g f))

/-- kinds whose Display calls `Display for SteelVal` again (fresh depth counter, fresh cycle table) -/
def printReenters (c : Cfg) : Kind → Bool
  | .box | .sbox => !c.printBoxNoReentry
  | .map | .set => !c.printMapNoReentry
  | _ => false

def printLimit : Nat := 128

/-- native frames of `format_with_cycles` on node `v` when the depth counter is `ctr` -/
def printDepth (c : Cfg) (g : Graph) : Nat → Nat → Nat → Nat
  | 0, _, _ => 0
  | f + 1, ctr, v =>
    if ctr ≥ printLimit then 1                              -- prints `...`
    else
      match g.kind v with
      | .leaf | .closure | .stream => 1
      | k =>
        if printReenters c k then 1 + maxL ((g.sons v).map (printDepth c g f 0))
        else 1 + maxL ((g.sons v).map (printDepth c g f (ctr + 1)))

/-- kinds that have no `Drop` impl of their own: released by the compiler-generated recursive drop glue -/
def dropNativeKind (c : Cfg) : Kind → Bool
  | .pair | .set => !c.dropPairSetIterative
  | .sbox | .closure => !c.dropClosureBoxIterative
  | _ => false

/-- native frames of dropping the last reference to `v`: recursive glue until a kind with a `Drop` impl hands
    everything below it to the worklist -/
def dropDepth (c : Cfg) (g : Graph) (fuel v : Nat) : Nat :=
  recDepth g.sons (fun v => dropNativeKind c (g.kind v)) fuel v

/-- the keys of a node that are containers -/
def containerKeys (g : Graph) (v : Nat) : List Nat := (g.node v).keys.filter fun k => g.kind k != .leaf

/-- native re-entries of `==` for keys: a map / set whose key is a container compares it by calling `==` again -/
def eqKeyDepth (c : Cfg) (g : Graph) (fuel v : Nat) : Nat :=
  recDepth (containerKeys g) (fun _ => !c.eqKeysIterative) fuel v

/-! ## Shapes -/

/-- a chain of `n` nodes of kind `k` above a leaf: node 0 is the leaf, node `i+1` has the single child `i` -/
def chain (k : Kind) (n : Nat) : Graph :=
  Array.ofFn (n := n + 1) fun i => if i.val = 0 then { kind := .leaf } else { kind := k, kids := [i.val - 1] }

/-- a chain of maps whose single key is the map below -/
def keyChain (n : Nat) : Graph :=
  Array.ofFn (n := n + 1) fun i =>
    if i.val = 0 then { kind := .leaf } else { kind := .map, keys := [i.val - 1], kids := [0] }

/-- a cycle of `n ≥ 1` nodes of kind `k`: node `i` points to `i+1`, the last one back to 0 -/
def ring (k : Kind) (n : Nat) : Graph :=
  Array.ofFn (n := n) fun i => { kind := k, kids := [(i.val + 1) % n] }

/-- two disjoint rings of kind `k` and length `n`: nodes `0..n-1` and `n..2n-1` -/
def twoRings (k : Kind) (n : Nat) : Graph :=
  Array.ofFn (n := 2 * n) fun i =>
    if i.val < n then { kind := k, kids := [(i.val + 1) % n] } else { kind := k, kids := [n + (i.val - n + 1) % n] }

/-- the doubling dag: node 0 a leaf, node `i+1` a list holding node `i` twice -/
def dag (n : Nat) : Graph :=
  Array.ofFn (n := n + 1) fun i => if i.val = 0 then { kind := .leaf } else { kind := .list, kids := [i.val - 1, i.val - 1] }

/-! ## The worklist visitor as a machine with an explicit native call stack

`BreadthFirstSearchSteelValVisitor::visit` is a `while let Some(value) = self.pop_front()` loop that calls
`self.visit_<kind>(value)`; that method either iterates over the children and calls `self.push_back(child)` for each
(the untracked kinds), or calls a helper (`mark_heap_reference` / `mark_heap_vector` in the marker, `add` in the
cycle collector) that tests and sets the visited mark and pushes the children.  The machine below has one frame per
ACTIVE CALL — the native stack — and the queue and the visited marks as heap state; one step is one call, one return,
or one queue operation.  `sons v` is the order in which the children are pushed. -/

inductive Frame
  /-- `visit`: the loop -/
  | visit
  /-- `visit_<kind>(v)`; `none`: just entered, `some cs`: in its `for` loop with `cs` still to push (or, for a tracked
      kind, waiting for the helper with nothing to push itself) -/
  | kind (v : Nat) (todo : Option (List Nat))
  /-- `mark_heap_reference(v)` / `add(v)`; `none`: just entered (reads the mark), `some cs`: pushing -/
  | helper (v : Nat) (todo : Option (List Nat))
  /-- `push_back(c)` -/
  | push (c : Nat)
  deriving DecidableEq, Repr

structure MSt where
  stack : List Frame      -- native call stack, innermost frame first
  queue : List Nat        -- the `Vec` / `VecDeque` of the visitor (heap)
  vis : List Nat          -- `reachable` bits / `visited` set (heap)
  found : Bool := false   -- `found_mutable` of the cycle collector (the marker never sets it)
  deriving Repr

/-- `sons v`: the children `visit_<kind>(v)` pushes, in that order; `setsFound v`: the method sets `found_mutable`;
    `tracked found v`: the method goes through the helper that tests and sets the visited mark. -/
def mStep (sons : Nat → List Nat) (setsFound : Nat → Bool) (tracked : Bool → Nat → Bool) (s : MSt) : Step MSt (List Nat) :=
  match s.stack with
  | [] => .done s.vis                                                        -- `visit` has returned
  | .visit :: rest =>
    match s.queue with
    | [] => .next { s with stack := rest }                                   -- queue empty: return
    | v :: q => .next { s with stack := .kind v none :: .visit :: rest, queue := q }     -- pop, call `visit_<kind>`
  | .kind v none :: rest =>
    let found := s.found || setsFound v
    if tracked found v then .next { s with stack := .helper v none :: .kind v (some []) :: rest, found := found }   -- call the helper
    else .next { s with stack := .kind v (some (sons v)) :: rest, found := found }
  | .kind _ (some []) :: rest => .next { s with stack := rest }              -- return
  | .kind v (some (c :: cs)) :: rest => .next { s with stack := .push c :: .kind v (some cs) :: rest }
  | .helper v none :: rest =>
    if s.vis.contains v then .next { s with stack := rest }                  -- already marked: return
    else .next { s with stack := .helper v (some (sons v)) :: rest, vis := v :: s.vis }
  | .helper _ (some []) :: rest => .next { s with stack := rest }
  | .helper v (some (c :: cs)) :: rest => .next { s with stack := .push c :: .helper v (some cs) :: rest }
  | .push c :: rest => .next { s with stack := rest, queue := c :: s.queue } -- the push itself, return

/-- `n` steps of a loop body; `none` if the loop finished earlier -/
def runN {σ ρ : Type} (step : σ → Step σ ρ) : Nat → σ → Option σ
  | 0, s => some s
  | n + 1, s =>
    match step s with
    | .next s' => runN step n s'
    | .done _ => none

/-- the state in which `visit` is called: one frame, the roots in the queue -/
def mInit (roots : List Nat) : MSt := { stack := [.visit], queue := roots, vis := [] }

/-- deepest native stack and longest queue seen while running the machine for at most `fuel` steps, and the result -/
def mProfile (sons : Nat → List Nat) (setsFound : Nat → Bool) (tracked : Bool → Nat → Bool) :
    Nat → MSt → Nat → Nat → Nat × Nat × Option (List Nat)
  | 0, s, d, q => (max d s.stack.length, max q s.queue.length, none)
  | f + 1, s, d, q =>
    match mStep sons setsFound tracked s with
    | .done r => (max d s.stack.length, max q s.queue.length, some r)
    | .next s' => mProfile sons setsFound tracked f s' (max d s.stack.length) (max q s.queue.length)

/-- the marker as a machine -/
def markMachine (c : Cfg) (g : Graph) : MSt → Step MSt (List Nat) :=
  mStep g.sons (fun _ => false) (fun _ v => markTracked c g v)

/-- the cycle collector as a machine: kinds it does not expand have empty methods -/
def ccSons (g : Graph) (v : Nat) : List Nat := if ccExpands (g.kind v) then g.sons v else []
def ccMachine (c : Cfg) (g : Graph) : MSt → Step MSt (List Nat) :=
  mStep (ccSons g) (fun v => ccSetsFound c (g.kind v)) (fun found v => ccExpands (g.kind v) && (found || c.ccTracksAlways))

/-- native frames of the worklist visitors: `visit`, `visit_<kind>`, the helper, `push_back` -/
def wlFrames : Nat := 4

/-- number of edges of the graph -/
def Graph.edges (g : Graph) : Nat := ((List.range g.size).map fun v => (g.sons v).length).sum

/-! ## Sweep, and what the reference counts do with cycles

After the mark phase a heap slot is free iff its `reachable` bit is off (`FreeList::collect_on_condition`,
`mark_all_unreachable`; the number of free slots is `len − reached`): one pass over the slot array. -/

structure SweepSt where
  todo : List Nat
  free : List Nat
  deriving Repr

def sweepStep (marked : List Nat) (s : SweepSt) : Step SweepSt (List Nat) :=
  match s.todo with
  | [] => .done s.free
  | v :: rest => .next { todo := rest, free := if marked.contains v then s.free else v :: s.free }

/-- the heap slots of a graph: boxes and mutable vectors -/
def slots (g : Graph) : List Nat := (List.range g.size).filter fun v => g.kind v == .box || g.kind v == .mvec

/-- a full collection: mark from the roots, then sweep the slot array; the result is the list of freed slots -/
def collectRun (c : Cfg) (g : Graph) (fuel : Nat) (roots : List Nat) : Option (List Nat) :=
  (markRun c g fuel roots).bind fun m => iter (sweepStep m) fuel { todo := slots g, free := [] }

/-! ## `serialize-value` — `into_serializable_value` (native recursion; heap slots are remembered in `ctx.visited`) -/

/-- kinds on which `into_serializable_value` calls itself for the children (a strong box is refused with an error) -/
def serRecurses : Kind → Bool
  | .leaf | .sbox => false
  | _ => true

/-- fold over the children, threading the visited set, taking the deepest child -/
def foldSer (go : List Nat → Nat → Nat × List Nat) : List Nat → List Nat → Nat × List Nat
  | vis, [] => (0, vis)
  | vis, c :: cs =>
    let r1 := go vis c
    let r2 := foldSer go r1.2 cs
    (max r1.1 r2.1, r2.2)

/-- (native frames, visited slots) of serialising node `v`, recursion cut off after `fuel` levels -/
def serGo (g : Graph) : Nat → List Nat → Nat → Nat × List Nat
  | 0, vis, _ => (0, vis)
  | f + 1, vis, v =>
    if !serRecurses (g.kind v) then (1, vis)
    else if g.kind v == .box || g.kind v == .mvec then
      if vis.contains v then (1, vis)                       -- `ctx.visited.contains(..)`: a reference, no descent
      else
        let r := foldSer (serGo g f) (v :: vis) (g.sons v)
        (1 + r.1, r.2)
    else
      let r := foldSer (serGo g f) vis (g.sons v)
      (1 + r.1, r.2)

def serDepth (g : Graph) (fuel v : Nat) : Nat := (serGo g fuel [] v).1

/-! ## Printing, second phase — `CycleDetector::start_format` / `format_with_cycles` with the cycle table

The first phase hands over `labels` (the nodes met again while recording, in the order they were found).  The
second phase prints `#i=` + the labelled value (`TopLevel`) for every label, then the value itself; inside, a labelled
node is written `#i#` and not entered; below depth `printLimit` it writes `...`. -/

inductive PTok
  | atom (v : Nat)       -- a leaf, a closure, a stream: constant text
  | open (v : Nat)       -- `(`, `#(`, `'#&`, `(name` …
  | close
  | ref (i : Nat)        -- `#i#`
  | dots                 -- `...`
  deriving DecidableEq, Repr

/-- all children formatted, in order; `none` as soon as one of them runs out of native stack -/
def fmtList (go : Nat → Option (List PTok)) : List Nat → Option (List PTok)
  | [] => some []
  | c :: cs =>
    match go c, fmtList go cs with
    | some a, some b => some (a ++ b)
    | _, _ => none

/-- `format_with_cycles(v)` with `fuel` native frames available, depth counter `ctr`; `top`: `FormatType::TopLevel` -/
def fmtOut (c : Cfg) (g : Graph) (labels : List Nat) : Nat → Nat → Bool → Nat → Option (List PTok)
  | 0, _, _, _ => none
  | f + 1, ctr, top, v =>
    if ctr ≥ printLimit then some [.dots]
    else
      match g.kind v with
      | .leaf | .closure | .stream => some [.atom v]
      | k =>
        if !top && labels.contains v then some [.ref (labels.idxOf v)]
        else
          match fmtList (fmtOut c g labels f (if printReenters c k then 0 else ctr + 1) false) (g.sons v) with
          | some body => some (.open v :: body ++ [.close])
          | none => none

/-- `start_format`: one header per label, then the value (unless it is itself a labelled value) -/
def fmtAll (c : Cfg) (g : Graph) (labels : List Nat) (fuel root : Nat) : Option (List PTok) :=
  match fmtList (fun l => fmtOut c g labels fuel 0 true l) labels with
  | none => none
  | some hs =>
    if labels.contains root then some hs
    else (fmtOut c g labels fuel 0 false root).map fun r => hs ++ r

/-! ## The prelude's printer (`scheme/print.scm`) on cyclic values

`display` walks the value in Scheme — no depth limit — and stops at a node for which the cycle collector handed out
a label.  The labels are the expanded nodes met *again while recording* (`CycleCollector::add`), and recording
starts at the first mutable object.  The printer never sees the slot of a mutable struct field (the accessor unboxes
it), so a label on such a slot stops nothing. -/

/-- the labels: run the cycle collector and remember the nodes found in `visited` -/
def ccLabels (c : Cfg) (g : Graph) : Nat → CcSt → List Nat → List Nat
  | 0, _, labels => labels
  | f + 1, s, labels =>
    match s.work with
    | [] => labels
    | v :: _ =>
      let hit := ccExpands (g.kind v) && (s.found || ccSetsFound c (g.kind v) || c.ccTracksAlways) && s.vis.contains v
      match ccStep c g s with
      | .done _ => labels
      | .next s' => ccLabels c g f s' (if hit && !labels.contains v then v :: labels else labels)

/-- the `tag` (type) of the struct nodes that stand for a struct type declared `#:mutable` -/
def mutableStructTag : Nat := 2

/-- where the printer goes from a node it has entered -/
def printerSons (g : Graph) (v : Nat) : List Nat :=
  match g.kind v with
  | .list | .pair | .vec | .mvec | .map | .set => g.sons v
  | .struct =>
    -- a struct type declared `#:mutable` keeps every field in a slot and its fields arrive unboxed; the field of an
    -- immutable struct that happens to hold a box arrives as that box (and the printer stops at it if it is labelled)
    if (g.node v).tag == mutableStructTag then (g.sons v).map fun j => if g.kind j == .box then (g.sons j).headD j else j
    else g.sons v
  | _ => []            -- boxes are handed to `Display for SteelVal`, closures / streams / leaves print a constant

/-- recursion depth of the printer from `v` (cut off after `fuel` levels): it does not enter a labelled node -/
def preludeDepth (g : Graph) (labels : List Nat) : Nat → Bool → Nat → Nat
  | 0, _, _ => 0
  | f + 1, top, v =>
    if !top && labels.contains v then 1
    else 1 + maxL ((printerSons g v).map (preludeDepth g labels f false))

/-- Guard: from every node the printer only goes to labelled nodes or to nodes of smaller index -/
def labelsCutB (g : Graph) (labels : List Nat) : Bool :=
  (List.range g.size).all fun v => (printerSons g v).all fun j => labels.contains j || decide (j < v)

/-- a mutable struct whose field holds the struct itself: node 0 the struct, node 1 the slot of its field (K18k) -/
def selfStruct : Graph := #[{ kind := .struct, tag := 2, kids := [1] }, { kind := .box, kids := [0] }]

/-! ## Operations and their cost -/

inductive Op
  | eq | hash | collect | print | mark | drop | send | serialize
  deriving DecidableEq, Repr

/-- How an operation walks a value kind. -/
inductive Trav
  | iterative                    -- worklist: constant native depth
  | recBounded (limit : Nat)     -- native recursion below an explicit depth limit
  | recUnbounded                 -- native recursion as deep as the value
  deriving DecidableEq, Repr

/-- Abstract native frames used by `op` on value `v` of graph `g` (recursion / machine steps cut off after `fuel`).
    For the marker and the cycle collector: the deepest native stack the visitor machine reaches; sending a value to
    another thread moves one reference (`as_rooted`), nothing is walked. -/
def nativeDepth (c : Cfg) (op : Op) (g : Graph) (fuel v : Nat) : Nat :=
  match op with
  | .eq => eqKeyDepth c g fuel v
  | .hash => hashDepth c g fuel v
  | .collect =>
    (mProfile (ccSons g) (fun v => ccSetsFound c (g.kind v)) (fun found v => ccExpands (g.kind v) && (found || c.ccTracksAlways))
      fuel (mInit [v]) 0 0).1
  | .print => 1 + printDepth c g fuel 0 v
  | .mark => (mProfile g.sons (fun _ => false) (fun _ v => markTracked c g v) fuel (mInit [v]) 0 0).1
  | .drop => dropDepth c g fuel v
  | .send => 1
  | .serialize => serDepth g fuel v

/-- is the operation a worklist for every value kind under configuration `c`? -/
def Op.iterativeIn (c : Cfg) : Op → Bool
  | .eq => c.eqKeysIterative
  | .hash => c.hashIterative
  | .collect | .mark | .send => true
  | .print => false               -- recursion below the depth limit
  | .drop => c.dropPairSetIterative && c.dropClosureBoxIterative
  | .serialize => false           -- `into_serializable_value` calls itself

end SteelVerif.C18
