/-
C01 tie, part 1 — REAL BYTECODE REPLAY: reading a listing of the real compiler (`Engine::debug_build_strings`, one
line per instruction: `index  OPCODE : payload  text`) into `List C01C.Instr`, by the table in the header of
`Core.lean`.  Nothing here is proved; it is the (inspectable, executable) reading of the real listing format.

* `parseLine`   one listing line → `Line` (index, op code name, payload, text column).
* `toInstr`     `Line` → `Instr` (strict: an op code / constant the core model does not have is reported by name).
* global slots  the harness makes the listing from a CLONE of the program before the engine builds and runs the
                original; both register the unit's definitions in the symbol map, so the slots of the unit's own
                definitions in the listing are provisional.  The harness prints the symbol table rows added by the
                unit (`\x1eG base name name …`); `Remap.slot` replaces a provisional slot (≥ base) by the last slot
                registered under the same name — the one the engine really bound.  All other slots are the real ones.
* primitives    the harness prints the slot of each modelled primitive name (`\x1eK name slot`); the initial global
                table of the model is exactly these rows (`primTable`).
-/
import SteelVerif.C01.Core
namespace SteelVerif.C01BC
open SteelVerif.C01C

structure Line where
  idx : Nat
  op : String
  payload : Nat
  text : String
deriving Repr, Inhabited

def skipSp : List Char → List Char
  | ' ' :: r => skipSp r
  | l => l

def takeWord : List Char → List Char → List Char × List Char
  | [], acc => (acc.reverse, [])
  | ' ' :: r, acc => (acc.reverse, ' ' :: r)
  | c :: r, acc => takeWord r (c :: acc)

/-- `index  OPCODE : payload  text`. -/
def parseLine (s : String) : Option Line :=
  let (w1, r1) := takeWord (skipSp s.toList) []
  let (w2, r2) := takeWord (skipSp r1) []
  let (w3, r3) := takeWord (skipSp r2) []
  let (w4, r4) := takeWord (skipSp r3) []
  match (String.ofList w1).toNat?, (String.ofList w4).toNat? with
  | some i, some p =>
      if w3 == [':'] && !w2.isEmpty then
        some { idx := i, op := String.ofList w2, payload := p, text := (String.ofList (skipSp r4)).trimAscii.toString }
      else none
  | _, _ => none

/-- The symbol-table rows a unit added: `base` = table length before the unit, `names[i]` = name of slot `base+i`. -/
structure Remap where
  base : Nat
  names : List String
  limit : Nat := 0            -- number of symbol-table rows of a fresh engine: slots below are built-ins
  known : List Nat := []      -- slots of the built-ins the model has
deriving Repr, Inhabited


def lastIdx (names : List String) (n : String) : Option Nat :=
  let rec go (l : List String) (i : Nat) (best : Option Nat) : Option Nat :=
    match l with
    | [] => best
    | x :: r => go r (i + 1) (if x == n then some i else best)
  go names 0 none

def Remap.slot (r : Remap) (g : Nat) : Nat :=
  if g < r.base then g
  else
    match r.names[g - r.base]? with
    | none => g
    | some n =>
      match lastIdx r.names n with
      | some i => r.base + i
      | none => g

/-- A reference to a built-in the model does not have is reported by name. -/
def Remap.glob (r : Remap) (g : Nat) (text : String) : Except String Nat :=
  if g < r.limit && !r.known.contains g then .error s!"builtin:{text}" else .ok (r.slot g)

def constOfAtom (t : String) : Option Const :=
  match t.toInt? with
  | some n => some (.int n)
  | none =>
    if t == "#true" || t == "#t" then some (.bool true)
    else if t == "#false" || t == "#f" then some (.bool false)
    else if t == "#<void>" then some .void
    else none

/-- The text column of `PUSHCONST`: an atom, or `(quote atom)` (what constant propagation leaves behind). -/
def constOfText (t : String) : Option Const :=
  if t.startsWith "(quote " && t.endsWith ")" then
    constOfAtom ((t.drop 7).dropEnd 1).trimAscii.toString
  else constOfAtom t

/-- What kind of constant the text column shows (for the evidence: why a listing is outside the core model). -/
def constKind (t : String) : String :=
  if t.startsWith "\"" then "string"
  else if t.startsWith "(quote" || t.startsWith "'" then "quoted"
  else if t.startsWith "#\\" then "char"
  else if t.any (· == '.') || t.any (· == '/') then "number"
  else "other"

/-- One line → one instruction.  `prev` / `prev2` = the op codes of the one / two lines before (the words that follow
a closure header). -/
def toInstr (rm : Remap) (prev2 prev : String) (l : Line) : Except String Instr :=
  let p := l.payload
  match l.op with
  | "PUSHCONST" =>
      match constOfText l.text with
      | some c => .ok (.PUSHCONST c)
      | none => .error s!"PUSHCONST:{constKind l.text}"
  | "LOADINT0" => .ok .LOADINT0
  | "LOADINT1" => .ok .LOADINT1
  | "LOADINT2" => .ok .LOADINT2
  | "TRUE" => .ok .TRUE
  | "FALSE" => .ok .FALSE
  | "VOID" => .ok .VOID
  | "PUSH" => (rm.glob p l.text).map .PUSH
  | "READLOCAL" | "READLOCAL0" | "READLOCAL1" | "READLOCAL2" | "READLOCAL3" => .ok (.READLOCAL p)
  | "MOVEREADLOCAL" | "MOVEREADLOCAL0" | "MOVEREADLOCAL1" | "MOVEREADLOCAL2" | "MOVEREADLOCAL3" =>
      .ok (.MOVEREADLOCAL p)
  | "READCAPTURED" => .ok (.READCAPTURED p)
  | "SETLOCAL" => .ok (.SETLOCAL p)
  | "IF" => .ok (.IF p)
  | "JMP" => .ok (.JMP p)
  | "POPJMP" => .ok .POPJMP
  | "NEWSCLOSURE" => .ok (.NEWSCLOSURE p)
  | "PUREFUNC" => .ok (.PUREFUNC p)
  | "PASS" =>
      -- header, PASS rest-flag, PASS function-id: the id is normalised to 0 (the VM never reads it)
      if prev == "NEWSCLOSURE" || prev == "PUREFUNC" then .ok (.PASS p)
      else if prev == "PASS" && (prev2 == "NEWSCLOSURE" || prev2 == "PUREFUNC") then .ok (.PASS 0)
      else .ok (.PASS 0)
  | "NDEFS" => .ok (.NDEFS p)
  | "COPYCAPTURESTACK" => .ok (.COPYCAPTURESTACK p)
  | "COPYCAPTURECLOSURE" => .ok (.COPYCAPTURECLOSURE p)
  | "ECLOSURE" => .ok (.ECLOSURE p)
  | "NEWBOX" => .ok .NEWBOX
  | "UNBOX" => .ok .UNBOX
  | "SETBOX" => .ok .SETBOX
  | "FUNC" => .ok (.FUNC p)
  | "TAILCALL" => .ok (.TAILCALL p)
  | "TCOJMP" => .ok (.TCOJMP p)
  | "CALLGLOBAL" => (rm.glob p l.text).map .CALLGLOBAL
  | "CALLGLOBALTAIL" => (rm.glob p l.text).map .CALLGLOBALTAIL
  | "POPPURE" => .ok .POPPURE
  | "POPSINGLE" => .ok .POPSINGLE
  | "BEGINSCOPE" => .ok .BEGINSCOPE
  | "LetVar" => .ok .LETVAR
  | "LETENDSCOPE" => .ok (.LETENDSCOPE p)
  | "SDEF" => .ok .SDEF
  | "EDEF" => .ok .EDEF
  | "BIND" => (rm.glob p l.text).map .BIND
  | "SET" => (rm.glob p l.text).map .SET
  | other => .error other

/-- The op-code names `toInstr` accepts (= the real names of the constructors of `Instr`, incl. the specialised
read-local forms); `PropsTie` proves each of them is in the real enum and has a dispatch arm. -/
def modelledOpNames : List String :=
  ["PUSHCONST", "LOADINT0", "LOADINT1", "LOADINT2", "TRUE", "FALSE", "VOID", "PUSH",
   "READLOCAL", "READLOCAL0", "READLOCAL1", "READLOCAL2", "READLOCAL3",
   "MOVEREADLOCAL", "MOVEREADLOCAL0", "MOVEREADLOCAL1", "MOVEREADLOCAL2", "MOVEREADLOCAL3",
   "READCAPTURED", "SETLOCAL", "IF", "JMP", "POPJMP", "NEWSCLOSURE", "PUREFUNC", "PASS", "NDEFS",
   "COPYCAPTURESTACK", "COPYCAPTURECLOSURE", "ECLOSURE", "NEWBOX", "UNBOX", "SETBOX", "FUNC", "TAILCALL",
   "TCOJMP", "CALLGLOBAL", "CALLGLOBALTAIL", "POPPURE", "POPSINGLE", "BEGINSCOPE", "LetVar", "LETENDSCOPE",
   "SDEF", "EDEF", "BIND", "SET"]

/-- A whole listing; the result is the instruction list or the list of reasons it is outside the model. -/
def toCode (rm : Remap) (ls : List Line) : Except (List String) (List Instr) :=
  let rec go (l : List Line) (prev2 prev : String) (acc : List Instr) (bad : List String) :
      List Instr × List String :=
    match l with
    | [] => (acc.reverse, bad.reverse)
    | x :: r =>
      match toInstr rm prev2 prev x with
      | .ok i => go r prev x.op (i :: acc) bad
      | .error e => go r prev x.op acc (e :: bad)
  let (code, bad) := go ls "" "" [] []
  if bad.isEmpty then .ok code else .error bad

/-- The primitives of the core model by their Steel names. -/
def primOfName : String → Option Prim
  | "+" => some .add
  | "-" => some .sub
  | "*" => some .mul
  | "<" => some .lt
  | "<=" => some .le
  | "=" => some .eq
  | _ => none

/-! ## Printing values in the harness' format (`Display` of `SteelVal`); every procedure prints as `#<procedure>`
(the check canonicalises the real side in the same way). -/

partial def showV {α : Type} : V α → String
  | .int n => toString n
  | .bool true => "#true"
  | .bool false => "#false"
  | .void => "#<void>"
  | .box a => s!"#<box {a}>"
  | .prim _ => "#<procedure>"
  | .clo _ _ _ _ => "#<procedure>"
  | .list xs => "(" ++ " ".intercalate (xs.map showV) ++ ")"

def showErr : Err → String
  | .arity => "arity"
  | .type => "type"
  | .notproc => "notproc"
  | .free => "free"
  | .bad => "bad"

end SteelVerif.C01BC
