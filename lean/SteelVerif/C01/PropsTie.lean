/-
C01 tie — obligations between the model's instruction alphabet and the real op codes (tables regenerated from /repo by
translate/c01_opcodes.py on every run).

* `modelled_opcodes_exist`        every op-code name the listing reader `C01BC.toInstr` maps to a constructor of
                                  `C01C.Instr` is a variant of the real `enum OpCode`;
* `executed_opcodes_dispatched`   every one of them that the model VM EXECUTES (`C01C.step` has a behaviour for it) has an
                                  arm in the dispatch loop of steel_vm/vm.rs;
* `word_opcodes_not_dispatched`   the four that `C01C.step` treats as words only read by the instruction before them
                                  (`NDEFS`, `COPYCAPTURESTACK`, `COPYCAPTURECLOSURE`, `ECLOSURE`: `step` yields `bad` on them)
                                  have NO arm in the real loop either — the real VM never dispatches on them;
* `reader_only_modelled`          the reader accepts no other op-code name.
If an op code is removed or renamed in /repo, or its arm is deleted, the regenerated table makes `decide` fail.
-/
import SteelVerif.C01.BCParse
import SteelVerif.C01.BCExt
import SteelVerif.C01.GenOpcodes
namespace SteelVerif.C01BC
open SteelVerif.C01C SteelVerif.C01Gen

/-- The op codes that are only data words of the instruction before them. -/
def wordOpNames : List String := ["NDEFS", "COPYCAPTURESTACK", "COPYCAPTURECLOSURE", "ECLOSURE"]

theorem modelled_opcodes_exist : modelledOpNames.all (fun n => realOpcodes.contains n) = true := by decide

theorem executed_opcodes_dispatched :
    (modelledOpNames.filter (fun n => !wordOpNames.contains n)).all (fun n => dispatchArms.contains n) = true := by
  decide

theorem word_opcodes_not_dispatched : wordOpNames.all (fun n => !dispatchArms.contains n) = true := by decide

/-- `step` indeed yields `bad` on each of the four word op codes, whatever the configuration. -/
theorem word_opcodes_bad_in_model (c : Cfg) (i : Instr) (h : c.code[c.ip]? = some i)
    (hi : (∃ n, i = .NDEFS n) ∨ (∃ n, i = .COPYCAPTURESTACK n) ∨ (∃ n, i = .COPYCAPTURECLOSURE n) ∨ (∃ n, i = .ECLOSURE n)) :
    (match step c with | .err .bad => true | _ => false) = true := by
  rcases hi with ⟨n, rfl⟩ | ⟨n, rfl⟩ | ⟨n, rfl⟩ | ⟨n, rfl⟩ <;> simp [step, h]

/-- The reader maps a line to an instruction only if its op-code name is in `modelledOpNames`. -/
theorem reader_only_modelled (rm : Remap) (p2 p : String) (l : Line) (i : Instr)
    (h : toInstr rm p2 p l = .ok i) : l.op ∈ modelledOpNames := by
  unfold toInstr at h
  split at h <;> simp_all [modelledOpNames]

/-- The op codes the extended VM (`BCExt.xStep`) accepts beyond the core are real op codes; the two that are dispatched
on (`CALLGLOBALNOARITY`, `CALLGLOBALTAILNOARITY`) have an arm in the real loop; `FUNCNOARITY` / `TAILCALLNOARITY` are the
operand-count words that follow them (the real loop has no arm for them either). -/
theorem extended_opcodes_exist : xOps.all (fun n => realOpcodes.contains n) = true := by decide

theorem extended_call_opcodes_dispatched :
    ["CALLGLOBALNOARITY", "CALLGLOBALTAILNOARITY"].all (fun n => dispatchArms.contains n) = true ∧
    ["FUNCNOARITY", "TAILCALLNOARITY"].all (fun n => !dispatchArms.contains n) = true := by decide

/-- The specialised op codes seen in module-mode listings are real op codes, and all but `CALLPRIMITIVE` (rewritten
before execution; the loop has no arm for it) have a dispatch arm. -/
theorem specialised_opcodes_exist : specialisedOps.all (fun n => realOpcodes.contains n) = true := by decide

theorem specialised_opcodes_dispatched :
    (specialisedOps.filter (· != "CALLPRIMITIVE")).all (fun n => dispatchArms.contains n) = true := by decide

-- non-vacuity: the tables are not empty and the reader does accept real lines
example : realOpcodes.length ≥ 100 ∧ dispatchArms.length ≥ 80 := by decide
example : toInstr { base := 0, names := [] } "" "" ⟨12, "READLOCAL2", 2, "##x3"⟩ = .ok (.READLOCAL 2) := by
  simp [toInstr]

end SteelVerif.C01BC
