/-
C01 — parsing of lowered-core programs in the text form the generators emit (shared by the C01 and C09 drivers).
-/
import SteelVerif.Base.Sexp
import SteelVerif.C01.Frag
namespace SteelVerif.C01
open SteelVerif.Base

/-! ### `frag` mode: the lowered-core fragment — reference semantics `evalIR` and the VM `runVM` on the same
program.  Input: lines `fn <arity> <ir>` … `main <ir>`; output `ref=<value|none> vm=<value|none>`. -/

partial def parseIR : Sexp → Option IR
  | .list [.sym "c", .int n] => some (.const (.int n))
  | .list [.sym "t"] => some (.const (.bool true))
  | .list [.sym "f"] => some (.const (.bool false))
  | .list [.sym "l", .int i] => some (.loc i.toNat)
  | .list [.sym "p", .sym op, a, b] => do
      let o ← match op with
        | "add" => some Op.add | "sub" => some Op.sub | "mul" => some Op.mul
        | "lt" => some Op.lt | "le" => some Op.le | "eq" => some Op.eq | _ => none
      some (.prim o (← parseIR a) (← parseIR b))
  | .list [.sym "if", c, t, e] => do some (.ite (← parseIR c) (← parseIR t) (← parseIR e))
  | .list [.sym "let", e, b] => do some (.let1 (← parseIR e) (← parseIR b))
  | .list [.sym "seq", a, b] => do some (.seq (← parseIR a) (← parseIR b))
  | .list [.sym "set", .int i, e] => do some (.setLoc i.toNat (← parseIR e))
  | .list (.sym "call" :: .int f :: args) => do some (.call f.toNat (← args.mapM parseIR))
  | _ => none

def showFVal : Option C01.Val → String
  | some (.int n) => toString n
  | some (.bool true) => "#true"
  | some (.bool false) => "#false"
  | none => "none"


end SteelVerif.C01
